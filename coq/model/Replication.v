(* C09 -- model of record replication between neighbouring nodes.

   What is modelled (one-to-one with the code it is anchored in):
   * try_interval_replication (ant-networking/src/cmd.rs): the list sent is values(store index),
     i.e. every held (address, record type), to every replicate candidate, nothing when empty;
   * add_keys_to_replication_fetcher (event/request_response.rs): a list is acted on only when its
     holder is one of the K closest peers and is not this node;
   * ReplicationFetcher::add_keys as far as C09 needs it (the full transcription and its theorems are
     model/Fetcher.v, C08): advertised keys that are held locally -- BY KEY, whatever the advertised
     version -- or already in flight for that (key, type) are skipped; the others are fetched from
     the holder (within the parallel-fetch cap: the envelope [fits] below) and stay in flight until a
     record is stored under that key;
   * fetch_replication_keys_without_wait + handle_query(GetReplicatedRecord) (ant-node): the holder
     serves what its store returns for the key; the fetcher hands it to store_replicated_in_record;
   * store_replicated_in_record (ant-node/src/put_validation.rs) at the granularity of C07's
     results: an absent key takes a valid record; a held chunk is left alone; a scratchpad is
     replaced only by a validly signed one with a strictly higher counter; registers with the same
     base merge to the union of their (valid) operations; transaction sets merge to the union.

   * get_closest_k_value_local_peers (driver.rs): the node itself followed by the K_VALUE - 1 nearest
     routing-table peers -- K_VALUE entries INCLUDING self; the routing table is a list of peers with
     their XOR distance to the node, [closest] sorts it;
   * the responsible range: the record store's range (set_distance_range) and the fetcher's range
     (ReplicationFetcher::distance_range) are two fields; the fetcher's is ASSIGNED the store's current
     value where the code does it -- after every LocalSwarmCmd::PutLocalRecord (cmd.rs) -- and is
     otherwise left alone (the density tick of driver.rs sets both at once; not reachable here);
   * ReplicationFetcher::add_keys' range filter: when the number of advertised entries that survive
     the held filter is exactly one, that entry takes the "new data" fast path which skips the range
     check (C08's F15); otherwise entries farther than the fetcher's range are dropped.

   Abstractions: keys, peers, contents are identifiers; a record's content carries whether it is
   valid for the key it is stored under (signatures / content address are C04, C06, C07);
   [H] maps a stored content to the identifier of the content hash used in its record-type tag;
   [D p k] is the distance between node p and key k (any function). *)
From Coq Require Import List NArith Bool.
From V Require Import gen.Consts.
Import ListNotations.
Open Scope N_scope.

Definition key := N.
Definition peer := N.

Inductive rtype := TChunk | TPad | TNonChunk (h : N).

Inductive content :=
| CChunk (c : N)
| CPad (owner ctr data : N) (valid : bool)
| CReg (base : N) (ops : list N)
| CTxs (txs : list N).

Definition rtype_eqb (a b : rtype) : bool :=
  match a, b with
  | TChunk, TChunk => true
  | TPad, TPad => true
  | TNonChunk x, TNonChunk y => x =? y
  | _, _ => false
  end.

Fixpoint mem (x : N) (l : list N) : bool :=
  match l with [] => false | y :: r => (x =? y) || mem x r end.

Definition subset (a b : list N) : bool := forallb (fun x => mem x b) a.
Definition set_eqb (a b : list N) : bool := subset a b && subset b a.

(* union keeping the first list's order, then the new elements of the second *)
Fixpoint union (a b : list N) : list N :=
  match b with
  | [] => a
  | x :: r => if mem x a then union a r else union (a ++ [x]) r
  end.

Definition content_eqb (a b : content) : bool :=
  match a, b with
  | CChunk x, CChunk y => x =? y
  | CPad o c d v, CPad o' c' d' v' => (o =? o') && (c =? c') && (d =? d') && Bool.eqb v v'
  | CReg b1 o1, CReg b2 o2 => (b1 =? b2) && set_eqb o1 o2
  | CTxs t1, CTxs t2 => set_eqb t1 t2
  | _, _ => false
  end.

(* K_VALUE, re-read from the source of the pinned libp2p-kad; CLOSE_GROUP_SIZE from ant-protocol *)
Definition KVAL : N := Consts.repl_k_value.
Definition CGS : N := Consts.repl_close_group_size.

(* the routing table sorted by distance to the node (insertion sort) *)
Fixpoint insert_by_dist (x : peer * N) (l : list (peer * N)) : list (peer * N) :=
  match l with
  | [] => [x]
  | y :: r => if snd x <=? snd y then x :: y :: r else y :: insert_by_dist x r
  end.
Definition sort_by_dist (l : list (peer * N)) : list (peer * N) := fold_right insert_by_dist [] l.

Section WithHash.
Variable H : content -> N.
Variable D : peer -> key -> N.

Definition type_of (c : content) : rtype :=
  match c with
  | CChunk _ => TChunk
  | CPad _ _ _ _ => TPad
  | CReg _ _ | CTxs _ => TNonChunk (H c)
  end.

Record node := mkNode {
  self : peer;
  held : list (key * content);          (* the store index with what `get` returns *)
  table : list (peer * N);              (* routing table: every peer with its XOR distance to self *)
  inflight : list (key * rtype);        (* on_going_fetches keys *)
  store_range : option N;               (* NodeRecordStore::responsible_distance_range *)
  fetch_range : option N                (* ReplicationFetcher::distance_range *)
}.

(* get_closest_k_value_local_peers: once(self).chain(peers by distance).take(K_VALUE) *)
Definition closest (n : node) : list peer :=
  self n :: map fst (firstn (N.to_nat KVAL - 1) (sort_by_dist (table n))).

Fixpoint lookup (k : key) (l : list (key * content)) : option content :=
  match l with
  | [] => None
  | (k', c) :: r => if k =? k' then Some c else lookup k r
  end.

Fixpoint update (k : key) (c : content) (l : list (key * content)) : list (key * content) :=
  match l with
  | [] => [(k, c)]
  | (k', c') :: r => if k =? k' then (k, c) :: r else (k', c') :: update k c r
  end.

(* get_replicate_candidates(self): the table peers by distance; those within the STORE's responsible range
   (get_peers_in_range: distance <= range) when there are at least CLOSE_GROUP_SIZE of them, else the
   CLOSE_GROUP_SIZE nearest *)
Definition cands (n : node) : list peer :=
  let sorted := sort_by_dist (table n) in
  let fallback := map fst (firstn (N.to_nat CGS) sorted) in
  match store_range n with
  | Some r => let inr := filter (fun y : peer * N => snd y <=? r) sorted in
              if Nat.leb (N.to_nat CGS) (length inr) then map fst inr else fallback
  | None => fallback
  end.

Definition set_held (n : node) (h : list (key * content)) : node :=
  mkNode (self n) h (table n) (inflight n) (store_range n) (fetch_range n).
Definition set_inflight (n : node) (f : list (key * rtype)) : node :=
  mkNode (self n) (held n) (table n) f (store_range n) (fetch_range n).
Definition set_table (n : node) (t : list (peer * N)) : node :=
  mkNode (self n) (held n) t (inflight n) (store_range n) (fetch_range n).
Definition set_store_range (n : node) (r : option N) : node :=
  mkNode (self n) (held n) (table n) (inflight n) r (fetch_range n).
Definition set_fetch_range (n : node) (r : option N) : node :=
  mkNode (self n) (held n) (table n) (inflight n) (store_range n) r.

(* cmd.rs, end of PutLocalRecord: `if let Some(distance) = store.get_farthest_replication_distance()
   { replication_fetcher.set_replication_distance_range(distance) }` -- an assignment *)
Definition sync_range (n : node) : node :=
  match store_range n with
  | Some r => set_fetch_range n (Some r)
  | None => n
  end.

(* NodeRecordStore::cleanup_irrelevant_records past its size threshold: every record at distance >= the
   store's range is removed (records_by_distance.range(responsible_distance..)); nothing else changes -- in
   particular neither range nor anything of the fetcher *)
Definition cleanup (n : node) : node :=
  match store_range n with
  | Some r => set_held n (filter (fun kc => negb (r <=? D (self n) (fst kc))) (held n))
  | None => n
  end.

(* ---- what a node advertises ---- *)
Definition advert (n : node) : list (key * rtype) :=
  map (fun kc => (fst kc, type_of (snd kc))) (held n).

Inductive msg :=
| Replicate (from to holder : peer) (keys : list (key * rtype))
| Fetch (from to : peer) (k : key).

Definition replicate_msgs (n : node) : list msg :=
  match advert n with
  | [] => []
  | a => map (fun t => Replicate (self n) t (self n) a) (cands n)
  end.

(* ---- handling a received replication list ---- *)
Definition kt_mem (x : key * rtype) (l : list (key * rtype)) : bool :=
  existsb (fun y => (fst x =? fst y) && rtype_eqb (snd x) (snd y)) l.

Fixpoint wanted (n : node) (seen : list (key * rtype)) (keys : list (key * rtype))
  : list (key * rtype) :=
  match keys with
  | [] => []
  | x :: r =>
      if match lookup (fst x) (held n) with Some _ => true | None => false end
         || kt_mem x (inflight n) || kt_mem x seen
      then wanted n seen r
      else x :: wanted n (x :: seen) r
  end.

Definition accepts_holder (n : node) (holder : peer) : bool :=
  mem holder (closest n) && negb (holder =? self n).

(* advertised entries whose KEY is not held: add_keys' `new_incoming_keys` *)
Definition unheld (n : node) (keys : list (key * rtype)) : list (key * rtype) :=
  filter (fun x => match lookup (fst x) (held n) with Some _ => false | None => true end) keys.

(* within the fetcher's range (no range set: everything is) *)
Definition in_range (n : node) (k : key) : bool :=
  match fetch_range n with
  | None => true
  | Some r => D (self n) k <=? r
  end.

(* add_keys' range filter: skipped by the single-new-key fast path, applied otherwise *)
Definition ranged (n : node) (keys : list (key * rtype)) : list (key * rtype) :=
  if Nat.eqb (length (unheld n keys)) 1 then keys
  else filter (fun x => in_range n (fst x)) keys.

(* the parallel-fetch cap is not reached: everything wanted is fetched at once *)
Definition fits (cap : N) (n : node) (keys : list (key * rtype)) : bool :=
  N.of_nat (length (inflight n) + length (wanted n [] (ranged n keys))) <=? cap.

Definition on_replicate (n : node) (holder : peer) (keys : list (key * rtype))
  : node * list msg :=
  if accepts_holder n holder then
    let w := wanted n [] (ranged n keys) in
    (set_inflight n (inflight n ++ w), map (fun x => Fetch (self n) holder (fst x)) w)
  else (n, []).

(* ---- serving a fetch and accepting the answer ---- *)
Definition serve (n : node) (k : key) : option content := lookup k (held n).

Definition content_valid (c : content) : bool :=
  match c with CPad _ _ _ v => v | _ => true end.

(* store_replicated_in_record: new content for key k given what is held *)
Definition merge_in (old : option content) (c : content) : option content :=
  if negb (content_valid c) then None else
  match old, c with
  | None, _ => Some c
  | Some (CChunk _), _ => None                                   (* already exists: do nothing *)
  | Some (CPad o ctr d v), CPad o' ctr' d' v' =>
      if ctr <? ctr' then Some c else None
  | Some (CReg b ops), CReg b' ops' =>
      if b =? b' then (if subset ops' ops then None else Some (CReg b (union ops ops'))) else None
  | Some (CTxs t), CTxs t' =>
      if subset t' t then None else Some (CTxs (union t t'))
  | Some _, _ => None
  end.

Definition clear_key (k : key) (f : list (key * rtype)) : list (key * rtype) :=
  filter (fun x => negb (fst x =? k)) f.

(* whether store_replicated_in_record reaches `put_local_record` (LocalSwarmCmd::PutLocalRecord):
   whenever the store changes, and also when a transaction set with at least one valid transaction
   brings nothing new (validate_merge_and_store_transactions re-puts the merged set regardless) *)
Definition puts (old : option content) (c : content) : bool :=
  match merge_in old c with
  | Some _ => true
  | None => match old, c with
            | Some (CTxs _), CTxs (_ :: _) => true
            | _, _ => false
            end
  end.

(* PutLocalRecord: the record is stored, the fetcher forgets the key (notify_about_new_put), and the
   fetcher's range is re-assigned from the store's *)
Definition accept (n : node) (k : key) (c : content) : node :=
  let old := lookup k (held n) in
  let n1 := match merge_in old c with
            | Some c' => set_inflight (set_held n (update k c' (held n))) (clear_key k (inflight n))
            | None => if puts old c then set_inflight n (clear_key k (inflight n)) else n
            end in
  if puts old c then sync_range n1 else n1.

Definition kt_eqb (a b : key * rtype) : bool := (fst a =? fst b) && rtype_eqb (snd a) (snd b).

Definition kts_sub (a b : list (key * rtype)) : bool := forallb (fun x => existsb (kt_eqb x) b) a.
Definition kts_eqb (a b : list (key * rtype)) : bool := kts_sub a b && kts_sub b a.

Definition msg_eqb (a b : msg) : bool :=
  match a, b with
  | Replicate f t h k, Replicate f' t' h' k' => (f =? f') && (t =? t') && (h =? h') && kts_eqb k k'
  | Fetch f t k, Fetch f' t' k' => (f =? f') && (t =? t') && (k =? k')
  | _, _ => false
  end.


Fixpoint remove_msg (m : msg) (l : list msg) : list msg :=
  match l with
  | [] => []
  | x :: r => if msg_eqb m x then r else x :: remove_msg m r
  end.

(* ---- a system of nodes and a pool of undelivered messages ---- *)
Record sys := mkSys { nodes : list node; pool : list msg }.

Fixpoint get_node (p : peer) (l : list node) : option node :=
  match l with [] => None | n :: r => if self n =? p then Some n else get_node p r end.

Fixpoint put_node (n : node) (l : list node) : list node :=
  match l with
  | [] => []
  | m :: r => if self m =? self n then n :: r else m :: put_node n r
  end.

Definition deliver_msg (s : sys) (m : msg) : sys :=
  match m with
  | Replicate _ to holder keys =>
      match get_node to (nodes s) with
      | Some n => let (n', out) := on_replicate n holder keys in
                  mkSys (put_node n' (nodes s)) (pool s ++ out)
      | None => s
      end
  | Fetch from to k =>
      match get_node to (nodes s), get_node from (nodes s) with
      | Some holder, Some requester =>
          match serve holder k with
          | Some c => mkSys (put_node (accept requester k c) (nodes s)) (pool s)
          | None => s                      (* nothing served: the fetch stays in flight *)
          end
      | _, _ => s
      end
  end.

Inductive op :=
| OSeed (p : peer) (k : key) (c : content) (keyok : bool)   (* a record enters through validation *)
| OReplicate (p : peer)                                    (* interval replication fires at p *)
| OAdvert (to holder : peer) (keys : list (key * rtype))   (* a replication list arrives *)
| ODeliver (m : msg)                                       (* an undelivered message is delivered *)
| ODrop (m : msg)                                          (* ... is lost *)
| OSetTable (p : peer) (l : list (peer * N))               (* the routing table of p changed *)
| OSetRange (p : peer) (r : N)                             (* the record store's range of p is set *)
| OCleanup (p : peer).                                     (* cleanup_irrelevant_records runs at p (store above
                                                              MAX_RECORDS_COUNT/10): records at distance >= range go *)

Definition step (s : sys) (o : op) : sys :=
  match o with
  | OSeed p k c keyok =>
      match get_node p (nodes s) with
      | Some n => if keyok then mkSys (put_node (accept n k c) (nodes s)) (pool s) else s
      | None => s
      end
  | OReplicate p =>
      match get_node p (nodes s) with
      | Some n => mkSys (nodes s) (pool s ++ replicate_msgs n)
      | None => s
      end
  | OAdvert to holder keys => deliver_msg s (Replicate holder to holder keys)
  | ODeliver m => deliver_msg (mkSys (nodes s) (remove_msg m (pool s))) m
  | ODrop m => mkSys (nodes s) (remove_msg m (pool s))
  | OSetTable p l =>
      match get_node p (nodes s) with
      | Some n => mkSys (put_node (set_table n l) (nodes s)) (pool s)
      | None => s
      end
  | OSetRange p r =>
      match get_node p (nodes s) with
      | Some n => mkSys (put_node (set_store_range n (Some r)) (nodes s)) (pool s)
      | None => s
      end
  | OCleanup p =>
      match get_node p (nodes s) with
      | Some n => mkSys (put_node (cleanup n) (nodes s)) (pool s)
      | None => s
      end
  end.

Definition run (s : sys) (ops : list op) : sys := fold_left step ops s.

(* one full exchange from a to b: a's list reaches b, every fetch b issues is served by a *)
Definition sync_from (a b : node) : node :=
  let (b', fetches) := on_replicate b (self a) (advert a) in
  fold_left (fun acc m =>
               match m with
               | Fetch _ _ k => match serve a k with Some c => accept acc k c | None => acc end
               | _ => acc
               end) fetches b'.

End WithHash.

(* ---- agreement with an observed execution (generated case files) ---- *)

(* the content-hash identifiers the implementation used, as a table *)
Fixpoint tab_hash (tab : list (content * N)) (c : content) : N :=
  match tab with
  | [] => 0
  | (c', h) :: r => if content_eqb c c' then h else tab_hash r c
  end.

(* the distances the harness computed (SHA-256 XOR, independently of the repository), as a table *)
Fixpoint tab_dist (tab : list (peer * key * N)) (p : peer) (k : key) : N :=
  match tab with
  | [] => 0
  | (p', k', d) :: r => if (p =? p') && (k =? k') then d else tab_dist r p k
  end.

Definition msgs_sub (a b : list msg) : bool := forallb (fun x => existsb (msg_eqb x) b) a.
Definition msgs_eqb (a b : list msg) : bool :=
  msgs_sub a b && msgs_sub b a && Nat.eqb (length a) (length b).

Definition held_sub (a b : list (key * content)) : bool :=
  forallb (fun kc => match lookup (fst kc) b with
                     | Some c => content_eqb (snd kc) c
                     | None => false end) a.
Definition held_eqb (a b : list (key * content)) : bool :=
  held_sub a b && held_sub b a && Nat.eqb (length a) (length b).

(* run the ops one by one; wherever the implementation's undelivered messages were observed the
   model's pool must be the same multiset; a delivered or dropped message must have been in the pool *)
Definition in_pool (o : op) (s : sys) : bool :=
  match o with
  | ODeliver m | ODrop m => existsb (msg_eqb m) (pool s)
  | _ => true
  end.

Fixpoint peers_eqb (a b : list peer) : bool :=
  match a, b with
  | [], [] => true
  | x :: r, y :: r' => (x =? y) && peers_eqb r r'
  | _, _ => false
  end.

(* what was observed of a node after a step: what it holds, the fetcher's in-flight (key, type)s, and
   what get_closest_k_value_local_peers answered (in its order) *)
Definition obs_node := (peer * list (key * content) * list (key * rtype) * list peer)%type.

Definition holds_ok (ns : list node) (obs : list obs_node) : bool :=
  forallb (fun pf => match pf with
                     | (p, h, f, cl) =>
                       match get_node p ns with
                       | Some n => held_eqb (held n) h &&
                                   kts_eqb (inflight n) f &&
                                   Nat.eqb (length (inflight n)) (length f) &&
                                   peers_eqb (closest n) cl
                       | None => false end
                     end) obs.

(* one observed step: the op, the undelivered messages after it, every node's store and in-flight set *)
Definition obs_step := (op * list msg * list obs_node)%type.

(* The envelope in which `on_replicate` abstracts ReplicationFetcher::add_keys exactly (bridge lemma
   add_keys_idle_clean, C08): no advertised unheld entry is already in flight while another unheld
   entry is advertised with it (the real fetcher then leaves the in-flight one QUEUED for the
   advertising holder, which this model does not carry), and the parallel-fetch cap is not reached.
   Outside it the correspondence stops comparing (the oracle of the property still judges the run). *)
Definition list_outside_envelope (D : peer -> key -> N) (cap : N) (n : node) (holder : peer) (keys : list (key * rtype)) : bool :=
  accepts_holder n holder &&
  ((Nat.leb 2 (length (unheld n keys)) && existsb (fun x => kt_mem x (inflight n)) (unheld n keys))
   || negb (fits D cap n keys)).

Definition outside_envelope (D : peer -> key -> N) (cap : N) (s : sys) (o : op) : bool :=
  match o with
  | ODeliver (Replicate _ to holder keys) | OAdvert to holder keys =>
      match get_node to (nodes s) with
      | Some n => list_outside_envelope D cap n holder keys
      | None => false
      end
  | _ => false
  end.

Definition CAP : N := Consts.fetcher_max_parallel.    (* MAX_PARALLEL_FETCH, re-read from the source *)

Fixpoint agree_steps (H : content -> N) (D : peer -> key -> N) (s : sys) (ops : list obs_step) : bool :=
  match ops with
  | [] => true
  | (o, p, hs) :: r =>
      if outside_envelope D CAP s o then true else
      let s' := step H D s o in
      in_pool o s && msgs_eqb (pool s') p && holds_ok (nodes s') hs && agree_steps H D s' r
  end.

(* number of observed steps compared before the envelope was left (all of them if it never was) *)
Fixpoint compared_steps (H : content -> N) (D : peer -> key -> N) (s : sys) (ops : list obs_step) (i : N) : N :=
  match ops with
  | [] => i
  | (o, p, hs) :: r =>
      if outside_envelope D CAP s o then i else compared_steps H D (step H D s o) r (i + 1)
  end.

(* index of the first observed step the model disagrees with (diagnostics) *)
Fixpoint first_bad (H : content -> N) (D : peer -> key -> N) (s : sys) (ops : list obs_step) (i : N) : option N :=
  match ops with
  | [] => None
  | (o, p, hs) :: r =>
      if outside_envelope D CAP s o then None else
      let s' := step H D s o in
      if in_pool o s && msgs_eqb (pool s') p && holds_ok (nodes s') hs
      then first_bad H D s' r (i + 1) else Some i
  end.

Definition agree_case (tab : list (content * N)) (dtab : list (peer * key * N)) (init : list node)
  (ops : list obs_step) : bool :=
  agree_steps (tab_hash tab) (tab_dist dtab) (mkSys init []) ops.

Definition show_case (tab : list (content * N)) (dtab : list (peer * key * N)) (init : list node)
  (ops : list obs_step) :=
  first_bad (tab_hash tab) (tab_dist dtab) (mkSys init []) ops 0.
