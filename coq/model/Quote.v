(* Model of ant-evm/src/data_payments.rs: PaymentQuote / ProofOfPayment.
   Time: a SystemTime is a number of nanoseconds since the Unix epoch (a deserialised SystemTime is
   never before the epoch: serde's impl builds it as UNIX_EPOCH + Duration).  `now` is an explicit
   argument wherever the code calls SystemTime::now() / elapsed().
   Keys and signatures: libp2p-identity is abstracted by a key system K (decode_pk = PublicKey::
   try_decode_protobuf, peer_of = PeerId::from(PublicKey), parse_peer = PeerId::from_bytes,
   interp = the symbolic reading of signature bytes, lib/SymSig.v).  Every theorem quantifies over K. *)
From Coq Require Import List NArith ZArith Bool.
From V Require Import lib.Strs lib.Serde lib.Msgpack lib.SymSig gen.Consts.
Import ListNotations.
Open Scope N_scope.

Definition NS : N := 1000000000.                       (* nanoseconds per second *)

Record metrics := {
  close_records_stored : N;                            (* usize *)
  max_records : N;                                     (* usize *)
  received_payment_count : N;                          (* usize *)
  live_time : N;                                       (* u64 *)
  network_density : option (list N);                   (* Option<[u8; 32]> *)
  network_size : option N                              (* Option<u64> *)
}.

Record quote := {
  content : list N;                                    (* XorName, 32 bytes *)
  timestamp : N;                                       (* SystemTime, ns since the epoch *)
  qmetrics : metrics;
  rewards_address : list N;                            (* 20 bytes *)
  pub_key : list N;
  signature : list N
}.

Record keysys := {
  decode_pk : list N -> option N;                      (* protobuf bytes -> key *)
  peer_of : N -> list N;                               (* key -> PeerId (its bytes) *)
  parse_peer : list N -> option (list N);              (* EncodedPeerId::to_peer_id *)
  interp : list N -> sig                               (* what a signature string is *)
}.

(* the serde tree of QuotingMetrics (derive(Serialize); usize goes out through serialize_u64) *)
Definition metrics_tree (m : metrics) : sval :=
  VTuple [VU W64 (close_records_stored m); VU W64 (max_records m);
          VU W64 (received_payment_count m); VU W64 (live_time m);
          match network_density m with
          | None => VNone
          | Some d => VSome (VTuple (map (VU W8) d))
          end;
          match network_size m with None => VNone | Some n => VSome (VU W64 n) end].

Definition shape_metrics : shape :=
  STuple [SU W64; SU W64; SU W64; SU W64; SOption (STuple (repeat (SU W8) 32)); SOption (SU W64)].

Definition secs (t : N) : N := t / NS.                 (* Duration::as_secs *)

(* PaymentQuote::bytes_for_signing *)
Definition bytes_for_signing (q : quote) : list N :=
  content q ++ le_bytes 8 (secs (timestamp q)) ++ mp_encode (metrics_tree (qmetrics q))
            ++ rewards_address q.

(* PaymentQuote::hash = keccak256 of this *)
Definition hash_preimage (q : quote) : list N := bytes_for_signing q ++ pub_key q ++ signature q.

Definition wf_metrics (m : metrics) : bool :=
  (close_records_stored m <? 2 ^ 64) && (max_records m <? 2 ^ 64) &&
  (received_payment_count m <? 2 ^ 64) && (live_time m <? 2 ^ 64) &&
  match network_density m with None => true | Some d => (len d =? 32) && wf_bytes d end &&
  match network_size m with None => true | Some n => n <? 2 ^ 64 end.

Definition wf_quote (q : quote) : bool :=
  (len (content q) =? 32) && wf_bytes (content q) && (secs (timestamp q) <? 2 ^ 64) &&
  wf_metrics (qmetrics q) && (len (rewards_address q) =? 20).

(* what the signature covers *)
Definition signed_fields (q : quote) : list N * N * metrics * list N :=
  (content q, secs (timestamp q), qmetrics q, rewards_address q).

(* PaymentQuote::peer_id *)
Definition quote_peer_id (K : keysys) (q : quote) : option (list N) :=
  match decode_pk K (pub_key q) with Some pk => Some (peer_of K pk) | None => None end.

(* PaymentQuote::check_is_signed_by_claimed_peer *)
Definition check_signed (K : keysys) (q : quote) (claimed : list N) : bool :=
  match decode_pk K (pub_key q) with
  | None => false
  | Some pk =>
      if negb (bytes_eqb (peer_of K pk) claimed) then false
      else sig_verify pk (bytes_for_signing q) (interp K (signature q))
  end.

(* A PaymentQuote built in memory may carry a SystemTime BEFORE the epoch (one read from the wire cannot:
   serde builds UNIX_EPOCH + Duration).  bytes_for_signing then panics ("Unix epoch to be in the past").
   `tz` is the timestamp as a signed number of nanoseconds; None = panic.  The key and identity checks
   come first, exactly as in check_is_signed_by_claimed_peer. *)
Definition with_timestamp (q : quote) (t : N) : quote :=
  {| content := content q; timestamp := t; qmetrics := qmetrics q; rewards_address := rewards_address q;
     pub_key := pub_key q; signature := signature q |}.

Definition bytes_for_signing_z (q : quote) (tz : Z) : option (list N) :=
  if (tz <? 0)%Z then None else Some (bytes_for_signing (with_timestamp q (Z.to_N tz))).

Definition check_signed_z (K : keysys) (q : quote) (tz : Z) (claimed : list N) : option bool :=
  match decode_pk K (pub_key q) with
  | None => Some false
  | Some pk =>
      if negb (bytes_eqb (peer_of K pk) claimed) then Some false
      else match bytes_for_signing_z q tz with
           | None => None
           | Some m => Some (sig_verify pk m (interp K (signature q)))
           end
  end.

(* ProofOfPayment *)
Definition proof := list (list N * quote).             (* (EncodedPeerId bytes, quote) *)

Fixpoint payees (K : keysys) (p : proof) : list (list N) :=
  match p with
  | [] => []
  | (e, _) :: r => match parse_peer K e with Some pe => pe :: payees K r | None => payees K r end
  end.

Definition verify_for (K : keysys) (p : proof) (me : list N) : bool :=
  if negb (existsb (bytes_eqb me) (payees K p)) then false
  else forallb (fun eq : list N * quote =>
                  match parse_peer K (fst eq) with
                  | None => false
                  | Some pe => check_signed K (snd eq) pe
                  end) p.

Definition quotes_by_peer (K : keysys) (p : proof) (me : list N) : list quote :=
  map snd (filter (fun eq : list N * quote =>
                     match quote_peer_id K (snd eq) with
                     | Some pe => bytes_eqb me pe
                     | None => false
                     end) p).

(* PaymentQuote::has_expired at clock reading `now` *)
Definition has_expired (now : N) (q : quote) : bool :=
  if now <? timestamp q then true                      (* duration_since -> Err *)
  else Consts.quote_expiration_secs <? secs (now - timestamp q).

Definition proof_has_expired (now : N) (p : proof) : bool :=
  existsb (fun eq : list N * quote => has_expired now (snd eq)) p.

Definition is_newer_than (a b : quote) : bool := timestamp b <? timestamp a.

(* PaymentQuote::historical_verify; now1 / now2 are the two clock readings of the two
   `elapsed()` calls *)
Definition historical_verify (now1 now2 : N) (self other : quote) : bool :=
  let (old, new) := if is_newer_than self other then (other, self) else (self, other) in
  let mo := qmetrics old in let mn := qmetrics new in
  if live_time mn <? live_time mo then false
  else if received_payment_count mn <? received_payment_count mo then false
  else if now1 <? timestamp old then true              (* elapsed() failed: accepted *)
  else if now2 <? timestamp new then true
  else
    let time_diff := secs (now1 - timestamp old) - secs (now2 - timestamp new) in  (* saturating_sub *)
    let live_time_diff := live_time mn - live_time mo in
    if time_diff + Consts.live_time_margin <? live_time_diff then false else true.

(* ---------- SwarmDriver::verify_peer_quote (ant-networking/src/cmd.rs) ----------
   `quotes_history` keeps one reference quote per peer.  A delivered quote is checked against the
   reference with historical_verify: failure records a BadQuoting issue and leaves the reference
   alone; otherwise the quote becomes the reference unless the reference is newer.  Peers are
   opaque numbers; `now` is the clock reading of that delivery. *)
Definition history := list (N * quote).

Fixpoint h_lookup (p : N) (h : history) : option quote :=
  match h with
  | [] => None
  | (p', q) :: r => if p =? p' then Some q else h_lookup p r
  end.

Fixpoint h_upsert (p : N) (q : quote) (h : history) : history :=
  match h with
  | [] => [(p, q)]
  | (p', q') :: r => if p =? p' then (p, q) :: r else (p', q') :: h_upsert p q r
  end.

(* returns the new history and whether the quote was flagged (NodeIssue::BadQuoting) *)
Definition verify_peer_quote (now : N) (h : history) (p : N) (q : quote) : history * bool :=
  match h_lookup p h with
  | Some ref =>
      if negb (historical_verify now now ref q) then (h, true)
      else if is_newer_than ref q then (h, false)
      else (h_upsert p q h, false)
  | None => (h_upsert p q h, false)
  end.

(* a delivery: (clock reading, peer, quote); the run returns the final history and, per
   delivery, whether it was flagged *)
Definition delivery := (N * N * quote)%type.

Fixpoint run_deliveries (h : history) (ds : list delivery) : history * list bool :=
  match ds with
  | [] => (h, [])
  | (now, p, q) :: r =>
      let (h1, f) := verify_peer_quote now h p q in
      let (h2, fs) := run_deliveries h1 r in (h2, f :: fs)
  end.

(* the quotes of peer p that were delivered and not flagged *)
Fixpoint accepted (h : history) (ds : list delivery) (p : N) : list quote :=
  match ds with
  | [] => []
  | (now, p', q) :: r =>
      let (h1, f) := verify_peer_quote now h p' q in
      if (p =? p') && negb f then q :: accepted h1 r p else accepted h1 r p
  end.

Definition dominates (hq a : quote) : Prop :=
  timestamp a <= timestamp hq /\
  live_time (qmetrics a) <= live_time (qmetrics hq) /\
  received_payment_count (qmetrics a) <= received_payment_count (qmetrics hq).

Definition reports_less (q a : quote) : Prop :=
  live_time (qmetrics q) < live_time (qmetrics a) \/
  received_payment_count (qmetrics q) < received_payment_count (qmetrics a).

(* ---------- SwarmDriver::bad_nodes, record_node_issue and the QuoteVerification arm of
   handle_local_cmd (ant-networking/src/cmd.rs) ----------
   bad_nodes : peer -> (issues recorded against it, oldest first, each with the second it was recorded
   at; is it considered bad).  `clk` is the monotonic clock in whole seconds (Instant; elapsed().as_secs()).
   Issue kinds are numbers: 0 ReplicationFailure, 1 CloseNodesShunning, 2 BadQuoting, 3 FailedChunkProofCheck. *)
Definition BAD_QUOTING : N := 2.
Definition bad_entry := (list (N * N) * bool)%type.
Definition bad_nodes := list (N * bad_entry).

Fixpoint bn_lookup (p : N) (bn : bad_nodes) : option bad_entry :=
  match bn with
  | [] => None
  | (p', e) :: r => if p =? p' then Some e else bn_lookup p r
  end.

Fixpoint bn_upsert (p : N) (e : bad_entry) (bn : bad_nodes) : bad_nodes :=
  match bn with
  | [] => [(p, e)]
  | (p', e') :: r => if p =? p' then (p, e) :: r else (p', e') :: bn_upsert p e r
  end.

Definition peer_is_bad (bn : bad_nodes) (p : N) : bool :=
  match bn_lookup p bn with Some (_, b) => b | None => false end.

Definition kind_count (k : N) (iv : list (N * N)) : N :=
  len (filter (fun it : N * N => fst it =? k) iv).

Definition three_strikes (iv : list (N * N)) : bool :=
  existsb (fun it : N * N => Consts.issue_strikes <=? kind_count (fst it) iv) iv.

Definition record_node_issue (clk : N) (bn : bad_nodes) (p kind : N) : bad_nodes :=
  let '(iv, bad) := match bn_lookup p bn with Some e => e | None => ([], false) end in
  if bad then bn_upsert p (iv, true) bn           (* entry().or_default(): nothing else changes *)
  else
    let iv1 := filter (fun it : N * N => clk - snd it <? Consts.issue_retention_secs) iv in
    let iv2 := if len iv1 =? Consts.issue_list_cap then tl iv1 else iv1 in
    let is_new := match last (map Some iv2) None with
                  | Some (_, ts) => Consts.issue_rate_limit_secs <? clk - ts
                  | None => true
                  end in
    let iv3 := if is_new then iv2 ++ [(kind, clk)] else iv2 in
    bn_upsert p (iv3, three_strikes iv3) bn.

Record driver_state := { d_hist : history; d_bad : bad_nodes; d_clk : N }.

(* one (peer, quote) of LocalSwarmCmd::QuoteVerification: skipped (None) iff the peer is already
   considered bad; otherwise verify_peer_quote, and a flagged quote is recorded as a BadQuoting issue *)
Definition handle_quote (now : N) (st : driver_state) (p : N) (q : quote) : driver_state * option bool :=
  if peer_is_bad (d_bad st) p then (st, None)
  else
    let (h1, f) := verify_peer_quote now (d_hist st) p q in
    ({| d_hist := h1;
        d_bad := if f then record_node_issue (d_clk st) (d_bad st) p BAD_QUOTING else d_bad st;
        d_clk := d_clk st |}, Some f).

Inductive driver_step :=
| DQuote (now : N) (p : N) (q : quote)        (* LocalSwarmCmd::QuoteVerification { [(p, q)] } *)
| DIssue (p kind : N)                         (* LocalSwarmCmd::RecordNodeIssue *)
| DAge (secs : N).                            (* time passes *)

Definition driver_do (st : driver_state) (s : driver_step) : driver_state :=
  match s with
  | DQuote now p q => fst (handle_quote now st p q)
  | DIssue p k => {| d_hist := d_hist st; d_bad := record_node_issue (d_clk st) (d_bad st) p k; d_clk := d_clk st |}
  | DAge d => {| d_hist := d_hist st; d_bad := d_bad st; d_clk := d_clk st + d |}
  end.

Definition driver_init : driver_state := {| d_hist := []; d_bad := []; d_clk := 0 |}.

(* ---------- ant-node/src/quote.rs: the node's quoting duty ----------
   `Network::verify` checks a signature with the node's OWN key (self_key); the quote's pub_key field
   is not consulted there.  An address enters only through `as_xorname().unwrap_or_default()`. *)
Inductive storecost_res := SOk | SErrContent | SErrExpired | SErrSignature.

Definition storecost_code (r : storecost_res) : N :=
  match r with SOk => 0 | SErrContent => 1 | SErrExpired => 2 | SErrSignature => 3 end.

(* verify_quote_for_storecost *)
Definition verify_quote_for_storecost (K : keysys) (now : N) (self_key : N) (q : quote) (addr_xor : list N)
  : storecost_res :=
  if negb (bytes_eqb addr_xor (content q)) then SErrContent
  else if has_expired now q then SErrExpired
  else if negb (sig_verify self_key (bytes_for_signing q) (interp K (signature q))) then SErrSignature
  else SOk.

Definition TIME_GAP : N := Consts.quote_time_gap_secs * NS.

Definition around_same_time (q sq : quote) : bool :=
  if timestamp sq <? timestamp q then timestamp q <? timestamp sq + TIME_GAP
  else timestamp sq <? timestamp q + TIME_GAP.

Definition duty_keep (K : keysys) (self_peer : list N) (sq : quote) (pq : list N * quote) : bool :=
  bytes_eqb (content (snd pq)) (content sq) && negb (bytes_eqb (fst pq) self_peer) &&
  around_same_time (snd pq) sq && check_signed K (snd pq) (fst pq).

(* quotes_verification: None = nothing is handed to the swarm driver; Some l = the pairs sent down in
   LocalSwarmCmd::QuoteVerification (to be held against the peers they are attributed to) *)
Definition quotes_verification (K : keysys) (now : N) (self_peer : list N) (self_key : N)
           (quotes : list (list N * quote)) : option (list (list N * quote)) :=
  match find (fun pq : list N * quote => bytes_eqb (fst pq) self_peer) quotes with
  | None => None
  | Some (_, sq) =>
      match verify_quote_for_storecost K now self_key sq (content sq) with
      | SOk => Some (filter (duty_keep K self_peer sq) quotes)
      | _ => None
      end
  end.

(* ---------- the per-case key system built from what the harness reports ---------- *)
Definition mkK (pks : list (list N * N)) (peers : list (N * list N))
           (encs : list (list N * list N)) (sigs : list (list N * sig)) : keysys :=
  {| decode_pk := fun b => assoc_bytes b pks;
     peer_of := fun k => match assoc_N k peers with Some p => p | None => [] end;
     parse_peer := fun b => assoc_bytes b encs;
     interp := fun b => match assoc_bytes b sigs with Some s => s | None => Junk 0 end |}.

(* ---------- agreement terms ---------- *)
Definition agree_signing (q : quote) (bytes : list N) : bool :=
  wf_quote q && bytes_eqb (bytes_for_signing q) bytes.

Definition agree_preimage (q : quote) (pre : list N) : bool := bytes_eqb (hash_preimage q) pre.

Definition agree_check (K : keysys) (q : quote) (claimed : list N) (r : bool) : bool :=
  Bool.eqb (check_signed K q claimed) r.

Definition agree_peer_id (K : keysys) (q : quote) (r : option (list N)) : bool :=
  option_eqb bytes_eqb (quote_peer_id K q) r.

Definition agree_proof (K : keysys) (p : proof) (me : list N)
           (r_verify : bool) (r_payees : list (list N)) (r_by_peer : list (list N)) : bool :=
  Bool.eqb (verify_for K p me) r_verify &&
  list_eqb bytes_eqb (payees K p) r_payees &&
  list_eqb bytes_eqb (map bytes_for_signing (quotes_by_peer K p me)) r_by_peer.

Definition agree_expired (now : N) (q : quote) (r : bool) : bool := Bool.eqb (has_expired now q) r.
Definition agree_proof_expired (now : N) (p : proof) (r : bool) : bool :=
  Bool.eqb (proof_has_expired now p) r.

Definition agree_historical (now : N) (a b : quote) (newer r : bool) : bool :=
  Bool.eqb (is_newer_than a b) newer && Bool.eqb (historical_verify now now a b) r.

(* deliveries with per-step observations: flagged?, and the timestamp of the stored reference of
   that peer afterwards (None if none) *)
Fixpoint agree_history (h : history) (steps : list (delivery * (bool * option N))) : bool :=
  match steps with
  | [] => true
  | ((now, p, q), (f, ref_ts)) :: r =>
      let (h1, f') := verify_peer_quote now h p q in
      Bool.eqb f f' &&
      option_eqb N.eqb (match h_lookup p h1 with Some x => Some (timestamp x) | None => None end) ref_ts &&
      agree_history h1 r
  end.

Definition agree_storecost (K : keysys) (now self_key : N) (q : quote) (addr_xor : list N) (code : N) : bool :=
  storecost_code (verify_quote_for_storecost K now self_key q addr_xor) =? code.

(* forwarded: None if no command was emitted, else the positions (in the input) of the pairs sent down *)
Definition agree_duty (K : keysys) (now : N) (self_peer : list N) (self_key : N)
           (quotes : list (list N * quote)) (forwarded : option (list N)) : bool :=
  match quotes_verification K now self_peer self_key quotes, forwarded with
  | None, None => true
  | Some l, Some idx =>
      list_eqb (fun (a b : list N * quote) =>
                  bytes_eqb (fst a) (fst b) && bytes_eqb (hash_preimage (snd a)) (hash_preimage (snd b)) &&
                  (timestamp (snd a) =? timestamp (snd b)))
               l (map (fun i => nth (N.to_nat i) quotes ([], {| content := []; timestamp := 0;
                      qmetrics := {| close_records_stored := 0; max_records := 0; received_payment_count := 0;
                                     live_time := 0; network_density := None; network_size := None |};
                      rewards_address := []; pub_key := []; signature := [] |})) idx)
  | _, _ => false
  end.

(* per step: the peer looked at, and what the implementation shows for it afterwards: issue kinds
   (oldest first), is_bad, timestamp of the stored reference quote *)
Definition obs := (N * (list N * bool * option N))%type.

Definition observe (st : driver_state) (p : N) : list N * bool * option N :=
  (match bn_lookup p (d_bad st) with Some (iv, _) => map fst iv | None => [] end,
   peer_is_bad (d_bad st) p,
   match h_lookup p (d_hist st) with Some x => Some (timestamp x) | None => None end).

Definition obs_eqb (a b : list N * bool * option N) : bool :=
  list_eqb N.eqb (fst (fst a)) (fst (fst b)) && Bool.eqb (snd (fst a)) (snd (fst b)) &&
  option_eqb N.eqb (snd a) (snd b).

Fixpoint agree_driver (st : driver_state) (steps : list (driver_step * option obs)) : bool :=
  match steps with
  | [] => true
  | (s, o) :: r =>
      let st1 := driver_do st s in
      match o with
      | Some (p, seen) => obs_eqb (observe st1 p) seen
      | None => true
      end && agree_driver st1 r
  end.

Definition agree_check_z (K : keysys) (q : quote) (tz : Z) (claimed : list N) (r : option bool) : bool :=
  option_eqb Bool.eqb (check_signed_z K q tz claimed) r.
