(* Model of the node's start-up sequence in front of the record store (ant-networking/src/driver.rs,
   check_and_wipe_storage_dir_if_necessary, called by NetworkBuilder::build_node before the store is
   opened): read <root>/network_key_version (create it empty if missing); if its content differs from
   the running version: remove the record_store directory, then open the version file with truncate
   and write the running version.  A start-up attempt may be killed at any point (`spoint`).
   Definitions only. *)
From Coq Require Import List NArith String Ascii Bool.
From V Require Import lib.Strs gen.Consts model.RecordStore.
Import ListNotations.
Open Scope N_scope.

Record disk := mkDisk {
  vfile : option string;                 (* content of network_key_version, None = no such file *)
  dfiles : list (string * bytes) }.      (* the record_store directory *)

Inductive spoint :=
| SDone                          (* the start-up runs to completion *)
| SBefore                        (* killed before it touched anything *)
| SAfterCreate                   (* killed right after the version file was read / created empty *)
| SDuringWipe (keep : list bool) (* remove_dir_all interrupted: the flagged files are still there *)
| SAfterTruncate                 (* version file opened with truncate, nothing written yet *)
| SDuringWrite (m : nat).        (* the first m bytes of the version string have been written *)

Fixpoint keep_files {A} (l : list A) (keep : list bool) : list A :=
  match l, keep with
  | x :: r, b :: k => if b then x :: keep_files r k else keep_files r k
  | _, _ => []
  end.

Definition prev_version (d : disk) : string :=
  match vfile d with Some c => c | None => EmptyString end.

(* the code as it is: the version file is written only inside the mismatch branch *)
Definition startup (cur : string) (p : spoint) (d : disk) : disk :=
  match p with
  | SBefore => d
  | _ =>
      let d1 := match vfile d with Some _ => d | None => mkDisk (Some EmptyString) (dfiles d) end in
      match p with
      | SAfterCreate => d1
      | _ =>
          if String.eqb cur (prev_version d) then d1
          else match p with
               | SDuringWipe keep => mkDisk (vfile d1) (keep_files (dfiles d1) keep)
               | SAfterTruncate => mkDisk (Some EmptyString) []
               | SDuringWrite m => mkDisk (Some (substring 0 m cur)) []
               | _ => mkDisk (Some cur) []
               end
      end
  end.

Definition run_starts (cur : string) (ps : list spoint) (d : disk) : disk :=
  fold_left (fun d p => startup cur p d) ps d.

(* a process crash of the node followed by any number of killed start-ups and one that completes,
   all with the version the records were written under, then the store is re-opened *)
Definition restart_via_startup (E : env) (s : state) (tears : list (key * N)) (cur : string)
           (ps : list spoint) : state :=
  let d := run_starts cur (ps ++ [SDone]) (mkDisk (Some cur) (fold_left (tear E (tasks s)) tears (files s))) in
  reopen E (dfiles d) (metrics s) (starts s).

(* the variant in which the version file is rewritten on EVERY start (what the structural constant
   rs_version_written_only_on_mismatch rules out) *)
Definition startup_rewrite_always (cur : string) (p : spoint) (d : disk) : disk :=
  match p with
  | SBefore => d
  | _ =>
      let d1 := match vfile d with Some _ => d | None => mkDisk (Some EmptyString) (dfiles d) end in
      match p with
      | SAfterCreate => d1
      | _ =>
          let same := String.eqb cur (prev_version d) in
          match p with
          | SDuringWipe keep => if same then d1 else mkDisk (vfile d1) (keep_files (dfiles d1) keep)
          | _ =>
              let fs := if same then dfiles d1 else [] in
              match p with
              | SAfterTruncate => mkDisk (Some EmptyString) fs
              | SDuringWrite m => mkDisk (Some (substring 0 m cur)) fs
              | _ => mkDisk (Some cur) fs
              end
          end
      end
  end.

(* ---- correspondence: the real function on a prepared directory.
   `kill` = the process is killed at its first write of more than zero bytes (ulimit -f 0). *)
Definition agree_startup (cur : string) (kill : bool) (before : option string) (nfiles : N)
           (after : option string) (nafter : N) : bool :=
  let d := mkDisk before (repeat (EmptyString, []) (N.to_nat nfiles)) in
  let d' := startup cur (if kill then SAfterTruncate else SDone) d in
  option_eqb String.eqb (vfile d') after && (len (dfiles d') =? nafter).
