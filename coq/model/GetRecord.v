(* C05 -- quorum reads.  Executable model of
     ant-networking/src/cmd.rs      handle_network_cmd, NetworkSwarmCmd::GetNetworkRecord (de-duplication)
     ant-networking/src/event/kad.rs accumulate_get_record_found / handle_get_record_finished /
                                     handle_get_record_error / send_record_after_checking_target
     ant-networking/src/driver.rs   GetRecordCfg::does_target_match, PendingGetRecord
     ant-networking/src/lib.rs      get_quorum_value, close_group_majority,
                                     Network::handle_split_record_error, the attempt loop of
                                     Network::get_record_from_network
   Definitions only.  Hash-map iteration order is never hidden: `pending` and the version map are
   lists in arrival order; the one place where the code's result can depend on the iteration order
   (handle_split_record_error) takes the versions *in iteration order* as its argument, and the
   theorems quantify over all permutations.

   Abstractions (stated in notes/C05.md): a record value is an abstract `content` (header kind +
   typed payload) and the content hash is the content itself; signatures are the booleans the real
   verifiers return (`SignedRegister::verify`, `Scratchpad::is_valid`); `Record::expires` is always
   `None`; `expected_holders` is carried as data (cholders / qholders) that no outcome depends on. *)
From Coq Require Import List NArith Bool.
From V Require Import gen.Consts.
Import ListNotations.
Open Scope N_scope.

(* ------------------------------------------------------------------------------------------ *)
(* contents and records                                                                        *)

Inductive kind := KChunkPay | KChunk | KTx | KReg | KRegPay | KPad | KPadPay | KTxPay.

Definition kind_tag (k : kind) : N :=
  match k with
  | KChunkPay => 0 | KChunk => 1 | KTx => 2 | KReg => 3 | KRegPay => 4 | KPad => 5 | KPadPay => 6
  | KTxPay => 7
  end.

Definition kind_eqb (a b : kind) : bool := kind_tag a =? kind_tag b.

(* what the typed decoders make of the bytes after the header *)
Inductive payload :=
| PTx (txs : list N)                                   (* Vec<Transaction>, in encoded order *)
| PReg (base : N) (valid : bool) (ops : list N) (salt : N)
      (* SignedRegister: base register (address + permissions), verify() result, op set (sorted,
         duplicate free), salt = the remaining bytes (owner signature) *)
| PPad (valid : bool) (count : N) (data : N)           (* Scratchpad: is_valid(), counter, data *)
| POpaque (id : N).                                    (* decodes as none of the above *)

(* ckind = None: RecordHeader::from_record fails *)
Record content := { ckind : option kind; cpay : payload }.

Record record := { rkey : N; rcont : content; rpub : option N }.

Fixpoint nlist_eqb (a b : list N) : bool :=
  match a, b with
  | [], [] => true
  | x :: a', y :: b' => (x =? y) && nlist_eqb a' b'
  | _, _ => false
  end.

Definition payload_eqb (a b : payload) : bool :=
  match a, b with
  | PTx x, PTx y => nlist_eqb x y
  | PReg b1 v1 o1 s1, PReg b2 v2 o2 s2 => (b1 =? b2) && Bool.eqb v1 v2 && nlist_eqb o1 o2 && (s1 =? s2)
  | PPad v1 c1 d1, PPad v2 c2 d2 => Bool.eqb v1 v2 && (c1 =? c2) && (d1 =? d2)
  | POpaque x, POpaque y => x =? y
  | _, _ => false
  end.

Definition okind_eqb (a b : option kind) : bool :=
  match a, b with
  | None, None => true
  | Some x, Some y => kind_eqb x y
  | _, _ => false
  end.

(* XorName::from_content(&record.value) equality: the value bytes, nothing else *)
Definition content_eqb (a b : content) : bool :=
  okind_eqb (ckind a) (ckind b) && payload_eqb (cpay a) (cpay b).

Definition on_eqb (a b : option N) : bool :=
  match a, b with
  | None, None => true
  | Some x, Some y => x =? y
  | _, _ => false
  end.

(* libp2p's derived PartialEq on Record: key, value, publisher (and expires, always None here) *)
Definition record_eqb (a b : record) : bool :=
  (rkey a =? rkey b) && content_eqb (rcont a) (rcont b) && on_eqb (rpub a) (rpub b).

(* ------------------------------------------------------------------------------------------ *)
(* quorum and configuration                                                                    *)

Inductive quorum := QOne | QMajority | QAll | QN (n : N).

(* lib.rs close_group_majority: CLOSE_GROUP_SIZE / 2 + 1 *)
Definition close_group_majority : N :=
  Consts.gr_close_group_size / Consts.gr_majority_div + Consts.gr_majority_add.

(* lib.rs get_quorum_value *)
Definition quorum_value (q : quorum) : N :=
  match q with
  | QMajority => close_group_majority
  | QAll => Consts.gr_close_group_size
  | QN n => n
  | QOne => 1
  end.

(* cholders = GetRecordCfg::expected_holders: used for logging only; carried as data that must not
   influence any outcome (proofs: outcomes_independent_of_expected_holders) *)
Record cfg := { cq : quorum; ctarget : option record; cisreg : bool; cholders : list N }.

(* a configuration without its expected_holders: everything that may influence an outcome *)
Definition strip_cfg (c : cfg) : cfg :=
  {| cq := cq c; ctarget := ctarget c; cisreg := cisreg c; cholders := [] |}.

(* try_deserialize_record::<SignedRegister>: skips the header bytes without looking at the kind *)
Definition as_reg (c : content) : option (N * list N) :=
  match cpay c with PReg b _ ops _ => Some (b, ops) | _ => None end.

(* driver.rs GetRecordCfg::does_target_match *)
Definition does_target_match (c : cfg) (r : record) : bool :=
  match ctarget c with
  | Some t =>
      if cisreg c then
        match as_reg (rcont r) with
        | None => false
        | Some (fb, fops) =>
            match as_reg (rcont t) with
            | None => false
            | Some (tb, tops) => (tb =? fb) && nlist_eqb tops fops
            end
        end
      else record_eqb t r
  | None => true
  end.

(* ------------------------------------------------------------------------------------------ *)
(* sorted duplicate-free sets of N (BTreeSet / HashSet contents in canonical order)             *)

Fixpoint set_add (x : N) (l : list N) : list N :=
  match l with
  | [] => [x]
  | y :: r => if x <? y then x :: l else if x =? y then l else y :: set_add x r
  end.

Definition set_union (acc l : list N) : list N := fold_left (fun a x => set_add x a) l acc.

(* ------------------------------------------------------------------------------------------ *)
(* driver state                                                                                *)

Definition peer := N.
Definition self_peer : peer := 0.
Definition peer_of (p : option peer) : peer := match p with Some x => x | None => self_peer end.

(* one entry of GetRecordResultMap: the record first seen with this content, its responders *)
Definition version := (record * list peer)%type.

Record query := {
  qid : N;                       (* kad QueryId (index in creation order) *)
  qkey : N;
  qcallers : list N;             (* the waiting senders, in push order *)
  qvers : list version;          (* arrival order; the code's map order is not observable here *)
  qcfg : cfg;                    (* the configuration of the caller that created the query *)
  qholders : list N              (* cfg.expected_holders of the stored cfg: holders that have not answered yet *)
}.

Record state := {
  pending : list query;          (* creation order *)
  next_qid : N;
  next_cid : N;
  dead : list N                  (* callers whose receiver has been dropped *)
}.

Definition init : state := {| pending := []; next_qid := 0; next_cid := 0; dead := [] |}.

Inductive outcome :=
| OOk (r : record)                                  (* Ok(record) as returned by a peer *)
| OMerged (r : record)                              (* Ok(record synthesised from split transactions) *)
| ENotFound
| ENotEnough (r : record) (expected got : N)
| ESplit (vers : list version)
| EMismatch (r : record)
| ETimeout
| EClosed.                                          (* sender dropped unsent: the receiver errors *)

Inductive ret := ROk | RDropped (* ReceivedKademliaEventDropped *) | RChan (* InternalMsgChannelDropped *).

Inductive event :=
| Cmd (key : N) (c : cfg)                           (* NetworkSwarmCmd::GetNetworkRecord *)
| Found (q : N) (p : option peer) (r : record)      (* GetRecordOk::FoundRecord *)
| Finished (q : N)                                  (* FinishedWithNoAdditionalRecord *)
| ErrNotFound (q : N)
| ErrQuorumFailed (q : N)
| ErrTimeout (q : N)
| Drop (c : N).                                     (* a caller drops its receiver *)

Fixpoint mem (x : N) (l : list N) : bool :=
  match l with [] => false | y :: r => (x =? y) || mem x r end.

(* `for sender in senders { sender.send(res.clone()).map_err(..)?; }`: the first dead receiver
   aborts the loop; the remaining senders are dropped unsent *)
Fixpoint deliver (dd : list N) (callers : list N) (res : outcome) : list (N * outcome) * ret :=
  match callers with
  | [] => ([], ROk)
  | c :: rest =>
      if mem c dd then
        (map (fun c' => (c', EClosed)) (filter (fun c' => negb (mem c' dd)) rest), RChan)
      else let (o, r) := deliver dd rest res in ((c, res) :: o, r)
  end.

Fixpoint find_query (q : N) (l : list query) : option query :=
  match l with
  | [] => None
  | x :: r => if qid x =? q then Some x else find_query q r
  end.

Definition remove_query (q : N) (l : list query) : list query :=
  filter (fun x => negb (qid x =? q)) l.

Fixpoint replace_query (x' : query) (l : list query) : list query :=
  match l with
  | [] => []
  | x :: r => if qid x =? qid x' then x' :: r else x :: replace_query x' r
  end.

(* cmd.rs: `for (.., (inflight_record_query_key, senders, _, _)) in pending_get_record.iter_mut()` *)
Fixpoint join_query (key c : N) (l : list query) : option (list query) :=
  match l with
  | [] => None
  | x :: r =>
      if qkey x =? key then
        Some ({| qid := qid x; qkey := qkey x; qcallers := qcallers x ++ [c]; qvers := qvers x;
                 qcfg := qcfg x; qholders := qholders x |} :: r)
      else match join_query key c r with Some r' => Some (x :: r') | None => None end
  end.

Definition handle_cmd (s : state) (key : N) (c : cfg) : state :=
  let cid := next_cid s in
  match join_query key cid (pending s) with
  | Some p' => {| pending := p'; next_qid := next_qid s; next_cid := cid + 1; dead := dead s |}
  | None =>
      {| pending := pending s ++ [{| qid := next_qid s; qkey := key; qcallers := [cid]; qvers := [];
                                     qcfg := c; qholders := cholders c |}];
         next_qid := next_qid s + 1; next_cid := cid + 1; dead := dead s |}
  end.

(* result_map.entry(content_hash): insert the peer into the version's responder set, or create
   the version; returns the new map and the size of that version's responder set *)
Fixpoint insert_version (vs : list version) (r : record) (p : peer) : list version * N :=
  match vs with
  | [] => ([(r, [p])], 1)
  | (r0, ps) :: rest =>
      if content_eqb (rcont r0) (rcont r) then
        let ps' := if mem p ps then ps else ps ++ [p] in
        ((r0, ps') :: rest, N.of_nat (length ps'))
      else let (rest', n) := insert_version rest r p in ((r0, ps) :: rest', n)
  end.

(* transactions.rs get_transactions_from_record *)
Definition get_transactions (r : record) : option (list N) :=
  match ckind (rcont r) with
  | Some KTx => match cpay (rcont r) with PTx l => Some l | _ => None end
  | _ => None
  end.

Definition collect_txs (vs : list version) : list N :=
  fold_left (fun acc v => match get_transactions (fst v) with Some l => set_union acc l | None => acc end)
            vs [].

Definition tx_content (l : list N) : content := {| ckind := Some KTx; cpay := PTx l |}.

(* kad.rs send_record_after_checking_target *)
Definition checked (c : cfg) (r : record) : outcome :=
  if does_target_match c r then OOk r else EMismatch r.

Definition set_pending (s : state) (p : list query) : state :=
  {| pending := p; next_qid := next_qid s; next_cid := next_cid s; dead := dead s |}.

Definition nlen {A} (l : list A) : N := N.of_nat (length l).

(* `if !cfg.expected_holders.is_empty() { cfg.expected_holders.remove(&peer_id) }` *)
Definition remove_holder (p : peer) (hs : list N) : list N := filter (fun h => negb (h =? p)) hs.

(* kad.rs accumulate_get_record_found *)
Definition accumulate (s : state) (q : N) (p : option peer) (r : record)
  : state * list (N * outcome) * ret :=
  match find_query q (pending s) with
  | None => (s, [], RDropped)
  | Some x =>
      let (vers', responded) := insert_version (qvers x) r (peer_of p) in
      if quorum_value (cq (qcfg x)) <=? responded then
        let s' := set_pending s (remove_query q (pending s)) in
        let res :=
          if nlen vers' =? 1 then checked (qcfg x) r
          else
            let txs := collect_txs vers' in
            match txs with
            | [] => ESplit vers'
            | _ => OMerged {| rkey := rkey r; rcont := tx_content txs; rpub := None |}
            end in
        let (o, rt) := deliver (dead s) (qcallers x) res in
        (s', o, rt)
      else
        (set_pending s (replace_query {| qid := qid x; qkey := qkey x; qcallers := qcallers x;
                                         qvers := vers'; qcfg := qcfg x;
                                         qholders := remove_holder (peer_of p) (qholders x) |}
                                      (pending s)), [], ROk)
  end.

(* kad.rs handle_get_record_finished *)
Definition finished (s : state) (q : N) : state * list (N * outcome) * ret :=
  match find_query q (pending s) with
  | None => (s, [], ROk)
  | Some x =>
      let s' := set_pending s (remove_query q (pending s)) in
      let res :=
        match qvers x with
        | [] => ENotFound
        | [(r, ps)] =>
            if quorum_value (cq (qcfg x)) <=? nlen ps then OOk r   (* not target-checked *)
            else ENotEnough r (quorum_value (cq (qcfg x))) (nlen ps)
        | vs => ESplit vs
        end in
      let (o, rt) := deliver (dead s) (qcallers x) res in
      (s', o, rt)
  end.

(* kad.rs handle_get_record_error, NotFound | QuorumFailed *)
Definition err_not_found (s : state) (q : N) : state * list (N * outcome) * ret :=
  match find_query q (pending s) with
  | None => (s, [], RDropped)
  | Some x =>
      let (o, rt) := deliver (dead s) (qcallers x) ENotFound in
      (set_pending s (remove_query q (pending s)), o, rt)
  end.

(* kad.rs handle_get_record_error, Timeout *)
Definition err_timeout (s : state) (q : N) : state * list (N * outcome) * ret :=
  match find_query q (pending s) with
  | None => (s, [], RDropped)
  | Some x =>
      let res :=
        match qvers x with
        | [(r, ps)] =>
            if quorum_value (cq (qcfg x)) <=? nlen ps then checked (qcfg x) r else ETimeout
        | _ => ETimeout
        end in
      let (o, rt) := deliver (dead s) (qcallers x) res in
      (set_pending s (remove_query q (pending s)), o, rt)
  end.

Definition step (s : state) (e : event) : state * list (N * outcome) * ret :=
  match e with
  | Cmd key c => (handle_cmd s key c, [], ROk)
  | Found q p r => accumulate s q p r
  | Finished q => finished s q
  | ErrNotFound q | ErrQuorumFailed q => err_not_found s q
  | ErrTimeout q => err_timeout s q
  | Drop c => ({| pending := pending s; next_qid := next_qid s; next_cid := next_cid s;
                  dead := c :: dead s |}, [], ROk)
  end.

Definition step_state (s : state) (e : event) : state := fst (fst (step s e)).
Definition step_outs (s : state) (e : event) : list (N * outcome) := snd (fst (step s e)).

(* whole histories: final state and everything delivered, in order *)
Fixpoint run_from (s : state) (evs : list event) : state * list (N * outcome) :=
  match evs with
  | [] => (s, [])
  | e :: r =>
      let s' := step_state s e in
      let (sf, o) := run_from s' r in (sf, step_outs s e ++ o)
  end.

Definition run (evs : list event) : state * list (N * outcome) := run_from init evs.
Definition final (evs : list event) : state := fst (run evs).
Definition outs (evs : list event) : list (N * outcome) := snd (run evs).

Fixpoint count_outcomes (o : list (N * outcome)) (c : N) : nat :=
  match o with
  | [] => 0%nat
  | (c', _) :: r => ((if c' =? c then 1 else 0) + count_outcomes r c)%nat
  end.

Definition waiting (s : state) (c : N) : bool := existsb (fun x => mem c (qcallers x)) (pending s).

(* ------------------------------------------------------------------------------------------ *)
(* lib.rs Network::handle_split_record_error; `vers` = result_map.values() in iteration order   *)

Record sacc := {
  a_kind : option kind;                          (* record_kind: dictated by the first parsable header *)
  a_txs : list N;                                (* accumulated_transactions (a set) *)
  a_regs : list (N * list N * N);                (* collected_registers: (base, ops, salt), in order *)
  a_pad : option (N * N)                         (* valid_scratchpad: (count, data) *)
}.

Definition sacc0 : sacc := {| a_kind := None; a_txs := []; a_regs := []; a_pad := None |}.

Definition split_step (a : sacc) (r : record) : sacc :=
  match ckind (rcont r) with
  | None => a                                                   (* header does not parse: continue *)
  | Some k =>
      let k0 := match a_kind a with Some k0 => k0 | None => k end in       (* get_or_insert *)
      let a := {| a_kind := Some k0; a_txs := a_txs a; a_regs := a_regs a; a_pad := a_pad a |} in
      if negb (kind_eqb k0 k) then a
      else
        match k0 with
        | KTx =>
            match cpay (rcont r) with
            | PTx l => {| a_kind := a_kind a; a_txs := set_union (a_txs a) l; a_regs := a_regs a;
                          a_pad := a_pad a |}
            | _ => a
            end
        | KReg =>
            match cpay (rcont r) with
            | PReg b true ops salt =>
                {| a_kind := a_kind a; a_txs := a_txs a; a_regs := a_regs a ++ [(b, ops, salt)];
                   a_pad := a_pad a |}
            | _ => a
            end
        | KPad =>
            match cpay (rcont r) with
            | PPad true c d =>
                match a_pad a with
                | Some (c0, _) =>
                    if c <=? c0 then a           (* old.count() >= scratchpad.count(): keep the old *)
                    else {| a_kind := a_kind a; a_txs := a_txs a; a_regs := a_regs a;
                            a_pad := Some (c, d) |}
                | None => {| a_kind := a_kind a; a_txs := a_txs a; a_regs := a_regs a;
                             a_pad := Some (c, d) |}
                end
            | _ => a
            end
        | _ => a
        end
  end.

(* `collected_registers.iter().fold(collected_registers[0].clone(), |acc, x| acc.merge(x) ..)` *)
Definition merge_regs (first : N * list N * N) (l : list (N * list N * N)) : N * list N * N :=
  fold_left (fun acc x =>
               match acc, x with
               | (b, ops, salt), (b', ops', _) =>
                   if b =? b' then (b, set_union ops ops', salt) else acc   (* DifferentBaseRegister *)
               end) l first.

Definition handle_split (vers : list record) (key : N) : option record :=
  let a := if 1 <? nlen vers then fold_left split_step vers sacc0 else sacc0 in
  if 1 <? nlen (a_txs a) then
    Some {| rkey := key; rcont := tx_content (a_txs a); rpub := None |}
  else
    match a_regs a with
    | first :: _ =>
        match merge_regs first (a_regs a) with
        | (b, ops, salt) =>
            Some {| rkey := key; rcont := {| ckind := Some KReg; cpay := PReg b true ops salt |};
                    rpub := None |}
        end
    | [] =>
        match a_pad a with
        | Some (c, d) =>
            Some {| rkey := key; rcont := {| ckind := Some KPad; cpay := PPad true c d |}; rpub := None |}
        | None => None
        end
    end.

(* ------------------------------------------------------------------------------------------ *)
(* lib.rs Network::get_record_from_network: what one attempt's outcome becomes, and the loop     *)

Inductive api_result :=
| AOk (r : record)
| AErr (e : outcome)        (* Err(NetworkError::GetRecordError(e)) *)
| AChan.                    (* Err(NetworkError::InternalMsgChannelDropped) *)

(* `order` = the versions of a SplitRecord error in the iteration order of its map.
   Returns Some final result, or None = "go on to the back-off / next attempt". *)
Definition api_attempt (key : N) (o : outcome) (order : list record) : option api_result :=
  match o with
  | OOk r | OMerged r => Some (AOk r)
  | EClosed => Some AChan                  (* channel error: no retries *)
  | ESplit _ => match handle_split order key with Some r => Some (AOk r) | None => None end
  | _ => None
  end.

(* attempts = the outcomes of the successive attempts so far, each with its split order;
   n = attempts the retry strategy allows (RetryStrategy::attempts, at least 1).
   None = the caller is still waiting for an outcome. *)
Fixpoint api_loop (key : N) (n : nat) (attempts : list (outcome * list record)) {struct attempts}
  : option api_result :=
  match attempts with
  | [] => None
  | (o, order) :: rest =>
      match api_attempt key o order with
      | Some res => Some res
      | None =>
          match n with
          | O | S O => Some (AErr o)                   (* back-off exhausted: `break Err(err.into())` *)
          | S n' => api_loop key n' rest
          end
      end
  end.

(* ------------------------------------------------------------------------------------------ *)
(* comparison helpers for the correspondence run                                               *)

Definition perm_mem_eqb (a b : list N) : bool :=      (* same elements (responder sets) *)
  forallb (fun x => mem x b) a && forallb (fun x => mem x a) b.

Definition version_eqb (a b : version) : bool :=
  record_eqb (fst a) (fst b) && perm_mem_eqb (snd a) (snd b) && (nlen (snd a) =? nlen (snd b)).

Definition versions_equiv (a b : list version) : bool :=
  (nlen a =? nlen b) && forallb (fun x => existsb (version_eqb x) b) a
                     && forallb (fun x => existsb (version_eqb x) a) b.

(* what a caller can observe of an outcome *)
Definition outcome_eqb (m i : outcome) : bool :=
  match m, i with
  | OOk a, OOk b | OMerged a, OOk b => record_eqb a b
  | ENotFound, ENotFound => true
  | ENotEnough a e g, ENotEnough b e' g' => record_eqb a b && (e =? e') && (g =? g')
  | ESplit a, ESplit b => versions_equiv a b
  | EMismatch a, EMismatch b => record_eqb a b
  | ETimeout, ETimeout => true
  | EClosed, EClosed => true
  | _, _ => false
  end.

Definition ret_eqb (a b : ret) : bool :=
  match a, b with ROk, ROk | RDropped, RDropped | RChan, RChan => true | _, _ => false end.

Definition quorum_eqb (a b : quorum) : bool :=
  match a, b with
  | QOne, QOne | QMajority, QMajority | QAll, QAll => true
  | QN x, QN y => x =? y
  | _, _ => false
  end.

Definition otarget_eqb (a b : option record) : bool :=
  match a, b with
  | None, None => true
  | Some x, Some y => record_eqb x y
  | _, _ => false
  end.

(* the hook's dump of pending_get_record: (query, key, number of senders, versions, quorum, target,
   is_register, expected_holders still stored) *)
Definition qdump := (N * N * N * list version * quorum * option record * bool * list N)%type.

Definition query_agrees (x : query) (d : qdump) : bool :=
  match d with
  | (q, k, n, vs, qu, tg, ir, hs) =>
      (qid x =? q) && (qkey x =? k) && (nlen (qcallers x) =? n) && versions_equiv (qvers x) vs
      && quorum_eqb (cq (qcfg x)) qu && otarget_eqb (ctarget (qcfg x)) tg && Bool.eqb (cisreg (qcfg x)) ir
      && perm_mem_eqb (qholders x) hs
  end.

Fixpoint pending_agrees (p : list query) (d : list qdump) : bool :=
  match p, d with
  | [], [] => true
  | x :: p', y :: d' => query_agrees x y && pending_agrees p' d'
  | _, _ => false
  end.

Fixpoint outs_agree (m i : list (N * outcome)) : bool :=
  match m, i with
  | [], [] => true
  | (c, o) :: m', (c', o') :: i' => (c =? c') && outcome_eqb o o' && outs_agree m' i'
  | _, _ => false
  end.

(* one observed step: the event, the handler's return code, what callers received (sorted by
   caller id by the driver; the model delivers in sender order, which is increasing caller id),
   and the dumped pending map (sorted by query index) *)
Definition obs := (event * ret * list (N * outcome) * list qdump)%type.

(* `apis` = the callers that are attempts of a real get_record_from_network future: their raw
   outcome is consumed inside that future and is compared through agree_api instead *)
Definition visible (apis : list N) (o : list (N * outcome)) : list (N * outcome) :=
  filter (fun co => negb (mem (fst co) apis)) o.

Fixpoint trace_agrees (apis : list N) (s : state) (tr : list obs) : bool :=
  match tr with
  | [] => true
  | (e, rt, o, d) :: rest =>
      match step s e with
      | (s', mo, mrt) =>
          ret_eqb mrt rt && outs_agree (visible apis mo) o && pending_agrees (pending s') d
          && trace_agrees apis s' rest
      end
  end.

Definition agree_hist (apis : list N) (tr : list obs) : bool := trace_agrees apis init tr.

(* a transaction merge collected from a HashSet (lib.rs) is encoded in an arbitrary order: results of
   handle_split_record_error / get_record_from_network are compared with transaction lists as sets *)
Definition canon_content (c : content) : content :=
  match cpay c with
  | PTx l => {| ckind := ckind c; cpay := PTx (set_union [] l) |}
  | _ => c
  end.

Definition record_eqb_modtx (a b : record) : bool :=
  (rkey a =? rkey b) && content_eqb (canon_content (rcont a)) (canon_content (rcont b)) && on_eqb (rpub a) (rpub b).

Definition orecord_eqb (a b : option record) : bool :=
  match a, b with
  | None, None => true
  | Some x, Some y => record_eqb_modtx x y
  | _, _ => false
  end.

(* all orders in which a map of these versions can be iterated *)
Fixpoint insert_all {A} (x : A) (l : list A) : list (list A) :=
  match l with
  | [] => [[x]]
  | y :: r => (x :: l) :: map (cons y) (insert_all x r)
  end.

Fixpoint perms {A} (l : list A) : list (list A) :=
  match l with
  | [] => [[]]
  | x :: r => flat_map (insert_all x) (perms r)
  end.

(* every result the implementation produced over its (unobservable) iteration orders is the model's
   result for some order, and when the model is order-independent it is the only one *)
Definition agree_split (vers : list record) (key : N) (impl : list (option record)) : bool :=
  let ms := map (fun p => handle_split p key) (perms vers) in
  forallb (fun i => existsb (fun m => orecord_eqb m i) ms) impl.

Definition split_order_independent (vers : list record) (key : N) : bool :=
  match map (fun p => handle_split p key) (perms vers) with
  | [] => true
  | m :: rest => forallb (orecord_eqb m) rest
  end.

Definition api_result_eqb (m i : api_result) : bool :=
  match m, i with
  | AOk a, AOk b => record_eqb_modtx a b
  | AErr a, AErr b => outcome_eqb a b
  | AChan, AChan => true
  | _, _ => false
  end.

Definition oapi_eqb (m i : option api_result) : bool :=
  match m, i with
  | None, None => true
  | Some a, Some b => api_result_eqb a b
  | _, _ => false
  end.

Definition split_records (o : outcome) : list record :=
  match o with ESplit vs => map fst vs | _ => [] end.

(* the outcomes the model delivered to the successive attempts of one api caller, against the
   final result of the real get_record_from_network (None = still running); the iteration order of
   each split map is existentially chosen *)
Fixpoint api_orders (atts : list outcome) : list (list (outcome * list record)) :=
  match atts with
  | [] => [[]]
  | o :: r =>
      flat_map (fun p => map (cons (o, p)) (api_orders r)) (perms (split_records o))
  end.

Definition agree_api (key : N) (n : nat) (atts : list outcome) (impl : option api_result) : bool :=
  existsb (fun a => oapi_eqb (api_loop key n a) impl) (api_orders atts).

Definition agree_target (c : cfg) (r : record) (impl : bool) : bool := Bool.eqb (does_target_match c r) impl.
Definition agree_quorum (q : quorum) (impl : N) : bool := quorum_value q =? impl.

(* outcomes delivered to caller c over a whole history (for the api agreement) *)
Definition outcomes_of (evs : list event) (c : N) : list outcome :=
  map snd (filter (fun co => fst co =? c) (outs evs)).
