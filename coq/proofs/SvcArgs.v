(* Proofs about the service-definition builders (C20). *)
From Coq Require Import List NArith String Ascii Bool Lia Permutation.
From V Require Import lib.Strs lib.Dec gen.Consts model.SvcArgs.
Import ListNotations.
Open Scope string_scope.

(* ================================================================ the tables regenerated from the clap attributes *)
Definition tbl (l : list (string * N)) : list (string * bool) := map (fun x => (fst x, negb (N.eqb (snd x) 0))) l.
Definition T : list (string * bool) := tbl Consts.antnode_flag_table.
Definition SUBS : list (string * list (string * bool)) :=
  map (fun n => (n, if String.eqb n "evm-custom" then tbl Consts.antnode_evm_custom_flags else []))
      Consts.antnode_evm_subcommands.

Definition all_segs : list seg :=
  [SRpc; SRoot; SLog; SFirst; SLocal; SPeer; SUrls; STestnet; SIgnore; SCache; SNetId; SHome; SLogFmt; SUpnp;
   SIp; SPort; SMetrics; SOwner; SMaxArch; SMaxLog; SRewards].

Lemma all_segs_complete s : In s all_segs.
Proof. destruct s; cbn; tauto. Qed.

(* every flag either builder can write is a flag antnode declares, with the same arity, and is not a
   sub-command name *)
Lemma seg_known s : tlookup (seg_name s) T = Some (seg_arity s) /\ slookup (seg_name s) SUBS = None.
Proof. destruct s; vm_compute; split; reflexivity. Qed.

(* the order of the pushes in the two builders, as re-read from the source *)
Fixpoint splice (l peers : list string) : list string :=
  match l with
  | [] => []
  | x :: r => if String.eqb x "@peers" then (peers ++ splice r peers)%list else x :: splice r peers
  end.

Lemma orders_match_source :
  splice Consts.svc_install_flags Consts.svc_peers_flags =
    (map seg_name install_order ++ ["@evm"; "--rpc-url"; "--payment-token-address"; "--data-payments-address"])%list /\
  splice Consts.svc_upgrade_flags Consts.svc_peers_flags =
    (map seg_name upgrade_order ++ ["@evm"; "--rpc-url"; "--payment-token-address"; "--data-payments-address"])%list /\
  map evm_name [EvmOne; EvmSepolia; EvmCustom "" "" ""] = Consts.antnode_evm_subcommands /\
  map (fun i => (iname i, takes_value i)) (evm_items (EvmCustom "" "" "")) = tbl Consts.antnode_evm_custom_flags.
Proof. vm_compute. repeat split. Qed.

(* ================================================================ segments *)
Lemma seg_items_shape c s :
  seg_items c s = [] \/ exists i, seg_items c s = [i] /\ iname i = seg_name s /\ takes_value i = seg_arity s.
Proof.
  destruct s; cbn [seg_items]; unfold oflag, oopt, olist;
    repeat match goal with
           | |- context [if ?b then _ else _] => destruct b
           | |- context [match ?o with _ => _ end] => destruct o
           end;
    first [left; reflexivity | right; eexists; split; [reflexivity|split; reflexivity]].
Qed.

Lemma seg_name_inj a b : seg_name a = seg_name b -> a = b.
Proof. destruct a, b; cbn; intros H; try reflexivity; discriminate H. Qed.

Lemma names_of_flat c order n : In n (map iname (flat_map (seg_items c) order)) -> exists s, In s order /\ n = seg_name s.
Proof.
  induction order as [|s r IH]; [intros []|]. cbn [flat_map]. rewrite map_app. intros H. apply in_app_or in H.
  destruct H as [H|H].
  - destruct (seg_items_shape c s) as [E|(i & E & Nn & _)]; rewrite E in H; [destruct H|].
    destruct H as [H|[]]. exists s. split; [left; reflexivity|congruence].
  - destruct (IH H) as (s' & A & B). exists s'. split; [right; exact A|exact B].
Qed.

Lemma nodup_names c order : NoDup order -> NoDup (map iname (flat_map (seg_items c) order)).
Proof.
  induction 1 as [|s r NI ND IH]; [constructor|]. cbn [flat_map]. rewrite map_app.
  destruct (seg_items_shape c s) as [E|(i & E & Nn & _)]; rewrite E; [exact IH|].
  cbn [map app]. constructor; [|exact IH]. intros H. destruct (names_of_flat _ _ _ H) as (s' & A & B).
  rewrite Nn in B. apply seg_name_inj in B. subst s'. contradiction.
Qed.

Lemma install_order_nodup : NoDup install_order.
Proof. repeat constructor; cbn; intuition discriminate. Qed.
Lemma upgrade_order_nodup : NoDup upgrade_order.
Proof. repeat constructor; cbn; intuition discriminate. Qed.

Lemma orders_permutation : Permutation install_order upgrade_order.
Proof.
  apply NoDup_Permutation; [apply install_order_nodup|apply upgrade_order_nodup|].
  intros s. split; intros _; destruct s; cbn; tauto.
Qed.

Lemma perm_flat_map {A B} (f : A -> list B) l l' : Permutation l l' -> Permutation (flat_map f l) (flat_map f l').
Proof.
  induction 1; cbn [flat_map].
  - constructor.
  - apply Permutation_app_head. assumption.
  - rewrite !app_assoc. apply Permutation_app_tail. apply Permutation_app_comm.
  - eapply Permutation_trans; eassumption.
Qed.

Lemma main_permutation c : Permutation (install_main c) (upgrade_main c).
Proof. apply perm_flat_map. apply orders_permutation. Qed.

(* with distinct flag names, the order of the items does not matter to what each flag means *)
Lemma ilookup_in f l i : NoDup (map iname l) -> In i l -> iname i = f -> ilookup f l = Some (ivalue i).
Proof.
  induction l as [|j r IH]; [intros _ []|]. cbn [map ilookup]. intros ND [->|H] E.
  - rewrite E, String.eqb_refl. reflexivity.
  - inversion ND as [|? ? NI ND']; subst. destruct (String.eqb (iname j) (iname i)) eqn:X.
    + apply String.eqb_eq in X. elim NI. rewrite X. apply in_map. exact H.
    + apply IH; auto.
Qed.

Lemma ilookup_none f l : ~ In f (map iname l) -> ilookup f l = None.
Proof.
  induction l as [|j r IH]; [reflexivity|]. cbn [map ilookup]. intros H.
  destruct (String.eqb (iname j) f) eqn:X; [apply String.eqb_eq in X; elim H; left; exact X|].
  apply IH. intros Y. apply H. right. exact Y.
Qed.

Lemma ilookup_perm f l l' : NoDup (map iname l) -> Permutation l l' -> ilookup f l = ilookup f l'.
Proof.
  intros ND P. assert (ND' : NoDup (map iname l')) by (eapply Permutation_NoDup; [apply Permutation_map; exact P|exact ND]).
  destruct (in_dec string_dec f (map iname l)) as [I|NI].
  - apply in_map_iff in I. destruct I as (i & E & Hi).
    rewrite (ilookup_in f l i ND Hi E). symmetry. apply ilookup_in; auto. eapply Permutation_in; eassumption.
  - rewrite (ilookup_none _ _ NI). symmetry. apply ilookup_none. intros Y. apply NI.
    eapply Permutation_in; [apply Permutation_sym, Permutation_map; exact P|exact Y].
Qed.

(* ================================================================ the pinned statements *)
(* (1) installation and upgrade write the same set of flag/value pairs and the same sub-command *)
Lemma equiv_lemma c :
  Permutation (install_main c) (upgrade_main c) /\
  (forall f, ilookup f (install_main c) = ilookup f (upgrade_main c)) /\
  (exists k, install_args c = (render (install_main c) ++ k)%list /\ upgrade_args c = (render (upgrade_main c) ++ k)%list).
Proof.
  split; [apply main_permutation|]. split.
  - intros f. apply ilookup_perm; [apply nodup_names, install_order_nodup|apply main_permutation].
  - exists (evm_tokens (c_evm c)). split; reflexivity.
Qed.

(*     the rest of the service definition: program, user, label are the recorded ones; the environment is
       what the upgrade was given; auto-restart is the recorded setting *)
Lemma ctx_lemma c env o :
  let i := install_ctx c env in let u := upgrade_ctx c o in
  x_program u = x_program i /\ x_user u = x_user i /\ x_label u = x_label i /\
  x_autostart u = x_autostart i /\ x_env u = u_env o.
Proof. cbn. repeat split. Qed.

(*     before the repair the auto-restart setting came from the upgrade options, and antctl passes `false` *)
Lemma autostart_legacy_refuted : Consts.antctl_upgrade_autostart_literal = false /\
  exists c env o, u_autostart o = Consts.antctl_upgrade_autostart_literal /\
    x_autostart (upgrade_ctx_legacy c o) <> x_autostart (install_ctx c env).
Proof.
  split; [reflexivity|].
  exists (mkCfg "" "" "" false false [] [] false false None None false None false None None None None None None "" EvmOne
                true "" "" None), None, (mkU false None).
  split; [reflexivity|]. cbn. discriminate.
Qed.

(*     the one explicit difference: the node port observed at run time replaces the installed one *)
Lemma ilookup_seg_skip c s f rest : seg_name s <> f -> ilookup f (seg_items c s ++ rest)%list = ilookup f rest.
Proof.
  intros NE. destruct (seg_items_shape c s) as [X|(i & X & Nn & _)]; rewrite X; [reflexivity|].
  cbn [app ilookup]. rewrite Nn. destruct (String.eqb (seg_name s) f) eqn:E; [apply String.eqb_eq in E; contradiction|reflexivity].
Qed.

Lemma ilookup_app_head f l rest rest' : ilookup f rest = ilookup f rest' -> ilookup f (l ++ rest)%list = ilookup f (l ++ rest')%list.
Proof. intros H. induction l as [|i r IH]; [exact H|]. cbn [app ilookup]. rewrite IH. reflexivity. Qed.

Lemma ilookup_other_port c p f order : f <> "--port" ->
  ilookup f (flat_map (seg_items (set_port c p)) order) = ilookup f (flat_map (seg_items c) order).
Proof.
  intros NE. induction order as [|s r IH]; [reflexivity|]. cbn [flat_map].
  assert (D : s = SPort \/ s <> SPort) by (destruct s; (left; reflexivity) || (right; discriminate)).
  destruct D as [->|D].
  - rewrite !ilookup_seg_skip by (cbn; congruence). exact IH.
  - assert (X : seg_items (set_port c p) s = seg_items c s) by (destruct s; try reflexivity; contradiction).
    rewrite X. apply ilookup_app_head. exact IH.
Qed.

Lemma port_lemma c p f :
  ilookup f (upgrade_main (set_port c (Some p))) =
    if String.eqb f "--port" then Some (Some (dec p)) else ilookup f (install_main c).
Proof.
  rewrite <- (ilookup_perm f (install_main (set_port c (Some p)))) by
    (try apply nodup_names; try apply install_order_nodup; apply main_permutation).
  destruct (String.eqb f "--port") eqn:E.
  - apply String.eqb_eq in E. subst f. unfold install_main, install_order, peers_order. cbn [app flat_map].
    rewrite !ilookup_seg_skip by (cbn; discriminate). reflexivity.
  - apply ilookup_other_port. intros X. subst f. discriminate E.
Qed.

(* (2) every flag written is a flag antnode declares (table regenerated from the clap attributes) *)
Definition item_ok (i : item) : Prop :=
  tlookup (iname i) T = Some (takes_value i) /\ slookup (iname i) SUBS = None.

Lemma flat_ok c order : Forall item_ok (flat_map (seg_items c) order).
Proof.
  induction order as [|s r IH]; [constructor|]. cbn [flat_map]. apply Forall_app. split; [|exact IH].
  destruct (seg_items_shape c s) as [E|(i & E & Nn & Ar)]; rewrite E; [constructor|].
  constructor; [|constructor]. unfold item_ok. rewrite Nn, Ar. apply seg_known.
Qed.

Lemma known_lemma c :
  Forall item_ok (install_main c) /\ Forall item_ok (upgrade_main c) /\
  In (evm_name (c_evm c)) Consts.antnode_evm_subcommands /\
  Forall (fun i => tlookup (iname i) (tbl Consts.antnode_evm_custom_flags) = Some (takes_value i)) (evm_items (c_evm c)).
Proof.
  split; [apply flat_ok|]. split; [apply flat_ok|]. split.
  - destruct (c_evm c); vm_compute; tauto.
  - destruct (c_evm c); repeat constructor.
Qed.

(* (3) reading the written tokens back against antnode's tables gives exactly the items that were meant *)
Lemma render_length_cons i l : (List.length (render l) <= List.length (render (i :: l)))%nat.
Proof. destruct i; cbn; lia. Qed.

Lemma parse_flags_render t items : forall fuel,
  Forall (fun i => tlookup (iname i) t = Some (takes_value i)) items ->
  (List.length (render items) <= fuel)%nat -> parse_flags t fuel (render items) = Some items.
Proof.
  induction items as [|i r IH]; intros fuel FA L.
  - destruct fuel; reflexivity.
  - inversion FA as [|? ? Hi FA']; subst. destruct fuel as [|fuel]; [destruct i; cbn in L; lia|].
    destruct i as [n|n v]; cbn [render parse_flags iname takes_value List.length] in *; rewrite Hi.
    + rewrite IH; [reflexivity|exact FA'|lia].
    + rewrite IH; [reflexivity|exact FA'|lia].
Qed.

Lemma parse_cmd_render main e : forall fuel,
  Forall item_ok main -> slookup (evm_name e) SUBS = Some (if String.eqb (evm_name e) "evm-custom" then tbl Consts.antnode_evm_custom_flags else []) ->
  Forall (fun i => tlookup (iname i) (tbl Consts.antnode_evm_custom_flags) = Some (takes_value i)) (evm_items e) ->
  (List.length (render main ++ evm_tokens e)%list <= fuel)%nat ->
  parse_cmd T SUBS fuel (render main ++ evm_tokens e)%list = Some (main, Some (evm_name e, evm_items e)).
Proof.
  induction main as [|i r IH]; intros fuel FA SL FE L.
  - cbn [render app] in *. unfold evm_tokens in *. destruct fuel as [|fuel]; [cbn in L; lia|]. cbn [parse_cmd]. rewrite SL.
    assert (X : parse_flags (if String.eqb (evm_name e) "evm-custom" then tbl Consts.antnode_evm_custom_flags else [])
                  (List.length (render (evm_items e))) (render (evm_items e)) = Some (evm_items e)).
    { apply parse_flags_render; [|lia]. destruct e; cbn [evm_items evm_name]; [constructor|constructor|exact FE]. }
    rewrite X. reflexivity.
  - inversion FA as [|? ? (Hi & Hs) FA']; subst. destruct fuel as [|fuel]; [destruct i; cbn in L; lia|].
    destruct i as [n|n v]; cbn [render app parse_cmd iname takes_value List.length] in *; rewrite Hs, Hi.
    + rewrite IH; [reflexivity|exact FA'|exact SL|exact FE|lia].
    + rewrite IH; [reflexivity|exact FA'|exact SL|exact FE|lia].
Qed.

Lemma evm_sub_known e : slookup (evm_name e) SUBS =
  Some (if String.eqb (evm_name e) "evm-custom" then tbl Consts.antnode_evm_custom_flags else []).
Proof. destruct e; vm_compute; reflexivity. Qed.

Lemma interp_lemma c :
  parse_cmd T SUBS (List.length (install_args c)) (install_args c) =
    Some (install_main c, Some (evm_name (c_evm c), evm_items (c_evm c))) /\
  parse_cmd T SUBS (List.length (upgrade_args c)) (upgrade_args c) =
    Some (upgrade_main c, Some (evm_name (c_evm c), evm_items (c_evm c))).
Proof.
  destruct (known_lemma c) as (A & B & _ & D).
  split; apply parse_cmd_render; auto using evm_sub_known.
Qed.

(* ================================================================ non-vacuity *)
Definition ex_cfg : cfg :=
  mkCfg "127.0.0.1:8081" "/d/antnode1" "/l/antnode1" false false ["/ip4/1.2.3.4/udp/1200/quic-v1"; "/ip4/1.2.3.5/udp/1/quic-v1"]
        ["http://a/b"] true true (Some "/cache") (Some 5%N) true (Some LJson) true (Some "10.0.0.1") (Some 12000%N)
        (Some 13000%N) (Some "bob") (Some 7%N) (Some 9%N) "0xabc" (EvmCustom "http://localhost:8545/" "0x1" "0x2")
        true "antnode1" "/d/antnode1/antnode" (Some "ant").

Example ex_orders_differ : install_args ex_cfg <> upgrade_args ex_cfg /\
  List.length (install_main ex_cfg) = 19%nat /\ ilookup "--port" (upgrade_main ex_cfg) = Some (Some "12000").
Proof. split; [vm_compute; discriminate|]. split; vm_compute; reflexivity. Qed.

Example ex_tokens : firstn 8 (install_args ex_cfg) =
  ["--rpc"; "127.0.0.1:8081"; "--root-dir"; "/d/antnode1"; "--log-output-dest"; "/l/antnode1"; "--peer";
   "/ip4/1.2.3.4/udp/1200/quic-v1,/ip4/1.2.3.5/udp/1/quic-v1"].
Proof. vm_compute. reflexivity. Qed.

(* ================================================================ antnode's declared conflicts *)
Fixpoint pairs_of (l : list string) : list (string * string) :=
  match l with a :: b :: r => (a, b) :: pairs_of r | _ => [] end.
Definition CONFLICTS : list (string * string) := pairs_of Consts.antnode_conflicts.

Lemma ilookup_absent c order s : ~ In s order -> ilookup (seg_name s) (flat_map (seg_items c) order) = None.
Proof.
  intros NI. apply ilookup_none. intros H. destruct (names_of_flat _ _ _ H) as (s' & A & B).
  apply seg_name_inj in B. subst s'. contradiction.
Qed.

Lemma ilookup_seg c order s : NoDup order -> In s order ->
  ilookup (seg_name s) (flat_map (seg_items c) order) = ilookup (seg_name s) (seg_items c s).
Proof.
  induction 1 as [|x r NI ND IH]; [intros []|]. intros [->|H]; cbn [flat_map].
  - destruct (seg_items_shape c s) as [X|(i & X & Nn & _)]; rewrite X.
    + cbn [app ilookup]. apply ilookup_absent. exact NI.
    + cbn [app ilookup]. rewrite Nn, String.eqb_refl. reflexivity.
  - rewrite ilookup_seg_skip; [apply IH; exact H|]. intros E. apply seg_name_inj in E. subst x. contradiction.
Qed.

Definition written (c : cfg) (f : string) : Prop := ilookup f (install_main c) <> None.

(* the one known way to write a conflicting pair: a genesis node with peers / contact URLs *)
Definition KnownGenesisWithPeers (c : cfg) : Prop :=
  c_first c = true /\ (c_addrs c <> [] \/ c_urls c <> []).
(* antctl's own command line refuses --local together with --network-contacts-url *)
Definition installable (c : cfg) : Prop := c_local c = true -> c_urls c = [].

Lemma conflict_free_lemma c : installable c -> ~ KnownGenesisWithPeers c ->
  forall a b, In (a, b) CONFLICTS -> ~ (written c a /\ written c b).
Proof.
  intros INST NK a b Hab (Wa & Wb). unfold written in *.
  assert (IO : forall s, In s install_order) by (intros s; destruct s; cbn; tauto).
  assert (L : forall s, ilookup (seg_name s) (install_main c) = ilookup (seg_name s) (seg_items c s)).
  { intros s. apply ilookup_seg; [apply install_order_nodup|apply IO]. }
  assert (WF : ilookup "--first" (install_main c) <> None -> c_first c = true).
  { pose proof (L SFirst) as X0. cbn [seg_name] in X0. rewrite X0. cbn [seg_items]. unfold oflag. destruct (c_first c); [reflexivity|intros X; elim X; reflexivity]. }
  assert (WP : ilookup "--peer" (install_main c) <> None -> c_addrs c <> []).
  { pose proof (L SPeer) as X0. cbn [seg_name] in X0. rewrite X0. cbn [seg_items]. unfold olist. destruct (c_addrs c); [intros X; elim X; reflexivity|discriminate]. }
  assert (WU : ilookup "--network-contacts-url" (install_main c) <> None -> c_urls c <> []).
  { pose proof (L SUrls) as X0. cbn [seg_name] in X0. rewrite X0. cbn [seg_items]. unfold olist. destruct (c_urls c); [intros X; elim X; reflexivity|discriminate]. }
  assert (WL : ilookup "--local" (install_main c) <> None -> c_local c = true).
  { pose proof (L SLocal) as X0. cbn [seg_name] in X0. rewrite X0. cbn [seg_items]. unfold oflag. destruct (c_local c); [reflexivity|intros X; elim X; reflexivity]. }
  vm_compute in Hab.
  destruct Hab as [E|[E|[E|[]]]]; inversion E; subst a b.
  - apply NK. split; [apply WF; exact Wb|left; apply WP; exact Wa].
  - apply NK. split; [apply WF; exact Wb|right; apply WU; exact Wa].
  - apply (WU Wb). apply INST. apply WL. exact Wa.
Qed.

Lemma genesis_with_peers_refuted : exists c a b, KnownGenesisWithPeers c /\ In (a, b) CONFLICTS /\ written c a /\ written c b.
Proof.
  exists (mkCfg "" "" "" true false ["/ip4/1.2.3.4/udp/1/quic-v1"] [] false false None None false None false None None None None None None "" EvmOne
                false "" "" None), "--peer", "--first".
  split; [split; [reflexivity|left; discriminate]|]. split; [vm_compute; tauto|]. split; vm_compute; discriminate.
Qed.

(* ================================================================ --network-id reaches every protocol string *)
Lemma append_nil_r (s : string) : (s ++ "")%string = s.
Proof. induction s as [|c r IH]; [reflexivity|]. cbn. rewrite IH. reflexivity. Qed.

Lemma protocol_strings_lemma c :
  Consts.protocol_str_names = ["IDENTIFY_NODE_VERSION_STR"; "IDENTIFY_CLIENT_VERSION_STR"; "REQ_RESPONSE_VERSION_STR"; "IDENTIFY_PROTOCOL_STR"] /\
  protocol_strings c =
    map (fun p => (p ++ Consts.ant_protocol_version_truncated ++ "/" ++ dec (effective_netid c))%string)
        ["ant/node/"; "ant/client/"; "/ant/"; "ant/"] /\
  (c_netid c = None -> effective_netid c = 1%N) /\ (forall n, c_netid c = Some n -> effective_netid c = n).
Proof.
  split; [reflexivity|]. split.
  - unfold protocol_strings. cbn. rewrite !append_nil_r. reflexivity.
  - unfold effective_netid. split; [intros ->; reflexivity|intros n ->; reflexivity].
Qed.

Example ex_protocol : protocol_strings ex_cfg = ["ant/node/0.3/5"; "ant/client/0.3/5"; "/ant/0.3/5"; "ant/0.3/5"].
Proof. vm_compute. reflexivity. Qed.

(* ================================================================ the lifecycle never changes an installable setting *)
Lemma set_port_set_port c p q : set_port (set_port c p) q = set_port c q.
Proof. reflexivity. Qed.

Lemma after_life_shape ls : forall c, after_life c ls = c \/ exists p, after_life c ls = set_port c (Some p).
Proof.
  induction ls as [|l r IH]; intros c; [left; reflexivity|]. unfold after_life in *. cbn [fold_left].
  destruct (IH (life_step c l)) as [E|(p & E)]; rewrite E; destruct l; cbn [life_step]; eauto.
  right. exists p. apply set_port_set_port.
Qed.

Lemma lifecycle_lemma c ls :
  (forall f, f <> "--port" -> ilookup f (upgrade_main (after_life c ls)) = ilookup f (install_main c)) /\
  (forall env o, let i := install_ctx c env in let u := upgrade_ctx (after_life c ls) o in
     x_program u = x_program i /\ x_user u = x_user i /\ x_label u = x_label i /\ x_autostart u = x_autostart i /\
     x_env u = u_env o) /\
  evm_tokens (c_evm (after_life c ls)) = evm_tokens (c_evm c).
Proof.
  destruct (after_life_shape ls c) as [E|(p & E)]; rewrite E.
  - split; [|split; [intros; cbn; repeat split|reflexivity]].
    intros f _. symmetry. apply equiv_lemma.
  - split; [|split; [intros; cbn; repeat split|reflexivity]].
    intros f NE. rewrite port_lemma. destruct (String.eqb f "--port") eqn:X; [apply String.eqb_eq in X; contradiction|reflexivity].
Qed.

(* ================================================================ the written sub-command decides the EVM network *)
Lemma evm_of_sub_items e : evm_of_sub (evm_name e) (evm_items e) = Some e.
Proof. destruct e; reflexivity. Qed.

Lemma subcommand_wins_lemma c env :
  exists main, parse_cmd T SUBS (List.length (install_args c)) (install_args c) = Some (main, Some (evm_name (c_evm c), evm_items (c_evm c))) /\
  resolve_evm (Some (evm_name (c_evm c), evm_items (c_evm c))) env = Some (c_evm c) /\
  (exists main', parse_cmd T SUBS (List.length (upgrade_args c)) (upgrade_args c) = Some (main', Some (evm_name (c_evm c), evm_items (c_evm c)))).
Proof.
  destruct (interp_lemma c) as (A & B). exists (install_main c). split; [exact A|]. split; [apply evm_of_sub_items|].
  exists (upgrade_main c). exact B.
Qed.

(* non-vacuity: the environment alone WOULD name another network *)
Example ex_env_names_other : evm_from_env [("EVM_NETWORK", "arbitrum-sepolia")] = Some EvmSepolia /\
  resolve_evm (Some (evm_name EvmOne, evm_items EvmOne)) [("EVM_NETWORK", "arbitrum-sepolia")] = Some EvmOne /\
  resolve_evm None [("RPC_URL", "u"); ("PAYMENT_TOKEN_ADDRESS", "t"); ("DATA_PAYMENTS_ADDRESS", "p")] = Some (EvmCustom "u" "t" "p").
Proof. repeat split. Qed.

(* ================================================================ a --testnet node never asks the mainnet contacts *)
Lemma sources_lemma c usable cached from_urls count :
  (c_testnet c = true -> ~ In SrcMainnet (cfg_sources c usable cached from_urls count)) /\
  (c_first c = true -> cfg_sources c usable cached from_urls count = []) /\
  (c_local c = true -> cfg_sources c usable cached from_urls count = []) /\
  (c_urls c = [] -> ~ In SrcUrls (cfg_sources c usable cached from_urls count)).
Proof.
  unfold cfg_sources, select_sources.
  destruct (c_first c), (c_local c), (c_testnet c), (c_ignore c), (c_urls c) as [|u us];
    cbn [negb andb app];
    repeat match goal with |- context [if ?b then _ else _] => destruct b end;
    repeat split; intros H; try discriminate H; try reflexivity; cbn;
    try (intros [X|X]; [discriminate X|try destruct X as [X|X]; try discriminate X; try contradiction]);
    try (intros []); try tauto.
Qed.

Example ex_default_node_asks_mainnet : cfg_sources ex_cfg 1 0 5 100 = [SrcUrls] /\
  select_sources false false false false [] 0 0 0 100 = [SrcMainnet] /\
  select_sources false false true true [] 0 0 0 100 = [].
Proof. vm_compute. repeat split. Qed.

(* ================================================================ the archive limit is honoured, 0 included *)
Lemma log_limits_lemma c :
  let '(u, t) := log_limits c in
  (forall a, c_maxarch c = Some a -> t - u = a) /\ (forall n, c_maxlog c = Some n -> u = n) /\
  (c_maxlog c = None -> u = 10%N) /\ (c_maxarch c = None -> t = N.max u 1000) /\ (u <= t)%N.
Proof.
  unfold log_limits. destruct (c_maxlog c), (c_maxarch c); cbn; repeat split; intros; try discriminate;
    try (match goal with H : Some _ = Some _ |- _ => inversion H; subst end); try reflexivity; try lia.
Qed.

Example ex_no_archives : log_limits (mkCfg "" "" "" false false [] [] false false None None false None false None None None None
                                          (Some 0%N) (Some 3%N) "" EvmOne false "" "" None) = (3%N, 3%N).
Proof. reflexivity. Qed.
