(* Proofs about model/RecordStore.v, part 3 (C10): the three views of the held set agree, the
   accept/refuse decision at capacity, clean-up, the quoted figures and the capacity bound. *)
From Coq Require Import List Arith PeanoNat NArith String Ascii Bool Lia ZifyBool ZifyNat ZifyN Permutation.
From V Require Import lib.Strs gen.Consts model.RecordStore proofs.RecordStore.
Import ListNotations.
Open Scope N_scope.

Local Arguments fname : simpl never.
Local Arguments keyb : simpl never.
Local Arguments cache_push : simpl never.

Ltac sproj := cbn [idx bydist farthest cache range payments started starts files metrics tasks chan].

(* distinct keys have distinct distances (sha256 collision freedom; a premise, never an axiom) *)
Definition dist_inj (E : env) : Prop := forall a b, e_dist E a = e_dist E b -> a = b.

Definition held (l : list (key * rtype)) (k : key) : Prop := exists t, In (k, t) l.

Lemma contains_held s k : contains s k = true <-> held (idx s) k.
Proof.
  unfold contains, held. split.
  - destruct (klookup k (idx s)) as [t|] eqn:E; [|discriminate]. intros _. exists t.
    now apply (alookup_in keyb keyb_eq).
  - intros [t Hin]. destruct (in_alookup keyb keyb_eq _ _ _ Hin) as [t' E]. unfold klookup. now rewrite E.
Qed.

Lemma contains_false s k : contains s k = false <-> ~ held (idx s) k.
Proof. rewrite <- contains_held. destruct (contains s k); split; congruence. Qed.

Record Views (E : env) (s : state) : Prop := mkViews {
  vw_keys : NoDup (map fst (idx s));
  vw_dists : NoDup (map fst (bydist s));
  vw_bd : forall d k, In (d, k) (bydist s) <-> (held (idx s) k /\ d = e_dist E k);
  vw_far : match farthest s with
           | None => idx s = []
           | Some (f, fd) => held (idx s) f /\ fd = e_dist E f /\
                             forall k, held (idx s) k -> e_dist E k <= fd
           end }.

Lemma views_same E s s' : idx s' = idx s -> bydist s' = bydist s -> farthest s' = farthest s ->
  Views E s -> Views E s'.
Proof. intros A B C [a b c d]. constructor; rewrite ?A, ?B, ?C; auto. Qed.

Lemma calc_farthest_spec E l :
  match calc_farthest E l with
  | None => l = []
  | Some (f, fd) => held l f /\ fd = e_dist E f /\ forall k, held l k -> e_dist E k <= fd
  end.
Proof.
  induction l as [|[k t] r IH]; cbn [calc_farthest]; [reflexivity|].
  destruct (calc_farthest E r) as [[f fd]|].
  - destruct IH as (Hf & Hd & Hm). destruct (N.ltb_spec fd (e_dist E k)) as [L|L].
    + split; [exists t; now left|]. split; [reflexivity|]. intros k0 [t0 [Hin|Hin]].
      * inversion Hin; subst. lia.
      * specialize (Hm k0 (ex_intro _ t0 Hin)). lia.
    + split; [destruct Hf as [t0 ?]; exists t0; now right|]. split; [exact Hd|].
      intros k0 [t0 [Hin|Hin]].
      * inversion Hin; subst. lia.
      * apply Hm. now exists t0.
  - subst r. split; [exists t; now left|]. split; [reflexivity|]. intros k0 [t0 [Hin|[]]].
    inversion Hin; subst. lia.
Qed.

Lemma held_kremove l k k0 : held (kremove k l) k0 <-> held l k0 /\ k0 <> k.
Proof.
  unfold held. split.
  - intros [t Hin]. apply (in_aremove keyb keyb_eq) in Hin. cbn in Hin. split; [exists t|]; tauto.
  - intros [[t Hin] N]. exists t. apply (in_aremove keyb keyb_eq). cbn. tauto.
Qed.

Lemma held_kinsert l k t k0 : held (kinsert k t l) k0 <-> k0 = k \/ held l k0.
Proof.
  unfold held. split.
  - intros [t0 Hin]. apply (in_ainsert keyb keyb_eq) in Hin as [Hin|[Hin _]].
    + inversion Hin; auto.
    + right; eauto.
  - intros [->|[t0 Hin]].
    + exists t. apply (in_ainsert keyb keyb_eq). now left.
    + destruct (String.string_dec k0 k) as [->|N].
      * exists t. apply (in_ainsert keyb keyb_eq). now left.
      * exists t0. apply (in_ainsert keyb keyb_eq). right. cbn. tauto.
Qed.

Lemma views_remove E s k : dist_inj E -> Views E s -> Views E (remove E s k).
Proof.
  intros Inj [a b c d]. constructor; unfold remove; sproj.
  - apply (nodup_aremove keyb keyb_eq); auto.
  - destruct (klookup k (idx s)); auto. apply (nodup_aremove N.eqb neqb_eq); auto.
  - intros d0 k0. rewrite held_kremove. destruct (klookup k (idx s)) as [t|] eqn:Ek.
    + unfold nremove. rewrite (in_aremove N.eqb neqb_eq). cbn [fst]. rewrite c. split.
      * intros [[Hh ->] Nd]. repeat split; auto; intros ->; auto.
      * intros [[Hh Nk] ->]. repeat split; auto; intros Hd; apply Inj in Hd; auto.
    + rewrite c. split.
      * intros [Hh ->]. repeat split; auto; intros ->; destruct Hh as [t0 Hin];
        destruct (in_alookup keyb keyb_eq _ _ _ Hin) as [t' E']; unfold klookup in Ek; congruence.
      * tauto.
  - destruct (farthest s) as [[f fd]|].
    + destruct (keyb f k) eqn:Ef.
      * pose proof (calc_farthest_spec E (kremove k (idx s))) as Sp.
        destruct (calc_farthest E (kremove k (idx s))) as [[f' fd']|]; auto.
      * assert (N : f <> k) by (intros ->; rewrite (proj2 (keyb_eq k k) eq_refl) in Ef; discriminate).
        destruct d as (Hf & Hd & Hm). split; [apply held_kremove; auto|]. split; auto.
        intros k0 Hk. apply held_kremove in Hk. apply Hm; tauto.
    + rewrite d. reflexivity.
Qed.

Lemma views_mark E s k t : dist_inj E -> Views E s -> Views E (mark_as_stored E s k t).
Proof.
  intros Inj [a b c d]. constructor; unfold mark_as_stored; sproj.
  - apply (nodup_ainsert keyb keyb_eq); auto.
  - apply (nodup_ainsert N.eqb neqb_eq); auto.
  - intros d0 k0. rewrite held_kinsert. unfold ninsert. rewrite (in_ainsert N.eqb neqb_eq). cbn [fst].
    rewrite c. split.
    + intros [Hin|[[Hh ->] Nd]]; [inversion Hin; auto|auto].
    + intros [[->|Hh] ->]; [now left|].
      destruct (String.string_dec k0 k) as [->|N]; [now left|].
      right. repeat split; auto; intros Hd; apply Inj in Hd; auto.
  - destruct (farthest s) as [[f fd]|].
    + destruct d as (Hf & Hd & Hm). destruct (N.ltb_spec fd (e_dist E k)) as [L|L].
      * split; [apply held_kinsert; now left|]. split; [reflexivity|].
        intros k0 Hk. apply held_kinsert in Hk as [->|Hk]; [lia|]. specialize (Hm _ Hk). lia.
      * split; [apply held_kinsert; now right|]. split; [exact Hd|].
        intros k0 Hk. apply held_kinsert in Hk as [->|Hk]; [lia|]. auto.
    + split; [apply held_kinsert; now left|]. split; [reflexivity|].
      intros k0 Hk. apply held_kinsert in Hk as [->|Hk]; [lia|]. rewrite d in Hk. destruct Hk as [? []].
Qed.

Lemma load_idx_nodup E fs : NoDup (map fst (load_idx E fs)).
Proof.
  induction fs as [|f r IH]; cbn [load_idx]; [constructor|].
  destruct (fst (load_entry E f)) as [[k t]|]; auto. apply (nodup_ainsert keyb keyb_eq); auto.
Qed.

Definition bd_of (E : env) (ix : list (key * rtype)) : list (N * key) :=
  fold_right (fun p acc => ninsert (e_dist E (fst p)) (fst p) acc) [] ix.

Lemma bd_of_spec E ix : dist_inj E -> NoDup (map fst ix) ->
  NoDup (map fst (bd_of E ix)) /\ forall d k, In (d, k) (bd_of E ix) <-> (held ix k /\ d = e_dist E k).
Proof.
  intros Inj. induction ix as [|[k t] r IH]; cbn [bd_of fold_right map fst].
  - intros _. split; [constructor|]. intros d k. split; [intros []|intros [[t []] _]].
  - intros Nd. inversion Nd; subst. destruct (IH H2) as [N1 Sp]. fold (bd_of E r). split.
    + apply (nodup_ainsert N.eqb neqb_eq); auto.
    + intros d k0. unfold ninsert. rewrite (in_ainsert N.eqb neqb_eq). cbn [fst]. rewrite Sp. split.
      * intros [Hin|[[Hh ->] Nk]].
        -- inversion Hin; subst. split; [exists t; now left|reflexivity].
        -- split; [|reflexivity]. destruct Hh as [t0 ?]. exists t0. now right.
      * intros [[t0 [Hin|Hin]] ->].
        -- inversion Hin; subst. now left.
        -- right. split; [split; [now exists t0|reflexivity]|].
           intros Hd. apply Inj in Hd. subst k0. apply H1. apply in_map_iff. exists (k, t0); auto.
Qed.

Lemma views_reopen E fs m n : dist_inj E -> Views E (reopen E fs m n).
Proof.
  intros Inj. unfold reopen. destruct (bd_of_spec E (load_idx E fs) Inj (load_idx_nodup E fs)) as [N1 Sp].
  constructor; sproj; auto.
  - apply load_idx_nodup.
  - apply calc_farthest_spec.
Qed.

Lemma views_fold_remove E ks : dist_inj E -> forall s, Views E s -> Views E (fold_left (remove E) ks s).
Proof. intros Inj. induction ks as [|k ks IH]; cbn; auto. intros s V. apply IH. now apply views_remove. Qed.

Lemma views_put E s k v t : dist_inj E -> Views E s -> Views E (snd (put_verified E s k v t)).
Proof.
  intros Inj V. unfold put_verified.
  destruct (match klookup k (cache s) with Some v0 => value_eqb v0 v | None => false end); cbn [snd].
  - eapply views_same; [| | |exact V]; reflexivity.
  - set (s1 := set_cache s (cache_push E (kremove k (cache s)) k v)).
    assert (V1 : Views E s1) by (eapply views_same; [| | |exact V]; reflexivity).
    unfold prune. destruct (len (idx s1) <? e_max_records E); cbn [snd].
    + eapply views_same; [| | |exact V1]; reflexivity.
    + destruct (farthest s1) as [[f fd]|]; cbn [snd].
      * destruct (fd <? e_dist E k); cbn [snd].
        { eapply views_same; [| | |exact V1]; reflexivity. }
        eapply views_same; [| | |exact (views_remove E s1 f Inj V1)]; reflexivity.
      * eapply views_same; [| | |exact V1]; reflexivity.
Qed.

Lemma views_run_task E s i : Views E s -> Views E (run_task E s i).
Proof.
  intros V. unfold run_task. destruct (enabled (tasks s) i); auto.
  destruct (nth_error (tasks s) i) as [t|]; auto.
  destruct t as [k v ty|k|n|c since]; cbn [exec_task].
  - destruct (write_ok k); eapply views_same; [| | |exact V| | | |exact V]; reflexivity.
  - eapply views_same; [| | |exact V]; reflexivity.
  - eapply views_same; [| | |exact V]; reflexivity.
  - eapply views_same; [| | |exact V]; reflexivity.
Qed.

Lemma views_step E s o : dist_inj E -> Views E s -> Views E (fst (step E s o)).
Proof.
  intros Inj V. destruct o as [k v t|k v|k|k|i|j|d| | |k|tears]; cbn [step fst]; auto.
  - pose proof (views_put E s k v t Inj V) as P. destruct (put_verified E s k v t); exact P.
  - destruct (local_type E v) as [t|]; auto.
    pose proof (views_put E s k v t Inj V) as P. destruct (put_verified E s k v t) as [p s'].
    destruct (path_ok p); exact P.
  - now apply views_remove.
  - now apply views_run_task.
  - unfold deliver. destruct (nth_error (chan s) j) as [[k t|k]|]; auto.
    + apply views_mark; auto. eapply views_same; [| | |exact V]; reflexivity.
    + apply views_remove; auto. eapply views_same; [| | |exact V]; reflexivity.
  - eapply views_same; [| | |exact V]; reflexivity.
  - unfold cleanup. destruct (len (idx s) <? cleanup_threshold); auto. destruct (range s); auto.
    now apply views_fold_remove.
  - eapply views_same; [| | |exact V]; reflexivity.
  - now apply views_reopen.
Qed.

Lemma views_run E : dist_inj E -> forall ops s, Views E s -> Views E (run E ops s).
Proof.
  intros Inj. induction ops as [|o r IH]; intros s V; cbn [run fold_left]; auto.
  apply IH. now apply views_step.
Qed.

Lemma views_init E : dist_inj E -> Views E (init E).
Proof. intros Inj. now apply views_reopen. Qed.

(* C10: the three views agree in every reachable state *)
Lemma views_agree_lemma E : dist_inj E -> forall ops, Views E (run E ops (init E)).
Proof. intros Inj ops. apply views_run; auto. now apply views_init. Qed.

(* ------------------------------------------------------------------ accept / refuse at capacity *)
(* the store is full, k is not held, and the call is not the "same value already cached" shortcut *)
Lemma accept_at_capacity_lemma E s k v t :
  Views E s -> e_max_records E <= len (idx s) -> contains s k = false ->
  klookup k (cache s) <> Some v ->
  match farthest s with
  | Some (f, fd) =>
      held (idx s) f /\ fd = e_dist E f /\ (forall k0, held (idx s) k0 -> e_dist E k0 <= fd) /\
      (fst (put_verified E s k v t) = PStored <-> e_dist E k <= fd) /\
      (fst (put_verified E s k v t) = PRefused <-> fd < e_dist E k) /\
      (fst (put_verified E s k v t) = PStored ->
         idx (snd (put_verified E s k v t)) = kremove f (idx s) /\
         In (TWrite k v t) (tasks (snd (put_verified E s k v t)))) /\
      (fst (put_verified E s k v t) = PRefused ->
         idx (snd (put_verified E s k v t)) = idx s /\ bydist (snd (put_verified E s k v t)) = bydist s /\
         farthest (snd (put_verified E s k v t)) = farthest s /\
         tasks (snd (put_verified E s k v t)) = tasks s /\ files (snd (put_verified E s k v t)) = files s)
  | None => idx s = [] /\ fst (put_verified E s k v t) = PStored /\ idx (snd (put_verified E s k v t)) = []
  end.
Proof.
  intros V Full Nh Nc. pose proof (vw_far E s V) as Far.
  assert (Ne : (match klookup k (cache s) with Some v0 => value_eqb v0 v | None => false end) = false).
  { destruct (klookup k (cache s)) as [v0|]; auto. destruct (value_eqb v0 v) eqn:Ev; auto.
    apply value_eqb_eq in Ev. subst. congruence. }
  unfold put_verified. rewrite Ne. unfold prune, set_cache; sproj.
  replace (len (idx s) <? e_max_records E) with false by (symmetry; apply N.ltb_ge; lia).
  destruct (farthest s) as [[f fd]|].
  - destruct Far as (Hf & Hd & Hm). split; [exact Hf|]. split; [exact Hd|]. split; [exact Hm|].
    destruct (N.ltb_spec fd (e_dist E k)) as [L|L]; cbn [fst snd]; sproj.
    + repeat split; try congruence; try lia; intros; try discriminate; auto.
    + repeat split; try congruence; try lia; intros; try discriminate; auto.
      unfold remove; sproj. apply in_app_iff. right. now left.
  - cbn [fst snd]; sproj. auto.
Qed.

(* ------------------------------------------------------------------ clean-up *)
Lemma in_insert_sorted {A} (x y : N * A) l : In y (insert_sorted x l) <-> y = x \/ In y l.
Proof.
  induction l as [|z r IH]; cbn; [intuition|].
  destruct (fst x <=? fst z); cbn; [intuition|]. rewrite IH. intuition.
Qed.

Lemma in_sortN {A} (y : N * A) l : In y (sortN l) <-> In y l.
Proof.
  unfold sortN. induction l as [|x r IH]; cbn; [tauto|]. rewrite in_insert_sorted, IH. intuition.
Qed.

Lemma contains_remove E s k k0 : contains (remove E s k) k0 = true <-> contains s k0 = true /\ k0 <> k.
Proof. rewrite !contains_held. unfold remove; sproj. apply held_kremove. Qed.

Lemma contains_fold_remove E ks : forall s k0,
  contains (fold_left (remove E) ks s) k0 = true <-> contains s k0 = true /\ ~ In k0 ks.
Proof.
  induction ks as [|k ks IH]; intros s k0; cbn [fold_left In]; [tauto|].
  rewrite IH, contains_remove. intuition.
Qed.

Definition cleanup_applies (s : state) (r : N) : Prop :=
  cleanup_threshold <= len (idx s) /\ range s = Some r.

(* removed => out of range (and clean-up applicable); kept => in range or clean-up not applicable *)
Lemma cleanup_only_out_of_range_lemma E s : Views E s -> forall k,
  contains (cleanup E s) k = true <->
  contains s k = true /\ ~ (exists r, cleanup_applies s r /\ r <= e_dist E k).
Proof.
  intros V k. unfold cleanup, cleanup_applies.
  destruct (N.ltb_spec (len (idx s)) cleanup_threshold) as [L|L].
  - split; [intros H; split; auto; intros (r & [A _] & _); lia|tauto].
  - destruct (range s) as [r|].
    + rewrite contains_fold_remove. split; intros [Hc Hn]; split; auto.
      * intros (r' & [_ Hr] & Hd). inversion Hr; subst r'. apply Hn.
        apply in_map_iff. exists (e_dist E k, k). split; auto. apply filter_In. split.
        -- apply (proj2 (in_sortN _ _)). apply (proj2 (vw_bd E s V _ _)). split; auto. now apply contains_held.
        -- cbn. now apply N.leb_le.
      * intros Hin. apply in_map_iff in Hin as [[d k'] [Ek Hin]]. cbn in Ek; subst k'.
        apply filter_In in Hin as [Hin Hd]. apply (proj1 (in_sortN _ _)) in Hin. apply (proj1 (vw_bd E s V _ _)) in Hin as [_ ->].
        cbn in Hd. apply N.leb_le in Hd. apply Hn. exists r. repeat split; auto.
    + split; [intros H; split; auto; intros (r & [_ A] & _); discriminate|tauto].
Qed.

Lemma cleanup_only_when_large_lemma E s :
  len (idx s) < cleanup_threshold \/ range s = None -> cleanup E s = s.
Proof.
  unfold cleanup. intros [L|R].
  - now replace (len (idx s) <? cleanup_threshold) with true by (symmetry; apply N.ltb_lt; lia).
  - destruct (len (idx s) <? cleanup_threshold); auto. now rewrite R.
Qed.

Lemma cleanup_threshold_value : cleanup_threshold = 1638.
Proof. reflexivity. Qed.

(* ------------------------------------------------------------------ quoted figures *)
Lemma nodup_fst_nodup {A B} (l : list (A * B)) : NoDup (map fst l) -> NoDup l.
Proof.
  induction l as [|x r IH]; cbn; [constructor|]. intros H; inversion H; subst.
  constructor; auto. intros Hin. apply H2. apply in_map_iff. exists x; auto.
Qed.

Lemma bydist_perm E s : Views E s ->
  Permutation (bydist s) (map (fun p => (e_dist E (fst p), fst p)) (idx s)).
Proof.
  intros V. apply NoDup_Permutation.
  - apply nodup_fst_nodup. apply (vw_dists E s V).
  - pose proof (vw_keys E s V) as Nk. clear V. induction (idx s) as [|[k t] r IH]; cbn; [constructor|].
    inversion Nk; subst. constructor; auto. intros Hin. apply in_map_iff in Hin as [[k' t'] [Eq Hin]].
    cbn in Eq. inversion Eq; subst. apply H1. apply in_map_iff. exists (k, t'); auto.
  - intros [d k]. rewrite (vw_bd E s V). rewrite in_map_iff. split.
    + intros [[t Hin] ->]. exists (k, t); auto.
    + intros [[k' t] [Eq Hin]]. cbn in Eq. inversion Eq; subst. split; [now exists t|reflexivity].
Qed.

Lemma filter_length_perm {A} (p : A -> bool) l l' : Permutation l l' ->
  List.length (filter p l) = List.length (filter p l').
Proof.
  induction 1; cbn; auto.
  - destruct (p x); cbn; auto.
  - destruct (p x), (p y); cbn; auto.
  - congruence.
Qed.

Lemma filter_map_length {A B} (f : A -> B) (p : B -> bool) l :
  List.length (filter p (map f l)) = List.length (filter (fun x => p (f x)) l).
Proof. induction l as [|x r IH]; cbn; auto. destruct (p (f x)); cbn; auto. Qed.

(* the figures signed into a quote are the true ones *)
Lemma quote_figures_exact_lemma E s k : Views E s ->
  snd (step E s (OQuote k)) =
    UQuote (match range s with
            | Some r => len (filter (fun p => e_dist E (fst p) <? r) (idx s))
            | None => len (idx s)
            end) (e_max_records E) (payments s) (contains s k).
Proof.
  intros V. cbn [step snd]. f_equal. unfold close_records, within_range. destruct (range s) as [r|]; auto.
  unfold len. f_equal. rewrite (filter_length_perm _ _ _ (bydist_perm E s V)). now rewrite filter_map_length.
Qed.

(* ------------------------------------------------------------------ payments across clean restarts *)
Definition is_flush (t : task) : bool := match t with TFlush _ _ => true | _ => false end.
Definition flushes (s : state) : list task := filter is_flush (tasks s).

(* every crash in the history happens when no metrics flush is pending (a clean restart) *)
Fixpoint clean_restarts (E : env) (s : state) (ops : list op) : bool :=
  match ops with
  | [] => true
  | o :: r => (if is_crash o then negb (existsb is_flush (tasks s)) else true)
              && clean_restarts E (fst (step E s o)) r
  end.

Fixpoint count_pay (ops : list op) : N :=
  match ops with [] => 0 | OPay :: r => 1 + count_pay r | _ :: r => count_pay r end.

(* the metrics file, once the pending flushes have run in spawn order, holds the current figures *)
Definition Metrics (s : state) : Prop :=
  match flushes s with
  | [] => metrics s = Some (payments s, started s)
  | l => last l (TFlush 0 0) = TFlush (payments s) (started s)
  end.

Lemma flushes_app s l : filter is_flush (tasks s ++ l) = flushes s ++ filter is_flush l.
Proof. apply filter_app. Qed.

Lemma metrics_same s s' : tasks s' = tasks s -> metrics s' = metrics s -> payments s' = payments s ->
  started s' = started s -> Metrics s -> Metrics s'.
Proof. unfold Metrics, flushes. intros -> -> -> ->. auto. Qed.

Lemma metrics_append s t : is_flush t = false -> Metrics s -> Metrics (set_tasks s (tasks s ++ [t])).
Proof.
  intros Ht. unfold Metrics, flushes, set_tasks; sproj. rewrite filter_app. cbn [filter]. rewrite Ht.
  now rewrite app_nil_r.
Qed.

Lemma metrics_remove E s k : Metrics s -> Metrics (remove E s k).
Proof.
  unfold Metrics, flushes, remove; sproj. rewrite filter_app. cbn [filter is_flush]. now rewrite app_nil_r.
Qed.

Lemma metrics_fold_remove E ks : forall s, Metrics s -> Metrics (fold_left (remove E) ks s).
Proof. induction ks as [|k ks IH]; cbn; auto. intros s M. apply IH. now apply metrics_remove. Qed.

Lemma metrics_put E s k v t : Metrics s -> Metrics (snd (put_verified E s k v t)).
Proof.
  intros M. unfold put_verified.
  destruct (match klookup k (cache s) with Some v0 => value_eqb v0 v | None => false end); cbn [snd].
  - eapply metrics_same; [| | | |exact M]; reflexivity.
  - set (s1 := set_cache s (cache_push E (kremove k (cache s)) k v)).
    assert (M1 : Metrics s1) by (eapply metrics_same; [| | | |exact M]; reflexivity).
    unfold prune. destruct (len (idx s1) <? e_max_records E); cbn [snd].
    + now apply metrics_append.
    + destruct (farthest s1) as [[f fd]|]; cbn [snd].
      * destruct (fd <? e_dist E k); cbn [snd].
        { eapply metrics_same; [| | | |exact M1]; reflexivity. }
        apply metrics_append; auto. now apply metrics_remove.
      * now apply metrics_append.
Qed.

Lemma last_app_single {A} (l : list A) x d : last (l ++ [x]) d = x.
Proof. induction l as [|a l IH]; cbn; auto. destruct (l ++ [x]) eqn:E; auto. destruct l; discriminate. Qed.

Lemma metrics_run_task E s i : Metrics s -> Metrics (run_task E s i).
Proof.
  intros M. unfold run_task. destruct (enabled (tasks s) i) eqn:En; auto.
  destruct (nth_error (tasks s) i) as [t|] eqn:Nt; auto.
  destruct (is_flush t) eqn:Ft.
  - destruct t as [| | |c since]; try discriminate. cbn [exec_task].
    assert (Hd : flushes s = TFlush c since :: filter is_flush (remove_nth i (tasks s))).
    { clear M. unfold flushes. revert En Nt. unfold enabled. intros En Nt. rewrite Nt in En. cbn [task_file] in En.
      apply negb_true_iff in En.
      assert (G : forall ts i, nth_error ts i = Some (TFlush c since) ->
                  existsb (same_file metrics_name) (firstn i ts) = false ->
                  filter is_flush ts = TFlush c since :: filter is_flush (remove_nth i ts)).
      { induction ts as [|a ts IH]; intros [|j]; cbn; try discriminate.
        - intros H; inversion H; subst. reflexivity.
        - intros H Hex. apply orb_false_iff in Hex as [Ha Hex].
          destruct a as [| | |c' s']; cbn [is_flush]; try (apply IH; auto).
          unfold same_file in Ha. cbn in Ha. discriminate. }
      apply G; auto. }
    unfold Metrics, flushes in *. unfold set_tasks; sproj. rewrite Hd in M.
    destruct (filter is_flush (remove_nth i (tasks s))) as [|t' r'] eqn:Er.
    + cbn [last] in M. inversion M; subst. reflexivity.
    + exact M.
  - assert (Hr : filter is_flush (remove_nth i (tasks s)) = flushes s).
    { clear M En. unfold flushes. revert i Nt. induction (tasks s) as [|a ts IH]; intros [|j]; cbn; try discriminate.
      - intros H; inversion H; subst. now rewrite Ft.
      - intros H. rewrite (IH _ H). reflexivity. }
    destruct t as [k v ty|k|n|c since]; try discriminate; cbn [exec_task].
    + destruct (write_ok k); unfold Metrics, flushes, set_tasks, set_files in *; sproj;
        rewrite filter_app; cbn [filter is_flush]; rewrite app_nil_r, Hr; exact M.
    + unfold Metrics, flushes, set_tasks, set_files in *; sproj. rewrite Hr. exact M.
    + unfold Metrics, flushes, set_tasks, set_chan in *; sproj. rewrite Hr. exact M.
Qed.

Lemma metrics_step E s o : (is_crash o = true -> existsb is_flush (tasks s) = false) ->
  Metrics s -> Metrics (fst (step E s o)).
Proof.
  intros Cl M. destruct o as [k v t|k v|k|k|i|j|d| | |k|tears]; cbn [step fst].
  - pose proof (metrics_put E s k v t M) as P. destruct (put_verified E s k v t); exact P.
  - destruct (local_type E v) as [t|]; [|exact M].
    pose proof (metrics_put E s k v t M) as P. destruct (put_verified E s k v t) as [p s'].
    destruct (path_ok p); exact P.
  - now apply metrics_remove.
  - exact M.
  - now apply metrics_run_task.
  - unfold deliver. destruct (nth_error (chan s) j) as [[k t|k]|]; [exact M| |exact M].
    apply (metrics_remove E (set_chan s (remove_nth j (chan s))) k). exact M.
  - exact M.
  - unfold cleanup. destruct (len (idx s) <? cleanup_threshold); [exact M|]. destruct (range s); [|exact M].
    now apply metrics_fold_remove.
  - unfold Metrics, flushes, pay; sproj. rewrite filter_app. cbn [filter is_flush].
    destruct (filter is_flush (tasks s)) as [|a l] eqn:Ef; cbn [app]; [reflexivity|].
    change (a :: l ++ [TFlush (N.min (payments s + 1) rs_usize_max) (started s)])
      with ((a :: l) ++ [TFlush (N.min (payments s + 1) rs_usize_max) (started s)]).
    rewrite last_app_single. destruct ((a :: l) ++ [TFlush (N.min (payments s + 1) rs_usize_max) (started s)]) eqn:X; auto;
      try (destruct l; discriminate).
  - exact M.
  - (* clean restart: the metrics file is current *)
    specialize (Cl eq_refl). unfold Metrics, flushes in M.
    assert (Fe : filter is_flush (tasks s) = []).
    { clear M. induction (tasks s) as [|a ts IH]; cbn in *; auto. apply orb_false_iff in Cl as [A B].
      rewrite A. auto. }
    rewrite Fe in M. unfold crash, reopen, Metrics, flushes; sproj. rewrite M. cbn. reflexivity.
Qed.

Lemma put_keeps_payments E s k v t :
  payments (snd (put_verified E s k v t)) = payments s /\ started (snd (put_verified E s k v t)) = started s.
Proof.
  unfold put_verified.
  destruct (match klookup k (cache s) with Some v0 => value_eqb v0 v | None => false end); cbn; auto.
  unfold prune. cbn. destruct (len (idx s) <? e_max_records E); cbn; auto.
  destruct (farthest s) as [[f fd]|]; cbn; auto. destruct (fd <? e_dist E k); cbn; auto.
Qed.

Lemma fold_remove_keeps_payments E ks : forall s,
  payments (fold_left (remove E) ks s) = payments s /\ started (fold_left (remove E) ks s) = started s.
Proof. induction ks as [|k ks IH]; intros s; cbn [fold_left]; auto. destruct (IH (remove E s k)) as [A B]. now rewrite A, B. Qed.

Lemma payments_step E s o : (is_crash o = true -> existsb is_flush (tasks s) = false) -> Metrics s ->
  payments (fst (step E s o)) = (match o with OPay => N.min (payments s + 1) Consts.rs_usize_max | _ => payments s end)
  /\ started (fst (step E s o)) = started s.
Proof.
  intros Cl M. destruct o as [k v t|k v|k|k|i|j|d| | |k|tears]; cbn [step fst].
  - pose proof (put_keeps_payments E s k v t) as P. destruct (put_verified E s k v t); exact P.
  - destruct (local_type E v) as [t|]; [|auto].
    pose proof (put_keeps_payments E s k v t) as P. destruct (put_verified E s k v t) as [p s'].
    destruct (path_ok p); exact P.
  - auto.
  - auto.
  - unfold run_task. destruct (enabled (tasks s) i); auto. destruct (nth_error (tasks s) i) as [t|]; auto.
    destruct t as [k v ty|k|n|c since]; cbn; auto. destruct (write_ok k); cbn; auto.
  - unfold deliver. destruct (nth_error (chan s) j) as [[k t|k]|]; auto.
  - auto.
  - unfold cleanup. destruct (len (idx s) <? cleanup_threshold); auto. destruct (range s); auto.
    apply fold_remove_keeps_payments.
  - auto.
  - auto.
  - specialize (Cl eq_refl). unfold Metrics, flushes in M.
    assert (Fe : filter is_flush (tasks s) = []).
    { clear M. induction (tasks s) as [|a ts IH]; cbn in *; auto. apply orb_false_iff in Cl as [A B].
      rewrite A. auto. }
    rewrite Fe in M. unfold crash, reopen; sproj. rewrite M. cbn. auto.
Qed.

Lemma payments_run E : forall ops s, clean_restarts E s ops = true -> Metrics s ->
  payments s <= Consts.rs_usize_max ->
  started (run E ops s) = started s /\
  payments (run E ops s) = N.min (payments s + count_pay ops) Consts.rs_usize_max.
Proof.
  induction ops as [|o r IH]; intros s Cl M Le.
  - cbn. split; auto. lia.
  - cbn [clean_restarts] in Cl. apply andb_prop in Cl as [C1 C2].
    assert (Cl' : is_crash o = true -> existsb is_flush (tasks s) = false).
    { intros Hc. rewrite Hc in C1. now apply negb_true_iff in C1. }
    destruct (payments_step E s o Cl' M) as [P S].
    pose proof (metrics_step E s o Cl' M) as M1.
    assert (Le1 : payments (fst (step E s o)) <= Consts.rs_usize_max) by (rewrite P; destruct o; lia).
    destruct (IH _ C2 M1 Le1) as [S2 P2]. cbn [run fold_left]. unfold run in *. split; [congruence|].
    rewrite P2, P. destruct o; cbn [count_pay]; lia.
Qed.

Lemma metrics_init E : Metrics (init E).
Proof. reflexivity. Qed.

Lemma payments_exact_lemma E ops : clean_restarts E (init E) ops = true ->
  payments (run E ops (init E)) = N.min (count_pay ops) Consts.rs_usize_max /\ started (run E ops (init E)) = 0.
Proof.
  intros Cl. destruct (payments_run E ops (init E) Cl (metrics_init E)) as [S P]; [cbn; lia|].
  split; [|exact S]. rewrite P. cbn. lia.
Qed.

(* ------------------------------------------------------------------ the capacity bound *)
Definition isW (t : task) : bool :=
  match t with TWrite _ _ _ => true | TSend (NStored _ _) => true | _ => false end.
Definition isN (n : notif) : bool := match n with NStored _ _ => true | _ => false end.

Lemma inflight_eq s : inflight s = len (filter isW (tasks s)) + len (filter isN (chan s)).
Proof. reflexivity. Qed.

Definition Phi (s : state) : N := len (idx s) + inflight s.

Lemma len_app {A} (a b : list A) : len (a ++ b) = len a + len b.
Proof. unfold len. rewrite app_length. lia. Qed.

Lemma len_kremove_le k (l : list (key * rtype)) : len (kremove k l) <= len l.
Proof. unfold len. pose proof (length_aremove_le keyb keyb_eq k l). unfold kremove. lia. Qed.

Lemma phi_remove_le E s k : Phi (remove E s k) <= Phi s.
Proof.
  unfold Phi. rewrite !inflight_eq. unfold remove; sproj. rewrite filter_app. cbn [filter isW].
  rewrite app_nil_r. pose proof (len_kremove_le k (idx s)). lia.
Qed.

Lemma phi_remove_held E s k : NoDup (map fst (idx s)) -> contains s k = true ->
  Phi (remove E s k) + 1 = Phi s.
Proof.
  intros Nd Hc. unfold Phi. rewrite !inflight_eq. unfold remove; sproj. rewrite filter_app. cbn [filter isW].
  rewrite app_nil_r. unfold contains in Hc. destruct (klookup k (idx s)) as [t|] eqn:Ek; [|discriminate].
  pose proof (length_aremove_present keyb keyb_eq k t (idx s) Nd Ek) as L.
  unfold len, kremove. lia.
Qed.

Lemma phi_fold_remove_le E ks : forall s, Phi (fold_left (remove E) ks s) <= Phi s.
Proof.
  induction ks as [|k ks IH]; intros s; cbn [fold_left]; [lia|].
  pose proof (IH (remove E s k)). pose proof (phi_remove_le E s k). lia.
Qed.

Lemma filter_len_remove_nth {A} (p : A -> bool) i : forall ts t, nth_error ts i = Some t ->
  len (filter p (remove_nth i ts)) + (if p t then 1 else 0) = len (filter p ts).
Proof.
  induction i as [|i IH]; intros [|a ts] t; cbn [nth_error remove_nth filter]; try discriminate.
  - intros H; inversion H; subst. destruct (p t); unfold len; cbn [List.length]; lia.
  - intros H. specialize (IH _ _ H). destruct (p a); unfold len in *; cbn [List.length]; lia.
Qed.

Lemma phi_run_task_le E s i : Phi (run_task E s i) <= Phi s.
Proof.
  unfold run_task. destruct (enabled (tasks s) i); [|lia].
  destruct (nth_error (tasks s) i) as [t|] eqn:Nt; [|lia].
  pose proof (filter_len_remove_nth isW i _ _ Nt) as L.
  unfold Phi. rewrite !inflight_eq. destruct t as [k v ty|k|n|c since]; cbn [exec_task isW] in *.
  - destruct (write_ok k); unfold set_tasks, set_files; sproj; rewrite filter_app; cbn [filter isW];
      rewrite len_app; unfold len in *; cbn [List.length]; lia.
  - unfold set_tasks, set_files; sproj. lia.
  - unfold set_tasks, set_chan; sproj. rewrite filter_app, len_app. cbn [filter].
    destruct n as [k t|k]; cbn [isN] in *; unfold len in *; cbn [List.length]; lia.
  - unfold set_tasks; sproj. lia.
Qed.

Lemma len_kinsert_le k t (l : list (key * rtype)) : len (kinsert k t l) <= len l + 1.
Proof.
  unfold kinsert, ainsert, len. cbn [List.length]. pose proof (length_aremove_le keyb keyb_eq k l). lia.
Qed.

Lemma phi_deliver_le E s j : Phi (deliver E s j) <= Phi s.
Proof.
  unfold deliver. destruct (nth_error (chan s) j) as [n|] eqn:Nt; [|lia].
  pose proof (filter_len_remove_nth isN j _ _ Nt) as L. destruct n as [k t|k]; cbn [isN] in L.
  - unfold Phi. rewrite !inflight_eq. unfold mark_as_stored, set_chan; sproj.
    pose proof (len_kinsert_le k t (idx s)). lia.
  - pose proof (phi_remove_le E (set_chan s (remove_nth j (chan s))) k) as R.
    assert (P1 : Phi (set_chan s (remove_nth j (chan s))) = Phi s).
    { unfold Phi. rewrite !inflight_eq. unfold set_chan; sproj. lia. }
    lia.
Qed.

Lemma phi_put E s k v t : Views E s -> 1 <= e_max_records E ->
  Phi (snd (put_verified E s k v t)) <= N.max (Phi s) (e_max_records E + inflight s).
Proof.
  intros V Cap. unfold put_verified.
  destruct (match klookup k (cache s) with Some v0 => value_eqb v0 v | None => false end); cbn [snd].
  - unfold Phi. rewrite !inflight_eq. unfold set_cache; sproj. lia.
  - set (s1 := set_cache s (cache_push E (kremove k (cache s)) k v)).
    assert (P1 : Phi s1 = Phi s) by reflexivity.
    assert (I1 : inflight s1 = inflight s) by reflexivity.
    unfold prune. change (idx s1) with (idx s). change (farthest s1) with (farthest s).
    destruct (N.ltb_spec (len (idx s)) (e_max_records E)) as [L|L]; cbn [snd].
    + unfold Phi. rewrite !inflight_eq. unfold set_tasks; sproj. rewrite filter_app, len_app. cbn [filter isW].
      change (tasks s1) with (tasks s). change (chan s1) with (chan s). change (idx s1) with (idx s).
      change (len [TWrite k v t]) with 1. lia.
    + pose proof (vw_far E s V) as Far. destruct (farthest s) as [[f fd]|]; cbn [snd].
      * destruct (fd <? e_dist E k); cbn [snd].
        { change (Phi (set_cache s1 (kremove k (cache s1)))) with (Phi s). lia. }
        destruct Far as (Hf & _ & _).
        assert (Hc : contains s1 f = true) by (apply contains_held; exact Hf).
        pose proof (phi_remove_held E s1 f (vw_keys E s V) Hc) as R.
        set (s2 := remove E s1 f) in *.
        assert (Phi (set_tasks s2 (tasks s2 ++ [TWrite k v t])) = Phi s2 + 1).
        { unfold Phi. rewrite !inflight_eq. unfold set_tasks; sproj. rewrite filter_app, len_app.
          cbn [filter isW]. unfold len at 3. cbn [List.length]. lia. }
        lia.
      * (* full with an empty index: impossible when the capacity is at least one *)
        rewrite Far in L. unfold len in L. cbn in L. lia.
Qed.

Definition here (o : op) (s : state) : N :=
  match o with OPut _ _ _ | OPutLocal _ _ => inflight s | _ => 0 end.

Lemma phi_step E s o : Views E s -> 1 <= e_max_records E -> is_crash o = false ->
  Phi (fst (step E s o)) <= N.max (Phi s) (e_max_records E + here o s).
Proof.
  intros V Cap Nc. destruct o as [k v t|k v|k|k|i|j|d| | |k|tears]; cbn [step fst here]; try discriminate.
  - pose proof (phi_put E s k v t V Cap) as P. destruct (put_verified E s k v t); exact P.
  - destruct (local_type E v) as [t|]; [|cbn [fst]; lia].
    pose proof (phi_put E s k v t V Cap) as P. destruct (put_verified E s k v t) as [p s'].
    destruct (path_ok p); exact P.
  - pose proof (phi_remove_le E s k). lia.
  - lia.
  - pose proof (phi_run_task_le E s i). lia.
  - pose proof (phi_deliver_le E s j). lia.
  - change (Phi (set_range s d)) with (Phi s). lia.
  - unfold cleanup. destruct (len (idx s) <? cleanup_threshold); [lia|]. destruct (range s); [|lia].
    pose proof (phi_fold_remove_le E (map snd (filter (fun p : N * key => n <=? fst p) (sortN (bydist s)))) s). lia.
  - unfold Phi. rewrite !inflight_eq. unfold pay; sproj. rewrite filter_app, len_app. cbn [filter isW].
    unfold len at 3. cbn [List.length]. lia.
  - lia.
Qed.

Lemma phi_run E : dist_inj E -> 1 <= e_max_records E -> forall ops s, Views E s ->
  existsb is_crash ops = false ->
  Phi (run E ops s) <= N.max (Phi s) (e_max_records E + burst_depth E s ops).
Proof.
  intros Inj Cap. induction ops as [|o r IH]; intros s V Nc.
  - cbn. lia.
  - cbn [existsb] in Nc. apply orb_false_iff in Nc as [Nc1 Nc2].
    pose proof (phi_step E s o V Cap Nc1) as S1.
    pose proof (IH _ (views_step E s o Inj V) Nc2) as S2.
    cbn [run fold_left burst_depth]. unfold run in S2.
    assert (Hh : here o s = match o with OPut _ _ _ | OPutLocal _ _ => inflight s | _ => 0 end) by reflexivity.
    rewrite <- Hh. lia.
Qed.

(* records held + writes in flight never exceed the capacity by more than the deepest burst of
   unacknowledged writes; in particular never at all when every put is acknowledged before the next *)
Lemma capacity_bound_lemma E : dist_inj E -> 1 <= e_max_records E -> forall ops,
  existsb is_crash ops = false ->
  len (idx (run E ops (init E))) + inflight (run E ops (init E))
    <= e_max_records E + burst_depth E (init E) ops.
Proof.
  intros Inj Cap ops Nc. pose proof (phi_run E Inj Cap ops (init E) (views_init E Inj) Nc) as P.
  unfold Phi in P. change (len (idx (init E)) + inflight (init E)) with 0 in P. lia.
Qed.

(* F14: the property's own bound (capacity + writes in flight) fails after a burst *)
Definition cap_env : env :=
  mkEnv (fun k => slen k) (fun v => len v) toy_enc toy_dec true [18; 32; 1; 2] 2 25.

Definition burst_witness : list op :=
  [OPut "a"%string [145; 1; 1] RChunk; ORun 0; ORun 0; ORun 0; ODeliver 0;
   OPut "bb"%string [145; 1; 2] RChunk; OPut "ccc"%string [145; 1; 3] RChunk;
   OPut "dddd"%string [145; 1; 4] RChunk; OPut "eeeee"%string [145; 1; 5] RChunk;
   ORun 0; ORun 0; ORun 0; ORun 0; ORun 0; ORun 0; ORun 0; ORun 0;
   ODeliver 0; ODeliver 0; ODeliver 0; ODeliver 0].

Lemma capacity_bound_refuted_lemma :
  exists E ops, (forall a b, e_dist E a = e_dist E b -> slen a = slen b) /\ e_max_records E = 2 /\
    existsb is_crash ops = false /\
    settled (run E ops (init E)) = true /\ inflight (run E ops (init E)) = 0 /\
    len (idx (run E ops (init E))) = 5 /\ burst_depth E (init E) ops = 3.
Proof. exists cap_env, burst_witness. vm_compute. repeat split; auto. Qed.

(* non-vacuity of accept_at_capacity: a full store, one closer and one farther newcomer *)
Definition full_example : list op :=
  [OPut "bb"%string [145; 1; 2] RChunk; ORun 0; ORun 0; ORun 0; ODeliver 0;
   OPut "dddd"%string [145; 1; 4] RChunk; ORun 0; ORun 0; ODeliver 0].

Example full_example_ok :
  let s := run cap_env full_example (init cap_env) in
  len (idx s) = 2 /\ farthest s = Some ("dddd"%string, 4) /\
  fst (put_verified cap_env s "a"%string [145; 1; 1] RChunk) = PStored /\
  fst (put_verified cap_env s "eeeee"%string [145; 1; 5] RChunk) = PRefused /\
  contains (snd (put_verified cap_env s "a"%string [145; 1; 1] RChunk)) "dddd"%string = false.
Proof. vm_compute. repeat split; reflexivity. Qed.

(* ------------------------------------------------------------------ clean-up takes a key out of every view *)
Lemma fold_remove_effects E k : forall ks s, In k ks ->
  klookup k (cache (fold_left (remove E) ks s)) = None /\ In (TDelete k) (tasks (fold_left (remove E) ks s)).
Proof.
  assert (Keep : forall ks s, klookup k (cache s) = None -> In (TDelete k) (tasks s) ->
                 klookup k (cache (fold_left (remove E) ks s)) = None /\ In (TDelete k) (tasks (fold_left (remove E) ks s))).
  { induction ks as [|k0 ks IH]; intros s Hc Ht; cbn [fold_left]; auto. apply IH.
    - unfold remove; sproj. apply (alookup_none keyb keyb_eq). intros v Hin.
      apply (in_aremove keyb keyb_eq) in Hin as [Hin _].
      eapply (proj1 (alookup_none keyb keyb_eq k (cache s))); eauto.
    - unfold remove; sproj. apply in_app_iff. now left. }
  induction ks as [|k0 ks IH]; intros s Hin; [destruct Hin|]. cbn [fold_left].
  destruct (String.string_dec k0 k) as [->|N].
  - apply Keep.
    + unfold remove; sproj. apply (alookup_aremove_same keyb keyb_eq).
    + unfold remove; sproj. apply in_app_iff. right. now left.
  - apply IH. destruct Hin; [congruence|auto].
Qed.

Lemma views_cleanup E s : dist_inj E -> Views E s -> Views E (cleanup E s).
Proof.
  intros Inj V. unfold cleanup. destruct (len (idx s) <? cleanup_threshold); auto. destruct (range s); auto.
  now apply views_fold_remove.
Qed.

(* a held key beyond the responsible range, when clean-up applies: afterwards it is in no view -- not in
   the record index, not in the distance index, not in the read cache -- and its file delete is spawned;
   and the views still agree with each other *)
Lemma cleanup_removes_from_all_views_lemma E s r k : dist_inj E -> Views E s ->
  cleanup_applies s r -> r <= e_dist E k -> contains s k = true ->
  contains (cleanup E s) k = false /\
  (forall d, ~ In (d, k) (bydist (cleanup E s))) /\
  klookup k (cache (cleanup E s)) = None /\
  In (TDelete k) (tasks (cleanup E s)) /\
  Views E (cleanup E s).
Proof.
  intros Inj V [Ap Rg] Far Hc.
  pose proof (views_cleanup E s Inj V) as V'.
  assert (C0 : contains (cleanup E s) k = false).
  { destruct (contains (cleanup E s) k) eqn:X; auto. exfalso.
    apply (cleanup_only_out_of_range_lemma E s V k) in X as [_ X]. apply X. exists r. repeat split; auto. }
  split; [exact C0|]. split.
  { intros d Hin. apply (vw_bd E _ V') in Hin as [Hh _]. apply contains_held in Hh. congruence. }
  assert (Hk : In k (map snd (filter (fun p : N * key => r <=? fst p) (sortN (bydist s))))).
  { apply in_map_iff. exists (e_dist E k, k). split; auto. apply filter_In. split.
    - apply (proj2 (in_sortN _ _)). apply (proj2 (vw_bd E s V _ _)). split; auto. now apply contains_held.
    - cbn. now apply N.leb_le. }
  unfold cleanup in *. replace (len (idx s) <? cleanup_threshold) with false in * by (symmetry; apply N.ltb_ge; lia).
  rewrite Rg in *. destruct (fold_remove_effects E k _ s Hk) as [A B]. auto.
Qed.
