(* C05 -- GetRecordCfg::expected_holders is logging data: no outcome, return code or other part of
   the driver state depends on it. *)
From Coq Require Import List NArith Bool.
From V Require Import gen.Consts model.GetRecord proofs.GetRecord.
Import ListNotations.
Open Scope N_scope.

Definition strip_event (e : event) : event :=
  match e with Cmd k c => Cmd k (strip_cfg c) | _ => e end.

Definition strip_query (x : query) : query :=
  {| qid := qid x; qkey := qkey x; qcallers := qcallers x; qvers := qvers x;
     qcfg := strip_cfg (qcfg x); qholders := [] |}.

Definition strip_state (s : state) : state :=
  {| pending := map strip_query (pending s); next_qid := next_qid s; next_cid := next_cid s; dead := dead s |}.

Lemma find_query_map : forall q l,
  find_query q (map strip_query l) = option_map strip_query (find_query q l).
Proof.
  induction l as [|x l IH]; cbn; [reflexivity|]. destruct (qid x =? q); [reflexivity | exact IH].
Qed.

Lemma remove_query_map : forall q l, remove_query q (map strip_query l) = map strip_query (remove_query q l).
Proof.
  induction l as [|x l IH]; cbn; [reflexivity|]. destruct (qid x =? q); cbn; [exact IH | f_equal; exact IH].
Qed.

Lemma replace_query_map : forall x' l,
  replace_query (strip_query x') (map strip_query l) = map strip_query (replace_query x' l).
Proof.
  induction l as [|x l IH]; cbn; [reflexivity|]. destruct (qid x =? qid x'); cbn; [reflexivity | f_equal; exact IH].
Qed.

Lemma join_query_map : forall key c l,
  join_query key c (map strip_query l) = option_map (map strip_query) (join_query key c l).
Proof.
  induction l as [|x l IH]; cbn; [reflexivity|]. destruct (qkey x =? key); cbn; [reflexivity|].
  rewrite IH. destruct (join_query key c l); reflexivity.
Qed.

Lemma checked_strip : forall c r, checked (strip_cfg c) r = checked c r.
Proof. reflexivity. Qed.

Lemma step_strip : forall s e,
  step (strip_state s) (strip_event e) =
  (strip_state (fst (fst (step s e))), snd (fst (step s e)), snd (step s e)).
Proof.
  intros s e. destruct e as [key c|q p r|q|q|q|q|c]; cbn [strip_event step].
  - unfold handle_cmd. cbn [pending strip_state next_cid next_qid dead]. rewrite join_query_map.
    destruct (join_query key (next_cid s) (pending s)); cbn; [reflexivity|].
    unfold strip_state. cbn. rewrite map_app. reflexivity.
  - unfold accumulate. cbn [pending strip_state]. rewrite find_query_map.
    destruct (find_query q (pending s)) as [x|]; cbn [option_map]; [|reflexivity].
    cbn [qvers strip_query qcfg cq strip_cfg qcallers]. change (dead (strip_state s)) with (dead s).
    destruct (insert_version (qvers x) r (peer_of p)) as [vers' n].
    destruct (quorum_value (cq (qcfg x)) <=? n).
    + rewrite checked_strip.
      destruct (deliver (dead s) (qcallers x) _) as [o rt]. cbn.
      unfold set_pending, strip_state. cbn. rewrite remove_query_map. reflexivity.
    + cbn. unfold set_pending, strip_state. cbn. f_equal. f_equal. f_equal.
      rewrite <- replace_query_map. reflexivity.
  - unfold finished. cbn [pending strip_state]. rewrite find_query_map.
    destruct (find_query q (pending s)) as [x|]; cbn [option_map]; [|reflexivity].
    cbn [qvers strip_query qcfg cq strip_cfg qcallers]. change (dead (strip_state s)) with (dead s).
    destruct (deliver (dead s) (qcallers x) _) as [o rt]. cbn.
    unfold set_pending, strip_state. cbn. rewrite remove_query_map. reflexivity.
  - unfold err_not_found. cbn [pending strip_state]. rewrite find_query_map.
    destruct (find_query q (pending s)) as [x|]; cbn [option_map]; [|reflexivity].
    cbn [strip_query qcallers]. change (dead (strip_state s)) with (dead s).
    destruct (deliver (dead s) (qcallers x) ENotFound) as [o rt]. cbn.
    unfold set_pending, strip_state. cbn. rewrite remove_query_map. reflexivity.
  - unfold err_not_found. cbn [pending strip_state]. rewrite find_query_map.
    destruct (find_query q (pending s)) as [x|]; cbn [option_map]; [|reflexivity].
    cbn [strip_query qcallers]. change (dead (strip_state s)) with (dead s).
    destruct (deliver (dead s) (qcallers x) ENotFound) as [o rt]. cbn.
    unfold set_pending, strip_state. cbn. rewrite remove_query_map. reflexivity.
  - unfold err_timeout. cbn [pending strip_state]. rewrite find_query_map.
    destruct (find_query q (pending s)) as [x|]; cbn [option_map]; [|reflexivity].
    cbn [qvers strip_query qcfg cq strip_cfg qcallers]. change (dead (strip_state s)) with (dead s).
    destruct (qvers x) as [|[r0 ps] [|v2 rest]]; try rewrite checked_strip;
      destruct (deliver (dead s) (qcallers x) _) as [o rt]; cbn;
      unfold set_pending, strip_state; cbn; rewrite remove_query_map; reflexivity.
  - reflexivity.
Qed.

Lemma run_from_strip : forall evs s,
  run_from (strip_state s) (map strip_event evs) = (strip_state (fst (run_from s evs)), snd (run_from s evs)).
Proof.
  induction evs as [|e evs IH]; intro s; cbn [map run_from]; [reflexivity|].
  unfold step_state, step_outs. rewrite step_strip. cbn [fst snd].
  fold (step_state s e). fold (step_outs s e). rewrite IH.
  destruct (run_from (step_state s e) evs) as [sf o]. reflexivity.
Qed.

(* two histories that differ only in the expected_holders of their commands deliver the same
   outcomes to the same callers and end in the same state (up to the stored holder sets); each single
   step also returns the same code (step_strip) *)
Lemma holders_irrelevant : forall evs1 evs2, map strip_event evs1 = map strip_event evs2 ->
  outs evs1 = outs evs2 /\ strip_state (final evs1) = strip_state (final evs2).
Proof.
  intros evs1 evs2 H. pose proof (run_from_strip evs1 init) as R1. pose proof (run_from_strip evs2 init) as R2.
  rewrite H in R1. rewrite R1 in R2. unfold outs, final, run.
  apply (f_equal fst) in R2 as F. apply (f_equal snd) in R2 as S. cbn in F, S. auto.
Qed.

Definition with_holders (hs : list N) (c : cfg) : cfg :=
  {| cq := cq c; ctarget := ctarget c; cisreg := cisreg c; cholders := hs |}.

(* non-vacuity: Quorum::N(3) with one expected holder that answers first: still pending, exactly as
   without expected holders *)
Example holders_example :
  let c := {| cq := QN 3; ctarget := None; cisreg := false; cholders := [] |} in
  let r := {| rkey := 1; rcont := {| ckind := Some KChunk; cpay := POpaque 1 |}; rpub := None |} in
  outs [Cmd 1 (with_holders [1] c); Found 0 (Some 1) r] = [] /\
  outs [Cmd 1 c; Found 0 (Some 1) r] = [] /\
  map qholders (pending (final [Cmd 1 (with_holders [1; 2] c); Found 0 (Some 1) r])) = [[2]].
Proof. vm_compute. repeat split; reflexivity. Qed.
