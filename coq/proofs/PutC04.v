(* C04 -- every accepted record's key is derived from its own content or owner.
   Lemmas behind props/C04.v, with non-vacuity examples. *)
From Coq Require Import List NArith ZArith Bool Lia.
From V Require Import lib.Strs gen.Consts model.PutValidation model.PutStore
                      proofs.PutValidation proofs.PutOutcome.
Import ListNotations.
Open Scope N_scope.

(* the key a stored value determines *)
Definition key_ok (k : name) (v : stored) : bool :=
  match v with
  | SChunk c => name_eqb k (chunk_key c)                                   (* hash of its bytes *)
  | SPad p => name_eqb k (owner_key (p_owner p))                           (* owner key *)
  | STxs l => forallb (fun t => name_eqb (owner_key (t_owner t)) k) l      (* owner key *)
  | SReg r => name_eqb k (reg_k r)                                         (* owner + meta *)
  | SRaw _ => false
  end.

Definition store_wf (st : store) : Prop :=
  forall k s, lookup st k = Some s -> key_ok k (s_val s) = true.

(* ------------------------------------------------------------------ set helpers *)

Lemma mem_set_add {A} (eqb : A -> A -> bool) x y l :
  In y (set_add eqb x l) -> In y l \/ y = x.
Proof.
  unfold set_add. destruct (mem eqb x l); [left; assumption|].
  intros H. apply in_app_or in H as [H|[H|[]]]; [left; assumption | right; symmetry; assumption].
Qed.

Lemma in_set_union {A} (eqb : A -> A -> bool) b : forall a y,
  In y (set_union eqb a b) -> In y a \/ In y b.
Proof.
  unfold set_union. induction b as [|x b IH]; intros a y H; cbn [fold_left] in H.
  - left. assumption.
  - apply IH in H as [H|H]; [|right; right; assumption].
    apply mem_set_add in H as [H| ->]; [left; assumption | right; left; reflexivity].
Qed.

Lemma in_set_of {A} (eqb : A -> A -> bool) l y : In y (set_of eqb l) -> In y l.
Proof. unfold set_of. intros H. apply in_set_union in H as [[]|H]. assumption. Qed.

Lemma txs_validated_for_key l k t : In t (txs_validated l k) -> owner_key (t_owner t) = k /\ tx_valid t = true.
Proof.
  unfold txs_validated, txs_for_key. intros H. apply in_set_of in H.
  apply filter_In in H as [H Hv]. apply filter_In in H as [_ Hk]. apply name_eqb_eq in Hk. split; assumption.
Qed.

(* ------------------------------------------------------------------ stored key is derived *)

Lemma get_lookup st k v : get st k = Some v -> exists s, lookup st k = Some s /\ s_val s = v.
Proof. unfold get. destruct (lookup st k) as [s|]; [intros [= <-]; eauto | discriminate]. Qed.

Lemma mergeable_key a b : mergeable a b = true -> reg_key (r_owner a) (r_meta a) = reg_key (r_owner b) (r_meta b).
Proof.
  unfold mergeable. intros H. apply andb_true_iff in H as [H _]. apply andb_true_iff in H as [Ho Hm].
  apply N.eqb_eq in Ho, Hm. congruence.
Qed.

Lemma content_ok_key st b k v : store_wf st -> content_ok st b k v -> key_ok k v = true.
Proof.
  intros Hwf H. destruct b as [|c|p|t|l|r], v as [c'|p'|l'|r'|n]; cbn in H; try contradiction.
  - destruct H as (-> & -> & _). cbn [key_ok]. apply name_eqb_refl.
  - destruct H as (-> & Hacc). unfold pad_accepts in Hacc.
    apply andb_true_iff in Hacc as [Hacc _]. apply andb_true_iff in Hacc as [Hk _].
    cbn [key_ok]. rewrite name_eqb_sym. assumption.
  - (* single transaction *)
    unfold txs_write in H. destruct (txs_validated [t] k) as [|t0 vs] eqn:Ev; [discriminate|].
    assert (Ht0 : owner_key (t_owner t0) = k) by (apply (txs_validated_for_key [t] k); rewrite Ev; left; reflexivity).
    rewrite Ht0 in H. cbn [key_ok]. apply forallb_forall. intros x Hx.
    destruct (get st k) as [[c|p|loc|r|n]|] eqn:Eg; try discriminate; injection H as <-.
    + apply in_set_union in Hx as [Hx|Hx].
      * rewrite <- Ev in Hx. apply txs_validated_for_key in Hx as [<- _]. apply name_eqb_refl.
      * apply get_lookup in Eg as (s & Hs & Hv). apply Hwf in Hs. rewrite Hv in Hs. cbn [key_ok] in Hs.
        rewrite forallb_forall in Hs. apply Hs. assumption.
    + unfold set_union in Hx. cbn [fold_left] in Hx.
      rewrite <- Ev in Hx. apply txs_validated_for_key in Hx as [<- _]. apply name_eqb_refl.
  - (* transaction list *)
    unfold txs_write in H. destruct (txs_validated l k) as [|t0 vs] eqn:Ev; [discriminate|].
    assert (Ht0 : owner_key (t_owner t0) = k) by (apply (txs_validated_for_key l k); rewrite Ev; left; reflexivity).
    rewrite Ht0 in H. cbn [key_ok]. apply forallb_forall. intros x Hx.
    destruct (get st k) as [[c|p|loc|r|n]|] eqn:Eg; try discriminate; injection H as <-.
    + apply in_set_union in Hx as [Hx|Hx].
      * rewrite <- Ev in Hx. apply txs_validated_for_key in Hx as [<- _]. apply name_eqb_refl.
      * apply get_lookup in Eg as (s & Hs & Hv). apply Hwf in Hs. rewrite Hv in Hs. cbn [key_ok] in Hs.
        rewrite forallb_forall in Hs. apply Hs. assumption.
    + unfold set_union in Hx. cbn [fold_left] in Hx.
      rewrite <- Ev in Hx. apply txs_validated_for_key in Hx as [<- _]. apply name_eqb_refl.
  - destruct H as [Hw ->]. unfold reg_write in Hw.
    destruct (negb (reg_verify r)); [discriminate|].
    destruct (negb (listed st (reg_k r))); [inversion Hw; cbn [key_ok]; apply name_eqb_refl|].
    destruct (get st (reg_k r)) as [[| | |lr|]|]; try discriminate.
    destruct (negb (mergeable (g_base lr) (g_base r))) eqn:Em; [discriminate|].
    destruct (subset regop_eqb (g_ops r) (g_ops lr)); inversion Hw. cbn [key_ok].
    apply negb_false_iff in Em. apply mergeable_key in Em. unfold reg_k. cbn [g_base]. rewrite Em. apply name_eqb_refl.
Qed.

Lemma stored_key_is_derived_lemma : forall e st d k v,
  store_wf st -> In (EPut k v) (effects_of (run st (deliver e d))) -> key_ok k v = true.
Proof.
  intros e st d k v Hwf Hin. apply in_puts_of in Hin.
  pose proof (deliver_outcome e st d) as Ho. unfold outcome in Ho.
  destruct (run st (deliver e d)) as [[r st'] es]. cbn [effects_of snd] in Hin.
  destruct Ho as [[Hp _]|(k0 & v0 & Hp & _ & _ & _ & Hc & _)]; rewrite Hp in Hin; [contradiction|].
  destruct Hin as [[= -> ->]|[]]. eapply content_ok_key; eassumption.
Qed.

(* the record's own key is the key it is stored under *)
Lemma stored_under_record_key_lemma : forall e st d k v,
  In (EPut k v) (effects_of (run st (deliver e d))) -> u_key (d_up d) = k.
Proof.
  intros e st d k v Hin. apply in_puts_of in Hin.
  pose proof (deliver_outcome e st d) as Ho. unfold outcome in Ho.
  destruct (run st (deliver e d)) as [[r st'] es]. cbn [effects_of snd] in Hin.
  destruct Ho as [[Hp _]|(k0 & v0 & Hp & _ & _ & Hk & _)]; rewrite Hp in Hin; [contradiction|].
  destruct Hin as [[= -> ->]|[]]. assumption.
Qed.

(* ------------------------------------------------------------------ the invariant over histories *)

Lemma lookup_put st k v k' :
  lookup (put st k v) k' =
  if name_eqb k' k then Some {| s_val := v; s_listed := listed st k |} else lookup st k'.
Proof.
  unfold listed. induction st as [|[k0 s0] st IH]; cbn [put lookup].
  - destruct (name_eqb k' k); reflexivity.
  - destruct (name_eqb k k0) eqn:E0; cbn [lookup].
    + apply name_eqb_eq in E0. subst k0. destruct (name_eqb k' k); reflexivity.
    + destruct (name_eqb k' k0) eqn:E1.
      * apply name_eqb_eq in E1. subst k0. rewrite name_eqb_sym in E0. rewrite E0. reflexivity.
      * rewrite IH. reflexivity.
Qed.

Lemma lookup_ack st k : lookup (ack st) k =
  match lookup st k with Some s => Some {| s_val := s_val s; s_listed := true |} | None => None end.
Proof.
  unfold ack. induction st as [|[k0 s0] st IH]; cbn [map lookup fst snd]; [reflexivity|].
  destruct (name_eqb k k0); [reflexivity | apply IH].
Qed.

Lemma store_wf_put st k v : store_wf st -> key_ok k v = true -> store_wf (put st k v).
Proof.
  intros Hwf Hk k' s. rewrite lookup_put. destruct (name_eqb k' k) eqn:E.
  - apply name_eqb_eq in E. subst k'. intros [= <-]. assumption.
  - apply Hwf.
Qed.

Lemma store_wf_ack st : store_wf st -> store_wf (ack st).
Proof.
  intros Hwf k s. rewrite lookup_ack. destruct (lookup st k) as [s0|] eqn:E; [|discriminate].
  intros [= <-]. cbn. eapply Hwf. eassumption.
Qed.

Lemma serial_step_wf e st d : store_wf st -> store_wf (serial_step e st d).
Proof.
  intros Hwf. unfold serial_step. apply store_wf_ack.
  pose proof (deliver_outcome e st d) as Ho. unfold outcome in Ho.
  destruct (run st (deliver e d)) as [[r st'] es]. cbn [store_of fst snd].
  destruct Ho as [[_ ->]|(k0 & v0 & _ & -> & _ & _ & Hc & _)]; [assumption|].
  apply store_wf_put; [assumption|]. eapply content_ok_key; eassumption.
Qed.

Lemma serial_run_wf e ds : forall st, store_wf st -> store_wf (serial_run e st ds).
Proof.
  unfold serial_run. induction ds as [|d ds IH]; intros st Hwf; cbn [fold_left]; [assumption|].
  apply IH. apply serial_step_wf. assumption.
Qed.

Lemma store_wf_empty : store_wf [].
Proof. intros k s H. discriminate. Qed.

(* every record held after any history of deliveries sits under the key its content determines *)
Lemma history_keys_derived_lemma : forall e ds k s,
  lookup (serial_run e [] ds) k = Some s -> key_ok k (s_val s) = true.
Proof. intros e ds. apply serial_run_wf. apply store_wf_empty. Qed.

(* ------------------------------------------------------------------ mismatched keys are rejected *)

(* the keys the content of an upload determines *)
Definition body_keys (b : body) : list name :=
  match b with
  | BGarbage => []
  | BChunk c => [chunk_key c]
  | BPad p => [owner_key (p_owner p)]
  | BTx t => [owner_key (t_owner t)]
  | BTxs l => map (fun t => owner_key (t_owner t)) l
  | BReg r => [reg_k r]
  end.

Ltac rejected := eexists; reflexivity.

Lemma filter_none_for_key l k :
  ~ In k (map (fun t => owner_key (t_owner t)) l) ->
  filter (fun t => name_eqb (owner_key (t_owner t)) k) l = [].
Proof.
  induction l as [|t l IH]; intros H; cbn [filter]; [reflexivity|].
  cbn [map] in H. destruct (name_eqb (owner_key (t_owner t)) k) eqn:E.
  - apply name_eqb_eq in E. exfalso. apply H. left. assumption.
  - apply IH. intros Hin. apply H. right. assumption.
Qed.

Lemma mismatch_rejected_lemma : forall e st d,
  ~ In (u_key (d_up d)) (body_keys (u_body (d_up d))) ->
  exists x, run st (deliver e d) = (Err x, st, []).
Proof.
  intros e st [pth u] Hk. cbn [d_up] in Hk. unfold deliver. cbn [d_path d_up].
  assert (Hne : forall k, In k (body_keys (u_body u)) -> name_eqb (u_key u) k = false).
  { intros k Hin. apply name_eqb_neq. intros E. rewrite E in Hk. contradiction. }
  destruct pth.
  - unfold client_put, de_paid, de_plain.
    destruct (u_hdr u) as [[]|]; try rejected; destruct (u_proof u) as [p|]; try rejected;
      destruct (u_body u) as [|c|pd|t|l|rg]; cbn [as_chunk as_pad as_tx as_reg liftE]; try rejected;
      cbn [body_keys] in Hne;
      try (unfold bindE; rewrite run_bind, run_validate_key, (Hne _ (or_introl eq_refl)); rejected);
      try (rewrite (Hne _ (or_introl eq_refl)); cbn [negb]; rejected).
    all: try rewrite flag_register_key; cbn [andb]; fold (reg_k rg);
      rewrite (Hne _ (or_introl eq_refl)); cbn [negb]; rejected.
  - unfold repl_put, de_plain.
    destruct (u_hdr u) as [[]|]; try rejected; destruct (u_proof u) as [p|]; try rejected;
      destruct (u_body u) as [|c|pd|t|l|rg]; cbn [as_chunk as_pad as_txs as_reg liftE]; try rejected;
      cbn [body_keys] in Hne.
    + unfold bindE. rewrite run_bind, run_validate_key, (Hne _ (or_introl eq_refl)). rejected.
    + unfold store_txs. rewrite filter_none_for_key by assumption. rejected.
    + fold (reg_k rg). rewrite (Hne _ (or_introl eq_refl)). cbn [negb]. rejected.
    + unfold store_pad. rewrite name_eqb_sym, (Hne _ (or_introl eq_refl)). cbn [negb]. rejected.
Qed.

(* ------------------------------------------------------------------ RecordStore::put *)

Lemma unverified_never_readable_lemma : forall max s k r,
  snd (fst (rs_put_step max s k r)) = s.
Proof. reflexivity. Qed.

Lemma oversized_refused_lemma : forall max s k r,
  max <= in_len r -> rs_put_step max s k r = (PRTooLarge, s, []).
Proof.
  intros max s k r H. unfold rs_put_step, rs_put.
  assert (max <=? in_len r = true) as -> by (apply N.leb_le; assumption). reflexivity.
Qed.

Lemma unparsable_refused_lemma : forall max s k r,
  in_hdr r = None -> snd (rs_put_step max s k r) = [].
Proof.
  intros max s k r H. unfold rs_put_step, rs_put. rewrite H. destruct (max <=? in_len r); reflexivity.
Qed.

(* put either refuses, drops a duplicate, or forwards exactly this record for validation *)
Lemma put_forwards_only_lemma : forall max s k r,
  snd (rs_put_step max s k r) = [] \/
  (snd (rs_put_step max s k r) = [k] /\ in_len r < max /\ in_hdr r <> None).
Proof.
  intros max s k r. unfold rs_put_step, rs_put.
  destruct (max <=? in_len r) eqn:El; [left; reflexivity|]. apply N.leb_gt in El.
  destruct (in_hdr r) as [kd|]; [|left; reflexivity].
  destruct kd; try (right; repeat split; [assumption | discriminate]);
    destruct (idx_lookup (rs_index s) k) as [[| |h]|];
    try (left; reflexivity); try (right; repeat split; [assumption | discriminate]);
    destruct (h =? in_hash r); try (left; reflexivity); right; repeat split; try assumption; discriminate.
Qed.

(* ------------------------------------------------------------------ source constants *)

Lemma source_constants_c04_lemma : Consts.pv_unpaid_register_checks_record_key = true.
Proof. reflexivity. Qed.

(* ------------------------------------------------------------------ non-vacuity *)

Definition ex_env4 : env := {| e_closest := [0; 1; 2] |}.
Definition ex_reg (ops : list regop) : reg :=
  {| g_base := {| r_owner := 1; r_meta := 1; r_perm := PermWriters []; r_osig := OSBy 1 |}; g_ops := ops |}.
Definition ex_op (i : N) : regop :=
  {| op_id := i; op_writer := 1; op_sigok := true; op_addr := None; op_size := 16 |}.
Definition ex_store_reg : store := [(reg_key 1 1, {| s_val := SReg (ex_reg []); s_listed := true |})].
Definition ex_reg_update (k : name) : delivery :=
  {| d_path := PClient;
     d_up := {| u_key := k; u_hdr := kind_of_tag 3; u_proof := None; u_body := BReg (ex_reg [ex_op 1]);
                u_chain := ChainErr |} |}.

(* the F8 witness on the repaired code: an unpaid register update under a foreign key is rejected and
   nothing changes, while the same update under its own key is applied *)
Example ex_register_update_foreign_key_rejected :
  ~ In (NRaw 9) (body_keys (u_body (d_up (ex_reg_update (NRaw 9))))) /\
  run ex_store_reg (deliver ex_env4 (ex_reg_update (NRaw 9))) = (Err EKeyMismatch, ex_store_reg, []) /\
  In (EPut (reg_key 1 1) (SReg (ex_reg [ex_op 1])))
     (effects_of (run ex_store_reg (deliver ex_env4 (ex_reg_update (reg_key 1 1))))).
Proof.
  split; [|split].
  - cbn. intros [H|[]]. discriminate.
  - vm_compute. reflexivity.
  - vm_compute. left. reflexivity.
Qed.

Example ex_store_wf_nonempty : store_wf ex_store_reg /\ lookup ex_store_reg (reg_key 1 1) <> None.
Proof.
  split.
  - intros k s. cbn [ex_store_reg lookup]. destruct (name_eqb k (reg_key 1 1)) eqn:E; [|discriminate].
    apply name_eqb_eq in E. subst k. intros [= <-]. reflexivity.
  - vm_compute. discriminate.
Qed.

Example ex_put_outcomes :
  rs_put 100 None {| in_len := 100; in_hdr := Some KChunk; in_hash := 1 |} = PRTooLarge /\
  rs_put 100 None {| in_len := 99; in_hdr := Some KChunk; in_hash := 1 |} = PRForward /\
  rs_put 100 (Some RTChunk) {| in_len := 99; in_hdr := Some KChunk; in_hash := 1 |} = PRIgnored /\
  rs_put 100 (Some RTChunk) {| in_len := 99; in_hdr := Some KChunkPaid; in_hash := 1 |} = PRForward /\
  rs_put 100 (Some (RTNonChunk 1)) {| in_len := 99; in_hdr := Some KReg; in_hash := 1 |} = PRIgnored /\
  rs_put 100 (Some (RTNonChunk 2)) {| in_len := 99; in_hdr := Some KReg; in_hash := 1 |} = PRForward /\
  rs_put 100 None {| in_len := 9; in_hdr := None; in_hash := 1 |} = PRIgnored.
Proof. repeat split. Qed.
