(* C05 -- quorum reads: basic lemmas, the state invariant, one outcome per caller. *)
From Coq Require Import List NArith Bool Lia Permutation.
From V Require Import gen.Consts model.GetRecord.
Import ListNotations.
Open Scope N_scope.

(* ------------------------------------------------------------------------------------------ *)
(* constants the statements are about                                                          *)

Lemma constants_ok :
  Consts.gr_close_group_size = 5 /\ close_group_majority = 3 /\
  quorum_value QAll = 5 /\ quorum_value QMajority = 3 /\ quorum_value QOne = 1.
Proof. repeat split; reflexivity. Qed.

Lemma majority_is_majority :
  Consts.gr_close_group_size < 2 * close_group_majority /\ close_group_majority <= Consts.gr_close_group_size.
Proof. split; vm_compute; congruence. Qed.

(* ------------------------------------------------------------------------------------------ *)
(* boolean equalities                                                                          *)

Lemma nlist_eqb_eq : forall a b, nlist_eqb a b = true <-> a = b.
Proof.
  induction a as [|x a IH]; destruct b as [|y b]; cbn; split; intro H; try reflexivity; try discriminate.
  - apply andb_true_iff in H. destruct H as [H1 H2]. apply N.eqb_eq in H1. apply IH in H2. congruence.
  - inversion H; subst. rewrite N.eqb_refl. cbn. apply IH. reflexivity.
Qed.

Lemma kind_eqb_eq : forall a b, kind_eqb a b = true <-> a = b.
Proof. destruct a, b; cbn; split; intro H; try reflexivity; try discriminate. Qed.

Lemma okind_eqb_eq : forall a b, okind_eqb a b = true <-> a = b.
Proof.
  destruct a as [a|], b as [b|]; cbn; split; intro H; try reflexivity; try discriminate.
  - apply kind_eqb_eq in H. congruence.
  - inversion H. apply kind_eqb_eq. reflexivity.
Qed.

Lemma payload_eqb_eq : forall a b, payload_eqb a b = true <-> a = b.
Proof.
  destruct a, b; cbn; split; intro H; try discriminate; try reflexivity.
  - apply nlist_eqb_eq in H. congruence.
  - inversion H. apply nlist_eqb_eq. reflexivity.
  - repeat (apply andb_true_iff in H; destruct H as [H ?]).
    apply N.eqb_eq in H. apply eqb_prop in H2. apply nlist_eqb_eq in H1. apply N.eqb_eq in H0. congruence.
  - inversion H; subst. rewrite !N.eqb_refl, eqb_reflx. cbn. rewrite andb_true_r. apply nlist_eqb_eq. reflexivity.
  - repeat (apply andb_true_iff in H; destruct H as [H ?]).
    apply eqb_prop in H. apply N.eqb_eq in H1. apply N.eqb_eq in H0. congruence.
  - inversion H; subst. rewrite !N.eqb_refl, eqb_reflx. reflexivity.
  - apply N.eqb_eq in H. congruence.
  - inversion H. apply N.eqb_eq. reflexivity.
Qed.

Lemma content_eqb_eq : forall a b, content_eqb a b = true <-> a = b.
Proof.
  intros [ka pa] [kb pb]. unfold content_eqb. cbn. rewrite andb_true_iff, okind_eqb_eq, payload_eqb_eq.
  split; intro H. - destruct H; congruence. - inversion H. split; reflexivity.
Qed.

Lemma content_eqb_refl : forall a, content_eqb a a = true.
Proof. intro a. apply content_eqb_eq. reflexivity. Qed.

Lemma on_eqb_eq : forall a b, on_eqb a b = true <-> a = b.
Proof.
  destruct a as [a|], b as [b|]; cbn; split; intro H; try reflexivity; try discriminate.
  - apply N.eqb_eq in H. congruence.
  - inversion H. apply N.eqb_refl.
Qed.

Lemma record_eqb_eq : forall a b, record_eqb a b = true <-> a = b.
Proof.
  intros [ka ca pa] [kb cb pb]. unfold record_eqb. cbn.
  rewrite !andb_true_iff, N.eqb_eq, content_eqb_eq, on_eqb_eq.
  split; intro H. - destruct H as [[? ?] ?]; congruence. - inversion H. repeat split; reflexivity.
Qed.

Lemma mem_In : forall x l, mem x l = true <-> In x l.
Proof.
  induction l as [|y l IH]; cbn.
  - split; [discriminate | tauto].
  - rewrite orb_true_iff, N.eqb_eq, IH. split; intros [H|H]; auto.
Qed.

Lemma mem_false : forall x l, mem x l = false <-> ~ In x l.
Proof.
  intros x l. rewrite <- mem_In. destruct (mem x l).
  - split; [discriminate|]. intro H. exfalso. apply H. reflexivity.
  - split; [|reflexivity]. intros _ H. discriminate.
Qed.

(* ------------------------------------------------------------------------------------------ *)
(* counting outcomes, deliver                                                                  *)

Lemma count_app : forall a b c, count_outcomes (a ++ b) c = (count_outcomes a c + count_outcomes b c)%nat.
Proof.
  induction a as [|[c' o] a IH]; intros b c; cbn.
  - reflexivity.
  - rewrite IH. lia.
Qed.

Lemma count_zero_notin : forall o c, (forall x, ~ In (c, x) o) -> count_outcomes o c = 0%nat.
Proof.
  induction o as [|[c' x] o IH]; intros c H; cbn.
  - reflexivity.
  - destruct (N.eqb_spec c' c) as [E|E].
    + exfalso. apply (H x). left. congruence.
    + rewrite IH; [reflexivity|]. intros y Hy. apply (H y). right. exact Hy.
Qed.

Lemma count_closed : forall l c,
  count_outcomes (map (fun c' => (c', EClosed)) l) c = count_occ N.eq_dec l c.
Proof.
  induction l as [|y l IH]; intro c; cbn.
  - reflexivity.
  - rewrite IH. destruct (N.eqb_spec y c) as [E|E]; destruct (N.eq_dec y c) as [E'|E']; try contradiction; reflexivity.
Qed.

Lemma deliver_in : forall dd cs res c o, In (c, o) (fst (deliver dd cs res)) ->
  In c cs /\ mem c dd = false /\ (o = res \/ o = EClosed).
Proof.
  induction cs as [|c0 cs IH]; intros res c o H; cbn in H.
  - contradiction.
  - destruct (mem c0 dd) eqn:M.
    + cbn in H. apply in_map_iff in H. destruct H as (c' & E & Hin). inversion E; subst.
      apply filter_In in Hin. destruct Hin as [Hin Hal]. apply negb_true_iff in Hal.
      split; [right; exact Hin|]. split; [exact Hal|]. right. reflexivity.
    + destruct (deliver dd cs res) as [o' r'] eqn:D. cbn in H. destruct H as [H|H].
      * inversion H; subst. split; [left; reflexivity|]. split; [exact M|]. left. reflexivity.
      * specialize (IH res c o). rewrite D in IH. cbn in IH. destruct (IH H) as (A & B & C).
        split; [right; exact A|]. split; assumption.
Qed.

Lemma deliver_count_notin : forall dd cs res c, ~ In c cs -> count_outcomes (fst (deliver dd cs res)) c = 0%nat.
Proof.
  intros dd cs res c H. apply count_zero_notin. intros x Hx. apply deliver_in in Hx. tauto.
Qed.

Lemma deliver_count_dead : forall dd cs res c, mem c dd = true -> count_outcomes (fst (deliver dd cs res)) c = 0%nat.
Proof.
  intros dd cs res c H. apply count_zero_notin. intros x Hx. apply deliver_in in Hx.
  destruct Hx as (_ & Hx & _). congruence.
Qed.

Lemma deliver_count_alive : forall dd cs res c, NoDup cs -> In c cs -> mem c dd = false ->
  count_outcomes (fst (deliver dd cs res)) c = 1%nat.
Proof.
  induction cs as [|c0 cs IH]; intros res c ND Hin Hal.
  - contradiction.
  - inversion ND as [|? ? Hnot ND']; subst. cbn. destruct (mem c0 dd) eqn:M.
    + cbn. destruct Hin as [E|Hin]; [subst; congruence|].
      rewrite count_closed.
      assert (NDf : NoDup (filter (fun c' => negb (mem c' dd)) cs)) by (apply NoDup_filter; exact ND').
      assert (Hf : In c (filter (fun c' => negb (mem c' dd)) cs)).
      { apply filter_In. split; [exact Hin|]. rewrite Hal. reflexivity. }
      apply (proj1 (NoDup_count_occ' N.eq_dec _) NDf). exact Hf.
    + destruct (deliver dd cs res) as [o' r'] eqn:D. cbn.
      destruct Hin as [E|Hin].
      * subst. rewrite N.eqb_refl. pose proof (deliver_count_notin dd cs res c Hnot) as Z.
        rewrite D in Z. cbn in Z. rewrite Z. reflexivity.
      * destruct (N.eqb_spec c0 c) as [E|E]; [subst; contradiction|].
        specialize (IH res c ND' Hin Hal). rewrite D in IH. cbn in IH. exact IH.
Qed.

Lemma deliver_count_le : forall dd cs res c, NoDup cs -> (count_outcomes (fst (deliver dd cs res)) c <= 1)%nat.
Proof.
  intros dd cs res c ND. destruct (in_dec N.eq_dec c cs) as [Hin|Hout].
  - destruct (mem c dd) eqn:M.
    + rewrite deliver_count_dead by exact M. lia.
    + rewrite deliver_count_alive by assumption. lia.
  - rewrite deliver_count_notin by exact Hout. lia.
Qed.

(* ------------------------------------------------------------------------------------------ *)
(* the pending list                                                                            *)

Definition callers_of (p : list query) : list N := flat_map qcallers p.

Lemma callers_of_app : forall a b, callers_of (a ++ b) = callers_of a ++ callers_of b.
Proof. intros. unfold callers_of. apply flat_map_app. Qed.

Lemma find_query_split : forall q l x, find_query q l = Some x ->
  exists l1 l2, l = l1 ++ x :: l2 /\ qid x = q /\ (forall y, In y l1 -> qid y <> q).
Proof.
  induction l as [|y l IH]; intros x H; cbn in H.
  - discriminate.
  - destruct (N.eqb_spec (qid y) q) as [E|E].
    + inversion H; subst. exists [], l. repeat split; auto; try (intros ? []); try (intros ? ? []); try contradiction.
    + destruct (IH x H) as (l1 & l2 & A & B & C). exists (y :: l1), l2. subst l. repeat split; auto.
      intros z [Hz|Hz]; [subst; exact E | apply C; exact Hz].
Qed.

Lemma find_query_none : forall q l, find_query q l = None -> forall y, In y l -> qid y <> q.
Proof.
  induction l as [|y l IH]; intros H z Hz; cbn in H.
  - contradiction.
  - destruct (N.eqb_spec (qid y) q) as [E|E]; [discriminate|].
    destruct Hz as [Hz|Hz]; [subst; exact E | apply IH; assumption].
Qed.

Lemma remove_query_notin : forall q l, (forall y, In y l -> qid y <> q) -> remove_query q l = l.
Proof.
  induction l as [|y l IH]; intro H; cbn.
  - reflexivity.
  - destruct (N.eqb_spec (qid y) q) as [E|E].
    + exfalso. apply (H y); [left; reflexivity | exact E].
    + cbn. f_equal. apply IH. intros z Hz. apply H. right. exact Hz.
Qed.

Lemma remove_query_split : forall q l1 x l2, qid x = q ->
  (forall y, In y l1 -> qid y <> q) -> (forall y, In y l2 -> qid y <> q) ->
  remove_query q (l1 ++ x :: l2) = l1 ++ l2.
Proof.
  intros q l1 x l2 E H1 H2. unfold remove_query. rewrite filter_app. cbn.
  rewrite E, N.eqb_refl. cbn. fold (remove_query q l1). fold (remove_query q l2).
  rewrite (remove_query_notin q l1 H1), (remove_query_notin q l2 H2). reflexivity.
Qed.

Lemma replace_query_split : forall x' l1 x l2, qid x = qid x' ->
  (forall y, In y l1 -> qid y <> qid x') ->
  replace_query x' (l1 ++ x :: l2) = l1 ++ x' :: l2.
Proof.
  induction l1 as [|y l1 IH]; intros x l2 E H; cbn.
  - rewrite E, N.eqb_refl. reflexivity.
  - destruct (N.eqb_spec (qid y) (qid x')) as [E'|E'].
    + exfalso. apply (H y); [left; reflexivity | exact E'].
    + f_equal. apply IH; [exact E|]. intros z Hz. apply H. right. exact Hz.
Qed.

Definition add_caller (x : query) (c : N) : query :=
  {| qid := qid x; qkey := qkey x; qcallers := qcallers x ++ [c]; qvers := qvers x; qcfg := qcfg x;
     qholders := qholders x |}.

Lemma join_query_some : forall key c l l', join_query key c l = Some l' ->
  exists l1 x l2, l = l1 ++ x :: l2 /\ qkey x = key /\ (forall y, In y l1 -> qkey y <> key) /\
                  l' = l1 ++ add_caller x c :: l2.
Proof.
  induction l as [|y l IH]; intros l' H; cbn in H.
  - discriminate.
  - destruct (N.eqb_spec (qkey y) key) as [E|E].
    + inversion H; subst. exists [], y, l. repeat split; auto; try (intros ? []); try (intros ? ? []); try contradiction.
    + destruct (join_query key c l) as [r'|] eqn:J; [|discriminate]. inversion H; subst.
      destruct (IH r' eq_refl) as (l1 & x & l2 & A & B & C & D). subst.
      exists (y :: l1), x, l2. repeat split; auto.
      intros z [Hz|Hz]; [subst; exact E | apply C; exact Hz].
Qed.

Lemma join_query_none : forall key c l, join_query key c l = None -> forall y, In y l -> qkey y <> key.
Proof.
  induction l as [|y l IH]; intros H z Hz; cbn in H.
  - contradiction.
  - destruct (N.eqb_spec (qkey y) key) as [E|E]; [discriminate|].
    destruct (join_query key c l) eqn:J; [discriminate|].
    destruct Hz as [Hz|Hz]; [subst; exact E | apply IH; auto].
Qed.

(* ------------------------------------------------------------------------------------------ *)
(* reachability with the history and the delivered outcomes                                     *)

Inductive reach : list event -> state -> list (N * outcome) -> Prop :=
| reach_init : reach [] init []
| reach_step : forall evs s o e, reach evs s o ->
    reach (evs ++ [e]) (step_state s e) (o ++ step_outs s e).

Lemma run_from_app : forall evs s e,
  run_from s (evs ++ [e]) =
  (step_state (fst (run_from s evs)) e, snd (run_from s evs) ++ step_outs (fst (run_from s evs)) e).
Proof.
  induction evs as [|e0 evs IH]; intros s e; cbn.
  - rewrite app_nil_r. reflexivity.
  - rewrite IH. destruct (run_from (step_state s e0) evs) as [sf o]. cbn. rewrite app_assoc. reflexivity.
Qed.

Lemma final_snoc : forall evs e, final (evs ++ [e]) = step_state (final evs) e.
Proof. intros. unfold final, run. rewrite run_from_app. reflexivity. Qed.

Lemma outs_snoc : forall evs e, outs (evs ++ [e]) = outs evs ++ step_outs (final evs) e.
Proof. intros. unfold outs, final, run. rewrite run_from_app. reflexivity. Qed.

Lemma reach_run : forall evs, reach evs (final evs) (outs evs).
Proof.
  intro evs. induction evs as [|e evs IH] using rev_ind.
  - apply reach_init.
  - rewrite final_snoc, outs_snoc. apply reach_step. exact IH.
Qed.

(* ------------------------------------------------------------------------------------------ *)
(* structural invariant: query ids and keys are unique, caller sets disjoint, ids below counters  *)

Record sinv (s : state) : Prop := {
  si_qids : NoDup (map qid (pending s));
  si_qlt : forall x, In x (pending s) -> qid x < next_qid s;
  si_keys : NoDup (map qkey (pending s));
  si_callers : NoDup (callers_of (pending s));
  si_clt : forall c, In c (callers_of (pending s)) -> c < next_cid s
}.

Lemma NoDup_app_remove_mid : forall (A : Type) (a b c : list A), NoDup (a ++ b ++ c) -> NoDup (a ++ c).
Proof.
  intros A a b c H. induction b as [|x b IH]; cbn in *.
  - exact H.
  - apply IH. apply NoDup_remove_1 in H. exact H.
Qed.

Lemma find_decomp : forall s q x, sinv s -> find_query q (pending s) = Some x ->
  exists l1 l2, pending s = l1 ++ x :: l2 /\ qid x = q /\
    remove_query q (pending s) = l1 ++ l2 /\
    (forall x', qid x' = q -> replace_query x' (pending s) = l1 ++ x' :: l2).
Proof.
  intros s q x I F. destruct (find_query_split _ _ _ F) as (l1 & l2 & A & B & C).
  exists l1, l2. split; [exact A|]. split; [exact B|]. split.
  - rewrite A. apply remove_query_split; auto.
    intros y Hy E. pose proof (si_qids s I) as ND. rewrite A, map_app in ND. cbn in ND.
    apply NoDup_remove_2 in ND. apply ND. apply in_or_app. right.
    rewrite B, <- E. apply in_map. exact Hy.
  - intros x' E. rewrite A. apply replace_query_split; [congruence|].
    intros y Hy. rewrite E. apply C. exact Hy.
Qed.

Lemma sinv_set_pending_sub : forall s l1 x l2, sinv s -> pending s = l1 ++ x :: l2 ->
  sinv (set_pending s (l1 ++ l2)).
Proof.
  intros s l1 x l2 I A. destruct I as [I1 I2 I3 I4 I5]. rewrite A in *.
  constructor; unfold set_pending; cbn [pending next_qid next_cid dead].
  - rewrite map_app in *. cbn in I1. apply NoDup_remove_1 in I1. exact I1.
  - intros y Hy. apply I2. apply in_app_or in Hy. apply in_or_app. destruct Hy; [left | right; right]; assumption.
  - rewrite map_app in *. cbn in I3. apply NoDup_remove_1 in I3. exact I3.
  - rewrite callers_of_app in *. unfold callers_of in I4 at 2. cbn in I4.
    fold (callers_of l2) in I4. apply NoDup_app_remove_mid in I4. exact I4.
  - intros c Hc. apply I5. rewrite callers_of_app in *. apply in_app_or in Hc. apply in_or_app.
    destruct Hc as [Hc|Hc]; [left; exact Hc|]. right. unfold callers_of. cbn. apply in_or_app. right. exact Hc.
Qed.

Lemma sinv_replace : forall s l1 x x' l2, sinv s -> pending s = l1 ++ x :: l2 ->
  qid x' = qid x -> qkey x' = qkey x -> qcallers x' = qcallers x ->
  sinv (set_pending s (l1 ++ x' :: l2)).
Proof.
  intros s l1 x x' l2 I A E1 E2 E3. destruct I as [I1 I2 I3 I4 I5]. rewrite A in *.
  assert (M1 : map qid (l1 ++ x' :: l2) = map qid (l1 ++ x :: l2)) by (rewrite !map_app; cbn; congruence).
  assert (M2 : map qkey (l1 ++ x' :: l2) = map qkey (l1 ++ x :: l2)) by (rewrite !map_app; cbn; congruence).
  assert (M3 : callers_of (l1 ++ x' :: l2) = callers_of (l1 ++ x :: l2)).
  { rewrite !callers_of_app. unfold callers_of. cbn. congruence. }
  constructor; unfold set_pending; cbn [pending next_qid next_cid dead].
  - rewrite M1. exact I1.
  - intros y Hy. apply in_app_or in Hy. destruct Hy as [Hy|[Hy|Hy]].
    + apply I2. apply in_or_app. left. exact Hy.
    + subst y. rewrite E1. apply I2. apply in_or_app. right. left. reflexivity.
    + apply I2. apply in_or_app. right. right. exact Hy.
  - rewrite M2. exact I3.
  - rewrite M3. exact I4.
  - rewrite M3. exact I5.
Qed.

Lemma NoDup_snoc : forall (A : Type) (l : list A) (x : A), NoDup l -> ~ In x l -> NoDup (l ++ [x]).
Proof.
  intros A l x ND H. apply NoDup_rev in ND. rewrite <- (rev_involutive (l ++ [x])).
  apply NoDup_rev. rewrite rev_app_distr. cbn. constructor; [|exact ND].
  intro Hin. apply H. apply in_rev. exact Hin.
Qed.

(* removing the query found for q, whatever is delivered *)
Ltac removal I F :=
  let l1 := fresh "l1" in let l2 := fresh "l2" in let A := fresh "A" in let B := fresh "B" in
  let C := fresh "C" in let D := fresh "D" in
  destruct (find_decomp _ _ _ I F) as (l1 & l2 & A & B & C & D);
  rewrite C; eapply sinv_set_pending_sub; eauto.

Lemma sinv_step : forall s e, sinv s -> sinv (step_state s e).
Proof.
  intros s e I. unfold step_state. destruct e as [key c|q p r|q|q|q|q|c]; cbn.
  - (* Cmd *)
    unfold handle_cmd. destruct (join_query key (next_cid s) (pending s)) as [p'|] eqn:J.
    + destruct (join_query_some _ _ _ _ J) as (l1 & x & l2 & A & B & C & D). subst p'.
      destruct I as [I1 I2 I3 I4 I5]. rewrite A in *.
      assert (M1 : map qid (l1 ++ add_caller x (next_cid s) :: l2) = map qid (l1 ++ x :: l2))
        by (rewrite !map_app; reflexivity).
      assert (M2 : map qkey (l1 ++ add_caller x (next_cid s) :: l2) = map qkey (l1 ++ x :: l2))
        by (rewrite !map_app; reflexivity).
      assert (P : Permutation (callers_of (l1 ++ add_caller x (next_cid s) :: l2))
                              (next_cid s :: callers_of (l1 ++ x :: l2))).
      { rewrite !callers_of_app. unfold callers_of. cbn.
        rewrite <- !app_assoc. cbn. apply Permutation_sym.
        rewrite !app_assoc. apply Permutation_middle. }
      constructor; unfold set_pending; cbn [pending next_qid next_cid dead].
      * rewrite M1. exact I1.
      * intros y Hy. apply in_app_or in Hy. destruct Hy as [Hy|[Hy|Hy]].
        -- apply I2. apply in_or_app. left. exact Hy.
        -- subst y. cbn. apply I2. apply in_or_app. right. left. reflexivity.
        -- apply I2. apply in_or_app. right. right. exact Hy.
      * rewrite M2. exact I3.
      * apply (Permutation_NoDup (Permutation_sym P)). constructor; [|exact I4].
        intro Hin. apply I5 in Hin. lia.
      * intros c' Hc. apply (Permutation_in _ P) in Hc. destruct Hc as [Hc|Hc]; [subst; lia|].
        apply I5 in Hc. lia.
    + pose proof (join_query_none _ _ _ J) as Hk. destruct I as [I1 I2 I3 I4 I5].
      constructor; unfold set_pending; cbn [pending next_qid next_cid dead].
      * rewrite map_app. cbn. apply NoDup_snoc; [exact I1|].
        intro Hin. apply in_map_iff in Hin. destruct Hin as (y & Ey & Hy). apply I2 in Hy. lia.
      * intros y Hy. apply in_app_or in Hy. destruct Hy as [Hy|[Hy|[]]].
        -- apply I2 in Hy. lia.
        -- subst y. cbn. lia.
      * rewrite map_app. cbn. apply NoDup_snoc; [exact I3|].
        intro Hin. apply in_map_iff in Hin. destruct Hin as (y & Ey & Hy). apply (Hk y Hy). exact Ey.
      * rewrite callers_of_app. unfold callers_of at 2. cbn. apply NoDup_snoc; [exact I4|].
        intro Hin. apply I5 in Hin. lia.
      * intros c' Hc. rewrite callers_of_app in Hc. apply in_app_or in Hc. destruct Hc as [Hc|Hc].
        -- apply I5 in Hc. lia.
        -- unfold callers_of in Hc. cbn in Hc. destruct Hc as [Hc|[]]. subst. lia.
  - (* Found *)
    unfold accumulate. destruct (find_query q (pending s)) as [x|] eqn:F; [|exact I].
    destruct (insert_version (qvers x) r (peer_of p)) as [vers' n] eqn:IV.
    destruct (quorum_value (cq (qcfg x)) <=? n).
    + destruct (deliver _ _ _) as [o rt]. cbn. removal I F.
    + cbn. destruct (find_decomp _ _ _ I F) as (l1 & l2 & A & B & C & D).
      rewrite D by (cbn; exact B). eapply sinv_replace with (x := x); eauto.
  - unfold finished. destruct (find_query q (pending s)) as [x|] eqn:F; [|exact I].
    destruct (deliver _ _ _) as [o rt]. cbn. removal I F.
  - unfold err_not_found. destruct (find_query q (pending s)) as [x|] eqn:F; [|exact I].
    destruct (deliver _ _ _) as [o rt]. cbn. removal I F.
  - unfold err_not_found. destruct (find_query q (pending s)) as [x|] eqn:F; [|exact I].
    destruct (deliver _ _ _) as [o rt]. cbn. removal I F.
  - unfold err_timeout. destruct (find_query q (pending s)) as [x|] eqn:F; [|exact I].
    destruct (deliver _ _ _) as [o rt]. cbn. removal I F.
  - destruct I as [I1 I2 I3 I4 I5]. constructor; cbn; assumption.
Qed.

Lemma sinv_init : sinv init.
Proof. constructor; cbn; try constructor; intros; contradiction. Qed.

Lemma reach_sinv : forall evs s o, reach evs s o -> sinv s.
Proof. induction 1; [apply sinv_init | apply sinv_step; assumption]. Qed.

(* ------------------------------------------------------------------------------------------ *)
(* outcome invariant: who has received what                                                     *)

Record oinv (s : state) (o : list (N * outcome)) : Prop := {
  oi_wait : forall c, In c (callers_of (pending s)) -> count_outcomes o c = 0%nat;
  oi_le : forall c, (count_outcomes o c <= 1)%nat;
  oi_done : forall c, c < next_cid s -> ~ In c (callers_of (pending s)) -> ~ In c (dead s) ->
                      count_outcomes o c = 1%nat;
  oi_fresh : forall c, next_cid s <= c -> count_outcomes o c = 0%nat
}.

Lemma NoDup_app_remove_l : forall (A : Type) (a b : list A), NoDup (a ++ b) -> NoDup b.
Proof. induction a as [|x a IH]; intros b H; [exact H|]. inversion H; subst. apply IH. assumption. Qed.

Lemma NoDup_app_remove_r : forall (A : Type) (a b : list A), NoDup (a ++ b) -> NoDup a.
Proof.
  induction a as [|x a IH]; intros b H; [constructor|]. inversion H as [|? ? Hn ND]; subst.
  constructor; [|eapply IH; eauto]. intro Hin. apply Hn. apply in_or_app. left. exact Hin.
Qed.

Lemma NoDup_mid_disjoint : forall (A : Type) (a b c : list A) z,
  NoDup (a ++ b ++ c) -> In z (a ++ c) -> ~ In z b.
Proof.
  intros A a b c z ND Hin Hb. apply in_app_or in Hin. destruct Hin as [Ha|Hc].
  - induction a as [|y a IH]; [contradiction|]. cbn in ND. inversion ND as [|? ? Hn ND']; subst.
    destruct Ha as [E|Ha]; [subst|apply IH; assumption].
    apply Hn. apply in_or_app. right. apply in_or_app. left. exact Hb.
  - apply NoDup_app_remove_l in ND.
    induction b as [|y b IH]; [contradiction|]. cbn in ND. inversion ND as [|? ? Hn ND']; subst.
    destruct Hb as [E|Hb]; [subst|apply IH; assumption].
    apply Hn. apply in_or_app. right. exact Hc.
Qed.

Lemma oinv_removal : forall s o q x res, sinv s -> oinv s o -> find_query q (pending s) = Some x ->
  oinv (set_pending s (remove_query q (pending s))) (o ++ fst (deliver (dead s) (qcallers x) res)).
Proof.
  intros s o q x res I O F. destruct (find_decomp _ _ _ I F) as (l1 & l2 & A & B & C & _).
  rewrite C. destruct O as [O1 O2 O3 O4].
  pose proof (si_callers s I) as ND. pose proof (si_clt s I) as LT. rewrite A in *.
  rewrite callers_of_app in ND. unfold callers_of in ND at 2. cbn [flat_map] in ND. fold (callers_of l2) in ND.
  assert (NDx : NoDup (qcallers x)).
  { apply NoDup_app_remove_l in ND. apply NoDup_app_remove_r in ND. exact ND. }
  assert (IN : forall c, In c (callers_of (l1 ++ x :: l2)) <-> In c (callers_of (l1 ++ l2)) \/ In c (qcallers x)).
  { intro c. rewrite !callers_of_app. unfold callers_of at 2. cbn [flat_map]. fold (callers_of l2).
    rewrite !in_app_iff. tauto. }
  assert (DJ : forall c, In c (callers_of (l1 ++ l2)) -> ~ In c (qcallers x)).
  { intros c Hc. rewrite callers_of_app in Hc. eapply NoDup_mid_disjoint; eauto. }
  constructor; unfold set_pending; cbn [pending next_qid next_cid dead]; intro c; rewrite count_app.
  - intro Hc. rewrite O1 by (apply IN; left; exact Hc).
    rewrite deliver_count_notin by (apply DJ; exact Hc). reflexivity.
  - destruct (in_dec N.eq_dec c (qcallers x)) as [Hx|Hx].
    + rewrite O1 by (apply IN; right; exact Hx). pose proof (deliver_count_le (dead s) (qcallers x) res c NDx). lia.
    + rewrite deliver_count_notin by exact Hx. specialize (O2 c). lia.
  - intros Hlt Hnot Hal. destruct (in_dec N.eq_dec c (qcallers x)) as [Hx|Hx].
    + rewrite O1 by (apply IN; right; exact Hx).
      rewrite deliver_count_alive; auto. apply mem_false. exact Hal.
    + rewrite deliver_count_notin by exact Hx. rewrite O3; auto. intro Hc. apply IN in Hc. tauto.
  - intro Hge. rewrite O4 by exact Hge. rewrite deliver_count_notin; [reflexivity|].
    intro Hx. assert (c < next_cid s) by (apply LT; apply IN; right; exact Hx). lia.
Qed.

Lemma oinv_same_callers : forall s s' o, oinv s o ->
  (forall c, In c (callers_of (pending s')) <-> In c (callers_of (pending s))) ->
  next_cid s' = next_cid s -> (forall c, In c (dead s) -> In c (dead s')) -> oinv s' (o ++ []).
Proof.
  intros s s' o [O1 O2 O3 O4] Hc Hn Hd. rewrite app_nil_r. constructor; intro c.
  - intro H. apply O1. apply Hc. exact H.
  - apply O2.
  - intros Hlt Hnot Hal. apply O3; [rewrite <- Hn; exact Hlt| |].
    + intro H. apply Hnot. apply Hc. exact H.
    + intro H. apply Hal. apply Hd. exact H.
  - intro Hge. apply O4. rewrite <- Hn. exact Hge.
Qed.

Lemma oinv_step : forall s o e, sinv s -> oinv s o -> oinv (step_state s e) (o ++ step_outs s e).
Proof.
  intros s o e I O. unfold step_state, step_outs. destruct e as [key c|q p r|q|q|q|q|c]; cbn [step fst snd].
  - (* Cmd *)
    unfold handle_cmd. destruct (join_query key (next_cid s) (pending s)) as [p'|] eqn:J.
    + destruct (join_query_some _ _ _ _ J) as (l1 & x & l2 & A & B & C & D). subst p'.
      assert (IN : forall c', In c' (callers_of (l1 ++ add_caller x (next_cid s) :: l2)) <->
                              c' = next_cid s \/ In c' (callers_of (pending s))).
      { intro c'. rewrite A, !callers_of_app. unfold callers_of. cbn. rewrite !in_app_iff. cbn. intuition congruence. }
      destruct O as [O1 O2 O3 O4]. pose proof (si_clt s I) as LT. rewrite app_nil_r.
      constructor; cbn [pending next_qid next_cid dead]; intro c'.
      * intro H. apply IN in H. destruct H as [H|H]; [subst; apply O4; lia | apply O1; exact H].
      * apply O2.
      * intros Hlt Hnot Hal. apply O3; auto.
        -- assert (c' <> next_cid s) by (intro; subst; apply Hnot; apply IN; left; reflexivity). lia.
        -- intro H. apply Hnot. apply IN. right. exact H.
      * intro Hge. apply O4. lia.
    + destruct O as [O1 O2 O3 O4]. pose proof (si_clt s I) as LT. rewrite app_nil_r.
      assert (IN : forall c', In c' (callers_of (pending s ++ [{| qid := next_qid s; qkey := key;
                        qcallers := [next_cid s]; qvers := []; qcfg := c;
                        qholders := cholders c |}])) <->
                              c' = next_cid s \/ In c' (callers_of (pending s))).
      { intro c'. rewrite callers_of_app. unfold callers_of at 2. cbn. rewrite in_app_iff. cbn. intuition congruence. }
      constructor; cbn [pending next_qid next_cid dead]; intro c'.
      * intro H. apply IN in H. destruct H as [H|H]; [subst; apply O4; lia | apply O1; exact H].
      * apply O2.
      * intros Hlt Hnot Hal. apply O3; auto.
        -- assert (c' <> next_cid s) by (intro; subst; apply Hnot; apply IN; left; reflexivity). lia.
        -- intro H. apply Hnot. apply IN. right. exact H.
      * intro Hge. apply O4. lia.
  - (* Found *)
    unfold accumulate. destruct (find_query q (pending s)) as [x|] eqn:F.
    2:{ cbn. apply oinv_same_callers with (s := s); auto; tauto. }
    destruct (insert_version (qvers x) r (peer_of p)) as [vers' n] eqn:IV.
    destruct (quorum_value (cq (qcfg x)) <=? n).
    + match goal with |- context [deliver ?d ?c ?res] =>
        pose proof (oinv_removal s o q x res I O F) as R; destruct (deliver d c res) as [o' rt] end.
      cbn in *. exact R.
    + cbn. destruct (find_decomp _ _ _ I F) as (l1 & l2 & A & B & C & D).
      apply oinv_same_callers with (s := s); auto.
      intro c'. cbn [pending set_pending]. rewrite D by (cbn; exact B). rewrite A.
      rewrite !callers_of_app. unfold callers_of. cbn. tauto.
  - unfold finished. destruct (find_query q (pending s)) as [x|] eqn:F.
    2:{ cbn. apply oinv_same_callers with (s := s); auto; tauto. }
    match goal with |- context [deliver ?d ?c ?res] =>
      pose proof (oinv_removal s o q x res I O F) as R; destruct (deliver d c res) as [o' rt] end.
    cbn in *. exact R.
  - unfold err_not_found. destruct (find_query q (pending s)) as [x|] eqn:F.
    2:{ cbn. apply oinv_same_callers with (s := s); auto; tauto. }
    match goal with |- context [deliver ?d ?c ?res] =>
      pose proof (oinv_removal s o q x res I O F) as R; destruct (deliver d c res) as [o' rt] end.
    cbn in *. exact R.
  - unfold err_not_found. destruct (find_query q (pending s)) as [x|] eqn:F.
    2:{ cbn. apply oinv_same_callers with (s := s); auto; tauto. }
    match goal with |- context [deliver ?d ?c ?res] =>
      pose proof (oinv_removal s o q x res I O F) as R; destruct (deliver d c res) as [o' rt] end.
    cbn in *. exact R.
  - unfold err_timeout. destruct (find_query q (pending s)) as [x|] eqn:F.
    2:{ cbn. apply oinv_same_callers with (s := s); auto; tauto. }
    match goal with |- context [deliver ?d ?c ?res] =>
      pose proof (oinv_removal s o q x res I O F) as R; destruct (deliver d c res) as [o' rt] end.
    cbn in *. exact R.
  - apply oinv_same_callers with (s := s); auto; cbn; try tauto; try (intros c' H; right; exact H).
Qed.

Lemma oinv_init : oinv init [].
Proof. constructor; cbn; intros; try contradiction; try lia; try reflexivity. Qed.

Lemma reach_oinv : forall evs s o, reach evs s o -> oinv s o.
Proof.
  induction 1; [apply oinv_init|]. apply oinv_step; [eapply reach_sinv; eauto | assumption].
Qed.

Lemma waiting_In : forall s c, waiting s c = true <-> In c (callers_of (pending s)).
Proof.
  intros s c. unfold waiting, callers_of. rewrite existsb_exists, in_flat_map.
  split; intros (x & Hx & Hc); exists x; split; auto; apply mem_In; exact Hc.
Qed.

(* (a) every caller receives at most one outcome; none while its query is in flight; exactly one
   once it has been issued and is no longer waiting (unless it dropped its own receiver) *)
Lemma one_outcome_lemma : forall evs c,
  (count_outcomes (outs evs) c <= 1)%nat /\
  (waiting (final evs) c = true -> count_outcomes (outs evs) c = 0%nat) /\
  (c < next_cid (final evs) -> waiting (final evs) c = false -> ~ In c (dead (final evs)) ->
     count_outcomes (outs evs) c = 1%nat) /\
  (next_cid (final evs) <= c -> count_outcomes (outs evs) c = 0%nat).
Proof.
  intros evs c. destruct (reach_oinv _ _ _ (reach_run evs)) as [O1 O2 O3 O4].
  split; [apply O2|]. split; [|split].
  - intro W. apply O1. apply waiting_In. exact W.
  - intros Hlt W Hal. apply O3; auto. intro H. apply waiting_In in H. congruence.
  - apply O4.
Qed.

(* a terminating event of a query removes it: its callers are no longer waiting *)
Definition terminating (e : event) (q : N) : Prop :=
  e = Finished q \/ e = ErrNotFound q \/ e = ErrQuorumFailed q \/ e = ErrTimeout q.

Lemma terminating_removes : forall evs e q, terminating e q ->
  find_query q (pending (final (evs ++ [e]))) = None.
Proof.
  intros evs e q T. rewrite final_snoc. pose proof (reach_sinv _ _ _ (reach_run evs)) as I.
  set (s := final evs) in *.
  assert (G : forall x, find_query q (pending s) = Some x ->
                        find_query q (remove_query q (pending s)) = None).
  { intros x F. destruct (find_decomp _ _ _ I F) as (l1 & l2 & A & B & C & _). rewrite C.
    destruct (find_query q (l1 ++ l2)) as [y|] eqn:F'; [|reflexivity]. exfalso.
    destruct (find_query_split _ _ _ F') as (m1 & m2 & A' & B' & _).
    pose proof (si_qids s I) as ND. rewrite A, map_app in ND. cbn in ND. apply NoDup_remove_2 in ND.
    apply ND. rewrite <- map_app, A', B, <- B'. apply in_map. apply in_or_app. right. left. reflexivity. }
  unfold step_state.
  destruct T as [T|[T|[T|T]]]; subst e; cbn [step];
    [unfold finished | unfold err_not_found | unfold err_not_found | unfold err_timeout];
    destruct (find_query q (pending s)) as [x|] eqn:F; try (cbn; exact F);
    destruct (deliver _ _ _) as [o' rt]; cbn; eapply G; first [exact F | reflexivity].
Qed.
