(* C17 -- lemmas about model/Parsers.v: no parser reaches `Panic`, formatter/parser round trips,
   and the `_refuted` witnesses for the code before the repairs (F3, F4, F5). *)
From Coq Require Import List NArith ZArith String Ascii Bool Lia Arith ZifyBool ZifyNat ZifyN.
From V Require Import lib.Strs lib.Dec gen.Consts model.Amount model.Parsers.
Import ListNotations.
Open Scope N_scope.
Ltac Zify.zify_post_hook ::= Z.div_mod_to_equations.

(* ------------------------------------------------------------------ lists and lengths *)
Lemma len_app {A} (a b : list A) : len (a ++ b) = len a + len b.
Proof. unfold len. rewrite app_length. lia. Qed.

Lemma len_firstn {A} (l : list A) n : n <= len l -> len (firstn (N.to_nat n) l) = n.
Proof. unfold len. intros H. rewrite firstn_length. lia. Qed.

Lemma len_skipn {A} (l : list A) n : len (skipn (N.to_nat n) l) = len l - n.
Proof. unfold len. rewrite skipn_length. lia. Qed.

Lemma firstn_len_app {A} (a b : list A) : firstn (N.to_nat (len a)) (a ++ b) = a.
Proof.
  unfold len. rewrite Nat2N.id. rewrite firstn_app, Nat.sub_diag, firstn_all. cbn. apply app_nil_r.
Qed.

Lemma skipn_len_app {A} (a b : list A) : skipn (N.to_nat (len a)) (a ++ b) = b.
Proof.
  unfold len. rewrite Nat2N.id. rewrite skipn_app, Nat.sub_diag, skipn_all. reflexivity.
Qed.

(* ------------------------------------------------------------------ the primitives never surprise *)
Lemma slice_to_ok {A} (l : list A) n : n <= len l -> slice_to l n = Ok (firstn (N.to_nat n) l).
Proof. intros H. unfold slice_to. destruct (N.leb_spec n (len l)); [reflexivity | lia]. Qed.

Lemma slice_from_ok {A} (l : list A) n : n <= len l -> slice_from l n = Ok (skipn (N.to_nat n) l).
Proof. intros H. unfold slice_from. destruct (N.leb_spec n (len l)); [reflexivity | lia]. Qed.

Lemma slice_range_ok {A} (l : list A) a b : a <= b -> b <= len l ->
  slice_range l a b = Ok (firstn (N.to_nat (b - a)) (skipn (N.to_nat a) l)).
Proof.
  intros H1 H2. unfold slice_range.
  destruct (N.leb_spec a b); [|lia]. destruct (N.leb_spec b (len l)); [reflexivity | lia].
Qed.

Lemma slice_to_app {A} (a b : list A) n : len a = n -> slice_to (a ++ b) n = Ok a.
Proof.
  intros <-. rewrite slice_to_ok by (rewrite len_app; lia). rewrite firstn_len_app. reflexivity.
Qed.

Lemma slice_from_app {A} (a b : list A) n : len a = n -> slice_from (a ++ b) n = Ok b.
Proof.
  intros <-. rewrite slice_from_ok by (rewrite len_app; lia). rewrite skipn_len_app. reflexivity.
Qed.

Lemma slice_to_panic {A} (l : list A) n : len l < n -> slice_to l n = Panic.
Proof. intros H. unfold slice_to. destruct (N.leb_spec n (len l)); [lia | reflexivity]. Qed.

Lemma try_into_cases {A} (l : list A) n : try_into l n = Ok l \/ try_into l n = Err 0.
Proof. unfold try_into. destruct (len l =? n); auto. Qed.

Lemma try_into_ok {A} (l : list A) n : len l = n -> try_into l n = Ok l.
Proof. intros H. unfold try_into. rewrite H, N.eqb_refl. reflexivity. Qed.

Lemma map_err_try_into_not_panic {A} c (l : list A) n : map_err c (try_into l n) <> Panic.
Proof. destruct (try_into_cases l n) as [E|E]; rewrite E; discriminate. Qed.

(* ------------------------------------------------------------------ hex round trip *)
Lemma hexval_hexdigit n : n < 16 -> hexval (hexdigit n) = Some n.
Proof.
  intros H.
  assert (Hc : n = 0 \/ n = 1 \/ n = 2 \/ n = 3 \/ n = 4 \/ n = 5 \/ n = 6 \/ n = 7 \/ n = 8 \/ n = 9 \/
               n = 10 \/ n = 11 \/ n = 12 \/ n = 13 \/ n = 14 \/ n = 15) by lia.
  repeat (destruct Hc as [->|Hc]; [reflexivity|]). subst. reflexivity.
Qed.

Lemma unhex_tohex l : wf_bytes l = true -> unhex (tohex l) = Some l.
Proof.
  induction l as [|b r IH]; intros H; [reflexivity|].
  cbn [wf_bytes forallb] in H. apply andb_true_iff in H. destruct H as [Hb Hr].
  unfold is_byte in Hb. apply N.ltb_lt in Hb.
  cbn [tohex unhex]. rewrite !hexval_hexdigit by lia. fold (wf_bytes r) in Hr. rewrite (IH Hr).
  f_equal. f_equal. lia.
Qed.

Lemma hex_decode_tohex l : wf_bytes l = true -> hex_decode (tohex l) = Ok l.
Proof. intros H. unfold hex_decode. rewrite unhex_tohex by assumption. reflexivity. Qed.

Lemma wf_bytes_app a b : wf_bytes (a ++ b) = wf_bytes a && wf_bytes b.
Proof. unfold wf_bytes. apply forallb_app. Qed.

(* ------------------------------------------------------------------ RegisterAddress *)
Lemma no_panic_reg_from_hex_lemma pk_ok s : reg_from_hex pk_ok s <> Panic.
Proof.
  unfold reg_from_hex, hex_decode.
  destruct (unhex s) as [bytes|]; cbn [bind map_err]; [|discriminate].
  destruct (len bytes =? XOR_NAME_LEN + PK_SIZE) eqn:E; cbn [negb]; [|discriminate].
  apply N.eqb_eq in E. unfold XOR_NAME_LEN, PK_SIZE in *.
  rewrite slice_to_ok by lia. cbn [bind].
  rewrite try_into_ok by (apply len_firstn; lia). cbn [bind map_err].
  rewrite slice_from_ok by lia. cbn [bind].
  rewrite try_into_ok by (rewrite len_skipn; lia). cbn [bind map_err].
  destruct (pk_ok _); discriminate.
Qed.

(* what is accepted: exactly 80 decoded bytes whose last 48 are a valid key *)
Lemma reg_from_hex_spec pk_ok s a :
  reg_from_hex pk_ok s = Ok a <->
  exists bytes, unhex s = Some bytes /\ len bytes = 80 /\
                a = {| ra_meta := firstn 32 bytes; ra_owner := skipn 32 bytes |} /\
                pk_ok (skipn 32 bytes) = true.
Proof.
  unfold reg_from_hex, hex_decode. split.
  - destruct (unhex s) as [bytes|]; cbn [bind map_err]; [|discriminate].
    destruct (len bytes =? XOR_NAME_LEN + PK_SIZE) eqn:E; cbn [negb]; [|discriminate].
    apply N.eqb_eq in E. unfold XOR_NAME_LEN, PK_SIZE in *.
    rewrite slice_to_ok by lia. cbn [bind].
    rewrite try_into_ok by (apply len_firstn; lia). cbn [bind map_err].
    rewrite slice_from_ok by lia. cbn [bind].
    rewrite try_into_ok by (rewrite len_skipn; lia). cbn [bind map_err].
    change (N.to_nat 32) with 32%nat.
    destruct (pk_ok (skipn 32 bytes)) eqn:P; [|discriminate].
    intros H. injection H as <-. exists bytes. repeat split; auto.
  - intros (bytes & -> & L & -> & P). cbn [bind map_err].
    unfold XOR_NAME_LEN, PK_SIZE. rewrite L. cbn [N.add N.eqb Pos.add Pos.eqb negb Pos.succ Pos.add_carry].
    change (80 =? 80) with true. cbn [negb].
    rewrite slice_to_ok by lia. cbn [bind].
    rewrite try_into_ok by (apply len_firstn; lia). cbn [bind map_err].
    rewrite slice_from_ok by lia. cbn [bind].
    rewrite try_into_ok by (rewrite len_skipn; lia). cbn [bind map_err].
    change (N.to_nat 32) with 32%nat. rewrite P. reflexivity.
Qed.

Definition wf_reg_addr (pk_ok : list N -> bool) (a : reg_addr) : Prop :=
  len (ra_meta a) = XOR_NAME_LEN /\ len (ra_owner a) = PK_SIZE /\
  wf_bytes (ra_meta a) = true /\ wf_bytes (ra_owner a) = true /\ pk_ok (ra_owner a) = true.

Lemma reg_roundtrip_lemma pk_ok a : wf_reg_addr pk_ok a -> reg_from_hex pk_ok (reg_to_hex a) = Ok a.
Proof.
  intros (Lm & Lo & Wm & Wo & P). destruct a as [meta owner]. cbn [ra_meta ra_owner] in *.
  unfold reg_from_hex, reg_to_hex. cbn [ra_meta ra_owner].
  rewrite hex_decode_tohex by (rewrite wf_bytes_app, Wm, Wo; reflexivity). cbn [bind map_err].
  rewrite len_app, Lm, Lo, N.eqb_refl. cbn [negb].
  rewrite (slice_to_app _ _ _ Lm). cbn [bind].
  rewrite try_into_ok by assumption. cbn [bind map_err].
  rewrite (slice_from_app _ _ _ Lm). cbn [bind].
  rewrite try_into_ok by assumption. cbn [bind map_err]. rewrite P. reflexivity.
Qed.

Lemma reg_from_hex_unfixed_refuted_lemma :
  exists s, forall pk_ok, reg_from_hex_unfixed pk_ok s = Panic.
Proof. exists "00"%string. intros pk_ok. reflexivity. Qed.

(* every input of fewer than 32 decoded bytes made the unrepaired code panic *)
Lemma reg_from_hex_unfixed_short pk_ok s bytes :
  unhex s = Some bytes -> len bytes < 32 -> reg_from_hex_unfixed pk_ok s = Panic.
Proof.
  intros H L. unfold reg_from_hex_unfixed, hex_decode. rewrite H. cbn [bind map_err].
  rewrite slice_to_panic by (unfold XOR_NAME_LEN; lia). reflexivity.
Qed.

(* ------------------------------------------------------------------ ScratchpadAddress / PublicKey::from_hex *)
Lemma no_panic_pk_from_hex_lemma pk_ok s : pk_from_hex pk_ok s <> Panic.
Proof.
  unfold pk_from_hex, hex_decode.
  destruct (unhex s) as [bytes|]; cbn [bind map_err]; [|discriminate].
  destruct (try_into_cases bytes PK_SIZE) as [E|E]; rewrite E; cbn [bind map_err]; [|discriminate].
  destruct (pk_ok bytes); discriminate.
Qed.

Lemma scratch_roundtrip_lemma pk_ok owner :
  len owner = PK_SIZE -> wf_bytes owner = true -> pk_ok owner = true ->
  scratch_from_hex pk_ok (scratch_to_hex owner) = Ok owner.
Proof.
  intros L W P. unfold scratch_from_hex, pk_from_hex, scratch_to_hex.
  rewrite hex_decode_tohex by assumption. cbn [bind map_err].
  rewrite try_into_ok by assumption. cbn [bind map_err]. rewrite P. reflexivity.
Qed.

(* ------------------------------------------------------------------ str_to_addr / DataMapChunk *)
Lemma no_panic_str_to_addr_lemma s : str_to_addr s <> Panic.
Proof.
  unfold str_to_addr, hex_decode.
  destruct (unhex s) as [bytes|]; cbn [bind map_err]; [|discriminate].
  apply map_err_try_into_not_panic.
Qed.

Lemma addr_roundtrip_lemma x :
  len x = XOR_NAME_LEN -> wf_bytes x = true -> str_to_addr (addr_to_str x) = Ok x.
Proof.
  intros L W. unfold str_to_addr, addr_to_str. rewrite hex_decode_tohex by assumption.
  cbn [bind map_err]. rewrite try_into_ok by assumption. reflexivity.
Qed.

Lemma no_panic_datamap_lemma s : datamap_from_hex s <> Panic.
Proof. unfold datamap_from_hex, hex_decode. destruct (unhex s); discriminate. Qed.

Lemma datamap_roundtrip_lemma d : wf_bytes d = true -> datamap_from_hex (datamap_to_hex d) = Ok d.
Proof. intros W. unfold datamap_from_hex, datamap_to_hex. rewrite hex_decode_tohex by assumption. reflexivity. Qed.

(* ------------------------------------------------------------------ decrypt_private_key *)
Lemma no_panic_decrypt_lemma open_ data : decrypt open_ data <> Panic.
Proof.
  unfold decrypt, hex_decode. generalize SALT as sa, NONCE as no. intros sa no.
  destruct (unhex data) as [d|]; cbn [bind map_err]; [|discriminate].
  destruct (N.ltb_spec (len d) (sa + no)) as [L|L]; [discriminate|].
  rewrite slice_to_ok by lia. cbn [bind].
  rewrite try_into_ok by (apply len_firstn; lia). cbn [bind map_err].
  rewrite slice_range_ok by lia. cbn [bind].
  rewrite try_into_ok.
  2:{ replace (sa + no - sa) with no by lia. apply len_firstn. rewrite len_skipn. lia. }
  cbn [bind map_err]. rewrite slice_from_ok by lia. cbn [bind].
  destruct (open_ _ _ _) as [pt|]; [|discriminate]. destruct (utf8_valid pt); discriminate.
Qed.

(* short input: the salt slice (fewer than SALT bytes) or the nonce slice (fewer than SALT+NONCE) *)
Lemma decrypt_unfixed_short open_ data d :
  unhex data = Some d -> len d < SALT + NONCE -> decrypt_unfixed open_ data = Panic.
Proof.
  intros H L. unfold decrypt_unfixed, hex_decode. rewrite H. cbn [bind map_err].
  unfold slice_to. destruct (N.leb_spec SALT (len d)) as [L1|L1]; [|reflexivity]. cbn [bind].
  rewrite try_into_ok by (apply len_firstn; lia). cbn [bind map_err].
  unfold slice_range. destruct (N.leb_spec SALT (SALT + NONCE)); [|lia].
  destruct (N.leb_spec (SALT + NONCE) (len d)); [lia|]. reflexivity.
Qed.

Lemma decrypt_unfixed_refuted_lemma :
  (exists data, forall open_, decrypt_unfixed open_ data = Panic) /\
  (exists data open_ salt nonce ct pt, open_ salt nonce ct = Some pt /\ decrypt_unfixed open_ data = Panic).
Proof.
  split.
  - exists "00"%string. intros open_. reflexivity.
  - exists "0000000000000000000000000000000000000000ff"%string, (fun _ _ _ => Some [255]),
      [0;0;0;0;0;0;0;0], [0;0;0;0;0;0;0;0;0;0;0;0], [255], [255].
    split; reflexivity.
Qed.

(* sealing then opening: the AEAD's correctness is a premise (`open_ (seal ..) = Some ..`) *)
Lemma decrypt_encrypt_roundtrip_lemma seal open_ salt nonce key :
  len salt = SALT -> len nonce = NONCE ->
  wf_bytes salt = true -> wf_bytes nonce = true -> wf_bytes (seal salt nonce key) = true ->
  open_ salt nonce (seal salt nonce key) = Some key -> utf8_valid key = true ->
  decrypt open_ (encrypt seal salt nonce key) = Ok key.
Proof.
  intros Ls Ln Ws Wn Wc Hopen Hutf. unfold decrypt, encrypt.
  rewrite hex_decode_tohex by (rewrite !wf_bytes_app, Ws, Wn, Wc; reflexivity). cbn [bind map_err].
  revert Ls Ln. generalize SALT as sa, NONCE as no. intros sa no Ls Ln.
  destruct (N.ltb_spec (len (salt ++ nonce ++ seal salt nonce key)) (sa + no)) as [L|L].
  { rewrite !len_app in L. lia. }
  rewrite (slice_to_app _ _ _ Ls). cbn [bind]. rewrite try_into_ok by assumption. cbn [bind map_err].
  rewrite slice_range_ok by (rewrite ?len_app; lia). cbn [bind].
  replace (sa + no - sa) with no by lia.
  rewrite <- Ls at 1. rewrite skipn_len_app. rewrite <- Ln at 1. rewrite firstn_len_app.
  rewrite try_into_ok by assumption. cbn [bind map_err].
  rewrite app_assoc. rewrite slice_from_app by (rewrite len_app; lia). cbn [bind].
  rewrite Hopen, Hutf. reflexivity.
Qed.

(* ------------------------------------------------------------------ u16::from_str on printed numbers *)
Lemma all_digits_no_dash s : all_digits s = true -> forall c, is_digit c = false -> split_on c s = [s].
Proof.
  induction s as [|x r IH]; intros H c Hc; [reflexivity|].
  cbn [all_digits] in H. apply andb_true_iff in H. destruct H as [Hx Hr].
  cbn [split_on]. destruct (Ascii.eqb_spec x c) as [->|_]; [congruence|].
  rewrite (IH Hr c Hc). reflexivity.
Qed.

Lemma split_on_app s t c : all_digits s = true -> is_digit c = false ->
  split_on c (s ++ String c t) = s :: split_on c t.
Proof.
  intros H Hc. induction s as [|x r IH].
  - cbn [append split_on]. rewrite Ascii.eqb_refl. reflexivity.
  - cbn [all_digits] in H. apply andb_true_iff in H. destruct H as [Hx Hr].
    cbn [append split_on]. destruct (Ascii.eqb_spec x c) as [->|_]; [congruence|].
    rewrite (IH Hr). reflexivity.
Qed.

Lemma u16_from_str_dec p : p < U16 -> u16_from_str (dec p) = Some p.
Proof.
  intros H. unfold u16_from_str.
  pose proof (dec_nonempty p) as NE. pose proof (dec_digits p) as D. pose proof (val_dec p) as V.
  destruct (dec p) as [|c r] eqn:E; [congruence|].
  cbn [all_digits] in D. apply andb_true_iff in D. destruct D as [Dc Dr].
  destruct (Ascii.eqb_spec c "+"%char) as [->|_]; [discriminate Dc|].
  cbn [all_digits]. rewrite Dc, Dr, V. cbn [andb].
  destruct (N.ltb_spec p U16); [reflexivity | lia].
Qed.

Lemma u16_from_str_not_digits s : all_digits s = false -> (forall r, s <> String "+"%char r) -> u16_from_str s = None.
Proof.
  intros H NP. unfold u16_from_str. destruct s as [|c r]; [reflexivity|].
  destruct (Ascii.eqb_spec c "+"%char) as [->|_]; [exfalso; eapply NP; reflexivity|].
  rewrite H. reflexivity.
Qed.

Lemma u16_from_str_range s p : u16_from_str s = Some p -> p < U16.
Proof.
  unfold u16_from_str.
  set (d := match s with String c r => if Ascii.eqb c "+"%char then r else s | EmptyString => s end).
  destruct d; [discriminate|].
  destruct (all_digits _); cbn [andb]; [|discriminate].
  destruct (N.ltb_spec (val (String a d)) U16) as [L|L]; [|discriminate]. intros E. injection E as <-. exact L.
Qed.

(* ------------------------------------------------------------------ PortRange *)
Lemma no_panic_port_parse_lemma s : port_parse s <> Panic.
Proof.
  unfold port_parse. destruct (u16_from_str s); [discriminate|].
  destruct (split_on _ s) as [|a [|b [|c l]]]; try discriminate.
  destruct (u16_from_str a); [|discriminate]. destruct (u16_from_str b); [|discriminate].
  destruct (_ <=? _); discriminate.
Qed.

Lemma port_parse_wf s r : port_parse s = Ok r -> wf_port_range r = true.
Proof.
  unfold port_parse. destruct (u16_from_str s) eqn:E.
  - intros H. injection H as <-. cbn. apply N.ltb_lt. eapply u16_from_str_range; eassumption.
  - destruct (split_on _ s) as [|a [|b [|c l]]]; try discriminate.
    destruct (u16_from_str a) eqn:Ea; [|discriminate]. destruct (u16_from_str b) eqn:Eb; [|discriminate].
    destruct (N.leb_spec n0 n) as [L|L]; [discriminate|]. intros E0. injection E0 as <-. cbn.
    apply u16_from_str_range in Eb. apply andb_true_iff. split; [apply N.ltb_lt | apply N.ltb_lt]; lia.
Qed.

Definition ports_u16 (r : port_range) : Prop :=
  match r with Single p => p < U16 | Range a b => a < U16 /\ b < U16 end.

Lemma no_panic_port_validate_lemma r count : ports_u16 r -> port_validate r count <> Panic.
Proof.
  destruct r as [p|a b]; cbn [port_validate ports_u16].
  - intros _. destruct (count =? 1); discriminate.
  - intros [Ha Hb]. destruct (b <? a); [discriminate|].
    unfold add_w. destruct (N.ltb_spec (b - a + 1) U32) as [L|L].
    + cbn [bind]. destruct (count =? _); discriminate.
    + unfold U16, U32 in *. lia.
Qed.

Lemma no_panic_port_parse_validate_lemma s count :
  bind (port_parse s) (fun r => port_validate r count) <> Panic.
Proof.
  destruct (port_parse s) as [r| |] eqn:E; cbn [bind]; try discriminate.
  - apply no_panic_port_validate_lemma. apply port_parse_wf in E.
    destruct r as [p|a b]; cbn in *.
    + apply N.ltb_lt in E. exact E.
    + apply andb_true_iff in E. destruct E as [E1 E2]. apply N.ltb_lt in E1, E2. unfold U16 in *. lia.
  - exfalso. eapply no_panic_port_parse_lemma; eassumption.
Qed.

(* validate accepts exactly the matching count *)
Lemma port_validate_spec r count : wf_port_range r = true ->
  port_validate r count = Ok tt <->
  count = match r with Single _ => 1 | Range a b => b - a + 1 end.
Proof.
  destruct r as [p|a b]; cbn [port_validate wf_port_range]; intros W.
  - destruct (N.eqb_spec count 1); split; congruence.
  - apply andb_true_iff in W. destruct W as [W1 W2]. apply N.ltb_lt in W1, W2.
    destruct (N.ltb_spec b a); [lia|].
    unfold add_w. destruct (N.ltb_spec (b - a + 1) U32) as [L|L]; [|unfold U16, U32 in *; lia].
    cbn [bind]. destruct (N.eqb_spec count (b - a + 1)); split; congruence.
Qed.

Lemma port_validate_unfixed_refuted_lemma :
  port_parse "0-65535" = Ok (Range 0 65535) /\
  port_validate_unfixed Debug (Range 0 65535) 1 = Panic /\
  port_validate_unfixed Release (Range 0 65535) 0 = Ok tt.
Proof. repeat split; vm_compute; reflexivity. Qed.

Lemma dash_not_digit : is_digit "-"%char = false.
Proof. reflexivity. Qed.

Lemma port_format_parse_roundtrip_lemma r : wf_port_range r = true -> port_parse (port_format r) = Ok r.
Proof.
  destruct r as [p|a b]; cbn [wf_port_range port_format]; intros W.
  - apply N.ltb_lt in W. unfold port_parse. rewrite u16_from_str_dec by assumption. reflexivity.
  - apply andb_true_iff in W. destruct W as [W1 W2]. apply N.ltb_lt in W1, W2.
    unfold port_parse.
    rewrite u16_from_str_not_digits.
    + rewrite split_on_app by (apply dec_digits || reflexivity).
      rewrite (all_digits_no_dash _ (dec_digits b) _ dash_not_digit).
      rewrite !u16_from_str_dec by (unfold U16 in *; lia).
      destruct (N.leb_spec b a); [lia | reflexivity].
    + rewrite all_digits_app. cbn [all_digits]. rewrite dash_not_digit. cbn [andb].
      apply andb_false_r.
    + intros r E. pose proof (dec_nonempty a) as NE. pose proof (dec_digits a) as D.
      destruct (dec a) as [|c q]; [congruence|]. cbn [append] in E. injection E as -> _.
      cbn [all_digits] in D. discriminate D.
Qed.

(* ------------------------------------------------------------------ increment_port_option *)
Lemma no_panic_increment_port_lemma p : increment_port p <> Panic.
Proof. destruct p as [p|]; cbn [increment_port]; [destruct (_ <? _)|]; discriminate. Qed.

Lemma increment_port_spec p : p < U16 ->
  increment_port (Some p) = Ok (if p + 1 <? U16 then Some (p + 1) else None).
Proof. intros _. cbn [increment_port]. destruct (_ <? _); reflexivity. Qed.

Lemma increment_port_unfixed_refuted_lemma :
  increment_port_unfixed Debug (Some 65535) = Panic /\
  increment_port_unfixed Release (Some 65535) = Ok (Some 0).
Proof. split; vm_compute; reflexivity. Qed.

(* ------------------------------------------------------------------ amounts *)
Lemma no_panic_amount_lemma s : amount_from_str s <> Panic.
Proof. unfold amount_from_str. destruct (Amount.from_str s); discriminate. Qed.

(* ------------------------------------------------------------------ multiaddresses *)
Lemma no_panic_craft_from_str_lemma parse s ig : craft_from_str parse s ig <> Panic.
Proof. unfold craft_from_str. destruct (parse s) as [a|]; [destruct (craft a ig)|]; discriminate. Qed.

Lemma find_is {A} (f : A -> bool) l x : find f l = Some x -> f x = true.
Proof. intros H. apply find_some in H. tauto. Qed.

Lemma craft_wf_lemma a o : craft a false = Some o -> wf_addr o = true.
Proof.
  unfold craft.
  destruct (find is_ip4 a) as [ip|] eqn:Eip; [|discriminate]. apply find_is in Eip.
  destruct (find is_p2p a) as [pe|] eqn:Ep2p.
  2:{ destruct (find is_udp a), (find is_tcp a); discriminate. }
  apply find_is in Ep2p.
  destruct ip; try discriminate Eip. destruct pe; try discriminate Ep2p.
  destruct (find is_udp a) as [u|] eqn:Eu.
  - apply find_is in Eu. destruct u; try discriminate Eu.
    destruct (find is_quic a) as [q|] eqn:Eq.
    + apply find_is in Eq. destruct q; try discriminate Eq. intros H. injection H as <-. reflexivity.
    + intros H. injection H as <-. reflexivity.
  - destruct (find is_tcp a) as [t|] eqn:Et; [|discriminate].
    apply find_is in Et. destruct t; try discriminate Et.
    destruct (find is_ws a) as [w|] eqn:Ew.
    + apply find_is in Ew. destruct w; try discriminate Ew. intros H. injection H as <-. reflexivity.
    + intros H. injection H as <-. reflexivity.
Qed.

Lemma craft_fixpoint_lemma o : wf_addr o = true -> craft o false = Some o.
Proof.
  intros H.
  destruct o as [|[] [|[] [|[] [|[] [|? ?]]]]]; try discriminate H; reflexivity.
Qed.

(* ------------------------------------------------------------------ registry file, record bytes *)
Lemma no_panic_registry_load_lemma {A} (parse : string -> option A) f : registry_load parse f <> Panic.
Proof. destruct f as [| |[|c t]]; cbn [registry_load]; try discriminate. destruct (parse _); discriminate. Qed.

Lemma no_panic_header_from_record_lemma decode value : header_from_record decode value <> Panic.
Proof.
  unfold header_from_record. generalize HEADER_SIZE as hs. intros hs.
  destruct (N.ltb_spec (len value) (hs + 1)); [discriminate|].
  rewrite slice_to_ok by lia. cbn [bind]. destruct (decode _); discriminate.
Qed.

Lemma no_panic_record_payload_lemma value : record_payload value <> Panic.
Proof.
  unfold record_payload. generalize HEADER_SIZE as hs. intros hs.
  destruct (N.ltb_spec hs (len value)); [|discriminate]. rewrite slice_from_ok by lia. discriminate.
Qed.

(* ------------------------------------------------------------------ non-vacuity *)
Definition ex_meta : list N := repeat 7 32.
Definition ex_pk : list N := repeat 9 48.

Example wf_reg_addr_inhabited : wf_reg_addr (fun _ => true) {| ra_meta := ex_meta; ra_owner := ex_pk |}.
Proof. repeat split. Qed.

Example reg_roundtrip_example :
  reg_from_hex (fun _ => true) (reg_to_hex {| ra_meta := ex_meta; ra_owner := ex_pk |})
  = Ok {| ra_meta := ex_meta; ra_owner := ex_pk |}.
Proof. vm_compute. reflexivity. Qed.

Example reg_err_example : reg_from_hex (fun _ => true) "00" = Err 1.
Proof. vm_compute. reflexivity. Qed.

Example decrypt_roundtrip_premises_inhabited :
  let seal := fun (_ _ k : list N) => k ++ repeat 1 16 in
  let open_ := fun (_ _ c : list N) => Some (firstn (List.length c - 16) c) in
  let salt := repeat 3 (N.to_nat SALT) in let nonce := repeat 4 (N.to_nat NONCE) in
  let key := [48; 120; 195; 169] in
  decrypt open_ (encrypt seal salt nonce key) = Ok key.
Proof. vm_compute. reflexivity. Qed.

Example decrypt_short_is_err : decrypt (fun _ _ _ => None) "00" = Err 6.
Proof. vm_compute. reflexivity. Qed.

Example decrypt_non_utf8_is_err :
  decrypt (fun _ _ _ => Some [255]) "0000000000000000000000000000000000000000ff" = Err 5.
Proof. vm_compute. reflexivity. Qed.

Example port_examples :
  port_parse "80" = Ok (Single 80) /\ port_parse "+80" = Ok (Single 80) /\
  port_parse "12000-12005" = Ok (Range 12000 12005) /\ port_parse "5-5" = Err 3 /\
  port_parse "1-2-3" = Err 1 /\ port_parse "65536" = Err 1 /\ port_parse "" = Err 1 /\
  port_parse "0-65536" = Err 2 /\
  port_validate (Range 0 65535) 1 = Err 1 /\ port_validate (Range 12000 12005) 6 = Ok tt /\
  port_format (Range 12000 12005) = "12000-12005"%string.
Proof. vm_compute. repeat split; reflexivity. Qed.

Example increment_examples :
  increment_port (Some 65535) = Ok None /\ increment_port (Some 65534) = Ok (Some 65535) /\
  increment_port None = Ok None.
Proof. vm_compute. repeat split; reflexivity. Qed.

Example craft_examples :
  craft [Other "dns"; Ip4 1; Tcp 80; Udp 9; QuicV1; P2p "aa"; Ws "/"] false = Some [Ip4 1; Udp 9; QuicV1; P2p "aa"] /\
  craft [Ip4 1; Tcp 80; Ws "/"; P2p "aa"] false = Some [Ip4 1; Tcp 80; Ws "/"; P2p "aa"] /\
  craft [Ip4 1; Tcp 80] false = None /\ craft [Ip4 1; Tcp 80] true = Some [Ip4 1; Tcp 80] /\
  craft [Tcp 80; P2p "aa"] false = None /\ craft [Ip4 1; P2p "aa"] false = None.
Proof. vm_compute. repeat split; reflexivity. Qed.

Example utf8_examples :
  utf8_valid [104; 105] = true /\ utf8_valid [195; 169] = true /\ utf8_valid [255] = false /\
  utf8_valid [192; 128] = false /\ utf8_valid [237; 160; 128] = false /\ utf8_valid [240; 159; 146; 150] = true /\
  utf8_valid [244; 144; 128; 128] = false /\ utf8_valid [226; 130] = false.
Proof. vm_compute. repeat split; reflexivity. Qed.

Example header_examples :
  header_from_record (fun _ => Some 1) [145; 1] = Err 1 /\
  header_from_record (fun _ => Some 1) [145; 1; 0] = Ok 1 /\
  record_payload [145; 1] = Err 2 /\ record_payload [145; 1; 5] = Ok [5].
Proof. vm_compute. repeat split; reflexivity. Qed.

(* ------------------------------------------------------------------ str slicing *)
(* "0" ++ "é" ++ 63 zeros is 66 bytes long and byte 2 is inside the two-byte character: a parser that
   strips a 0x prefix by `&s[..2]` / `&s[2..]` panics on it, while the code's str_to_addr returns Err *)
Definition straddle66 : string := String "0" (of_codes ([195; 169] ++ repeat 48 63)).

Lemma str_slice_prefix_refuted_lemma :
  slen straddle66 = 66 /\ str_to_addr_prefix_tolerant straddle66 = Panic /\ str_to_addr straddle66 = Err 1.
Proof. repeat split; vm_compute; reflexivity. Qed.

Example str_slice_examples :
  str_slice "0xab" 0 2 = Ok "0x"%string /\ str_slice "0xab" 2 4 = Ok "ab"%string /\
  str_slice "0xab" 2 5 = Panic /\ str_slice "0xab" 3 2 = Panic /\
  str_slice (of_codes [48; 195; 169; 48]) 0 2 = Panic /\ str_slice (of_codes [48; 195; 169; 48]) 1 3 = Ok (of_codes [195; 169]) /\
  str_slice (of_codes [240; 159; 146; 150]) 0 3 = Panic /\ str_slice "" 0 0 = Ok ""%string.
Proof. vm_compute. repeat split; reflexivity. Qed.

(* ------------------------------------------------------------------ registry file: save then load *)
Lemma saves_last init texts t : saves init (texts ++ [t]) = Text t.
Proof. unfold saves. rewrite fold_left_app. reflexivity. Qed.

(* whatever was on the path before and however often it was saved: loading after a save returns what was
   saved last (premise: serde_json reads back what it printed; the printed text is never empty) *)
Lemma registry_save_load_lemma {A} (fmt : A -> string) (parse : string -> option A) init earlier r :
  parse (fmt r) = Some r -> fmt r <> EmptyString ->
  registry_load parse (saves init (map fmt earlier ++ [fmt r])) = Ok (RParsed r).
Proof.
  intros P NE. rewrite saves_last. cbn [registry_load].
  destruct (fmt r) eqn:E; [congruence|]. rewrite P. reflexivity.
Qed.

(* a write that does not truncate leaves the tail of the longer old content: the parser sees trailing
   characters (modelled by a parser that accepts exactly the two printed texts) *)
Lemma write_without_truncate_refuted_lemma :
  exists (parse : string -> option nat) old new_,
    parse old = Some 1%nat /\ parse new_ = Some 2%nat /\
    registry_load parse (file_write (Text old) new_) = Ok (RParsed 2%nat) /\
    registry_load parse (file_write_no_truncate (Text old) new_) = Err 2.
Proof.
  exists (fun s => if String.eqb s "{""nodes"":[1,2,3]}" then Some 1%nat
                   else if String.eqb s "{""nodes"":[]}" then Some 2%nat else None),
    "{""nodes"":[1,2,3]}"%string, "{""nodes"":[]}"%string.
  repeat split; vm_compute; reflexivity.
Qed.

Example saves_example :
  saves Absent ["long text"; "x"]%string = Text "x" /\ saves (Text "old") ["a"; "bb"; "c"]%string = Text "c" /\
  file_write_no_truncate (Text "long text") "x" = Text "xong text".
Proof. vm_compute. repeat split; reflexivity. Qed.

(* ------------------------------------------------------------------ consumers of a PortRange *)
Lemma In_range_from n : forall a i, In i (range_from n a) <-> a <= i < a + N.of_nat n.
Proof.
  induction n as [|n IH]; intros a i; cbn [range_from In]; [lia|].
  rewrite IH. lia.
Qed.

Lemma In_range_incl a b i : In i (range_incl a b) <-> a <= i <= b.
Proof.
  unfold range_incl. destruct (N.ltb_spec b a) as [L|L].
  - cbn. lia.
  - rewrite In_range_from. lia.
Qed.

Definition port_in_use (r : port_range) (used : list N) : Prop :=
  exists p, In p used /\ match r with Single q => p = q | Range a b => a <= p <= b end.

Lemma no_panic_check_port_availability_lemma r nodes : check_port_availability r nodes <> Panic.
Proof. destruct r; cbn [check_port_availability]; destruct (existsb _ _); discriminate. Qed.

(* refused exactly when a recorded port lies in the request -- for every range, also 0-65535, x-65535, a = b, b < a *)
Lemma check_port_availability_spec r nodes :
  check_port_availability r nodes = Err 1 <-> port_in_use r (all_ports nodes).
Proof.
  unfold port_in_use. destruct r as [q|a b]; cbn [check_port_availability].
  - destruct (existsb (N.eqb q) (all_ports nodes)) eqn:E.
    + apply existsb_exists in E. destruct E as (p & Hin & E). apply N.eqb_eq in E. subst. split; [eauto | reflexivity].
    + split; [discriminate|]. intros (p & Hin & ->). exfalso.
      assert (existsb (N.eqb q) (all_ports nodes) = true) by (apply existsb_exists; exists q; split; [exact Hin | apply N.eqb_refl]).
      congruence.
  - destruct (existsb _ (range_incl a b)) eqn:E.
    + apply existsb_exists in E. destruct E as (i & Hi & E). apply existsb_exists in E. destruct E as (p & Hin & E).
      apply N.eqb_eq in E. subst. apply In_range_incl in Hi. split; [eauto | reflexivity].
    + split; [discriminate|]. intros (p & Hin & Hr). exfalso.
      assert (existsb (fun i => existsb (N.eqb i) (all_ports nodes)) (range_incl a b) = true).
      { apply existsb_exists. exists p. split; [apply In_range_incl; exact Hr|].
        apply existsb_exists. exists p. split; [exact Hin | apply N.eqb_refl]. }
      congruence.
Qed.

Lemma check_port_availability_ok r nodes :
  check_port_availability r nodes = Ok tt <-> ~ port_in_use r (all_ports nodes).
Proof.
  rewrite <- check_port_availability_spec. destruct r; cbn [check_port_availability]; destruct (existsb _ _);
    split; intros H; try discriminate; try reflexivity; try congruence; exfalso; apply H; reflexivity.
Qed.

(* `start..end + 1` in u16: the debug build panics, the release build sees an empty range and misses the conflict *)
Lemma port_availability_exclusive_refuted_lemma :
  check_port_availability_exclusive Debug (Range 65530 65535) [(None, None, 65531)] = Panic /\
  check_port_availability_exclusive Release (Range 65530 65535) [(None, None, 65531)] = Ok tt /\
  check_port_availability (Range 65530 65535) [(None, None, 65531)] = Err 1.
Proof. repeat split; vm_compute; reflexivity. Qed.

Example port_availability_examples :
  check_port_availability (Range 0 65535) [(Some 13000, None, 8081)] = Err 1 /\
  check_port_availability (Range 0 65535) [] = Ok tt /\
  check_port_availability (Range 12000 12005) [(Some 12006, Some 11999, 8081)] = Ok tt /\
  check_port_availability (Range 12000 12005) [(None, Some 12005, 8081)] = Err 1 /\
  check_port_availability (Range 7 7) [(None, Some 7, 1)] = Err 1 /\
  check_port_availability (Range 9 7) [(None, Some 8, 1)] = Ok tt /\
  check_port_availability (Single 65535) [(None, None, 65535)] = Err 1 /\
  start_port (Some (Range 5 9)) = Some 5.
Proof. vm_compute. repeat split; reflexivity. Qed.

(* ------------------------------------------------------------------ try_deserialize_record *)
Lemma no_panic_try_deserialize_record_lemma {A} (decode : list N -> option A) value :
  try_deserialize_record decode value <> Panic.
Proof.
  unfold try_deserialize_record. destruct (record_payload value) eqn:E; cbn [bind]; try discriminate.
  - destruct (decode v); discriminate.
  - exfalso. eapply no_panic_record_payload_lemma. exact E.
Qed.

(* a value that holds nothing beyond the header is refused *)
Lemma try_deserialize_record_short {A} (decode : list N -> option A) value :
  len value <= HEADER_SIZE -> try_deserialize_record decode value = Err 2.
Proof.
  intros H. unfold try_deserialize_record, record_payload.
  destruct (N.ltb_spec HEADER_SIZE (len value)); [lia | reflexivity].
Qed.

Lemma payload_slice_first_refuted_lemma :
  (forall (decode : list N -> option unit), try_deserialize_record_slice_first decode [] = Panic) /\
  (forall (decode : list N -> option unit), try_deserialize_record_slice_first decode [145] = Panic) /\
  (forall (decode : list N -> option unit), try_deserialize_record decode [145] = Err 2).
Proof. repeat split; intros; vm_compute; reflexivity. Qed.
