(* The outcome of one delivery processed serially: it writes nothing, or exactly one record -- the one
   the upload carried, under the key its content determines, and for a stated reason. C03, C04 and
   C07 are all derived from this one case analysis of validate_and_store_record /
   store_replicated_in_record. *)
From Coq Require Import List NArith ZArith Bool Lia.
From V Require Import lib.Strs gen.Consts model.PutValidation proofs.PutValidation.
Import ListNotations.
Open Scope N_scope.

Arguments puts_of : simpl never.
Lemma puts_of_app a b : puts_of (a ++ b) = puts_of a ++ puts_of b.
Proof. unfold puts_of. apply flat_map_app. Qed.

Lemma in_puts_of k v es : In (EPut k v) es <-> In (k, v) (puts_of es).
Proof.
  unfold puts_of. rewrite in_flat_map. split.
  - intros H. exists (EPut k v). split; [assumption | left; reflexivity].
  - intros (x & Hx & Hin). destruct x; cbn in Hin; try contradiction. destruct Hin as [[= -> ->]|[]]. assumption.
Qed.

Definition is_pad_v v := match v with SPad _ => True | _ => False end.
Definition is_reg_v v := match v with SReg _ => True | _ => False end.
Definition is_txs_v v := match v with STxs _ => True | _ => False end.

(* why a delivery was allowed to write [v] under [k] *)
Definition authorised (e : env) (st : store) (d : delivery) (k : name) (v : stored) : Prop :=
  match d_path d with
  | PRepl => True
  | PClient =>
      match u_proof (d_up d) with
      | Some p => payment_ok e k p (u_chain (d_up d)) = true \/
                  (listed st k = true /\ (is_txs_v v \/ is_reg_v v))
      | None => listed st k = true /\ (is_pad_v v \/ is_reg_v v)
      end
  end.

(* what was written is what the upload carried, under the key its content determines *)
Definition content_ok (st : store) (b : body) (k : name) (v : stored) : Prop :=
  match b, v with
  | BChunk c, SChunk c' => c' = c /\ k = chunk_key c /\ listed st k = false
  | BPad p, SPad p' => p' = p /\ pad_accepts st p k = true
  | BTx t, STxs _ => txs_write st [t] k = Some v
  | BTxs l, STxs _ => txs_write st l k = Some v
  | BReg r, SReg _ => reg_write st r = Some v /\ k = reg_k r
  | _, _ => False
  end.

Definition outcome (e : env) (st : store) (d : delivery) (x : res unit * store * list effect) : Prop :=
  let '(r, st', es) := x in
  (puts_of es = [] /\ st' = st) \/
  (exists k v, puts_of es = [(k, v)] /\ st' = put st k v /\ r = Ok tt /\ u_key (d_up d) = k /\
               content_ok st (u_body (d_up d)) k v /\ authorised e st d k v).

Ltac pay_step e a p c st :=
  let H := fresh "Hpay" in
  pose proof (run_payment_for_us e a p c st) as H;
  destruct (run st (payment_for_us e a p c)) as [[?r ?st] ?es];
  destruct H as (-> & ? & ?).

Ltac none := left; split; reflexivity.

Lemma client_outcome e st u : outcome e st {| d_path := PClient; d_up := u |} (run st (client_put e u)).
Proof.
  unfold outcome, client_put, authorised. cbn [d_path d_up].
  destruct (u_hdr u) as [[]|] eqn:Eh; try (cbn; none).
  - (* ChunkWithPayment *)
    unfold de_paid. destruct (u_proof u) as [p|] eqn:Ep; [|cbn; none].
    destruct (u_body u) eqn:Eb; cbn [as_chunk liftE]; try (cbn; none).
    unfold bindE. rewrite run_bind, run_validate_key.
    destruct (name_eqb (u_key u) (chunk_key c)) eqn:Ek; [|cbn; none].
    apply name_eqb_eq in Ek.
    rewrite run_bind. pay_step e (chunk_key c) p (u_chain u) st.
    destruct (listed st (chunk_key c)) eqn:El.
    + cbn. rewrite puts_of_app, H. none.
    + destruct r as [[]|x]; cbn [liftE].
      * rewrite run_bind. cbn. rewrite puts_of_app, H. right.
        exists (chunk_key c), (SChunk c). repeat split; try assumption; try reflexivity. left. assumption.
      * cbn. rewrite app_nil_r, H. none.
  - (* TransactionWithPayment *)
    unfold de_paid. destruct (u_proof u) as [p|] eqn:Ep; [|cbn; none].
    destruct (u_body u) as [| | |t| |] eqn:Eb; cbn [as_tx liftE]; try (cbn; none).
    destruct (name_eqb (u_key u) (owner_key (t_owner t))) eqn:Ek; cbn [negb]; [|cbn; none].
    apply name_eqb_eq in Ek.
    unfold bindE. rewrite run_bind, run_validate_key, name_eqb_refl.
    rewrite run_bind. pay_step e (owner_key (t_owner t)) p (u_chain u) st.
    assert (Hauth : forall r', match r with Err x => if listed st (owner_key (t_owner t)) then Ok tt else Err x | Ok _ => Ok tt end = Ok r' ->
       payment_ok e (u_key u) p (u_chain u) = true \/ listed st (u_key u) = true).
    { intros r'. rewrite Ek. destruct r; [intros _; left; assumption|].
      destruct (listed st (owner_key (t_owner t))); [intros _; right; reflexivity | discriminate]. }
    destruct (match r with Err x => _ | Ok _ => _ end) as [[]|x] eqn:Er; cbn [liftE].
    2:{ cbn. rewrite app_nil_r, H. none. }
    specialize (Hauth tt eq_refl).
    rewrite run_bind. pose proof (run_store_txs st [t] (owner_key (t_owner t))) as Htx.
    destruct (txs_write st [t] (owner_key (t_owner t))) as [v|] eqn:Ew.
    + rewrite Htx. cbn. rewrite puts_of_app, H. right. exists (u_key u), v. rewrite Ek.
      assert (is_txs_v v) by (unfold txs_write in Ew; destruct (txs_validated _ _); [discriminate|];
        destruct (get st _) as [[]|]; inversion Ew; exact I).
      repeat split; try assumption; try reflexivity.
      * destruct v; try contradiction. assumption.
      * rewrite Ek in Hauth. destruct Hauth; [left; assumption | right; split; [assumption | left; assumption]].
    + destruct Htx as [r' Htx]. rewrite Htx. destruct r' as [[]|]; cbn; rewrite ?app_nil_r, ?puts_of_app, H; none.
  - (* Register, unpaid *)
    unfold de_plain. destruct (u_proof u) as [p|] eqn:Ep; [cbn; none|].
    destruct (u_body u) as [| | | | |rg] eqn:Eb; cbn [as_reg liftE]; try (cbn; none).
    rewrite flag_register_key. cbn [andb].
    fold (reg_k rg).
    destruct (name_eqb (u_key u) (reg_k rg)) eqn:Ek; cbn [negb]; [|cbn; none].
    apply name_eqb_eq in Ek.
    unfold bindE. rewrite run_bind, run_validate_key, name_eqb_refl.
    destruct (listed st (reg_k rg)) eqn:El; cbn [negb]; [|cbn; none].
    rewrite run_bind. pose proof (run_store_register st rg true) as Hr.
    destruct (reg_write st rg) as [v|] eqn:Ew.
    + rewrite Hr. cbn. right. exists (u_key u), v. rewrite Ek.
      assert (is_reg_v v) by (unfold reg_write in Ew; destruct (negb (reg_verify rg)); [discriminate|];
        destruct (negb (listed st (reg_k rg))); [inversion Ew; exact I|];
        destruct (get st _) as [[]|]; try discriminate;
        destruct (negb (mergeable _ _)); [discriminate|]; destruct (subset _ _ _); inversion Ew; exact I).
      repeat split; try assumption; try reflexivity.
      * destruct v; try contradiction. split; [assumption | reflexivity].
      * right. assumption.
    + destruct Hr as [x Hr]. rewrite Hr. destruct x as [[]|]; cbn; none.
  - (* RegisterWithPayment *)
    unfold de_paid. destruct (u_proof u) as [p|] eqn:Ep; [|cbn; none].
    destruct (u_body u) as [| | | | |rg] eqn:Eb; cbn [as_reg liftE]; try (cbn; none).
    fold (reg_k rg).
    destruct (name_eqb (u_key u) (reg_k rg)) eqn:Ek; cbn [negb]; [|cbn; none].
    apply name_eqb_eq in Ek.
    unfold bindE. rewrite run_bind, run_validate_key, name_eqb_refl.
    rewrite run_bind. pay_step e (reg_k rg) p (u_chain u) st.
    assert (Hauth : forall r', match r with Err x => if listed st (reg_k rg) then Ok tt else Err x | Ok _ => Ok tt end = Ok r' ->
       payment_ok e (u_key u) p (u_chain u) = true \/ listed st (u_key u) = true).
    { intros r'. rewrite Ek. destruct r; [intros _; left; assumption|].
      destruct (listed st (reg_k rg)); [intros _; right; reflexivity | discriminate]. }
    destruct (match r with Err x => _ | Ok _ => _ end) as [[]|x] eqn:Er; cbn [liftE].
    2:{ cbn. rewrite app_nil_r, H. none. }
    specialize (Hauth tt eq_refl).
    rewrite run_bind. pose proof (run_store_register st rg true) as Hr.
    destruct (reg_write st rg) as [v|] eqn:Ew.
    + rewrite Hr. cbn. rewrite puts_of_app, H. right. exists (u_key u), v. rewrite Ek.
      assert (is_reg_v v) by (unfold reg_write in Ew; destruct (negb (reg_verify rg)); [discriminate|];
        destruct (negb (listed st (reg_k rg))); [inversion Ew; exact I|];
        destruct (get st _) as [[]|]; try discriminate;
        destruct (negb (mergeable _ _)); [discriminate|]; destruct (subset _ _ _); inversion Ew; exact I).
      repeat split; try assumption; try reflexivity.
      * destruct v; try contradiction. split; [assumption | reflexivity].
      * rewrite Ek in Hauth. destruct Hauth; [left; assumption | right; split; [assumption | right; assumption]].
    + destruct Hr as [x Hr]. rewrite Hr. destruct x as [[]|]; cbn; rewrite ?app_nil_r, ?puts_of_app, H; none.
  - (* Scratchpad, unpaid *)
    unfold de_plain. destruct (u_proof u) as [p|] eqn:Ep; [cbn; none|].
    destruct (u_body u) as [| |pd| | |] eqn:Eb; cbn [as_pad liftE]; try (cbn; none).
    unfold bindE. rewrite run_bind, run_validate_key.
    destruct (name_eqb (u_key u) (owner_key (p_owner pd))) eqn:Ek; [|cbn; none].
    apply name_eqb_eq in Ek.
    destruct (listed st (owner_key (p_owner pd))) eqn:El; cbn [negb]; [|cbn; none].
    destruct (run_store_pad st pd (u_key u) false) as [[Hacc Hrun]|[Hacc [x Hrun]]]; rewrite Hrun.
    + right. exists (u_key u), (SPad pd). cbn.
      repeat split; try assumption; try reflexivity. rewrite Ek. assumption. left. exact I.
    + none.
  - (* ScratchpadWithPayment *)
    unfold de_paid. destruct (u_proof u) as [p|] eqn:Ep; [|cbn; none].
    destruct (u_body u) as [| |pd| | |] eqn:Eb; cbn [as_pad liftE]; try (cbn; none).
    unfold bindE. rewrite run_bind, run_validate_key.
    destruct (name_eqb (u_key u) (owner_key (p_owner pd))) eqn:Ek; [|cbn; none].
    apply name_eqb_eq in Ek.
    rewrite run_bind. pay_step e (owner_key (p_owner pd)) p (u_chain u) st.
    destruct r as [[]|x].
    2:{ cbn. rewrite app_nil_r, H. none. }
    rewrite run_bind.
    destruct (run_store_pad st pd (u_key u) true) as [[Hacc Hrun]|[Hacc [x Hrun]]]; rewrite Hrun.
    + cbn. rewrite puts_of_app, H. right. exists (u_key u), (SPad pd).
      repeat split; try assumption; try reflexivity. left. rewrite Ek. assumption.
    + destruct x; cbn; rewrite ?app_nil_r, ?puts_of_app, H; none.
Qed.

Lemma repl_outcome e st u : outcome e st {| d_path := PRepl; d_up := u |} (run st (repl_put u)).
Proof.
  unfold outcome, repl_put, authorised. cbn [d_path d_up].
  destruct (u_hdr u) as [[]|] eqn:Eh; try (cbn; none).
  - (* Chunk *)
    unfold de_plain. destruct (u_proof u) as [p|] eqn:Ep; [cbn; none|].
    destruct (u_body u) eqn:Eb; cbn [as_chunk liftE]; try (cbn; none).
    unfold bindE. rewrite run_bind, run_validate_key.
    destruct (name_eqb (u_key u) (chunk_key c)) eqn:Ek; [|cbn; none].
    apply name_eqb_eq in Ek.
    destruct (listed st (chunk_key c)) eqn:El; [cbn; none|].
    cbn. right. exists (chunk_key c), (SChunk c). repeat split; try assumption; reflexivity.
  - (* Transaction *)
    unfold de_plain. destruct (u_proof u) as [p|] eqn:Ep; [cbn; none|].
    destruct (u_body u) as [| | | |l|] eqn:Eb; cbn [as_txs liftE]; try (cbn; none).
    pose proof (run_store_txs st l (u_key u)) as Htx.
    destruct (txs_write st l (u_key u)) as [v|] eqn:Ew.
    + rewrite Htx. right. exists (u_key u), v.
      assert (is_txs_v v) by (unfold txs_write in Ew; destruct (txs_validated _ _); [discriminate|];
        destruct (get st _) as [[]|]; inversion Ew; exact I).
      repeat split; try reflexivity. destruct v; try contradiction. assumption.
    + destruct Htx as [r' Htx]. rewrite Htx. none.
  - (* Register *)
    unfold de_plain. destruct (u_proof u) as [p|] eqn:Ep; [cbn; none|].
    destruct (u_body u) as [| | | | |rg] eqn:Eb; cbn [as_reg liftE]; try (cbn; none).
    fold (reg_k rg).
    destruct (name_eqb (u_key u) (reg_k rg)) eqn:Ek; cbn [negb]; [|cbn; none].
    apply name_eqb_eq in Ek.
    pose proof (run_store_register st rg false) as Hr.
    destruct (reg_write st rg) as [v|] eqn:Ew.
    + rewrite Hr. right. exists (u_key u), v. rewrite Ek.
      assert (is_reg_v v) by (unfold reg_write in Ew; destruct (negb (reg_verify rg)); [discriminate|];
        destruct (negb (listed st (reg_k rg))); [inversion Ew; exact I|];
        destruct (get st _) as [[]|]; try discriminate;
        destruct (negb (mergeable _ _)); [discriminate|]; destruct (subset _ _ _); inversion Ew; exact I).
      repeat split; try reflexivity. destruct v; try contradiction. split; [assumption | reflexivity].
    + destruct Hr as [x Hr]. rewrite Hr. none.
  - (* Scratchpad *)
    unfold de_plain. destruct (u_proof u) as [p|] eqn:Ep; [cbn; none|].
    destruct (u_body u) as [| |pd| | |] eqn:Eb; cbn [as_pad liftE]; try (cbn; none).
    destruct (run_store_pad st pd (u_key u) false) as [[Hacc Hrun]|[Hacc [x Hrun]]]; rewrite Hrun.
    + right. exists (u_key u), (SPad pd). repeat split; try assumption; reflexivity.
    + none.
Qed.

Lemma deliver_outcome e st d : outcome e st d (run st (deliver e d)).
Proof.
  destruct d as [[] u]; unfold deliver; cbn [d_path d_up]; [apply client_outcome | apply repl_outcome].
Qed.
