(* Proofs about the payment-quote model (C13). *)
From Coq Require Import List NArith ZArith Bool Lia Arith ZifyBool ZifyNat ZifyN.
From V Require Import lib.Strs lib.Serde lib.Msgpack lib.SymSig gen.Consts model.Quote proofs.Msgpack.
Import ListNotations.
Open Scope N_scope.
Ltac Zify.zify_post_hook ::= Z.div_mod_to_equations.

(* ---------------------------------------------------------------- constants *)
Lemma quote_constants_ok : Consts.quote_expiration_secs = 3600 /\ Consts.live_time_margin = 10.
Proof. split; reflexivity. Qed.

(* ---------------------------------------------------------------- lists *)
Lemma app_inv_len {A} (a b c d : list A) :
  a ++ b = c ++ d -> length a = length c -> a = c /\ b = d.
Proof.
  revert c. induction a as [|x a IH]; intros [|y c] E L; cbn in *; try discriminate; [auto|].
  injection E as -> E. injection L as L. destruct (IH c E L) as [-> ->]. auto.
Qed.

Lemma len_eq_length {A} (l : list A) n : (len l =? N.of_nat n) = true -> length l = n.
Proof. unfold len. intros H. apply N.eqb_eq in H. lia. Qed.

Lemma le_bytes_inj k a b :
  a < 256 ^ N.of_nat k -> b < 256 ^ N.of_nat k -> le_bytes k a = le_bytes k b -> a = b.
Proof. intros Ha Hb E. rewrite <- (le_val_le_bytes k a Ha), <- (le_val_le_bytes k b Hb), E. reflexivity. Qed.

Lemma map_VU_inj w a b : map (VU w) a = map (VU w) b -> a = b.
Proof.
  revert b. induction a as [|x a IH]; intros [|y b] E; cbn in E; try discriminate; [reflexivity|].
  injection E as -> E. f_equal. auto.
Qed.

(* ---------------------------------------------------------------- the metrics tree *)
Lemma metrics_tree_inj m1 m2 : metrics_tree m1 = metrics_tree m2 -> m1 = m2.
Proof.
  destruct m1 as [a1 b1 c1 d1 e1 f1], m2 as [a2 b2 c2 d2 e2 f2]. unfold metrics_tree. cbn.
  intros E. injection E as -> -> -> -> E1 E2.
  assert (e1 = e2) as ->.
  { destruct e1, e2; try discriminate; [|reflexivity]. injection E1 as E1. apply map_VU_inj in E1. now subst. }
  assert (f1 = f2) as ->.
  { destruct f1, f2; try discriminate; [|reflexivity]. injection E2 as ->. reflexivity. }
  reflexivity.
Qed.

Lemma density_shape d n :
  length d = n -> all2b (map has_shape (repeat (SU W8) n)) (map (VU W8) d) = true.
Proof.
  revert n. induction d as [|x d IH]; intros [|n] H; cbn in *; try discriminate; [reflexivity|].
  apply IH. lia.
Qed.

Lemma density_wf d : wf_bytes d = true -> forallb wf (map (VU W8) d) = true.
Proof.
  induction d as [|x d IH]; cbn [map forallb wf_bytes]; [reflexivity|].
  intros H. apply andb_prop in H as [H1 H2]. fold (wf_bytes d) in H2. rewrite IH by exact H2.
  cbn [wf]. unfold in_u, is_byte in *. cbn [iw_bits]. change (2 ^ 8) with 256. rewrite H1. reflexivity.
Qed.

Lemma starts_nil_uint w n : starts_nil (VU w n) = false.
Proof.
  unfold starts_nil. cbn [mp_encode]. unfold enc_uint.
  destruct (n <? 128) eqn:E1; [apply N.ltb_lt in E1; apply N.eqb_neq; lia|].
  destruct (n <? 256); [reflexivity|]. destruct (n <? 65536); [reflexivity|].
  destruct (n <? 4294967296); reflexivity.
Qed.

Lemma wf_density d : len d = 32 -> wf_bytes d = true -> wf (VSome (VTuple (map (VU W8) d))) = true.
Proof.
  intros L B. cbn [wf]. rewrite density_wf by exact B.
  assert (L' : len (map (VU W8) d) = 32) by (unfold len in *; now rewrite map_length).
  rewrite L'. unfold starts_nil. cbn [mp_encode]. rewrite L'. reflexivity.
Qed.

Lemma wf_size n : n < 2 ^ 64 -> wf (VSome (VU W64 n)) = true.
Proof.
  intros H. cbn [wf]. rewrite starts_nil_uint. unfold in_u. cbn [iw_bits].
  apply N.ltb_lt in H. rewrite H. reflexivity.
Qed.

Lemma metrics_tree_shape m : wf_metrics m = true ->
  has_shape shape_metrics (metrics_tree m) = true /\ wf (metrics_tree m) = true.
Proof.
  destruct m as [a b c d e f]. unfold wf_metrics, metrics_tree, shape_metrics.
  cbn [close_records_stored max_records received_payment_count live_time network_density network_size].
  intros H. repeat (apply andb_prop in H as [H ?]).
  assert (He : has_shape (SOption (STuple (repeat (SU W8) 32)))
                 match e with Some d0 => VSome (VTuple (map (VU W8) d0)) | None => VNone end = true
               /\ wf match e with Some d0 => VSome (VTuple (map (VU W8) d0)) | None => VNone end = true).
  { destruct e as [dn|]; [|split; reflexivity].
    apply andb_prop in H1 as [L B]. apply N.eqb_eq in L. split.
    - cbn [has_shape]. apply density_shape. unfold len in L. lia.
    - now apply wf_density. }
  assert (Hf : has_shape (SOption (SU W64)) match f with Some n => VSome (VU W64 n) | None => VNone end = true
               /\ wf match f with Some n => VSome (VU W64 n) | None => VNone end = true).
  { destruct f as [sz|]; [|split; reflexivity]. split; [reflexivity|]. apply wf_size. now apply N.ltb_lt. }
  destruct He as [He1 He2], Hf as [Hf1 Hf2].
  remember (match e with Some d0 => VSome (VTuple (map (VU W8) d0)) | None => VNone end) as ve.
  remember (match f with Some n => VSome (VU W64 n) | None => VNone end) as vf.
  remember (SOption (STuple (repeat (SU W8) 32))) as se.
  remember (SOption (SU W64)) as sf.
  split.
  - cbn [has_shape map all2b iw_eqb]. rewrite He1, Hf1. reflexivity.
  - cbn [wf forallb]. unfold in_u. cbn [iw_bits]. rewrite H, H2, H3, H4, He2, Hf2. reflexivity.
Qed.

(* ---------------------------------------------------------------- the signed bytes *)
Lemma wf_quote_parts q : wf_quote q = true ->
  length (content q) = 32%nat /\ secs (timestamp q) < 2 ^ 64 /\ wf_metrics (qmetrics q) = true /\
  length (rewards_address q) = 20%nat.
Proof.
  unfold wf_quote. intros H. repeat (apply andb_prop in H as [H ?]).
  apply N.eqb_eq in H, H0. apply N.ltb_lt in H2. unfold len in *. repeat split; try assumption; lia.
Qed.

(* the signed string determines the signed fields, even when other data follows it *)
Lemma signing_bytes_prefix_free q1 q2 r1 r2 :
  wf_quote q1 = true -> wf_quote q2 = true ->
  bytes_for_signing q1 ++ r1 = bytes_for_signing q2 ++ r2 ->
  signed_fields q1 = signed_fields q2 /\ r1 = r2.
Proof.
  intros W1 W2 E.
  destruct (wf_quote_parts _ W1) as (Lc1 & Ts1 & Wm1 & La1).
  destruct (wf_quote_parts _ W2) as (Lc2 & Ts2 & Wm2 & La2).
  unfold bytes_for_signing in E. rewrite <- !app_assoc in E.
  apply app_inv_len in E as [Ec E]; [|congruence].
  apply app_inv_len in E as [Et E]; [|now rewrite !le_bytes_length].
  apply le_bytes_inj in Et; [|exact Ts1|exact Ts2].
  destruct (metrics_tree_shape _ Wm1) as [S1 F1]. destruct (metrics_tree_shape _ Wm2) as [S2 F2].
  apply (mp_encode_prefix_free shape_metrics) in E as [Em E]; try assumption.
  apply metrics_tree_inj in Em.
  apply app_inv_len in E as [Ea E]; [|congruence].
  unfold signed_fields. rewrite Ec, Et, Em, Ea. auto.
Qed.

Lemma signing_bytes_injective_lemma q1 q2 :
  wf_quote q1 = true -> wf_quote q2 = true ->
  bytes_for_signing q1 = bytes_for_signing q2 -> signed_fields q1 = signed_fields q2.
Proof.
  intros W1 W2 E. apply (signing_bytes_prefix_free q1 q2 [] []); try assumption. now rewrite E.
Qed.

Lemma signing_bytes_determined q1 q2 :
  signed_fields q1 = signed_fields q2 -> bytes_for_signing q1 = bytes_for_signing q2.
Proof. unfold signed_fields, bytes_for_signing. intros E. injection E as -> -> -> ->. reflexivity. Qed.

(* the hashed string covers the signed fields and the key/signature bytes *)
Lemma hash_preimage_covers q1 q2 :
  wf_quote q1 = true -> wf_quote q2 = true -> hash_preimage q1 = hash_preimage q2 ->
  signed_fields q1 = signed_fields q2 /\ pub_key q1 ++ signature q1 = pub_key q2 ++ signature q2.
Proof. intros W1 W2 E. now apply signing_bytes_prefix_free. Qed.

(* ---------------------------------------------------------------- signatures *)
Lemma sig_verify_iff pk m s : sig_verify pk m s = true <-> s = Sig pk m.
Proof.
  destruct s as [pk' m'|n]; cbn [sig_verify]; split; intros H; try discriminate.
  - apply andb_prop in H as [H1 H2]. apply N.eqb_eq in H1. apply list_eqb_eq in H2. now subst.
  - injection H as -> ->. now rewrite N.eqb_refl, list_eqb_refl.
Qed.

Lemma check_signed_iff_lemma K q p :
  check_signed K q p = true <->
  exists pk, decode_pk K (pub_key q) = Some pk /\ peer_of K pk = p /\
             interp K (signature q) = Sig pk (bytes_for_signing q).
Proof.
  unfold check_signed. split.
  - destruct (decode_pk K (pub_key q)) as [pk|]; [|discriminate].
    destruct (bytes_eqb (peer_of K pk) p) eqn:E; cbn [negb]; [|discriminate].
    intros H. apply sig_verify_iff in H. apply list_eqb_eq in E. eauto.
  - intros (pk & -> & <- & H). rewrite list_eqb_refl. cbn [negb]. now apply sig_verify_iff.
Qed.

(* a verifying quote stops verifying (for every claimed identity) as soon as a signed field or
   the key changes while the signature stays *)
Lemma any_field_mutation_fails_lemma K q q' p p' :
  wf_quote q = true -> wf_quote q' = true ->
  check_signed K q p = true -> signature q' = signature q ->
  (signed_fields q' <> signed_fields q \/ decode_pk K (pub_key q') <> decode_pk K (pub_key q)) ->
  check_signed K q' p' = false.
Proof.
  intros W W' C S D. apply check_signed_iff_lemma in C as (pk & Hd & Hp & Hs).
  destruct (check_signed K q' p') eqn:C'; [|reflexivity]. exfalso.
  apply check_signed_iff_lemma in C' as (pk' & Hd' & Hp' & Hs').
  rewrite S, Hs in Hs'. injection Hs' as Epk Eb. subst pk'.
  destruct D as [D|D].
  - apply D. symmetry. now apply signing_bytes_injective_lemma.
  - apply D. congruence.
Qed.

Lemma claimed_identity_mutation_fails_lemma K q p p' :
  check_signed K q p = true -> p' <> p -> check_signed K q p' = false.
Proof.
  intros C D. apply check_signed_iff_lemma in C as (pk & Hd & Hp & Hs).
  destruct (check_signed K q p') eqn:C'; [|reflexivity]. exfalso.
  apply check_signed_iff_lemma in C' as (pk' & Hd' & Hp' & Hs'). congruence.
Qed.

Lemma signature_mutation_fails_lemma K q q' p p' :
  check_signed K q p = true -> pub_key q' = pub_key q -> signed_fields q' = signed_fields q ->
  interp K (signature q') <> interp K (signature q) -> check_signed K q' p' = false.
Proof.
  intros C Ek Ef D. apply check_signed_iff_lemma in C as (pk & Hd & Hp & Hs).
  destruct (check_signed K q' p') eqn:C'; [|reflexivity]. exfalso.
  apply check_signed_iff_lemma in C' as (pk' & Hd' & Hp' & Hs').
  rewrite Ek, Hd in Hd'. injection Hd' as <-.
  apply D. rewrite Hs, Hs'. f_equal. now apply signing_bytes_determined.
Qed.

(* ---------------------------------------------------------------- proofs of payment *)
Lemma payees_in K (p : proof) pe :
  In pe (payees K p) <-> exists e q, In (e, q) p /\ parse_peer K e = Some pe.
Proof.
  induction p as [|[e q] p IH]; cbn [payees].
  - split; [intros []|intros (e & q & [] & _)].
  - destruct (parse_peer K e) as [pe'|] eqn:E.
    + cbn [In]. rewrite IH. split.
      * intros [<-|(e' & q' & Hin & Hp)]; [exists e, q; cbn; auto|exists e', q'; cbn; auto].
      * intros (e' & q' & [Heq|Hin] & Hp); [injection Heq as <- <-; left; congruence|right; eauto].
    + rewrite IH. split.
      * intros (e' & q' & Hin & Hp). exists e', q'. cbn. auto.
      * intros (e' & q' & [Heq|Hin] & Hp); [injection Heq as <- <-; congruence|eauto].
Qed.

Lemma existsb_bytes me l : existsb (bytes_eqb me) l = true <-> In me l.
Proof.
  rewrite existsb_exists. split.
  - intros (x & Hin & E). apply list_eqb_eq in E. now subst.
  - intros H. exists me. split; [assumption|apply list_eqb_refl].
Qed.

Lemma verify_for_iff_lemma K (p : proof) me :
  verify_for K p me = true <->
  In me (payees K p) /\
  forall e q, In (e, q) p -> exists pe, parse_peer K e = Some pe /\ check_signed K q pe = true.
Proof.
  unfold verify_for. destruct (existsb (bytes_eqb me) (payees K p)) eqn:E; cbn [negb].
  - apply existsb_bytes in E. rewrite forallb_forall. split.
    + intros H. split; [assumption|]. intros e q Hin. specialize (H (e, q) Hin). cbn [fst snd] in H.
      destruct (parse_peer K e) as [pe|]; [eauto|discriminate].
    + intros [_ H] [e q] Hin. cbn [fst snd]. destruct (H e q Hin) as (pe & -> & C). exact C.
  - split; [discriminate|]. intros [H _]. apply existsb_bytes in H. congruence.
Qed.

(* ---------------------------------------------------------------- expiry *)
Lemma secs_le_iff d k : secs d <= k <-> d < (k + 1) * NS.
Proof. unfold secs, NS. split; intros H; lia. Qed.

Lemma expired_iff_lemma now q :
  has_expired now q = false <->
  timestamp q <= now /\ now - timestamp q < (Consts.quote_expiration_secs + 1) * NS.
Proof.
  unfold has_expired. destruct (N.ltb_spec now (timestamp q)) as [H|H].
  - split; [discriminate|]. intros [H1 _]. lia.
  - rewrite N.ltb_ge, secs_le_iff. split; [intros H1; split; assumption|intros [_ H1]; assumption].
Qed.

Lemma expired_true_iff_lemma now q :
  has_expired now q = true <->
  now < timestamp q \/ Consts.quote_expiration_secs < secs (now - timestamp q).
Proof.
  unfold has_expired. destruct (N.ltb_spec now (timestamp q)) as [H|H].
  - split; auto.
  - rewrite N.ltb_lt. split; [auto|]. intros [H1|H1]; [lia|assumption].
Qed.

(* ---------------------------------------------------------------- historical consistency *)
Lemma historical_flags_regression_lemma now1 now2 a b :
  timestamp a < timestamp b ->
  live_time (qmetrics b) < live_time (qmetrics a) \/
  received_payment_count (qmetrics b) < received_payment_count (qmetrics a) ->
  historical_verify now1 now2 a b = false /\ historical_verify now1 now2 b a = false.
Proof.
  intros T D. unfold historical_verify, is_newer_than.
  replace (timestamp b <? timestamp a) with false by (symmetry; apply N.ltb_ge; lia).
  replace (timestamp a <? timestamp b) with true by (symmetry; apply N.ltb_lt; lia).
  destruct (N.ltb_spec (live_time (qmetrics b)) (live_time (qmetrics a))) as [L|L]; [auto|].
  destruct D as [D|D]; [lia|].
  replace (received_payment_count (qmetrics b) <? received_payment_count (qmetrics a)) with true
    by (symmetry; apply N.ltb_lt; lia). auto.
Qed.

(* full characterisation, for a pair ordered by timestamp (a not newer than b) *)
Lemma historical_verify_iff_lemma now1 now2 a b :
  timestamp a <= timestamp b ->
  (historical_verify now1 now2 a b = true <->
   live_time (qmetrics a) <= live_time (qmetrics b) /\
   received_payment_count (qmetrics a) <= received_payment_count (qmetrics b) /\
   (now1 < timestamp a \/ now2 < timestamp b \/
    live_time (qmetrics b) - live_time (qmetrics a) <=
      secs (now1 - timestamp a) - secs (now2 - timestamp b) + Consts.live_time_margin)).
Proof.
  intros T. unfold historical_verify, is_newer_than.
  replace (timestamp b <? timestamp a) with false by (symmetry; apply N.ltb_ge; lia).
  destruct (N.ltb_spec (live_time (qmetrics b)) (live_time (qmetrics a))) as [L|L];
    [split; [discriminate|intros (H & _); lia]|].
  destruct (N.ltb_spec (received_payment_count (qmetrics b)) (received_payment_count (qmetrics a))) as [R|R];
    [split; [discriminate|intros (_ & H & _); lia]|].
  destruct (N.ltb_spec now1 (timestamp a)) as [N1|N1]; [split; auto|].
  destruct (N.ltb_spec now2 (timestamp b)) as [N2|N2]; [split; auto|].
  match goal with |- context [if ?x <? ?y then false else true] => destruct (N.ltb_spec x y) as [M|M] end.
  - split; [discriminate|]. intros (_ & _ & [H|[H|H]]); lia.
  - split; auto.
Qed.

(* ---------------------------------------------------------------- non-vacuity and the refuted reading *)
Definition m0 : metrics :=
  {| close_records_stored := 7; max_records := 16384; received_payment_count := 3; live_time := 300;
     network_density := Some (repeat 255 32); network_size := Some 100000 |}.
Definition q0 : quote :=
  {| content := repeat 17 32; timestamp := 1700000000 * NS + 250000000; qmetrics := m0;
     rewards_address := repeat 34 20; pub_key := [8; 1]; signature := [1; 2; 3] |}.
(* a key system in which key 5 (encoded [8;1]) has peer id [0;5] and signed q0's bytes as [1;2;3] *)
Definition K0 : keysys :=
  mkK [([8; 1], 5)] [(5, [0; 5])] [([0; 5], [0; 5]); ([0; 6], [0; 6])]
      [([1; 2; 3], Sig 5 (bytes_for_signing q0))].

Example q0_wf : wf_quote q0 = true. Proof. vm_compute. reflexivity. Qed.
Example q0_checks : check_signed K0 q0 [0; 5] = true. Proof. vm_compute. reflexivity. Qed.
Example q0_proof_verifies : verify_for K0 [([0; 5], q0)] [0; 5] = true. Proof. vm_compute. reflexivity. Qed.
Example q0_proof_not_for_others : verify_for K0 [([0; 5], q0)] [0; 6] = false. Proof. vm_compute. reflexivity. Qed.
Example q0_wrong_payee : verify_for K0 [([0; 5], q0); ([0; 6], q0)] [0; 5] = false. Proof. vm_compute. reflexivity. Qed.
Example q0_fresh : has_expired (timestamp q0 + 3600 * NS + 999999999) q0 = false. Proof. vm_compute. reflexivity. Qed.
Example q0_old : has_expired (timestamp q0 + 3601 * NS) q0 = true. Proof. vm_compute. reflexivity. Qed.
Example q0_future : has_expired (timestamp q0 - 1) q0 = true. Proof. vm_compute. reflexivity. Qed.

Definition with_ts (q : quote) (t : N) : quote :=
  {| content := content q; timestamp := t; qmetrics := qmetrics q; rewards_address := rewards_address q;
     pub_key := pub_key q; signature := signature q |}.
Definition with_metrics (q : quote) (m : metrics) : quote :=
  {| content := content q; timestamp := timestamp q; qmetrics := m; rewards_address := rewards_address q;
     pub_key := pub_key q; signature := signature q |}.

Example q0_whole_second_mutation_fails :
  check_signed K0 (with_ts q0 (timestamp q0 + NS)) [0; 5] = false.
Proof. vm_compute. reflexivity. Qed.

Example q0_regression_flagged :
  let later := with_metrics (with_ts q0 (timestamp q0 + 5 * NS))
                 {| close_records_stored := 7; max_records := 16384; received_payment_count := 2;
                    live_time := 300; network_density := None; network_size := None |} in
  historical_verify (timestamp q0 + 60 * NS) (timestamp q0 + 60 * NS) q0 later = false.
Proof. vm_compute. reflexivity. Qed.

Example q0_consistent_accepted :
  let later := with_metrics (with_ts q0 (timestamp q0 + 7200 * NS))
                 {| close_records_stored := 9; max_records := 16384; received_payment_count := 4;
                    live_time := 302; network_density := None; network_size := None |} in
  historical_verify (timestamp q0 + 7300 * NS) (timestamp q0 + 7300 * NS) q0 later = true.
Proof. vm_compute. reflexivity. Qed.

(* F18: only whole seconds of the timestamp are signed (and hashed): a quote whose timestamp is
   altered below one second still verifies, for the same signature, and hashes alike.  The
   property text ("altering any one of these makes verification fail") read at the precision the
   quote carries (nanoseconds) is therefore refuted by the faithful model. *)
Definition KnownSubsecond (q q' : quote) : Prop :=
  timestamp q' <> timestamp q /\ secs (timestamp q') = secs (timestamp q).

Lemma timestamp_mutation_refuted_lemma :
  exists K q q' p, wf_quote q = true /\ wf_quote q' = true /\ check_signed K q p = true /\
    signature q' = signature q /\ pub_key q' = pub_key q /\ content q' = content q /\
    qmetrics q' = qmetrics q /\ rewards_address q' = rewards_address q /\
    timestamp q' <> timestamp q /\
    check_signed K q' p = true /\ hash_preimage q' = hash_preimage q.
Proof.
  exists K0, q0, (with_ts q0 (timestamp q0 + 500000000)), [0; 5].
  vm_compute. repeat split; congruence.
Qed.

(* outside that class, altering the timestamp does make verification fail *)
Lemma timestamp_mutation_fails_outside_known K q q' p p' :
  wf_quote q = true -> wf_quote q' = true -> check_signed K q p = true ->
  signature q' = signature q -> timestamp q' <> timestamp q -> ~ KnownSubsecond q q' ->
  check_signed K q' p' = false.
Proof.
  intros W W' C S T NK. apply (any_field_mutation_fails_lemma K q q' p p' W W' C S). left.
  unfold signed_fields. intros E. injection E as _ Es _ _. apply NK. split; assumption.
Qed.

(* ================================================================ verify_peer_quote (stateful) *)
Lemma h_lookup_upsert_same p q h : h_lookup p (h_upsert p q h) = Some q.
Proof.
  induction h as [|[p' q'] h IH]; cbn [h_upsert h_lookup].
  - now rewrite N.eqb_refl.
  - destruct (N.eqb_spec p p') as [->|Hne]; cbn [h_lookup].
    + now rewrite N.eqb_refl.
    + destruct (N.eqb_spec p p'); [contradiction|exact IH].
Qed.

Lemma h_lookup_upsert_other p p' q h : p' <> p -> h_lookup p' (h_upsert p q h) = h_lookup p' h.
Proof.
  intros Hne. induction h as [|[p0 q0] h IH]; cbn [h_upsert h_lookup].
  - destruct (N.eqb_spec p' p); [contradiction|reflexivity].
  - destruct (N.eqb_spec p p0) as [->|H0]; cbn [h_lookup].
    + destruct (N.eqb_spec p' p0); [contradiction|reflexivity].
    + destruct (N.eqb_spec p' p0); [reflexivity|exact IH].
Qed.

Lemma hv_true_cases n1 n2 ref q :
  historical_verify n1 n2 ref q = true ->
  (timestamp q < timestamp ref ->
     live_time (qmetrics q) <= live_time (qmetrics ref) /\
     received_payment_count (qmetrics q) <= received_payment_count (qmetrics ref)) /\
  (timestamp ref <= timestamp q ->
     live_time (qmetrics ref) <= live_time (qmetrics q) /\
     received_payment_count (qmetrics ref) <= received_payment_count (qmetrics q)).
Proof.
  unfold historical_verify, is_newer_than.
  destruct (N.ltb_spec (timestamp q) (timestamp ref)) as [T|T].
  - destruct (N.ltb_spec (live_time (qmetrics ref)) (live_time (qmetrics q))) as [L|L]; [discriminate|].
    destruct (N.ltb_spec (received_payment_count (qmetrics ref)) (received_payment_count (qmetrics q))) as [R|R];
      [discriminate|].
    intros _. split; intros; [split; assumption|lia].
  - destruct (N.ltb_spec (live_time (qmetrics q)) (live_time (qmetrics ref))) as [L|L]; [discriminate|].
    destruct (N.ltb_spec (received_payment_count (qmetrics q)) (received_payment_count (qmetrics ref))) as [R|R];
      [discriminate|].
    intros _. split; intros; [lia|split; assumption].
Qed.

Lemma dominates_refl q : dominates q q.
Proof. unfold dominates. repeat split; apply N.le_refl. Qed.

Lemma dominates_trans a b c : dominates a b -> dominates b c -> dominates a c.
Proof. unfold dominates. intros (A1 & A2 & A3) (B1 & B2 & B3). repeat split; eapply N.le_trans; eauto. Qed.

(* the invariant: the reference of a peer is one of its accepted quotes and dominates all of them *)
Definition h_inv (h : history) (P : N -> quote -> Prop) : Prop :=
  (forall p ref, h_lookup p h = Some ref -> P p ref) /\
  (forall p a, P p a -> exists ref, h_lookup p h = Some ref /\ dominates ref a).

Lemma verify_step_inv now h P p q :
  h_inv h P ->
  h_inv (fst (verify_peer_quote now h p q))
        (fun p' a => P p' a \/ (p' = p /\ snd (verify_peer_quote now h p q) = false /\ a = q)).
Proof.
  intros [I1 I2]. unfold verify_peer_quote.
  destruct (h_lookup p h) as [ref|] eqn:Hl.
  - destruct (historical_verify now now ref q) eqn:Hv; cbn [negb fst snd].
    + pose proof (hv_true_cases _ _ _ _ Hv) as [Hold Hnew].
      unfold is_newer_than. destruct (N.ltb_spec (timestamp q) (timestamp ref)) as [T|T]; cbn [fst snd].
      * (* reference is newer: the quote is accepted but not stored *)
        split.
        -- intros p' r Hr. left. now apply I1.
        -- intros p' a [Ha|(-> & _ & ->)]; [now apply I2|].
           exists ref. split; [exact Hl|]. destruct (Hold T). unfold dominates. repeat split; lia.
      * (* the quote becomes the reference *)
        destruct (Hnew T) as [L R].
        assert (Dq : dominates q ref) by (unfold dominates; repeat split; assumption).
        split.
        -- intros p' r Hr. destruct (N.eq_dec p' p) as [->|Hne].
           ++ rewrite h_lookup_upsert_same in Hr. injection Hr as <-. right. auto.
           ++ rewrite h_lookup_upsert_other in Hr by exact Hne. left. now apply I1.
        -- intros p' a [Ha|(-> & _ & ->)].
           ++ destruct (I2 _ _ Ha) as (r & Hr & Dr). destruct (N.eq_dec p' p) as [->|Hne].
              ** exists q. rewrite h_lookup_upsert_same. split; [reflexivity|].
                 rewrite Hl in Hr. injection Hr as <-. eapply dominates_trans; eauto.
              ** exists r. rewrite h_lookup_upsert_other by exact Hne. auto.
           ++ exists q. rewrite h_lookup_upsert_same. split; [reflexivity|apply dominates_refl].
    + (* flagged: nothing changes *)
      split.
      * intros p' r Hr. left. now apply I1.
      * intros p' a [Ha|(_ & F & _)]; [now apply I2|discriminate].
  - (* first quote of this peer *)
    cbn [fst snd]. split.
    + intros p' r Hr. destruct (N.eq_dec p' p) as [->|Hne].
      * rewrite h_lookup_upsert_same in Hr. injection Hr as <-. right. auto.
      * rewrite h_lookup_upsert_other in Hr by exact Hne. left. now apply I1.
    + intros p' a [Ha|(-> & _ & ->)].
      * destruct (I2 _ _ Ha) as (r & Hr & Dr). destruct (N.eq_dec p' p) as [->|Hne]; [congruence|].
        exists r. rewrite h_lookup_upsert_other by exact Hne. auto.
      * exists q. rewrite h_lookup_upsert_same. split; [reflexivity|apply dominates_refl].
Qed.

Lemma h_inv_ext h P Q : (forall p a, P p a <-> Q p a) -> h_inv h P -> h_inv h Q.
Proof.
  intros E [I1 I2]. split.
  - intros p r Hr. apply E. now apply I1.
  - intros p a Ha. apply I2. now apply E.
Qed.

Lemma run_inv ds : forall h P,
  h_inv h P -> h_inv (fst (run_deliveries h ds)) (fun p a => P p a \/ In a (accepted h ds p)).
Proof.
  induction ds as [|[[now p] q] ds IH]; intros h P I; cbn [run_deliveries accepted].
  - cbn [fst]. eapply h_inv_ext; [|exact I]. intros; cbn [In]; tauto.
  - pose proof (verify_step_inv now h P p q I) as I'.
    destruct (verify_peer_quote now h p q) as [h1 f] eqn:E. cbn [fst snd] in I'.
    specialize (IH h1 _ I').
    destruct (run_deliveries h1 ds) as [h2 fs] eqn:E2. cbn [fst] in *.
    eapply h_inv_ext; [|exact IH]. intros p' a. cbn beta.
    destruct (N.eqb_spec p' p) as [->|Hne]; cbn [andb].
    + destruct f; cbn [negb In].
      * split; [intros [[A|(_ & F & _)]|A]; [auto|discriminate|auto]|intros [A|A]; auto].
      * split; [intros [[A|(_ & _ & ->)]|A]; auto|intros [A|[<-|A]]; auto].
    + split; [intros [[A|(C & _)]|A]; [auto|contradiction|auto]|intros [A|A]; auto].
Qed.

Lemma history_invariant_lemma ds p :
  let h := fst (run_deliveries [] ds) in
  (forall ref, h_lookup p h = Some ref -> In ref (accepted [] ds p)) /\
  (forall a, In a (accepted [] ds p) -> exists ref, h_lookup p h = Some ref /\ dominates ref a).
Proof.
  assert (I0 : h_inv [] (fun _ _ => False)).
  { split; [intros p0 r H; discriminate|intros p0 a []]. }
  pose proof (run_inv ds [] _ I0) as [I1 I2]. cbn zeta. split.
  - intros ref Hr. destruct (I1 _ _ Hr) as [[]|H]. exact H.
  - intros a Ha. apply I2. now right.
Qed.

(* a quote that is at least as new as everything accepted so far from that peer, and reports less
   than some accepted strictly earlier quote, is flagged -- whatever the clock says *)
Lemma regression_flagged_lemma ds now p q a :
  In a (accepted [] ds p) -> timestamp a < timestamp q -> reports_less q a ->
  (forall a', In a' (accepted [] ds p) -> timestamp a' <= timestamp q) ->
  snd (verify_peer_quote now (fst (run_deliveries [] ds)) p q) = true.
Proof.
  intros Ha Ta Less Newest.
  destruct (history_invariant_lemma ds p) as [I1 I2]. cbn zeta in *.
  destruct (I2 _ Ha) as (ref & Hr & (D1 & D2 & D3)).
  pose proof (Newest _ (I1 _ Hr)) as Tr.
  unfold verify_peer_quote. rewrite Hr.
  destruct (historical_verify now now ref q) eqn:Hv; [|reflexivity]. exfalso.
  destruct (hv_true_cases _ _ _ _ Hv) as [_ Hnew]. destruct (Hnew Tr) as [L R].
  destruct Less as [Less|Less]; lia.
Qed.

(* ... but a regressing quote that is older than the peer's newest accepted quote is only compared
   with that newest one and slips through: the history keeps a single reference per peer *)
Definition mq (ts lt rpc : N) : quote :=
  {| content := []; timestamp := ts * NS;
     qmetrics := {| close_records_stored := 0; max_records := 0; received_payment_count := rpc;
                    live_time := lt; network_density := None; network_size := None |};
     rewards_address := []; pub_key := []; signature := [] |}.

Lemma regression_between_refuted_lemma :
  exists ds now p q a,
    In a (accepted [] ds p) /\ timestamp a < timestamp q /\ reports_less q a /\
    snd (verify_peer_quote now (fst (run_deliveries [] ds)) p q) = false.
Proof.
  exists [(1000 * NS, 1, mq 100 5 10); (1000 * NS, 1, mq 900 6 20)], (1000 * NS), 1, (mq 500 5 7), (mq 100 5 10).
  vm_compute. repeat split; auto.
Qed.

(* the three-step scenario: stale quote must not replace the reference *)
Example stale_quote_does_not_replace_reference :
  snd (run_deliveries [] [(1000 * NS, 1, mq 980 5 10); (1000 * NS, 1, mq 900 5 5); (1000 * NS, 1, mq 995 5 7)])
  = [false; false; true].
Proof. vm_compute. reflexivity. Qed.

(* ================================================================ the quoting duty (ant-node/src/quote.rs) *)
Lemma quote_gap_constant_ok : Consts.quote_time_gap_secs = 10.
Proof. reflexivity. Qed.

Lemma storecost_ok_iff_lemma K now self_key q addr :
  verify_quote_for_storecost K now self_key q addr = SOk <->
  addr = content q /\ has_expired now q = false /\
  interp K (signature q) = Sig self_key (bytes_for_signing q).
Proof.
  unfold verify_quote_for_storecost.
  destruct (bytes_eqb addr (content q)) eqn:E; cbn [negb].
  - apply list_eqb_eq in E.
    destruct (has_expired now q); [split; [discriminate|intros (_ & H & _); discriminate]|].
    destruct (sig_verify self_key (bytes_for_signing q) (interp K (signature q))) eqn:V; cbn [negb].
    + apply sig_verify_iff in V. split; auto.
    + split; [discriminate|]. intros (_ & _ & H). apply sig_verify_iff in H. congruence.
  - split; [discriminate|]. intros (H & _). subst. rewrite list_eqb_refl in E. discriminate.
Qed.

(* every pair handed to the swarm driver is one of the delivered pairs, is not this node's own,
   is about the same content as this node's quote, and VERIFIES for the peer it is attributed to;
   and nothing is handed down unless this node itself is a valid, unexpired quoter *)
Lemma forwarded_quotes_verify_lemma K now self_peer self_key quotes out :
  quotes_verification K now self_peer self_key quotes = Some out ->
  (exists sq, In (self_peer, sq) quotes /\ has_expired now sq = false /\
              interp K (signature sq) = Sig self_key (bytes_for_signing sq) /\
              forall p q, In (p, q) out ->
                In (p, q) quotes /\ check_signed K q p = true /\ p <> self_peer /\
                content q = content sq /\ around_same_time q sq = true).
Proof.
  unfold quotes_verification.
  destruct (find (fun pq : list N * quote => bytes_eqb (fst pq) self_peer) quotes) as [[p0 sq]|] eqn:F;
    [|discriminate].
  apply find_some in F as [Fin Feq]. cbn [fst] in Feq. apply list_eqb_eq in Feq. subst p0.
  destruct (verify_quote_for_storecost K now self_key sq (content sq)) eqn:V; try discriminate.
  apply storecost_ok_iff_lemma in V as (_ & Hexp & Hsig).
  intros E. injection E as <-. exists sq. repeat split; try assumption.
  - apply filter_In in H. tauto.
  - apply filter_In in H as [_ H]. unfold duty_keep in H. cbn [fst snd] in H.
    repeat (apply andb_prop in H as [H ?]). assumption.
  - apply filter_In in H as [_ H]. unfold duty_keep in H. cbn [fst snd] in H.
    repeat (apply andb_prop in H as [H ?]). intros ->. rewrite list_eqb_refl in H2. discriminate.
  - apply filter_In in H as [_ H]. unfold duty_keep in H. cbn [fst snd] in H.
    repeat (apply andb_prop in H as [H ?]). now apply list_eqb_eq.
  - apply filter_In in H as [_ H]. unfold duty_keep in H. cbn [fst snd] in H.
    repeat (apply andb_prop in H as [H ?]). assumption.
Qed.

(* a quote with the claimed peer's key but altered signed fields under a stale signature is never
   forwarded *)
Lemma forged_quote_not_forwarded_lemma K now self_peer self_key quotes out p q q0 :
  quotes_verification K now self_peer self_key quotes = Some out ->
  wf_quote q = true -> wf_quote q0 = true -> check_signed K q0 p = true ->
  signature q = signature q0 -> signed_fields q <> signed_fields q0 -> ~ In (p, q) out.
Proof.
  intros Hq W W0 C S D Hin.
  destruct (forwarded_quotes_verify_lemma _ _ _ _ _ _ Hq) as (sq & _ & _ & _ & Hall).
  destruct (Hall _ _ Hin) as (_ & Hc & _).
  rewrite (any_field_mutation_fails_lemma K q0 q p p W0 W C S (or_introl D)) in Hc. discriminate.
Qed.

Example duty_forwards_genuine_only :
  let me := mq 100 1 1 in
  let K := mkK [([8; 1], 5)] [(5, [0; 5])] [] [([1; 2; 3], Sig 5 (bytes_for_signing q0)); ([9], Sig 7 (bytes_for_signing (with_ts q0 (timestamp q0 + NS))))] in
  let mine := {| content := content q0; timestamp := timestamp q0 + NS; qmetrics := qmetrics q0;
                 rewards_address := rewards_address q0; pub_key := []; signature := [9] |} in
  let forged := with_metrics q0 (qmetrics me) in
  quotes_verification K (timestamp q0 + 5 * NS) [0; 7] 7 [([0; 7], mine); ([0; 5], q0); ([0; 5], forged)]
  = Some [([0; 5], q0)].
Proof. vm_compute. reflexivity. Qed.

(* ================================================================ bad_nodes and the QuoteVerification arm *)
Lemma issue_constants_ok :
  Consts.issue_retention_secs = 300 /\ Consts.issue_list_cap = 10 /\
  Consts.issue_rate_limit_secs = 10 /\ Consts.issue_strikes = 3.
Proof. repeat split; reflexivity. Qed.

Lemma bn_lookup_upsert_same p e bn : bn_lookup p (bn_upsert p e bn) = Some e.
Proof.
  induction bn as [|[p' e'] bn IH]; cbn [bn_upsert bn_lookup].
  - now rewrite N.eqb_refl.
  - destruct (N.eqb_spec p p') as [->|Hne]; cbn [bn_lookup].
    + now rewrite N.eqb_refl.
    + destruct (N.eqb_spec p p'); [contradiction|exact IH].
Qed.

Lemma bn_lookup_upsert_other p p' e bn : p' <> p -> bn_lookup p' (bn_upsert p e bn) = bn_lookup p' bn.
Proof.
  intros Hne. induction bn as [|[p0 e0] bn IH]; cbn [bn_upsert bn_lookup].
  - destruct (N.eqb_spec p' p); [contradiction|reflexivity].
  - destruct (N.eqb_spec p p0) as [->|H0]; cbn [bn_lookup].
    + destruct (N.eqb_spec p' p0); [contradiction|reflexivity].
    + destruct (N.eqb_spec p' p0); [reflexivity|exact IH].
Qed.

(* a quote is skipped exactly when its peer is already considered bad -- an entry in bad_nodes
   (issues on record) is not enough *)
Lemma skip_only_if_bad_lemma now st p q :
  snd (handle_quote now st p q) = None <-> peer_is_bad (d_bad st) p = true.
Proof.
  unfold handle_quote. destruct (peer_is_bad (d_bad st) p); cbn [snd].
  - tauto.
  - destruct (verify_peer_quote now (d_hist st) p q). cbn [snd]. split; discriminate.
Qed.

Lemma skipped_quote_changes_nothing now st p q :
  peer_is_bad (d_bad st) p = true -> fst (handle_quote now st p q) = st.
Proof. intros H. unfold handle_quote. now rewrite H. Qed.

(* whatever issues a peer has on record, while it is not considered bad a quote that is at least as
   new as its reference and reports less than it is flagged *)
Lemma not_bad_regression_flagged_lemma now st p q ref :
  peer_is_bad (d_bad st) p = false -> h_lookup p (d_hist st) = Some ref ->
  timestamp ref <= timestamp q -> reports_less q ref ->
  snd (handle_quote now st p q) = Some true.
Proof.
  intros Hb Hr T Less. unfold handle_quote. rewrite Hb. unfold verify_peer_quote. rewrite Hr.
  destruct (historical_verify now now ref q) eqn:Hv; cbn [negb snd]; [|reflexivity]. exfalso.
  destruct (hv_true_cases _ _ _ _ Hv) as [_ Hnew]. destruct (Hnew T) as [L R].
  destruct Less as [Less|Less]; lia.
Qed.

(* and the flag is put on record as a BadQuoting issue (subject to record_node_issue's rate limit) *)
Lemma flagged_quote_is_recorded now st p q :
  snd (handle_quote now st p q) = Some true ->
  d_bad (fst (handle_quote now st p q)) = record_node_issue (d_clk st) (d_bad st) p BAD_QUOTING.
Proof.
  unfold handle_quote. destruct (peer_is_bad (d_bad st) p); [discriminate|].
  destruct (verify_peer_quote now (d_hist st) p q) as [h1 f]. cbn [fst snd d_bad].
  intros E. injection E as ->. reflexivity.
Qed.

(* recording an issue turns a peer bad only through three strikes of one kind, and never touches
   another peer *)
Lemma bad_needs_three_strikes_lemma clk bn p k :
  peer_is_bad bn p = false -> peer_is_bad (record_node_issue clk bn p k) p = true ->
  exists iv, bn_lookup p (record_node_issue clk bn p k) = Some (iv, true) /\ three_strikes iv = true.
Proof.
  unfold peer_is_bad at 1 2, record_node_issue. intros Hb.
  destruct (bn_lookup p bn) as [[iv bad]|] eqn:L.
  - subst bad. rewrite !bn_lookup_upsert_same. intros H. eexists. split; [now rewrite H|exact H].
  - rewrite !bn_lookup_upsert_same. intros H. eexists. split; [now rewrite H|exact H].
Qed.

Lemma record_issue_other_peer clk bn p k p' :
  p' <> p -> bn_lookup p' (record_node_issue clk bn p k) = bn_lookup p' bn.
Proof.
  intros Hne. unfold record_node_issue.
  destruct (match bn_lookup p bn with Some e => e | None => ([], false) end) as [iv bad].
  destruct bad; now rewrite bn_lookup_upsert_other.
Qed.

(* the scenario of seeded change C13-8: reference quote, an unrelated issue, 11 s later a quote that
   reports fewer payments: flagged, and recorded *)
Example unrelated_issue_does_not_hide_regression :
  let st := fold_left driver_do
              [DQuote (1000 * NS) 1 (mq 900 5 10); DIssue 1 0; DAge 11] driver_init in
  peer_is_bad (d_bad st) 1 = false /\
  snd (handle_quote (1011 * NS) st 1 (mq 950 5 7)) = Some true /\
  observe (fst (handle_quote (1011 * NS) st 1 (mq 950 5 7))) 1 = ([0; 2], false, Some (900 * NS)).
Proof. vm_compute. repeat split; reflexivity. Qed.

(* three BadQuoting strikes (more than ten seconds apart) make the peer bad; after that its quotes
   are skipped and the reference stops moving *)
Example three_strikes_then_skipped :
  let st := fold_left driver_do
              [DQuote (1000 * NS) 1 (mq 900 5 10); DQuote (1000 * NS) 1 (mq 910 5 9); DAge 11;
               DQuote (1011 * NS) 1 (mq 920 5 8); DAge 11; DQuote (1022 * NS) 1 (mq 930 5 7)] driver_init in
  observe st 1 = ([2; 2; 2], true, Some (900 * NS)) /\
  snd (handle_quote (1030 * NS) st 1 (mq 990 9 99)) = None.
Proof. vm_compute. split; reflexivity. Qed.

(* ================================================================ timestamps before the epoch *)
Lemma check_signed_z_nonneg_lemma K q tz p :
  (0 <= tz)%Z -> check_signed_z K q tz p = Some (check_signed K (with_timestamp q (Z.to_N tz)) p).
Proof.
  intros H. unfold check_signed_z, check_signed, bytes_for_signing_z. cbn [pub_key signature with_timestamp].
  replace (tz <? 0)%Z with false by (symmetry; apply Z.ltb_ge; lia).
  destruct (decode_pk K (pub_key q)); [|reflexivity].
  destruct (negb (bytes_eqb (peer_of K n) p)); reflexivity.
Qed.

(* a quote dated before the epoch is never accepted: there is no byte string to verify *)
Lemma pre_epoch_never_accepted_lemma K q tz p : (tz < 0)%Z -> check_signed_z K q tz p <> Some true.
Proof.
  intros H. unfold check_signed_z, bytes_for_signing_z.
  replace (tz <? 0)%Z with true by (symmetry; apply Z.ltb_lt; lia).
  destruct (decode_pk K (pub_key q)); [|discriminate].
  destruct (negb (bytes_eqb (peer_of K n) p)); discriminate.
Qed.

(* the signed string is injective in the timestamp's seconds over the whole domain: pre-epoch instants
   have no signed string at all, so none of them can stand in for the epoch (or for each other) *)
Lemma signing_z_injective_lemma q1 q2 tz1 tz2 m :
  wf_quote (with_timestamp q1 (Z.to_N tz1)) = true -> wf_quote (with_timestamp q2 (Z.to_N tz2)) = true ->
  bytes_for_signing_z q1 tz1 = Some m -> bytes_for_signing_z q2 tz2 = Some m ->
  (0 <= tz1)%Z /\ (0 <= tz2)%Z /\ secs (Z.to_N tz1) = secs (Z.to_N tz2).
Proof.
  unfold bytes_for_signing_z. intros W1 W2.
  destruct (Z.ltb_spec tz1 0); [discriminate|]. destruct (Z.ltb_spec tz2 0); [discriminate|].
  intros E1 E2. injection E1 as E1. injection E2 as E2. subst m.
  pose proof (signing_bytes_injective_lemma _ _ W1 W2 (eq_sym E2)) as E.
  unfold signed_fields in E. cbn [timestamp with_timestamp] in E. injection E as _ E _ _. auto.
Qed.

(* at the epoch boundary: signed at UNIX_EPOCH; rewritten to one nanosecond / one second / 31 years
   earlier the check has no verdict (it panics), it does not say "true" *)
Example epoch_boundary :
  let q := with_ts q0 0 in
  let K := mkK [([8; 1], 5)] [(5, [0; 5])] [] [([1; 2; 3], Sig 5 (bytes_for_signing q))] in
  check_signed_z K q 0 [0; 5] = Some true /\
  check_signed_z K q (-1) [0; 5] = None /\ check_signed_z K q (-1000000000) [0; 5] = None /\
  check_signed_z K q (-1000000000000000000) [0; 5] = None /\
  check_signed_z K q 1000000000 [0; 5] = Some false /\ check_signed_z K q (-1) [0; 6] = Some false.
Proof. vm_compute. repeat split; reflexivity. Qed.
