(* C08 -> C09 bridge: what an advert does to an idle fetcher, exactly.

   model/Replication.v (C09) abstracts `add_keys` on an idle fetcher to "fetch every advertised
   (key, type) whose KEY is not held and whose (key, type) is not in flight, all at once".  This
   file proves, for the transcription `step_code iter` with ANY hash-map iteration order, that this
   is what happens inside the envelope

     tbf s = []  /\  range s = None  /\  farthest s = None  /\  no in-flight fetch has timed out
     /\  the advert has no duplicate entry  /\  |kept in flight| + |U| <= MAX_PARALLEL_FETCH

   -- with one correction to the envelope: an advertised, unheld record version that is ALREADY in
   flight is, on the queue path (number of unheld advertised entries <> 1), left QUEUED for the
   advertising holder (`lingering`); the queue is empty afterwards only if there is no such entry
   or the fast path was taken. *)
From Coq Require Import List NArith Bool Arith Lia Permutation Sorted ZifyBool ZifyNat ZifyN.
From V Require Import gen.Consts model.Fetcher proofs.Fetcher proofs.FetcherDet proofs.FetcherSched proofs.FetcherProps.
Import ListNotations.
Open Scope N_scope.

(* advertised entries whose key is not held *)
Definition unheld_inc (held : held_map) (inc : list kt) : list kt :=
  filter (fun x => negb (is_held held (fst x))) inc.
(* ... and whose (key, type) is not in flight: what gets fetched *)
Definition fetch_set (s : state) (held : held_map) (inc : list kt) : list kt :=
  filter (fun x => negb (og_mem x (ongoing s))) (unheld_inc held inc).
(* in-flight entries that add_keys itself does not drop as now-held *)
Definition kept (s : state) (held : held_map) : list og_entry :=
  filter (fun e => not_stored held (fst e)) (ongoing s).
(* ... advertised, unheld, already in flight: left queued for holder h on the queue path *)
Definition lingering (s : state) (h : peer) (held : held_map) (inc : list kt) : list tbf_entry :=
  if (length (unheld_inc held inc) =? 1)%nat then []
  else map (fun x => ((x, h), now s + PENDING_T))
           (filter (fun x => og_mem x (ongoing s)) (unheld_inc held inc)).

(* ---------------------------------------------------------------- small list facts *)
Lemma Permutation_filter' {A} (p : A -> bool) l l' :
  Permutation l l' -> Permutation (filter p l) (filter p l').
Proof.
  induction 1; cbn; auto.
  - destruct (p x); auto.
  - destruct (p x), (p y); auto. apply perm_swap.
  - etransitivity; eauto.
Qed.
Lemma filter_map_comm {A B} (f : A -> B) (p : B -> bool) l :
  filter p (map f l) = map f (filter (fun x => p (f x)) l).
Proof. induction l as [|x r IH]; cbn; auto. destruct (p (f x)); cbn; rewrite IH; auto. Qed.
Lemma filter_neg_nil {A} (p : A -> bool) l : filter (fun x => negb (p x)) l = [] -> filter p l = l.
Proof.
  induction l as [|x r IH]; cbn; auto. destruct (p x); cbn; [intros H; f_equal; auto | discriminate].
Qed.

(* ---------------------------------------------------------------- idle first pass *)
Lemma first_pass_idle s h inc held :
  tbf s = [] -> farthest s = None -> first_pass s h inc held = unheld_inc held inc.
Proof.
  intros Ht Hf. unfold first_pass, unheld_inc. apply filter_ext. intros x.
  unfold pass_ok. rewrite Ht, Hf. cbn. rewrite orb_false_r, andb_true_r. reflexivity.
Qed.

Lemma og_mem_kept s held x :
  is_held held (fst x) = false -> og_mem x (kept s held) = og_mem x (ongoing s).
Proof.
  intros Hu.
  assert (Hiff : In x (map fst (kept s held)) <-> In x (map fst (ongoing s))).
  { unfold kept. rewrite !in_map_iff. split.
    - intros (e & Hq & He). apply filter_In in He. exists e. tauto.
    - intros (e & Hq & He). exists e. split; auto. apply filter_In. split; auto.
      rewrite Hq. apply unheld_not_stored; auto. }
  destruct (og_mem x (ongoing s)) eqn:E.
  - apply og_mem_In. apply Hiff. apply og_mem_In; auto.
  - apply og_mem_false. rewrite Hiff. apply og_mem_false; auto.
Qed.

(* ---------------------------------------------------------------- prune is the identity *)
Lemma prune_id s : (forall e, In e (ongoing s) -> ~ expired s e) -> prune s = (s, []).
Proof.
  intros H. destruct (prune_no_expired s H) as (H1 & H2 & H3).
  unfold prune in *. cbn [fst snd tbf ongoing] in *. rewrite H3. f_equal.
  destruct s as [t o r f n]. cbn [tbf ongoing range farthest now] in *. rewrite H1, H2. reflexivity.
Qed.

(* ---------------------------------------------------------------- enqueue without duplicates *)
Definition qe (h : peer) (d : N) (x : kt) : tbf_entry := ((x, h), d).

Lemma fold_or_insert_fresh (h : peer) (d : N) new : forall l,
  NoDup new -> (forall x, In x new -> ~ In (x, h) (map fst l)) ->
  fold_left (fun l x => or_insert l (x, h) d) new l = l ++ map (qe h d) new.
Proof.
  induction new as [|x r IH]; intros l Hd Hn; cbn [fold_left map].
  - rewrite app_nil_r. reflexivity.
  - inversion Hd as [|? ? Hx Hr]; subst.
    assert (E : or_insert l (x, h) d = l ++ [qe h d x]).
    { unfold or_insert. destruct (tbf_mem (x, h) l) eqn:M; auto.
      apply tbf_mem_In in M. exfalso. apply (Hn x); [left; auto | auto]. }
    rewrite E, IH; auto.
    + rewrite <- app_assoc. reflexivity.
    + intros y Hy Hin. rewrite map_app, in_app_iff in Hin. destruct Hin as [Hin|[Hin|[]]].
      * apply (Hn y); [right; auto | auto].
      * cbn in Hin. inversion Hin; subst. contradiction.
Qed.

(* ---------------------------------------------------------------- the loop, exactly *)
Definition notin (og : list og_entry) (e : tbf_entry) : bool := negb (og_mem (kth_kt (fst e)) og).

Lemma loop_exact nw : forall l og acc,
  NoDup (map (fun e => kth_kt (fst e)) l) ->
  (length og + length (filter (notin og) l) <= MAXn)%nat ->
  sched_loop nw l og acc =
  (og ++ map (mk nw) (map fst (filter (notin og) l)), acc ++ map fst (filter (notin og) l)).
Proof.
  induction l as [|e r IH]; intros og acc Hd Hc.
  - cbn. rewrite !app_nil_r. reflexivity.
  - cbn [map] in Hd. inversion Hd as [|? ? Hx Hr]; subst.
    assert (Hn : notin og e = negb (og_mem (kth_kt (fst e)) og)) by reflexivity.
    cbn [sched_loop filter] in *. rewrite Hn in *.
    destruct (og_mem (kth_kt (fst e)) og) eqn:M; cbn [negb] in *.
    + (* already in flight: skipped *)
      rewrite andb_false_r.
      destruct (MAXn <=? length og)%nat eqn:B.
      * apply Nat.leb_le in B.
        assert (Hz : filter (notin og) r = []).
        { destruct (filter (notin og) r); auto. cbn [length] in Hc. lia. }
        rewrite Hz. cbn [map]. rewrite !app_nil_r. reflexivity.
      * apply IH; auto.
    + (* picked *)
      assert (Hlt : (length og < MAXn)%nat) by (cbn [length] in Hc; lia).
      apply Nat.ltb_lt in Hlt. rewrite Hlt. cbn [andb].
      set (og1 := og ++ [(kth_kt (fst e), (kth_holder (fst e), nw + FETCH_T))]).
      assert (Hsame : filter (notin og1) r = filter (notin og) r).
      { apply filter_ext_in. intros e' He'. unfold notin, og1, og_mem. rewrite existsb_app. cbn [existsb fst].
        rewrite orb_false_r.
        destruct (kt_eqb (kth_kt (fst e)) (kth_kt (fst e'))) eqn:Q.
        - apply kt_eqb_eq in Q. exfalso. apply Hx. rewrite Q.
          apply (in_map (fun e0 : tbf_entry => kth_kt (fst e0))). exact He'.
        - rewrite orb_false_r. reflexivity. }
      assert (Hl1 : length og1 = S (length og)) by (subst og1; rewrite app_length; cbn; lia).
      destruct (MAXn <=? length og1)%nat eqn:B.
      * apply Nat.leb_le in B.
        assert (Hz : filter (notin og) r = []).
        { destruct (filter (notin og) r); auto. cbn [length] in Hc. lia. }
        rewrite Hz. cbn [map]. subst og1. reflexivity.
      * rewrite (IH og1 (acc ++ [fst e]) Hr).
        -- rewrite Hsame. subst og1. cbn [map]. rewrite <- !app_assoc. reflexivity.
        -- rewrite Hsame, Hl1. cbn [length] in Hc. lia.
Qed.

(* ---------------------------------------------------------------- pieces of the operation *)
Lemma sched_noop iter s :
  (MAXn <= length (ongoing s))%nat \/ tbf s = [] -> schedule_code iter s = (s, []).
Proof.
  intros [H|H]; unfold schedule_code.
  - apply Nat.leb_le in H. rewrite H. reflexivity.
  - destruct (MAXn <=? length (ongoing s))%nat; auto. rewrite H. reflexivity.
Qed.

Lemma fast_path_none s h new : length new <> 1%nat -> fast_path s h new = (s, [], new).
Proof. destruct new as [|a [|b c]]; cbn; intros H; try reflexivity. lia. Qed.

Lemma remove_stored_idle s held :
  tbf s = [] -> range s = None -> farthest s = None ->
  remove_stored s held = mkState [] (kept s held) None None (now s).
Proof. intros Ht Hr Hf. unfold remove_stored, kept. rewrite Ht, Hr, Hf. reflexivity. Qed.

(* queue path: state right before the scheduling loop *)
Lemma add_keys_pre_queue s h inc held :
  tbf s = [] -> range s = None -> farthest s = None -> NoDup inc ->
  length (unheld_inc held inc) <> 1%nat ->
  add_keys_pre s h inc held =
  (mkState (map (qe h (now s + PENDING_T)) (unheld_inc held inc)) (kept s held) None None (now s), []).
Proof.
  intros Ht Hr Hf Hd Hl. unfold add_keys_pre. rewrite (first_pass_idle s h inc held Ht Hf).
  rewrite (remove_stored_idle s held Ht Hr Hf), (fast_path_none _ _ _ Hl).
  unfold expire_pending, enqueue, range_filter, set_tbf. cbn [tbf ongoing range farthest now filter].
  rewrite fold_or_insert_fresh.
  - reflexivity.
  - unfold unheld_inc. apply NoDup_filter. exact Hd.
  - intros x _ [].
Qed.

(* fast path: exactly one unheld advertised entry *)
Lemma add_keys_pre_single s h inc held x :
  tbf s = [] -> range s = None -> farthest s = None ->
  unheld_inc held inc = [x] ->
  add_keys_pre s h inc held =
  if og_mem x (ongoing s)
  then (mkState [] (kept s held) None None (now s), [])
  else (mkState [] (kept s held ++ [(x, (h, now s + FETCH_T))]) None None (now s), [(h, fst x)]).
Proof.
  intros Ht Hr Hf Hx. unfold add_keys_pre. rewrite (first_pass_idle s h inc held Ht Hf), Hx.
  rewrite (remove_stored_idle s held Ht Hr Hf). unfold fast_path. cbn [ongoing now].
  assert (Hu : is_held held (fst x) = false).
  { assert (In x (unheld_inc held inc)) by (rewrite Hx; left; auto).
    unfold unheld_inc in H. apply filter_In in H. destruct H as [_ H]. apply negb_true_iff in H. exact H. }
  rewrite (og_mem_kept s held x Hu).
  destruct (og_mem x (ongoing s)); unfold expire_pending, enqueue, range_filter, set_tbf, set_ongoing;
    cbn [tbf ongoing range farthest now filter fold_left]; reflexivity.
Qed.

(* ---------------------------------------------------------------- the bridge *)
Theorem add_keys_idle_lemma : forall iter s h inc held,
  (forall l, Permutation (iter l) l) ->
  tbf s = [] -> range s = None -> farthest s = None ->
  NoDup inc -> (forall e, In e (ongoing s) -> ~ expired s e) ->
  (length (kept s held) + length (fetch_set s held inc) <= MAXn)%nat ->
  let post := fst (step_code iter s (AddKeys h inc held)) in
  let out := snd (step_code iter s (AddKeys h inc held)) in
  Permutation (ret out) (map (fun x => (h, fst x)) (fetch_set s held inc)) /\
  events out = [] /\
  Permutation (ongoing post)
              (kept s held ++ map (fun x => (x, (h, now s + FETCH_T))) (fetch_set s held inc)) /\
  tbf post = lingering s h held inc /\
  range post = None /\ farthest post = None /\ now post = now s.
Proof.
  intros iter s h inc held Hperm Ht Hr Hf Hd Hexp Hcap post out. subst post out.
  assert (Hk : forall e, In e (kept s held) -> In e (ongoing s)).
  { intros e He. unfold kept in He. apply filter_In in He. tauto. }
  unfold step_code, settle. cbn [pre_prune].
  destruct (Nat.eq_dec (length (unheld_inc held inc)) 1) as [H1|H1].
  - (* ---- fast path ---- *)
    destruct (unheld_inc held inc) as [|x [|y r]] eqn:EN; try (cbn in H1; lia).
    rewrite (add_keys_pre_single s h inc held x Ht Hr Hf EN).
    unfold fetch_set, lingering. rewrite EN. cbn [filter length Nat.eqb].
    destruct (og_mem x (ongoing s)) eqn:M; cbn [negb].
    + rewrite prune_id.
      2:{ cbn [ongoing]. intros e He. unfold expired. cbn [now]. apply (Hexp e). auto. }
      rewrite sched_noop by (right; reflexivity). cbn. rewrite app_nil_r. repeat split; auto.
    + rewrite prune_id.
      2:{ cbn [ongoing]. intros e He. apply in_app_iff in He. destruct He as [He|[<-|[]]].
          - unfold expired. cbn [now]. apply (Hexp e). auto.
          - unfold expired, og_deadline. cbn. lia. }
      rewrite sched_noop by (right; reflexivity). cbn. repeat split; auto.
  - (* ---- queue path ---- *)
    rewrite (add_keys_pre_queue s h inc held Ht Hr Hf Hd H1).
    set (N0 := unheld_inc held inc) in *.
    set (d := now s + PENDING_T).
    set (s3 := mkState (map (qe h d) N0) (kept s held) None None (now s)).
    rewrite prune_id.
    2:{ subst s3. cbn [ongoing]. intros e He. unfold expired. cbn [now]. apply (Hexp e). auto. }
    assert (HU : fetch_set s held inc = filter (fun x => negb (og_mem x (kept s held))) N0).
    { unfold fetch_set. fold N0. apply filter_ext_in. intros x Hx. f_equal. symmetry. apply og_mem_kept.
      subst N0. unfold unheld_inc in Hx. apply filter_In in Hx. destruct Hx as [_ Hx]. apply negb_true_iff in Hx. exact Hx. }
    assert (Hling : lingering s h held inc = map (qe h d) (filter (fun x => og_mem x (ongoing s)) N0)).
    { unfold lingering. fold N0. destruct (length N0 =? 1)%nat eqn:E; [apply Nat.eqb_eq in E; contradiction | reflexivity]. }
    (* nothing to fetch: the loop does not run or picks nothing *)
    assert (Hnoop : fetch_set s held inc = [] -> schedule_code iter s3 = (s3, []) ->
      Permutation (ret (mkOut ([] ++ snd (s3, @nil (peer * key))) [])) (map (fun x => (h, fst x)) (fetch_set s held inc)) /\
      events (mkOut ([] ++ snd (s3, @nil (peer * key))) []) = [] /\
      Permutation (ongoing (fst (s3, @nil (peer * key))))
                  (kept s held ++ map (fun x => (x, (h, now s + FETCH_T))) (fetch_set s held inc)) /\
      tbf (fst (s3, @nil (peer * key))) = lingering s h held inc /\
      range (fst (s3, @nil (peer * key))) = None /\ farthest (fst (s3, @nil (peer * key))) = None /\
      now (fst (s3, @nil (peer * key))) = now s).
    { intros HU0 _. rewrite HU0, Hling. cbn. rewrite app_nil_r. repeat split; auto. f_equal.
      symmetry. rewrite HU0 in HU. symmetry in HU.
      assert (HU' : filter (fun x => negb (og_mem x (ongoing s))) N0 = []).
      { unfold fetch_set in HU0. exact HU0. }
      apply filter_neg_nil in HU'. exact HU'. }
    destruct (Nat.le_gt_cases MAXn (length (kept s held))) as [Hfull|Hroom].
    { assert (HU0 : fetch_set s held inc = []) by (destruct (fetch_set s held inc); auto; cbn [length] in Hcap; lia).
      assert (E : schedule_code iter s3 = (s3, [])) by (apply sched_noop; left; exact Hfull).
      rewrite E. apply Hnoop; auto. }
    destruct (tbf s3) as [|t0 tr] eqn:ET.
    { assert (EN0 : N0 = []) by (subst s3; cbn [tbf] in ET; apply map_eq_nil in ET; exact ET).
      assert (HU0 : fetch_set s held inc = []) by (rewrite HU, EN0; reflexivity).
      assert (E : schedule_code iter s3 = (s3, [])) by (apply sched_noop; right; exact ET).
      rewrite E. apply Hnoop; auto. }
    (* the loop runs *)
    unfold schedule_code.
    assert (B : (MAXn <=? length (ongoing s3))%nat = false) by (apply Nat.leb_gt; exact Hroom).
    rewrite B, ET. rewrite <- ET. clear t0 tr ET.
    set (l := isort (iter (tbf s3))).
    assert (PL : Permutation l (tbf s3)) by (subst l; rewrite isort_perm; apply Hperm).
    assert (Hkt : map (fun e : tbf_entry => kth_kt (fst e)) (tbf s3) = N0).
    { subst s3. cbn [tbf]. rewrite map_map. cbn. apply map_id. }
    assert (HdN : NoDup N0) by (subst N0; unfold unheld_inc; apply NoDup_filter; exact Hd).
    assert (HdL : NoDup (map (fun e : tbf_entry => kth_kt (fst e)) l)).
    { apply (Permutation_NoDup (l := map (fun e : tbf_entry => kth_kt (fst e)) (tbf s3))).
      - apply Permutation_map. apply Permutation_sym. exact PL.
      - rewrite Hkt. exact HdN. }
    assert (Hfl : filter (notin (kept s held)) (tbf s3) = map (qe h d) (fetch_set s held inc)).
    { subst s3. cbn [tbf]. rewrite filter_map_comm, HU. reflexivity. }
    assert (PF : Permutation (filter (notin (kept s held)) l) (map (qe h d) (fetch_set s held inc))).
    { rewrite <- Hfl. apply Permutation_filter'. exact PL. }
    assert (Hcnt : (length (kept s held) + length (filter (notin (kept s held)) l) <= MAXn)%nat).
    { rewrite (Permutation_length PF), map_length. exact Hcap. }
    cbn [ongoing now] in *.
    change (ongoing s3) with (kept s held). change (now s3) with (now s).
    rewrite (loop_exact (now s) l (kept s held) [] HdL Hcnt). cbn [app].
    set (picks := map fst (filter (notin (kept s held)) l)) in *.
    assert (PP : Permutation picks (map (fun x => (x, h)) (fetch_set s held inc))).
    { subst picks. rewrite (Permutation_map fst PF), map_map. cbn. apply Permutation_refl. }
    cbn [fst snd ret events tbf ongoing range farthest now app].
    split.
    { rewrite (Permutation_map (fun x : kth => (kth_holder x, kth_key x)) PP), map_map. cbn. apply Permutation_refl. }
    split; [reflexivity|]. split.
    { apply Permutation_app_head. rewrite (Permutation_map (mk (now s)) PP), map_map. apply Permutation_refl. }
    split; [|auto].
    rewrite Hling. change (tbf s3) with (map (qe h d) N0). rewrite filter_map_comm. f_equal.
    apply filter_ext_in. intros x Hx. cbn [fst qe].
    assert (Hin : In (x, h) picks <-> og_mem x (ongoing s) = false).
    { split.
      - intros Hp. apply (Permutation_in _ PP) in Hp. apply in_map_iff in Hp. destruct Hp as (y & Hq & Hy).
        inversion Hq; subst y. unfold fetch_set in Hy. apply filter_In in Hy. destruct Hy as [_ Hy].
        apply negb_true_iff in Hy. exact Hy.
      - intros Hm. apply (Permutation_in _ (Permutation_sym PP)). apply in_map_iff. exists x. split; auto.
        unfold fetch_set. apply filter_In. split; [exact Hx | rewrite Hm; reflexivity]. }
    destruct (og_mem x (ongoing s)) eqn:M.
    + apply negb_true_iff. destruct (kth_in (x, h) picks) eqn:K; auto. apply kth_in_In in K. apply Hin in K. discriminate.
    + apply negb_false_iff. apply kth_in_In. apply Hin. reflexivity.
Qed.

(* ---------------------------------------------------------------- corollaries *)
Lemma kept_length s held : (length (kept s held) <= length (ongoing s))%nat.
Proof. unfold kept. induction (ongoing s) as [|e r IH]; cbn; auto. destruct (not_stored held (fst e)); cbn; lia. Qed.

Lemma lingering_nil s h held inc :
  (forall x, In x (unheld_inc held inc) -> og_mem x (ongoing s) = false) -> lingering s h held inc = [].
Proof.
  intros H. unfold lingering. destruct (length (unheld_inc held inc) =? 1)%nat; auto.
  rewrite (filter_none _ _ H). reflexivity.
Qed.

Lemma fetch_set_all s held inc :
  (forall x, In x (unheld_inc held inc) -> og_mem x (ongoing s) = false) ->
  fetch_set s held inc = unheld_inc held inc.
Proof. intros H. unfold fetch_set. apply filter_all. intros x Hx. rewrite (H x Hx). reflexivity. Qed.

(* the envelope as C09 states it (cap counted on everything in flight), plus: no advertised unheld
   record version is already in flight -- then the queue is empty afterwards *)
Theorem add_keys_idle_clean_lemma : forall iter s h inc held,
  (forall l, Permutation (iter l) l) ->
  tbf s = [] -> range s = None -> farthest s = None ->
  NoDup inc -> (forall e, In e (ongoing s) -> ~ expired s e) ->
  (forall x, In x (unheld_inc held inc) -> og_mem x (ongoing s) = false) ->
  (length (ongoing s) + length (unheld_inc held inc) <= MAXn)%nat ->
  let post := fst (step_code iter s (AddKeys h inc held)) in
  let out := snd (step_code iter s (AddKeys h inc held)) in
  Permutation (ret out) (map (fun x => (h, fst x)) (unheld_inc held inc)) /\
  events out = [] /\
  Permutation (ongoing post)
              (kept s held ++ map (fun x => (x, (h, now s + FETCH_T))) (unheld_inc held inc)) /\
  tbf post = [] /\ range post = None /\ farthest post = None /\ now post = now s.
Proof.
  intros iter s h inc held Hperm Ht Hr Hf Hd Hexp Hnf Hcap.
  pose proof (fetch_set_all s held inc Hnf) as HU.
  pose proof (kept_length s held) as HK.
  assert (Hcap' : (length (kept s held) + length (fetch_set s held inc) <= MAXn)%nat) by (rewrite HU; lia).
  pose proof (add_keys_idle_lemma iter s h inc held Hperm Ht Hr Hf Hd Hexp Hcap') as B.
  cbv zeta in B. rewrite HU, (lingering_nil s h held inc Hnf) in B. exact B.
Qed.
