(* Proofs about model/StoreStartup.v (C02: crash points during start-up). *)
From Coq Require Import List Arith NArith String Ascii Bool Lia.
From V Require Import lib.Strs gen.Consts model.RecordStore model.StoreStartup proofs.RecordStore proofs.RecordStoreCrash.
Import ListNotations.
Open Scope N_scope.

(* the source-derived structural fact the model of `startup` rests on *)
Lemma version_file_written_only_on_mismatch : Consts.rs_version_written_only_on_mismatch = true.
Proof. reflexivity. Qed.

(* a start-up with the version the records were written under touches nothing, wherever it is killed *)
Lemma same_version_start_inert_lemma cur p d : vfile d = Some cur -> startup cur p d = d.
Proof.
  intros V. unfold startup, prev_version. rewrite V, String.eqb_refl.
  destruct p; reflexivity.
Qed.

Lemma same_version_starts_inert_lemma cur ps : forall d, vfile d = Some cur -> run_starts cur ps d = d.
Proof.
  unfold run_starts. induction ps as [|p ps IH]; intros d V; cbn [fold_left]; auto.
  rewrite same_version_start_inert_lemma by exact V. now apply IH.
Qed.

(* a completed start-up under another version wipes the store and records the new version *)
Lemma version_change_wipes_lemma cur d : prev_version d <> cur ->
  startup cur SDone d = mkDisk (Some cur) [].
Proof.
  intros N. unfold startup. destruct (String.eqb_spec cur (prev_version d)) as [E|E]; [congruence|reflexivity].
Qed.

Lemma done_keeps_empty cur d : dfiles d = [] -> dfiles (startup cur SDone d) = [].
Proof.
  intros H. unfold startup. destruct (String.eqb cur (prev_version d)); [|reflexivity].
  destruct (vfile d); exact H.
Qed.

Lemma prev_version_created d :
  prev_version (match vfile d with Some _ => d | None => mkDisk (Some EmptyString) (dfiles d) end) = prev_version d.
Proof. unfold prev_version. destruct (vfile d) eqn:V; cbn [vfile]; [now rewrite V|reflexivity]. Qed.

(* and however a start-up under another version is interrupted, the next completed one wipes *)
Lemma interrupted_version_change_converges_lemma cur p d : prev_version d <> cur ->
  dfiles (startup cur SDone (startup cur p d)) = [] \/ p = SBefore.
Proof.
  intros N. destruct p; [left|now right|left|left|left|left].
  - rewrite (version_change_wipes_lemma cur d N). now apply done_keeps_empty.
  - unfold startup at 2. rewrite version_change_wipes_lemma; [reflexivity|]. now rewrite prev_version_created.
  - unfold startup at 2. destruct (String.eqb_spec cur (prev_version d)) as [E|E]; [congruence|].
    rewrite version_change_wipes_lemma; [reflexivity|].
    intros H. apply N. rewrite <- H. unfold prev_version. cbn [vfile].
    destruct (vfile d) eqn:V; cbn [vfile]; [now rewrite V|reflexivity].
  - unfold startup at 2. destruct (String.eqb_spec cur (prev_version d)) as [E|E]; [congruence|].
    now apply done_keeps_empty.
  - unfold startup at 2. destruct (String.eqb_spec cur (prev_version d)) as [E|E]; [congruence|].
    now apply done_keeps_empty.
Qed.

Lemma restart_via_startup_is_crash E s tears cur ps : restart_via_startup E s tears cur ps = crash E s tears.
Proof.
  unfold restart_via_startup, crash. now rewrite same_version_starts_inert_lemma.
Qed.

(* C02 durability for every crash point, those during start-up included *)
Lemma restart_durable_incl_startup_lemma E : cipher_ok E -> e_encrypt E = Consts.rs_encrypt_records_shipped ->
  forall ops tears cur ps k v,
  flookup (fname k) (files (run E ops (init E))) = Some (file_bytes E k v) -> header_kind v <> None ->
  ~ In k (map fst tears) ->
  get E (restart_via_startup E (run E ops (init E)) tears cur ps) k = Some v
  /\ contains (restart_via_startup E (run E ops (init E)) tears cur ps) k = true.
Proof.
  intros C En ops tears cur ps k v. rewrite restart_via_startup_is_crash. now apply restart_durable_lemma.
Qed.

Lemma restart_safe_incl_startup_lemma E : cipher_ok E -> e_encrypt E = Consts.rs_encrypt_records_shipped ->
  forall ops tears cur ps k v,
  get E (restart_via_startup E (run E ops (init E)) tears cur ps) k = Some v -> In v (hist ops k).
Proof.
  intros C En ops tears cur ps k v. rewrite restart_via_startup_is_crash. now apply restart_safe_lemma.
Qed.

(* rewriting the version file on every start is NOT safe: killed between truncate and write, the next
   start sees a mismatch and wipes the store although the version never changed *)
Lemma rewrite_always_refuted_lemma :
  exists cur d, vfile d = Some cur /\ dfiles d <> [] /\
    dfiles (startup cur SDone (startup_rewrite_always cur SAfterTruncate d)) = [].
Proof.
  exists "1"%string, (mkDisk (Some "1"%string) [("ab"%string, [1])]).
  split; [reflexivity|]. split; [discriminate|]. reflexivity.
Qed.

(* non-vacuity: a mismatch start-up interrupted in every way, and a first start *)
Example startup_examples :
  startup "2" SDone (mkDisk (Some "1"%string) [("ab"%string, [1])]) = mkDisk (Some "2"%string) [] /\
  startup "2" (SDuringWipe [true]) (mkDisk (Some "1"%string) [("ab"%string, [1])]) = mkDisk (Some "1"%string) [("ab"%string, [1])] /\
  startup "2" SAfterTruncate (mkDisk (Some "1"%string) [("ab"%string, [1])]) = mkDisk (Some ""%string) [] /\
  startup "1" SDone (mkDisk None [("ab"%string, [1])]) = mkDisk (Some "1"%string) [] /\
  startup "1" SDone (mkDisk (Some "1"%string) [("ab"%string, [1])]) = mkDisk (Some "1"%string) [("ab"%string, [1])].
Proof. repeat split; reflexivity. Qed.

(* build_node derives the store's encryption seed from the node's identity alone (first 16 bytes of the
   serialised peer id): the same identity re-opens the store with the same cipher key -- which is what
   `crash` / `restart_via_startup` assume by re-opening under the same environment E *)
Lemma seed_is_function_of_identity : Consts.rs_seed_from_identity = true.
Proof. reflexivity. Qed.
