(* Proofs about model/Amount.v (C16). *)
From Coq Require Import List NArith ZArith String Ascii Bool Lia ZifyBool ZifyNat ZifyN.
From V Require Import lib.Strs lib.Dec gen.Consts model.Amount.
Import ListNotations.
Open Scope N_scope.
Ltac Zify.zify_post_hook ::= Z.div_mod_to_equations.

(* the regenerated constants are the ones every statement below is about *)
Lemma constants_ok :
  Consts.token_decimals = 18 /\ Consts.token_raw_conversion = 10 ^ 18 /\ Consts.display_pad = 18.
Proof. repeat split; reflexivity. Qed.

Lemma RAW_eq : RAW = 10 ^ 18.  Proof. reflexivity. Qed.
Lemma RAW_pos : 0 < RAW.  Proof. rewrite RAW_eq. reflexivity. Qed.
Lemma RAW_lt_U256 : RAW < U256.  Proof. reflexivity. Qed.

Definition dot : ascii := "."%char.

(* a string denotes an amount: digit+ ('.' digit* )?, at most 18 significant fractional digits *)
Definition denotes (s : string) (a : N) : Prop :=
  exists w f,
    ((s = w /\ f = EmptyString) \/ s = (w ++ String dot f)%string) /\
    w <> EmptyString /\ all_digits w = true /\ all_digits f = true /\
    slen (trim0 f) <= 18 /\
    a = val w * 10 ^ 18 + val (trim0 f) * 10 ^ (18 - slen (trim0 f)) /\
    a < U256.

(* ---- split_dot ---- *)
Lemma split_dot_digits w : all_digits w = true -> split_dot w = (w, None).
Proof.
  induction w as [|c r IH]; cbn; [reflexivity|]. intros H. apply andb_prop in H as [Hc Hr].
  rewrite (is_digit_not_dot c Hc), (IH Hr). reflexivity.
Qed.

Lemma split_dot_app w f : all_digits w = true ->
  split_dot (w ++ String dot f) = (w, Some f).
Proof.
  induction w as [|c r IH]; cbn; [reflexivity|]. intros H. apply andb_prop in H as [Hc Hr].
  rewrite (is_digit_not_dot c Hc), (IH Hr). reflexivity.
Qed.

Lemma split_dot_spec s : forall u r, split_dot s = (u, r) ->
  match r with None => s = u | Some f => s = (u ++ String dot f)%string end.
Proof.
  induction s as [|c t IH]; intros u r; cbn.
  - intros E; inversion E; reflexivity.
  - destruct (Ascii.eqb_spec c "."%char) as [->|Hc].
    + intros E; inversion E; reflexivity.
    + destruct (split_dot t) as [a b] eqn:Et. intros E; inversion E; subst.
      specialize (IH a r eq_refl). destruct r; cbn; congruence.
Qed.

(* ---- parse_decimal ---- *)
Lemma parse_decimal_some s v : parse_decimal s = Some v <->
  s <> EmptyString /\ all_digits s = true /\ v = val s /\ val s < U256.
Proof.
  unfold parse_decimal. destruct s as [|c r].
  - split; [discriminate|]. intros [H _]; congruence.
  - destruct (all_digits (String c r)) eqn:D.
    + destruct (N.ltb_spec (val (String c r)) U256) as [L|L].
      * split; [intros E; inversion E; repeat split; auto; discriminate|].
        intros (_ & _ & -> & _); reflexivity.
      * split; [discriminate|]. intros (_ & _ & _ & L'); lia.
    + split; [discriminate|]. intros (_ & D' & _); congruence.
Qed.

Lemma trim0_digits_inv f : all_digits (trim0 f) = true -> all_digits f = true.
Proof.
  intros H. destruct (trim0_split f) as [k E]. rewrite E.
  rewrite all_digits_app, H, all_digits_zeros. reflexivity.
Qed.

Lemma slen_nil_iff s : slen s = 0 <-> s = EmptyString.
Proof. unfold slen. destruct s; cbn; split; try congruence; lia. Qed.

Lemma trim0_le s : slen (trim0 s) <= slen s.
Proof. unfold slen. pose proof (trim0_len s). lia. Qed.

(* the computation from_str performs on a well-formed pair (w, f) *)
Lemma from_str_parts s w f :
  split_dot s = (w, match f with None => None | Some x => Some x end) ->
  w <> EmptyString -> all_digits w = true ->
  forall fs, fs = match f with Some x => x | None => EmptyString end ->
  all_digits fs = true ->
  from_str s =
    if U256 <=? val w then PErr EUnits else
    if U256 <=? val w * RAW then PErr EExcessive else
    if slen (trim0 fs) =? 0 then POk (val w * RAW) else
    if U256 <=? val (trim0 fs) then PErr ERemainder else
    if 18 <? slen (trim0 fs) then PErr ELossOfPrecision else
    let rem := val (trim0 fs) * 10 ^ (18 - slen (trim0 fs)) in
    if U256 <=? rem then PErr EExcessive else
    if U256 <=? val w * RAW + rem then PErr EExcessive else POk (val w * RAW + rem).
Proof.
  intros Hs Hw Dw fs Hfs Df. unfold from_str. rewrite Hs.
  assert (Ef : match match f with None => None | Some x => Some x end with
               | Some r => r | None => EmptyString end = fs) by (subst fs; destruct f; reflexivity).
  rewrite Ef. clear Ef Hs Hfs.
  destruct (N.leb_spec U256 (val w)) as [L|L].
  - destruct (parse_decimal w) as [v|] eqn:P; [|reflexivity].
    apply parse_decimal_some in P. lia.
  - assert (P : parse_decimal w = Some (val w)) by (apply parse_decimal_some; auto).
    rewrite P. destruct (U256 <=? val w * RAW); [reflexivity|].
    pose proof (trim0_digits fs Df) as Dt.
    destruct (trim0 fs) as [|c r] eqn:T; [reflexivity|].
    assert (Hn : slen (String c r) =? 0 = false).
    { apply N.eqb_neq. intros H. apply slen_nil_iff in H. discriminate. }
    rewrite Hn.
    destruct (N.leb_spec U256 (val (String c r))) as [L2|L2].
    + destruct (parse_decimal (String c r)) as [v|] eqn:P2; [|reflexivity].
      apply parse_decimal_some in P2. lia.
    + assert (P2 : parse_decimal (String c r) = Some (val (String c r))).
      { apply parse_decimal_some. repeat split; auto. discriminate. }
      rewrite P2. change Consts.token_decimals with 18. reflexivity.
Qed.

(* ---- Display ---- *)
Lemma display_shape a :
  display a = (dec (a / RAW) ++ String dot (pad_left 18 (dec (a mod RAW))))%string.
Proof. reflexivity. Qed.

Lemma frac_len a : String.length (pad_left 18 (dec (a mod RAW))) = 18%nat.
Proof.
  rewrite pad_left_len; [reflexivity|].
  change (N.to_nat 18) with 18%nat. apply dec_len_bound; [lia|].
  change (10 ^ N.of_nat 18) with RAW. apply N.mod_lt. pose proof RAW_pos; lia.
Qed.

Lemma display_value_lemma a :
  exists w f, display a = (w ++ String dot f)%string /\
    w <> EmptyString /\ all_digits w = true /\ all_digits f = true /\
    String.length f = 18%nat /\ val w * 10 ^ 18 + val f = a.
Proof.
  exists (dec (a / RAW)), (pad_left 18 (dec (a mod RAW))).
  split; [apply display_shape|]. split; [apply dec_nonempty|].
  split; [apply dec_digits|]. split; [apply pad_left_digits, dec_digits|].
  split; [apply frac_len|].
  rewrite pad_left_val, !val_dec, <- RAW_eq.
  pose proof (N.div_mod a RAW). pose proof RAW_pos. lia.
Qed.

Lemma roundtrip_lemma a : a < U256 -> from_str (display a) = POk a.
Proof.
  intros Ha. rewrite display_shape.
  set (w := dec (a / RAW)). set (f := pad_left 18 (dec (a mod RAW))).
  assert (Dw : all_digits w = true) by apply dec_digits.
  assert (Df : all_digits f = true) by (apply pad_left_digits, dec_digits).
  rewrite (from_str_parts _ w (Some f) (split_dot_app w f Dw) (dec_nonempty _) Dw f eq_refl Df).
  assert (Vw : val w = a / RAW) by apply val_dec.
  assert (Vf : val f = a mod RAW) by (unfold f; rewrite pad_left_val; apply val_dec).
  assert (Lf : slen f = 18) by (unfold slen, f; rewrite frac_len; reflexivity).
  pose proof RAW_pos as Rp. pose proof (N.div_mod a RAW ltac:(lia)) as DM.
  pose proof (N.mod_lt a RAW ltac:(lia)) as ML.
  pose proof (trim0_val f) as TV. rewrite Lf in TV.
  pose proof (trim0_le f) as TL. rewrite Lf in TL.
  rewrite Vw.
  assert (Hq : a / RAW * RAW <= a) by lia.
  assert (Hq' : a / RAW <= a).
  { pose proof RAW_eq. nia. }
  destruct (N.leb_spec U256 (a / RAW)); [lia|].
  destruct (N.leb_spec U256 (a / RAW * RAW)); [lia|].
  destruct (N.eqb_spec (slen (trim0 f)) 0) as [Z|NZ].
  - apply slen_nil_iff in Z. rewrite Z in TV. change (val EmptyString) with 0 in TV.
    f_equal. lia.
  - assert (Hpow : 0 < 10 ^ (18 - slen (trim0 f))) by (apply N.neq_0_lt_0, N.pow_nonzero; lia).
    assert (Hle : val (trim0 f) <= val f) by nia.
    pose proof RAW_lt_U256.
    destruct (N.leb_spec U256 (val (trim0 f))); [lia|].
    destruct (N.ltb_spec 18 (slen (trim0 f))); [lia|].
    cbv zeta. rewrite <- TV, Vf.
    destruct (N.leb_spec U256 (a mod RAW)); [lia|].
    destruct (N.leb_spec U256 (a / RAW * RAW + a mod RAW)); [lia|].
    f_equal. lia.
Qed.

(* ---- parse_accepts_iff ---- *)
Lemma accepts_lemma s a : from_str s = POk a <-> denotes s a.
Proof.
  split.
  - intros H. destruct (split_dot s) as [u r] eqn:Es.
    pose proof (split_dot_spec s u r Es) as Sp.
    assert (Pu : exists v, parse_decimal u = Some v).
    { unfold from_str in H. rewrite Es in H. destruct (parse_decimal u); [eauto|discriminate]. }
    destruct Pu as [v Pu]. apply parse_decimal_some in Pu as (Hne & Du & -> & Lu).
    set (fs := match r with Some x => x | None => EmptyString end).
    assert (Dfs : all_digits fs = true).
    { apply trim0_digits_inv. unfold from_str in H. rewrite Es in H.
      destruct (parse_decimal u); [|discriminate].
      destruct (U256 <=? n * RAW); [discriminate|]. fold fs in H.
      destruct (trim0 fs) as [|c t] eqn:T; [reflexivity|].
      destruct (parse_decimal (String c t)) as [pv|] eqn:P; [|discriminate].
      apply parse_decimal_some in P. tauto. }
    assert (Er : r = match r with None => None | Some x => Some x end) by (destruct r; reflexivity).
    rewrite Er in Es.
    rewrite (from_str_parts s u r Es Hne Du fs eq_refl Dfs) in H.
    exists u, fs. split.
    { destruct r as [x|]; [right; exact Sp|left; split; [exact Sp|reflexivity]]. }
    split; [exact Hne|]. split; [exact Du|]. split; [exact Dfs|].
    rewrite RAW_eq in H.
    destruct (U256 <=? val u); [discriminate|].
    destruct (N.leb_spec U256 (val u * 10 ^ 18)); [discriminate|].
    destruct (N.eqb_spec (slen (trim0 fs)) 0) as [Z|NZ].
    + inversion H; subst a. apply slen_nil_iff in Z. rewrite Z.
      change (val EmptyString) with 0. change (slen EmptyString) with 0. split; [lia|]. split; lia.
    + destruct (U256 <=? val (trim0 fs)); [discriminate|].
      destruct (N.ltb_spec 18 (slen (trim0 fs))); [discriminate|].
      cbv zeta in H.
      destruct (U256 <=? val (trim0 fs) * 10 ^ (18 - slen (trim0 fs))); [discriminate|].
      destruct (N.leb_spec U256 (val u * 10 ^ 18 + val (trim0 fs) * 10 ^ (18 - slen (trim0 fs))));
        [discriminate|].
      inversion H; subst a. split; [assumption|]. split; [reflexivity|assumption].
  - intros (w & f & Hs & Hne & Dw & Df & Hl & Ha & Hlt).
    assert (R : exists r, split_dot s = (w, match r with None => None | Some x => Some x end) /\
                        f = match r with Some x => x | None => EmptyString end).
    { destruct Hs as [[-> ->]| ->].
      - exists None. split; [apply split_dot_digits; assumption|reflexivity].
      - exists (Some f). split; [apply split_dot_app; assumption|reflexivity]. }
    destruct R as (r & Es & Efs).
    rewrite (from_str_parts s w r Es Hne Dw f Efs Df). rewrite RAW_eq.
    assert (Hpow : 0 < 10 ^ (18 - slen (trim0 f))) by (apply N.neq_0_lt_0, N.pow_nonzero; lia).
    assert (P18 : 0 < 10 ^ 18) by reflexivity.
    assert (Hw : val w <= val w * 10 ^ 18) by nia.
    assert (Ht : val (trim0 f) <= val (trim0 f) * 10 ^ (18 - slen (trim0 f))) by nia.
    destruct (N.leb_spec U256 (val w)); [lia|].
    destruct (N.leb_spec U256 (val w * 10 ^ 18)); [lia|].
    destruct (N.eqb_spec (slen (trim0 f)) 0) as [Z|NZ].
    + apply slen_nil_iff in Z. rewrite Z in Ha. change (val EmptyString) with 0 in Ha.
      f_equal. lia.
    + destruct (N.leb_spec U256 (val (trim0 f))); [lia|].
      destruct (N.ltb_spec 18 (slen (trim0 f))); [lia|].
      cbv zeta.
      destruct (N.leb_spec U256 (val (trim0 f) * 10 ^ (18 - slen (trim0 f)))); [lia|].
      destruct (N.leb_spec U256 (val w * 10 ^ 18 + val (trim0 f) * 10 ^ (18 - slen (trim0 f)))); [lia|].
      f_equal. lia.
Qed.

(* ---- checked arithmetic ---- *)
Lemma checked_add_lemma a b : a < U256 -> b < U256 ->
  match checked_add a b with
  | Some r => r = a + b /\ r < U256
  | None => U256 <= a + b
  end.
Proof. intros _ _. unfold checked_add. destruct (N.ltb_spec (a + b) U256); [split|]; auto. Qed.

Lemma checked_sub_lemma a b :
  match checked_sub a b with
  | Some r => r + b = a
  | None => a < b
  end.
Proof. unfold checked_sub. destruct (N.leb_spec b a); lia. Qed.

(* non-vacuity: concrete strings on both sides of the grammar, and a value that needs all 18 digits *)
Example denotes_example : denotes "12.0340"%string 12034000000000000000.
Proof. apply accepts_lemma. vm_compute. reflexivity. Qed.

Example rejects_examples :
  from_str "0x10"%string = PErr EUnits /\ from_str ""%string = PErr EUnits /\
  from_str "1_0"%string = PErr EUnits /\ from_str "1.0x1"%string = PErr ERemainder /\
  from_str "0.0000000000000000001"%string = PErr ELossOfPrecision /\
  from_str "115792089237316195423570985008687907853269984665640564039457.6"%string = PErr EExcessive.
Proof. vm_compute. repeat split. Qed.

Example display_example : display 1 = "0.000000000000000001"%string /\ from_str (display (U256 - 1)) = POk (U256 - 1).
Proof. vm_compute. split; reflexivity. Qed.
