(* Proofs about the fetcher's scheduler in model/Closeness.v (C11): whatever the backlog (any
   multiset of (key, type, holder) in any hash-map order) and whatever is in flight, a scheduling
   call hands out the closest pending (key, type)s not in flight, in ascending distance. *)
From Coq Require Import List NArith Bool Lia Permutation Sorted Arith ZifyBool ZifyNat ZifyN.
From V Require Import lib.Strs lib.XorMetric lib.Sha256 gen.Consts model.Closeness proofs.Closeness.
Import ListNotations.
Open Scope N_scope.

(* ------------------------------------------------------------------ boolean equalities *)

Lemma bytes_eqb_eq (a b : bytes) : bytes_eqb a b = true <-> a = b.
Proof.
  unfold bytes_eqb. revert b. induction a as [|x a IH]; intros [|y b]; cbn [list_eqb].
  - split; reflexivity.
  - split; discriminate.
  - split; discriminate.
  - rewrite andb_true_iff, N.eqb_eq, IH. split; [intros [-> ->]; reflexivity|intros E; injection E; auto].
Qed.

Lemma kt_eqb_eq (a b : kt) : kt_eqb a b = true <-> a = b.
Proof.
  unfold kt_eqb. destruct a as [ka ta], b as [kb tb]. cbn [fst snd].
  rewrite andb_true_iff, bytes_eqb_eq, N.eqb_eq. split; [intros [-> ->]; reflexivity|intros E; injection E; auto].
Qed.

Lemma entry_eqb_eq (a b : entry) : entry_eqb a b = true <-> a = b.
Proof.
  unfold entry_eqb. destruct a as [ka ha], b as [kb hb]. cbn [fst snd].
  rewrite andb_true_iff, kt_eqb_eq, bytes_eqb_eq. split; [intros [-> ->]; reflexivity|intros E; injection E; auto].
Qed.

Lemma mem_kt_in x l : mem_kt x l = true <-> In x l.
Proof.
  unfold mem_kt. rewrite existsb_exists. split.
  - intros (y & Hy & E). apply kt_eqb_eq in E. subst. exact Hy.
  - intros Hi. exists x. split; [exact Hi|apply kt_eqb_eq; reflexivity].
Qed.

Lemma mem_kt_false x l : mem_kt x l = false <-> ~ In x l.
Proof. rewrite <- mem_kt_in. destruct (mem_kt x l); split; congruence. Qed.

Lemma mem_entry_in x l : mem_entry x l = true <-> In x l.
Proof.
  unfold mem_entry. rewrite existsb_exists. split.
  - intros (y & Hy & E). apply entry_eqb_eq in E. subst. exact Hy.
  - intros Hi. exists x. split; [exact Hi|apply entry_eqb_eq; reflexivity].
Qed.

Lemma nodup_kt_iff l : nodup_kt l = true <-> NoDup l.
Proof.
  induction l as [|x r IH]; cbn [nodup_kt].
  - split; [constructor|reflexivity].
  - rewrite andb_true_iff, negb_true_iff, mem_kt_false, IH. split.
    + intros [Hn Hr]. constructor; assumption.
    + intros Hd. inversion Hd; subst. split; assumption.
Qed.

Lemma sortedb_iff {A} (key : A -> N) (l : list A) : sortedb (map key l) = true <-> sorted_by key l.
Proof.
  induction l as [|x r IH]; [split; [constructor|reflexivity]|].
  destruct r as [|y r'].
  - cbn. split; [intros _; constructor; constructor|reflexivity].
  - change (sortedb (map key (x :: y :: r'))) with ((key x <=? key y) && sortedb (map key (y :: r'))).
    rewrite andb_true_iff, N.leb_le, IH. split.
    + intros [Hxy Hs]. constructor; [exact Hs|].
      inversion Hs as [|? ? Hs' Hy]; subst. constructor; [exact Hxy|].
      rewrite Forall_forall in *. intros z Hz. specialize (Hy z Hz). unfold key_le in *. lia.
    + intros Hs. inversion Hs as [|? ? Hs' Hx]; subst. split; [|exact Hs'].
      inversion Hx; subst. assumption.
Qed.

(* ------------------------------------------------------------------ close peers of a client / node *)

Section ClosePeers.
  Variable H : bytes -> N.

  Lemma drop_self_in self_peer peers p : In p (drop_self self_peer peers) <-> In p peers /\ p <> self_peer.
  Proof.
    unfold drop_self. rewrite filter_In, negb_true_iff. split; intros [Hi Hn]; split; try exact Hi.
    - intros ->. assert (bytes_eqb self_peer self_peer = true) by (apply bytes_eqb_eq; reflexivity). congruence.
    - destruct (bytes_eqb p self_peer) eqn:E; [apply bytes_eqb_eq in E; contradiction|reflexivity].
  Qed.

  Lemma expanded_close_group_value : expanded_close_group = 7.
  Proof. reflexivity. Qed.

  (* a client never counts nor ranks itself: the selection and the too-few check see the OTHER peers only *)
  Lemma close_peers_client_lemma self_peer found key :
    let others := drop_self self_peer found in
    match get_all_close_peers H self_peer true found key with
    | SortOk l =>
        CLOSE_GROUP_SIZE <= N.of_nat (List.length others) /\
        l = firstn (N.to_nat expanded_close_group) (sort_by (key_peer_distance H (kbucket_key H key)) others) /\
        N.of_nat (List.length l) = N.min expanded_close_group (N.of_nat (List.length others)) /\
        ~ In self_peer l /\
        sorted_by (key_peer_distance H (kbucket_key H key)) l
    | NotEnoughPeers f r =>
        N.of_nat (List.length others) < CLOSE_GROUP_SIZE /\ f = N.of_nat (List.length others) /\ r = CLOSE_GROUP_SIZE
    end.
  Proof.
    cbn zeta. unfold get_all_close_peers, sort_peers_by_address.
    destruct (sort_peers_by_key H (drop_self self_peer found) (kbucket_key H key) expanded_close_group) as [l|f r] eqn:E.
    - pose proof (sort_ok_inv H _ _ _ _ E) as [Hge El].
      split; [exact Hge|]. split; [exact El|]. split; [apply (sort_length_lemma H _ _ _ _ E)|].
      split; [|apply (sort_sorted_lemma H _ _ _ _ E)].
      intros Hin. rewrite El in Hin.
      assert (Hin' : In self_peer (sort_by (key_peer_distance H (kbucket_key H key)) (drop_self self_peer found))).
      { rewrite <- (firstn_skipn (N.to_nat expanded_close_group)). apply in_or_app. left. exact Hin. }
      clear Hin. rename Hin' into Hin. apply sort_by_in in Hin.
      apply drop_self_in in Hin. destruct Hin as [_ Hn]. apply Hn. reflexivity.
    - apply sort_error_iff_lemma in E. exact E.
  Qed.

  (* a node keeps itself among the found peers: plain selection *)
  Lemma close_peers_node_lemma self_peer found key :
    get_all_close_peers H self_peer false found key = sort_peers_by_address H found key expanded_close_group.
  Proof. reflexivity. Qed.
End ClosePeers.

(* case (b) of the boundary: CLOSE_GROUP_SIZE-1 other peers plus the client itself => NotEnoughPeers{4,5};
   case (a): the client is the nearest of 9 found => the 7 nearest others come back *)
Example close_peers_client_examples :
  let me := sha_peer 9 in
  get_all_close_peers sha256 me true (map sha_peer [1; 2; 3; 4] ++ [me]) f17_target = NotEnoughPeers 4 5 /\
  (exists l, get_all_close_peers sha256 me true (me :: map sha_peer [1; 2; 3; 4; 5; 6; 7; 8]) (APeer me) = SortOk l /\
             List.length l = 7%nat /\ ~ In me l) /\
  (exists l, get_all_close_peers sha256 me false (me :: map sha_peer [1; 2; 3; 4]) (APeer me) = SortOk l /\
             hd [] l = me).
Proof.
  cbn zeta. split; [vm_compute; reflexivity|]. split.
  - eexists. split; [vm_compute; reflexivity|]. split; [reflexivity|].
    intros Hin. repeat (destruct Hin as [Hin|Hin]; [vm_compute in Hin; discriminate|]). exact Hin.
  - eexists. split; [vm_compute; reflexivity|]. vm_compute. reflexivity.
Qed.

(* ------------------------------------------------------------------ the specification *)

Section Spec.
  Variable dk : bytes -> N.
  Notation ed := (edist dk).

  (* what a scheduling call may hand out, given the backlog P and the in-flight (key, type)s *)
  Definition fetch_spec (maxp : N) (P : list entry) (inflight : list kt) (L : list entry) : Prop :=
    sorted_by ed L /\
    (forall p, In p L -> In p P /\ ~ In (entry_kt p) inflight) /\
    NoDup (map entry_kt L) /\
    N.of_nat (List.length inflight + List.length L) <= N.max maxp (N.of_nat (List.length inflight)) /\
    (forall e, In e P -> ~ In (entry_kt e) inflight -> ~ In (entry_kt e) (map entry_kt L) ->
       maxp <= N.of_nat (List.length inflight + List.length L) /\ forall p, In p L -> ed p <= ed e).

  Lemma sched_ok_iff_spec maxp P inflight L :
    sched_ok dk maxp P inflight L = true <-> fetch_spec maxp P inflight L.
  Proof.
    unfold sched_ok, fetch_spec. cbn zeta.
    rewrite !andb_true_iff, sortedb_iff, nodup_kt_iff, N.leb_le, !forallb_forall.
    split.
    - intros ((((Hs & Hp) & Hn) & Hc) & He).
      split; [exact Hs|]. split.
      { intros p Hpl. specialize (Hp p Hpl). apply andb_true_iff in Hp as [Hp1 Hp2].
        split; [apply mem_entry_in; exact Hp1|apply negb_true_iff, mem_kt_false in Hp2; exact Hp2]. }
      split; [exact Hn|]. split; [exact Hc|].
      intros e HeP Hn1 Hn2. specialize (He e HeP).
      rewrite !orb_true_iff, !mem_kt_in, andb_true_iff, N.leb_le, forallb_forall in He.
      destruct He as [[Hi|Hi]|[Hm Hall]]; [contradiction|contradiction|].
      split; [exact Hm|]. intros p Hpl. apply N.leb_le, Hall, Hpl.
    - intros (Hs & Hp & Hn & Hc & He).
      split; [split; [split; [split; [exact Hs|]|exact Hn]|exact Hc]|].
      + intros p Hpl. destruct (Hp p Hpl) as [H1 H2]. apply andb_true_iff. split.
        * apply mem_entry_in. exact H1.
        * apply negb_true_iff, mem_kt_false. exact H2.
      + intros e HeP. rewrite !orb_true_iff, !mem_kt_in, andb_true_iff, N.leb_le, forallb_forall.
        destruct (mem_kt (entry_kt e) inflight) eqn:E1; [left; left; apply mem_kt_in; exact E1|].
        destruct (mem_kt (entry_kt e) (map entry_kt L)) eqn:E2; [left; right; apply mem_kt_in; exact E2|].
        right. apply mem_kt_false in E1, E2. destruct (He e HeP E1 E2) as [Hm Hall].
        split; [exact Hm|]. intros p Hpl. apply N.leb_le, Hall, Hpl.
  Qed.

  (* ---- the pick loop *)

  Lemma walk_full maxp S inflight : maxp <= N.of_nat (List.length inflight) -> fetch_walk maxp S inflight = [].
  Proof.
    intros Hf. induction S as [|e r IH]; [reflexivity|]. cbn [fetch_walk].
    destruct (N.ltb_spec (N.of_nat (List.length inflight)) maxp) as [Hlt|_]; [lia|]. cbn [andb]. exact IH.
  Qed.

  Lemma fetch_spec_nil maxp P inflight :
    (forall e, In e P -> ~ In (entry_kt e) inflight -> maxp <= N.of_nat (List.length inflight)) ->
    fetch_spec maxp P inflight [].
  Proof.
    intros Hfull. unfold fetch_spec.
    split; [constructor|]. split; [intros p []|]. split; [constructor|].
    split; [cbn [List.length]; lia|].
    intros e He Hn _. split; [|intros p []].
    specialize (Hfull e He Hn). cbn [List.length]. lia.
  Qed.

  Lemma walk_spec maxp S : forall inflight, sorted_by ed S ->
    fetch_spec maxp S inflight (fetch_walk maxp S inflight).
  Proof.
    induction S as [|e r IH]; intros inflight Hs.
    - cbn [fetch_walk]. apply fetch_spec_nil. intros x [].
    - inversion Hs as [|? ? Hsr Hle]; subst. rewrite Forall_forall in Hle. cbn [fetch_walk].
      destruct (N.ltb_spec (N.of_nat (List.length inflight)) maxp) as [Hcap|Hfull]; cbn [andb].
      + destruct (mem_kt (entry_kt e) inflight) eqn:Em; cbn [negb].
        * (* already in flight: skipped *)
          apply mem_kt_in in Em.
          destruct (IH inflight Hsr) as (S1 & S2 & S3 & S4 & S5).
          unfold fetch_spec.
          split; [exact S1|]. split; [intros p Hp; destruct (S2 p Hp) as [A B]; split; [right; exact A|exact B]|].
          split; [exact S3|]. split; [exact S4|].
          intros x Hx Hn1 Hn2. destruct Hx as [<-|Hr]; [contradiction|]. apply (S5 x Hr Hn1 Hn2).
        * (* picked *)
          apply mem_kt_false in Em.
          destruct (IH (entry_kt e :: inflight) Hsr) as (S1 & S2 & S3 & S4 & S5).
          set (L' := fetch_walk maxp r (entry_kt e :: inflight)) in *.
          assert (HinL : forall p, In p L' -> In p r /\ entry_kt p <> entry_kt e /\ ~ In (entry_kt p) inflight).
          { intros p Hp. destruct (S2 p Hp) as [A B]. split; [exact A|].
            split; intros C; apply B; [left; congruence|right; exact C]. }
          unfold fetch_spec.
          split.
          { constructor; [exact S1|]. rewrite Forall_forall. intros z Hz. apply Hle. apply (HinL z Hz). }
          split.
          { intros p [<-|Hp]; [split; [left; reflexivity|exact Em]|].
            destruct (HinL p Hp) as (A & _ & C). split; [right; exact A|exact C]. }
          split.
          { cbn [map]. constructor; [|exact S3]. intros Hc. apply in_map_iff in Hc as (p & Ep & Hp).
            destruct (HinL p Hp) as (_ & Ne & _). congruence. }
          split.
          { cbn [List.length] in *. lia. }
          intros x Hx Hn1 Hn2. cbn [map In] in Hn2.
          assert (Hr : In x r) by (destruct Hx as [<-|Hr]; [exfalso; apply Hn2; left; reflexivity|exact Hr]).
          assert (A : ~ In (entry_kt x) (entry_kt e :: inflight))
            by (intros [C|C]; [apply Hn2; left; exact C|contradiction]).
          assert (B : ~ In (entry_kt x) (map entry_kt L')) by (intros C; apply Hn2; right; exact C).
          destruct (S5 x Hr A B) as [Hm Hall]. split.
          { cbn [List.length] in *. lia. }
          intros p [<-|Hp]; [apply Hle; exact Hr|apply Hall; exact Hp].
      + (* no capacity left *)
        rewrite (walk_full maxp r inflight Hfull). apply fetch_spec_nil. intros x _ _. exact Hfull.
  Qed.

  Lemma fetch_spec_perm maxp P P' inflight L :
    (forall e, In e P <-> In e P') -> fetch_spec maxp P inflight L -> fetch_spec maxp P' inflight L.
  Proof.
    intros Hp (S1 & S2 & S3 & S4 & S5). unfold fetch_spec.
    split; [exact S1|]. split; [intros p Hpl; destruct (S2 p Hpl) as [A B]; split; [apply Hp; exact A|exact B]|].
    split; [exact S3|]. split; [exact S4|].
    intros e He Hn1 Hn2. apply (S5 e); [apply Hp; exact He|exact Hn1|exact Hn2].
  Qed.

  (* the scheduling call, for every backlog (in every iteration order) and every in-flight set *)
  Lemma next_keys_spec maxp P inflight :
    fetch_spec maxp P inflight (next_keys_generic dk maxp P inflight).
  Proof.
    unfold next_keys_generic.
    destruct (N.leb_spec maxp (N.of_nat (List.length inflight))) as [Hfull|Hcap].
    - apply fetch_spec_nil. intros x _ _. exact Hfull.
    - rewrite sort_on_eq. eapply fetch_spec_perm; [|apply walk_spec, sort_by_sorted].
      intros e. apply sort_by_in.
  Qed.

  (* consequences in plain words: the number handed out ... *)
  Lemma next_keys_count maxp P inflight :
    let L := next_keys_generic dk maxp P inflight in
    (exists e, In e P /\ ~ In (entry_kt e) inflight /\ ~ In (entry_kt e) (map entry_kt L)) ->
    N.of_nat (List.length inflight) <= maxp ->
    N.of_nat (List.length inflight + List.length L) = maxp.
  Proof.
    cbn zeta. intros (e & H1 & H2 & H3) Hle.
    destruct (next_keys_spec maxp P inflight) as (_ & _ & _ & S4 & S5).
    destruct (S5 e H1 H2 H3) as [Hm _]. lia.
  Qed.
End Spec.

Lemma fold_or_insert_in holder e : forall (l : list kt) acc,
  In e (fold_left (fun acc k => if mem_entry (k, holder) acc then acc else acc ++ [(k, holder)]) l acc) ->
  In e acc \/ exists k, In k l /\ e = (k, holder).
Proof.
  induction l as [|k l IHl]; intros acc Hi; cbn [fold_left] in Hi; [left; exact Hi|].
  apply IHl in Hi. destruct Hi as [Hi|(k' & Hk' & E)]; [|right; exists k'; split; [right; exact Hk'|exact E]].
  match type of Hi with context [if ?c then _ else _] => destruct c end; [left; exact Hi|].
  apply in_app_or in Hi as [Hi|[<-|[]]]; [left; exact Hi|].
  right. exists k. split; [left; reflexivity|reflexivity].
Qed.


(* ------------------------------------------------------------------ the fullness bound
   farthest_acceptable_distance: exact integer comparison, only ever shrinks, equals the minimum of the
   notified distances, and nothing farther than it is queued, in flight or accepted *)
Section Bound.
  Variable dk : bytes -> N.
  Notation ed := (edist dk).

  Definition within (far : option N) (l : list entry) : Prop :=
    match far with Some f => forall e, In e l -> ed e <= f | None => True end.

  Definition min_with (far : option N) (d : N) : N := match far with Some o => N.min o d | None => d end.

  Lemma full_none far P O : set_farthest_on_full dk far None P O = (P, O, far).
  Proof. reflexivity. Qed.

  Lemma full_purge_exact far key P O : within far P -> within far O ->
    let b := min_with far (dk key) in
    let '(P', O', far') := set_farthest_on_full dk far (Some key) P O in
    far' = Some b /\
    (forall e, In e P' <-> In e P /\ ed e <= b) /\
    (forall e, In e O' <-> In e O /\ ed e <= b).
  Proof.
    intros HP HO. cbn zeta. unfold set_farthest_on_full. cbn zeta. destruct far as [old|]; cbn [min_with within] in *.
    - destruct (N.leb_spec old (dk key)) as [Hle|Hgt].
      + rewrite N.min_l by exact Hle. split; [reflexivity|].
        split; intros e; (split; [intros Hi; split; [exact Hi|auto]|tauto]).
      + rewrite N.min_r by lia. split; [reflexivity|].
        split; intros e; rewrite filter_In, N.leb_le; reflexivity.
    - split; [reflexivity|]. split; intros e; rewrite filter_In, N.leb_le; reflexivity.
  Qed.

  Lemma within_sub far l l' : (forall e, In e l' -> In e l) -> within far l -> within far l'.
  Proof. destruct far as [f|]; cbn [within]; [intros Hs Hw e He; apply Hw, Hs, He|auto]. Qed.

  Lemma step_pre_within far range st P O : within far P -> within far O ->
    let '(p1, o1, far1) := step_pre dk far range st P O in
    far1 = notify_min dk far st /\ within far1 p1 /\ within far1 o1.
  Proof.
    intros HP HO. destruct st as [holder ks|k t|k t| |fin]; cbn [step_pre notify_min].
    - split; [reflexivity|]. split; [|exact HO].
      destruct far as [f|]; cbn [within] in *; [|exact I].
      intros e He. apply fold_or_insert_in in He. destruct He as [He|(k & Hk & ->)]; [apply HP, He|].
      assert (Hw : In k (filter (fun k : kt => dk (fst k) <=? f) ks)).
      { destruct range; [apply filter_In in Hk; tauto|exact Hk]. }
      apply filter_In in Hw as [_ Hw]. apply N.leb_le in Hw. exact Hw.
    - split; [reflexivity|]. split; [apply (within_sub far P)|apply (within_sub far O)]; try assumption; intros e He; apply filter_In in He; tauto.
    - split; [reflexivity|]. split; [apply (within_sub far P)|apply (within_sub far O)]; try assumption; intros e He; apply filter_In in He; tauto.
    - split; [reflexivity|]. split; assumption.
    - destruct fin as [key|]; [|split; [reflexivity|split; assumption]].
      pose proof (full_purge_exact far key P O HP HO) as Hx. cbn zeta in Hx.
      destruct (set_farthest_on_full dk far (Some key) P O) as [[P' O'] far'].
      destruct Hx as (-> & HP' & HO'). split; [destruct far; reflexivity|].
      cbn [within]. split; intros e He; [apply HP' in He|apply HO' in He]; tauto.
  Qed.

  Lemma scheduled_within far maxp p1 o1 picked : within far p1 -> within far o1 ->
    fetch_spec dk maxp p1 (map entry_kt o1) picked ->
    within far (filter (fun e => negb (mem_entry e picked)) p1) /\ within far (o1 ++ picked).
  Proof.
    intros H1 H2 (_ & Hin & _). split.
    - eapply within_sub; [|exact H1]. intros e He. apply filter_In in He. tauto.
    - destruct far as [f|]; cbn [within] in *; [|exact I].
      intros e He. apply in_app_or in He as [He|He]; [apply H2, He|apply H1, (Hin e He)].
  Qed.

  Definition state_far (s : list entry * list entry * option N) : option N := snd s.
  Definition state_within (s : list entry * list entry * option N) : Prop :=
    within (snd s) (fst (fst s)) /\ within (snd s) (snd (fst s)).

  Lemma fetch_step_model_inv maxp range s st : state_within s ->
    state_far (fetch_step_model dk maxp range s st) = notify_min dk (state_far s) st /\
    state_within (fetch_step_model dk maxp range s st).
  Proof.
    destruct s as [[P O] far]. unfold state_within, state_far. cbn [fst snd]. intros [HP HO].
    unfold fetch_step_model.
    pose proof (step_pre_within far range st P O HP HO) as Hs.
    destruct (step_pre dk far range st P O) as [[p1 o1] far1]. destruct Hs as (-> & Hp1 & Ho1).
    destruct (is_full_step st); cbn [fst snd]; [split; [reflexivity|split; assumption]|].
    cbn zeta. cbn [fst snd]. split; [reflexivity|].
    apply (scheduled_within _ maxp); [exact Hp1|exact Ho1|apply next_keys_spec].
  Qed.

  (* every history: the bound is the minimum of the notified distances, and nothing queued or in flight
     is farther than it *)
  Lemma fetch_run_bound maxp range steps :
    state_far (fetch_run dk maxp range steps) = notified_min dk steps /\
    state_within (fetch_run dk maxp range steps).
  Proof.
    unfold fetch_run, notified_min.
    assert (G : forall steps s, state_within s ->
      state_far (fold_left (fetch_step_model dk maxp range) steps s) = fold_left (notify_min dk) steps (state_far s) /\
      state_within (fold_left (fetch_step_model dk maxp range) steps s)).
    { clear steps. induction steps as [|st r IH]; intros s Hs; cbn [fold_left]; [split; [reflexivity|exact Hs]|].
      destruct (fetch_step_model_inv maxp range s st Hs) as [E Hw]. rewrite <- E. apply IH. exact Hw. }
    apply (G steps ([], [], None)). unfold state_within. cbn. split; exact I.
  Qed.
End Bound.

(* the acceptor only looks at the distances of the entries it is given: evaluating it with distances
   computed once and looked up (as the case files do) is evaluating it with the real distances *)
Lemma forallb_ext_in {A} (f g : A -> bool) (l : list A) :
  (forall x, In x l -> f x = g x) -> forallb f l = forallb g l.
Proof.
  induction l as [|x r IH]; intros Hx; [reflexivity|]. cbn [forallb].
  rewrite (Hx x (or_introl eq_refl)), IH; [reflexivity|]. intros y Hy. apply Hx. right. exact Hy.
Qed.

Lemma sched_ok_ext dk dk' maxp P inflight L :
  (forall e, In e P \/ In e L -> dk (entry_key e) = dk' (entry_key e)) ->
  sched_ok dk maxp P inflight L = sched_ok dk' maxp P inflight L.
Proof.
  intros Hext. unfold sched_ok. cbn zeta.
  assert (E1 : map (edist dk) L = map (edist dk') L).
  { apply map_ext_in. intros a Ha. unfold edist. apply Hext. right. exact Ha. }
  rewrite E1. f_equal.
  apply forallb_ext_in. intros e He. f_equal. f_equal.
  apply forallb_ext_in. intros p Hp. unfold edist.
  rewrite (Hext e (or_introl He)), (Hext p (or_intror Hp)). reflexivity.
Qed.

Section Table.
  Variable H : bytes -> N.

  Lemma lookup_dist_table self_peer keys k : In k keys ->
    lookup_dist (dist_table H self_peer keys) k = key_dist H self_peer k.
  Proof.
    unfold dist_table. cbn zeta. induction keys as [|k' r IH]; intros Hi; [destruct Hi|].
    cbn [map lookup_dist].
    destruct (bytes_eqb k' k) eqn:E.
    - apply bytes_eqb_eq in E. subst. reflexivity.
    - destruct Hi as [->|Hr]; [|apply IH; exact Hr].
      assert (bytes_eqb k k = true) by (apply bytes_eqb_eq; reflexivity). congruence.
  Qed.

  Lemma mem_bytes_in k l : mem_bytes k l = true <-> In k l.
  Proof.
    unfold mem_bytes. rewrite existsb_exists. split.
    - intros (y & Hy & E). apply bytes_eqb_eq in E. subst. exact Hy.
    - intros Hi. exists k. split; [exact Hi|apply bytes_eqb_eq; reflexivity].
  Qed.

  Lemma filter_ext_in' {A} (f g : A -> bool) l : (forall x, In x l -> f x = g x) -> filter f l = filter g l.
  Proof.
    induction l as [|x r IH]; intros Hx; [reflexivity|]. cbn [filter].
    rewrite (Hx x (or_introl eq_refl)), IH; [reflexivity|]. intros y Hy. apply Hx. right. exact Hy.
  Qed.

  (* record keys whose distance an operation looks at, besides those of the entries it is given *)
  Lemma filter_filter_ext {A} (f f' g g' : A -> bool) (l : list A) :
    (forall x, In x l -> f x = f' x) -> (forall x, In x l -> g x = g' x) ->
    filter g (filter f l) = filter g' (filter f' l).
  Proof.
    intros Hf Hg. rewrite (filter_ext_in' f f' l Hf). apply filter_ext_in'.
    intros x Hx. apply filter_In in Hx. apply Hg. tauto.
  Qed.

  Definition step_dkeys (st : fstep) : list bytes :=
    match st with FAdd _ ks => map fst ks | FFull (Some k) => [k] | _ => [] end.

  Lemma step_pre_ext dk dk' far range st P O :
    (forall k, In k (step_dkeys st ++ map entry_key P ++ map entry_key O) -> dk k = dk' k) ->
    step_pre dk far range st P O = step_pre dk' far range st P O.
  Proof.
    intros Hext. destruct st as [holder ks| | | |fin]; try reflexivity.
    - assert (Hk : forall k : kt, In k ks -> dk (fst k) = dk' (fst k)).
      { intros k Hk. apply Hext. apply in_or_app. left. cbn [step_dkeys]. apply in_map. exact Hk. }
      cbn [step_pre]. cbn zeta. f_equal. f_equal. f_equal.
      destruct far as [f|]; destruct range as [r|]; try reflexivity.
      + apply filter_filter_ext; intros k Hi; rewrite (Hk k Hi); reflexivity.
      + apply filter_ext_in'. intros k Hi. rewrite (Hk k Hi). reflexivity.
      + apply filter_ext_in'. intros k Hi. rewrite (Hk k Hi). reflexivity.
    - cbn [step_pre]. destruct fin as [key|]; [|reflexivity]. unfold set_farthest_on_full. cbn zeta.
      rewrite (Hext key) by (apply in_or_app; left; left; reflexivity).
      destruct (match far with Some old => old <=? dk' key | None => false end); [reflexivity|].
      f_equal. f_equal; apply filter_ext_in'; intros e He; unfold edist; rewrite (Hext (entry_key e)); try reflexivity.
      + apply in_or_app. right. apply in_or_app. left. apply in_map. exact He.
      + apply in_or_app. right. apply in_or_app. right. apply in_map. exact He.
  Qed.

  (* entries of the backlog a scheduling call starts from come from the recorded backlog or from the advert *)
  Lemma step_pre_keys dk far range st P O e :
    In e (fst (fst (step_pre dk far range st P O))) -> In (entry_key e) (step_dkeys st ++ map entry_key P).
  Proof.
    destruct st as [holder ks|k t|k t| |fin]; cbn [step_pre fst step_dkeys app].
    - intros Hi. apply fold_or_insert_in in Hi. apply in_or_app.
      destruct Hi as [Hi|(k & Hk & ->)]; [right; apply in_map; exact Hi|left].
      unfold entry_key. cbn [fst]. apply in_map.
      assert (Hw : In k (match far with Some f => filter (fun k : kt => dk (fst k) <=? f) ks | None => ks end)).
      { destruct range; [apply filter_In in Hk; tauto|exact Hk]. }
      destruct far; [apply filter_In in Hw; tauto|exact Hw].
    - intros Hi. apply filter_In in Hi as [Hi _]. apply in_map. exact Hi.
    - intros Hi. apply filter_In in Hi as [Hi _]. apply in_map. exact Hi.
    - intros Hi. apply in_map. exact Hi.
    - intros Hi. apply in_or_app. right. apply in_map.
      destruct fin as [key|]; cbn [set_farthest_on_full] in Hi; [|exact Hi].
      unfold set_farthest_on_full in Hi. cbn zeta in Hi.
      destruct (match far with Some old => old <=? dk key | None => false end); cbn [fst] in Hi; [exact Hi|].
      apply filter_In in Hi. tauto.
  Qed.

  Lemma agree_fetch_step_ext dk dk' maxp range st pre_p pre_o pre_far picked post_p post_o post_far :
    (forall k, In k (step_dkeys st ++ map entry_key pre_p ++ map entry_key pre_o ++ map entry_key picked) -> dk k = dk' k) ->
    agree_fetch_step dk maxp range st pre_p pre_o pre_far picked post_p post_o post_far =
    agree_fetch_step dk' maxp range st pre_p pre_o pre_far picked post_p post_o post_far.
  Proof.
    intros Hext. unfold agree_fetch_step.
    rewrite (step_pre_ext dk dk' pre_far range st pre_p pre_o).
    2:{ intros k Hk. apply Hext. apply in_app_or in Hk as [A|A]; apply in_or_app; [left; exact A|right].
        apply in_app_or in A as [A|A]; apply in_or_app; [left; exact A|right]. apply in_or_app. left. exact A. }
    pose proof (step_pre_keys dk' pre_far range st pre_p pre_o) as Hkeys.
    destruct (step_pre dk' pre_far range st pre_p pre_o) as [[p1 o1] far1]. cbn [fst] in Hkeys.
    rewrite (sched_ok_ext dk dk' maxp p1 (map entry_kt o1) picked); [reflexivity|].
    intros e [He|He]; apply Hext.
    - specialize (Hkeys e He). apply in_app_or in Hkeys as [A|A]; apply in_or_app; [left; exact A|].
      right. apply in_or_app. left. exact A.
    - apply in_or_app. right. apply in_or_app. right. apply in_or_app. right. apply in_map. exact He.
  Qed.

  (* what the case files evaluate (distances looked up in a table) is the agreement with the real
     distances, step by step *)
  Lemma agree_fetch_sched_sound self_peer maxp range keys steps :
    agree_fetch_sched H self_peer maxp range keys steps = true ->
    maxp = Consts.fetcher_max_parallel /\
    forall st pre_p pre_o pre_far picked post_p post_o post_far,
      In (st, (pre_p, pre_o, pre_far), picked, (post_p, post_o, post_far)) steps ->
      agree_fetch_step (key_dist H self_peer) maxp range st pre_p pre_o pre_far picked post_p post_o post_far = true.
  Proof.
    unfold agree_fetch_sched. cbn zeta. rewrite andb_true_iff, N.eqb_eq, forallb_forall.
    intros [Hm Hall]. split; [exact Hm|].
    intros st pre_p pre_o pre_far picked post_p post_o post_far Hin. specialize (Hall _ Hin).
    apply andb_true_iff in Hall as [Hk Hs]. rewrite forallb_forall in Hk.
    rewrite <- Hs. apply agree_fetch_step_ext.
    intros k Hkin. symmetry. apply lookup_dist_table. apply mem_bytes_in. apply Hk.
    unfold record_keys. destruct st as [? ?| | | |[?|]]; exact Hkin.
  Qed.

  (* the scheduler at the real distance *)
  Lemma fetch_schedule_lemma self_peer maxp P inflight :
    fetch_spec (key_dist H self_peer) maxp P inflight (next_keys_to_fetch H self_peer maxp P inflight).
  Proof. apply next_keys_spec. Qed.

  Lemma fetch_schedule_accepted self_peer maxp P inflight :
    sched_ok (key_dist H self_peer) maxp P inflight (next_keys_to_fetch H self_peer maxp P inflight) = true.
  Proof. apply sched_ok_iff_spec, fetch_schedule_lemma. Qed.
End Table.

(* ------------------------------------------------------------------ examples (SHA-256 instance) *)

Definition ex_self : bytes := sha_peer 9.
Definition ex_key (i : N) : bytes := repeat i 32.
Definition ex_hA : bytes := sha_peer 1.
Definition ex_hB : bytes := sha_peer 2.
(* holders A and B both advertise keys 1..6; capacity 3; one of A's copies (the closest key) is in flight *)
Definition ex_pending : list entry :=
  map (fun i => (ex_key i, 0, ex_hB)) [1; 2; 3; 4; 5; 6] ++ map (fun i => (ex_key i, 0, ex_hA)) [6; 5; 4; 3; 2].

Example fetch_schedule_example :
  let order := sort_on (edist (key_dist sha256 ex_self)) (map (fun i => (ex_key i, 0, ex_hA)) [1; 2; 3; 4; 5; 6]) in
  let closest := match order with e :: _ => entry_kt e | [] => (ex_key 0, 0) end in
  let out := next_keys_to_fetch sha256 ex_self 3 ex_pending [closest] in
  List.length out = 2%nat /\
  map entry_key out = map entry_key (firstn 2 (skipn 1 order)) /\
  sched_ok (key_dist sha256 ex_self) 3 ex_pending [closest] out = true /\
  (* handing out the third and fourth closest instead is rejected *)
  sched_ok (key_dist sha256 ex_self) 3 ex_pending [closest] (firstn 2 (skipn 2 order)) = false.
Proof. vm_compute. repeat split; reflexivity. Qed.

(* two 'store full' notifications: the farthest of 8 advertised keys (nothing to purge), then the
   4th closest: exactly the four entries within the new bound survive, queued or in flight *)
Example fullness_example :
  let dk := key_dist sha256 ex_self in
  let ks := map ex_key [1; 2; 3; 4; 5; 6; 7; 8] in
  let order := sort_on dk ks in
  let k_far := nth 7 order [] in
  let k_mid := nth 3 order [] in
  let steps := [FAdd ex_hA (map (fun k => (k, 0)) ks); FFull (Some k_far); FFull None; FFull (Some k_mid); FFull (Some k_far)] in
  let '(pq, oq, far) := fetch_run dk 3 None steps in
  far = Some (dk k_mid) /\ dk k_mid < dk k_far /\
  (List.length pq + List.length oq = 4)%nat /\
  forallb (fun e => edist dk e <=? dk k_mid) (pq ++ oq) = true.
Proof. vm_compute. repeat split; reflexivity. Qed.
