(* C08, "once the node is full nothing farther than its farthest held record is fetched", at the
   level of the driver glue: the PutLocalRecord arm of SwarmDriver::handle_local_cmd tells the fetcher
   that the node is full BEFORE it frees the fetch slot of the record that arrived.  In that order no
   fetch emitted by the arm is farther than the store's farthest record; in the other order one is. *)
From Coq Require Import List NArith Bool Arith Lia Permutation ZifyBool ZifyNat ZifyN.
From V Require Import gen.Consts model.Fetcher proofs.Fetcher proofs.FetcherDet proofs.FetcherSched
  proofs.FetcherProps proofs.FetcherProps2 proofs.FetcherLive proofs.FetcherBridge proofs.FetcherExamples.
Import ListNotations.
From Coq Require String.
Import String.StringSyntax.
Delimit Scope string_scope with string.
Open Scope N_scope.

Lemma set_farthest_some s kf :
  exists d, farthest (set_farthest s (Some kf)) = Some d /\ d <= kdist kf.
Proof.
  unfold set_farthest. destruct (farthest s) as [old|] eqn:F.
  - destruct (old <=? kdist kf) eqn:B.
    + apply N.leb_le in B. exists old. rewrite F. auto.
    + exists (kdist kf). cbn. split; auto. lia.
  - exists (kdist kf). cbn. split; auto. lia.
Qed.

Lemma set_farthest_step_ok s fk : Wf s -> step_ok s (SetFarthest fk) (mkOut [] []) (set_farthest s fk) = true.
Proof.
  intros W. apply step_ok_nosched; [reflexivity|]. cbn [events ret]. repeat split; auto.
  unfold mid_of, settle. cbn [pre_prune fst]. apply st_equiv_refl. apply set_farthest_Wf; auto.
Qed.

(* the ordering lemma: fullness update first, then the freed slot *)
Theorem put_arm_order_lemma : forall pre kf k t rng out post,
  reachable pre ->
  run_ok pre (arm_steps pre (PutMaxRecords (Some kf)) k t rng out post) = true ->
  (forall p, In p (ret out) -> kdist (snd p) <= kdist kf) /\
  (forall e, In e (ongoing post) -> kdist (og_key e) <= kdist kf) /\
  (forall x, In x (tbf post) -> kdist (kth_key (fst x)) <= kdist kf).
Proof.
  intros pre kf k t rng out post HR Hrun. unfold arm_steps in Hrun.
  cbn [app run_ok] in Hrun. apply andb_true_iff in Hrun. destruct Hrun as [H1 Hrun].
  assert (Hrun' : step_ok (set_farthest pre (Some kf)) (NotifyPut k t) out
                          (with_range post (range (set_farthest pre (Some kf)))) = true).
  { destruct rng; cbn [app run_ok] in Hrun; apply andb_true_iff in Hrun; tauto. }
  pose proof (reachable_step _ _ _ _ HR H1) as HR1.
  destruct (set_farthest_some pre kf) as (d & Hd & Hle).
  destruct (step_sched_inv _ _ _ _ HR1 Hrun' eq_refl) as (s1 & fast & batch & E & _ & _ & SP & _ & _ & _ & (_ & Hf1 & _)).
  assert (Hfp : farthest (with_range post (range (set_farthest pre (Some kf)))) = Some d).
  { destruct (ss_limits _ _ _ SP) as (_ & Hf & _). rewrite <- Hf, (proj1 (proj2 (prune_limits s1))), Hf1. exact Hd. }
  destruct (full_node_bound_lemma _ _ _ _ d HR1 Hrun' Hfp) as (B1 & B2 & B3 & _).
  cbn [with_range tbf ongoing] in B1, B2.
  split; [|split].
  - intros p Hp. specialize (B3 p Hp). lia.
  - intros e He. specialize (B2 e He). lia.
  - intros x Hx. specialize (B1 x Hx). lia.
Qed.

(* the other order (seeded change C08-8) hands the freed slot to a record farther than the store's
   farthest one, and the fullness update then silently forgets the fetch it has just ordered *)
Theorem put_arm_wrong_order_refuted_lemma :
  exists pre fk k t out mid post p,
    reachable pre /\ run_ok pre (arm_steps_wrong pre (Some fk) k t out mid post) = true /\
    In p (ret out) /\ kdist fk < kdist (snd p) /\ ~ In (snd p) (map og_key (ongoing post)).
Proof.
  set (pre := last_state init (run_det init [AddKeys 7 (keys (MAXn + 2)) []])).
  set (o1 := NotifyPut (K 1 1) Chunk).
  set (mid := fst (step_det pre o1)). set (out := snd (step_det pre o1)).
  set (o2 := SetFarthest (Some (K 0 0))).
  exists pre, (K 0 0), (K 1 1), Chunk, out, mid, (fst (step_det mid o2)),
         (7, K (N.of_nat (S MAXn)) (N.of_nat (S MAXn))).
  split; [apply run_det_reachable|]. split; [vm_compute; reflexivity|].
  split; [vm_compute; left; reflexivity|]. split; [vm_compute; reflexivity|].
  vm_compute. tauto.
Qed.

(* ---------------------------------------------------------------- histories with arm items *)
Lemma with_range_self s : with_range s (range s) = s.
Proof. destruct s; reflexivity. Qed.

Lemma item_last s it :
  st_equiv (last_state s (item_steps s it)) (item_post it) = true ->
  last_state s (item_steps s it) = item_post it.
Proof.
  destruct it as [[[o out] post]|res k t rng out post]; cbn [item_steps item_post]; [reflexivity|].
  intros H. unfold arm_steps in *. rewrite !last_state_app in *.
  destruct rng as [r|]; cbn [last_state] in *; [reflexivity|].
  apply st_equiv_spec in H. destruct H as ((Hr & _) & _). cbn [with_range range] in Hr.
  rewrite Hr. apply with_range_self.
Qed.

Theorem run_items_sound_lemma : forall its s,
  run_items s its = true ->
  run_ok s (expand s its) = true /\
  last_state s (expand s its) = fold_left (fun _ it => item_post it) its s.
Proof.
  induction its as [|it r IH]; intros s H; cbn [run_items expand fold_left] in *.
  - split; reflexivity.
  - apply andb_true_iff in H. destruct H as [H H3]. apply andb_true_iff in H. destruct H as [H1 H2].
    pose proof (item_last s it H2) as HL. destruct (IH _ H3) as [I1 I2].
    split.
    + rewrite run_ok_app, H1, HL. exact I1.
    + rewrite last_state_app, HL. exact I2.
Qed.

(* ---------------------------------------------------------------- non-vacuity *)
(* MAX+2 far records advertised, MAX in flight, 2 queued; one arrives, the full store (farthest held
   record at distance 0) refuses it: in the code's order nothing is fetched and everything farther is
   dropped; the same history is accepted as an arm item *)
Example ex_put_arm_premises :
  let pre := last_state init (run_det init [AddKeys 7 (keys (MAXn + 2)) []]) in
  let s1 := set_farthest pre (Some (K 0 0)) in
  let post := fst (step_det s1 (NotifyPut (K 1 1) Chunk)) in
  let out := snd (step_det s1 (NotifyPut (K 1 1) Chunk)) in
  reachable pre /\ length (tbf pre) = 2%nat /\ length (ongoing pre) = MAXn /\
  run_ok pre (arm_steps pre (PutMaxRecords (Some (K 0 0))) (K 1 1) Chunk None out post) = true /\
  ret out = [] /\ ongoing post = [] /\ tbf post = [] /\
  run_items pre [IArm (PutMaxRecords (Some (K 0 0))) (K 1 1) Chunk None out post] = true.
Proof.
  cbv zeta. split; [apply run_det_reachable|]. repeat split; vm_compute; reflexivity.
Qed.

(* the timeout report of FetcherExamples.ex_ops reaches the consumer through a full one-slot channel *)
Example ex_report_delivered :
  let c := mkChan 1 [[99]] [] in
  exists ev, ch_drain (1 + length (emitted ex_tr)) (fold_left ch_send (emitted ex_tr) c) = [[99]; ev] /\
             In 7 ev /\ In 8 ev.
Proof. cbv zeta. eexists. split; [vm_compute; reflexivity|]. split; vm_compute; tauto. Qed.

(* ---------------------------------------------------------------- which method the arms call *)
(* re-read from cmd.rs on every run: the FetchCompleted arm reports an EARLY completion of one record
   version, the PutLocalRecord arm makes its three calls in this order *)
Theorem fetch_completed_arm_is_early_lemma : forall k t, fetch_completed_arm k t = Some (NotifyEarly k t).
Proof. intros k t. reflexivity. Qed.

Theorem put_arm_calls_lemma : forall fk k t r,
  put_arm_calls = map op_method (arm_ops (PutMaxRecords fk) k t (Some r)).
Proof. intros. reflexivity. Qed.

(* an early completion of (k, t) ends exactly the fetch of that record version: every other in-flight
   fetch -- in particular another version of the same key -- keeps running, and only (k, t) leaves the queue *)
Theorem early_completion_exact_lemma : forall pre k t out post,
  reachable pre -> step_ok pre (NotifyEarly k t) out post = true ->
  (forall e, In e (ongoing pre) -> fst e <> (k, t) -> ~ expired pre e -> In e (ongoing post)) /\
  (forall e, In e (ongoing pre) -> fst e = (k, t) ->
     forall e', In e' (ongoing post) -> fst e' = fst e -> In (og_pair e') (ret out)).
Proof.
  intros pre k t out post HR HS. split.
  - intros e He Hne Hx. apply (proj1 (leaves_ongoing_lemma _ _ _ _ HR HS e He)).
    unfold op_keeps. cbn [op_completes schedules far_drops andb negb].
    destruct (kt_eqb (fst e) (k, t)) eqn:Q; [apply kt_eqb_eq in Q; contradiction|].
    destruct (og_expired pre e) eqn:X; [apply og_expired_iff in X; contradiction|]. reflexivity.
  - intros e He Hq e' He' Hq'.
    apply (proj2 (leaves_ongoing_lemma _ _ _ _ HR HS e He)); auto.
    unfold op_keeps. cbn [op_completes]. rewrite Hq, kt_eqb_refl. reflexivity.
Qed.

(* the arrival notification instead (seeded change C08-13) also ends the fetch of the OTHER version *)
Theorem put_notification_drops_other_version_lemma :
  exists pre k t t' e out post,
    reachable pre /\ t <> t' /\ In e (ongoing pre) /\ fst e = (k, t') /\ ~ expired pre e /\
    arm_method_op "notify_about_new_put"%string k t = Some (NotifyPut k t) /\
    step_ok pre (NotifyPut k t) out post = true /\ ~ In e (ongoing post).
Proof.
  set (pre := last_state init (run_det init [AddKeys 7 [(K 1 1, NonChunk 2)] []; AddKeys 8 [(K 1 1, NonChunk 3)] []])).
  exists pre, (K 1 1), (NonChunk 2), (NonChunk 3), (OE (K 1 1) 3 8 FETCH_T),
         (snd (step_det pre (NotifyPut (K 1 1) (NonChunk 2)))), (fst (step_det pre (NotifyPut (K 1 1) (NonChunk 2)))).
  split; [apply run_det_reachable|]. split; [discriminate|].
  split; [vm_compute; tauto|]. split; [reflexivity|]. split; [unfold expired; vm_compute; discriminate|].
  split; [reflexivity|]. split; [vm_compute; reflexivity|]. vm_compute. tauto.
Qed.
