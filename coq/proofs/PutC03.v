(* C03 -- new data is stored from a client only with a valid payment for that exact data.
   Lemmas behind props/C03.v, with non-vacuity examples. *)
From Coq Require Import List NArith ZArith Bool Lia.
From V Require Import lib.Strs gen.Consts model.PutValidation proofs.PutValidation proofs.PutOutcome.
Import ListNotations.
Open Scope N_scope.

(* ------------------------------------------------------------------ C03 *)

Lemma stores_new_only_if_paid_lemma : forall e st u k v,
  In (EPut k v) (effects_of (run st (client_put e u))) -> listed st k = false ->
  exists p, u_proof u = Some p /\ u_key u = k /\
    all_quotes_verify p = true /\ self_is_payee p = true /\ payees_close e p = true /\
    none_expired p = true /\ onchain_valid (u_chain u) = true /\
    own_quotes_for p k = true /\ quotes_by_peer p self_peer <> [].
Proof.
  intros e st u k v Hin Hl. apply in_puts_of in Hin.
  pose proof (client_outcome e st u) as Ho. unfold outcome in Ho.
  destruct (run st (client_put e u)) as [[r st'] es]. cbn [effects_of snd] in Hin.
  destruct Ho as [[Hp _]|(k0 & v0 & Hp & _ & _ & Hk & _ & Ha)]; rewrite Hp in Hin; [contradiction|].
  destruct Hin as [[= -> ->]|[]].
  unfold authorised in Ha. cbn [d_path d_up] in Ha.
  destruct (u_proof u) as [p|]; [|destruct Ha as [Ha _]; congruence].
  destruct Ha as [Ha|[Ha _]]; [|congruence].
  exists p. split; [reflexivity|]. split; [assumption|].
  unfold payment_ok in Ha. repeat (apply andb_true_iff in Ha as [Ha ?]).
  repeat split; try assumption.
  apply verify_for_own_quote. unfold verify_for. apply andb_true_iff. split; assumption.
Qed.

Lemma unpaid_only_updates_lemma : forall e st u k v,
  u_proof u = None -> In (EPut k v) (effects_of (run st (client_put e u))) ->
  listed st k = true /\ (is_pad_v v \/ is_reg_v v).
Proof.
  intros e st u k v Hn Hin. apply in_puts_of in Hin.
  pose proof (client_outcome e st u) as Ho. unfold outcome in Ho.
  destruct (run st (client_put e u)) as [[r st'] es]. cbn [effects_of snd] in Hin.
  destruct Ho as [[Hp _]|(k0 & v0 & Hp & _ & _ & Hk & _ & Ha)]; rewrite Hp in Hin; [contradiction|].
  destruct Hin as [[= -> ->]|[]].
  unfold authorised in Ha. cbn [d_path d_up] in Ha. rewrite Hn in Ha. assumption.
Qed.

Lemma rejected_no_effect_lemma : forall e st d x,
  result_of (run st (deliver e d)) = Err x ->
  puts_of (effects_of (run st (deliver e d))) = [] /\ store_of (run st (deliver e d)) = st.
Proof.
  intros e st d x Hr. pose proof (deliver_outcome e st d) as Ho. unfold outcome in Ho.
  destruct (run st (deliver e d)) as [[r st'] es]. cbn in *.
  destruct Ho as [[Hp Hs]|(k0 & v0 & _ & _ & Hok & _)]; [split; assumption | congruence].
Qed.

(* the address a paid upload is for *)
Definition paid_target (u : upload) : option name :=
  match u_hdr u, u_body u with
  | Some KChunkPaid, BChunk c => Some (chunk_key c)
  | Some KPadPaid, BPad p => Some (owner_key (p_owner p))
  | Some KTxPaid, BTx t => Some (owner_key (t_owner t))
  | Some KRegPaid, BReg r => Some (reg_k r)
  | _, _ => None
  end.

Lemma failed_payment_rejected_lemma : forall e st u p addr,
  u_proof u = Some p -> paid_target u = Some addr -> listed st addr = false ->
  payment_ok e addr p (u_chain u) = false ->
  exists x es, run st (client_put e u) = (Err x, st, es) /\ puts_of es = [] /\
               count_eff is_payrecv es = 0.
Proof.
  intros e st u p addr Hp Ht Hl Hpay. unfold paid_target in Ht. unfold client_put, de_paid. rewrite Hp.
  destruct (u_hdr u) as [[]|]; try discriminate; destruct (u_body u) as [|c|pd|t|l|rg]; try discriminate;
    injection Ht as <-; cbn [as_chunk as_pad as_tx as_reg liftE].
  - unfold bindE. rewrite run_bind, run_validate_key.
    destruct (name_eqb (u_key u) (chunk_key c)); [|eexists; eexists; split; [reflexivity|split; reflexivity]].
    rewrite run_bind. pay_step e (chunk_key c) p (u_chain u) st. rewrite Hl.
    destruct r as [[]|x]; [congruence|]. destruct H0 as [_ H0]. cbn.
    eexists; eexists; split; [reflexivity|]. rewrite app_nil_r. split; assumption.
  - destruct (name_eqb (u_key u) (owner_key (t_owner t))); cbn [negb];
      [|eexists; eexists; split; [reflexivity|split; reflexivity]].
    unfold bindE. rewrite run_bind, run_validate_key, name_eqb_refl.
    rewrite run_bind. pay_step e (owner_key (t_owner t)) p (u_chain u) st. rewrite Hl.
    destruct r as [[]|x]; [congruence|]. destruct H0 as [_ H0]. cbn.
    eexists; eexists; split; [reflexivity|]. rewrite app_nil_r. split; assumption.
  - fold (reg_k rg). destruct (name_eqb (u_key u) (reg_k rg)); cbn [negb];
      [|eexists; eexists; split; [reflexivity|split; reflexivity]].
    unfold bindE. rewrite run_bind, run_validate_key, name_eqb_refl.
    rewrite run_bind. pay_step e (reg_k rg) p (u_chain u) st. rewrite Hl.
    destruct r as [[]|x]; [congruence|]. destruct H0 as [_ H0]. cbn.
    eexists; eexists; split; [reflexivity|]. rewrite app_nil_r. split; assumption.
  - unfold bindE. rewrite run_bind, run_validate_key.
    destruct (name_eqb (u_key u) (owner_key (p_owner pd))); [|eexists; eexists; split; [reflexivity|split; reflexivity]].
    rewrite run_bind. pay_step e (owner_key (p_owner pd)) p (u_chain u) st.
    destruct r as [[]|x]; [congruence|]. destruct H0 as [_ H0]. cbn.
    eexists; eexists; split; [reflexivity|]. rewrite app_nil_r. split; assumption.
Qed.

(* ------------------------------------------------------------------ source constants *)

Lemma source_constants_c03_lemma :
  Consts.pv_payment_checks_quote_content = true /\ Consts.pv_quote_expiration_secs = 3600 /\
  map kind_of_tag [0; 1; 2; 3; 4; 5; 6; 7; 8] =
  [Some KChunkPaid; Some KChunk; Some KTx; Some KReg; Some KRegPaid; Some KPad; Some KPadPaid;
   Some KTxPaid; None].
Proof. repeat split. Qed.

(* acceptance depends on the MINED state of the contract only: whatever is merely pending is not seen *)
Lemma payment_sees_latest_only_lemma : forall latest pending pending',
  chain_queried latest pending = latest /\ chain_queried latest pending = chain_queried latest pending'.
Proof. intros. unfold chain_queried, verify_block_tag. split; reflexivity. Qed.

Example ex_pending_only_payment_not_seen :
  onchain_valid (chain_queried (ChainOk [(true, 1); (false, 1); (true, 1)]) (ChainOk [(true, 1); (true, 1); (true, 1)])) = false.
Proof. reflexivity. Qed.

(* ------------------------------------------------------------------ non-vacuity *)

Definition ex_env : env := {| e_closest := [0; 1; 2; 3] |}.
Definition ex_quote (pk : peer) (addr : name) : pquote :=
  {| pq_claimed := Some pk;
     pq_quote := {| q_content := addr; q_age := 60000%Z; q_pub := Some pk; q_sig := QBy pk addr |} |}.
Definition ex_proof (addr : name) : proof := [ex_quote 0 addr; ex_quote 1 addr; ex_quote 2 addr].
Definition ex_chain : chain := ChainOk [(true, 5); (true, 7); (true, 11)].
Definition ex_chunk_upload (c : N) (quoted : N) : upload :=
  {| u_key := chunk_key (PData c); u_hdr := kind_of_tag 0; u_proof := Some (ex_proof (chunk_key (PData quoted)));
     u_body := BChunk (PData c); u_chain := ex_chain |}.

(* an honest paid upload of a new chunk is stored (hypotheses of stores_new_only_if_paid are satisfiable) *)
Example ex_paid_new_chunk_stored :
  In (EPut (chunk_key (PData 2)) (SChunk (PData 2))) (effects_of (run [] (client_put ex_env (ex_chunk_upload 2 2))))
  /\ listed [] (chunk_key (PData 2)) = false
  /\ result_of (run [] (client_put ex_env (ex_chunk_upload 2 2))) = Ok tt.
Proof. vm_compute. repeat split. do 3 right. left. reflexivity. Qed.

(* the F9 witness, on the repaired code: a confirmed proof quoted for chunk 1 presented with chunk 2 *)
Example ex_quote_for_other_address_rejected :
  run [] (client_put ex_env (ex_chunk_upload 2 1)) = (Err EPayOtherContent, [], [])
  /\ paid_target (ex_chunk_upload 2 1) = Some (chunk_key (PData 2))
  /\ payment_ok ex_env (chunk_key (PData 2)) (ex_proof (chunk_key (PData 1))) ex_chain = false.
Proof. vm_compute. repeat split. Qed.

Definition ex_pad (ctr : N) : pad :=
  {| p_owner := 1; p_ctr := ctr; p_data := ctr; p_enc := 0; p_sig := PSBy 1 ctr ctr |}.
Definition ex_store_pad : store := [(owner_key 1, {| s_val := SPad (ex_pad 3); s_listed := true |})].
Definition ex_pad_update : upload :=
  {| u_key := owner_key 1; u_hdr := kind_of_tag 5; u_proof := None; u_body := BPad (ex_pad 9); u_chain := ChainErr |}.

(* an unpaid update of a held scratchpad is accepted; the same upload to a node not holding it is not *)
Example ex_unpaid_update_held :
  In (EPut (owner_key 1) (SPad (ex_pad 9))) (effects_of (run ex_store_pad (client_put ex_env ex_pad_update)))
  /\ run [] (client_put ex_env ex_pad_update) = (Err ENoPayment, [], []).
Proof. vm_compute. split; [left|]; reflexivity. Qed.
