(* C08: the transcription of the scheduling loop, run with ANY hash-map iteration order, produces
   a result the acceptor admits (`schedule_code_ok`, `step_code_ok`). *)
From Coq Require Import List NArith Bool Arith Lia Permutation Sorted ZifyBool ZifyNat ZifyN.
From V Require Import gen.Consts model.Fetcher proofs.Fetcher proofs.FetcherDet.
Import ListNotations.
Open Scope N_scope.

Definition dk (e : tbf_entry) : N := kdist (kth_key (fst e)).
Definition dx (x : kth) : N := kdist (kth_key x).
Definition mk (nw : N) (x : kth) : og_entry := (kth_kt x, (kth_holder x, nw + FETCH_T)).

Lemma og_kth_mk nw x : og_kth (mk nw x) = x.
Proof. destruct x as [[k t] h]. reflexivity. Qed.
Lemma og_pair_mk nw x : og_pair (mk nw x) = (kth_holder x, kth_key x).
Proof. destruct x as [[k t] h]. reflexivity. Qed.

(* ---------------------------------------------------------------- insertion sort *)
Lemma insert_sorted_perm e l : Permutation (insert_sorted e l) (e :: l).
Proof.
  induction l as [|x r IH]; cbn; auto.
  destruct (_ <=? _); auto. rewrite IH. apply perm_swap.
Qed.
Lemma isort_perm l : Permutation (isort l) l.
Proof.
  induction l as [|x r IH]; cbn; auto. rewrite insert_sorted_perm. auto.
Qed.
Lemma insert_sorted_SS e l :
  StronglySorted (fun a b => dk a <= dk b) l -> StronglySorted (fun a b => dk a <= dk b) (insert_sorted e l).
Proof.
  induction l as [|x r IH]; cbn; intros HS.
  - constructor; auto.
  - inversion HS as [|? ? Hr Hall]; subst.
    destruct (kdist (kth_key (fst e)) <=? kdist (kth_key (fst x))) eqn:E.
    + apply N.leb_le in E. constructor; auto. constructor; [exact E|].
      rewrite Forall_forall in *. intros y Hy. specialize (Hall y Hy). unfold dk in *. lia.
    + apply N.leb_gt in E. constructor; [apply IH; auto|].
      rewrite Forall_forall in *. intros y Hy.
      apply (Permutation_in _ (insert_sorted_perm e r)) in Hy. destruct Hy as [<-|Hy].
      * unfold dk. lia.
      * apply Hall; auto.
Qed.
Lemma isort_SS l : StronglySorted (fun a b => dk a <= dk b) (isort l).
Proof. induction l as [|x r IH]; cbn; [constructor | apply insert_sorted_SS; auto]. Qed.

(* ---------------------------------------------------------------- sorted lists of N *)
Lemma SS_sorted_N l : StronglySorted N.le l -> sorted_N l = true.
Proof.
  induction l as [|a r IH]; auto. intros HS. inversion HS as [|? ? Hr Hall]; subst.
  cbn [sorted_N]. destruct r as [|b r']; auto.
  apply andb_true_iff. split; [|apply IH; auto].
  apply N.leb_le. rewrite Forall_forall in Hall. apply Hall. left; auto.
Qed.
Lemma SS_cons_all (x : N) l : StronglySorted N.le l -> (forall y, In y l -> x <= y) -> StronglySorted N.le (x :: l).
Proof. intros H1 H2. constructor; [auto|]. apply Forall_forall. auto. Qed.

(* ---------------------------------------------------------------- the loop *)
Lemma NoDup_app_disj {A} (l1 l2 : list A) :
  NoDup l1 -> NoDup l2 -> (forall x, In x l1 -> ~ In x l2) -> NoDup (l1 ++ l2).
Proof.
  induction l1 as [|a r IH]; cbn; auto. intros H1 H2 Hd. inversion H1; subst.
  constructor.
  - rewrite in_app_iff. intros [H|H]; [contradiction | apply (Hd a); auto].
  - apply IH; auto; intros x Hx; apply Hd; auto.
Qed.

Lemma loop_spec nw l : forall og acc og' acc',
  sched_loop nw l og acc = (og', acc') ->
  exists picks,
    og' = og ++ map (mk nw) picks /\ acc' = acc ++ picks /\
    (forall x, In x picks -> In x (map fst l)) /\
    (forall x, In x picks -> ~ In (kth_kt x) (map fst og)) /\
    NoDup (map kth_kt picks) /\
    (picks <> [] -> (length og' <= MAXn)%nat) /\
    ((length og' < MAXn)%nat -> forall e, In e l -> In (kth_kt (fst e)) (map fst og')) /\
    (StronglySorted (fun a b => dk a <= dk b) l ->
       StronglySorted N.le (map dx picks) /\
       (forall e, In e l -> ~ In (kth_kt (fst e)) (map fst og') -> forall x, In x picks -> dx x <= dk e) /\
       (forall x e, In x picks -> In e l -> (forall e0, In e0 l -> dk e <= dk e0) -> dk e <= dx x)).
Proof.
  induction l as [|e r IH]; intros og acc og' acc' H.
  - cbn in H. inversion H; subst. exists []. rewrite !app_nil_r. cbn.
    repeat split; auto; try tauto; try constructor.
  - cbn [sched_loop] in H.
    destruct ((length og <? MAXn)%nat && negb (og_mem (kth_kt (fst e)) og)) eqn:C.
    + (* pick e *)
      apply andb_true_iff in C. destruct C as [Clt Cmem]. apply Nat.ltb_lt in Clt.
      apply negb_true_iff, og_mem_false in Cmem.
      set (og1 := og ++ [(kth_kt (fst e), (kth_holder (fst e), nw + FETCH_T))]) in *.
      assert (Hl1 : length og1 = S (length og)) by (subst og1; rewrite app_length; cbn; lia).
      destruct (MAXn <=? length og1)%nat eqn:B.
      * (* break *)
        inversion H; subst og' acc'. exists [fst e]. cbn [map].
        split; [reflexivity|]. split; [reflexivity|].
        split. { intros x [<-|[]]. left; auto. }
        split. { intros x [<-|[]]. auto. }
        split. { constructor; [intros []|constructor]. }
        split. { intros _. lia. }
        split. { intros Hlt. apply Nat.leb_le in B. lia. }
        intros HS. apply StronglySorted_inv in HS. destruct HS as [Hr Hall]. rewrite Forall_forall in Hall.
        split. { constructor; [constructor|constructor]. }
        split.
        { intros e0 [<-|He0] Hn x [<-|[]].
          - exfalso. apply Hn. subst og1. rewrite map_app, in_app_iff. right. left. reflexivity.
          - apply Hall; auto. }
        { intros x e0 [<-|[]] He0 Hmin. apply Hmin. left; auto. }
      * (* continue *)
        apply Nat.leb_gt in B.
        destruct (IH _ _ _ _ H) as (picks & Ho & Ha & P1 & P2 & P3 & P4 & P5 & P6).
        exists (fst e :: picks). cbn [map].
        split. { rewrite Ho. subst og1. rewrite <- app_assoc. reflexivity. }
        split. { rewrite Ha. rewrite <- app_assoc. reflexivity. }
        split. { intros x [<-|Hx]; [left; auto | right; auto]. }
        split. { intros x [<-|Hx]; auto. intros Hin. apply (P2 x Hx). subst og1. rewrite map_app, in_app_iff. auto. }
        split. { constructor; auto. intros Hin. apply in_map_iff in Hin. destruct Hin as (x & Hq & Hx).
                 apply (P2 x Hx). rewrite Hq. subst og1. rewrite map_app, in_app_iff. right. left. reflexivity. }
        split. { intros _. destruct picks as [|p ps].
                 - rewrite Ho. cbn [map]. rewrite app_nil_r. lia.
                 - apply P4. discriminate. }
        split. { intros Hlt e0 [<-|He0]; [|apply P5; auto].
                 rewrite Ho, map_app, in_app_iff. left. subst og1. rewrite map_app, in_app_iff. right. left. reflexivity. }
        intros HS. apply StronglySorted_inv in HS. destruct HS as [Hr Hall]. rewrite Forall_forall in Hall.
        destruct (P6 Hr) as (Q1 & Q2 & Q3).
        split. { apply SS_cons_all; auto. intros y Hy. apply in_map_iff in Hy. destruct Hy as (x & <- & Hx).
                 pose proof (P1 x Hx) as P1x. apply in_map_iff in P1x. destruct P1x as (e1 & <- & He1).
                 apply (Hall e1 He1). }
        split.
        { intros e0 [<-|He0] Hn x [<-|Hx].
          - unfold dx, dk. lia.
          - exfalso. apply Hn. rewrite Ho, map_app, in_app_iff. left. subst og1.
            rewrite map_app, in_app_iff. right. left. reflexivity.
          - apply Hall; auto.
          - apply Q2; auto. }
        { intros x e0 [<-|Hx] He0 Hmin.
          - apply Hmin. left; auto.
          - specialize (P1 x Hx). apply in_map_iff in P1. destruct P1 as (e1 & <- & He1).
            apply Hmin. right; auto. }
    + (* do not pick e *)
      destruct (MAXn <=? length og)%nat eqn:B.
      * inversion H; subst og' acc'. exists []. cbn [map]. rewrite !app_nil_r.
        split; [reflexivity|]. split; [reflexivity|].
        split. { intros x []. }
        split. { intros x []. }
        split. { constructor. }
        split. { intros Hn. congruence. }
        split. { intros Hlt. apply Nat.leb_le in B. lia. }
        intros HS. split; [constructor|]. split; intros; contradiction.
      * apply Nat.leb_gt in B.
        assert (Cm : In (kth_kt (fst e)) (map fst og)).
        { apply andb_false_iff in C. destruct C as [C|C].
          - apply Nat.ltb_ge in C. lia.
          - apply negb_false_iff in C. apply og_mem_In; auto. }
        destruct (IH _ _ _ _ H) as (picks & Ho & Ha & P1 & P2 & P3 & P4 & P5 & P6).
        exists picks.
        split; [auto|]. split; [auto|].
        split. { intros x Hx. right. auto. }
        split; [auto|]. split; [auto|]. split; [auto|].
        split. { intros Hlt e0 [<-|He0]; [|apply P5; auto]. rewrite Ho, map_app, in_app_iff. auto. }
        intros HS. apply StronglySorted_inv in HS. destruct HS as [Hr Hall]. rewrite Forall_forall in Hall.
        destruct (P6 Hr) as (Q1 & Q2 & Q3).
        split; [auto|]. split.
        { intros e0 [<-|He0] Hn x Hx.
          - exfalso. apply Hn. rewrite Ho, map_app, in_app_iff. auto.
          - apply Q2; auto. }
        { intros x e0 Hx He0 Hmin. specialize (P1 x Hx). apply in_map_iff in P1. destruct P1 as (e1 & <- & He1).
          apply Hmin. right; auto. }
Qed.

(* ---------------------------------------------------------------- idle scheduling *)
Lemma fresh_self s : fresh s s = [].
Proof.
  unfold fresh. apply filter_none. intros e He. apply negb_false_iff. apply og_mem_In. apply in_map; auto.
Qed.

Lemma SchedSpec_idle s :
  Wf s -> (MAXn <= length (ongoing s))%nat \/ tbf s = [] -> SchedSpec s [] s.
Proof.
  intros W Hc. constructor; rewrite ?fresh_self.
  - auto.
  - exact W.
  - auto.
  - auto.
  - intros e [].
  - apply perm_nil.
  - reflexivity.
  - intros e He. split; auto. intros (n & [] & _).
  - intros e He. right; auto.
  - intros Hn. congruence.
  - reflexivity.
  - intros Hlt e He. destruct Hc as [Hc|Hc]; [lia | rewrite Hc in He; contradiction].
  - intros _ _ e _ _ p [].
Qed.

(* ---------------------------------------------------------------- schedule_code *)
Lemma filter_app_split {A} (p : A -> bool) l1 l2 :
  (forall x, In x l1 -> p x = false) -> (forall x, In x l2 -> p x = true) -> filter p (l1 ++ l2) = l2.
Proof. intros H1 H2. rewrite filter_app, (filter_none _ _ H1), (filter_all _ _ H2). reflexivity. Qed.

Theorem schedule_code_ok iter s :
  (forall l, Permutation (iter l) l) -> Wf s ->
  SchedSpec s (snd (schedule_code iter s)) (fst (schedule_code iter s)).
Proof.
  intros Hperm W. unfold schedule_code.
  destruct (MAXn <=? length (ongoing s))%nat eqn:B.
  { cbn [fst snd]. apply SchedSpec_idle; auto. left. apply Nat.leb_le; auto. }
  apply Nat.leb_gt in B.
  destruct (tbf s) as [|t0 tr] eqn:Et.
  { cbn [fst snd]. apply SchedSpec_idle; auto. }
  rewrite <- Et in *. clear t0 tr Et.
  set (l := isort (iter (tbf s))).
  assert (PL : Permutation l (tbf s)) by (subst l; rewrite isort_perm; apply Hperm).
  assert (SL : StronglySorted (fun a b => dk a <= dk b) l) by (subst l; apply isort_SS).
  destruct (sched_loop (now s) l (ongoing s) []) as [og' picks0] eqn:EL.
  destruct (loop_spec _ _ _ _ _ _ EL) as (picks & Ho & Ha & P1 & P2 & P3 & P4 & P5 & P6).
  cbn in Ha. subst picks0. destruct (P6 SL) as (Q1 & Q2 & _). clear P6.
  cbn [fst snd].
  set (post := mkState (filter (fun e => negb (kth_in (fst e) picks)) (tbf s)) og' (range s) (farthest s) (now s)).
  assert (Hfresh : fresh s post = map (mk (now s)) picks).
  { unfold fresh. subst post. cbn [ongoing]. rewrite Ho. apply filter_app_split.
    - intros e He. apply negb_false_iff. apply og_mem_In. apply in_map; auto.
    - intros e He. apply negb_true_iff. apply og_mem_false. apply in_map_iff in He.
      destruct He as (x & <- & Hx). cbn [fst mk]. apply P2; auto. }
  assert (Hpk : forall x, In x picks -> In x (map fst (tbf s))).
  { intros x Hx. specialize (P1 x Hx). apply in_map_iff in P1. destruct P1 as (e & <- & He).
    apply in_map. apply (Permutation_in _ PL). auto. }
  destruct W as [W1 W2].
  constructor; rewrite ?Hfresh.
  - subst post; cbn; auto.
  - subst post. split; cbn [tbf ongoing].
    + apply NoDup_map_filter; auto.
    + rewrite Ho, map_app. apply NoDup_app_disj; auto.
      * rewrite map_map. cbn [fst mk]. exact P3.
      * intros x Hx Hin. rewrite map_map in Hin. cbn [fst mk] in Hin.
        apply in_map_iff in Hin. destruct Hin as (y & <- & Hy). apply (P2 y Hy). auto.
  - subst post; cbn [ongoing]. intros e He. rewrite Ho, in_app_iff. auto.
  - subst post; cbn [ongoing]. intros e He Hk. rewrite Ho, in_app_iff in He. destruct He as [He|He]; auto.
    apply in_map_iff in He. destruct He as (x & <- & Hx). exfalso. apply (P2 x Hx). exact Hk.
  - intros e He. apply in_map_iff in He. destruct He as (x & <- & Hx). rewrite og_kth_mk. split; auto.
  - rewrite map_map. erewrite map_ext; [apply Permutation_refl|]. intros x. cbn. rewrite og_pair_mk. reflexivity.
  - apply SS_sorted_N. rewrite map_map. cbn [snd]. exact Q1.
  - subst post; cbn [tbf]. intros e He. apply filter_In in He. destruct He as [He Hn]. split; auto.
    intros (n & Hn1 & Hn2). apply in_map_iff in Hn1. destruct Hn1 as (x & <- & Hx). rewrite og_kth_mk in Hn2.
    subst x. apply negb_true_iff in Hn. assert (kth_in (fst e) picks = true) by (apply kth_in_In; auto). congruence.
  - subst post; cbn [tbf]. intros e He. destruct (kth_in (fst e) picks) eqn:E.
    + left. apply kth_in_In in E. exists (mk (now s) (fst e)). split; [apply in_map; auto | apply og_kth_mk].
    + right. apply filter_In. split; auto. rewrite E. reflexivity.
  - subst post; cbn [ongoing]. intros Hn. apply P4. intros Hp. apply Hn. rewrite Hp. reflexivity.
  - intros Hge. lia.
  - subst post; cbn [ongoing]. intros Hlt e He. apply P5; auto. apply (Permutation_in _ (Permutation_sym PL)); auto.
  - subst post; cbn [ongoing]. intros Hge Hlt e He Hn p Hp.
    apply in_map_iff in Hp. destruct Hp as (x & <- & Hx). cbn [snd].
    apply (Q2 e); auto. apply (Permutation_in _ (Permutation_sym PL)); auto.
Qed.

(* ---------------------------------------------------------------- whole operations *)
Lemma st_equiv_refl s : Wf s -> st_equiv s s = true.
Proof. intros W. apply st_equiv_spec. split; [auto|]. split; [auto|]. split; intros e; tauto. Qed.

Lemma set_farthest_Wf s fk : Wf s -> Wf (set_farthest s fk).
Proof.
  intros [W1 W2]. unfold set_farthest. destruct fk as [k|]; [|split; auto].
  destruct (farthest s) as [old|].
  - destruct (old <=? kdist k); split; cbn [tbf ongoing]; auto; apply NoDup_map_filter; auto.
  - split; cbn [tbf ongoing]; apply NoDup_map_filter; auto.
Qed.

Lemma events_eqb_refl ev : (forall a, In a ev -> True) -> events_eqb ev ev = true.
Proof.
  intros _. unfold events_eqb. rewrite Nat.eqb_refl. cbn. induction ev as [|a r IH]; cbn; auto.
  rewrite IH, andb_true_r. apply peers_same_set_spec. tauto.
Qed.

Theorem step_code_ok iter s o :
  (forall l, Permutation (iter l) l) -> Wf s ->
  step_ok s o (snd (step_code iter s o)) (fst (step_code iter s o)) = true.
Proof.
  intros Hperm W. unfold step_code.
  destruct (pre_prune s o) as [[s1 fast]|] eqn:E.
  - rewrite (settle_sched _ _ _ _ E).
    pose proof (schedule_code_ok iter (fst (prune s1)) Hperm) as HS.
    destruct (schedule_code iter (fst (prune s1))) as [post batch]. cbn [fst snd] in *.
    apply (step_ok_sched _ _ _ _ _ _ E). cbn [events ret]. split.
    + apply events_eqb_refl. auto.
    + exists batch. split; auto. apply HS. apply prune_Wf. eapply pre_prune_Wf; eauto.
  - assert (Hm : settle s o = (mid_of s o, [], [], false)).
    { unfold mid_of, settle. rewrite E. reflexivity. }
    rewrite Hm. cbn [fst snd].
    apply (step_ok_nosched _ _ _ _ E). cbn [events ret]. repeat split; auto.
    apply st_equiv_refl. unfold mid_of, settle. rewrite E. cbn [fst].
    destruct o; try discriminate; auto. apply set_farthest_Wf; auto.
Qed.
