(* SignedRegister: merge laws, acceptance of operations, convergence of deliveries, validity of
   reachable states (and where the entry limit breaks it), the client's rebuild of the CRDT. *)
From Coq Require Import List NArith Bool Lia Arith.
From V Require Import lib.Strs gen.Consts model.MerkleReg model.Register
  proofs.MerkleRegSorted proofs.MerkleReg proofs.MerkleRegThms proofs.RegisterOrd.
Import ListNotations.
Open Scope N_scope.

Lemma constants_ok : Consts.max_reg_entry_size = 1024 /\ Consts.max_reg_num_entries = 1024.
Proof. split; reflexivity. Qed.

Notation osorted := (ksorted (fun o : op => o) cmp_op).
Notation OL := op_laws.

Definition wf (r : sreg) : Prop := osorted (ops r).
Definition same_base (a b : sreg) : Prop := base a = base b.

Lemma oins_In x l : osorted l -> forall y, In y (oins x l) <-> y = x \/ In y l.
Proof. apply (sins_In cmp_op OL). Qed.
Lemma oins_sorted x l : osorted l -> osorted (oins x l).
Proof. apply (kins_sorted _ _ OL). Qed.
Lemma ounion_In a b : osorted a -> forall y, In y (ounion a b) <-> In y a \/ In y b.
Proof. intros Ha. apply (sunion_In cmp_op OL b a Ha). Qed.
Lemma ounion_sorted a b : osorted a -> osorted (ounion a b).
Proof. apply (kunion_sorted _ _ OL). Qed.
Lemma osorted_ext a b : osorted a -> osorted b -> (forall x, In x a <-> In x b) -> a = b.
Proof. intros Ha Hb. apply (ksorted_ext _ _ OL a Ha b Hb). Qed.
Lemma oins_present x l : osorted l -> In x l -> oins x l = l.
Proof. apply (sins_present cmp_op OL). Qed.

Lemma kins_length_ge {A K} (key : A -> K) cmp x l : (length l <= length (kins key cmp x l))%nat.
Proof. induction l as [|y l IH]; cbn; [lia|]. destruct (cmp (key x) (key y)); cbn; lia. Qed.
Lemma kunion_length_ge {A K} (key : A -> K) cmp b : forall a, (length a <= length (kunion key cmp a b))%nat.
Proof.
  unfold kunion. induction b as [|x b IH]; intros a; cbn; [lia|].
  etransitivity; [apply (kins_length_ge key cmp x a) | apply IH].
Qed.

Section RegThms.
  Variable H : node -> N.
  Variable D64 : address -> N -> N -> N.

  Notation add_op := (add_op H D64).
  Notation merge := (merge).
  Notation verified_merge := (verified_merge H D64).
  Notation verify := (verify H D64).
  Notation verify_in := (verify_in H D64).
  Notation check_register_op := (check_register_op H D64).
  Notation op_ok := (op_ok H D64).
  Notation deliver := (deliver H D64).
  Notation reachable := (reachable H D64).

  (* ---------------------------------------------------------------- merge *)
  Lemma mergeable_iff a b : mergeable (base a) (base b) = true <-> same_base a b.
  Proof.
    unfold mergeable, same_base. rewrite andb_true_iff, addr_eqb_iff, perms_eqb_iff.
    destruct (base a), (base b). cbn. split; [intros [-> ->]; reflexivity | intros E; inversion E; auto].
  Qed.

  Lemma merge_same a b : same_base a b -> merge a b = (Ok, with_ops a (ounion (ops a) (ops b))).
  Proof. intros Hs. apply mergeable_iff in Hs. unfold Register.merge. rewrite Hs. reflexivity. Qed.

  Lemma merge_diff a b : ~ same_base a b ->
    merge a b = (Err EDifferentBase, a) /\ verified_merge a b = (Err EDifferentBase, a).
  Proof.
    intros Hn. assert (mergeable (base a) (base b) = false) as E.
    { destruct (mergeable (base a) (base b)) eqn:E; [|reflexivity]. apply mergeable_iff in E. contradiction. }
    unfold Register.merge, Register.verified_merge, verified_merge_in. rewrite E. auto.
  Qed.

  Lemma merge_comm_lemma a b : wf a -> wf b -> same_base a b ->
    ops (snd (merge a b)) = ops (snd (merge b a)).
  Proof.
    intros Wa Wb Hs. rewrite (merge_same a b Hs), (merge_same b a (eq_sym Hs)). cbn.
    apply osorted_ext; try (apply ounion_sorted; assumption).
    intros x. rewrite !ounion_In by assumption. tauto.
  Qed.

  Lemma merge_assoc_lemma a b c : wf a -> wf b -> wf c -> same_base a b -> same_base b c ->
    ops (snd (merge (snd (merge a b)) c)) = ops (snd (merge a (snd (merge b c)))).
  Proof.
    intros Wa Wb Wc Hab Hbc.
    rewrite (merge_same a b Hab), (merge_same b c Hbc). cbn [snd].
    rewrite (merge_same (with_ops a _) c) by (unfold same_base in *; cbn; congruence).
    rewrite (merge_same a (with_ops b _)) by (unfold same_base in *; cbn; congruence).
    cbn. apply osorted_ext.
    - apply ounion_sorted, ounion_sorted, Wa.
    - apply ounion_sorted, Wa.
    - intros x. rewrite (ounion_In (ounion (ops a) (ops b)) (ops c)) by (apply ounion_sorted, Wa).
      rewrite (ounion_In (ops a) (ops b)) by exact Wa.
      rewrite (ounion_In (ops a) (ounion (ops b) (ops c))) by exact Wa.
      rewrite (ounion_In (ops b) (ops c)) by exact Wb. tauto.
  Qed.

  Lemma merge_idem_lemma a : wf a -> merge a a = (Ok, a).
  Proof.
    intros Wa. rewrite (merge_same a a eq_refl). f_equal.
    assert (ounion (ops a) (ops a) = ops a) as ->.
    { apply osorted_ext; [apply ounion_sorted, Wa | exact Wa |]. intros x. rewrite ounion_In by exact Wa. tauto. }
    destruct a; reflexivity.
  Qed.

  Lemma verified_merge_lemma a b :
    (same_base a b -> verify b = Ok -> verified_merge a b = merge a b) /\
    (fst (verified_merge a b) <> Ok -> snd (verified_merge a b) = a).
  Proof.
    unfold Register.verified_merge, verified_merge_in, Register.merge, Register.verify. split.
    - intros Hs Hv. apply mergeable_iff in Hs. rewrite Hs, Hv. reflexivity.
    - destruct (mergeable (base a) (base b)); [|reflexivity].
      destruct (Register.verify_in H D64 b (ops b)); cbn; [congruence | reflexivity].
  Qed.

  (* ---------------------------------------------------------------- accepting an operation *)
  Definition authorised (b : register) (o : op) : Prop :=
    oaddr o = raddr b /\
    (rperms b = Anyone \/
     exists ws, rperms b = Writers ws /\ In (osource o) ws /\
                osig o = Sig (osource o) (MOp (D64 (oaddr o) (H (onode o)) (osource o)))).

  Lemma check_ok_iff b o : check_register_op b o = Ok <-> authorised b o.
  Proof.
    unfold Register.check_register_op, authorised, check_user_permissions, verify_signature, op_msg.
    destruct (addr_eqb (oaddr o) (raddr b)) eqn:Ea; cbn.
    - apply addr_eqb_iff in Ea. destruct (rperms b) as [|ws]; cbn.
      + split; auto.
      + destruct (nhas (osource o) ws) eqn:Ew.
        * apply nhas_iff in Ew.
          destruct (sig_eqb (osig o) (Sig (osource o) (MOp (D64 (oaddr o) (H (onode o)) (osource o))))) eqn:Es.
          -- apply sig_eqb_iff in Es. split; [|reflexivity]. intros _. split; [exact Ea|]. right. exists ws. auto.
          -- split; [discriminate|]. intros [_ [F|(ws' & E & _ & Hs)]]; [discriminate|].
             apply sig_eqb_iff in Hs. congruence.
        * split; [discriminate|]. intros [_ [F|(ws' & E & Hi & _)]]; [discriminate|].
          inversion E; subst. apply nhas_iff in Hi. congruence.
    - split; [discriminate|]. intros [E _]. apply addr_eqb_iff in E. congruence.
  Qed.

  Lemma op_ok_iff b o : op_ok b o = true <-> authorised b o /\ esize o <= MAX_ENTRY_SIZE.
  Proof.
    unfold Register.op_ok. rewrite <- check_ok_iff. destruct (check_register_op b o).
    - rewrite N.leb_le. tauto.
    - split; [discriminate | intros [F _]; discriminate].
  Qed.

  Lemma accept_iff r o :
    fst (add_op r o) = Ok <->
    authorised (base r) o /\ esize o <= MAX_ENTRY_SIZE /\ len (ops r) < MAX_ENTRIES.
  Proof.
    unfold Register.add_op. rewrite <- check_ok_iff.
    destruct (MAX_ENTRIES <=? len (ops r)) eqn:E1; cbn.
    - apply N.leb_le in E1. split; [discriminate | intros (_ & _ & Hl); lia].
    - apply N.leb_gt in E1. destruct (MAX_ENTRY_SIZE <? esize o) eqn:E2; cbn.
      + apply N.ltb_lt in E2. split; [discriminate | intros (_ & Hl & _); lia].
      + apply N.ltb_ge in E2. destruct (check_register_op (base r) o); cbn; [tauto|].
        split; [discriminate | intros (F & _); discriminate].
  Qed.

  Lemma add_op_cases r o :
    (fst (add_op r o) = Ok /\ snd (add_op r o) = with_ops r (oins o (ops r))) \/
    (fst (add_op r o) <> Ok /\ snd (add_op r o) = r).
  Proof.
    unfold Register.add_op. destruct (MAX_ENTRIES <=? len (ops r)); [right; cbn; split; [discriminate|reflexivity]|].
    destruct (MAX_ENTRY_SIZE <? esize o); [right; cbn; split; [discriminate|reflexivity]|].
    destruct (check_register_op (base r) o); [left; auto | right; cbn; split; [discriminate|reflexivity]].
  Qed.

  Lemma add_op_effect_lemma r o : wf r ->
    (fst (add_op r o) = Ok ->
       base (snd (add_op r o)) = base r /\ bsig (snd (add_op r o)) = bsig r /\ wf (snd (add_op r o)) /\
       forall x, In x (ops (snd (add_op r o))) <-> x = o \/ In x (ops r)) /\
    (fst (add_op r o) <> Ok -> snd (add_op r o) = r).
  Proof.
    intros W. destruct (add_op_cases r o) as [[E1 E2]|[E1 E2]]; rewrite E2; split.
    - intros _. cbn. split; [reflexivity|]. split; [reflexivity|]. split; [apply oins_sorted, W|].
      apply oins_In, W.
    - intros F. contradiction.
    - intros F. contradiction.
    - reflexivity.
  Qed.

  Lemma add_op_base r o : base (snd (add_op r o)) = base r.
  Proof. destruct (add_op_cases r o) as [[_ ->]|[_ ->]]; reflexivity. Qed.

  Lemma unauthorised_lemma r o ws : rperms (base r) = Writers ws -> ~ In (osource o) ws ->
    fst (add_op r o) <> Ok.
  Proof.
    intros Hp Hn Ha. apply accept_iff in Ha as ((_ & [F|(ws' & E & Hi & _)]) & _); congruence.
  Qed.

  Lemma forged_lemma r o ws : rperms (base r) = Writers ws ->
    osig o <> Sig (osource o) (MOp (D64 (oaddr o) (H (onode o)) (osource o))) ->
    fst (add_op r o) <> Ok.
  Proof.
    intros Hp Hn Ha. apply accept_iff in Ha as ((_ & [F|(ws' & E & _ & Hs)]) & _); congruence.
  Qed.

  (* a genuine signature moved onto an operation with another address, node or source *)
  Lemma tampered_lemma r ws a n s o' : rperms (base r) = Writers ws ->
    osig o' = osig (op_new H D64 a n s) ->
    (osource o' <> s \/ D64 (oaddr o') (H (onode o')) (osource o') <> D64 a (H n) s) ->
    fst (add_op r o') <> Ok.
  Proof.
    intros Hp Hs Hd. apply (forged_lemma r o' ws Hp). rewrite Hs. cbn. intros E. inversion E as [[E1 E2]].
    destruct Hd as [Hd|Hd]; [apply Hd; symmetry; exact E1 | apply Hd; rewrite E1; symmetry; exact E2].
  Qed.

  Lemma foreign_lemma r o : oaddr o <> raddr (base r) ->
    fst (add_op r o) <> Ok /\ forall order, In o order -> verify_in r order <> Ok.
  Proof.
    intros Hn. split.
    - intros Ha. apply accept_iff in Ha as ((E & _) & _). contradiction.
    - intros order Hi. unfold Register.verify_in.
      destruct (MAX_ENTRIES <=? len (ops r)); [discriminate|].
      destruct (negb (owner_sig_ok (base r) (bsig r))); [discriminate|].
      induction order as [|x t IH]; [destruct Hi|]. cbn.
      destruct (check_register_op (base r) x) eqn:Ec; [|discriminate].
      destruct (MAX_ENTRY_SIZE <? esize x); [discriminate|].
      destruct Hi as [->|Hi]; [|apply IH, Hi].
      apply check_ok_iff in Ec as [E _]. contradiction.
  Qed.

  Lemma oversized_lemma r o : MAX_ENTRY_SIZE < esize o -> fst (add_op r o) <> Ok.
  Proof. intros Hs Ha. apply accept_iff in Ha as (_ & Hl & _). lia. Qed.

  (* ---------------------------------------------------------------- deliveries converge *)
  Lemma op_not_ok_unchanged r o : op_ok (base r) o = false -> snd (add_op r o) = r.
  Proof.
    intros Hn. destruct (add_op_cases r o) as [[E _]|[_ E]]; [|exact E]. exfalso.
    apply accept_iff in E as (Ha & Hs & _).
    assert (op_ok (base r) o = true) by (apply op_ok_iff; auto). congruence.
  Qed.

  Lemma ounion_cons a o b : ounion a (o :: b) = ounion (oins o a) b.
  Proof. reflexivity. Qed.

  Lemma deliver_union_lemma l : forall r, wf r ->
    len (ounion (ops r) (filter (op_ok (base r)) l)) <= MAX_ENTRIES ->
    deliver r l = with_ops r (ounion (ops r) (filter (op_ok (base r)) l)).
  Proof.
    induction l as [|o l IH]; intros r W Hlen.
    - cbn. destruct r; reflexivity.
    - change (deliver r (o :: l)) with (deliver (snd (add_op r o)) l).
      cbn [filter] in *. destruct (op_ok (base r) o) eqn:Eok.
      + rewrite ounion_cons in *.
        destruct (add_op_cases r o) as [[Ea Es]|[Ea Es]]; rewrite Es.
        * rewrite IH; cbn; [reflexivity | apply oins_sorted, W | exact Hlen].
        * (* refused although acceptable: the register is full, so o is already there *)
          assert (In o (ops r)) as Hin.
          { destruct (in_dec (fun a b => ltac:(destruct (op_eqb a b) eqn:E; [left; apply op_eqb_iff, E | right; intros F; apply op_eqb_iff in F; congruence])) o (ops r)) as [Hi|Hni]; [exact Hi|].
            exfalso. apply Ea. apply accept_iff. apply op_ok_iff in Eok as [Hau Hsz].
            split; [exact Hau|]. split; [exact Hsz|].
            pose proof (sins_length_new cmp_op OL o (ops r) W Hni) as Hl1. fold (oins o (ops r)) in Hl1.
            pose proof (kunion_length_ge (fun o : op => o) cmp_op (filter (op_ok (base r)) l) (oins o (ops r))) as Hl2.
            fold (ounion (oins o (ops r)) (filter (op_ok (base r)) l)) in Hl2. unfold len in *. lia. }
          rewrite (oins_present o (ops r) W Hin) in *. apply IH; assumption.
      + rewrite (op_not_ok_unchanged r o Eok). apply IH; assumption.
  Qed.

  Lemma converge_lemma r l1 l2 : wf r -> (forall o, In o l1 <-> In o l2) ->
    len (ounion (ops r) (filter (op_ok (base r)) l1)) <= MAX_ENTRIES ->
    ops (deliver r l1) = ops (deliver r l2).
  Proof.
    intros W Hsame Hlen.
    assert (ounion (ops r) (filter (op_ok (base r)) l1) = ounion (ops r) (filter (op_ok (base r)) l2)) as E.
    { apply osorted_ext; try (apply ounion_sorted, W). intros x.
      rewrite !ounion_In by exact W. rewrite !filter_In, Hsame. tauto. }
    rewrite (deliver_union_lemma l1 r W Hlen). rewrite E in Hlen.
    rewrite (deliver_union_lemma l2 r W Hlen). cbn. exact E.
  Qed.

  (* ---------------------------------------------------------------- reachable states *)
  Definition sound (r : sreg) : Prop :=
    wf r /\ owner_sig_ok (base r) (bsig r) = true /\ forall o, In o (ops r) -> op_ok (base r) o = true.

  Lemma reachable_sound r : reachable r -> sound r.
  Proof.
    induction 1 as [b s Hs | r o Hr IH | r r' Hr IH Hr' IH' | r r' Hr IH Hr' IH'].
    - split; [constructor|]. split; [exact Hs | intros o []].
    - destruct IH as (W & Hsig & Hops). destruct (add_op_cases r o) as [[Ea ->]|[_ ->]]; [|split; auto].
      split; [apply oins_sorted, W|]. split; [exact Hsig|]. cbn. intros x Hx.
      apply oins_In in Hx; [|exact W]. destruct Hx as [->|Hx]; [|auto].
      apply accept_iff in Ea as (Ha & Hsz & _). apply op_ok_iff. auto.
    - destruct IH as (W & Hsig & Hops), IH' as (W' & Hsig' & Hops').
      unfold Register.merge. destruct (mergeable (base r) (base r')) eqn:Em; [|split; auto].
      apply mergeable_iff in Em. cbn. split; [apply ounion_sorted, W|]. split; [exact Hsig|].
      cbn. intros x Hx. apply ounion_In in Hx; [|exact W]. destruct Hx as [Hx|Hx]; [auto|].
      unfold same_base in Em. rewrite Em. auto.
    - destruct IH as (W & Hsig & Hops), IH' as (W' & Hsig' & Hops').
      unfold Register.verified_merge, verified_merge_in.
      destruct (mergeable (base r) (base r')) eqn:Em; [|split; auto].
      destruct (Register.verify_in H D64 r' (ops r')); [|split; auto].
      apply mergeable_iff in Em. cbn. split; [apply ounion_sorted, W|]. split; [exact Hsig|].
      cbn. intros x Hx. apply ounion_In in Hx; [|exact W]. destruct Hx as [Hx|Hx]; [auto|].
      unfold same_base in Em. rewrite Em. auto.
  Qed.

  Lemma verify_ops_ok b l : (forall o, In o l -> op_ok b o = true) -> verify_ops H D64 b l = Ok.
  Proof.
    induction l as [|o l IH]; intros Hall; cbn; [reflexivity|].
    pose proof (Hall o (or_introl eq_refl)) as Ho. unfold Register.op_ok in Ho.
    destruct (check_register_op b o); [|discriminate].
    apply N.leb_le in Ho. destruct (MAX_ENTRY_SIZE <? esize o) eqn:E; [apply N.ltb_lt in E; lia|].
    apply IH. intros x Hx. apply Hall. right. exact Hx.
  Qed.

  Lemma verify_ops_inv b l : verify_ops H D64 b l = Ok -> forall o, In o l -> op_ok b o = true.
  Proof.
    induction l as [|x l IH]; intros Hv o Hi; [destruct Hi|]. cbn in Hv. unfold Register.op_ok.
    destruct (check_register_op b x) eqn:Ec; [|discriminate].
    destruct (MAX_ENTRY_SIZE <? esize x) eqn:E; [discriminate|]. apply N.ltb_ge in E.
    destruct Hi as [<-|Hi]; [rewrite Ec; apply N.leb_le, E | apply (IH Hv o Hi)].
  Qed.

  Lemma sound_verifies r order : sound r -> (forall o, In o order -> In o (ops r)) ->
    len (ops r) < MAX_ENTRIES -> verify_in r order = Ok.
  Proof.
    intros (W & Hsig & Hops) Hsub Hlen. unfold Register.verify_in.
    destruct (MAX_ENTRIES <=? len (ops r)) eqn:E; [apply N.leb_le in E; lia|].
    rewrite Hsig. cbn. apply verify_ops_ok. auto.
  Qed.

  Lemma reachable_valid_lemma r : reachable r -> len (ops r) < MAX_ENTRIES ->
    verify r = Ok /\ forall order, (forall o, In o order -> In o (ops r)) -> verify_in r order = Ok.
  Proof.
    intros Hr Hl. apply reachable_sound in Hr. split; [|intros order Hs]; apply sound_verifies; auto.
  Qed.

  Lemma reachable_peers_lemma r r' : reachable r -> reachable r' -> same_base r' r ->
    len (ops r) < MAX_ENTRIES ->
    verified_merge r' r = (Ok, with_ops r' (ounion (ops r') (ops r))).
  Proof.
    intros Hr Hr' Hs Hl. unfold Register.verified_merge, verified_merge_in.
    apply mergeable_iff in Hs. rewrite Hs.
    destruct (reachable_valid_lemma r Hr Hl) as [Hv _]. unfold Register.verify in Hv. rewrite Hv. reflexivity.
  Qed.

  Lemma reachable_deliver r l : reachable r -> reachable (deliver r l).
  Proof.
    revert r. induction l as [|o l IH]; intros r Hr; [exact Hr|].
    unfold Register.deliver. cbn. apply IH. constructor. exact Hr.
  Qed.

  (* ---------------------------------------------------------------- the client's rebuild *)
  Lemma client_apply_ok a : forall l c, caddr c = a -> (forall o, In o l -> oaddr o = a) ->
    client_apply H c l = (Ok, mkcrdt a (fold_left (mr_apply H) (map onode l) (cdata c))).
  Proof.
    induction l as [|o l IH]; intros c Hc Hall; cbn.
    - destruct c. cbn in *. subst. reflexivity.
    - unfold crdt_apply_op. rewrite Hc, (Hall o (or_introl eq_refl)), addr_eqb_refl.
      rewrite IH; [reflexivity | reflexivity | intros x Hx; apply Hall; right; exact Hx].
  Qed.

  Lemma verified_applies_lemma r order : verify_in r order = Ok ->
    client_build H r order = (Ok, mkcrdt (raddr (base r)) (mr_deliver H (map onode order))).
  Proof.
    intros Hv. unfold client_build, crdt_new. unfold Register.verify_in in Hv.
    destruct (MAX_ENTRIES <=? len (ops r)); [discriminate|].
    destruct (negb (owner_sig_ok (base r) (bsig r))); [discriminate|].
    rewrite (client_apply_ok (raddr (base r))); [reflexivity | reflexivity |].
    intros o Ho. pose proof (verify_ops_inv _ _ Hv o Ho) as Hok.
    apply op_ok_iff in Hok as [[E _] _]. exact E.
  Qed.
  (* ---------------------------------------------------------------- many replicas *)
  Definition merge_all (r0 : sreg) (l : list sreg) : sreg := fold_left (fun acc r => snd (merge acc r)) l r0.

  Lemma merge_all_spec l : forall r0, wf r0 -> (forall r, In r l -> same_base r0 r) ->
    base (merge_all r0 l) = base r0 /\ wf (merge_all r0 l) /\
    forall x, In x (ops (merge_all r0 l)) <-> In x (ops r0) \/ exists r, In r l /\ In x (ops r).
  Proof.
    induction l as [|r l IH]; intros r0 W Hb; cbn.
    - split; [reflexivity|]. split; [exact W|]. intros x. split; [auto | intros [Hx|(r & [] & _)]; exact Hx].
    - rewrite (merge_same r0 r (Hb r (or_introl eq_refl))). cbn [snd].
      destruct (IH (with_ops r0 (ounion (ops r0) (ops r)))) as (E & W' & Hin).
      + apply ounion_sorted, W.
      + intros r' Hr'. unfold same_base. cbn. apply Hb. right. exact Hr'.
      + split; [exact E|]. split; [exact W'|]. intros x. rewrite Hin. cbn. rewrite ounion_In by exact W. split.
        * intros [[Hx|Hx]|(r' & Hr' & Hx)]; eauto.
        * intros [Hx|(r' & [<-|Hr'] & Hx)]; eauto.
  Qed.

  Lemma merge_all_order_lemma r0 l1 l2 : wf r0 -> (forall r, In r l1 -> same_base r0 r) ->
    (forall r, In r l1 <-> In r l2) -> ops (merge_all r0 l1) = ops (merge_all r0 l2).
  Proof.
    intros W Hb Hsame.
    assert (Hb2 : forall r, In r l2 -> same_base r0 r) by (intros r Hr; apply Hb, Hsame, Hr).
    destruct (merge_all_spec l1 r0 W Hb) as (_ & W1 & H1). destruct (merge_all_spec l2 r0 W Hb2) as (_ & W2 & H2).
    apply osorted_ext; [exact W1 | exact W2 |]. intros x. rewrite H1, H2. split.
    - intros [Hx|(r & Hr & Hx)]; [auto|]. right. exists r. split; [apply Hsame, Hr | exact Hx].
    - intros [Hx|(r & Hr & Hx)]; [auto|]. right. exists r. split; [apply Hsame, Hr | exact Hx].
  Qed.

  (* replicas holding the same verified operations present the same values, whatever order their
     BTreeSets iterate in *)
  Lemma same_values_lemma r1 r2 order1 order2 :
    verify_in r1 order1 = Ok -> verify_in r2 order2 = Ok -> base r1 = base r2 ->
    (forall o, In o order1 <-> In o order2) -> inj_on H (map onode order1) ->
    client_build H r1 order1 = client_build H r2 order2 /\
    exists c, client_build H r1 order1 = (Ok, c).
  Proof.
    intros V1 V2 Eb Hsame Hinj. rewrite (verified_applies_lemma r1 order1 V1), (verified_applies_lemma r2 order2 V2).
    split; [|eauto]. rewrite Eb. f_equal. f_equal. apply order_independent; [exact Hinj|].
    intros n. rewrite !in_map_iff. split; intros (o & E & Ho); exists o; (split; [exact E | apply Hsame, Ho]).
  Qed.

  Lemma reachable_wf_lemma r : reachable r -> wf r.
  Proof. intros Hr. apply reachable_sound in Hr. apply Hr. Qed.
End RegThms.

(* ------------------------------------------------------------------ witnesses at the entry limit *)
Definition w_addr : address := mkaddr 1 0.
Definition w_base : register := mkreg w_addr Anyone.
Definition w_reg : sreg := mksreg w_base (Sig 0 (MReg w_base)) [].
Definition w_op (i : nat) : op := mkop w_addr (mknode [] [N.of_nat i]) 3 (Junk 0).
Definition w_ops (from count : nat) : list op := map w_op (seq from count).
Definition MAXn : nat := N.to_nat MAX_ENTRIES.

Section Witnesses.
  Variable H : node -> N.
  Variable D64 : address -> N -> N -> N.

  Lemma w_reg_reachable : reachable H D64 w_reg.
  Proof. constructor. vm_compute. reflexivity. Qed.

  (* F7: the MAX_ENTRIES-th add_op is accepted, the resulting state does not verify *)
  Lemma limit_refuted : exists r, reachable H D64 r /\ len (ops r) = MAX_ENTRIES /\
    verify H D64 r = Err (ETooManyEntries MAX_ENTRIES).
  Proof.
    exists (deliver H D64 w_reg (w_ops 0 MAXn)). split; [apply reachable_deliver, w_reg_reachable|].
    split; vm_compute; reflexivity.
  Qed.

  (* F7: two valid replicas merge into a register nobody accepts *)
  Lemma merge_limit_refuted : exists a b, reachable H D64 a /\ reachable H D64 b /\
    verify H D64 a = Ok /\ verify H D64 b = Ok /\ fst (merge a b) = Ok /\
    verify H D64 (snd (merge a b)) <> Ok.
  Proof.
    exists (deliver H D64 w_reg (w_ops 0 (MAXn - 1))), (deliver H D64 w_reg (w_ops (MAXn - 1) 1)).
    split; [apply reachable_deliver, w_reg_reachable|]. split; [apply reachable_deliver, w_reg_reachable|].
    split; [vm_compute; reflexivity|]. split; [vm_compute; reflexivity|]. split; [vm_compute; reflexivity|].
    vm_compute. discriminate.
  Qed.

  (* F7: the same operations in two orders, past the limit, leave two different registers *)
  Lemma converge_limit_refuted : exists r l1 l2, reachable H D64 r /\ (forall o, In o l1 <-> In o l2) /\
    ops (deliver H D64 r l1) <> ops (deliver H D64 r l2).
  Proof.
    exists w_reg, (w_ops 0 (S MAXn)), (rev (w_ops 0 (S MAXn))).
    split; [apply w_reg_reachable|]. split; [intros o; apply in_rev|].
    intros E.
    assert (ohas (w_op 0) (ops (deliver H D64 w_reg (w_ops 0 (S MAXn)))) = true) as H1 by (vm_compute; reflexivity).
    assert (ohas (w_op 0) (ops (deliver H D64 w_reg (rev (w_ops 0 (S MAXn))))) = false) as H2 by (vm_compute; reflexivity).
    rewrite E in H1. congruence.
  Qed.
End Witnesses.

(* ------------------------------------------------------------------ non-vacuity *)
Definition xH (n : node) : N := match value n with x :: _ => x | [] => 0 end.
Definition x_base : register := register_new 0 1 (new_with [1]).
Definition x_reg : sreg := mksreg x_base (Sig 0 (MReg x_base)) [].
Definition x_n1 : node := mknode [] [1].
Definition x_n2 : node := mknode [1] [2].
Definition x_good1 : op := op_new xH sym_d64 (mkaddr 1 0) x_n1 1.
Definition x_good2 : op := op_new xH sym_d64 (mkaddr 1 0) x_n2 0.

Example accept_examples :
  let add := add_op xH sym_d64 in
  fst (add x_reg x_good1) = Ok /\
  fst (add x_reg (op_new xH sym_d64 (mkaddr 1 0) x_n1 3)) = Err (EAccessDenied 3) /\
  fst (add x_reg (mkop (mkaddr 1 0) x_n1 1 (Junk 5))) = Err EInvalidSignature /\
  fst (add x_reg (mkop (mkaddr 1 0) x_n2 1 (osig x_good1))) = Err EInvalidSignature /\
  fst (add x_reg (mkop (mkaddr 1 0) x_n1 1 (osig (op_new xH sym_d64 (mkaddr 1 0) x_n1 3)))) = Err EInvalidSignature /\
  fst (add x_reg (op_new xH sym_d64 (mkaddr 2 0) x_n1 1)) = Err EAddrMismatch /\
  fst (add x_reg (op_new xH sym_d64 (mkaddr 1 0) (mknode [] (rep 1025 7)) 1)) = Err (EEntryTooBig 1025) /\
  fst (add x_reg (op_new xH sym_d64 (mkaddr 1 0) (mknode [] (rep 1024 7)) 1)) = Ok.
Proof. vm_compute. repeat split. Qed.

Example converge_example :
  let d := deliver xH sym_d64 x_reg in
  let junk := mkop (mkaddr 1 0) x_n1 1 (Junk 5) in
  ops (d [x_good2; junk; x_good1; x_good2]) = ops (d [x_good1; x_good2; junk]) /\
  length (ops (d [x_good2; junk; x_good1; x_good2])) = 2%nat /\
  verify xH sym_d64 (d [x_good2; x_good1]) = Ok /\
  (exists c, client_build xH (d [x_good2; x_good1]) (ops (d [x_good2; x_good1])) = (Ok, c) /\
             crdt_read c = [(2, [2])]).
Proof. vm_compute. repeat split. eexists. split; reflexivity. Qed.

Example merge_example :
  let d := deliver xH sym_d64 x_reg in
  let a := d [x_good1] in let b := d [x_good2] in
  same_base a b /\ wf a /\ wf b /\ a <> b /\
  ops (snd (merge a b)) = [x_good1; x_good2] \/ ops (snd (merge a b)) = [x_good2; x_good1].
Proof.
  cbn zeta. vm_compute. left. repeat split.
  - repeat constructor; intros y [].
  - repeat constructor; intros y [].
  - discriminate.
Qed.
