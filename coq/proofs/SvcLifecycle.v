(* Proofs about the service-lifecycle model (C19). *)
From Coq Require Import List NArith String Ascii Bool Lia Arith PeanoNat ZifyBool ZifyNat ZifyN.
From V Require Import lib.Strs lib.Dec gen.Consts model.SvcLifecycle.
Import ListNotations.
Open Scope N_scope.

Lemma status_of_str_str x : status_of_str (status_str x) = Some x.
Proof. destruct x; reflexivity. Qed.

Lemma load_save_svc s : load_svc (save_svc s) = Some s.
Proof.
  destruct s as [n x p v np mp rp pe li pi fi]. unfold load_svc, save_svc.
  cbn [number st pid version node_port metrics_port rpc_port peers listen peer_id first].
  unfold get_num, get_status, get_opt, get_bool, get_conn. cbn [jget String.eqb Ascii.eqb Bool.eqb].
  rewrite status_of_str_str. rewrite String.eqb_refl.
  destruct p, np, mp, pe; reflexivity.
Qed.

Lemma save_load_lemma rg : load (save rg) = Some rg.
Proof.
  induction rg as [|s r IH]; [reflexivity|].
  cbn [save map load]. fold (save r). rewrite load_save_svc, IH. reflexivity.
Qed.

(* ================================================================ association lists *)
Lemma lookup_del_same {A} k (l : list (N * A)) : lookup k (del k l) = None.
Proof.
  induction l as [|[k' v] r IH]; [reflexivity|]. cbn [del filter fst].
  destruct (k' =? k) eqn:E; cbn [negb]; [exact IH|]. cbn [lookup]. rewrite E. exact IH.
Qed.

Lemma lookup_del_other {A} k m (l : list (N * A)) : m <> k -> lookup m (del k l) = lookup m l.
Proof.
  intros Hne. induction l as [|[k' v] r IH]; [reflexivity|]. cbn [del filter fst].
  destruct (k' =? k) eqn:E; cbn [negb].
  - apply N.eqb_eq in E. subst k'. cbn [lookup]. destruct (k =? m) eqn:E2; [apply N.eqb_eq in E2; congruence|exact IH].
  - cbn [lookup]. destruct (k' =? m); [reflexivity|exact IH].
Qed.

Lemma lookup_cons_same {A} k (v : A) l : lookup k ((k, v) :: l) = Some v.
Proof. cbn [lookup]. rewrite N.eqb_refl. reflexivity. Qed.

Lemma lookup_cons_other {A} k m (v : A) l : m <> k -> lookup m ((k, v) :: l) = lookup m l.
Proof. intros H. cbn [lookup]. destruct (k =? m) eqn:E; [apply N.eqb_eq in E; congruence|reflexivity]. Qed.

(* ================================================================ what a call does to the environment *)
(* observable part of the environment the lifecycle predicates depend on *)
Definition obs_eq (e e' : env) : Prop :=
  procs (eos e') = procs (eos e) /\ installed (eos e') = installed (eos e) /\
  ekilled e' = ekilled e /\ elied e' = elied e.

Lemma obs_eq_refl e : obs_eq e e.
Proof. repeat split. Qed.
Lemma obs_eq_trans a b c : obs_eq a b -> obs_eq b c -> obs_eq a c.
Proof. unfold obs_eq. intros (A1 & A2 & A3 & A4) (B1 & B2 & B3 & B4). repeat split; congruence. Qed.

Definition livee (e : env) (n : N) : option N := live (eos e) n.
Definition inste (e : env) (n : N) : bool := is_installed (eos e) n.

Lemma obs_eq_live e e' n : obs_eq e e' -> livee e' n = livee e n.
Proof. intros (A & _). unfold livee, live. rewrite A. reflexivity. Qed.
Lemma obs_eq_inst e e' n : obs_eq e e' -> inste e' n = inste e n.
Proof. intros (_ & A & _). unfold inste, is_installed. rewrite A. reflexivity. Qed.

Ltac tick_cases H :=
  cbv beta delta [call_port call_install call_pid call_start call_stop call_uninstall call_wait call_rpc tick] in H;
  cbn [fst snd eos enc elog elied ekilled set_os] in H.

Ltac simp_env := unfold set_os; cbn [eos ekilled elied installed procs dirs next_pid next_port enc elog fst snd].

Lemma call_port_spec F e r e' : call_port F e = (r, e') -> obs_eq e e'.
Proof.
  intros H. tick_cases H. destruct (memN (enc e) F); inversion H; subst; repeat split.
Qed.

Lemma call_wait_spec F e : obs_eq e (call_wait F e).
Proof. repeat split. Qed.

Lemma call_rpc_spec F k n e r e' : call_rpc F k n e = (r, e') -> obs_eq e e'.
Proof. intros H. tick_cases H. inversion H; subst. repeat split. Qed.

Lemma mkdirs_spec n e : obs_eq e (mkdirs n e).
Proof. repeat split. Qed.
Lemma rmdirs_spec n e : obs_eq e (rmdirs n e).
Proof. repeat split. Qed.

Lemma call_pid_spec F n e r e' : call_pid F n e = (r, e') ->
  eos e' = eos e /\ ekilled e' = ekilled e /\
  match r with
  | PidOk p => livee e n = Some p /\ elied e' = elied e
  | PidNotFound => livee e n = None /\ elied e' = elied e
  | PidErr => elied e' = (elied e || match livee e n with Some _ => true | None => false end)
  end.
Proof.
  intros H. tick_cases H. unfold livee. destruct (memN (enc e) F).
  - inversion H; subst. simp_env. repeat split.
  - destruct (live (eos e) n) eqn:L; inversion H; subst; simp_env; repeat split; assumption.
Qed.

Lemma call_start_spec F n e ok e' : call_start F n e = (ok, e') ->
  installed (eos e') = installed (eos e) /\ ekilled e' = ekilled e /\ elied e' = elied e /\
  (forall m, m <> n -> livee e' m = livee e m) /\
  (forall p, livee e n = Some p -> livee e' n = Some p) /\
  (ok = true -> livee e' n <> None /\ inste e n = true) /\
  (ok = false -> eos e' = eos e).
Proof.
  intros H. tick_cases H. unfold livee, inste. destruct (memN (enc e) F).
  { inversion H; subst. simp_env. repeat split; auto; discriminate. }
  destruct (is_installed (eos e) n) eqn:I; cbn [negb] in H.
  2:{ inversion H; subst. simp_env. repeat split; auto; discriminate. }
  destruct (live (eos e) n) eqn:L.
  - inversion H; subst. simp_env. repeat split; auto; try congruence; discriminate.
  - inversion H; subst. simp_env. unfold live in *. cbn [procs]. repeat split; auto.
    + intros m Hm. apply lookup_cons_other. exact Hm.
    + intros p Hp. congruence.
    + rewrite lookup_cons_same. discriminate.
    + discriminate.
Qed.

Lemma call_stop_spec F n e ok e' : call_stop F n e = (ok, e') ->
  installed (eos e') = installed (eos e) /\ ekilled e' = ekilled e /\ elied e' = elied e /\
  (forall m, m <> n -> livee e' m = livee e m) /\
  (ok = true -> livee e' n = None) /\
  (ok = false -> eos e' = eos e).
Proof.
  intros H. tick_cases H. unfold livee. destruct (memN (enc e) F).
  { inversion H; subst. simp_env. repeat split; auto; discriminate. }
  destruct (is_installed (eos e) n) eqn:I; cbn [negb] in H.
  2:{ inversion H; subst. simp_env. repeat split; auto; discriminate. }
  inversion H; subst. simp_env. unfold live. cbn [procs]. repeat split; auto.
  - intros m Hm. apply lookup_del_other. exact Hm.
  - intros _. apply lookup_del_same.
  - discriminate.
Qed.

Lemma is_installed_del_same n l o1 o2 o3 o4 : is_installed (mkOs (del n l) o1 o2 o3 o4) n = false.
Proof. unfold is_installed. cbn [installed]. rewrite lookup_del_same. reflexivity. Qed.

Lemma call_uninstall_spec F n e u e' : call_uninstall F n e = (u, e') ->
  procs (eos e') = procs (eos e) /\ ekilled e' = ekilled e /\ elied e' = elied e /\
  (forall m, m <> n -> inste e' m = inste e m) /\
  match u with
  | UErr => eos e' = eos e
  | UMissing => eos e' = eos e /\ inste e n = false
  | UOk => inste e' n = false /\ inste e n = true
  end.
Proof.
  intros H. tick_cases H. unfold inste. destruct (memN (enc e) F).
  { inversion H; subst. simp_env. repeat split; auto. }
  destruct (is_installed (eos e) n) eqn:I; cbn [negb] in H.
  2:{ inversion H; subst. simp_env. repeat split; auto. }
  inversion H; subst. simp_env. repeat split; auto.
  - intros m Hm. unfold is_installed. cbn [installed]. rewrite lookup_del_other by exact Hm. reflexivity.
  - apply is_installed_del_same.
Qed.

Lemma call_install_spec F n port e ok e' : call_install F n port e = (ok, e') ->
  procs (eos e') = procs (eos e) /\ ekilled e' = ekilled e /\ elied e' = elied e /\
  (forall m, m <> n -> inste e' m = inste e m) /\
  (ok = true -> inste e' n = true) /\ (ok = false -> eos e' = eos e).
Proof.
  intros H. tick_cases H. unfold inste. destruct (memN (enc e) F).
  { inversion H; subst. simp_env. repeat split; auto; discriminate. }
  inversion H; subst. simp_env. repeat split; auto.
  - intros m Hm. unfold is_installed. cbn [installed]. rewrite lookup_cons_other by exact Hm.
    rewrite lookup_del_other by exact Hm. reflexivity.
  - intros _. unfold is_installed. cbn [installed]. rewrite lookup_cons_same. reflexivity.
  - discriminate.
Qed.

(* ================================================================ frames: an operation on service n leaves the others alone *)
Record tr (n : N) (e e' : env) : Prop := mkTr {
  tr_live : forall m, m <> n -> livee e' m = livee e m;
  tr_inst : forall m, m <> n -> inste e' m = inste e m;
  tr_killed : ekilled e' = ekilled e;
  tr_lied : elied e = true -> elied e' = true }.

Lemma tr_refl n e : tr n e e.
Proof. constructor; auto. Qed.

Lemma tr_trans n a b c : tr n a b -> tr n b c -> tr n a c.
Proof.
  intros [A1 A2 A3 A4] [B1 B2 B3 B4]. constructor.
  - intros m Hm. rewrite B1, A1 by exact Hm. reflexivity.
  - intros m Hm. rewrite B2, A2 by exact Hm. reflexivity.
  - congruence.
  - auto.
Qed.

Lemma tr_obs n e e' : obs_eq e e' -> tr n e e'.
Proof.
  intros H. constructor.
  - intros m _. apply obs_eq_live. exact H.
  - intros m _. apply obs_eq_inst. exact H.
  - apply H.
  - destruct H as (_ & _ & _ & L). congruence.
Qed.

Lemma tr_eos n e e' : eos e' = eos e -> ekilled e' = ekilled e -> (elied e = true -> elied e' = true) -> tr n e e'.
Proof. intros A B C. constructor; auto; intros m _; unfold livee, inste; rewrite A; reflexivity. Qed.

Lemma lied_or a b : a = true -> (a || b) = true.
Proof. intros ->. reflexivity. Qed.

Lemma call_pid_tr F n e r e' : call_pid F n e = (r, e') ->
  tr n e e' /\ (forall m, livee e' m = livee e m) /\ (forall m, inste e' m = inste e m).
Proof.
  intros H. apply call_pid_spec in H. destruct H as (A & B & C).
  assert (L : elied e = true -> elied e' = true).
  { destruct r; [destruct C as (_ & ->)|destruct C as (_ & ->)|rewrite C]; auto using lied_or. }
  split; [apply tr_eos; assumption|]. unfold livee, inste. rewrite A. split; reflexivity.
Qed.

Lemma call_start_tr F n e ok e' : call_start F n e = (ok, e') ->
  tr n e e' /\ (forall m, inste e' m = inste e m).
Proof.
  intros H. apply call_start_spec in H. destruct H as (A & B & C & D & _).
  split; [constructor; auto; try congruence|]; intros m; intros; unfold inste, is_installed; rewrite A; reflexivity.
Qed.

Lemma call_stop_tr F n e ok e' : call_stop F n e = (ok, e') ->
  tr n e e' /\ (forall m, inste e' m = inste e m).
Proof.
  intros H. apply call_stop_spec in H. destruct H as (A & B & C & D & _).
  split; [constructor; auto; try congruence|]; intros m; intros; unfold inste, is_installed; rewrite A; reflexivity.
Qed.

Lemma call_uninstall_tr F n e u e' : call_uninstall F n e = (u, e') ->
  tr n e e' /\ (forall m, livee e' m = livee e m).
Proof.
  intros H. apply call_uninstall_spec in H. destruct H as (A & B & C & D & _).
  split; [constructor; auto; try congruence|]; intros m; intros; unfold livee, live; rewrite A; reflexivity.
Qed.

Lemma call_install_tr F n port e ok e' : call_install F n port e = (ok, e') ->
  tr n e e' /\ (forall m, livee e' m = livee e m).
Proof.
  intros H. apply call_install_spec in H. destruct H as (A & B & C & D & _).
  split; [constructor; auto; try congruence|]; intros m; intros; unfold livee, live; rewrite A; reflexivity.
Qed.

(* ================================================================ one service's record against the OS *)
Definition svc_ok (e : env) (s : svc) : Prop :=
  (st s <> Running -> pid s = None) /\
  (st s = Running -> exists p, pid s = Some p /\ (livee e (number s) = Some p \/ In p (ekilled e))).

(* an operation on ANOTHER service does not disturb it *)
Lemma svc_ok_tr n e e' s : number s <> n -> tr n e e' -> svc_ok e s -> svc_ok e' s.
Proof.
  intros Hn T [A B]. split; [exact A|]. intros R. destruct (B R) as (p & P1 & P2). exists p. split; [exact P1|].
  rewrite (tr_live _ _ _ T) by exact Hn. rewrite (tr_killed _ _ _ T). exact P2.
Qed.

(* on the service itself: enough that live processes stay live and nothing is forgotten from `killed` *)
Lemma svc_ok_keep e e' s : (forall p, livee e (number s) = Some p -> livee e' (number s) = Some p) ->
  ekilled e' = ekilled e -> svc_ok e s -> svc_ok e' s.
Proof.
  intros L K [A B]. split; [exact A|]. intros R. destruct (B R) as (p & P1 & [P2|P2]); exists p; split; auto.
  right. rewrite K. exact P2.
Qed.

Lemma svc_ok_on_stop e s : svc_ok e (on_stop s).
Proof. split; [reflexivity|]. cbn. discriminate. Qed.

Lemma svc_ok_on_remove e e' s : st s <> Running -> svc_ok e s -> svc_ok e' (on_remove s).
Proof. intros NR [A _]. split; [intros _; cbn; auto|]. cbn. discriminate. Qed.

Lemma svc_ok_set_version e s v : svc_ok e s -> svc_ok e (set_version s v).
Proof. intros H. exact H. Qed.

(* ================================================================ NodeService::on_start (full refresh) *)
Lemma on_start_full_spec F dyn p s e c s' e' : on_start_full F dyn p s e = (c, s', e') ->
  obs_eq e e' /\ ((s' = s /\ c = C_CONTROL) \/ (c = C_OK /\ s' = on_start_set p (listen_port e' (number s)) (rpc_peers (number s)) s)).
Proof.
  unfold on_start_full. intros H.
  destruct dyn.
  - destruct (call_rpc F K_RPC_CONNECTED (number s) e) as [ok1 e1] eqn:R1. apply call_rpc_spec in R1.
    destruct ok1; cbn [negb] in H; [|inversion H; subst; auto].
    destruct (call_rpc F K_RPC_NODE_INFO (number s) e1) as [ok2 e2] eqn:R2. apply call_rpc_spec in R2.
    destruct ok2; cbn [negb] in H; [|inversion H; subst; split; [eapply obs_eq_trans; eassumption|auto]].
    destruct (call_rpc F K_RPC_NETWORK_INFO (number s) e2) as [ok3 e3] eqn:R3. apply call_rpc_spec in R3.
    assert (O : obs_eq e e3) by (eapply obs_eq_trans; [eapply obs_eq_trans|]; eassumption).
    destruct ok3; cbn [negb] in H; inversion H; subst; auto.
  - destruct (call_rpc F K_RPC_NODE_INFO (number s) e) as [ok2 e2] eqn:R2. apply call_rpc_spec in R2.
    destruct ok2; cbn [negb] in H; [|inversion H; subst; auto].
    destruct (call_rpc F K_RPC_NETWORK_INFO (number s) e2) as [ok3 e3] eqn:R3. apply call_rpc_spec in R3.
    assert (O : obs_eq e e3) by (eapply obs_eq_trans; eassumption).
    destruct ok3; cbn [negb] in H; inversion H; subst; auto.
Qed.

Ltac splits := repeat match goal with |- _ /\ _ => split end.

(* ================================================================ ServiceManager::start *)
Lemma mgr_start_spec F dyn s e c s' e' : mgr_start F dyn s e = (c, s', e') ->
  tr (number s) e e' /\
  (forall p, livee e (number s) = Some p -> livee e' (number s) = Some p) /\
  (forall m, inste e' m = inste e m) /\
  (inste e (number s) = false -> st s <> Running -> s' = s /\ livee e' (number s) = livee e (number s)) /\
  ((s' = s /\ (c = C_OK -> st s = Running /\ livee e' (number s) <> None)) \/
   (c = C_OK /\ exists p port, s' = on_start_set p port (rpc_peers (number s)) s /\ livee e' (number s) = Some p)).
Proof.
  unfold mgr_start. set (n := number s). intros H.
  (* the "already running" probe *)
  assert (P0 : exists already e0,
     (match st s with
      | Running => let '(r, e1) := call_pid F n e in (match r with PidOk _ => true | _ => false end, e1)
      | _ => (false, e) end) = (already, e0) /\ tr n e e0 /\ (forall m, livee e0 m = livee e m) /\
     (forall m, inste e0 m = inste e m) /\ (already = true -> st s = Running /\ livee e n <> None) /\
     (st s <> Running -> e0 = e)).
  { destruct (st s) eqn:S; try (exists false, e; splits; auto using tr_refl; discriminate).
    destruct (call_pid F n e) as [r e1] eqn:Hp. pose proof (call_pid_tr _ _ _ _ _ Hp) as (T & L & I).
    apply call_pid_spec in Hp. destruct Hp as (_ & _ & Hr).
    destruct r; eexists _, e1; (split; [reflexivity|]); splits; auto; try discriminate; try congruence.
    destruct Hr as (Hr & _). intros _. split; [reflexivity|congruence]. }
  destruct P0 as (already & e0 & E0 & T0 & L0 & I0 & A0 & N0). rewrite E0 in H. clear E0.
  destruct already.
  { inversion H; subst. destruct (A0 eq_refl) as (SR & LV). splits; auto.
    - intros p Hp. rewrite L0. exact Hp.
    - left. split; [reflexivity|]. intros _. split; [exact SR|]. rewrite L0. exact LV. }
  destruct (call_start F n e0) as [ok e1] eqn:Hs. pose proof (call_start_tr _ _ _ _ _ Hs) as (T1 & I1).
  apply call_start_spec in Hs. destruct Hs as (_ & _ & _ & _ & LP1 & OK1 & NK1).
  destruct ok; cbn [negb] in H.
  2:{ inversion H; subst. specialize (NK1 eq_refl).
      assert (LL : forall m, livee e' m = livee e m) by (intros m; unfold livee; rewrite NK1; apply L0).
      splits; auto.
      - eapply tr_trans; eassumption.
      - intros p Hp. rewrite LL. exact Hp.
      - intros m. rewrite I1. apply I0.
      - left. split; [reflexivity|discriminate]. }
  destruct (OK1 eq_refl) as (LV1 & IN1).
  pose proof (call_wait_spec F e1) as W. set (e2 := call_wait F e1) in *.
  destruct (call_pid F n e2) as [r e3] eqn:Hp. pose proof (call_pid_tr _ _ _ _ _ Hp) as (T3 & L3 & I3).
  apply call_pid_spec in Hp. destruct Hp as (_ & _ & Hr).
  assert (T : tr n e e3).
  { eapply tr_trans; [exact T0|]. eapply tr_trans; [exact T1|]. eapply tr_trans; [apply tr_obs; exact W|exact T3]. }
  assert (LL : forall p, livee e n = Some p -> livee e3 n = Some p).
  { intros p Hp. rewrite L3. rewrite (obs_eq_live _ _ _ W). apply LP1. rewrite L0. exact Hp. }
  assert (II : forall m, inste e3 m = inste e m).
  { intros m. rewrite I3. rewrite (obs_eq_inst _ _ _ W). rewrite I1. apply I0. }
  assert (NI : inste e n = false -> False).
  { intros X. rewrite <- I0 in X. congruence. }
  destruct r.
  - destruct (on_start_full F dyn p s e3) as [[c4 s4] e4] eqn:Hf. inversion H; subst.
    apply on_start_full_spec in Hf. destruct Hf as (O4 & Hcase).
    splits.
    + eapply tr_trans; [exact T|apply tr_obs; exact O4].
    + intros q Hq. rewrite (obs_eq_live _ _ _ O4). auto.
    + intros m. rewrite (obs_eq_inst _ _ _ O4). apply II.
    + intros X. destruct (NI X).
    + destruct Hcase as [(-> & ->)|(-> & ->)].
      * left. split; [reflexivity|discriminate].
      * right. split; [reflexivity|]. exists p, (listen_port e' (number s)). split; [reflexivity|].
        rewrite (obs_eq_live _ _ _ O4). rewrite L3. rewrite (obs_eq_live _ _ _ W) in Hr. apply Hr.
  - inversion H; subst. splits; auto.
    + intros X. destruct (NI X).
    + left. split; [reflexivity|discriminate].
  - inversion H; subst. splits; auto.
    + intros X. destruct (NI X).
    + left. split; [reflexivity|discriminate].
Qed.

(* ================================================================ ServiceManager::stop *)
Lemma mgr_stop_spec F s e c s' e' : mgr_stop F s e = (c, s', e') ->
  tr (number s) e e' /\ (forall m, inste e' m = inste e m) /\
  ((s' = s /\ livee e' (number s) = livee e (number s) /\ (c = C_OK -> st s <> Running)) \/
   (c = C_OK /\ s' = on_stop s /\ st s = Running /\
    (livee e' (number s) = None \/
     (livee e' (number s) = livee e (number s) /\ (livee e (number s) <> None -> elied e' = true))))).
Proof.
  unfold mgr_stop. set (n := number s). intros H.
  destruct (st s) eqn:S; try (inversion H; subst; splits; auto using tr_refl; left; splits; auto; discriminate).
  destruct (pid s) eqn:P.
  2:{ inversion H; subst. splits; auto using tr_refl. left. splits; auto. discriminate. }
  destruct (call_pid F n e) as [r e1] eqn:Hp. pose proof (call_pid_tr _ _ _ _ _ Hp) as (T1 & L1 & I1).
  apply call_pid_spec in Hp. destruct Hp as (_ & _ & Hr).
  destruct r.
  - destruct (call_stop F n e1) as [ok e2] eqn:Hs. pose proof (call_stop_tr _ _ _ _ _ Hs) as (T2 & I2).
    apply call_stop_spec in Hs. destruct Hs as (_ & _ & _ & _ & OK2 & NK2).
    destruct ok; inversion H; subst.
    + splits; [eapply tr_trans; eassumption|intros m; rewrite I2; apply I1|].
      right. splits; auto.
    + splits; [eapply tr_trans; eassumption|intros m; rewrite I2; apply I1|].
      left. splits; auto; [|discriminate]. unfold livee. rewrite (NK2 eq_refl). apply L1.
  - inversion H; subst. splits; auto. right. splits; auto. right. split; [apply L1|].
    destruct Hr as (Hr & _). intros X. contradiction.
  - inversion H; subst. splits; auto. right. splits; auto. right. split; [apply L1|].
    intros X. rewrite Hr. destruct (livee e n); [apply orb_true_r|contradiction].
Qed.

(* ================================================================ ServiceManager::remove *)
Lemma mgr_remove_spec F keep s e c s' e' : mgr_remove F keep s e = (c, s', e') ->
  tr (number s) e e' /\ (forall m, livee e' m = livee e m) /\
  ((s' = s /\ is_ok c = false /\ forall m, inste e' m = inste e m) \/
   (c = C_STATUS_MISMATCH /\ s' = on_stop s /\ st s = Running /\ (forall m, inste e' m = inste e m) /\
    (livee e (number s) <> None -> elied e' = true)) \/
   (c = C_OK /\ s' = on_remove s /\ st s <> Running /\ inste e' (number s) = false)).
Proof.
  unfold mgr_remove. set (n := number s). intros H.
  assert (NR : forall e1 u, call_uninstall F n e = (u, e1) ->
             (let '(u, e1) := (u, e1) in
              match u with
              | UErr => (C_CONTROL, s, e1)
              | _ => (C_OK, on_remove s, if keep then e1 else rmdirs n e1)
              end) = (c, s', e') -> st s <> Running ->
     tr n e e' /\ (forall m, livee e' m = livee e m) /\
     ((s' = s /\ is_ok c = false /\ forall m, inste e' m = inste e m) \/
      (c = C_STATUS_MISMATCH /\ s' = on_stop s /\ st s = Running /\ (forall m, inste e' m = inste e m) /\
       (livee e n <> None -> elied e' = true)) \/
      (c = C_OK /\ s' = on_remove s /\ st s <> Running /\ inste e' n = false))).
  { intros e1 u Hu H1 SR. pose proof (call_uninstall_tr _ _ _ _ _ Hu) as (T1 & L1).
    apply call_uninstall_spec in Hu. destruct Hu as (_ & _ & _ & IO & Hu).
    assert (OB : obs_eq e1 (if keep then e1 else rmdirs n e1)) by (destruct keep; [apply obs_eq_refl|apply rmdirs_spec]).
    destruct u; inversion H1; subst.
    - splits.
      + eapply tr_trans; [exact T1|apply tr_obs; exact OB].
      + intros m. rewrite (obs_eq_live _ _ _ OB). apply L1.
      + right. right. splits; auto. rewrite (obs_eq_inst _ _ _ OB). apply Hu.
    - splits.
      + eapply tr_trans; [exact T1|apply tr_obs; exact OB].
      + intros m. rewrite (obs_eq_live _ _ _ OB). apply L1.
      + right. right. splits; auto. rewrite (obs_eq_inst _ _ _ OB). destruct Hu as (Hu & Hi).
        unfold inste. rewrite Hu. exact Hi.
    - splits; auto. left. splits; auto. intros m. unfold inste. rewrite Hu. reflexivity. }
  destruct (st s) eqn:S.
  - destruct (call_uninstall F n e) as [u e1] eqn:Hu. eapply NR; eauto. discriminate.
  - destruct (call_pid F n e) as [r e1] eqn:Hp. pose proof (call_pid_tr _ _ _ _ _ Hp) as (T1 & L1 & I1).
    apply call_pid_spec in Hp. destruct Hp as (_ & _ & Hr).
    destruct r; inversion H; subst; splits; auto.
    + right. left. splits; auto. destruct Hr as (Hr & _). intros X. contradiction.
    + right. left. splits; auto. intros X. rewrite Hr. destruct (livee e n); [apply orb_true_r|contradiction].
  - destruct (call_uninstall F n e) as [u e1] eqn:Hu. eapply NR; eauto. discriminate.
  - destruct (call_uninstall F n e) as [u e1] eqn:Hu. eapply NR; eauto. discriminate.
Qed.

(* ================================================================ what every manager operation guarantees *)
Definition op_props (f : svc -> env -> N * svc * env) : Prop :=
  forall s e c s' e', f s e = (c, s', e') ->
  number s' = number s /\ tr (number s) e e' /\ (svc_ok e s -> svc_ok e' s') /\
  (* a failed operation never newly records the service as running *)
  (is_ok c = false -> st s' = Running -> st s = Running) /\
  (* a removed service (no process, no definition) is left exactly so *)
  (st s = Removed -> livee e (number s) = None -> inste e (number s) = false ->
     st s' = Removed /\ livee e' (number s) = None /\ inste e' (number s) = false) /\
  (* a service becomes Removed only from a non-running status, its definition gone, processes untouched *)
  (st s <> Removed -> st s' = Removed ->
     st s <> Running /\ livee e' (number s) = livee e (number s) /\ inste e' (number s) = false).

Lemma number_on_start_set p port cn s : number (on_start_set p port cn s) = number s.
Proof. reflexivity. Qed.

Lemma svc_ok_started e p port cn s : livee e (number s) = Some p -> svc_ok e (on_start_set p port cn s).
Proof. intros L. split; [cbn; intros X; congruence|]. intros _. exists p. split; [reflexivity|]. left. exact L. Qed.

Lemma mgr_start_props F dyn : op_props (mgr_start F dyn).
Proof.
  intros s e c s' e' H. apply mgr_start_spec in H. destruct H as (T & LP & I & NI & Hc).
  destruct Hc as [(-> & Hok)|(-> & p & port & -> & L)].
  - splits; auto.
    + apply svc_ok_keep; [exact LP|apply T].
    + intros R LN IN. rewrite I. splits; auto.
      assert (X : st s <> Running) by congruence. destruct (NI IN X) as (_ & E). rewrite E. exact LN.
    + intros A B. contradiction.
  - splits; auto.
    + intros _. apply svc_ok_started. exact L.
    + intros X. discriminate.
    + intros R LN IN. assert (X : st s <> Running) by congruence. destruct (NI IN X) as (E & _).
      rewrite <- E in R at 1. cbn in R. discriminate.
    + cbn. intros _ X. discriminate.
Qed.

Lemma mgr_stop_props F : op_props (mgr_stop F).
Proof.
  intros s e c s' e' H. apply mgr_stop_spec in H. destruct H as (T & I & Hc).
  destruct Hc as [(-> & L & Hok)|(-> & -> & SR & L)].
  - splits; auto.
    + apply svc_ok_keep; [intros p Hp; rewrite L; exact Hp|apply T].
    + intros R LN IN. rewrite I, L. auto.
    + intros A B. contradiction.
  - splits; auto.
    + intros _. apply svc_ok_on_stop.
    + intros X. congruence.
    + cbn. intros _ X. discriminate.
Qed.

Lemma mgr_remove_props F keep : op_props (mgr_remove F keep).
Proof.
  intros s e c s' e' H. apply mgr_remove_spec in H. destruct H as (T & L & Hc).
  destruct Hc as [(-> & Hf & I)|[(-> & -> & SR & I & _)|(-> & -> & SR & I)]].
  - splits; auto.
    + apply svc_ok_keep; [intros p Hp; rewrite L; exact Hp|apply T].
    + intros R LN IN. rewrite I, L. auto.
    + intros A B. contradiction.
  - splits; auto.
    + intros _. apply svc_ok_on_stop.
    + intros X. congruence.
    + cbn. intros _ X. discriminate.
  - splits; auto.
    + intros O. eapply svc_ok_on_remove; eauto.
    + intros X. discriminate.
    + intros R LN IN. rewrite L. cbn. auto.
Qed.

Lemma mgr_stop_status F s e c s1 e1 : mgr_stop F s e = (c, s1, e1) ->
  number s1 = number s /\ (st s1 = Running -> st s = Running) /\ (st s1 = Removed -> st s = Removed) /\
  version s1 = version s.
Proof.
  intros H. apply mgr_stop_spec in H. destruct H as (_ & _ & [(-> & _)|(_ & -> & _)]); splits; auto; cbn; discriminate.
Qed.

Lemma mgr_start_status F dyn s e c s1 e1 : mgr_start F dyn s e = (c, s1, e1) ->
  number s1 = number s /\ (st s1 = Removed -> st s = Removed) /\ (is_ok c = false -> s1 = s).
Proof.
  intros H. apply mgr_start_spec in H. destruct H as (_ & _ & _ & _ & [(-> & _)|(-> & p & port & -> & _)]);
    splits; auto; cbn; discriminate.
Qed.

(* ================================================================ ServiceManager::upgrade *)
Lemma mgr_upgrade_props F force start tv binok dyn : op_props (mgr_upgrade F force start tv binok dyn).
Proof.
  intros s e c s' e' H. unfold mgr_upgrade in H.
  destruct (negb force && (tv <=? version s)).
  { inversion H; subst. splits; auto using tr_refl. intros A B. contradiction. }
  destruct (mgr_stop F s e) as [[c1 s1] e1] eqn:Hstop.
  pose proof (mgr_stop_status _ _ _ _ _ _ Hstop) as (N1 & R1 & M1 & _).
  pose proof (mgr_stop_props F _ _ _ _ _ Hstop) as (_ & T1 & O1 & F1 & S1 & G1).
  (* every exit that leaves the record as `stop` left it, with the processes untouched since *)
  assert (EXIT : forall e2 c2, tr (number s) e1 e2 -> (forall m, livee e2 m = livee e1 m) ->
            (inste e1 (number s) = false -> inste e2 (number s) = false) ->
            number s1 = number s /\ tr (number s) e e2 /\ (svc_ok e s -> svc_ok e2 s1) /\
            (is_ok c2 = false -> st s1 = Running -> st s = Running) /\
            (st s = Removed -> livee e (number s) = None -> inste e (number s) = false ->
               st s1 = Removed /\ livee e2 (number s) = None /\ inste e2 (number s) = false) /\
            (st s <> Removed -> st s1 = Removed ->
               st s <> Running /\ livee e2 (number s) = livee e (number s) /\ inste e2 (number s) = false)).
  { intros e2 c2 T2 L2 I2. splits; auto.
    - eapply tr_trans; eassumption.
    - intros O. apply svc_ok_keep with (e := e1); [rewrite N1; intros p Hp; rewrite L2; exact Hp|apply T2|auto].
    - intros R LN IN. destruct (S1 R LN IN) as (A & B & C). splits; auto. rewrite L2. exact B.
    - intros A B. elim A. auto. }
  destruct (c1 =? C_OK) eqn:C1; cbn [negb] in H.
  2:{ inversion H; subst. apply EXIT; auto using tr_refl. }
  apply N.eqb_eq in C1.
  destruct (binok && has_dir (number s) e1); cbn [negb] in H.
  2:{ inversion H; subst. apply EXIT; auto using tr_refl. }
  destruct (call_uninstall F (number s) e1) as [u e2] eqn:Hu.
  pose proof (call_uninstall_tr _ _ _ _ _ Hu) as (T2 & L2). apply call_uninstall_spec in Hu.
  destruct Hu as (_ & _ & _ & _ & Hu).
  destruct u.
  - (* uninstalled *)
    destruct Hu as (IU & II).
    destruct (call_install F (number s) (node_port s1) e2) as [ok e3] eqn:Hi.
    pose proof (call_install_tr _ _ _ _ _ _ Hi) as (T3 & L3). apply call_install_spec in Hi.
    destruct Hi as (_ & _ & _ & _ & OK3 & NK3).
    assert (T13 : tr (number s) e1 e3) by (eapply tr_trans; eassumption).
    assert (L13 : forall m, livee e3 m = livee e1 m) by (intros m; rewrite L3; apply L2).
    (* the service cannot have been Removed-and-uninstalled: its definition was still there *)
    assert (NOTREM : st s = Removed -> livee e (number s) = None -> inste e (number s) = false -> False).
    { intros R LN IN. destruct (S1 R LN IN) as (_ & _ & C). congruence. }
    destruct ok; cbn [negb] in H.
    2:{ inversion H; subst.
        assert (I13 : inste e1 (number s) = false -> inste e' (number s) = false) by (intros X; congruence).
        destruct (EXIT e' C_CONTROL T13 L13 I13) as (A1 & A2 & A3 & A4 & A5 & A6).
        splits; auto. }
    destruct start.
    + destruct (mgr_start F dyn s1 e3) as [[c4 s4] e4] eqn:Hst.
      pose proof (mgr_start_status _ _ _ _ _ _ _ Hst) as (N4 & M4 & _).
      pose proof (mgr_start_props F dyn _ _ _ _ _ Hst) as (_ & T4 & O4 & _).
      rewrite N1 in T4.
      assert (R : exists c5, (c5, set_version s4 tv, e4) = (c, s', e') /\ is_ok c5 = true).
      { destruct (c4 =? C_OK); [destruct force|]; eexists; split; try exact H; reflexivity. }
      destruct R as (c5 & R & OK5). inversion R; subst. clear R H.
      splits.
      * cbn. congruence.
      * eapply tr_trans; [exact T1|]. eapply tr_trans; [exact T13|exact T4].
      * intros O. apply svc_ok_set_version. apply O4.
        apply svc_ok_keep with (e := e1); [rewrite N1; intros p Hp; rewrite L13; exact Hp|apply T13|auto].
      * intros X. congruence.
      * intros Rm LN IN. destruct (NOTREM Rm LN IN).
      * cbn. intros A B. elim A. auto.
    + assert (R : exists c5, (c5, set_version s1 tv, e3) = (c, s', e') /\ is_ok c5 = true).
      { destruct force; eexists; split; try exact H; reflexivity. }
      destruct R as (c5 & R & OK5). inversion R; subst. clear R H.
      splits.
      * cbn. congruence.
      * eapply tr_trans; eassumption.
      * intros O. apply svc_ok_set_version.
        apply svc_ok_keep with (e := e1); [rewrite N1; intros p Hp; rewrite L13; exact Hp|apply T13|auto].
      * intros X. congruence.
      * intros Rm LN IN. destruct (NOTREM Rm LN IN).
      * cbn. intros A B. elim A. auto.
  - (* nothing to uninstall *)
    destruct Hu as (EQ & IM). inversion H; subst. apply EXIT; auto.
    intros _. unfold inste. rewrite EQ. exact IM.
  - inversion H; subst. apply EXIT; auto. intros X. unfold inste. rewrite Hu. exact X.
Qed.

(* ================================================================ lists: the service at index i *)
Lemma nth_error_split' {A} (l : list A) i x : nth_error l i = Some x ->
  exists l1 l2, l = l1 ++ x :: l2 /\ List.length l1 = i.
Proof. apply nth_error_split. Qed.

Lemma set_nth_app {A} (l1 l2 : list A) x y : set_nth (List.length l1) y (l1 ++ x :: l2) = l1 ++ y :: l2.
Proof. induction l1 as [|a r IH]; [reflexivity|]. cbn. rewrite IH. reflexivity. Qed.

Lemma nth_error_app_mid {A} (l1 l2 : list A) x : nth_error (l1 ++ x :: l2) (List.length l1) = Some x.
Proof. induction l1; [reflexivity|]. cbn. assumption. Qed.

Lemma nth_error_app_other {A} (l1 l2 : list A) x y j : j <> List.length l1 ->
  nth_error (l1 ++ y :: l2) j = nth_error (l1 ++ x :: l2) j.
Proof.
  revert j. induction l1 as [|a r IH]; intros j Hj.
  - destruct j; [contradiction|reflexivity].
  - destruct j; [reflexivity|]. cbn. apply IH. cbn in Hj. congruence.
Qed.

(* ================================================================ the world invariant *)
Definition Inv (w : world) : Prop :=
  NoDup (map number (reg w)) /\ Forall (svc_ok (wenv w)) (reg w).

Lemma on_service_shape w i f w' c : on_service w i f = (w', c) ->
  (c = C_NO_SUCH_INDEX /\ w' = w /\ nth_error (reg w) i = None) \/
  (exists l1 s l2 s', reg w = l1 ++ s :: l2 /\ List.length l1 = i /\ f s (wenv w) = (c, s', wenv w') /\
                     reg w' = l1 ++ s' :: l2).
Proof.
  unfold on_service. intros H. destruct (nth_error (reg w) i) as [s|] eqn:E.
  - destruct (f s (wenv w)) as [[c0 s'] e'] eqn:Hf. inversion H; subst. clear H. right.
    destruct (nth_error_split' _ _ _ E) as (l1 & l2 & Hl & Hi). exists l1, s, l2, s'. cbn [reg wenv].
    splits; auto. rewrite Hl. rewrite <- Hi. apply set_nth_app.
  - inversion H; subst. left. auto.
Qed.

Lemma NoDup_mid_notin (l1 l2 : list svc) s t : NoDup (map number (l1 ++ s :: l2)) -> In t (l1 ++ l2) -> number t <> number s.
Proof.
  rewrite map_app. cbn [map]. intros ND Ht E. apply NoDup_remove_2 in ND. apply ND.
  rewrite <- map_app. rewrite <- E. apply in_map. exact Ht.
Qed.

Lemma on_service_inv f w i w' c : op_props f -> Inv w -> on_service w i f = (w', c) -> Inv w'.
Proof.
  intros P [ND FA] H. apply on_service_shape in H. destruct H as [(_ & -> & _)|(l1 & s & l2 & s' & Hr & Hi & Hf & Hr')].
  { split; assumption. }
  destruct (P _ _ _ _ _ Hf) as (Nn & T & O & _). unfold Inv. rewrite Hr' in *. rewrite Hr in *. split.
  - rewrite map_app in *. cbn [map] in *. rewrite Nn. exact ND.
  - apply Forall_app in FA. destruct FA as (F1 & F2). inversion F2 as [|? ? Fs F2']; subst.
    apply Forall_app. split; [|constructor; [auto|]].
    + rewrite Forall_forall in *. intros t Ht. eapply svc_ok_tr; [|exact T|auto].
      eapply NoDup_mid_notin; [exact ND|]. apply in_or_app. left. exact Ht.
    + rewrite Forall_forall in *. intros t Ht. eapply svc_ok_tr; [|exact T|auto].
      eapply NoDup_mid_notin; [exact ND|]. apply in_or_app. right. exact Ht.
Qed.

(* ================================================================ refresh_node_registry *)
Definition refreshed (e e' : env) (s s' : svc) : Prop :=
  (exists p, livee e (number s) = Some p /\ s' = on_start_partial p s) \/
  ((livee e (number s) = None \/ elied e' = true) /\ s' = refresh_one PidNotFound s).

Lemma Forall2_impl' {A B} (R1 R2 : A -> B -> Prop) l l' :
  (forall a b, R1 a b -> R2 a b) -> Forall2 R1 l l' -> Forall2 R2 l l'.
Proof. intros H F2. induction F2; constructor; auto. Qed.

Lemma refresh_nodes_spec F l : forall e l' e', refresh_nodes F l e = (l', e') ->
  eos e' = eos e /\ ekilled e' = ekilled e /\ (elied e = true -> elied e' = true) /\
  Forall2 (refreshed e e') l l'.
Proof.
  induction l as [|s r IH]; intros e l' e' H.
  - inversion H; subst. splits; auto.
  - cbn [refresh_nodes] in H. destruct (call_pid F (number s) e) as [p e1] eqn:Hp.
    destruct (refresh_nodes F r e1) as [r' e2] eqn:Hr. inversion H; subst. clear H.
    apply call_pid_spec in Hp. destruct Hp as (E1 & K1 & Hp).
    destruct (IH _ _ _ Hr) as (E2 & K2 & L2 & F2).
    assert (L1 : elied e = true -> elied e1 = true).
    { destruct p; [destruct Hp as (_ & ->)|destruct Hp as (_ & ->)|rewrite Hp]; auto using lied_or. }
    splits; try congruence; auto.
    constructor.
    + destruct p.
      * left. exists p. split; [apply Hp|reflexivity].
      * right. split; [left; apply Hp|reflexivity].
      * right. split; [|reflexivity]. destruct (livee e (number s)) eqn:LV; [right|left; reflexivity].
        apply L2. rewrite Hp. apply orb_true_r.
    + eapply Forall2_impl'; [|exact F2]. intros a b [ (q & Q1 & Q2) | (Q1 & Q2) ]; [left|right].
      * exists q. split; [|exact Q2]. unfold livee in *. rewrite <- E1. exact Q1.
      * split; [|exact Q2]. destruct Q1 as [Q1|Q1]; [left|right; exact Q1]. unfold livee in *. rewrite <- E1. exact Q1.
Qed.

Lemma refreshed_number e e' s s' : refreshed e e' s s' -> number s' = number s.
Proof. intros [(p & _ & ->)|(_ & ->)]; [reflexivity|]. unfold refresh_one. destruct (st s); reflexivity. Qed.

Lemma Forall2_map_eq {A B} (f : A -> B) (R : A -> A -> Prop) l l' :
  (forall a b, R a b -> f b = f a) -> Forall2 R l l' -> map f l' = map f l.
Proof. intros Hf H. induction H; [reflexivity|]. cbn. rewrite IHForall2. erewrite Hf by eassumption. reflexivity. Qed.

Lemma refreshed_ok e e' s s' : eos e' = eos e -> ekilled e' = ekilled e ->
  refreshed e e' s s' -> svc_ok e s -> svc_ok e' s'.
Proof.
  intros E K R O. assert (LL : forall m, livee e' m = livee e m) by (intros m; unfold livee; rewrite E; reflexivity).
  destruct R as [(p & P1 & ->)|(_ & ->)].
  - split; [cbn; intros X; congruence|]. intros _. exists p. split; [reflexivity|]. left.
    change (number (on_start_partial p s)) with (number s). rewrite LL. exact P1.
  - unfold refresh_one. destruct (st s) eqn:S; try apply svc_ok_on_stop.
    + destruct O as [A B]. split; [exact A|]. intros X. congruence.
    + destruct O as [A B]. split; [exact A|]. intros X. congruence.
Qed.

Lemma refresh_inv F w w' c : Inv w -> step F w ORefresh = (w', c) -> Inv w'.
Proof.
  intros [ND FA] H. cbn [step] in H. destruct (refresh_nodes F (reg w) (wenv w)) as [rg e] eqn:Hr.
  inversion H; subst. clear H. apply refresh_nodes_spec in Hr. destruct Hr as (E & K & _ & F2).
  split; cbn [reg wenv].
  - erewrite Forall2_map_eq; [exact ND| |exact F2]. intros a b. apply refreshed_number.
  - clear ND. induction F2; [constructor|]. inversion FA; subst. constructor; [|auto].
    eapply refreshed_ok; eauto.
Qed.

(* ================================================================ add_node *)
Definition fresh_from (n : N) (new : list svc) : Prop :=
  Forall (fun s => st s = Added /\ pid s = None /\ n <= number s) new /\ NoDup (map number new).

Lemma fresh_from_weaken n m new : n <= m -> fresh_from m new -> fresh_from n new.
Proof.
  intros Hnm [A B]. split; [|exact B]. eapply Forall_impl; [|exact A]. cbn. intros s (X & Y & Z). splits; auto. lia.
Qed.

Lemma fresh_from_cons n s new : st s = Added -> pid s = None -> number s = n -> fresh_from (n + 1) new ->
  fresh_from n (s :: new).
Proof.
  intros S P Nn [A B]. split.
  - constructor; [splits; auto; lia|]. eapply Forall_impl; [|exact A]. cbn. intros t (X & Y & Z). splits; auto. lia.
  - cbn [map]. constructor; [|exact B]. intros I. apply in_map_iff in I. destruct I as (t & Ht & It).
    rewrite Forall_forall in A. destruct (A t It) as (_ & _ & Z). lia.
Qed.

Lemma add_loop_spec F o fuel : forall n np mp rp rg e added failed c names rg' e',
  add_loop F o fuel n np mp rp rg e added failed = (c, names, rg', e') ->
  procs (eos e') = procs (eos e) /\ ekilled e' = ekilled e /\ elied e' = elied e /\
  (forall m, m < n -> inste e' m = inste e m) /\
  exists new, rg' = rg ++ new /\ fresh_from n new.
Proof.
  induction fuel as [|fuel IH]; intros n np mp rp rg e added failed c names rg' e' H.
  - cbn [add_loop] in H. inversion H; subst. splits; auto. exists []. rewrite app_nil_r. split; [reflexivity|].
    split; constructor.
  - cbn [add_loop] in H.
    assert (STOP : forall e1, obs_eq e e1 -> (C_ADD_ABORTED, rev added, rg, e1) = (c, names, rg', e') ->
              procs (eos e') = procs (eos e) /\ ekilled e' = ekilled e /\ elied e' = elied e /\
              (forall m, m < n -> inste e' m = inste e m) /\ exists new, rg' = rg ++ new /\ fresh_from n new).
    { intros e1 O X. inversion X; subst. destruct O as (O1 & O2 & O3 & O4). splits; auto.
      - intros m _. unfold inste, is_installed. rewrite O2. reflexivity.
      - exists []. rewrite app_nil_r. split; [reflexivity|]. split; constructor. }
    destruct (match rp with Some p => (Some p, e) | None => call_port F e end) as [rpo e1] eqn:H1.
    assert (O1 : obs_eq e e1).
    { destruct rp; [inversion H1; subst; apply obs_eq_refl|eapply call_port_spec; exact H1]. }
    destruct rpo as [rpc|]; [|apply (STOP e1); auto].
    destruct (match mp with
              | Some p => (Some (Some p), e1)
              | None => if a_enable_metrics o
                        then let '(x, e'0) := call_port F e1 in (option_map Some x, e'0)
                        else (Some None, e1)
              end) as [mpo e2] eqn:H2.
    assert (O2 : obs_eq e1 e2).
    { destruct mp; [inversion H2; subst; apply obs_eq_refl|]. destruct (a_enable_metrics o).
      - destruct (call_port F e1) as [x e0] eqn:Hc. inversion H2; subst. eapply call_port_spec; exact Hc.
      - inversion H2; subst. apply obs_eq_refl. }
    destruct mpo as [mport|]; [|apply (STOP e2); auto; eapply obs_eq_trans; eassumption].
    pose proof (mkdirs_spec n e2) as O3. set (e3 := mkdirs n e2) in *.
    destruct (call_install F n np e3) as [ok e4] eqn:Hi.
    assert (O13 : obs_eq e e3) by (eapply obs_eq_trans; [eapply obs_eq_trans|]; eassumption).
    apply call_install_spec in Hi. destruct Hi as (P4 & K4 & L4 & I4 & _).
    remember (if ok then set_disk e4 (rg ++ [new_svc n np mport rpc (a_first o)]) else e4) as e4' eqn:He4'.
    assert (D4 : eos e4' = eos e4 /\ ekilled e4' = ekilled e4 /\ elied e4' = elied e4) by (subst e4'; destruct ok; repeat split).
    destruct D4 as (D1 & D2 & D3).
    assert (E4 : forall m, inste e4' m = inste e4 m) by (intros m; unfold inste; rewrite D1; reflexivity).
    apply IH in H. destruct H as (P5 & K5 & L5 & I5 & new & Hn & Fn). rewrite D1 in P5.
    destruct O13 as (Q1 & Q2 & Q3 & Q4).
    splits; try congruence.
    + intros m Hm. rewrite I5 by lia. rewrite E4. rewrite I4 by lia. unfold inste, is_installed. rewrite Q2. reflexivity.
    + destruct ok.
      * exists (new_svc n np mport rpc (a_first o) :: new). rewrite Hn. rewrite <- app_assoc. split; [reflexivity|].
        apply fresh_from_cons; auto.
      * exists new. split; [exact Hn|]. eapply fresh_from_weaken; [|exact Fn]. lia.
Qed.

Lemma max_number_ge rg s : In s rg -> number s <= max_number rg.
Proof.
  induction rg as [|a r IH]; [intros []|]. intros [->|H]; cbn [max_number fold_right].
  - lia.
  - specialize (IH H). unfold max_number in IH. lia.
Qed.

Lemma add_node_from_spec F first_number o rg e c names rg' e' :
  add_node_from F first_number o rg e = (c, names, rg', e') ->
  procs (eos e') = procs (eos e) /\ ekilled e' = ekilled e /\ elied e' = elied e /\
  (forall m, m < first_number -> inste e' m = inste e m) /\
  exists new, rg' = rg ++ new /\ fresh_from first_number new.
Proof.
  unfold add_node_from. intros H.
  assert (SAME : forall c0, (c0, @nil N, rg, e) = (c, names, rg', e') ->
     procs (eos e') = procs (eos e) /\ ekilled e' = ekilled e /\ elied e' = elied e /\
     (forall m, m < first_number -> inste e' m = inste e m) /\ exists new, rg' = rg ++ new /\ fresh_from first_number new).
  { intros c0 X. inversion X; subst. splits; auto. exists []. rewrite app_nil_r. split; [reflexivity|]. split; constructor. }
  destruct (a_first o && (1 <? match a_count o with Some c0 => c0 | None => 1 end)); [eapply SAME; eassumption|].
  destruct (a_first o && existsb first rg); [eapply SAME; eassumption|].
  destruct (check_opt (a_node o) _ rg); [eapply SAME; eassumption|].
  destruct (check_opt (a_metrics o) _ rg); [eapply SAME; eassumption|].
  destruct (check_opt (a_rpc o) _ rg); [eapply SAME; eassumption|].
  eapply add_loop_spec. exact H.
Qed.

Lemma NoDup_app_fresh rg new n : NoDup (map number rg) -> (forall s, In s rg -> number s < n) -> fresh_from n new ->
  NoDup (map number (rg ++ new)).
Proof.
  intros ND LT [A B]. rewrite map_app. induction rg as [|a r IH]; [exact B|].
  cbn [map app]. inversion ND; subst. constructor.
  - intros I. apply in_app_or in I. destruct I as [I|I]; [contradiction|].
    apply in_map_iff in I. destruct I as (t & Ht & It). rewrite Forall_forall in A. destruct (A t It) as (_ & _ & Z).
    specialize (LT a (or_introl eq_refl)). lia.
  - apply IH; [assumption|]. intros s Hs. apply LT. right. exact Hs.
Qed.

(* `antctl add` starts from the registry file = the in-memory registry *)
Lemma add_step_spec F first_number a w c names rg e' :
  add_node_from F first_number a (reg w) (set_disk (wenv w) (reg w)) = (c, names, rg, e') ->
  procs (eos e') = procs (eos (wenv w)) /\ ekilled e' = ekilled (wenv w) /\ elied e' = elied (wenv w) /\
  (forall m, m < first_number -> inste e' m = inste (wenv w) m) /\
  exists new, rg = reg w ++ new /\ fresh_from first_number new.
Proof. intros H. apply add_node_from_spec in H. exact H. Qed.

Lemma add_inv F a w w' c : Inv w -> step F w (OAdd a) = (w', c) -> Inv w'.
Proof.
  intros [ND FA] H. cbn [step] in H. unfold add_node in H.
  destruct (add_node_from F (max_number (reg w) + 1) a (reg w) (set_disk (wenv w) (reg w))) as [[[c0 names] rg] e] eqn:Ha.
  inversion H; subst. clear H. apply add_step_spec in Ha.
  destruct Ha as (P & K & L & I & new & -> & Fn). split; cbn [reg wenv].
  - eapply NoDup_app_fresh; [exact ND| |exact Fn]. intros s Hs. pose proof (max_number_ge _ _ Hs). lia.
  - apply Forall_app. split.
    + eapply Forall_impl; [|exact FA]. intros s O. apply svc_ok_keep with (e := wenv w); auto.
      intros p Hp. unfold livee, live in *. rewrite P. exact Hp.
    + destruct Fn as [A _]. eapply Forall_impl; [|exact A]. cbn. intros s (S1 & S2 & _). split; [auto|]. intros X. congruence.
Qed.

(* ================================================================ a process dies on its own *)
Lemma kill_inv F i w w' c : Inv w -> step F w (OKill i) = (w', c) -> Inv w'.
Proof.
  intros [ND FA] H. cbn [step] in H. destruct (nth_error (reg w) i) as [s|]; [|inversion H; subst; split; assumption].
  inversion H; subst. clear H. split; cbn [reg wenv]; [exact ND|].
  eapply Forall_impl; [|exact FA]. intros t [A B]. split; [exact A|]. intros R. destruct (B R) as (p & P1 & P2).
  exists p. split; [exact P1|]. unfold kill_proc. unfold livee in *.
  destruct (live (eos (wenv w)) (number s)) as [q|] eqn:LQ; [|exact P2].
  cbn [eos ekilled]. destruct (N.eq_dec (number t) (number s)) as [E|NE].
  - right. destruct P2 as [P2|P2]; [|right; exact P2]. left. rewrite E in P2. congruence.
  - destruct P2 as [P2|P2]; [left|right; right; exact P2]. unfold live. cbn [procs].
    rewrite lookup_del_other by exact NE. exact P2.
Qed.

Lemma restart_inv F i w w' c : Inv w -> step F w (ORestart i) = (w', c) -> Inv w'.
Proof.
  intros [ND FA] H. cbn [step] in H. destruct (nth_error (reg w) i) as [s|]; [|inversion H; subst; split; assumption].
  inversion H; subst. clear H. split; cbn [reg wenv]; [exact ND|].
  eapply Forall_impl; [|exact FA]. intros t [A B]. split; [exact A|]. intros R. destruct (B R) as (p & P1 & P2).
  exists p. split; [exact P1|]. unfold restart_proc. unfold livee in *.
  destruct (live (eos (wenv w)) (number s)) as [q|] eqn:LQ; [|exact P2].
  cbn [eos ekilled]. destruct (N.eq_dec (number t) (number s)) as [E|NE].
  - right. destruct P2 as [P2|P2]; [|right; exact P2]. left. rewrite E in P2. congruence.
  - destruct P2 as [P2|P2]; [left|right; right; exact P2]. unfold live. cbn [procs].
    rewrite lookup_cons_other by exact NE. rewrite lookup_del_other by exact NE. exact P2.
Qed.

(* ================================================================ every step keeps the invariant *)
Lemma step_inv F w o w' c : Inv w -> step F w o = (w', c) -> Inv w'.
Proof.
  intros I H. destruct o.
  - eapply add_inv; eauto.
  - cbn [step] in H. eapply on_service_inv; [apply mgr_start_props|exact I|exact H].
  - cbn [step] in H. eapply on_service_inv; [apply mgr_stop_props|exact I|exact H].
  - cbn [step] in H. eapply on_service_inv; [apply mgr_remove_props|exact I|exact H].
  - cbn [step] in H. eapply on_service_inv; [apply mgr_upgrade_props|exact I|exact H].
  - eapply refresh_inv; eauto.
  - eapply kill_inv; eauto.
  - eapply restart_inv; eauto.
Qed.

Lemma init_inv : Inv init.
Proof. split; constructor. Qed.

Lemma run_from_inv F ops : forall w, Inv w -> Inv (run_from F w ops).
Proof.
  induction ops as [|o r IH]; intros w I; [exact I|]. cbn [run_from fold_left]. apply IH.
  destruct (step F w o) as [w' c] eqn:H. cbn [fst]. eapply step_inv; eauto.
Qed.

Lemma run_inv F ops : Inv (run F ops).
Proof. apply run_from_inv. apply init_inv. Qed.

(* ================================================================ removed services; the antctl command discipline *)
(* a removed service has no process and no service definition *)
Definition Jw (w : world) : Prop :=
  forall s, In s (reg w) -> st s = Removed ->
    livee (wenv w) (number s) = None /\ inste (wenv w) (number s) = false.
(* no drift: a live process belongs to a service recorded as running (what a refresh establishes) *)
Definition Kw (w : world) : Prop :=
  forall s, In s (reg w) -> livee (wenv w) (number s) <> None -> st s = Running.

Definition keeps_removed (w w' : world) : Prop :=
  forall i s, nth_error (reg w) i = Some s -> st s = Removed ->
    exists s', nth_error (reg w') i = Some s' /\ st s' = Removed /\ number s' = number s.

Lemma keeps_removed_refl w : keeps_removed w w.
Proof. intros i s H R. exists s. auto. Qed.

Lemma keeps_removed_trans a b c : keeps_removed a b -> keeps_removed b c -> keeps_removed a c.
Proof.
  intros AB BC i s H R. destruct (AB i s H R) as (s1 & H1 & R1 & N1). destruct (BC i s1 H1 R1) as (s2 & H2 & R2 & N2).
  exists s2. splits; auto. congruence.
Qed.

Lemma lied_false_back (a b : bool) : (a = true -> b = true) -> b = false -> a = false.
Proof. destruct a, b; intros H X; auto. discriminate (H eq_refl). Qed.

Lemma step_lied_mono F w o w' c : step F w o = (w', c) -> elied (wenv w) = true -> elied (wenv w') = true.
Proof.
  intros H L.
  assert (OS : forall f i, op_props f -> on_service w i f = (w', c) -> elied (wenv w') = true).
  { intros f i P Hs. apply on_service_shape in Hs. destruct Hs as [(_ & -> & _)|(l1 & s & l2 & s' & _ & _ & Hf & _)]; [exact L|].
    destruct (P _ _ _ _ _ Hf) as (_ & T & _). apply T. exact L. }
  destruct o; cbn [step] in H.
  - unfold add_node in H. destruct (add_node_from _ _ _ _ _) as [[[c0 names] rg] e] eqn:Ha. inversion H; subst.
    apply add_step_spec in Ha. destruct Ha as (_ & _ & LL & _). cbn [wenv]. congruence.
  - eapply OS; [apply mgr_start_props|exact H].
  - eapply OS; [apply mgr_stop_props|exact H].
  - eapply OS; [apply mgr_remove_props|exact H].
  - eapply OS; [apply mgr_upgrade_props|exact H].
  - destruct (refresh_nodes F (reg w) (wenv w)) as [rg e] eqn:Hr. inversion H; subst.
    apply refresh_nodes_spec in Hr. destruct Hr as (_ & _ & LL & _). cbn [wenv]. auto.
  - destruct (nth_error (reg w) i); inversion H; subst; [|exact L]. cbn [wenv]. unfold kill_proc.
    destruct (live _ _); exact L.
  - destruct (nth_error (reg w) i); inversion H; subst; [|exact L]. cbn [wenv]. unfold restart_proc.
    destruct (live _ _); exact L.
Qed.

Lemma run_from_lied_mono F ops : forall w, elied (wenv w) = true -> elied (wenv (run_from F w ops)) = true.
Proof.
  induction ops as [|o r IH]; intros w L; [exact L|]. cbn [run_from fold_left]. apply IH.
  destruct (step F w o) as [w' c] eqn:H. cbn [fst]. eapply step_lied_mono; eauto.
Qed.

Lemma in_mid {A} (l1 l2 : list A) x t : In t (l1 ++ x :: l2) -> t = x \/ In t (l1 ++ l2).
Proof. intros H. apply in_app_or in H. destruct H as [H|[H|H]]; [right|left|right]; auto using in_or_app. Qed.

Lemma on_service_J f w i w' c : op_props f -> Inv w -> Jw w -> Kw w -> on_service w i f = (w', c) ->
  Jw w' /\ keeps_removed w w'.
Proof.
  intros P [ND _] J K H. apply on_service_shape in H.
  destruct H as [(_ & -> & _)|(l1 & s & l2 & s' & Hr & Hi & Hf & Hr')]; [split; [exact J|apply keeps_removed_refl]|].
  destruct (P _ _ _ _ _ Hf) as (Nn & T & _ & _ & P5 & P6).
  assert (INs : In s (reg w)) by (rewrite Hr; apply in_or_app; right; left; reflexivity).
  assert (S' : st s' = Removed -> livee (wenv w') (number s') = None /\ inste (wenv w') (number s') = false).
  { intros R. rewrite Nn. destruct (status_eqb (st s) Removed) eqn:SE.
    - assert (SR : st s = Removed) by (destruct (st s); try discriminate; reflexivity).
      destruct (J s INs SR) as (A & B). destruct (P5 SR A B) as (_ & C & D). auto.
    - assert (SR : st s <> Removed) by (intros X; rewrite X in SE; discriminate).
      destruct (P6 SR R) as (A & B & C). split; [|exact C]. rewrite B.
      destruct (livee (wenv w) (number s)) eqn:LV; [|reflexivity]. elim A. apply K; [exact INs|congruence]. }
  split.
  - intros t Ht R. rewrite Hr' in Ht. apply in_mid in Ht. destruct Ht as [->|Ht]; [auto|].
    assert (NE : number t <> number s).
    { rewrite Hr in ND. eapply NoDup_mid_notin; eauto. }
    rewrite (tr_live _ _ _ T) by exact NE. rewrite (tr_inst _ _ _ T) by exact NE. apply J; [|exact R].
    rewrite Hr. apply in_app_or in Ht. apply in_or_app. destruct Ht; [left|right; right]; assumption.
  - intros j t Hj R. rewrite Hr in Hj. rewrite Hr'. destruct (Nat.eq_dec j (List.length l1)) as [->|NE].
    + rewrite nth_error_app_mid in Hj. inversion Hj; subst t. exists s'. rewrite nth_error_app_mid.
      destruct (J s INs R) as (A & B). destruct (P5 R A B) as (C & _). auto.
    + exists t. rewrite (nth_error_app_other l1 l2 s s' j NE). auto.
Qed.

Lemma Forall2_nth {A B} (R : A -> B -> Prop) l l' : Forall2 R l l' -> forall i a, nth_error l i = Some a ->
  exists b, nth_error l' i = Some b /\ R a b.
Proof.
  intros H. induction H; intros i a Hi; [destruct i; discriminate|]. destruct i; cbn in *.
  - inversion Hi; subst. eauto.
  - eauto.
Qed.

Lemma Forall2_in_r {A B} (R : A -> B -> Prop) l l' : Forall2 R l l' -> forall b, In b l' -> exists a, In a l /\ R a b.
Proof.
  intros H. induction H; intros b Hb; [destruct Hb|]. destruct Hb as [->|Hb]; [exists x; split; [left; reflexivity|assumption]|].
  destruct (IHForall2 b Hb) as (a & A1 & A2). exists a. split; [right|]; assumption.
Qed.

Lemma refresh_J F w w' c : Jw w -> step F w ORefresh = (w', c) -> Jw w' /\ keeps_removed w w'.
Proof.
  intros J H. cbn [step] in H. destruct (refresh_nodes F (reg w) (wenv w)) as [rg e] eqn:Hr. inversion H; subst. clear H.
  apply refresh_nodes_spec in Hr. destruct Hr as (E & _ & _ & F2). cbn [reg wenv].
  assert (SAME : forall s s', In s (reg w) -> refreshed (wenv w) e s s' -> st s = Removed -> s' = s).
  { intros s s' Hs Rf R. destruct (J s Hs R) as (A & _). destruct Rf as [(p & P1 & _)|(_ & ->)]; [congruence|].
    unfold refresh_one. rewrite R. reflexivity. }
  assert (BACK : forall s s', refreshed (wenv w) e s s' -> st s' = Removed -> st s = Removed).
  { intros s s' [(p & _ & ->)|(_ & ->)] R; [discriminate R|]. unfold refresh_one in R. destruct (st s) eqn:S; try rewrite S in R; try discriminate R; reflexivity. }
  split.
  - intros s' Hs' R. cbn [reg] in Hs'. destruct (Forall2_in_r _ _ _ F2 _ Hs') as (s & Hs & Rf).
    pose proof (BACK _ _ Rf R) as SR. rewrite (SAME _ _ Hs Rf SR). unfold livee, inste. cbn [wenv]. rewrite E. apply J; assumption.
  - intros i s Hi R. destruct (Forall2_nth _ _ _ F2 _ _ Hi) as (s' & Hi' & Rf). exists s'. cbn [reg].
    rewrite (SAME _ _ (nth_error_In _ _ Hi) Rf R) in *. auto.
Qed.

Lemma refresh_K F w w' c : step F w ORefresh = (w', c) -> elied (wenv w') = false -> Kw w'.
Proof.
  intros H L. cbn [step] in H. destruct (refresh_nodes F (reg w) (wenv w)) as [rg e] eqn:Hr. inversion H; subst. clear H.
  apply refresh_nodes_spec in Hr. destruct Hr as (E & _ & _ & F2). cbn [reg wenv] in *.
  intros s' Hs' LV. destruct (Forall2_in_r _ _ _ F2 _ Hs') as (s & Hs & Rf).
  pose proof (refreshed_number _ _ _ _ Rf) as Nn. destruct Rf as [(p & _ & ->)|([A|A] & _)]; [reflexivity| |congruence].
  elim LV. unfold livee in *. cbn [wenv]. rewrite E, Nn. exact A.
Qed.

Lemma nth_error_app_some {A} (l r : list A) i x : nth_error l i = Some x -> nth_error (l ++ r) i = Some x.
Proof. intros H. rewrite nth_error_app1; [exact H|]. apply nth_error_Some. congruence. Qed.

Lemma add_J F a w w' c : Jw w -> step F w (OAdd a) = (w', c) -> Jw w' /\ keeps_removed w w'.
Proof.
  intros J H. cbn [step] in H. unfold add_node in H.
  destruct (add_node_from F (max_number (reg w) + 1) a (reg w) (set_disk (wenv w) (reg w))) as [[[c0 names] rg] e] eqn:Ha.
  inversion H; subst. clear H. apply add_step_spec in Ha.
  destruct Ha as (P & _ & _ & I & new & -> & (Fn & _)). cbn [reg wenv]. split.
  - intros s Hs R. apply in_app_or in Hs. destruct Hs as [Hs|Hs].
    + destruct (J s Hs R) as (A & B). cbn [wenv]. split.
      * unfold livee, live in *. rewrite P. exact A.
      * rewrite I; [exact B|]. pose proof (max_number_ge _ _ Hs). lia.
    + rewrite Forall_forall in Fn. destruct (Fn s Hs) as (X & _). congruence.
  - intros i s Hi R. exists s. cbn [reg]. splits; auto. apply nth_error_app_some. exact Hi.
Qed.

Lemma kill_J F i w w' c : Jw w -> step F w (OKill i) = (w', c) -> Jw w' /\ keeps_removed w w'.
Proof.
  intros J H. cbn [step] in H. destruct (nth_error (reg w) i) as [s|]; inversion H; subst;
    [|split; [exact J|apply keeps_removed_refl]].
  split; [|intros j t Hj R; exists t; auto].
  intros t Ht R. cbn [reg] in Ht. destruct (J t Ht R) as (A & B). cbn [wenv]. unfold kill_proc, livee, inste in *.
  destruct (live (eos (wenv w)) (number s)) eqn:LQ; [|auto]. cbn [eos]. split; [|exact B].
  unfold live in *. cbn [procs]. destruct (N.eq_dec (number t) (number s)) as [E|NE].
  - rewrite E. apply lookup_del_same.
  - rewrite lookup_del_other by exact NE. exact A.
Qed.

Lemma restart_J F i w w' c : Jw w -> step F w (ORestart i) = (w', c) -> Jw w' /\ keeps_removed w w'.
Proof.
  intros J H. cbn [step] in H. destruct (nth_error (reg w) i) as [s|]; inversion H; subst;
    [|split; [exact J|apply keeps_removed_refl]].
  split; [|intros j t Hj R; exists t; auto].
  intros t Ht R. cbn [reg] in Ht. destruct (J t Ht R) as (A & B). cbn [wenv]. unfold restart_proc, livee, inste in *.
  destruct (live (eos (wenv w)) (number s)) eqn:LQ; [|auto]. cbn [eos]. split; [|exact B].
  unfold live in *. cbn [procs]. destruct (N.eq_dec (number t) (number s)) as [E|NE].
  - rewrite E in A. congruence.
  - rewrite lookup_cons_other by exact NE. rewrite lookup_del_other by exact NE. exact A.
Qed.

Lemma run_from_app F a b w : run_from F w (a ++ b) = run_from F (run_from F w a) b.
Proof. unfold run_from. apply fold_left_app. Qed.

(* one antctl command: refresh first, then the operation *)
Lemma cmd_J F c w : Inv w -> Jw w -> elied (wenv (run_from F w (expand1 c))) = false ->
  Jw (run_from F w (expand1 c)) /\ keeps_removed w (run_from F w (expand1 c)).
Proof.
  intros I J.
  assert (TWO : forall o f i, op_props f -> (forall w0, step F w0 o = on_service w0 i f) ->
     elied (wenv (run_from F w [ORefresh; o])) = false ->
     Jw (run_from F w [ORefresh; o]) /\ keeps_removed w (run_from F w [ORefresh; o])).
  { intros o f i P Ho L. cbn [run_from fold_left] in *.
    destruct (step F w ORefresh) as [w1 c1] eqn:H1. cbn [fst] in *.
    destruct (step F w1 o) as [w2 c2] eqn:H2. cbn [fst] in *.
    assert (L1 : elied (wenv w1) = false).
    { eapply lied_false_back; [|exact L]. eapply step_lied_mono; exact H2. }
    destruct (refresh_J _ _ _ _ J H1) as (J1 & KR1). pose proof (refresh_K _ _ _ _ H1 L1) as K1.
    pose proof (step_inv _ _ _ _ _ I H1) as I1. rewrite Ho in H2.
    destruct (on_service_J _ _ _ _ _ P I1 J1 K1 H2) as (J2 & KR2). split; [exact J2|].
    eapply keeps_removed_trans; eassumption. }
  destruct c; cbn [expand1].
  - intros _. cbn [run_from fold_left]. destruct (step F w (OAdd o)) as [w1 c1] eqn:H1. eapply add_J; eauto.
  - eapply TWO; [apply mgr_start_props|reflexivity].
  - eapply TWO; [apply mgr_stop_props|reflexivity].
  - eapply TWO; [apply mgr_remove_props|reflexivity].
  - eapply TWO; [apply mgr_upgrade_props|reflexivity].
  - intros _. cbn [run_from fold_left]. destruct (step F w ORefresh) as [w1 c1] eqn:H1. eapply refresh_J; eauto.
  - intros _. cbn [run_from fold_left]. destruct (step F w (OKill i)) as [w1 c1] eqn:H1. eapply kill_J; eauto.
  - intros _. cbn [run_from fold_left]. destruct (step F w (ORestart i)) as [w1 c1] eqn:H1. eapply restart_J; eauto.
Qed.

Lemma cmds_J F cs : forall w, Inv w -> Jw w -> elied (wenv (run_from F w (expand cs))) = false ->
  Jw (run_from F w (expand cs)) /\ keeps_removed w (run_from F w (expand cs)).
Proof.
  induction cs as [|c r IH]; intros w I J L.
  - split; [exact J|apply keeps_removed_refl].
  - cbn [expand flat_map] in *. fold (expand r) in *. rewrite run_from_app in *.
    set (w1 := run_from F w (expand1 c)) in *.
    assert (L1 : elied (wenv w1) = false).
    { eapply lied_false_back; [|exact L]. apply run_from_lied_mono. }
    destruct (cmd_J F c w I J L1) as (J1 & KR1). fold w1 in J1, KR1.
    assert (I1 : Inv w1) by (apply run_from_inv; exact I).
    destruct (IH w1 I1 J1 L) as (J2 & KR2). split; [exact J2|]. eapply keeps_removed_trans; eassumption.
Qed.

Lemma init_J : Jw init.
Proof. intros s []. Qed.

(* ================================================================ the pinned statements *)
(* (1) a service recorded as running has the recorded pid, and that process is alive unless it has
       died on its own (OKill) since the manager last looked -- for EVERY history and fault plan *)
Lemma running_lemma F ops s : In s (reg (run F ops)) -> st s = Running ->
  exists p, pid s = Some p /\
    (live (eos (wenv (run F ops))) (number s) = Some p \/ In p (ekilled (wenv (run F ops)))).
Proof.
  intros Hs R. destruct (run_inv F ops) as [_ FA]. rewrite Forall_forall in FA. destruct (FA s Hs) as [_ B]. exact (B R).
Qed.

Lemma not_running_no_pid F ops s : In s (reg (run F ops)) -> st s <> Running -> pid s = None.
Proof.
  intros Hs R. destruct (run_inv F ops) as [_ FA]. rewrite Forall_forall in FA. destruct (FA s Hs) as [A _]. exact (A R).
Qed.

(* (1') a refresh that was not lied to brings every record in line with the OS *)
Lemma refresh_syncs_lemma F ops s :
  let w := run F (ops ++ [ORefresh]) in
  elied (wenv w) = false -> In s (reg w) ->
  match live (eos (wenv w)) (number s) with
  | Some p => st s = Running /\ pid s = Some p
  | None => st s <> Running /\ pid s = None
  end.
Proof.
  intros w L Hs. subst w. unfold run in *. rewrite run_from_app in *. set (w0 := run_from F init ops) in *.
  assert (I0 : Inv w0) by (apply run_from_inv, init_inv).
  cbn [run_from fold_left] in *. destruct (step F w0 ORefresh) as [w1 c1] eqn:H1. cbn [fst] in *.
  pose proof (refresh_K _ _ _ _ H1 L) as K1. pose proof (step_inv _ _ _ _ _ I0 H1) as [_ FA].
  rewrite Forall_forall in FA. destruct (FA s Hs) as [A B]. fold (livee (wenv w1) (number s)).
  destruct (livee (wenv w1) (number s)) as [p|] eqn:LV.
  - assert (R : st s = Running) by (apply K1; [exact Hs|congruence]). split; [exact R|].
    destruct (B R) as (q & Q1 & Q2). cbn [step] in H1. destruct (refresh_nodes F (reg w0) (wenv w0)) as [rg e] eqn:Hr.
    inversion H1; subst. apply refresh_nodes_spec in Hr. destruct Hr as (E & _ & _ & F2). cbn [reg wenv] in *.
    destruct (Forall2_in_r _ _ _ F2 _ Hs) as (s0 & Hs0 & Rf). pose proof (refreshed_number _ _ _ _ Rf) as Nn.
    destruct Rf as [(p' & P1 & ->)|([X|X] & ->)].
    + cbn. unfold livee in *. rewrite E in LV. cbn in LV. congruence.
    + unfold livee in *. rewrite E, Nn in LV. congruence.
    + congruence.
  - split; [|].
    + intros R. destruct (B R) as (q & Q1 & Q2).
      cbn [step] in H1. destruct (refresh_nodes F (reg w0) (wenv w0)) as [rg e] eqn:Hr.
      inversion H1; subst. apply refresh_nodes_spec in Hr. destruct Hr as (E & _ & _ & F2). cbn [reg wenv] in *.
      destruct (Forall2_in_r _ _ _ F2 _ Hs) as (s0 & Hs0 & Rf). pose proof (refreshed_number _ _ _ _ Rf) as Nn.
      destruct Rf as [(p' & P1 & ->)|(_ & ->)].
      * unfold livee in *. rewrite E in LV. cbn in LV. congruence.
      * unfold refresh_one in R. destruct (st s0) eqn:S0; try rewrite S0 in R; discriminate R.
    + cbn [step] in H1. destruct (refresh_nodes F (reg w0) (wenv w0)) as [rg e] eqn:Hr.
      inversion H1; subst. apply refresh_nodes_spec in Hr. destruct Hr as (E & _ & _ & F2). cbn [reg wenv] in *.
      destruct (Forall2_in_r _ _ _ F2 _ Hs) as (s0 & Hs0 & Rf).
      destruct Rf as [(p' & P1 & ->)|(_ & ->)].
      * unfold livee in *. rewrite E in LV. cbn in LV. congruence.
      * apply A. unfold refresh_one. destruct (st s0) eqn:S0; try rewrite S0; cbn; discriminate.
Qed.

(* (2) after the refresh every antctl command starts with, a successful stop leaves no process and no pid *)
Lemma stop_lemma F ops i :
  let w := run F (ops ++ [ORefresh]) in
  forall w' s', step F w (OStop i) = (w', C_OK) -> elied (wenv w') = false ->
  nth_error (reg w') i = Some s' ->
  pid s' = None /\ live (eos (wenv w')) (number s') = None.
Proof.
  intros w w' s' H L Hn. subst w. unfold run in *. rewrite run_from_app in *. set (w0 := run_from F init ops) in *.
  assert (I0 : Inv w0) by (apply run_from_inv, init_inv).
  cbn [run_from fold_left] in *. destruct (step F w0 ORefresh) as [w1 c1] eqn:H1. cbn [fst] in *.
  assert (L1 : elied (wenv w1) = false) by (eapply lied_false_back; [eapply step_lied_mono; exact H|exact L]).
  pose proof (refresh_K _ _ _ _ H1 L1) as K1. pose proof (step_inv _ _ _ _ _ I0 H1) as [ND FA].
  cbn [step] in H. apply on_service_shape in H.
  destruct H as [(X & _)|(l1 & s & l2 & s2 & Hr & Hi & Hf & Hr')]; [discriminate X|].
  rewrite Hr' in Hn. rewrite <- Hi in Hn. rewrite nth_error_app_mid in Hn. inversion Hn; subst s2. clear Hn.
  assert (INs : In s (reg w1)) by (rewrite Hr; apply in_or_app; right; left; reflexivity).
  rewrite Forall_forall in FA. destruct (FA s INs) as [A B].
  pose proof (mgr_stop_status _ _ _ _ _ _ Hf) as (Nn & _). rewrite Nn.
  apply mgr_stop_spec in Hf. destruct Hf as (_ & _ & [(-> & LV & NR)|(_ & -> & SR & LV)]).
  - specialize (NR eq_refl). split; [auto|]. fold (livee (wenv w') (number s)). rewrite LV.
    destruct (livee (wenv w1) (number s)) eqn:X; [|reflexivity]. elim NR. apply K1; [exact INs|congruence].
  - split; [reflexivity|]. fold (livee (wenv w') (number s)). destruct LV as [LV|(LV & LI)]; [exact LV|].
    rewrite LV. destruct (livee (wenv w1) (number s)) eqn:X; [|reflexivity].
    assert (Y : elied (wenv w') = true) by (apply LI; discriminate). congruence.
Qed.

(*     ... and a successful removal leaves no process, no pid and no service definition *)
Lemma remove_lemma F ops i keep :
  let w := run F (ops ++ [ORefresh]) in
  forall w' s', step F w (ORemove i keep) = (w', C_OK) -> elied (wenv w') = false ->
  nth_error (reg w') i = Some s' ->
  st s' = Removed /\ pid s' = None /\ live (eos (wenv w')) (number s') = None /\
  is_installed (eos (wenv w')) (number s') = false.
Proof.
  intros w w' s' H L Hn. subst w. unfold run in *. rewrite run_from_app in *. set (w0 := run_from F init ops) in *.
  assert (I0 : Inv w0) by (apply run_from_inv, init_inv).
  cbn [run_from fold_left] in *. destruct (step F w0 ORefresh) as [w1 c1] eqn:H1. cbn [fst] in *.
  assert (L1 : elied (wenv w1) = false) by (eapply lied_false_back; [eapply step_lied_mono; exact H|exact L]).
  pose proof (refresh_K _ _ _ _ H1 L1) as K1. pose proof (step_inv _ _ _ _ _ I0 H1) as [ND FA].
  cbn [step] in H. apply on_service_shape in H.
  destruct H as [(X & _)|(l1 & s & l2 & s2 & Hr & Hi & Hf & Hr')]; [discriminate X|].
  rewrite Hr' in Hn. rewrite <- Hi in Hn. rewrite nth_error_app_mid in Hn. inversion Hn; subst s2. clear Hn.
  assert (INs : In s (reg w1)) by (rewrite Hr; apply in_or_app; right; left; reflexivity).
  rewrite Forall_forall in FA. destruct (FA s INs) as [A B].
  apply mgr_remove_spec in Hf. destruct Hf as (_ & LV & [(_ & X & _)|[(X & _)|(_ & -> & NR & IN)]]); try discriminate X.
  change (number (on_remove s)) with (number s). splits; auto.
  fold (livee (wenv w') (number s)). rewrite LV.
  destruct (livee (wenv w1) (number s)) eqn:X; [|reflexivity]. elim NR. apply K1; [exact INs|congruence].
Qed.

(* (3) a removed service stays removed -- over antctl command sequences that were never lied to *)
Lemma removed_stays_lemma F cs1 cs2 :
  let w1 := run F (expand cs1) in
  let w2 := run F (expand (cs1 ++ cs2)) in
  elied (wenv w2) = false ->
  forall i s, nth_error (reg w1) i = Some s -> st s = Removed ->
  exists s', nth_error (reg w2) i = Some s' /\ st s' = Removed /\ number s' = number s.
Proof.
  intros w1 w2 L. subst w1 w2. unfold expand in *. rewrite flat_map_app in *. fold (expand cs1) (expand cs2) in *.
  unfold run in *. rewrite run_from_app in *. set (w1 := run_from F init (expand cs1)) in *.
  assert (L1 : elied (wenv w1) = false) by (eapply lied_false_back; [apply run_from_lied_mono|exact L]).
  destruct (cmds_J F cs1 init init_inv init_J L1) as (J1 & _). fold w1 in J1.
  assert (I1 : Inv w1) by (apply run_from_inv, init_inv).
  destruct (cmds_J F cs2 w1 I1 J1 L) as (_ & KR). exact KR.
Qed.

(*     the same runs never leave a process or a service definition behind a removed service *)
Lemma removed_clean_lemma F cs s :
  let w := run F (expand cs) in elied (wenv w) = false -> In s (reg w) -> st s = Removed ->
  live (eos (wenv w)) (number s) = None /\ is_installed (eos (wenv w)) (number s) = false.
Proof.
  intros w L Hs R. destruct (cmds_J F cs init init_inv init_J L) as (J & _). exact (J s Hs R).
Qed.

(* (4) a failed operation never newly records a service as running -- every step, every fault plan *)
Lemma failed_op_lemma F w o w' c : step F w o = (w', c) -> is_ok c = false ->
  forall i s', nth_error (reg w') i = Some s' -> st s' = Running ->
  exists s, nth_error (reg w) i = Some s /\ st s = Running.
Proof.
  intros H NOK i s' Hi R.
  assert (OS : forall f j, op_props f -> on_service w j f = (w', c) -> exists s, nth_error (reg w) i = Some s /\ st s = Running).
  { intros f j P Hs. apply on_service_shape in Hs. destruct Hs as [(_ & -> & _)|(l1 & s & l2 & s2 & Hr & Hj & Hf & Hr')]; [eauto|].
    destruct (P _ _ _ _ _ Hf) as (_ & _ & _ & P4 & _). rewrite Hr' in Hi. rewrite Hr.
    destruct (Nat.eq_dec i (List.length l1)) as [->|NE].
    - rewrite nth_error_app_mid in *. inversion Hi; subst s2. eauto.
    - rewrite (nth_error_app_other l1 l2 s2 s i NE). eauto. }
  destruct o; cbn [step] in H.
  - unfold add_node in H. destruct (add_node_from _ _ _ _ _) as [[[c0 names] rg] e] eqn:Ha. inversion H; subst.
    apply add_step_spec in Ha. destruct Ha as (_ & _ & _ & _ & new & -> & (Fn & _)). cbn [reg] in Hi.
    destruct (nth_error (reg w) i) as [s|] eqn:E.
    + rewrite (nth_error_app_some _ new _ _ E) in Hi. inversion Hi; subst. eauto.
    + apply nth_error_None in E. rewrite nth_error_app2 in Hi by exact E. apply nth_error_In in Hi.
      rewrite Forall_forall in Fn. destruct (Fn _ Hi) as (X & _). congruence.
  - eapply OS; [apply mgr_start_props|exact H].
  - eapply OS; [apply mgr_stop_props|exact H].
  - eapply OS; [apply mgr_remove_props|exact H].
  - eapply OS; [apply mgr_upgrade_props|exact H].
  - destruct (refresh_nodes F (reg w) (wenv w)). inversion H; subst. discriminate NOK.
  - destruct (nth_error (reg w) i0); inversion H; subst; [discriminate NOK|eauto].
  - destruct (nth_error (reg w) i0); inversion H; subst; [discriminate NOK|eauto].
Qed.

(* (5) a requested port that any recorded service already holds is refused, with no effect at all *)
Definition requests (a : addopts) (q : N) : Prop :=
  exists pr, (a_node a = Some pr \/ a_metrics a = Some pr \/ a_rpc a = Some pr) /\ in_range pr q = true.

Lemma check_opt_conflict pr count rg q : In q (all_ports rg) -> in_range pr q = true ->
  exists c, check_opt (Some pr) count rg = Some c /\ is_ok c = false.
Proof.
  intros Hq Hr. unfold check_opt. destruct (validate pr count); cbn [negb]; [|exists C_PORT_COUNT; split; reflexivity].
  unfold port_free. assert (X : existsb (in_range pr) (all_ports rg) = true) by (apply existsb_exists; eauto).
  rewrite X. cbn [negb]. exists C_PORT_IN_USE. split; reflexivity.
Qed.

Lemma check_opt_codes o count rg c : check_opt o count rg = Some c -> is_ok c = false.
Proof.
  unfold check_opt. destruct o as [pr|]; [|discriminate]. destruct (negb (validate pr count)); [intros X; inversion X; reflexivity|].
  destruct (negb (port_free pr rg)); intros X; inversion X; reflexivity.
Qed.

Lemma port_conflict_lemma F w a q w' c : In q (all_ports (reg w)) -> requests a q ->
  step F w (OAdd a) = (w', c) ->
  is_ok c = false /\ reg w' = reg w /\ wenv w' = set_disk (wenv w) (reg w).
Proof.
  intros Hq (pr & Hpr & Hin) H. cbn [step] in H. unfold add_node, add_node_from in H.
  destruct w as [rg e]. cbn [reg wenv] in *.
  destruct (a_first a && (1 <? match a_count a with Some c0 => c0 | None => 1 end)); [inversion H; subst; repeat split|].
  destruct (a_first a && existsb first rg); [inversion H; subst; repeat split|].
  set (count := match a_count a with Some c0 => c0 | None => 1 end) in *.
  destruct (check_opt (a_node a) count rg) as [c1|] eqn:C1.
  { inversion H; subst. split; [eapply check_opt_codes; exact C1|split; reflexivity]. }
  destruct (check_opt (a_metrics a) count rg) as [c2|] eqn:C2.
  { inversion H; subst. split; [eapply check_opt_codes; exact C2|split; reflexivity]. }
  destruct (check_opt (a_rpc a) count rg) as [c3|] eqn:C3.
  { inversion H; subst. split; [eapply check_opt_codes; exact C3|split; reflexivity]. }
  exfalso. destruct Hpr as [E|[E|E]]; rewrite E in *;
    destruct (check_opt_conflict pr count rg q Hq Hin) as (c0 & X & _); congruence.
Qed.

(* (6) names and data directories (both functions of the number) are never shared *)
Lemma append_inj_l (p a b : string) : (p ++ a)%string = (p ++ b)%string -> a = b.
Proof. induction p as [|c r IH]; [auto|]. cbn [append]. intros H. inversion H. auto. Qed.

Lemma sname_inj n m : sname n = sname m -> n = m.
Proof.
  unfold sname. intros H. apply append_inj_l in H.
  rewrite <- (val_dec n), <- (val_dec m). rewrite H. reflexivity.
Qed.

Lemma names_unique_lemma F ops :
  NoDup (map number (reg (run F ops))) /\ NoDup (map (fun s => sname (number s)) (reg (run F ops))).
Proof.
  destruct (run_inv F ops) as [ND _]. split; [exact ND|].
  rewrite <- (map_map number sname). generalize (map number (reg (run F ops))) ND. clear.
  intros l ND. induction ND as [|x l NI ND IH]; cbn [map]; constructor; [|exact IH].
  intros I. apply in_map_iff in I. destruct I as (y & E & Iy). apply sname_inj in E. subst y. contradiction.
Qed.

(* the numbering before the repair (from the registry length) did hand out a name twice: F21 *)
Lemma names_unique_legacy_refuted :
  exists F a1 a2,
    let e0 := wenv init in
    let '(_, _, rg1, e1) := add_node_legacy F a1 [] e0 in
    let '(_, _, rg2, _) := add_node_legacy F a2 rg1 e1 in
    map (fun s => sname (number s)) rg2 = ["antnode2"; "antnode2"]%string.
Proof.
  exists [1], (mkAdd (Some 2) None None None false false), (mkAdd None None None None false false).
  vm_compute. reflexivity.
Qed.

(* ================================================================ non-vacuity and recorded observations *)
Definition add1 := OAdd (mkAdd None None None None false false).
Definition add2 := OAdd (mkAdd (Some 2) None None None false false).

(* a running service exists, is alive with its pid; then it is stopped, then removed *)
Example ex_running : map (fun s => (st s, pid s)) (reg (run [] [add2; ORefresh; OStart 0%nat true])) =
  [(Running, Some 1000); (Added, None)] /\ live (eos (wenv (run [] [add2; ORefresh; OStart 0%nat true]))) 1 = Some 1000.
Proof. vm_compute. split; reflexivity. Qed.

Example ex_stop_ok : snd (step [] (run [] ([add2; ORefresh; OStart 0%nat true] ++ [ORefresh])) (OStop 0%nat)) = C_OK
  /\ elied (wenv (fst (step [] (run [] ([add2; ORefresh; OStart 0%nat true] ++ [ORefresh])) (OStop 0%nat)))) = false.
Proof. vm_compute. split; reflexivity. Qed.

Example ex_remove_ok : snd (step [] (run [] ([add2] ++ [ORefresh])) (ORemove 1%nat false)) = C_OK.
Proof. vm_compute. reflexivity. Qed.

Example ex_removed_stays :
  map st (reg (run [] (expand [CAdd (mkAdd (Some 2) None None None false false); CRemove 0%nat false]))) = [Removed; Added] /\
  map st (reg (run [] (expand ([CAdd (mkAdd (Some 2) None None None false false); CRemove 0%nat false] ++
         [CStart 0%nat false; CUpgrade 0%nat true true 5 true false; CStatus])))) = [Removed; Added].
Proof. vm_compute. split; reflexivity. Qed.

(* a failed start (the RPC after the launch fails: call 5) leaves the record Added -- not newly running *)
Example ex_failed_start : let '(w, c) := step [5] (run [5] [add1]) (OStart 0%nat false) in
  c = C_CONTROL /\ map st (reg w) = [Added] /\ live (eos (wenv w)) 1 = Some 1000.
Proof. vm_compute. repeat split. Qed.

Example ex_port_conflict : let w := run [] [OAdd (mkAdd None (Some (PSingle 5000)) None None false false)] in
  In 5000 (all_ports (reg w)) /\ requests (mkAdd (Some 2) None (Some (PRange 4999 5000)) None false false) 5000.
Proof.
  split; [vm_compute; auto|]. exists (PRange 4999 5000). split; [right; left; reflexivity|reflexivity].
Qed.

(* OBSERVATIONS (why (2) and (3) are stated for the refresh-first discipline and un-lied-to runs):
   without the refresh, the process launched by a failed start is invisible to `stop` ... *)
Lemma stop_without_refresh_refuted :
  exists F ops i, let '(w', c) := step F (run F ops) (OStop i) in
    c = C_OK /\ elied (wenv w') = false /\ live (eos (wenv w')) 1 <> None.
Proof. exists [5], [add1; OStart 0%nat false], 0%nat. vm_compute. repeat split; discriminate. Qed.

(* ... a probe that errs while the process lives makes `stop` report success without stopping it ... *)
Lemma stop_under_probe_fault_refuted :
  exists F ops i, let '(w', c) := step F (run F (ops ++ [ORefresh])) (OStop i) in
    c = C_OK /\ elied (wenv w') = true /\ live (eos (wenv w')) 1 <> None.
Proof. exists [8], [add1; OStart 0%nat false], 0%nat. vm_compute. repeat split; discriminate. Qed.

(* ... and without the refresh a removed service can come back as Running *)
Lemma removed_comes_back_raw_refuted :
  exists F ops, map st (reg (run F ops)) = [Removed] /\ map st (reg (run F (ops ++ [ORefresh]))) = [Running].
Proof. exists [5], [add1; OStart 0%nat false; ORemove 0%nat true]. vm_compute. split; reflexivity. Qed.

(* an upgrade whose re-install fails leaves the service without a definition (recorded Stopped/Added) *)
Lemma upgrade_install_fault_observation :
  exists F ops, map st (reg (run F ops)) = [Added] /\ is_installed (eos (wenv (run F ops))) 1 = false.
Proof. exists [3], [add1; OUpgrade 0%nat false true 2 true false]. vm_compute. split; reflexivity. Qed.

(* ================================================================ constants re-read from the source on every run *)
Lemma lifecycle_constants_ok :
  map status_str [Added; Running; Stopped; Removed] = Consts.svc_status_names /\
  (forall n, sname n = (Consts.svc_name_prefix ++ dec n)%string) /\
  Consts.antctl_cmds_refresh_first = true.
Proof. split; [reflexivity|]. split; [intros n; reflexivity|reflexivity]. Qed.

(* ================================================================ what a reported success leaves in the RECORD, unconditionally *)
Lemma mgr_stop_codes F s e c s' e' : mgr_stop F s e = (c, s', e') -> c = C_OK \/ c = C_PID_NOT_SET \/ c = C_CONTROL.
Proof.
  unfold mgr_stop. intros H. destruct (st s); try (inversion H; auto).
  destruct (pid s); [|inversion H; auto].
  destruct (call_pid F (number s) e) as [r e1]. destruct r.
  - destruct (call_stop F (number s) e1) as [ok e2]. destruct ok; inversion H; auto.
  - inversion H; auto.
  - inversion H; auto.
Qed.

Lemma mgr_stop_ok_record F s e s' e' : svc_ok e s -> mgr_stop F s e = (C_OK, s', e') -> pid s' = None /\ st s' <> Running.
Proof.
  intros [A _] H. apply mgr_stop_spec in H. destruct H as (_ & _ & [(-> & _ & NR)|(_ & -> & _)]).
  - specialize (NR eq_refl). auto.
  - split; [reflexivity|discriminate].
Qed.

Lemma mgr_remove_ok_record F keep s e s' e' : svc_ok e s -> mgr_remove F keep s e = (C_OK, s', e') ->
  st s' = Removed /\ pid s' = None /\ inste e' (number s') = false.
Proof.
  intros [A _] H. apply mgr_remove_spec in H.
  destruct H as (_ & _ & [(_ & X & _)|[(X & _)|(_ & -> & NR & IN)]]); try discriminate X.
  splits; [reflexivity|cbn; auto|exact IN].
Qed.

Lemma mgr_upgrade_nostart_record F force tv binok dyn s e c s' e' : svc_ok e s ->
  mgr_upgrade F force false tv binok dyn s e = (c, s', e') -> c = C_UPGRADED \/ c = C_FORCED ->
  pid s' = None /\ st s' <> Running.
Proof.
  intros O H Hc. unfold mgr_upgrade in H.
  destruct (negb force && (tv <=? version s)); [inversion H; subst; destruct Hc; discriminate|].
  destruct (mgr_stop F s e) as [[c1 s1] e1] eqn:Hs.
  pose proof (mgr_stop_codes _ _ _ _ _ _ Hs) as Codes.
  destruct (c1 =? C_OK) eqn:C1; cbn [negb] in H.
  2:{ inversion H; subst. destruct Codes as [E1|[E1|E1]]; rewrite E1 in *; [discriminate C1| |]; destruct Hc; discriminate. }
  apply N.eqb_eq in C1. subst c1. destruct (mgr_stop_ok_record _ _ _ _ _ O Hs) as (P1 & R1).
  destruct (binok && has_dir (number s) e1); cbn [negb] in H; [|inversion H; subst; destruct Hc; discriminate].
  destruct (call_uninstall F (number s) e1) as [u e2]. destruct u; try (inversion H; subst; destruct Hc; discriminate).
  destruct (call_install F (number s) (node_port s1) e2) as [ok e3]. destruct ok; cbn [negb] in H;
    [|inversion H; subst; destruct Hc; discriminate].
  destruct force; inversion H; subst; cbn; auto.
Qed.

Lemma on_service_at w i f w' c s' : on_service w i f = (w', c) -> c <> C_NO_SUCH_INDEX -> nth_error (reg w') i = Some s' ->
  exists s, In s (reg w) /\ f s (wenv w) = (c, s', wenv w').
Proof.
  intros H NC Hn. apply on_service_shape in H. destruct H as [(X & _)|(l1 & s & l2 & s2 & Hr & Hi & Hf & Hr')]; [contradiction|].
  rewrite Hr' in Hn. rewrite <- Hi in Hn. rewrite nth_error_app_mid in Hn. inversion Hn; subst s2.
  exists s. split; [rewrite Hr; apply in_or_app; right; left; reflexivity|exact Hf].
Qed.

Lemma ok_clears_record_lemma F ops i w' c s' o :
  step F (run F ops) o = (w', c) -> nth_error (reg w') i = Some s' ->
  match o with
  | OStop j => j = i /\ c = C_OK
  | ORemove j _ => j = i /\ c = C_OK
  | OUpgrade j _ start _ _ _ => j = i /\ start = false /\ (c = C_UPGRADED \/ c = C_FORCED)
  | _ => False
  end ->
  pid s' = None /\ st s' <> Running /\
  (match o with ORemove _ _ => st s' = Removed /\ is_installed (eos (wenv w')) (number s') = false | _ => True end).
Proof.
  intros H Hn Ho. destruct (run_inv F ops) as [_ FA]. rewrite Forall_forall in FA.
  destruct o; try contradiction; cbn [step] in H.
  - destruct Ho as (-> & ->). destruct (on_service_at _ _ _ _ _ s' H) as (s & Hs & Hf); [discriminate|exact Hn|].
    destruct (mgr_stop_ok_record _ _ _ _ _ (FA s Hs) Hf). auto.
  - destruct Ho as (-> & ->). destruct (on_service_at _ _ _ _ _ s' H) as (s & Hs & Hf); [discriminate|exact Hn|].
    destruct (mgr_remove_ok_record _ _ _ _ _ _ (FA s Hs) Hf) as (A & B & C). splits; auto. rewrite A. discriminate.
  - destruct Ho as (-> & -> & Hc). destruct (on_service_at _ _ _ _ _ s' H) as (s & Hs & Hf);
      [destruct Hc as [->| ->]; discriminate|exact Hn|].
    destruct (mgr_upgrade_nostart_record _ _ _ _ _ _ _ _ _ _ (FA s Hs) Hf Hc). auto.
Qed.

(* ================================================================ add_node saves every service it records *)
Lemma call_port_disk F e r e' : call_port F e = (r, e') -> edisk e' = edisk e.
Proof. intros H. tick_cases H. destruct (memN (enc e) F); inversion H; subst; reflexivity. Qed.

Lemma call_install_disk F n port e ok e' : call_install F n port e = (ok, e') -> edisk e' = edisk e.
Proof. intros H. tick_cases H. destruct (memN (enc e) F); inversion H; subst; reflexivity. Qed.

Lemma add_loop_disk F o fuel : forall n np mp rp rg e added failed c names rg' e',
  edisk e = rg -> add_loop F o fuel n np mp rp rg e added failed = (c, names, rg', e') -> edisk e' = rg'.
Proof.
  induction fuel as [|fuel IH]; intros n np mp rp rg e added failed c names rg' e' D H.
  - cbn [add_loop] in H. inversion H; subst. reflexivity.
  - cbn [add_loop] in H.
    destruct (match rp with Some p => (Some p, e) | None => call_port F e end) as [rpo e1] eqn:H1.
    assert (D1 : edisk e1 = rg).
    { destruct rp; [inversion H1; subst; reflexivity|]. rewrite (call_port_disk _ _ _ _ H1). exact D. }
    destruct rpo as [rpc|]; [|inversion H; subst; exact D1].
    destruct (match mp with
              | Some p => (Some (Some p), e1)
              | None => if a_enable_metrics o
                        then let '(x, e'0) := call_port F e1 in (option_map Some x, e'0)
                        else (Some None, e1)
              end) as [mpo e2] eqn:H2.
    assert (D2 : edisk e2 = rg).
    { destruct mp; [inversion H2; subst; exact D1|]. destruct (a_enable_metrics o).
      - destruct (call_port F e1) as [x e0] eqn:Hc. inversion H2; subst. rewrite (call_port_disk _ _ _ _ Hc). exact D1.
      - inversion H2; subst. exact D1. }
    destruct mpo as [mport|]; [|inversion H; subst; exact D2].
    destruct (call_install F n np (mkdirs n e2)) as [ok e4] eqn:Hi.
    apply call_install_disk in Hi. cbn [mkdirs edisk set_os] in Hi.
    eapply IH; [|exact H]. destruct ok; [reflexivity|]. rewrite Hi. exact D2.
Qed.

Lemma add_saves_lemma F w a w' c : step F w (OAdd a) = (w', c) -> edisk (wenv w') = reg w'.
Proof.
  cbn [step]. unfold add_node, add_node_from. intros H.
  set (e0 := set_disk (wenv w) (reg w)) in *.
  assert (SAME : forall c0, (let '(c1, _, rg, e) := (c0, @nil N, reg w, e0) in (mkW rg e, c1)) = (w', c) -> edisk (wenv w') = reg w').
  { intros c0 X. inversion X; subst. reflexivity. }
  destruct (a_first a && (1 <? match a_count a with Some c0 => c0 | None => 1 end)); [eapply SAME; exact H|].
  destruct (a_first a && existsb first (reg w)); [eapply SAME; exact H|].
  destruct (check_opt (a_node a) _ (reg w)); [eapply SAME; exact H|].
  destruct (check_opt (a_metrics a) _ (reg w)); [eapply SAME; exact H|].
  destruct (check_opt (a_rpc a) _ (reg w)); [eapply SAME; exact H|].
  destruct (add_loop F a _ _ _ _ _ (reg w) e0 [] false) as [[[c0 names] rg] e] eqn:Ha.
  inversion H; subst. cbn [reg wenv]. eapply add_loop_disk; [|exact Ha]. reflexivity.
Qed.

(* the legacy shape "save once after the loop" loses recorded services on an early return: witness kept as a
   computation on the model with the per-service save removed is not expressible here (the model IS the code
   with the save); the failing run of the seeded variant is in notes/C19.md *)
Example ex_batch_add_aborted : let '(w, c) := step [2] init (OAdd (mkAdd (Some 2) None None None false false)) in
  c = C_ADD_ABORTED /\ map number (reg w) = [1] /\ map number (edisk (wenv w)) = [1] /\ is_installed (eos (wenv w)) 1 = true.
Proof. vm_compute. repeat split. Qed.

(* ================================================================ the registry file: every field value survives *)
Lemma jconn_injective a b : jconn a = jconn b -> a = b.
Proof. destruct a, b; cbn; intros H; inversion H; reflexivity. Qed.

Lemma registry_serde_constants :
  Consts.registry_custom_serde =
    ["connected_peers"; "serialize_connected_peers"; "deserialize_connected_peers";
     "peer_id"; "serialize_peer_id"; "deserialize_peer_id"]%string /\
  Consts.connected_peers_serde_is_elementwise = true.
Proof. split; reflexivity. Qed.

Example ex_empty_peer_list_is_not_none :
  let s := on_start_set 1000 50001 (rpc_peers 1) (new_svc 1 None None 40000 false) in
  peers s = Some [] /\ jget "connected_peers" (save_svc s) = Some (JArr []) /\
  option_map peers (load_svc (save_svc s)) = Some (Some []) /\
  option_map peers (load_svc (save_svc (on_stop s))) = Some None.
Proof. vm_compute. repeat split. Qed.

(* ================================================================ an out-of-band restart is picked up by the next refresh *)
Example ex_restart_then_refresh :
  let w := run [] [add1; OStart 0%nat false; ORestart 0%nat] in
  let w' := run [] ([add1; OStart 0%nat false; ORestart 0%nat] ++ [ORefresh]) in
  map pid (reg w) = [Some 1000] /\ live (eos (wenv w)) 1 = Some 1001 /\
  map (fun s => (st s, pid s)) (reg w') = [(Running, Some 1001)].
Proof. vm_compute. repeat split. Qed.
