(* C08, basic lemmas: decidable equalities, membership tests, map well-formedness, and the
   effect of the deterministic parts (`pre_prune`, `prune`, `settle`) on both maps. *)
From Coq Require Import List NArith Bool Arith Lia Permutation ZifyBool ZifyNat ZifyN.
From V Require Import gen.Consts model.Fetcher.
Import ListNotations.
Open Scope N_scope.

(* ---------------------------------------------------------------- equalities *)
Lemma key_eqb_eq a b : key_eqb a b = true <-> a = b.
Proof.
  destruct a as [a1 a2], b as [b1 b2]; unfold key_eqb; cbn [fst snd].
  rewrite andb_true_iff, !N.eqb_eq. split; [intros [-> ->]; reflexivity | intros H; inversion H; auto].
Qed.
Lemma key_eqb_refl a : key_eqb a a = true.
Proof. apply key_eqb_eq; reflexivity. Qed.
Lemma rtype_eqb_eq a b : rtype_eqb a b = true <-> a = b.
Proof.
  destruct a, b; cbn; try (split; [discriminate | discriminate]); try tauto.
  rewrite N.eqb_eq. split; [intros ->; reflexivity | intros H; inversion H; auto].
Qed.
Lemma rtype_eqb_refl a : rtype_eqb a a = true.
Proof. apply rtype_eqb_eq; reflexivity. Qed.
Lemma kt_eqb_eq a b : kt_eqb a b = true <-> a = b.
Proof.
  destruct a as [a1 a2], b as [b1 b2]; unfold kt_eqb; cbn [fst snd].
  rewrite andb_true_iff, key_eqb_eq, rtype_eqb_eq.
  split; [intros [-> ->]; reflexivity | intros H; inversion H; auto].
Qed.
Lemma kt_eqb_refl a : kt_eqb a a = true.
Proof. apply kt_eqb_eq; reflexivity. Qed.
Lemma kth_eqb_eq a b : kth_eqb a b = true <-> a = b.
Proof.
  destruct a as [a1 a2], b as [b1 b2]; unfold kth_eqb; cbn [fst snd].
  rewrite andb_true_iff, kt_eqb_eq, N.eqb_eq.
  split; [intros [-> ->]; reflexivity | intros H; inversion H; auto].
Qed.
Lemma kth_eqb_refl a : kth_eqb a a = true.
Proof. apply kth_eqb_eq; reflexivity. Qed.
Lemma tbf_entry_eqb_eq a b : tbf_entry_eqb a b = true <-> a = b.
Proof.
  destruct a as [a1 a2], b as [b1 b2]; unfold tbf_entry_eqb; cbn [fst snd].
  rewrite andb_true_iff, kth_eqb_eq, N.eqb_eq.
  split; [intros [-> ->]; reflexivity | intros H; inversion H; auto].
Qed.
Lemma og_entry_eqb_eq a b : og_entry_eqb a b = true <-> a = b.
Proof.
  destruct a as [a1 [a2 a3]], b as [b1 [b2 b3]]; unfold og_entry_eqb; cbn [fst snd].
  rewrite !andb_true_iff, kt_eqb_eq, !N.eqb_eq.
  split; [intros [[-> ->] ->]; reflexivity | intros H; inversion H; auto].
Qed.
Lemma pk_eqb_eq a b : pk_eqb a b = true <-> a = b.
Proof.
  destruct a as [a1 a2], b as [b1 b2]; unfold pk_eqb; cbn [fst snd].
  rewrite andb_true_iff, key_eqb_eq, N.eqb_eq.
  split; [intros [-> ->]; reflexivity | intros H; inversion H; auto].
Qed.

Lemma pk_dec : forall a b : peer * key, {a = b} + {a <> b}.
Proof. intros a b. destruct (pk_eqb a b) eqn:E; [left; apply pk_eqb_eq; auto | right; intro H; apply pk_eqb_eq in H; congruence]. Qed.

(* ---------------------------------------------------------------- membership tests *)
Lemma tbf_mem_In x l : tbf_mem x l = true <-> In x (map fst l).
Proof.
  unfold tbf_mem. rewrite existsb_exists, in_map_iff. split.
  - intros (e & He & Hq). apply kth_eqb_eq in Hq. eauto.
  - intros (e & Hq & He). exists e. split; auto. apply kth_eqb_eq; auto.
Qed.
Lemma og_mem_In x l : og_mem x l = true <-> In x (map fst l).
Proof.
  unfold og_mem. rewrite existsb_exists, in_map_iff. split.
  - intros (e & He & Hq). apply kt_eqb_eq in Hq. eauto.
  - intros (e & Hq & He). exists e. split; auto. apply kt_eqb_eq; auto.
Qed.
Lemma og_mem_false x l : og_mem x l = false <-> ~ In x (map fst l).
Proof. rewrite <- og_mem_In. destruct (og_mem x l); split; congruence. Qed.
Lemma tbf_mem_false x l : tbf_mem x l = false <-> ~ In x (map fst l).
Proof. rewrite <- tbf_mem_In. destruct (tbf_mem x l); split; congruence. Qed.
Lemma kth_in_In x l : kth_in x l = true <-> In x l.
Proof.
  unfold kth_in. rewrite existsb_exists. split.
  - intros (e & He & Hq). apply kth_eqb_eq in Hq. subst; auto.
  - intros H. exists x. split; auto. apply kth_eqb_refl.
Qed.
Lemma peer_in_In p l : peer_in p l = true <-> In p l.
Proof.
  unfold peer_in. rewrite existsb_exists. split.
  - intros (e & He & Hq). apply N.eqb_eq in Hq. subst; auto.
  - intros H. exists p. split; auto. apply N.eqb_refl.
Qed.
Lemma tbf_in_In e l : tbf_in e l = true <-> In e l.
Proof.
  unfold tbf_in. rewrite existsb_exists. split.
  - intros (x & Hx & Hq). apply tbf_entry_eqb_eq in Hq. subst; auto.
  - intros H. exists e. split; auto. apply tbf_entry_eqb_eq; auto.
Qed.
Lemma og_in_In e l : og_in e l = true <-> In e l.
Proof.
  unfold og_in. rewrite existsb_exists. split.
  - intros (x & Hx & Hq). apply og_entry_eqb_eq in Hq. subst; auto.
  - intros H. exists e. split; auto. apply og_entry_eqb_eq; auto.
Qed.

(* ---------------------------------------------------------------- nodup_by *)
Lemma nodup_by_NoDup {A} (eqb : A -> A -> bool) (H : forall a b, eqb a b = true <-> a = b) l :
  nodup_by eqb l = true <-> NoDup l.
Proof.
  induction l as [|x r IH]; cbn.
  - split; auto. constructor.
  - rewrite andb_true_iff, negb_true_iff, IH. split.
    + intros [Hn Hr]. constructor; auto. intro Hin.
      assert (existsb (eqb x) r = true) by (apply existsb_exists; exists x; split; auto; apply H; auto).
      congruence.
    + intros Hd. inversion Hd as [|? ? Hn Hr]; subst. split; auto.
      destruct (existsb (eqb x) r) eqn:E; auto. apply existsb_exists in E.
      destruct E as (y & Hy & Hq). apply H in Hq. subst. contradiction.
Qed.

Definition Wf (s : state) : Prop := NoDup (map fst (tbf s)) /\ NoDup (map fst (ongoing s)).
Lemma wf_Wf s : wf s = true <-> Wf s.
Proof.
  unfold wf, Wf. rewrite andb_true_iff.
  rewrite (nodup_by_NoDup kth_eqb kth_eqb_eq), (nodup_by_NoDup kt_eqb kt_eqb_eq). tauto.
Qed.

Lemma NoDup_map_filter {A B} (f : A -> B) (p : A -> bool) l :
  NoDup (map f l) -> NoDup (map f (filter p l)).
Proof.
  induction l as [|x r IH]; cbn; auto. intros Hd. inversion Hd as [|? ? Hn Hr]; subst.
  destruct (p x); cbn; auto. constructor; auto.
  intro Hin. apply Hn. apply in_map_iff in Hin. destruct Hin as (y & Hy & Hin).
  apply filter_In in Hin. apply in_map_iff. exists y. tauto.
Qed.

Lemma NoDup_map_fst_inj {A B} (l : list (A * B)) a b b' :
  NoDup (map fst l) -> In (a, b) l -> In (a, b') l -> b = b'.
Proof.
  induction l as [|[x y] r IH]; cbn; [tauto|]. intros Hd H1 H2.
  inversion Hd as [|? ? Hn Hr]; subst.
  destruct H1 as [H1|H1], H2 as [H2|H2].
  - congruence.
  - inversion H1; subst. exfalso. apply Hn. apply in_map_iff. exists (a, b'). auto.
  - inversion H2; subst. exfalso. apply Hn. apply in_map_iff. exists (a, b). auto.
  - eauto.
Qed.

Lemma NoDup_map_NoDup {A B} (f : A -> B) l : NoDup (map f l) -> NoDup l.
Proof.
  induction l as [|x r IH]; cbn; intros Hd; constructor; inversion Hd; subst; auto.
  intro Hin. apply H1. apply in_map. auto.
Qed.

(* ---------------------------------------------------------------- limits *)
Lemma opt_eqb_eq a b : opt_eqb a b = true <-> a = b.
Proof.
  destruct a, b; cbn; try (split; congruence); try tauto.
  rewrite N.eqb_eq. split; [intros ->; auto | intros H; inversion H; auto].
Qed.
Lemma same_limits_eq a b :
  same_limits a b = true <-> range a = range b /\ farthest a = farthest b /\ now a = now b.
Proof. unfold same_limits. rewrite !andb_true_iff, !opt_eqb_eq, N.eqb_eq. tauto. Qed.

(* ---------------------------------------------------------------- st_equiv *)
Lemma st_equiv_spec a b :
  st_equiv a b = true <->
  (range a = range b /\ farthest a = farthest b /\ now a = now b) /\ Wf b /\
  (forall e, In e (tbf a) <-> In e (tbf b)) /\ (forall e, In e (ongoing a) <-> In e (ongoing b)).
Proof.
  unfold st_equiv. rewrite !andb_true_iff, same_limits_eq, wf_Wf, !forallb_forall.
  split.
  - intros [[[[[HL HW] H1] H2] H3] H4]. split; [auto|]. split; [auto|]. split.
    + intros e. split; intros He.
      * apply tbf_in_In. auto.
      * apply tbf_in_In. auto.
    + intros e. split; intros He.
      * apply og_in_In. auto.
      * apply og_in_In. auto.
  - intros (HL & HW & HT & HO).
    assert (T1 : forall e, In e (tbf a) -> tbf_in e (tbf b) = true) by (intros e He; apply tbf_in_In; apply HT; auto).
    assert (T2 : forall e, In e (tbf b) -> tbf_in e (tbf a) = true) by (intros e He; apply tbf_in_In; apply HT; auto).
    assert (T3 : forall e, In e (ongoing a) -> og_in e (ongoing b) = true) by (intros e He; apply og_in_In; apply HO; auto).
    assert (T4 : forall e, In e (ongoing b) -> og_in e (ongoing a) = true) by (intros e He; apply og_in_In; apply HO; auto).
    tauto.
Qed.

(* ---------------------------------------------------------------- pk lists, events *)
Lemma pk_list_eqb_eq a b : pk_list_eqb a b = true <-> a = b.
Proof.
  unfold pk_list_eqb. revert b. induction a as [|x a IH]; intros [|y b];
    cbn [length combine forallb fst snd Nat.eqb].
  - split; auto.
  - split; discriminate.
  - split; discriminate.
  - specialize (IH b). rewrite andb_true_iff in IH.
    rewrite andb_true_iff, andb_true_iff, pk_eqb_eq. split.
    + intros [Hl [-> Hr]]. f_equal. apply IH. auto.
    + intros H. inversion H; subst. apply proj2 in IH. specialize (IH eq_refl). tauto.
Qed.

Lemma peers_same_set_spec a b : peers_same_set a b = true <-> (forall p, In p a <-> In p b).
Proof.
  unfold peers_same_set. rewrite andb_true_iff, !forallb_forall. split.
  - intros [H1 H2] p. split; intros Hp; apply peer_in_In; auto.
  - intros H. split; intros p Hp; apply peer_in_In; apply H; auto.
Qed.

Lemma events_eqb_nil_l b : events_eqb [] b = true <-> b = [].
Proof. unfold events_eqb. destruct b; cbn; split; auto; discriminate. Qed.
Lemma events_eqb_one a b :
  events_eqb [a] b = true <-> exists a', b = [a'] /\ (forall p, In p a <-> In p a').
Proof.
  unfold events_eqb. destruct b as [|a' [|c b]]; cbn.
  - split; [discriminate | intros (x & Hx & _); discriminate].
  - rewrite andb_true_r, peers_same_set_spec. split.
    + intros H. exists a'. auto.
    + intros (x & Hx & H). inversion Hx; subst. auto.
  - split; [discriminate | intros (x & Hx & _); discriminate].
Qed.

(* ---------------------------------------------------------------- multiset equality *)
Lemma count_pk_occ x l : count_pk x l = count_occ pk_dec l x.
Proof.
  induction l as [|y r IH]; cbn; auto.
  destruct (pk_dec y x) as [->|Hn].
  - assert (pk_eqb x x = true) as -> by (apply pk_eqb_eq; auto). rewrite IH. reflexivity.
  - destruct (pk_eqb x y) eqn:E; [apply pk_eqb_eq in E; congruence | rewrite IH; reflexivity].
Qed.
Lemma same_multiset_perm a b : same_multiset a b = true -> Permutation a b.
Proof.
  unfold same_multiset. rewrite forallb_forall. intros H.
  apply (Permutation_count_occ pk_dec). intros x.
  destruct (in_dec pk_dec x (a ++ b)) as [Hin|Hn].
  - specialize (H x Hin). apply Nat.eqb_eq in H. rewrite <- !count_pk_occ. auto.
  - rewrite in_app_iff in Hn.
    rewrite (proj1 (count_occ_not_In pk_dec a x)), (proj1 (count_occ_not_In pk_dec b x)); tauto.
Qed.
Lemma perm_same_multiset a b : Permutation a b -> same_multiset a b = true.
Proof.
  intros HP. unfold same_multiset. apply forallb_forall. intros x _. apply Nat.eqb_eq.
  rewrite !count_pk_occ. apply (Permutation_count_occ pk_dec); auto.
Qed.

(* ---------------------------------------------------------------- sortedness *)
Lemma sorted_N_spec l : sorted_N l = true <-> (forall l1 x l2 y l3, l = l1 ++ x :: l2 ++ y :: l3 -> x <= y).
Proof.
  induction l as [|a r IH].
  - cbn. split; auto. intros _ l1 x l2 y l3 H. destruct l1; discriminate.
  - cbn [sorted_N]. destruct r as [|b r'].
    + split; auto. intros _ l1 x l2 y l3 H. destruct l1 as [|? l1]; cbn in H; inversion H.
      * destruct l2; discriminate.
      * destruct l1; discriminate.
    + rewrite andb_true_iff, N.leb_le, IH. split.
      * intros [Hab Hr] l1 x l2 y l3 H.
        destruct l1 as [|c l1]; cbn in H; inversion H; subst.
        -- destruct l2 as [|d l2]; cbn in H2; inversion H2; subst; auto.
           transitivity d; auto. apply (Hr [] d l2 y l3). reflexivity.
        -- apply (Hr l1 x l2 y l3). auto.
      * intros H. split.
        -- apply (H [] a [] b r'). reflexivity.
        -- intros l1 x l2 y l3 Hq. apply (H (a :: l1) x l2 y l3). cbn. rewrite Hq. reflexivity.
Qed.

(* ---------------------------------------------------------------- MAXn *)
Lemma MAXn_pos : (0 < MAXn)%nat.
Proof. unfold MAXn, MAXP. apply Nat.ltb_lt. reflexivity. Qed.

(* ---------------------------------------------------------------- the acceptor, as a Prop *)
Lemma fresh_In mid post e :
  In e (fresh mid post) <-> In e (ongoing post) /\ ~ In (fst e) (map fst (ongoing mid)).
Proof.
  unfold fresh. rewrite filter_In, negb_true_iff, og_mem_false. tauto.
Qed.

Record SchedSpec (mid : state) (batch : list (peer * key)) (post : state) : Prop := {
  ss_limits : range mid = range post /\ farthest mid = farthest post /\ now mid = now post;
  ss_wf : Wf post;
  ss_keep : forall e, In e (ongoing mid) -> In e (ongoing post);
  ss_old : forall e, In e (ongoing post) -> In (fst e) (map fst (ongoing mid)) -> In e (ongoing mid);
  ss_new : forall e, In e (fresh mid post) ->
             In (og_kth e) (map fst (tbf mid)) /\ snd (snd e) = now mid + FETCH_T;
  ss_ret : Permutation batch (map og_pair (fresh mid post));
  ss_sorted : sorted_N (map (fun p => kdist (snd p)) batch) = true;
  ss_tbf_post : forall e, In e (tbf post) ->
             In e (tbf mid) /\ ~ (exists n, In n (fresh mid post) /\ og_kth n = fst e);
  ss_tbf_mid : forall e, In e (tbf mid) ->
             (exists n, In n (fresh mid post) /\ og_kth n = fst e) \/ In e (tbf post);
  ss_cap : fresh mid post <> [] -> (length (ongoing post) <= MAXn)%nat;
  ss_full : (MAXn <= length (ongoing mid))%nat -> fresh mid post = [];
  ss_max1 : (length (ongoing post) < MAXn)%nat ->
             forall e, In e (tbf mid) -> In (kth_kt (fst e)) (map fst (ongoing post));
  ss_max2 : (MAXn <= length (ongoing post))%nat -> (length (ongoing mid) < MAXn)%nat ->
             forall e, In e (tbf mid) -> ~ In (kth_kt (fst e)) (map fst (ongoing post)) ->
             forall p, In p batch -> kdist (snd p) <= kdist (kth_key (fst e))
}.

Lemma existsb_kth_fresh (new : list og_entry) (x : kth) :
  existsb (fun n => kth_eqb (og_kth n) x) new = true <-> exists n, In n new /\ og_kth n = x.
Proof.
  rewrite existsb_exists. split; intros (n & Hn & Hq); exists n; split; auto; apply kth_eqb_eq; auto.
Qed.

Lemma nonnil_match {A} (l : list A) (b : bool) :
  match l with [] => true | _ => b end = true <-> (l <> [] -> b = true).
Proof. destruct l; split; auto; try congruence. intros H. apply H. discriminate. Qed.
Lemma nil_match {A} (l : list A) :
  match l with [] => true | _ => false end = true <-> l = [].
Proof. destruct l; split; auto; discriminate. Qed.

Lemma sched_ok_spec mid batch post : sched_ok mid batch post = true <-> SchedSpec mid batch post.
Proof.
  unfold sched_ok, sched_clauses. cbn [forallb]. rewrite andb_true_r, !andb_true_iff.
  rewrite same_limits_eq, wf_Wf, !forallb_forall, nonnil_match.
  split.
  - intros (HL & HW & H1 & H2 & H3 & H4 & H5 & H6 & H7 & H8 & H9 & H10).
    constructor; auto.
    + intros e He. apply og_in_In. auto.
    + intros e He Hk. specialize (H2 e He). apply og_mem_In in Hk. rewrite Hk in H2. apply og_in_In; auto.
    + intros e He. specialize (H3 e He). apply andb_true_iff in H3. destruct H3 as [Ha Hb].
      apply tbf_mem_In in Ha. apply N.eqb_eq in Hb. auto.
    + apply same_multiset_perm; auto.
    + intros e He. specialize (H6 e He). apply andb_true_iff in H6. destruct H6 as [Ha Hb].
      apply tbf_in_In in Ha. split; auto. apply negb_true_iff in Hb.
      intros Hex. apply existsb_kth_fresh in Hex. congruence.
    + intros e He. specialize (H7 e He). apply orb_true_iff in H7. destruct H7 as [Ha|Hb].
      * left. apply existsb_kth_fresh; auto.
      * right. apply tbf_in_In; auto.
    + intros Hn. apply Nat.leb_le. auto.
    + intros Hf. apply Nat.leb_le in Hf. rewrite Hf in H9. apply nil_match in H9. auto.
    + intros Hlt e He. apply Nat.ltb_lt in Hlt. rewrite Hlt in H10.
      rewrite forallb_forall in H10. apply og_mem_In. auto.
    + intros Hge Hlt e He Hn p Hp. apply Nat.ltb_lt in Hlt.
      assert (Hf : (length (ongoing post) <? MAXn)%nat = false) by (apply Nat.ltb_ge; auto).
      rewrite Hf, Hlt in H10. rewrite forallb_forall in H10. specialize (H10 e He).
      apply orb_true_iff in H10. destruct H10 as [Ha|Hb].
      * apply og_mem_In in Ha. contradiction.
      * rewrite forallb_forall in Hb. apply N.leb_le. auto.
  - intros [HL HW H1 H2 H3 H4 H5 H6 H7 H8 H9 H10 H11].
    split; [exact HL|]. split; [exact HW|].
    split. { intros e He. apply og_in_In. auto. }
    split. { intros e He. destruct (og_mem (fst e) (ongoing mid)) eqn:E; auto.
      apply og_in_In. apply H2; auto. apply og_mem_In; auto. }
    split. { intros e He. destruct (H3 e He) as [Ha Hb]. apply andb_true_iff. split.
      * apply tbf_mem_In; auto.
      * apply N.eqb_eq; auto. }
    split. { apply perm_same_multiset; auto. }
    split. { exact H5. }
    split. { intros e He. destruct (H6 e He) as [Ha Hb]. apply andb_true_iff. split.
      * apply tbf_in_In; auto.
      * apply negb_true_iff. destruct (existsb _ _) eqn:E; auto.
        apply existsb_kth_fresh in E. contradiction. }
    split. { intros e He. apply orb_true_iff. destruct (H7 e He) as [Ha|Hb].
      * left. apply existsb_kth_fresh; auto.
      * right. apply tbf_in_In; auto. }
    split. { intros Hn. apply Nat.leb_le. auto. }
    split. { destruct (MAXn <=? length (ongoing mid))%nat eqn:E; auto.
      apply nil_match. apply H9. apply Nat.leb_le; auto. }
    destruct (length (ongoing post) <? MAXn)%nat eqn:E1.
    + apply forallb_forall. intros e He. apply og_mem_In. apply H10; auto. apply Nat.ltb_lt; auto.
    + destruct (length (ongoing mid) <? MAXn)%nat eqn:E2; auto.
      apply forallb_forall. intros e He. apply orb_true_iff.
      destruct (og_mem (kth_kt (fst e)) (ongoing post)) eqn:E3; auto. right.
      apply forallb_forall. intros p Hp. apply N.leb_le.
      apply (H11 (proj1 (Nat.ltb_ge _ _) E1) (proj1 (Nat.ltb_lt _ _) E2) e He); auto.
      apply og_mem_false; auto.
Qed.
