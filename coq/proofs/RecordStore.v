(* Proofs about model/RecordStore.v, part 1: finite-map lemmas, file names, and the safety invariant
   behind C01 (first sentence) and C02 (restart never serves a torn or foreign value). *)
From Coq Require Import List Arith PeanoNat NArith String Ascii Bool Lia ZifyBool ZifyNat ZifyN Permutation.
From V Require Import lib.Strs gen.Consts model.RecordStore.
Import ListNotations.
Open Scope N_scope.

(* ------------------------------------------------------------------ association lists *)
Section AssocFacts.
  Context {K V : Type} (eqb : K -> K -> bool).
  Hypothesis eqb_eq : forall a b, eqb a b = true <-> a = b.

  Lemma eqb_refl' a : eqb a a = true.
  Proof. apply eqb_eq; reflexivity. Qed.

  Lemma eqb_neq a b : a <> b -> eqb a b = false.
  Proof. intros H. destruct (eqb a b) eqn:E; [apply eqb_eq in E; contradiction|reflexivity]. Qed.

  Lemma alookup_in k v (m : list (K * V)) : alookup eqb k m = Some v -> In (k, v) m.
  Proof.
    induction m as [|[k' v'] r IH]; cbn; [discriminate|].
    destruct (eqb k k') eqn:E.
    - intros H; inversion H; subst. apply eqb_eq in E; subst. now left.
    - intros H. right. auto.
  Qed.

  Lemma in_alookup k v (m : list (K * V)) : In (k, v) m -> exists v', alookup eqb k m = Some v'.
  Proof.
    induction m as [|[k' v'] r IH]; cbn; [tauto|].
    intros [H|H].
    - inversion H; subst. rewrite eqb_refl'. eauto.
    - destruct (eqb k k'); eauto.
  Qed.

  Lemma alookup_none k (m : list (K * V)) : alookup eqb k m = None <-> forall v, ~ In (k, v) m.
  Proof.
    split.
    - intros H v Hin. destruct (in_alookup _ _ _ Hin) as [v' E]. congruence.
    - intros H. destruct (alookup eqb k m) eqn:E; [|reflexivity].
      apply alookup_in in E. exfalso; eapply H; eauto.
  Qed.

  Lemma in_aremove k x (m : list (K * V)) : In x (aremove eqb k m) <-> In x m /\ fst x <> k.
  Proof.
    unfold aremove. rewrite filter_In. split; intros [H1 H2]; split; auto.
    - intros E. subst. rewrite eqb_refl' in H2. discriminate.
    - rewrite eqb_neq; auto.
  Qed.

  Lemma aremove_cons k a v (r : list (K * V)) :
    aremove eqb k ((a, v) :: r) = if eqb k a then aremove eqb k r else (a, v) :: aremove eqb k r.
  Proof. unfold aremove; cbn. destruct (eqb k a); reflexivity. Qed.

  Lemma alookup_aremove_same k (m : list (K * V)) : alookup eqb k (aremove eqb k m) = None.
  Proof. apply alookup_none. intros v H. apply in_aremove in H. cbn in H. tauto. Qed.

  Lemma alookup_aremove_other k k' (m : list (K * V)) : k <> k' ->
    alookup eqb k (aremove eqb k' m) = alookup eqb k m.
  Proof.
    intros N. induction m as [|[a v] r IH]; [reflexivity|].
    rewrite aremove_cons. cbn [alookup]. destruct (eqb k' a) eqn:E.
    - apply eqb_eq in E; subst. rewrite (eqb_neq k a); auto.
    - cbn [alookup]. destruct (eqb k a); auto.
  Qed.

  Lemma alookup_ainsert_same k v (m : list (K * V)) : alookup eqb k (ainsert eqb k v m) = Some v.
  Proof. unfold ainsert; cbn. now rewrite eqb_refl'. Qed.

  Lemma alookup_ainsert_other k k' v (m : list (K * V)) : k <> k' ->
    alookup eqb k (ainsert eqb k' v m) = alookup eqb k m.
  Proof. intros N. unfold ainsert; cbn. rewrite (eqb_neq k k'); auto. now apply alookup_aremove_other. Qed.

  Lemma in_ainsert k v x (m : list (K * V)) :
    In x (ainsert eqb k v m) <-> x = (k, v) \/ (In x m /\ fst x <> k).
  Proof. unfold ainsert; cbn. rewrite in_aremove. intuition. Qed.

  Lemma aremove_keys_sub k (m : list (K * V)) x : In x (map fst (aremove eqb k m)) -> In x (map fst m).
  Proof.
    rewrite !in_map_iff. intros [p [E H]]. apply in_aremove in H. exists p; tauto.
  Qed.

  Lemma nodup_aremove k (m : list (K * V)) : NoDup (map fst m) -> NoDup (map fst (aremove eqb k m)).
  Proof.
    induction m as [|[a v] r IH]; [constructor|].
    rewrite aremove_cons. cbn [map fst]. intros H; inversion H; subst. destruct (eqb k a); auto.
    cbn [map fst]. constructor; auto. intros Hin. apply aremove_keys_sub in Hin. contradiction.
  Qed.

  Lemma nodup_ainsert k v (m : list (K * V)) : NoDup (map fst m) -> NoDup (map fst (ainsert eqb k v m)).
  Proof.
    intros H. unfold ainsert; cbn. constructor; [|now apply nodup_aremove].
    rewrite in_map_iff. intros [p [E Hin]]. apply in_aremove in Hin. tauto.
  Qed.

  Lemma aremove_absent k (m : list (K * V)) : alookup eqb k m = None -> aremove eqb k m = m.
  Proof.
    induction m as [|[a v] r IH]; [reflexivity|].
    rewrite aremove_cons. cbn [alookup]. destruct (eqb k a) eqn:E; [discriminate|]. intros H. now rewrite IH.
  Qed.

  Lemma length_aremove_le k (m : list (K * V)) : (List.length (aremove eqb k m) <= List.length m)%nat.
  Proof.
    induction m as [|[a v] r IH]; [cbn; lia|]. rewrite aremove_cons. destruct (eqb k a); cbn [List.length]; lia.
  Qed.

  Lemma length_aremove_present k v (m : list (K * V)) : NoDup (map fst m) -> alookup eqb k m = Some v ->
    S (List.length (aremove eqb k m)) = List.length m.
  Proof.
    induction m as [|[a w] r IH]; [discriminate|].
    rewrite aremove_cons. cbn [alookup map fst List.length]. intros H; inversion H; subst.
    destruct (eqb k a) eqn:E.
    - intros _. apply eqb_eq in E; subst. rewrite aremove_absent; auto.
      apply alookup_none. intros v' Hin. apply H2. apply in_map_iff. exists (a, v'); auto.
    - intros L. cbn [List.length]. now rewrite IH.
  Qed.
End AssocFacts.

Lemma keyb_eq a b : keyb a b = true <-> a = b.
Proof. apply String.eqb_eq. Qed.
Lemma neqb_eq a b : N.eqb a b = true <-> a = b.
Proof. apply N.eqb_eq. Qed.

Lemma value_eqb_eq (a b : value) : value_eqb a b = true <-> a = b.
Proof.
  unfold value_eqb. revert b. induction a as [|x a IH]; destruct b as [|y b]; cbn; try (split; congruence).
  rewrite andb_true_iff, N.eqb_eq, IH. split; [intros [-> ->]; reflexivity|intros H; inversion H; auto].
Qed.

(* ------------------------------------------------------------------ file names *)
Lemma hexval_hexdigit x : x < 16 -> hexval (hexdigit x) = Some x.
Proof.
  intros H.
  assert (C : x = 0 \/ x = 1 \/ x = 2 \/ x = 3 \/ x = 4 \/ x = 5 \/ x = 6 \/ x = 7 \/ x = 8 \/ x = 9 \/
              x = 10 \/ x = 11 \/ x = 12 \/ x = 13 \/ x = 14 \/ x = 15) by lia.
  repeat (destruct C as [->|C]; [reflexivity|]). subst; reflexivity.
Qed.

Lemma unhex_tohex l : wf_bytes l = true -> unhex (tohex l) = Some l.
Proof.
  induction l as [|b r IH]; cbn [wf_bytes forallb tohex unhex]; [reflexivity|].
  intros H. apply andb_prop in H as [Hb Hr]. unfold is_byte in Hb. apply N.ltb_lt in Hb.
  rewrite (hexval_hexdigit (b / 16)), (hexval_hexdigit (b mod 16)); [|lia|lia].
  fold (wf_bytes r) in Hr. rewrite (IH Hr). f_equal. f_equal. lia.
Qed.

Lemma codes_wf k : wf_bytes (codes k) = true.
Proof.
  induction k as [|c r IH]; cbn; [reflexivity|].
  apply andb_true_intro; split; [|exact IH].
  unfold is_byte. apply N.ltb_lt. apply N_ascii_bounded.
Qed.

Lemma of_codes_codes k : of_codes (codes k) = k.
Proof.
  unfold of_codes. induction k as [|c r IH]; cbn; [reflexivity|]. rewrite ascii_N_embedding. f_equal. exact IH.
Qed.

Lemma key_of_fname_fname k : key_of_fname (fname k) = Some k.
Proof. unfold key_of_fname, fname. rewrite unhex_tohex by apply codes_wf. now rewrite of_codes_codes. Qed.

Lemma fname_inj a b : fname a = fname b -> a = b.
Proof.
  intros H. pose proof (key_of_fname_fname a) as Ha. rewrite H, key_of_fname_fname in Ha. congruence.
Qed.

Lemma fname_not_metrics k : fname k <> metrics_name.
Proof.
  intros H. pose proof (key_of_fname_fname k) as Hk. rewrite H in Hk. vm_compute in Hk. discriminate.
Qed.

(* ------------------------------------------------------------------ the cipher laws *)
Definition dec_enc (E : env) : Prop := forall n v, e_dec E n (e_enc E n v) = Some v.
Definition dec_prefix (E : env) : Prop :=
  forall n v m, (m < List.length (e_enc E n v))%nat -> e_dec E n (firstn m (e_enc E n v)) = None.
Definition cipher_ok (E : env) : Prop := dec_enc E /\ dec_prefix E.

Lemma read_file_bytes E k v : dec_enc E -> read_bytes E k (file_bytes E k v) = Some v.
Proof. intros D. unfold read_bytes, file_bytes. destruct (e_encrypt E); [apply D|reflexivity]. Qed.

(* the stand-in cipher of the case files satisfies both laws: the premises are satisfiable *)
Lemma toy_dec_enc n v : toy_dec n (toy_enc n v) = Some v.
Proof.
  unfold toy_dec, toy_enc, len. rewrite app_length, repeat_length.
  replace (N.of_nat (List.length v + 15) =? N.of_nat (List.length v) + 15) with true
    by (symmetry; apply N.eqb_eq; lia).
  rewrite Nnat.Nat2N.id, firstn_app, Nat.sub_diag, firstn_all. cbn. now rewrite app_nil_r.
Qed.

Lemma toy_dec_prefix n v m : (m < List.length (toy_enc n v))%nat -> toy_dec n (firstn m (toy_enc n v)) = None.
Proof.
  unfold toy_enc. cbn [List.length]. rewrite app_length, repeat_length. intros H.
  destruct m as [|m]; [reflexivity|]. cbn [firstn toy_dec].
  assert (L : List.length (firstn m (v ++ repeat 0 15)) = m).
  { apply firstn_length_le. rewrite app_length, repeat_length. lia. }
  unfold len at 1. rewrite L.
  replace (N.of_nat m =? len v + 15) with false; [reflexivity|].
  symmetry. apply N.eqb_neq. unfold len. lia.
Qed.

(* ------------------------------------------------------------------ the safety invariant *)
(* H k v: value v has been handed to the store as a validated record for key k *)
Definition file_good (E : env) (H : key -> value -> Prop) (f : string * bytes) : Prop :=
  exists k v, fst f = fname k /\ snd f = file_bytes E k v /\ H k v.

Record Safe (E : env) (H : key -> value -> Prop) (s : state) : Prop := mkSafe {
  safe_cache : forall k v, In (k, v) (cache s) -> H k v;
  safe_files : forall f, In f (files s) -> file_good E H f;
  safe_names : NoDup (map fst (files s));
  safe_tasks : forall k v t, In (TWrite k v t) (tasks s) -> H k v }.

Lemma safe_mono E (H H' : key -> value -> Prop) s :
  (forall k v, H k v -> H' k v) -> Safe E H s -> Safe E H' s.
Proof.
  intros M [a b c d]. constructor; auto.
  - intros f Hf. destruct (b f Hf) as (k & v & ? & ? & ?). exists k, v; auto.
  - intros k v t Hin. eauto.
Qed.

Lemma in_skipn' {A} n (l : list A) x : In x (skipn n l) -> In x l.
Proof. revert l. induction n as [|n IH]; intros [|a l]; cbn; auto. Qed.

Lemma in_cache_push E c k v x : In x (cache_push E c k v) -> In x c \/ x = (k, v).
Proof.
  unfold cache_push. rewrite in_app_iff. intros [H|[H|[]]]; [left|right; auto].
  apply (in_aremove keyb keyb_eq) in H. destruct H as [H _].
  destruct (e_cache_size E <=? len c); auto. eapply in_skipn'; eauto.
Qed.

Ltac inv H := inversion H; subst; clear H.

Lemma safe_remove E H s k : Safe E H s -> Safe E H (remove E s k).
Proof.
  intros [a b c d]. constructor; cbn; auto.
  - intros k' v Hin. apply (in_aremove keyb keyb_eq) in Hin. apply a; tauto.
  - intros k' v t Hin. apply in_app_iff in Hin as [Hin|[Hin|[]]]; [eauto|discriminate].
Qed.

Lemma safe_set_cache E (H : key -> value -> Prop) s c :
  Safe E H s -> (forall k v, In (k, v) c -> H k v) -> Safe E H (set_cache s c).
Proof. intros [a b c' d] Hc. constructor; cbn; auto. Qed.

Lemma safe_put E (H : key -> value -> Prop) s k v t :
  Safe E H s -> H k v -> Safe E H (snd (put_verified E s k v t)).
Proof.
  intros S Hkv. unfold put_verified.
  assert (C : forall k' v', In (k', v') (cache_push E (kremove k (cache s)) k v) -> H k' v').
  { intros k' v' Hin. apply in_cache_push in Hin as [Hin|Hin].
    - apply (in_aremove keyb keyb_eq) in Hin. apply (safe_cache _ _ _ S); tauto.
    - inv Hin; auto. }
  destruct (match klookup k (cache s) with Some v0 => value_eqb v0 v | None => false end).
  - cbn. apply safe_set_cache; auto.
  - pose proof (safe_set_cache E H s _ S C) as S1.
    set (s1 := set_cache s (cache_push E (kremove k (cache s)) k v)) in *.
    unfold prune. destruct (len (idx s1) <? e_max_records E).
    + cbn. destruct S1 as [a b c d]. constructor; cbn; auto.
      intros k' v' t' Hin. apply in_app_iff in Hin as [Hin|[Hin|[]]]; [eauto|inv Hin; auto].
    + destruct (farthest s1) as [[f fd]|].
      * destruct (fd <? e_dist E k); cbn [snd].
        { apply safe_set_cache; auto. intros k' v' Hin.
          apply (in_aremove keyb keyb_eq) in Hin. apply (safe_cache _ _ _ S1); tauto. }
        pose proof (safe_remove E H s1 f S1) as [a b c d]. constructor; cbn; auto.
        intros k' v' t' Hin. cbn in d. apply in_app_iff in Hin as [Hin|[Hin|[]]]; [eauto|inv Hin; auto].
      * cbn. destruct S1 as [a b c d]. constructor; cbn; auto.
        intros k' v' t' Hin. apply in_app_iff in Hin as [Hin|[Hin|[]]]; [eauto|inv Hin; auto].
Qed.

Lemma nodup_finsert {V} name (c : V) fs : NoDup (map fst fs) -> NoDup (map fst (finsert name c fs)).
Proof. apply (nodup_ainsert String.eqb String.eqb_eq). Qed.

Lemma nodup_filter_fst {A B} (p : A * B -> bool) l : NoDup (map fst l) -> NoDup (map fst (filter p l)).
Proof.
  induction l as [|x r IH]; cbn; [constructor|]. intros H; inv H.
  destruct (p x); cbn; auto. constructor; auto.
  rewrite in_map_iff. intros [y [E Hin]]. apply filter_In in Hin as [Hin _].
  apply H2. apply in_map_iff. exists y; auto.
Qed.

Lemma safe_exec_task E H s t :
  Safe E H s -> (forall k v ty, t = TWrite k v ty -> H k v) -> Safe E H (exec_task E s t).
Proof.
  intros [a b c d] Ht. destruct t as [k v ty| k | n | cnt since]; cbn.
  - destruct (write_ok k); constructor; cbn; auto.
    + intros f Hin. apply (in_ainsert String.eqb String.eqb_eq) in Hin as [->|[Hin _]]; auto.
      exists k, v. cbn. repeat split; auto. eapply Ht; eauto.
    + apply (nodup_finsert (fname k) (file_bytes E k v) (files s)); auto.
    + intros k' v' t' Hin. apply in_app_iff in Hin as [Hin|[Hin|[]]]; [eauto|discriminate].
    + intros k' v' t' Hin. apply in_app_iff in Hin as [Hin|[Hin|[]]]; [eauto|discriminate].
  - constructor; cbn; auto.
    + intros f Hin. apply (in_aremove String.eqb String.eqb_eq) in Hin. apply b; tauto.
    + apply (nodup_aremove String.eqb String.eqb_eq); auto.
  - constructor; cbn; auto.
  - constructor; cbn; auto.
Qed.

Lemma in_remove_nth {A} i (l : list A) x : In x (remove_nth i l) -> In x l.
Proof. revert i. induction l as [|a l IH]; intros [|i]; cbn; auto. intros [->|Hin]; eauto. Qed.

Lemma safe_run_task E H s i : Safe E H s -> Safe E H (run_task E s i).
Proof.
  intros S. unfold run_task. destruct (enabled (tasks s) i); auto.
  destruct (nth_error (tasks s) i) as [t|] eqn:Et; auto.
  apply safe_exec_task.
  - destruct S as [a b c d]. constructor; cbn; auto.
    intros k v ty Hin. apply in_remove_nth in Hin. eauto.
  - intros k v ty ->. apply nth_error_In in Et. eapply safe_tasks; eauto.
Qed.

Lemma safe_mark E H s k t : Safe E H s -> Safe E H (mark_as_stored E s k t).
Proof. intros [a b c d]. constructor; cbn; auto. Qed.

Lemma safe_deliver E H s j : Safe E H s -> Safe E H (deliver E s j).
Proof.
  intros S. unfold deliver. destruct (nth_error (chan s) j) as [[k t|k]|]; auto.
  - apply safe_mark. destruct S; constructor; cbn; auto.
  - apply safe_remove. destruct S; constructor; cbn; auto.
Qed.

Lemma safe_fold_remove E H ks : forall s, Safe E H s -> Safe E H (fold_left (remove E) ks s).
Proof. induction ks as [|k ks IH]; cbn; auto. intros s S. apply IH. now apply safe_remove. Qed.

Lemma safe_cleanup E H s : Safe E H s -> Safe E H (cleanup E s).
Proof.
  intros S. unfold cleanup. destruct (len (idx s) <? cleanup_threshold); auto.
  destruct (range s); auto. now apply safe_fold_remove.
Qed.

(* a file that a crash may leave: a complete one, or a prefix of a write that was in progress *)
Definition file_torn (E : env) (H : key -> value -> Prop) (f : string * bytes) : Prop :=
  exists k v m, fst f = fname k /\ snd f = firstn m (file_bytes E k v) /\ H k v.

Lemma good_torn E (H : key -> value -> Prop) f : file_good E H f -> file_torn E H f.
Proof.
  intros (k & v & A & B & C). exists k, v, (List.length (file_bytes E k v)). rewrite firstn_all. auto.
Qed.

Lemma first_write_in k ts v : first_write k ts = Some v -> exists t, In (TWrite k v t) ts.
Proof.
  induction ts as [|t ts IH]; cbn; [discriminate|].
  destruct t as [k' v' ty| | |]; try (intros Hf; destruct (IH Hf) as [t' ?]; eauto).
  destruct (keyb k k') eqn:Ek.
  - intros Hf; inv Hf. apply keyb_eq in Ek; subst. eauto.
  - intros Hf; destruct (IH Hf) as [t' ?]; eauto.
Qed.

Lemma tear_fold E (H : key -> value -> Prop) ts tears : (forall k v t, In (TWrite k v t) ts -> H k v) ->
  forall fs, (forall f, In f fs -> file_torn E H f) -> NoDup (map fst fs) ->
  (forall f, In f (fold_left (tear E ts) tears fs) -> file_torn E H f)
  /\ NoDup (map fst (fold_left (tear E ts) tears fs)).
Proof.
  intros Ht. induction tears as [|[k m] tears IH]; cbn [fold_left]; auto.
  intros fs Hfs Hnd. apply IH.
  - unfold tear; cbn [fst snd]. destruct (first_write k ts) as [v|] eqn:Ef; auto.
    destruct (write_ok k); auto. intros f Hin.
    apply (in_ainsert String.eqb String.eqb_eq) in Hin as [->|[Hin _]]; auto.
    destruct (first_write_in _ _ _ Ef) as [t Hin]. exists k, v, (N.to_nat m). cbn. eauto.
  - unfold tear; cbn [fst snd]. destruct (first_write k ts); auto. destruct (write_ok k); auto.
    now apply nodup_finsert.
Qed.

Lemma torn_kept_good E (H : key -> value -> Prop) f : e_encrypt E = true -> dec_prefix E ->
  file_torn E H f -> snd (load_entry E f) = true -> file_good E H f.
Proof.
  intros En DP (k & v & m & A & B & C) L. exists k, v. repeat split; auto.
  destruct (Nat.lt_ge_cases m (List.length (file_bytes E k v))) as [Lt|Ge].
  - exfalso. unfold load_entry in L. rewrite A, key_of_fname_fname, B in L.
    unfold read_bytes, file_bytes in *. rewrite En in *. rewrite DP in L by exact Lt. discriminate.
  - rewrite B. now apply firstn_all2.
Qed.

Lemma safe_crash E H s tears : e_encrypt E = true -> dec_prefix E ->
  Safe E H s -> Safe E H (crash E s tears).
Proof.
  intros En DP [a b c d]. unfold crash, reopen.
  destruct (tear_fold E H (tasks s) tears d (files s)) as [T N]; auto.
  { intros f Hin. apply good_torn; auto. }
  constructor; cbn.
  - tauto.
  - intros f Hin. apply filter_In in Hin as [Hin L]. eapply torn_kept_good; eauto.
  - now apply nodup_filter_fst.
  - intros k v t [Hin|[]]. discriminate.
Qed.

Definition op_puts (o : op) (k : key) (v : value) : Prop :=
  match o with
  | OPut k' v' _ => k = k' /\ v = v'
  | OPutLocal k' v' => k = k' /\ v = v'
  | _ => False
  end.

Lemma safe_step E H s o : e_encrypt E = true -> dec_prefix E ->
  Safe E H s -> (forall k v, op_puts o k v -> H k v) -> Safe E H (fst (step E s o)).
Proof.
  intros En DP S Ho. destruct o as [k v t|k v|k|k|i|j|d| | |k|tears]; cbn [step]; auto.
  - pose proof (safe_put E H s k v t S (Ho k v (conj eq_refl eq_refl))) as P.
    destruct (put_verified E s k v t); auto.
  - destruct (local_type E v) as [t|]; auto.
    pose proof (safe_put E H s k v t S (Ho k v (conj eq_refl eq_refl))) as P.
    destruct (put_verified E s k v t) as [p s']. destruct (path_ok p); auto.
  - now apply safe_remove.
  - now apply safe_run_task.
  - now apply safe_deliver.
  - destruct S; constructor; cbn; auto.
  - now apply safe_cleanup.
  - destruct S as [a b c d]; constructor; cbn; auto.
    intros k v t Hin. apply in_app_iff in Hin as [Hin|[Hin|[]]]; [eauto|discriminate].
  - now apply safe_crash.
Qed.

Lemma hist_app ops1 ops2 k : hist (ops1 ++ ops2) k = hist ops1 k ++ hist ops2 k.
Proof.
  induction ops1 as [|o r IH]; cbn; auto.
  destruct o; auto; destruct (keyb k k0); cbn; now rewrite IH.
Qed.

Lemma safe_run E : e_encrypt E = true -> dec_prefix E -> forall ops s (H : key -> value -> Prop),
  Safe E H s -> Safe E (fun k v => H k v \/ In v (hist ops k)) (run E ops s).
Proof.
  intros En DP. induction ops as [|o ops IH]; intros s H S; cbn [run fold_left].
  - eapply safe_mono; [|exact S]. auto.
  - set (H1 := fun k v => H k v \/ op_puts o k v).
    assert (S1 : Safe E H1 (fst (step E s o))).
    { apply safe_step; auto.
      - eapply safe_mono; [|exact S]. unfold H1; auto.
      - unfold H1; auto. }
    specialize (IH _ _ S1). eapply safe_mono; [|exact IH].
    intros k v [[Hk|Hp]|Hh]; auto; right.
    + destruct o; cbn in Hp; try contradiction; destruct Hp as [-> ->]; cbn;
        rewrite (proj2 (keyb_eq _ _) eq_refl); now left.
    + destruct o; cbn; auto; destruct (keyb k k0); cbn; auto.
Qed.

Lemma safe_init E H : Safe E H (init E).
Proof.
  constructor; cbn; try tauto; try constructor. intros k v t [Hin|[]]. discriminate.
Qed.

Lemma safe_get E H s k v : dec_enc E -> Safe E H s -> get E s k = Some v -> H k v.
Proof.
  intros DE S. unfold get.
  destruct (klookup k (cache s)) as [v0|] eqn:Ec.
  - intros Hv; inv Hv. apply (alookup_in keyb keyb_eq) in Ec. eapply safe_cache; eauto.
  - destruct (klookup k (idx s)); [|discriminate].
    destruct (flookup (fname k) (files s)) as [c|] eqn:Ef; [|discriminate].
    apply (alookup_in String.eqb String.eqb_eq) in Ef.
    destruct (safe_files _ _ _ S _ Ef) as (k' & v' & A & B & C). cbn in A, B.
    apply fname_inj in A; subst k'. rewrite B, read_file_bytes by auto. intros Hv; inv Hv. auto.
Qed.

(* C01, first sentence -- and, because `ops` may contain crashes with torn files, C02's safety half *)
Lemma get_only_put_values_lemma E : cipher_ok E -> e_encrypt E = Consts.rs_encrypt_records_shipped ->
  forall ops k v, get E (run E ops (init E)) k = Some v -> In v (hist ops k).
Proof.
  intros [DE DP] En ops k v G. change Consts.rs_encrypt_records_shipped with true in En.
  pose proof (safe_run E En DP ops (init E) (fun _ _ => False) (safe_init E _)) as S.
  pose proof (safe_get _ _ _ _ _ DE S G) as [[]|Hin]. exact Hin.
Qed.

Lemma shipped_build_encrypts : Consts.rs_encrypt_records_shipped = true.
Proof. reflexivity. Qed.

(* the regenerated source constants the models of C01/C10/C02 are about *)
Lemma store_constants_lemma :
  Consts.rs_max_records_count = 16384 /\ Consts.rs_max_records_cache_size = 25 /\
  Consts.rs_cleanup_divisor = 10 /\ Consts.rs_header_size = 2 /\
  Consts.rs_kind_chunk = 1 /\ Consts.rs_kind_scratchpad = 5 /\ Consts.rs_kind_transaction = 2 /\
  Consts.rs_kind_register = 3 /\ Consts.rs_kind_count = 8 /\
  Consts.rs_encrypt_records_shipped = true /\ Consts.rs_encrypt_cfg_sites = 2.
Proof. repeat split; reflexivity. Qed.
