(* C08: the safety theorems, for every reachable state and every accepted step
   (= every interleaving of operations and every admissible scheduling order). *)
From Coq Require Import List NArith Bool Arith Lia Permutation Sorted ZifyBool ZifyNat ZifyN.
From V Require Import gen.Consts model.Fetcher proofs.Fetcher proofs.FetcherDet proofs.FetcherSched.
Import ListNotations.
Open Scope N_scope.

(* ---------------------------------------------------------------- a scheduling step, opened up *)
Lemma step_sched_inv pre o out post :
  reachable pre -> step_ok pre o out post = true -> schedules o = true ->
  exists s1 fast batch,
    pre_prune pre o = Some (s1, fast) /\
    events_eqb (snd (prune s1)) (events out) = true /\
    ret out = fast ++ batch /\ SchedSpec (fst (prune s1)) batch post /\
    Wf pre /\ Wf s1 /\ Wf (fst (prune s1)) /\
    (range s1 = range pre /\ farthest s1 = farthest pre /\ now s1 = now pre).
Proof.
  intros HR HS Hs. apply pre_prune_schedules with (pre := pre) in Hs. destruct Hs as ([s1 fast] & E).
  apply (step_ok_sched _ _ _ _ _ _ E) in HS. destruct HS as (He & batch & Hb & HSp).
  exists s1, fast, batch. pose proof (reachable_Wf _ HR) as W.
  pose proof (pre_prune_Wf _ _ _ _ E W) as W1.
  split; [auto|]. split; [auto|]. split; [auto|]. split; [auto|]. split; [auto|]. split; [auto|].
  split; [apply prune_Wf; auto|]. apply (pre_prune_limits _ _ _ _ E).
Qed.

Lemma nosched_mid_og pre o :
  pre_prune pre o = None -> forall e, In e (ongoing (mid_of pre o)) <-> In e (surviving pre o).
Proof.
  intros E e. unfold mid_of, settle. rewrite E. cbn [fst]. unfold surviving. rewrite filter_In.
  unfold op_keeps. destruct o; try discriminate; cbn [schedules op_completes far_drops andb negb].
  - cbn [set_range ongoing]. tauto.
  - destruct fk as [k|]; cbn [set_farthest]; [|tauto].
    destruct (farthest pre) as [old|].
    + destruct (old <=? kdist k) eqn:B; cbn [negb andb ongoing].
      * tauto.
      * rewrite filter_In. unfold og_key. rewrite negb_involutive. tauto.
    + cbn [ongoing]. rewrite filter_In. unfold og_key. rewrite negb_involutive. tauto.
  - cbn [advance ongoing]. tauto.
Qed.

Lemma nosched_mid_tbf pre o :
  pre_prune pre o = None -> forall x, In x (tbf (mid_of pre o)) -> In x (tbf pre).
Proof.
  intros E x. unfold mid_of, settle. rewrite E. cbn [fst].
  destruct o; try discriminate; cbn; auto.
  destruct fk as [k|]; cbn; auto. destruct (farthest pre) as [old|].
  - destruct (old <=? kdist k); cbn; auto. rewrite filter_In. tauto.
  - cbn. rewrite filter_In. tauto.
Qed.

(* the entries the fast path put in flight (none or one) *)
Lemma fast_entries pre o s1 fast :
  pre_prune pre o = Some (s1, fast) ->
  exists fe, map og_pair fe = fast /\ NoDup (map fst fe) /\ (forall e, In e fe <-> IsFast pre o fast e).
Proof.
  intros E. destruct o; cbn [pre_prune] in E; inversion E; subst; clear E;
    try (exists []; split; [reflexivity|]; split; [constructor|];
         intros e; split; [intros [] | intros (h' & inc' & held' & x & Ho & _); discriminate]).
  pose proof (add_keys_pre_spec pre holder inc held) as A. rewrite H0 in A. cbn [fst snd] in A.
  destruct (ap_fast _ _ _ _ _ _ A) as [Hnil|(x & Hx & Hf & Hin & Hn)].
  - exists []. split; [auto|]. split; [constructor|]. intros e. split; [intros []|].
    intros (h' & inc' & held' & y & _ & _ & _ & Hf & _). congruence.
  - exists [(x, (holder, now pre + FETCH_T))]. split; [cbn; auto|]. split; [constructor; [intros []|constructor]|].
    intros e. split.
    + intros [<-|[]]. exists holder, inc, held, x. repeat split; auto.
      intros (e' & He' & Hc & Hq). apply Hn. exists e'. cbn [op_completes] in Hc. apply negb_false_iff in Hc. auto.
    + intros (h' & inc' & held' & y & Ho & Hy & -> & _). inversion Ho; subst h' inc' held'.
      rewrite Hx in Hy. inversion Hy; subst. left; reflexivity.
Qed.

(* ---------------------------------------------------------------- started fetches *)
(* every step: the pairs it returns are exactly the fetches it starts; a started fetch was not in
   flight among the survivors; everything else in flight afterwards is a survivor *)
Lemma started_spec pre o out post :
  reachable pre -> step_ok pre o out post = true ->
  exists started : list og_entry,
    Permutation (ret out) (map og_pair started) /\
    NoDup (map fst started) /\
    (forall e, In e started ->
       In e (ongoing post) /\ ~ In (fst e) (map fst (surviving pre o)) /\ og_deadline e = now post + FETCH_T) /\
    (forall e, In e (ongoing post) -> In e started \/ In e (surviving pre o)) /\
    (forall e, In e (surviving pre o) -> In e (ongoing post)).
Proof.
  intros HR HS. destruct (schedules o) eqn:Hs.
  - destruct (step_sched_inv _ _ _ _ HR HS Hs) as (s1 & fast & batch & E & _ & Hret & SP & W & W1 & Wm & (_ & _ & Hnow)).
    set (mid := fst (prune s1)) in *.
    destruct (fast_entries _ _ _ _ E) as (fe & Hfe1 & Hfe2 & Hfe3).
    pose proof (mid_og _ _ _ _ E) as MO. fold mid in MO.
    exists (fe ++ fresh mid post).
    assert (Hnp : now post = now pre).
    { destruct (ss_limits _ _ _ SP) as (_ & _ & Hn). rewrite <- Hn. subst mid. rewrite (proj2 (proj2 (prune_limits s1))). auto. }
    split; [|split; [|split; [|split]]].
    + rewrite Hret, map_app, Hfe1. apply Permutation_app_head. apply (ss_ret _ _ _ SP).
    + rewrite map_app. apply NoDup_app_disj; auto.
      * unfold fresh. apply NoDup_map_filter. apply (ss_wf _ _ _ SP).
      * intros k Hk Hk2. apply in_map_iff in Hk. destruct Hk as (e & <- & He).
        apply in_map_iff in Hk2. destruct Hk2 as (e2 & Hq & He2). apply fresh_In in He2.
        apply (proj2 He2). rewrite Hq. apply in_map. apply MO. right. apply Hfe3; auto.
    + intros e He. apply in_app_iff in He. destruct He as [He|He].
      * apply Hfe3 in He. split; [|split].
        -- apply (ss_keep _ _ _ SP). apply MO. auto.
        -- destruct He as (h & inc & held & x & _ & _ & -> & _ & Hn). cbn [fst]. intros Hin.
           apply in_map_iff in Hin. destruct Hin as (e' & Hq & He'). unfold surviving in He'.
           apply filter_In in He'. destruct He' as [He' Hk]. apply Hn. exists e'. repeat split; auto.
           unfold op_keeps in Hk. apply andb_true_iff in Hk. destruct Hk as [Hk _].
           apply andb_true_iff in Hk. destruct Hk as [Hk _]. apply negb_true_iff in Hk. auto.
        -- destruct He as (h & inc & held & x & _ & _ & -> & _). unfold og_deadline. cbn. rewrite Hnp. reflexivity.
      * pose proof He as He'. apply fresh_In in He'. destruct He' as [Hp Hn]. split; [auto|]. split.
        -- intros Hin. apply Hn. apply in_map_iff in Hin. destruct Hin as (e' & Hq & He').
           rewrite <- Hq. apply in_map. apply MO. auto.
        -- destruct (ss_new _ _ _ SP e He) as [_ Hd]. unfold og_deadline. rewrite Hd.
           subst mid. rewrite (proj2 (proj2 (prune_limits s1))). rewrite Hnow, Hnp. reflexivity.
    + intros e He. destruct (og_mem (fst e) (ongoing mid)) eqn:Em.
      * apply og_mem_In in Em. pose proof (ss_old _ _ _ SP e He Em) as Hm. apply MO in Hm.
        destruct Hm as [Hm|Hm]; [right; auto | left; apply in_app_iff; left; apply Hfe3; auto].
      * left. apply in_app_iff. right. apply fresh_In. split; auto. apply og_mem_false; auto.
    + intros e He. apply (ss_keep _ _ _ SP). apply MO. auto.
  - assert (E : pre_prune pre o = None).
    { destruct (pre_prune pre o) eqn:E; auto. assert (schedules o = true) by (apply (pre_prune_schedules pre o); eauto). congruence. }
    apply (step_ok_nosched _ _ _ _ E) in HS. destruct HS as (_ & Hret & Heq).
    apply st_equiv_spec in Heq. destruct Heq as (_ & _ & _ & HO).
    exists []. rewrite Hret. split; [constructor|]. split; [constructor|].
    split; [intros e []|]. split.
    + intros e He. right. apply (nosched_mid_og _ _ E). apply HO. auto.
    + intros e He. apply HO. apply (nosched_mid_og _ _ E). auto.
Qed.

Theorem no_duplicate_inflight_lemma : forall pre o out post,
  reachable pre -> step_ok pre o out post = true ->
  NoDup (map fst (ongoing post)) /\
  exists started : list og_entry,
    Permutation (ret out) (map og_pair started) /\
    NoDup (map fst started) /\
    (forall e, In e started -> In e (ongoing post) /\ ~ In (fst e) (map fst (surviving pre o))) /\
    (forall e, In e (ongoing post) -> In e started \/ In e (surviving pre o)).
Proof.
  intros pre o out post HR HS. split.
  - apply (step_post_Wf _ _ _ _ HS).
  - destruct (started_spec _ _ _ _ HR HS) as (st & H1 & H2 & H3 & H4 & _). exists st.
    repeat split; auto; apply H3; auto.
Qed.

(* ---------------------------------------------------------------- leaving the in-flight set *)
Theorem leaves_ongoing_lemma : forall pre o out post,
  reachable pre -> step_ok pre o out post = true ->
  forall e, In e (ongoing pre) ->
    (op_keeps pre o e = true -> In e (ongoing post)) /\
    (op_keeps pre o e = false ->
       forall e', In e' (ongoing post) -> fst e' = fst e ->
         In (og_pair e') (ret out) /\ og_deadline e' = now post + FETCH_T).
Proof.
  intros pre o out post HR HS e He.
  destruct (started_spec _ _ _ _ HR HS) as (st & H1 & H2 & H3 & H4 & H5). split.
  - intros Hk. apply H5. unfold surviving. apply filter_In. auto.
  - intros Hk e' He' Hq. destruct (H4 e' He') as [Hst|Hsv].
    + split; [|apply H3; auto]. apply (Permutation_in _ (Permutation_sym H1)). apply in_map; auto.
    + exfalso. unfold surviving in Hsv. apply filter_In in Hsv. destruct Hsv as [Hin Hk'].
      assert (e' = e).
      { destruct e as [k v], e' as [k' v']. cbn in Hq. subst k'. f_equal.
        apply (NoDup_map_fst_inj (ongoing pre) k v' v); auto. apply (reachable_Wf _ HR). }
      subst e'. congruence.
Qed.

Lemma not_stored_iff held x : not_stored held x = true <-> held_get held (fst x) <> Some (snd x).
Proof.
  unfold not_stored. destruct (held_get held (fst x)) as [t'|].
  - rewrite negb_true_iff. split.
    + intros H Hq. inversion Hq; subst. rewrite rtype_eqb_refl in H. discriminate.
    + intros H. destruct (rtype_eqb (snd x) t') eqn:E; auto. apply rtype_eqb_eq in E. subst. congruence.
  - split; [discriminate | auto].
Qed.

Theorem leaves_when_lemma : forall s o e,
  op_keeps s o e = false <->
  (exists k t, o = NotifyPut k t /\ og_key e = k) \/
  (exists k t, o = NotifyEarly k t /\ fst e = (k, t)) \/
  (exists h inc held, o = AddKeys h inc held /\ held_get held (og_key e) = Some (snd (fst e))) \/
  (schedules o = true /\ expired s e) \/
  far_drops s o e = true.
Proof.
  intros s o e. unfold op_keeps. rewrite !andb_false_iff, !negb_false_iff, andb_true_iff, og_expired_iff.
  split.
  - intros [[Hc|Hx]|Hf]; auto.
    destruct o; cbn [op_completes] in Hc; try discriminate.
    + right; right; left. exists holder, inc, held. split; auto.
      apply negb_true_iff in Hc. destruct (held_get held (og_key e)) as [t'|] eqn:G.
      * destruct (rtype_eqb (snd (fst e)) t') eqn:R.
        -- apply rtype_eqb_eq in R. subst; auto.
        -- exfalso. unfold not_stored in Hc. unfold og_key in G. rewrite G, R in Hc. discriminate.
      * exfalso. unfold not_stored in Hc. unfold og_key in G. rewrite G in Hc. discriminate.
    + left. exists k, t. split; auto. apply key_eqb_eq; auto.
    + right; left. exists k, t. split; auto. apply kt_eqb_eq; auto.
  - intros [(k & t & -> & Hk)|[(k & t & -> & Hk)|[(h & inc & held & -> & Hh)|[Hx|Hf]]]]; auto.
    + left; left. cbn. apply key_eqb_eq; auto.
    + left; left. cbn. apply kt_eqb_eq; auto.
    + left; left. cbn. apply negb_true_iff. unfold not_stored. unfold og_key in Hh. rewrite Hh.
      rewrite rtype_eqb_refl. reflexivity.
Qed.

(* ---------------------------------------------------------------- timeouts *)
Theorem timed_out_lemma : forall pre o out post,
  reachable pre -> step_ok pre o out post = true -> schedules o = true ->
  (forall e, In e (ongoing pre) -> op_completes o e = false -> expired pre e ->
     (exists ev, events out = [ev] /\ In (og_holder e) ev) /\
     (forall x, In x (tbf post) -> kth_holder (fst x) <> og_holder e)) /\
  (forall ev p, In ev (events out) -> In p ev ->
     exists e, In e (ongoing pre) /\ op_completes o e = false /\ expired pre e /\ og_holder e = p) /\
  (length (events out) <= 1)%nat.
Proof.
  intros pre o out post HR HS Hs.
  destruct (step_sched_inv _ _ _ _ HR HS Hs) as (s1 & fast & batch & E & Hev & Hret & SP & W & W1 & Wm & (_ & _ & Hnow)).
  pose proof (pre_prune_og _ _ _ _ E) as PO.
  assert (Hexp : forall e, expired s1 e <-> expired pre e) by (intros e; unfold expired; rewrite Hnow; tauto).
  split; [|split].
  - intros e He Hc Hx.
    assert (Hf : In (og_holder e) (failed_holders s1)).
    { apply failed_holders_In. exists e. split; [apply PO; left; auto|]. split; [apply Hexp; auto | auto]. }
    destruct (prune_events s1) as [[Hnil _]|[Hne Hpe]]; [rewrite Hnil in Hf; contradiction|].
    rewrite Hpe in Hev. apply events_eqb_one in Hev. destruct Hev as (a' & Ha & Hsame). split.
    + exists a'. split; auto. apply Hsame; auto.
    + intros x Hx' Hq. destruct (ss_tbf_post _ _ _ SP x Hx') as [Hm _]. apply prune_tbf in Hm.
      apply (proj2 Hm). rewrite Hq. exact Hf.
  - intros ev p Hin Hp.
    destruct (prune_events s1) as [[Hnil Hpe]|[Hne Hpe]]; rewrite Hpe in Hev.
    + apply events_eqb_nil_l in Hev. rewrite Hev in Hin. contradiction.
    + apply events_eqb_one in Hev. destruct Hev as (a' & Ha & Hsame). rewrite Ha in Hin.
      destruct Hin as [<-|[]]. apply Hsame in Hp. apply failed_holders_In in Hp.
      destruct Hp as (e & He & Hx & Hh). apply PO in He. destruct He as [[He Hc]|HF].
      * exists e. repeat split; auto. apply Hexp; auto.
      * exfalso. apply (IsFast_not_expired _ _ _ _ s1 HF Hnow). auto.
  - destruct (prune_events s1) as [[_ Hpe]|[_ Hpe]]; rewrite Hpe in Hev.
    + apply events_eqb_nil_l in Hev. rewrite Hev. cbn. lia.
    + apply events_eqb_one in Hev. destruct Hev as (a' & -> & _). cbn. lia.
Qed.

(* ---------------------------------------------------------------- the cap *)
Lemma incl_length_NoDup {A} (l1 l2 : list A) : NoDup l1 -> (forall x, In x l1 -> In x l2) -> (length l1 <= length l2)%nat.
Proof. intros. apply NoDup_incl_length; auto. Qed.

Lemma sched_length mid batch post :
  SchedSpec mid batch post -> (length (ongoing post) <= Nat.max (length (ongoing mid)) MAXn)%nat.
Proof.
  intros SP. destruct (fresh mid post) as [|n r] eqn:F.
  - assert (length (ongoing post) <= length (ongoing mid))%nat; [|lia].
    apply incl_length_NoDup.
    + apply (NoDup_map_NoDup fst). apply (ss_wf _ _ _ SP).
    + intros e He. destruct (og_mem (fst e) (ongoing mid)) eqn:Em.
      * apply og_mem_In in Em. apply (ss_old _ _ _ SP); auto.
      * exfalso. assert (In e (fresh mid post)) by (apply fresh_In; split; auto; apply og_mem_false; auto).
        rewrite F in H. contradiction.
  - assert (length (ongoing post) <= MAXn)%nat; [|lia]. apply (ss_cap _ _ _ SP). rewrite F. discriminate.
Qed.

Theorem batch_respects_cap_lemma : forall pre o out post,
  reachable pre -> step_ok pre o out post = true ->
  ((length (fast_of pre o) < length (ret out))%nat -> (length (ongoing post) <= MAXn)%nat) /\
  (length (ongoing post) <= Nat.max (length (ongoing (mid_of pre o))) MAXn)%nat.
Proof.
  intros pre o out post HR HS. destruct (schedules o) eqn:Hs.
  - destruct (step_sched_inv _ _ _ _ HR HS Hs) as (s1 & fast & batch & E & _ & Hret & SP & _).
    unfold fast_of, mid_of. rewrite (settle_sched _ _ _ _ E). cbn [fst snd]. split.
    + intros Hlt. apply (ss_cap _ _ _ SP). intros Hf.
      pose proof (ss_ret _ _ _ SP) as HP. rewrite Hf in HP. cbn in HP. apply Permutation_sym, Permutation_nil in HP.
      rewrite Hret, HP, app_nil_r in Hlt. lia.
    + apply sched_length with (batch := batch); auto.
  - assert (E : pre_prune pre o = None).
    { destruct (pre_prune pre o) eqn:E; auto. assert (schedules o = true) by (apply (pre_prune_schedules pre o); eauto). congruence. }
    apply (step_ok_nosched _ _ _ _ E) in HS. destruct HS as (_ & Hret & Heq). split.
    + rewrite Hret. cbn. lia.
    + apply st_equiv_spec in Heq. destruct Heq as (_ & Wp & _ & HO).
      assert (length (ongoing post) <= length (ongoing (mid_of pre o)))%nat; [|lia].
      apply incl_length_NoDup; [apply (NoDup_map_NoDup fst); apply Wp | intros e He; apply HO; auto].
Qed.

Lemma mid_length_no_fast pre o :
  Wf pre -> fast_of pre o = [] -> (length (ongoing (mid_of pre o)) <= length (ongoing pre))%nat.
Proof.
  intros W Hf. destruct (pre_prune pre o) as [[s1 fast]|] eqn:E.
  - unfold fast_of, mid_of in *. rewrite (settle_sched _ _ _ _ E) in *. cbn [fst snd] in *. subst fast.
    apply incl_length_NoDup.
    + apply (NoDup_map_NoDup fst). apply prune_Wf. eapply pre_prune_Wf; eauto.
    + intros e He. apply (mid_og _ _ _ _ E) in He. destruct He as [He|HF].
      * unfold surviving in He. apply filter_In in He. tauto.
      * destruct HF as (h & inc & held & x & _ & _ & _ & Hq & _). discriminate.
  - apply incl_length_NoDup.
    + apply (NoDup_map_NoDup fst). unfold mid_of, settle. rewrite E. cbn [fst].
      destruct o; try discriminate; try apply W. apply set_farthest_Wf; auto.
    + intros e He. apply (nosched_mid_og _ _ E) in He. unfold surviving in He. apply filter_In in He. tauto.
Qed.

Theorem cap_without_fast_path_lemma : forall tr,
  valid tr -> no_fast_path init tr -> (length (ongoing (last_state init tr)) <= MAXn)%nat.
Proof.
  intros tr Hv Hn.
  assert (G : forall tr s, reachable s -> (length (ongoing s) <= MAXn)%nat -> run_ok s tr = true ->
                           no_fast_path s tr -> (length (ongoing (last_state s tr)) <= MAXn)%nat).
  { clear. induction tr as [|[[o out] post] r IH]; intros s HR Hl Hrun Hnf; cbn [run_ok no_fast_path last_state] in *; auto.
    apply andb_true_iff in Hrun. destruct Hrun as [Hst Hrun]. destruct Hnf as [Hf Hnf].
    apply IH; auto.
    - eapply reachable_step; eauto.
    - destruct (batch_respects_cap_lemma _ _ _ _ HR Hst) as [_ Hm].
      pose proof (mid_length_no_fast s o (reachable_Wf _ HR) Hf). lia. }
  apply G; auto. apply reachable_init. cbn. lia.
Qed.

(* ---------------------------------------------------------------- only records not held *)
Lemma first_pass_unheld s h inc held x : In x (first_pass s h inc held) -> is_held held (fst x) = false.
Proof. intros H. apply first_pass_In in H. tauto. Qed.
Lemma unheld_not_stored held x : is_held held (fst x) = false -> not_stored held x = true.
Proof. unfold is_held, not_stored. destruct (held_get held (fst x)); [discriminate|auto]. Qed.

Theorem only_unheld_lemma : forall pre h inc held out post,
  reachable pre -> step_ok pre (AddKeys h inc held) out post = true ->
  (forall e, In e (ongoing post) -> held_get held (og_key e) <> Some (snd (fst e))) /\
  (forall x, In x (tbf post) -> held_get held (kth_key (fst x)) <> Some (snd (kth_kt (fst x)))) /\
  (forall x, In x (tbf post) -> ~ queued pre (fst x) -> is_held held (kth_key (fst x)) = false) /\
  (forall e, In e (ongoing post) -> ~ In e (ongoing pre) -> ~ queued pre (og_kth e) ->
     is_held held (og_key e) = false).
Proof.
  intros pre h inc held out post HR HS.
  destruct (step_sched_inv _ _ _ _ HR HS eq_refl) as (s1 & fast & batch & E & _ & Hret & SP & W & W1 & Wm & _).
  cbn [pre_prune] in E. pose proof (add_keys_pre_spec pre h inc held) as A.
  inversion E as [E']. rewrite E' in A. cbn [fst snd] in A. clear E.
  set (mid := fst (prune s1)) in *.
  (* queue entries of mid *)
  assert (T1 : forall x, In x (tbf mid) ->
             (In x (tbf pre) /\ not_stored held (kth_kt (fst x)) = true) \/
             (exists y, In y (first_pass pre h inc held) /\ x = ((y, h), now pre + PENDING_T))).
  { intros x Hx. subst mid. apply prune_tbf in Hx. destruct Hx as [Hx _].
    destruct (ap_tbf_from _ _ _ _ _ _ A x Hx) as [(H1 & H2 & _)|(y & Hy & _ & ->)]; [left; auto|].
    right. exists y. split; auto. apply range_filter_In in Hy. tauto. }
  assert (O1 : forall e, In e (ongoing mid) ->
             (In e (ongoing pre) /\ not_stored held (fst e) = true) \/
             (exists y, In y (first_pass pre h inc held) /\ fst e = y)).
  { intros e He. subst mid. apply prune_og in He. destruct He as [He _].
    destruct (ap_og_from _ _ _ _ _ _ A e He) as [H1|(y & Hy & -> & _)]; [left; auto|].
    right. exists y. split; auto. rewrite Hy. left; auto. }
  assert (T2 : forall x, In x (tbf mid) -> not_stored held (kth_kt (fst x)) = true).
  { intros x Hx. destruct (T1 x Hx) as [[_ H]|(y & Hy & ->)]; auto. cbn. apply unheld_not_stored.
    eapply first_pass_unheld; eauto. }
  assert (O2 : forall e, In e (ongoing post) -> not_stored held (fst e) = true).
  { intros e He. destruct (og_mem (fst e) (ongoing mid)) eqn:Em.
    - apply og_mem_In in Em. pose proof (ss_old _ _ _ SP e He Em) as Hm.
      destruct (O1 e Hm) as [[_ H]|(y & Hy & Hq)]; auto. apply unheld_not_stored. rewrite Hq.
      eapply first_pass_unheld; eauto.
    - assert (Hf : In e (fresh mid post)) by (apply fresh_In; split; auto; apply og_mem_false; auto).
      destruct (ss_new _ _ _ SP e Hf) as [Hq _]. apply in_map_iff in Hq. destruct Hq as (x & Hq & Hx).
      specialize (T2 x Hx). rewrite Hq in T2. destruct e as [[k t] [hh d]]. exact T2. }
  split; [|split; [|split]].
  - intros e He. specialize (O2 e He). apply not_stored_iff in O2. exact O2.
  - intros x Hx. destruct (ss_tbf_post _ _ _ SP x Hx) as [Hm _]. specialize (T2 x Hm).
    apply not_stored_iff in T2. exact T2.
  - intros x Hx Hnq. destruct (ss_tbf_post _ _ _ SP x Hx) as [Hm _].
    destruct (T1 x Hm) as [[Hp _]|(y & Hy & ->)].
    + exfalso. apply Hnq. apply in_map; auto.
    + cbn. eapply first_pass_unheld; eauto.
  - intros e He Hne Hnq. destruct (og_mem (fst e) (ongoing mid)) eqn:Em.
    + apply og_mem_In in Em. pose proof (ss_old _ _ _ SP e He Em) as Hm.
      destruct (O1 e Hm) as [[Hp _]|(y & Hy & Hq)]; [contradiction|].
      unfold og_key. rewrite Hq. eapply first_pass_unheld; eauto.
    + assert (Hf : In e (fresh mid post)) by (apply fresh_In; split; auto; apply og_mem_false; auto).
      destruct (ss_new _ _ _ SP e Hf) as [Hq _]. apply in_map_iff in Hq. destruct Hq as (x & Hq & Hx).
      destruct (T1 x Hx) as [[Hp _]|(y & Hy & ->)].
      * exfalso. apply Hnq. rewrite <- Hq. apply in_map; auto.
      * cbn in Hq. destruct e as [[k t] [hh d]]. cbn in Hq. inversion Hq; subst. cbn.
        apply (first_pass_unheld _ _ _ _ _ Hy).
Qed.

Theorem put_clears_queue_lemma : forall pre k t out post,
  reachable pre -> step_ok pre (NotifyPut k t) out post = true ->
  forall x, In x (tbf post) -> kth_kt (fst x) <> (k, t).
Proof.
  intros pre k t out post HR HS x Hx.
  destruct (step_sched_inv _ _ _ _ HR HS eq_refl) as (s1 & fast & batch & E & _ & _ & SP & _).
  cbn [pre_prune] in E. inversion E; subst s1 fast.
  destruct (ss_tbf_post _ _ _ SP x Hx) as [Hm _]. apply prune_tbf in Hm. destruct Hm as [Hm _].
  unfold notify_put_pre in Hm. cbn [tbf] in Hm. apply filter_In in Hm. destruct Hm as [_ Hn].
  apply negb_true_iff in Hn. intros Hq. rewrite Hq, kt_eqb_refl in Hn. discriminate.
Qed.
