(* C14, part 4: completion order is irrelevant for any network; the packing loop terminates; the
   chunk-size bound of the property text is refuted; non-vacuity on a concrete codec (two levels). *)
From Coq Require Import List NArith ZArith Bool Lia ZifyBool ZifyNat ZifyN Sorted Permutation.
From V Require Import lib.Strs gen.Consts model.ClientRead proofs.ClientRead model.SelfEnc
  proofs.SelfEncPartition proofs.SelfEncLists proofs.SelfEnc.
Import ListNotations.
Open Scope N_scope.

(* ---------------------------------------------------------------- completion order *)

Lemma map_inl_inj {A E} (l1 l2 : list A) : map (@inl A E) l1 = map inl l2 -> l1 = l2.
Proof.
  revert l2. induction l1 as [|a t IH]; intros [|b t2] X; try discriminate; [reflexivity|].
  cbn in X. inversion X. f_equal. apply IH. assumption.
Qed.

Lemma fetch_order_irrelevant_lemma C nw dm o1 o2 :
  NoDup (map i_index dm) ->
  Permutation o1 (seq 0 (length dm)) -> Permutation o2 (seq 0 (length dm)) ->
  match fetch_from_data_map C nw dm o1, fetch_from_data_map C nw dm o2 with
  | inl a, inl b => a = b
  | inr _, inr _ => True
  | _, _ => False
  end.
Proof.
  intros ND P1 P2. unfold fetch_from_data_map.
  set (G := fun j : nat => chunk_get (cH C) (nw (i_dst (nth j dm dflt_info))) (i_dst (nth j dm dflt_info))).
  set (idx := fun j : nat => i_index (nth j dm dflt_info)).
  set (g := fun j : nat => match G j with inl c0 => inl (idx j, c0) | inr e => inr e end).
  change (match match collect (map g o1) with inr e => inr (GEFetch e) | inl encs => decrypt_full_set C dm encs end,
                match collect (map g o2) with inr e => inr (GEFetch e) | inl encs => decrypt_full_set C dm encs end
          with inl a, inl b => a = b | inr _, inr _ => True | _, _ => False end).
  assert (P12 : Permutation (map g o1) (map g o2)).
  { apply Permutation_map. rewrite P1. symmetry. exact P2. }
  assert (FST : forall o e, map g o = map inl e -> map fst e = map idx o).
  { induction o as [|j t IH]; intros [|x e] X; try discriminate; [reflexivity|].
    cbn [map] in X. inversion X as [[X1 X2]]. cbn [map]. f_equal; [|apply IH; exact X2].
    unfold g in X1. destruct (G j); [|discriminate]. inversion X1. reflexivity. }
  assert (IDX : map idx (seq 0 (length dm)) = map i_index dm).
  { unfold idx. rewrite <- (map_map (fun j => nth j dm dflt_info) i_index), nth_seq_map. reflexivity. }
  destruct (collect (map g o1)) as [e1|x1] eqn:C1.
  - pose proof (collect_inl_spec _ _ C1) as R1.
    destruct (collect (map g o2)) as [e2|x2] eqn:C2.
    + pose proof (collect_inl_spec _ _ C2) as R2.
      assert (PE : Permutation e1 e2).
      { rewrite R1, R2 in P12. apply Permutation_map_inv in P12. destruct P12 as (l3 & E3 & P3).
        apply map_inl_inj in E3. subst l3. symmetry. exact P3. }
      assert (ND1 : NoDup (map fst e1)).
      { rewrite (FST _ _ R1). eapply Permutation_NoDup; [|rewrite <- IDX in ND; exact ND].
        apply Permutation_map. symmetry. exact P1. }
      unfold decrypt_full_set. rewrite (sort_idx_perm_eq e1 e2 PE ND1).
      destruct (lenN _ <? lenN _); [exact I|reflexivity].
    + exfalso. assert (X : exists e, In (inr e) (map g o2)) by (apply collect_inr_iff; eauto).
      destruct X as (e & Ie). apply (Permutation_in _ (Permutation_sym P12)) in Ie.
      rewrite R1 in Ie. apply in_map_iff in Ie. destruct Ie as (? & ? & _). discriminate.
  - assert (X : exists e, In (inr e) (map g o1)) by (apply collect_inr_iff; eauto).
    destruct X as (e & Ie). apply (Permutation_in _ P12) in Ie.
    assert (Y : exists e', collect (map g o2) = inr e') by (apply collect_inr_iff; eauto).
    destruct Y as (e' & ->). exact I.
Qed.

(* ---------------------------------------------------------------- termination of pack_data_map *)

(* one packing step strictly shrinks a wrapped map that did not fit, as soon as MAX_CHUNK_SIZE can
   hold a three-entry wrapped map *)
Lemma pack_step_shrinks MAX s t :
  WRAP_BASE + 3 * WRAP_ENTRY <= MAX -> MAX < s -> s <= t -> t <= s + SER_OVERHEAD ->
  WRAP_BASE + WRAP_ENTRY * num_chunks MAX t < s.
Proof.
  replace WRAP_BASE with 17 by reflexivity. replace WRAP_ENTRY with 153 by reflexivity.
  replace SER_OVERHEAD with 5 by reflexivity. intros SC Big L1 L2.
  unfold num_chunks. rewrite MIN_CHUNK_1.
  destruct (N.ltb_spec t (3 * 1)); [lia|]. destruct (N.ltb_spec t (3 * MAX)); [lia|].
  assert (MAX <> 0) by lia.
  pose proof (N.div_mod t MAX H1) as E. pose proof (N.mod_lt t MAX H1) as R.
  set (q := t / MAX) in *. set (r := t mod MAX) in *.
  assert (Q3 : 3 <= q).
  { destruct (N.le_gt_cases 3 q); [assumption|]. exfalso. assert (q <= 2) by lia.
    assert (MAX * q <= MAX * 2) by (apply N.mul_le_mono_l; assumption). lia. }
  assert (M : 476 * q <= MAX * q) by (apply N.mul_le_mono_r; lia).
  destruct (r =? 0); lia.
Qed.

Lemma pack_terminates_lemma C MAX :
  codec_sizes C -> WRAP_BASE + 3 * WRAP_ENTRY <= MAX ->
  forall fuel lvl acc, (N.to_nat (lenN (c_wrap C lvl)) <= fuel)%nat ->
  exists r, pack C MAX fuel lvl acc = inl r.
Proof.
  intros SZ SC. assert (M3 : 3 <= MAX).
  { revert SC. replace WRAP_BASE with 17 by reflexivity. replace WRAP_ENTRY with 153 by reflexivity. lia. }
  induction fuel as [|f IH]; intros lvl acc Fu; cbn [pack].
  - destruct (N.leb_spec (lenN (c_wrap C lvl)) MAX); [eauto|lia].
  - destruct (N.leb_spec (lenN (c_wrap C lvl)) MAX) as [|Big]; [eauto|].
    destruct (ser_size C SZ (c_wrap C lvl)) as [S1 S2].
    destruct (se_encrypt_ok C MAX (c_ser C (c_wrap C lvl))) as (dm' & cs' & SE); [lia|].
    rewrite SE. apply IH.
    pose proof (wrap_size C SZ (Additional dm')) as W. cbn [dm_of] in W.
    assert (Ldm : lenN dm' = num_chunks MAX (lenN (c_ser C (c_wrap C lvl)))).
    { apply se_encrypt_shape in SE. destruct SE as (_ & -> & _).
      unfold lenN at 1. rewrite map_length, enum_from_length. apply raw_chunks_length. }
    rewrite Ldm in W.
    pose proof (pack_step_shrinks MAX _ _ SC Big S1 S2). lia.
Qed.

(* the shipped MAX_CHUNK_SIZE satisfies the side condition *)
Lemma pack_side_condition_shipped : WRAP_BASE + 3 * WRAP_ENTRY <= Consts.se_max_chunk_size.
Proof. vm_compute. discriminate. Qed.

(* ---------------------------------------------------------------- a concrete codec *)

(* transform: 16 bytes of padding (what AES-CBC adds to an incompressible block); inverse strips them *)
Definition pad16 : bytes := repeat 0 16.
Definition flat_info (i : info) : bytes := [i_index i; i_dst i; i_src i; i_size i].
Fixpoint parse_infos (l : bytes) : option datamap :=
  match l with
  | [] => Some []
  | a :: b :: c0 :: e :: t =>
      match parse_infos t with
      | Some dm => Some ({| i_index := a; i_dst := b; i_src := c0; i_size := e |} :: dm)
      | None => None
      end
  | _ => None
  end.

Definition ex_hash (x : bytes) : N := fold_left (fun a b => a * 1009 + b + 1) x 7.

Definition ex_codec : codec :=
  {| cH := ex_hash;
     c_tr := fun _ x => x ++ pad16;
     c_untr := fun _ y => Some (firstn (List.length y - 16) y);
     c_wrap := fun l => match l with
                        | First dm => 0 :: concat (map flat_info dm)
                        | Additional dm => 1 :: concat (map flat_info dm)
                        end;
     c_unwrap := fun b => match b with
                          | t :: rest =>
                              match parse_infos rest with
                              | Some dm => if t =? 0 then Some (First dm) else if t =? 1 then Some (Additional dm) else None
                              | None => None
                              end
                          | [] => None
                          end;
     c_ser := fun b => 196 :: b;
     c_deser := fun b => match b with 196 :: v => Some v | _ => None end |}.

Lemma parse_flat dm : parse_infos (concat (map flat_info dm)) = Some dm.
Proof.
  induction dm as [|i t IH]; [reflexivity|]. cbn [map concat flat_info app parse_infos].
  rewrite IH. destruct i; reflexivity.
Qed.

Lemma ex_codec_ok : codec_ok ex_codec.
Proof.
  split.
  - intros k x. cbn. f_equal. rewrite app_length. cbn [pad16 repeat length].
    replace (length x + 16 - 16)%nat with (length x + 0)%nat by lia.
    rewrite firstn_app_2. cbn. apply app_nil_r.
  - intros [dm|dm]; cbn; rewrite parse_flat; reflexivity.
  - intros b. reflexivity.
Qed.

Definition no_collision_b (st : list chunk) : bool :=
  forallb (fun c1 => forallb (fun c2 => negb (k_addr c1 =? k_addr c2) || bytes_eqb (k_value c1) (k_value c2)) st) st.

Lemma no_collision_check st :
  no_collision_b st = true ->
  forall c1 c2, In c1 st -> In c2 st -> k_addr c1 = k_addr c2 -> k_value c1 = k_value c2.
Proof.
  unfold no_collision_b. intros B c1 c2 I1 I2 E. rewrite forallb_forall in B.
  specialize (B c1 I1). rewrite forallb_forall in B. specialize (B c2 I2).
  apply orb_true_iff in B. destruct B as [B|B].
  - apply negb_true_iff, N.eqb_neq in B. contradiction.
  - apply bytes_eqb_eq. exact B.
Qed.

Definition ex_data (n : nat) : bytes := map (fun i => N.of_nat (i * 7 mod 251)) (seq 0 n).
Definition rev_sched (dm : datamap) : list nat := rev (seq 0 (List.length dm)).

Lemma rev_sched_valid : valid_sched rev_sched.
Proof. intros dm. unfold rev_sched. symmetry. apply Permutation_rev. Qed.

(* 64 bytes with MAX_CHUNK_SIZE = 16: four source chunks, a 17-byte wrapped map that does not fit,
   hence a second level -- and every content chunk is 32 bytes, twice the maximum *)
Example ex_two_levels :
  exists root chunks,
    encrypt ex_codec 16 5 (ex_data 64) = inl (root, chunks) /\
    c_unwrap ex_codec (k_value root) = Some (Additional (dm_of (match c_unwrap ex_codec (k_value root) with Some l => l | None => First [] end))) /\
    List.length chunks = 7%nat /\
    no_collision_b (root :: chunks) = true /\
    data_get ex_codec (store_net ex_codec (root :: chunks)) rev_sched 2 root = inl (ex_data 64) /\
    data_get_public ex_codec (store_net ex_codec (root :: chunks)) rev_sched 2 (k_addr root) = inl (ex_data 64) /\
    data_get ex_codec (store_net ex_codec (root :: chunks)) rev_sched 1 root = inr GEFuel.
Proof. eexists. eexists. vm_compute. repeat split; reflexivity. Qed.

(* "every produced chunk is no larger than the maximum chunk size" is false for a transform that
   pads (incompressible input): F19 *)
Lemma produced_chunk_le_max_refuted_lemma :
  exists C MAX fuel d r c, codec_ok C /\ 1 <= MAX /\ encrypt C MAX fuel d = inl r /\
    In c (all_chunks r) /\ MAX < lenN (k_value c).
Proof.
  exists ex_codec, 16, 5%nat, (ex_data 48).
  destruct (encrypt ex_codec 16 5 (ex_data 48)) as [r|] eqn:E; [|vm_compute in E; discriminate].
  exists r, (nth 1 (all_chunks r) (fst r)). split; [exact ex_codec_ok|]. split; [lia|]. split; [reflexivity|].
  vm_compute in E. inversion E; subst r. vm_compute. split; [right; left; reflexivity|reflexivity].
Qed.

(* outside that class -- a transform that never outputs more than MAX bytes for a source chunk of at
   most MAX + 1 bytes -- every produced chunk fits; the data map chunk always fits (root_fits_lemma) *)
