(* C08: non-vacuity.  Concrete histories (built with the deterministic instance `step_det`, so they
   are accepted by construction) on which the hypotheses of the pinned theorems hold together. *)
From Coq Require Import List NArith Bool Arith Lia Permutation ZifyBool ZifyNat ZifyN.
From V Require Import gen.Consts model.Fetcher proofs.Fetcher proofs.FetcherDet proofs.FetcherSched
  proofs.FetcherProps proofs.FetcherProps2 proofs.FetcherLive proofs.FetcherBridge.
Import ListNotations.
Open Scope N_scope.

Fixpoint run_det (s : state) (ops : list op) : list step :=
  match ops with
  | [] => []
  | o :: r => let '(post, out) := step_det s o in (o, out, post) :: run_det post r
  end.

Lemma run_det_ok : forall ops s, reachable s -> run_ok s (run_det s ops) = true.
Proof.
  induction ops as [|o r IH]; intros s HR; cbn; auto.
  destruct (accepted_step_exists_lemma s o HR) as (out & post & Hok & Hq).
  rewrite <- Hq. cbn. rewrite Hok. cbn. apply IH. eapply reachable_step; eauto.
Qed.
Lemma run_det_valid ops : valid (run_det init ops).
Proof. apply run_det_ok. apply reachable_init. Qed.
Lemma run_det_reachable ops : reachable (last_state init (run_det init ops)).
Proof. exists (run_det init ops). split; auto. apply run_det_valid. Qed.

Definition keys (n : nat) : list kt := map (fun i => (K (N.of_nat i) (N.of_nat i), Chunk)) (seq 1 n).
Definition xk (i : N) : kt := (K i i, Chunk).

(* MAX+5 keys advertised by holder 7 with range 100: the MAX closest in flight, 5 queued; then a
   single-key advert from holder 8 (fast path, beyond the cap); FETCH_TIMEOUT + 1 s later everything
   in flight has timed out.  Stated relative to the constants read from the source. *)
Definition NK : nat := (MAXn + 5)%nat.
Definition ex_ops : list op :=
  [SetRange 100; AddKeys 7 (keys NK) []; AddKeys 8 [xk 90] []; Advance (FETCH_T + 1000); NextKeys].
Definition ex_tr := run_det init ex_ops.
Definition st_after (n : nat) : state := last_state init (run_det init (firstn n ex_ops)).

(* saturated: the cap is reached exactly and entries wait in the queue *)
Example ex_saturated :
  reachable (st_after 2) /\ length (ongoing (st_after 2)) = MAXn /\ length (tbf (st_after 2)) = 5%nat.
Proof. split; [apply run_det_reachable | split; vm_compute; reflexivity]. Qed.

(* the premises of multi_key_in_range: a multi-record advert outside the known class, range set *)
Example ex_multi_key_premises :
  exists pre h inc held out post r,
    reachable pre /\ step_ok pre (AddKeys h inc held) out post = true /\ range pre = Some r /\
    (2 <= length inc)%nat /\ ~ KnownFastPathMulti pre h inc held /\
    length (ongoing post) = MAXn /\ length (tbf post) = 5%nat.
Proof.
  exists (st_after 1), 7, (keys NK), [], (snd (step_det (st_after 1) (AddKeys 7 (keys NK) []))),
         (fst (step_det (st_after 1) (AddKeys 7 (keys NK) []))), 100.
  split; [apply run_det_reachable|]. split; [vm_compute; reflexivity|]. split; [reflexivity|].
  split; [vm_compute; lia|]. split.
  - intros [_ H]. vm_compute in H. discriminate.
  - split; vm_compute; reflexivity.
Qed.

(* only the single-key fast path goes beyond the cap *)
Example ex_fast_path_beyond_cap :
  reachable (st_after 3) /\ length (ongoing (st_after 3)) = S MAXn /\ ~ no_fast_path init (run_det init (firstn 3 ex_ops)).
Proof.
  split; [apply run_det_reachable|]. split; [vm_compute; reflexivity|].
  intros H. vm_compute in H. destruct H as (_ & _ & H & _). discriminate.
Qed.

(* the premises of the timeout theorem: expired fetches of two holders at a scheduling step *)
Example ex_timeout_premises :
  let pre := st_after 4 in
  reachable pre /\ schedules NextKeys = true /\
  (exists e, In e (ongoing pre) /\ op_completes NextKeys e = false /\ expired pre e) /\
  (exists ev, events (snd (step_det pre NextKeys)) = [ev] /\ In 7 ev /\ In 8 ev) /\
  tbf (fst (step_det pre NextKeys)) = [] /\ ongoing (fst (step_det pre NextKeys)) = [].
Proof.
  split; [apply run_det_reachable|]. split; [reflexivity|]. split.
  - exists (OE (K 1 1) 0 7 FETCH_T). split; [vm_compute; left; reflexivity|]. split; [reflexivity|]. vm_compute. reflexivity.
  - split; [|split]; [|vm_compute; reflexivity|vm_compute; reflexivity].
    eexists. split; [vm_compute; reflexivity|]. split; vm_compute; tauto.
Qed.

(* leaves_ongoing: an arrival ends a fetch, the freed slot is used by the closest queued record *)
Example ex_arrival :
  let pre := st_after 2 in
  let e := OE (K 3 3) 0 7 FETCH_T in
  In e (ongoing pre) /\ op_keeps pre (NotifyPut (K 3 3) Chunk) e = false /\
  ret (snd (step_det pre (NotifyPut (K 3 3) Chunk))) = [(7, K (N.of_nat (S MAXn)) (N.of_nat (S MAXn)))].
Proof. split; [vm_compute; tauto|]. split; vm_compute; reflexivity. Qed.

(* full node: a fullness update drops what is too far and bounds later adverts *)
Example ex_full_node :
  let s := last_state init (run_det init [AddKeys 7 (keys NK) []; SetFarthest (Some (K 10 10)); AddKeys 8 (keys NK) []]) in
  reachable s /\ farthest s = Some 10 /\ length (ongoing s) = 10%nat /\ length (tbf s) = 10%nat.
Proof. split; [apply run_det_reachable|]. split; [|split]; vm_compute; reflexivity. Qed.

(* liveness, bound form: one fair round that does not reach the farthest of 25 unheld records *)
Example ex_liveness_bound_premises :
  let U := keys NK in let x := xk (N.of_nat NK) in let tr := run_det init [AddKeys 7 (keys NK) []] in
  valid tr /\ NoDup (map fst U) /\ adverts_in U tr /\ In x U /\
  Forall (fair_round U 7 x) (rounds 7 x init tr) /\ fair_chain (rounds 7 x init tr) /\
  (forall r, In r (rounds 7 x init tr) -> ~ inflight (r_post r) x) /\
  length (rounds 7 x init tr) = 1%nat /\ unheld_count U [] = NK.
Proof.
  cbv zeta. split; [apply run_det_valid|].
  split. { apply (nodup_by_NoDup key_eqb key_eqb_eq). vm_compute. reflexivity. }
  split. { intros o out post h inc held Hin Ho. vm_compute in Hin. destruct Hin as [Hin|[]].
           inversion Hin; subst. inversion H0; subst. apply incl_refl. }
  split. { vm_compute. tauto. }
  assert (Hr : exists post, rounds 7 (xk (N.of_nat NK)) init (run_det init [AddKeys 7 (keys NK) []]) = [(init, [], post)] /\
                            og_mem (xk (N.of_nat NK)) (ongoing post) = false).
  { eexists. split; vm_compute; reflexivity. }
  destruct Hr as (post & Hr & Hm). rewrite Hr.
  split. { constructor; [|constructor]. unfold fair_round; cbn [r_pre r_held fst snd].
           split; [reflexivity|]. split; [discriminate|]. split; [discriminate|].
           split; [intros e []|]. split; [intros d []|]. intros k t H. discriminate. }
  split; [exact I|]. split.
  { intros r [<-|[]]. cbn [r_post snd]. unfold inflight. apply og_mem_false. exact Hm. }
  split; [reflexivity | vm_compute; reflexivity].
Qed.

(* liveness, positive form: the premises hold and the conclusion is witnessed *)
Example ex_liveness_premises :
  let U := [xk 5] in let x := xk 5 in let tr := run_det init [AddKeys 7 [xk 5] []] in
  valid tr /\ NoDup (map fst U) /\ adverts_in U tr /\ In x U /\
  Forall (fair_round U 7 x) (rounds 7 x init tr) /\ fair_chain (rounds 7 x init tr) /\
  exists r1, rounds 7 x init tr = [r1] /\ (unheld_count U (r_held r1) <= MAXn * 1)%nat /\ inflight (r_post r1) x.
Proof.
  cbv zeta. split; [apply run_det_valid|].
  split. { repeat constructor. intros []. }
  split. { intros o out post h inc held Hin Ho. vm_compute in Hin. destruct Hin as [Hin|[]].
           inversion Hin; subst. inversion H0; subst. apply incl_refl. }
  split. { left; reflexivity. }
  assert (Hr : exists post, rounds 7 (xk 5) init (run_det init [AddKeys 7 [xk 5] []]) = [(init, [], post)] /\
                            og_mem (xk 5) (ongoing post) = true).
  { eexists. split; vm_compute; reflexivity. }
  destruct Hr as (post & Hr & Hm). rewrite Hr.
  split. { constructor; [|constructor]. unfold fair_round; cbn [r_pre r_held fst snd].
           split; [reflexivity|]. split; [discriminate|]. split; [discriminate|].
           split; [intros e []|]. split; [intros d []|]. intros k t H. discriminate. }
  split; [exact I|]. exists (init, [], post). split; [reflexivity|]. split.
  - vm_compute. lia.
  - cbn [r_post snd]. unfold inflight. apply og_mem_In. exact Hm.
Qed.

(* the C09 bridge: its premises hold on a non-trivial idle state, and the correction is real -- an
   advertised unheld record that is already in flight (from holder 8) stays queued for holder 7 *)
Example ex_bridge_premises :
  let s := last_state init (run_det init [AddKeys 8 [xk 3] []]) in
  let inc := [xk 1; xk 2; xk 3; xk 4] in let held := [(K 4 4, Chunk)] in
  reachable s /\ tbf s = [] /\ range s = None /\ farthest s = None /\ NoDup inc /\
  (forall e, In e (ongoing s) -> ~ expired s e) /\
  (length (FetcherBridge.kept s held) + length (FetcherBridge.fetch_set s held inc) <= MAXn)%nat /\
  FetcherBridge.fetch_set s held inc = [xk 1; xk 2] /\
  ret (snd (step_det s (AddKeys 7 inc held))) = [(7, K 1 1); (7, K 2 2)] /\
  FetcherBridge.lingering s 7 held inc = [((xk 3, 7), PENDING_T)] /\
  tbf (fst (step_det s (AddKeys 7 inc held))) = [((xk 3, 7), PENDING_T)].
Proof.
  cbv zeta. split; [apply run_det_reachable|]. split; [vm_compute; reflexivity|].
  split; [reflexivity|]. split; [reflexivity|].
  split. { apply (nodup_by_NoDup kt_eqb kt_eqb_eq). vm_compute. reflexivity. }
  split. { intros e He. vm_compute in He. destruct He as [<-|[]]. unfold expired. vm_compute. discriminate. }
  split; [vm_compute; lia|]. repeat split; vm_compute; reflexivity.
Qed.
