(* C14, part 1: the partition arithmetic of self_encryption (get_num_chunks, get_chunk_size,
   get_start_position, get_start_end_positions) is exact. *)
From Coq Require Import List NArith ZArith Bool Lia ZifyBool ZifyNat ZifyN.
From V Require Import lib.Strs gen.Consts model.ClientRead model.SelfEnc.
Import ListNotations.
Open Scope N_scope.
Ltac Zify.zify_post_hook ::= Z.div_mod_to_equations.

(* the constants of the pinned crate the arithmetic depends on *)
Lemma MIN_CHUNK_1 : MIN_CHUNK = 1.
Proof. reflexivity. Qed.
Lemma MIN_ENCRYPTABLE_3 : MIN_ENCRYPTABLE = 3.
Proof. reflexivity. Qed.
Lemma shipped_max_chunk_size : Consts.se_max_chunk_size = 1048576 /\ Consts.se_default_max_chunk_size = 1048576.
Proof. split; reflexivity. Qed.

Section Partition.
  Variables MAX size : N.
  Hypothesis HM : 1 <= MAX.
  Hypothesis HS : 3 <= size.

  Let q := size / MAX.
  Let r := size mod MAX.

  Lemma qr_spec : size = MAX * q + r /\ r < MAX.
  Proof.
    unfold q, r. split.
    - apply N.div_mod. lia.
    - apply N.mod_lt. lia.
  Qed.

  Lemma q_ge_3 : 3 * MAX <= size -> 3 <= q.
  Proof.
    intros L. destruct qr_spec as [E R]. destruct (N.le_gt_cases 3 q) as [|G]; [assumption|].
    exfalso. assert (q <= 2) by lia. assert (MAX * q <= MAX * 2) by (apply N.mul_le_mono_l; assumption). lia.
  Qed.

  Definition n := num_chunks MAX size.

  Lemma n_small : size < 3 * MAX -> n = 3.
  Proof.
    intros L. unfold n, num_chunks. rewrite MIN_CHUNK_1.
    destruct (N.ltb_spec size (3 * 1)); [lia|]. destruct (N.ltb_spec size (3 * MAX)); [reflexivity|lia].
  Qed.

  Lemma n_large : 3 * MAX <= size -> n = if r =? 0 then q else q + 1.
  Proof.
    intros L. unfold n, num_chunks. rewrite MIN_CHUNK_1.
    destruct (N.ltb_spec size (3 * 1)); [lia|]. destruct (N.ltb_spec size (3 * MAX)); [lia|]. reflexivity.
  Qed.

  Lemma n_ge_3 : 3 <= n.
  Proof.
    destruct (N.lt_ge_cases size (3 * MAX)) as [L|L].
    - rewrite (n_small L). lia.
    - rewrite (n_large L). pose proof (q_ge_3 L). destruct (r =? 0); lia.
  Qed.

  (* the size every chunk but the last has *)
  Definition c := if size <? 3 * MAX then size / 3 else MAX.

  Lemma c_pos : 1 <= c.
  Proof. unfold c. destruct (N.ltb_spec size (3 * MAX)); lia. Qed.

  Lemma c_le_max : c <= MAX.
  Proof. unfold c. destruct (N.ltb_spec size (3 * MAX)); lia. Qed.

  (* all chunks but the last take c bytes, and they leave a non-empty rest *)
  Lemma rest_pos : c * (n - 1) < size.
  Proof.
    unfold c. destruct (N.ltb_spec size (3 * MAX)) as [L|L].
    - rewrite (n_small L). lia.
    - rewrite (n_large L). destruct qr_spec as [E R]. pose proof (q_ge_3 L).
      destruct (N.eqb_spec r 0) as [Z|Z].
      + replace (MAX * (q - 1)) with (MAX * q - MAX) by (rewrite N.mul_sub_distr_l; lia).
        assert (MAX * 3 <= MAX * q) by (apply N.mul_le_mono_l; assumption). lia.
      + replace (q + 1 - 1) with q by lia. lia.
  Qed.

  Lemma chunk_size_closed i : i < n ->
    chunk_size MAX size i = if i <? n - 1 then c else size - c * (n - 1).
  Proof.
    intros I. unfold chunk_size, c. rewrite MIN_CHUNK_1. fold n.
    destruct (N.ltb_spec size (3 * 1)); [lia|].
    destruct (N.ltb_spec size (3 * MAX)) as [L|L].
    - rewrite (n_small L) in *. destruct (N.ltb_spec i 2); destruct (N.ltb_spec i (3 - 1)); lia.
    - pose proof (n_large L) as En. destruct qr_spec as [E R]. pose proof (q_ge_3 L) as Q3. fold r.
      destruct (N.ltb_spec i (n - 2)) as [A|A].
      + destruct (N.ltb_spec i (n - 1)); [reflexivity|lia].
      + destruct (N.eqb_spec r 0) as [Z|Z].
        * rewrite Z in *. cbn [N.eqb] in En. rewrite En in *.
          destruct (N.ltb_spec i (q - 1)); [reflexivity|].
          replace (MAX * (q - 1)) with (MAX * q - MAX) by (rewrite N.mul_sub_distr_l; lia).
          assert (MAX * 3 <= MAX * q) by (apply N.mul_le_mono_l; assumption). lia.
        * destruct (N.ltb_spec r 1); [lia|]. assert (En' : n = q + 1).
          { rewrite En. destruct (N.eqb_spec r 0); [contradiction|reflexivity]. }
          rewrite En' in *. replace (q + 1 - 2) with (q - 1) in * by lia. replace (q + 1 - 1) with q in * by lia.
          destruct (N.eqb_spec (q - 1) i); destruct (N.ltb_spec i q); try lia.
  Qed.

  Lemma chunk_size_0 : chunk_size MAX size 0 = c.
  Proof.
    rewrite chunk_size_closed by (pose proof n_ge_3; lia).
    pose proof n_ge_3. destruct (N.ltb_spec 0 (n - 1)); [reflexivity|lia].
  Qed.

  Lemma start_position_closed i : i < n -> start_position MAX size i = c * i.
  Proof.
    intros I. unfold start_position. fold n. pose proof n_ge_3 as N3.
    destruct (N.eqb_spec n 0); [lia|]. rewrite chunk_size_0.
    destruct (N.eqb_spec (n - 1) i) as [La|La]; [|reflexivity].
    rewrite chunk_size_closed by lia. destruct (N.ltb_spec (i - 1) (n - 1)); [|lia].
    replace i with ((i - 1) + 1) at 3 by lia. lia.
  Qed.

  Lemma start_end_closed i : i < n ->
    start_end MAX size i = (c * i, c * i + (if i <? n - 1 then c else size - c * (n - 1))).
  Proof.
    intros I. unfold start_end. fold n. pose proof n_ge_3. destruct (N.eqb_spec n 0); [lia|].
    rewrite start_position_closed, chunk_size_closed by assumption. reflexivity.
  Qed.

  (* ---- the statement: consecutive, non-empty ranges that cover [0, size) *)
  Lemma partition_exact_lemma :
    3 <= n /\
    fst (start_end MAX size 0) = 0 /\
    (forall i, i + 1 < n -> snd (start_end MAX size i) = fst (start_end MAX size (i + 1))) /\
    snd (start_end MAX size (n - 1)) = size /\
    (forall i, i < n -> fst (start_end MAX size i) < snd (start_end MAX size i)) /\
    (forall i, i < n -> snd (start_end MAX size i) - fst (start_end MAX size i) = chunk_size MAX size i).
  Proof.
    pose proof n_ge_3 as N3. pose proof c_pos as CP. pose proof rest_pos as RP.
    split; [exact N3|]. split; [|split; [|split; [|split]]].
    - rewrite start_end_closed by lia. cbn [fst]. lia.
    - intros i I. rewrite !start_end_closed by lia. cbn [fst snd].
      destruct (N.ltb_spec i (n - 1)); lia.
    - rewrite start_end_closed by lia. cbn [snd]. destruct (N.ltb_spec (n - 1) (n - 1)); lia.
    - intros i I. rewrite start_end_closed by lia. cbn [fst snd]. destruct (N.ltb_spec i (n - 1)); lia.
    - intros i I. rewrite start_end_closed, chunk_size_closed by lia. cbn [fst snd].
      destruct (N.ltb_spec i (n - 1)); lia.
  Qed.

  (* ---- source chunk sizes: never above MAX + 1, and above MAX only for size = 3*MAX - 1 *)
  Lemma src_chunk_bound_lemma i : i < n -> chunk_size MAX size i <= MAX + 1.
  Proof.
    intros I. rewrite chunk_size_closed by assumption. pose proof c_le_max.
    destruct (N.ltb_spec i (n - 1)); [lia|]. unfold c.
    destruct (N.ltb_spec size (3 * MAX)) as [L|L].
    - rewrite (n_small L). lia.
    - rewrite (n_large L). destruct qr_spec as [E R]. pose proof (q_ge_3 L).
      destruct (N.eqb_spec r 0) as [Z|Z].
      + replace (MAX * (q - 1)) with (MAX * q - MAX) by (rewrite N.mul_sub_distr_l; lia).
        assert (MAX * 3 <= MAX * q) by (apply N.mul_le_mono_l; assumption). lia.
      + replace (q + 1 - 1) with q by lia. lia.
  Qed.

  Lemma src_chunk_le_max_lemma i : size <> 3 * MAX - 1 -> i < n -> chunk_size MAX size i <= MAX.
  Proof.
    intros NE I. rewrite chunk_size_closed by assumption. pose proof c_le_max.
    destruct (N.ltb_spec i (n - 1)); [lia|]. unfold c.
    destruct (N.ltb_spec size (3 * MAX)) as [L|L].
    - rewrite (n_small L). lia.
    - rewrite (n_large L). destruct qr_spec as [E R]. pose proof (q_ge_3 L).
      destruct (N.eqb_spec r 0) as [Z|Z].
      + replace (MAX * (q - 1)) with (MAX * q - MAX) by (rewrite N.mul_sub_distr_l; lia).
        assert (MAX * 3 <= MAX * q) by (apply N.mul_le_mono_l; assumption). lia.
      + replace (q + 1 - 1) with q by lia. lia.
  Qed.
End Partition.

(* the one length whose last source chunk exceeds MAX_CHUNK_SIZE (by one byte) *)
Lemma src_chunk_le_max_refuted :
  exists MAX size i, 1 <= MAX /\ 3 <= size /\ i < num_chunks MAX size /\ MAX < chunk_size MAX size i.
Proof. exists 1048576, 3145727, 2. vm_compute. repeat split; congruence. Qed.

Lemma too_small_has_no_chunks MAX size : size < 3 -> num_chunks MAX size = 0.
Proof.
  intros L. unfold num_chunks. rewrite MIN_CHUNK_1. destruct (N.ltb_spec size (3 * 1)); [reflexivity|lia].
Qed.

(* non-vacuity: the shipped MAX_CHUNK_SIZE at the small/large boundary *)
Example ex_partition_boundary :
  map (start_end 1048576 3145728) (nseq (num_chunks 1048576 3145728))
  = [(0, 1048576); (1048576, 2097152); (2097152, 3145728)] /\
  map (chunk_size 1048576 4194305) (nseq (num_chunks 1048576 4194305))
  = [1048576; 1048576; 1048576; 1048576; 1].
Proof. vm_compute. split; reflexivity. Qed.
