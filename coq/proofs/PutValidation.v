(* Lemmas about model/PutValidation.v shared by C03, C04 and C07: reflection of the boolean
   equalities, the serial semantics of [bind], and the behaviour of the payment check. *)
From Coq Require Import List NArith ZArith Bool Lia.
From V Require Import lib.Strs gen.Consts model.PutValidation.
Import ListNotations.
Open Scope N_scope.

(* ------------------------------------------------------------------ the source facts the proofs use *)

Lemma flag_quote_content : Consts.pv_payment_checks_quote_content = true.
Proof. reflexivity. Qed.
Lemma flag_register_key : Consts.pv_unpaid_register_checks_record_key = true.
Proof. reflexivity. Qed.
Lemma expiry_value : Consts.pv_quote_expiration_secs = 3600.
Proof. reflexivity. Qed.
Lemma tag_table :
  map kind_of_tag [0; 1; 2; 3; 4; 5; 6; 7; 8] =
  [Some KChunkPaid; Some KChunk; Some KTx; Some KReg; Some KRegPaid; Some KPad; Some KPadPaid;
   Some KTxPaid; None].
Proof. reflexivity. Qed.

(* ------------------------------------------------------------------ boolean equalities *)

Lemma preimage_eqb_eq a b : preimage_eqb a b = true <-> a = b.
Proof.
  destruct a, b; cbn; try (split; [discriminate | intros H; discriminate H]).
  - rewrite N.eqb_eq. split; [intros ->; reflexivity | intros [= ->]; reflexivity].
  - rewrite N.eqb_eq. split; [intros ->; reflexivity | intros [= ->]; reflexivity].
  - rewrite andb_true_iff, !N.eqb_eq. split; [intros [-> ->]; reflexivity | intros [= -> ->]; auto].
Qed.

Lemma name_eqb_eq a b : name_eqb a b = true <-> a = b.
Proof.
  destruct a, b; cbn; try (split; [discriminate | intros H; discriminate H]).
  - rewrite preimage_eqb_eq. split; [intros ->; reflexivity | intros [= ->]; reflexivity].
  - rewrite N.eqb_eq. split; [intros ->; reflexivity | intros [= ->]; reflexivity].
Qed.

Lemma name_eqb_refl a : name_eqb a a = true.
Proof. apply name_eqb_eq. reflexivity. Qed.

Lemma name_eqb_neq a b : name_eqb a b = false <-> a <> b.
Proof.
  split.
  - intros H E. apply name_eqb_eq in E. congruence.
  - intros H. destruct (name_eqb a b) eqn:E; [apply name_eqb_eq in E; contradiction | reflexivity].
Qed.

Lemma name_eqb_sym a b : name_eqb a b = name_eqb b a.
Proof.
  destruct (name_eqb a b) eqn:E.
  - apply name_eqb_eq in E. subst. symmetry. apply name_eqb_refl.
  - symmetry. apply name_eqb_neq. apply name_eqb_neq in E. congruence.
Qed.

(* ------------------------------------------------------------------ serial semantics of bind *)

Lemma run_bind {A B} (m : prog A) (f : A -> prog B) : forall st,
  run st (bind m f) =
  let '(a, st1, es1) := run st m in
  let '(b, st2, es2) := run st1 (f a) in (b, st2, es1 ++ es2).
Proof.
  induction m as [a | k c IH | k c IH | e n IH]; intros st; cbn [bind run].
  - destruct (run st (f a)) as [[b st2] es2]. reflexivity.
  - apply IH.
  - apply IH.
  - rewrite IH. destruct (run (apply_effect st e) n) as [[a st1] es1].
    destruct (run st1 (f a)) as [[b st2] es2]. reflexivity.
Qed.

Lemma run_emits {R} (es : list effect) (n : prog R) : forall st,
  run st (emits es n) =
  let '(r, st', es') := run (fold_left apply_effect es st) n in (r, st', es ++ es').
Proof.
  induction es as [|e es IH]; intros st; cbn [emits fold_right fold_left run].
  - destruct (run st n) as [[r st'] es']. reflexivity.
  - fold (emits es n). rewrite IH. destruct (run (fold_left apply_effect es (apply_effect st e)) n) as [[r st'] es'].
    reflexivity.
Qed.

(* ------------------------------------------------------------------ the six payment conditions *)

Definition all_quotes_verify (p : proof) : bool :=
  forallb (fun pq => match pq_claimed pq with
                     | None => false
                     | Some c => quote_signed_by (pq_quote pq) c
                     end) p.
Definition self_is_payee (p : proof) : bool := mem N.eqb self_peer (payees p).
Definition payees_close (e : env) (p : proof) : bool := subset N.eqb (payees p) (e_closest e).
Definition none_expired (p : proof) : bool := negb (has_expired p).
Definition onchain_valid (c : chain) : bool :=
  match c with ChainOk rs => forallb fst rs | ChainErr => false end.

(* all six conditions of the property, for the address [addr] being stored *)
Definition payment_ok (e : env) (addr : name) (p : proof) (c : chain) : bool :=
  all_quotes_verify p && self_is_payee p && payees_close e p && none_expired p &&
  onchain_valid c && own_quotes_for p addr.

Lemma payment_check_ok_iff e addr p c :
  (exists a, snd (payment_check e addr p c) = Ok a) <-> payment_ok e addr p c = true.
Proof.
  unfold payment_check, payment_ok, verify_for, none_expired, self_is_payee, payees_close, all_quotes_verify.
  rewrite flag_quote_content. cbn [andb].
  destruct (mem N.eqb self_peer (payees p)); cbn [andb negb snd];
    [|rewrite andb_false_r; cbn; split; [intros [a H]; discriminate | discriminate]].
  destruct (forallb _ p); cbn [andb negb snd]; [|split; [intros [a H]; discriminate | discriminate]].
  destruct (own_quotes_for p addr); cbn [andb negb snd];
    [|rewrite !andb_false_r; split; [intros [a H]; discriminate | discriminate]].
  destruct (has_expired p); cbn [andb negb snd];
    [rewrite andb_false_r; cbn; split; [intros [a H]; discriminate | discriminate]|].
  destruct (subset N.eqb (payees p) (e_closest e)); cbn [andb negb snd];
    [|split; [intros [a H]; discriminate | discriminate]].
  destruct c as [|rs]; cbn [onchain_valid snd]; [split; [intros [a H]; discriminate | discriminate]|].
  destruct (forallb fst rs); cbn [snd andb]; split; try discriminate; eauto.
  intros [a H]. discriminate.
Qed.

(* the node has at least one quote of its own in a proof that verifies for it *)
Lemma verify_for_own_quote p :
  verify_for p self_peer = true -> quotes_by_peer p self_peer <> [].
Proof.
  unfold verify_for. intros H. apply andb_true_iff in H as [Hm Hall].
  unfold mem in Hm. apply existsb_exists in Hm as (x & Hin & Hx). apply N.eqb_eq in Hx. subst x.
  unfold payees in Hin. apply in_flat_map in Hin as (pq & Hpq & Hc).
  destruct (pq_claimed pq) as [c|] eqn:Ec; [|contradiction]. destruct Hc as [->|[]].
  rewrite forallb_forall in Hall. specialize (Hall pq Hpq). rewrite Ec in Hall.
  unfold quote_signed_by in Hall. destruct (q_pub (pq_quote pq)) as [pk|] eqn:Ep; [|discriminate].
  apply andb_true_iff in Hall as [Hpk _]. apply N.eqb_eq in Hpk. subst pk.
  intros Hnil. assert (Hin : In (pq_quote pq) (quotes_by_peer p self_peer)).
  { unfold quotes_by_peer. apply in_flat_map. exists pq. split; [assumption|].
    rewrite Ep. rewrite N.eqb_refl. left. reflexivity. }
  rewrite Hnil in Hin. contradiction.
Qed.

(* payment_for_us: never touches the store, emits no PutLocalRecord, credits only a valid payment *)
Lemma run_payment_for_us e addr p c st :
  let '(r, st', es) := run st (payment_for_us e addr p c) in
  st' = st /\ puts_of es = [] /\
  (match r with
   | Ok _ => payment_ok e addr p c = true
   | Err _ => payment_ok e addr p c = false /\ count_eff is_payrecv es = 0
   end).
Proof.
  unfold payment_for_us.
  pose proof (payment_check_ok_iff e addr p c) as Hiff.
  destruct (payment_check e addr p c) as [rpc verdict]. cbn [snd] in Hiff.
  rewrite run_emits.
  assert (Hst : fold_left apply_effect (if rpc then [ERpc] else []) st = st) by (destruct rpc; reflexivity).
  rewrite Hst.
  destruct verdict as [amount | x]; cbn [run apply_effect].
  - repeat split; [destruct rpc; reflexivity | apply Hiff; eauto].
  - repeat split; [destruct rpc; reflexivity | | destruct rpc; reflexivity].
    destruct (payment_ok e addr p c); [|reflexivity].
    destruct Hiff as [_ Hiff]. destruct (Hiff eq_refl) as [a Ha]. discriminate.
Qed.

(* ------------------------------------------------------------------ serial behaviour of the helpers *)

Lemma run_validate_key st addr expected :
  run st (validate_key_and_existence addr expected) =
  if name_eqb expected addr then (Ok (listed st addr), st, []) else (Err EKeyMismatch, st, []).
Proof. unfold validate_key_and_existence. destruct (name_eqb expected addr); reflexivity. Qed.

(* scratchpads: accepted iff the key is the owner's, the stored copy (if any) is a scratchpad with
   a strictly lower counter, and the owner's signature covers this counter and content *)
Definition pad_newer (loc : option stored) (p : pad) : bool :=
  match loc with
  | None => true
  | Some (SPad lp) => p_ctr lp <? p_ctr p
  | Some _ => false
  end.
Definition pad_accepts (st : store) (p : pad) (k : name) : bool :=
  name_eqb (owner_key (p_owner p)) k && pad_newer (get st k) p && pad_valid p.

Lemma run_store_pad st p k cl :
  (pad_accepts st p k = true /\
   run st (store_pad p k cl) =
     (Ok tt, put st k (SPad p), EPut k (SPad p) :: (if cl then [EReplicate] else []))) \/
  (pad_accepts st p k = false /\ exists x, run st (store_pad p k cl) = (Err x, st, [])).
Proof.
  unfold store_pad, pad_accepts.
  destruct (name_eqb (owner_key (p_owner p)) k) eqn:Ek; cbn [negb andb].
  2:{ right. split; [reflexivity|]. eexists. reflexivity. }
  apply name_eqb_eq in Ek. subst k. cbn [run].
  destruct (get st (owner_key (p_owner p))) as [[c|lp|l|r|n]|] eqn:Eg; cbn [pad_newer local_pad liftE andb];
    try (right; split; [reflexivity|]; eexists; reflexivity).
  - destruct (p_ctr p <=? p_ctr lp) eqn:Ec; cbn [liftE].
    + right. split; [|eexists; reflexivity].
      apply N.leb_le in Ec. assert (p_ctr lp <? p_ctr p = false) as -> by (apply N.ltb_ge; lia). reflexivity.
    + apply N.leb_gt in Ec. assert (p_ctr lp <? p_ctr p = true) as -> by (apply N.ltb_lt; lia). cbn [andb].
      destruct (pad_valid p); cbn [negb].
      * left. split; [reflexivity|]. cbn [run apply_effect]. rewrite run_emits.
        destruct cl; reflexivity.
      * right. split; [reflexivity|]. eexists. reflexivity.
  - destruct (pad_valid p); cbn [negb].
    + left. split; [reflexivity|]. cbn [run apply_effect]. rewrite run_emits. destruct cl; reflexivity.
    + right. split; [reflexivity|]. eexists. reflexivity.
Qed.

(* transactions *)
Definition txs_for_key (l : list tx) (k : name) : list tx :=
  filter (fun t => name_eqb (owner_key (t_owner t)) k) l.
Definition txs_validated (l : list tx) (k : name) : list tx :=
  set_of tx_eqb (filter tx_valid (txs_for_key l k)).
(* the value written by a transaction delivery, if it writes *)
Definition txs_write (st : store) (l : list tx) (k : name) : option stored :=
  match txs_validated l k with
  | [] => None
  | t0 :: _ =>
      match get st (owner_key (t_owner t0)) with
      | None => Some (STxs (set_union tx_eqb (txs_validated l k) []))
      | Some (STxs loc) => Some (STxs (set_union tx_eqb (txs_validated l k) loc))
      | Some _ => None
      end
  end.

Lemma run_store_txs st l k :
  match txs_write st l k with
  | Some v => run st (store_txs l k) = (Ok tt, put st k v, [EPut k v])
  | None => exists r, run st (store_txs l k) = (r, st, [])
  end.
Proof.
  unfold txs_write, txs_validated, txs_for_key, store_txs.
  destruct (filter (fun t => name_eqb (owner_key (t_owner t)) k) l) as [|t1 rest] eqn:Ef.
  { cbn. eexists. reflexivity. }
  destruct (set_of tx_eqb (filter tx_valid (t1 :: rest))) as [|t0 vs] eqn:Ev.
  { eexists. reflexivity. }
  unfold bindE, local_txs. cbn [bind run].
  destruct (get st (owner_key (t_owner t0))) as [[c|lp|loc|r|n]|]; cbn [run apply_effect];
    try (eexists; reflexivity); reflexivity.
Qed.

(* registers *)
Definition reg_k (r : reg) : name := reg_key (r_owner (g_base r)) (r_meta (g_base r)).
Definition reg_write (st : store) (r : reg) : option stored :=
  if negb (reg_verify r) then None else
  if negb (listed st (reg_k r)) then Some (SReg r) else
  match get st (reg_k r) with
  | Some (SReg lr) =>
      if negb (mergeable (g_base lr) (g_base r)) then None else
      if subset regop_eqb (g_ops r) (g_ops lr) then None
      else Some (SReg {| g_base := g_base lr; g_ops := set_union regop_eqb (g_ops lr) (g_ops r) |})
  | _ => None
  end.

Lemma run_store_register st r cl :
  match reg_write st r with
  | Some v => run st (store_register r cl) =
              (Ok tt, put st (reg_k r) v, EPut (reg_k r) v :: (if cl then [EReplicate] else []))
  | None => exists x, run st (store_register r cl) = (x, st, [])
  end.
Proof.
  unfold reg_write, store_register, register_validation, reg_k. cbn [run].
  unfold bindE. rewrite run_bind.
  destruct (reg_verify r); cbn [negb].
  2:{ cbn. eexists. reflexivity. }
  destruct (listed st (reg_key (r_owner (g_base r)) (r_meta (g_base r)))); cbn [negb].
  2:{ cbn [run apply_effect]. rewrite run_emits. destruct cl; reflexivity. }
  cbn [run].
  destruct (get st (reg_key (r_owner (g_base r)) (r_meta (g_base r)))) as [[c|lp|loc|lr|n]|];
    cbn [run local_reg liftE]; try (eexists; reflexivity).
  destruct (mergeable (g_base lr) (g_base r)); cbn [negb run]; [|eexists; reflexivity].
  destruct (subset regop_eqb (g_ops r) (g_ops lr)); cbn [run apply_effect]; [eexists; reflexivity|].
  rewrite run_emits. destruct cl; reflexivity.
Qed.
