(* C08: effect of the deterministic parts of every operation on the two maps. *)
From Coq Require Import List NArith Bool Arith Lia Permutation ZifyBool ZifyNat ZifyN.
From V Require Import gen.Consts model.Fetcher proofs.Fetcher.
Import ListNotations.
Open Scope N_scope.

(* ---------------------------------------------------------------- remove_stored *)
Lemma remove_stored_tbf s held e :
  In e (tbf (remove_stored s held)) <-> In e (tbf s) /\ not_stored held (kth_kt (fst e)) = true.
Proof. unfold remove_stored; cbn [tbf]. apply filter_In. Qed.
Lemma remove_stored_og s held e :
  In e (ongoing (remove_stored s held)) <-> In e (ongoing s) /\ not_stored held (fst e) = true.
Proof. unfold remove_stored; cbn [ongoing]. apply filter_In. Qed.
Lemma remove_stored_Wf s held : Wf s -> Wf (remove_stored s held).
Proof. intros [H1 H2]. split; unfold remove_stored; cbn [tbf ongoing]; apply NoDup_map_filter; auto. Qed.

(* ---------------------------------------------------------------- fast path *)
Lemma NoDup_app_one {A} (l : list A) x : NoDup l -> ~ In x l -> NoDup (l ++ [x]).
Proof.
  intros Hd Hn. induction l as [|y r IH]; cbn.
  - constructor; [auto | constructor].
  - inversion Hd; subst. constructor.
    + rewrite in_app_iff. cbn. intros [H|[H|[]]]; auto. subst. apply Hn. left; auto.
    + apply IH; auto. intro. apply Hn. right; auto.
Qed.

Inductive FastCase (s : state) (h : peer) (new : list kt) : state -> list (peer * key) -> list kt -> Prop :=
| FastOccupied x : new = [x] -> In x (map fst (ongoing s)) -> FastCase s h new s [] []
| FastVacant x : new = [x] -> ~ In x (map fst (ongoing s)) ->
    FastCase s h new (set_ongoing s (ongoing s ++ [(x, (h, now s + FETCH_T))])) [(h, fst x)] []
| FastNone : length new <> 1%nat -> FastCase s h new s [] new.

Lemma fast_path_case s h new :
  let '(s', fast, new') := fast_path s h new in FastCase s h new s' fast new'.
Proof.
  unfold fast_path. destruct new as [|x [|y r]].
  - apply FastNone. cbn. lia.
  - destruct (og_mem x (ongoing s)) eqn:E.
    + eapply FastOccupied; eauto. apply og_mem_In; auto.
    + eapply FastVacant; eauto. apply og_mem_false; auto.
  - apply FastNone. cbn. lia.
Qed.

(* ---------------------------------------------------------------- enqueue *)
Lemma or_insert_In l x d e : In e (or_insert l x d) <-> In e l \/ (~ In x (map fst l) /\ e = (x, d)).
Proof.
  unfold or_insert. destruct (tbf_mem x l) eqn:E.
  - apply tbf_mem_In in E. tauto.
  - apply tbf_mem_false in E. rewrite in_app_iff. cbn. intuition (subst; auto).
Qed.
Lemma or_insert_NoDup l x d : NoDup (map fst l) -> NoDup (map fst (or_insert l x d)).
Proof.
  intros Hd. unfold or_insert. destruct (tbf_mem x l) eqn:E; auto.
  apply tbf_mem_false in E. rewrite map_app. cbn. apply NoDup_app_one; auto.
Qed.
Lemma or_insert_mem l x d : In x (map fst (or_insert l x d)).
Proof.
  unfold or_insert. destruct (tbf_mem x l) eqn:E.
  - apply tbf_mem_In; auto.
  - rewrite map_app, in_app_iff. right. left. reflexivity.
Qed.

Lemma enqueue_fold_In (h : peer) (d : N) new l e :
  In e (fold_left (fun l x => or_insert l (x, h) d) new l) ->
  In e l \/ exists x, In x new /\ e = ((x, h), d).
Proof.
  revert l. induction new as [|y r IH]; cbn; intros l He; auto.
  apply IH in He. destruct He as [He|(x & Hx & ->)].
  - apply or_insert_In in He. destruct He as [He|[_ ->]]; eauto.
  - eauto.
Qed.
Lemma enqueue_fold_keep (h : peer) (d : N) new l e :
  In e l -> In e (fold_left (fun l x => or_insert l (x, h) d) new l).
Proof.
  revert l. induction new as [|y r IH]; cbn; intros l He; auto.
  apply IH. apply or_insert_In. auto.
Qed.
Lemma enqueue_fold_keys_keep (h : peer) (d : N) new l k :
  In k (map fst l) -> In k (map fst (fold_left (fun l x => or_insert l (x, h) d) new l)).
Proof.
  intros Hk. apply in_map_iff in Hk. destruct Hk as (e & <- & He).
  apply in_map. apply enqueue_fold_keep. auto.
Qed.
Lemma enqueue_fold_queued (h : peer) (d : N) new l x :
  In x new -> In (x, h) (map fst (fold_left (fun l x => or_insert l (x, h) d) new l)).
Proof.
  revert l. induction new as [|y r IH]; cbn; intros l Hx; [contradiction|].
  destruct Hx as [Hx|Hx].
  - subst. apply enqueue_fold_keys_keep. apply or_insert_mem.
  - apply IH; auto.
Qed.
Lemma enqueue_fold_NoDup (h : peer) (d : N) new l :
  NoDup (map fst l) -> NoDup (map fst (fold_left (fun l x => or_insert l (x, h) d) new l)).
Proof.
  revert l. induction new as [|y r IH]; cbn; intros l Hd; auto.
  apply IH. apply or_insert_NoDup; auto.
Qed.

(* ---------------------------------------------------------------- prune *)
Lemma og_expired_iff s e : og_expired s e = true <-> expired s e.
Proof. unfold og_expired, expired, og_deadline. apply N.ltb_lt. Qed.
Lemma failed_holders_In s p :
  In p (failed_holders s) <-> exists e, In e (ongoing s) /\ expired s e /\ og_holder e = p.
Proof.
  unfold failed_holders. rewrite in_map_iff. split.
  - intros (e & Hp & He). apply filter_In in He. destruct He as [He Hx].
    exists e. rewrite <- og_expired_iff. auto.
  - intros (e & He & Hx & Hp). exists e. split; auto. apply filter_In. rewrite og_expired_iff. auto.
Qed.
Lemma prune_og s e :
  In e (ongoing (fst (prune s))) <-> In e (ongoing s) /\ ~ expired s e.
Proof.
  unfold prune; cbn [fst ongoing]. rewrite filter_In, negb_true_iff, <- og_expired_iff.
  destruct (og_expired s e); intuition congruence.
Qed.
Lemma prune_tbf s e :
  In e (tbf (fst (prune s))) <-> In e (tbf s) /\ ~ In (kth_holder (fst e)) (failed_holders s).
Proof.
  unfold prune; cbn [fst tbf]. rewrite filter_In, negb_true_iff, <- peer_in_In.
  destruct (peer_in _ _); intuition congruence.
Qed.
Lemma prune_limits s :
  range (fst (prune s)) = range s /\ farthest (fst (prune s)) = farthest s /\ now (fst (prune s)) = now s.
Proof. unfold prune; cbn. auto. Qed.
Lemma prune_Wf s : Wf s -> Wf (fst (prune s)).
Proof. intros [H1 H2]. split; unfold prune; cbn [fst tbf ongoing]; apply NoDup_map_filter; auto. Qed.
Lemma prune_events s :
  (failed_holders s = [] /\ snd (prune s) = []) \/
  (failed_holders s <> [] /\ snd (prune s) = [failed_holders s]).
Proof. unfold prune; cbn [snd]. destruct (failed_holders s); [left|right]; split; auto; discriminate. Qed.
Lemma filter_all {A} (p : A -> bool) l : (forall x, In x l -> p x = true) -> filter p l = l.
Proof.
  induction l as [|x r IH]; cbn; auto. intros H. rewrite (H x (or_introl eq_refl)). f_equal. apply IH.
  intros y Hy. apply H. right; auto.
Qed.
Lemma filter_none {A} (p : A -> bool) l : (forall x, In x l -> p x = false) -> filter p l = [].
Proof.
  induction l as [|x r IH]; cbn; auto. intros H. rewrite (H x (or_introl eq_refl)). apply IH.
  intros y Hy. apply H. right; auto.
Qed.
Lemma prune_no_expired s :
  (forall e, In e (ongoing s) -> ~ expired s e) ->
  tbf (fst (prune s)) = tbf s /\ ongoing (fst (prune s)) = ongoing s /\ snd (prune s) = [].
Proof.
  intros H.
  assert (Hx : forall e, In e (ongoing s) -> og_expired s e = false).
  { intros e He. destruct (og_expired s e) eqn:E; auto. apply og_expired_iff in E. exfalso. apply (H e); auto. }
  assert (Hf : failed_holders s = []).
  { unfold failed_holders. rewrite (filter_none _ _ Hx). reflexivity. }
  unfold prune. rewrite Hf. cbn [fst snd tbf ongoing]. split; [|split; auto].
  - apply filter_all. intros x _. reflexivity.
  - apply filter_all. intros x Hin. rewrite (Hx x Hin). reflexivity.
Qed.

(* ---------------------------------------------------------------- add_keys_pre, decomposed *)
Definition ak_new (s : state) (h : peer) (inc : list kt) (held : held_map) : list kt :=
  first_pass s h inc held.
Definition ak_s1 (s : state) (held : held_map) : state := remove_stored s held.

Lemma add_keys_pre_unfold s h inc held :
  add_keys_pre s h inc held =
  let '(s2, fast, new2) := fast_path (remove_stored s held) h (first_pass s h inc held) in
  (enqueue (expire_pending s2) h (range_filter (expire_pending s2) new2), fast).
Proof. unfold add_keys_pre. destruct (fast_path _ _ _) as [[s2 fast] new2]. reflexivity. Qed.

Lemma first_pass_In s h inc held x :
  In x (first_pass s h inc held) <->
  In x inc /\ is_held held (fst x) = false /\ ~ In (x, h) (map fst (tbf s)) /\
  (forall f, farthest s = Some f -> kdist (fst x) <= f).
Proof.
  unfold first_pass, pass_ok. rewrite filter_In, andb_true_iff, negb_true_iff, orb_false_iff, tbf_mem_false.
  split.
  - intros (Hi & (Hh & Hq) & Hf). repeat split; auto. intros f Hs. rewrite Hs in Hf.
    apply negb_true_iff, N.ltb_ge in Hf. auto.
  - intros (Hi & Hh & Hq & Hf). repeat split; auto. destruct (farthest s) as [f|]; auto.
    apply negb_true_iff, N.ltb_ge. auto.
Qed.

Lemma range_filter_In s new x :
  In x (range_filter s new) <-> In x new /\ (forall r, range s = Some r -> kdist (fst x) <= r).
Proof.
  unfold range_filter. destruct (range s) as [r|].
  - rewrite filter_In, N.leb_le. split.
    + intros [H1 H2]. split; auto. intros r' Hr. inversion Hr; subst; auto.
    + intros [H1 H2]. auto.
  - split; [intros H; split; auto; discriminate | tauto].
Qed.

(* the state reached by add_keys just before next_keys_to_fetch, characterised *)
Record AddPre (s : state) (h : peer) (inc : list kt) (held : held_map) (s1 : state) (fast : list (peer * key)) : Prop := {
  ap_limits : range s1 = range s /\ farthest s1 = farthest s /\ now s1 = now s;
  ap_wf : Wf s -> Wf s1;
  (* queue *)
  ap_tbf_from : forall e, In e (tbf s1) ->
      (In e (tbf s) /\ not_stored held (kth_kt (fst e)) = true /\ now s < snd e) \/
      (exists x, In x (range_filter s (first_pass s h inc held)) /\ length (first_pass s h inc held) <> 1%nat /\
                 e = ((x, h), now s + PENDING_T));
  ap_tbf_keep : forall e, In e (tbf s) -> not_stored held (kth_kt (fst e)) = true -> now s < snd e -> In e (tbf s1);
  ap_tbf_new : forall x, In x (range_filter s (first_pass s h inc held)) ->
      length (first_pass s h inc held) <> 1%nat -> In (x, h) (map fst (tbf s1));
  (* in flight *)
  ap_og_from : forall e, In e (ongoing s1) ->
      (In e (ongoing s) /\ not_stored held (fst e) = true) \/
      (exists x, first_pass s h inc held = [x] /\ e = (x, (h, now s + FETCH_T)) /\ fast = [(h, fst x)] /\
                 ~ (exists e', In e' (ongoing s) /\ not_stored held (fst e') = true /\ fst e' = x));
  ap_og_keep : forall e, In e (ongoing s) -> not_stored held (fst e) = true -> In e (ongoing s1);
  ap_fast : fast = [] \/ exists x, first_pass s h inc held = [x] /\ fast = [(h, fst x)] /\
                                   In (x, (h, now s + FETCH_T)) (ongoing s1) /\
                 ~ (exists e', In e' (ongoing s) /\ not_stored held (fst e') = true /\ fst e' = x);
  ap_single : forall x, first_pass s h inc held = [x] -> In x (map fst (ongoing s1))
}.

Lemma expire_pending_tbf s e : In e (tbf (expire_pending s)) <-> In e (tbf s) /\ now s < snd e.
Proof. unfold expire_pending, set_tbf; cbn [tbf]. rewrite filter_In, N.ltb_lt. tauto. Qed.

Lemma range_filter_ext a b l : range a = range b -> range_filter a l = range_filter b l.
Proof. unfold range_filter. intros ->. reflexivity. Qed.
Lemma range_filter_nil s : range_filter s [] = [].
Proof. unfold range_filter. destruct (range s); reflexivity. Qed.

Lemma add_tail s h held s2 new2 :
  tbf s2 = tbf (remove_stored s held) -> range s2 = range s -> farthest s2 = farthest s -> now s2 = now s ->
  let s4 := enqueue (expire_pending s2) h (range_filter (expire_pending s2) new2) in
  (range s4 = range s /\ farthest s4 = farthest s /\ now s4 = now s) /\
  ongoing s4 = ongoing s2 /\
  (forall e, In e (tbf s4) ->
     (In e (tbf s) /\ not_stored held (kth_kt (fst e)) = true /\ now s < snd e) \/
     (exists x, In x (range_filter s new2) /\ e = ((x, h), now s + PENDING_T))) /\
  (forall e, In e (tbf s) -> not_stored held (kth_kt (fst e)) = true -> now s < snd e -> In e (tbf s4)) /\
  (forall x, In x (range_filter s new2) -> In (x, h) (map fst (tbf s4))) /\
  (NoDup (map fst (tbf s)) -> NoDup (map fst (tbf s4))).
Proof.
  intros Ht Hr Hf Hn s4.
  assert (Hrf : range_filter (expire_pending s2) new2 = range_filter s new2).
  { apply range_filter_ext. unfold expire_pending, set_tbf; cbn [range]. auto. }
  subst s4. rewrite Hrf. unfold enqueue, expire_pending, set_tbf.
  cbn [range farthest now tbf ongoing]. rewrite Ht, Hn. cbn [tbf remove_stored].
  split; [auto|]. split; [auto|]. split; [|split; [|split]].
  - intros e He. apply enqueue_fold_In in He. destruct He as [He|(x & Hx & ->)].
    + left. apply filter_In in He. destruct He as [He Hd]. apply filter_In in He. apply N.ltb_lt in Hd. tauto.
    + right. eauto.
  - intros e He Hs Hd. apply enqueue_fold_keep. apply filter_In. split; [apply filter_In; auto | apply N.ltb_lt; auto].
  - intros x Hx. apply enqueue_fold_queued. auto.
  - intros Hd. apply enqueue_fold_NoDup. apply NoDup_map_filter. apply NoDup_map_filter. auto.
Qed.

Lemma add_keys_pre_spec s h inc held :
  AddPre s h inc held (fst (add_keys_pre s h inc held)) (snd (add_keys_pre s h inc held)).
Proof.
  rewrite add_keys_pre_unfold.
  pose proof (fast_path_case (remove_stored s held) h (first_pass s h inc held)) as HF.
  destruct (fast_path (remove_stored s held) h (first_pass s h inc held)) as [[s2 fast] new2].
  cbn [fst snd].
  assert (Hmem : forall x l, In x (map fst (filter (fun e : og_entry => not_stored held (fst e)) l)) <->
                             exists e', In e' l /\ not_stored held (fst e') = true /\ fst e' = x).
  { intros x l. rewrite in_map_iff. split.
    - intros (e' & Hq & He'). apply filter_In in He'. exists e'. tauto.
    - intros (e' & He' & Hn & Hq). exists e'. split; auto. apply filter_In. auto. }
  assert (Hcommon : tbf s2 = tbf (remove_stored s held) /\ range s2 = range s /\ farthest s2 = farthest s /\ now s2 = now s).
  { inversion HF; subst; cbn; auto. }
  destruct Hcommon as (Ht & Hr & Hf & Hn).
  pose proof (add_tail s h held s2 new2 Ht Hr Hf Hn) as HT. cbv zeta in HT.
  destruct HT as (TL & TO & TF & TK & TN & TD).
  set (s4 := enqueue (expire_pending s2) h (range_filter (expire_pending s2) new2)) in *.
  inversion HF as [x Hnew Hocc Hs2 Hfast Hnew2 | x Hnew Hvac Hs2 Hfast Hnew2 | Hlen Hs2 Hfast Hnew2].
  - (* single survivor, already in flight *)
    subst s2 fast new2. rewrite range_filter_nil in *.
    constructor.
    + exact TL.
    + intros [W1 W2]. split; [apply TD; auto|]. rewrite TO. cbn [ongoing remove_stored]. apply NoDup_map_filter; auto.
    + intros e He. destruct (TF e He) as [H|(y & [] & _)]. left; auto.
    + exact TK.
    + intros y Hy Hl. rewrite Hnew in Hl. cbn in Hl. lia.
    + intros e He. rewrite TO in He. left. apply remove_stored_og; auto.
    + intros e He Hs. rewrite TO. apply remove_stored_og; auto.
    + left; auto.
    + intros y Hy. rewrite Hnew in Hy. inversion Hy; subst. rewrite TO. exact Hocc.
  - (* single survivor, vacant: fetched at once *)
    subst fast new2. rewrite range_filter_nil in *.
    assert (Ho : ongoing s4 = ongoing (remove_stored s held) ++ [(x, (h, now s + FETCH_T))]).
    { rewrite TO, <- Hs2. cbn [ongoing set_ongoing now remove_stored]. reflexivity. }
    constructor.
    + exact TL.
    + intros [W1 W2]. split; [apply TD; auto|]. rewrite Ho, map_app. cbn [map fst]. apply NoDup_app_one; auto.
      cbn [ongoing remove_stored]. apply NoDup_map_filter; auto.
    + intros e He. destruct (TF e He) as [H|(y & [] & _)]. left; auto.
    + exact TK.
    + intros y Hy Hl. rewrite Hnew in Hl. cbn in Hl. lia.
    + intros e He. rewrite Ho in He. apply in_app_iff in He. destruct He as [He|[He|[]]].
      * left. apply remove_stored_og; auto.
      * right. exists x. subst e. repeat split; auto.
        intros Hex. apply Hvac. cbn [ongoing remove_stored]. apply Hmem. exact Hex.
    + intros e He Hs. rewrite Ho. apply in_app_iff. left. apply remove_stored_og; auto.
    + right. exists x. split; [auto|]. split; [auto|]. split.
      * rewrite Ho. apply in_app_iff. right. left. reflexivity.
      * intros Hex. apply Hvac. cbn [ongoing remove_stored]. apply Hmem. exact Hex.
    + intros y Hy. rewrite Hnew in Hy. inversion Hy; subst. rewrite Ho, map_app, in_app_iff. right. left. reflexivity.
  - (* zero or several survivors: range filter and enqueue *)
    subst s2 fast new2.
    constructor.
    + exact TL.
    + intros [W1 W2]. split; [apply TD; auto|]. rewrite TO. cbn [ongoing remove_stored]. apply NoDup_map_filter; auto.
    + intros e He. destruct (TF e He) as [H|(y & Hy & ->)]; [left; auto|]. right. exists y. auto.
    + exact TK.
    + intros y Hy _. apply TN; auto.
    + intros e He. rewrite TO in He. left. apply remove_stored_og; auto.
    + intros e He Hs. rewrite TO. apply remove_stored_og; auto.
    + left; auto.
    + intros y Hy. rewrite Hy in Hlen. cbn in Hlen. lia.
Qed.

(* ---------------------------------------------------------------- step_ok, unfolded *)
Lemma settle_sched pre o s1 fast :
  pre_prune pre o = Some (s1, fast) ->
  settle pre o = (fst (prune s1), fast, snd (prune s1), true).
Proof. intros H. unfold settle. rewrite H. destruct (prune s1); reflexivity. Qed.

Lemma firstn_skipn_split {A} (fast r : list A) :
  firstn (length fast) r = fast <-> exists batch, r = fast ++ batch.
Proof.
  split.
  - intros H. exists (skipn (length fast) r). rewrite <- H at 1. symmetry. apply firstn_skipn.
  - intros (b & ->). rewrite firstn_app, Nat.sub_diag, firstn_all. cbn. apply app_nil_r.
Qed.

Lemma step_ok_sched pre o out post s1 fast :
  pre_prune pre o = Some (s1, fast) ->
  (step_ok pre o out post = true <->
   events_eqb (snd (prune s1)) (events out) = true /\
   exists batch, ret out = fast ++ batch /\ SchedSpec (fst (prune s1)) batch post).
Proof.
  intros H. unfold step_ok. rewrite (settle_sched _ _ _ _ H).
  rewrite !andb_true_iff, pk_list_eqb_eq, sched_ok_spec, firstn_skipn_split.
  split.
  - intros (He & (b & Hb) & Hs). split; auto. exists b. split; auto.
    rewrite Hb, skipn_app, Nat.sub_diag, skipn_all in Hs. cbn in Hs. exact Hs.
  - intros (He & b & Hb & Hs). split; auto. split; [eauto|].
    rewrite Hb, skipn_app, Nat.sub_diag, skipn_all. cbn. exact Hs.
Qed.

Lemma step_ok_nosched pre o out post :
  pre_prune pre o = None ->
  (step_ok pre o out post = true <->
   events out = [] /\ ret out = [] /\ st_equiv (mid_of pre o) post = true).
Proof.
  intros H. unfold step_ok, mid_of, settle. rewrite H. cbn [fst snd].
  rewrite !andb_true_iff, events_eqb_nil_l, pk_list_eqb_eq. tauto.
Qed.

Lemma pre_prune_schedules pre o : (exists r, pre_prune pre o = Some r) <-> schedules o = true.
Proof. destruct o; cbn; split; try discriminate; eauto; intros (r0 & Hr); discriminate. Qed.

(* ---------------------------------------------------------------- traces *)
Lemma run_ok_app s tr1 tr2 :
  run_ok s (tr1 ++ tr2) = run_ok s tr1 && run_ok (last_state s tr1) tr2.
Proof.
  revert s. induction tr1 as [|[[o out] post] r IH]; intros s; cbn; auto.
  rewrite IH. apply andb_assoc.
Qed.
Lemma last_state_app s tr1 tr2 : last_state s (tr1 ++ tr2) = last_state (last_state s tr1) tr2.
Proof. revert s. induction tr1 as [|[[o out] post] r IH]; intros s; cbn; auto. Qed.

Lemma reachable_init : reachable init.
Proof. exists []. split; reflexivity. Qed.
Lemma reachable_step pre o out post :
  reachable pre -> step_ok pre o out post = true -> reachable post.
Proof.
  intros (tr & Hv & Hl) Hs. exists (tr ++ [(o, out, post)]). split.
  - unfold valid in *. rewrite run_ok_app, Hv, Hl. cbn. rewrite Hs. reflexivity.
  - rewrite last_state_app. reflexivity.
Qed.
Lemma reachable_ind (P : state -> Prop) :
  P init ->
  (forall pre o out post, reachable pre -> P pre -> step_ok pre o out post = true -> P post) ->
  forall s, reachable s -> P s.
Proof.
  intros H0 HS s (tr & Hv & Hl). revert s Hv Hl.
  induction tr as [|[[o out] post] r IH] using rev_ind; intros s Hv Hl.
  - cbn in Hl. subst; auto.
  - unfold valid in Hv. rewrite run_ok_app in Hv. apply andb_true_iff in Hv. destruct Hv as [Hv Hst].
    rewrite last_state_app in Hl. cbn in Hl, Hst. subst s. rewrite andb_true_r in Hst.
    apply (HS (last_state init r) o out post).
    + exists r. split; auto.
    + apply IH; auto.
    + exact Hst.
Qed.

Lemma init_Wf : Wf init.
Proof. split; constructor. Qed.
Lemma step_post_Wf pre o out post : step_ok pre o out post = true -> Wf post.
Proof.
  intros H. destruct (pre_prune pre o) as [[s1 fast]|] eqn:E.
  - apply (step_ok_sched _ _ _ _ _ _ E) in H. destruct H as (_ & b & _ & HS). apply HS.
  - apply (step_ok_nosched _ _ _ _ E) in H. destruct H as (_ & _ & H). apply st_equiv_spec in H. tauto.
Qed.
Lemma reachable_Wf s : reachable s -> Wf s.
Proof.
  apply reachable_ind; [apply init_Wf|]. intros. eapply step_post_Wf; eauto.
Qed.

(* ---------------------------------------------------------------- in-flight entries before pruning *)
(* the entry the fast path puts in flight *)
Definition IsFast (pre : state) (o : op) (fast : list (peer * key)) (e : og_entry) : Prop :=
  exists h inc held x, o = AddKeys h inc held /\ first_pass pre h inc held = [x] /\
    e = (x, (h, now pre + FETCH_T)) /\ fast = [(h, fst x)] /\
    ~ (exists e', In e' (ongoing pre) /\ op_completes o e' = false /\ fst e' = x).

Lemma pre_prune_limits pre o s1 fast :
  pre_prune pre o = Some (s1, fast) ->
  range s1 = range pre /\ farthest s1 = farthest pre /\ now s1 = now pre.
Proof.
  destruct o; cbn; intros H; inversion H; subst; cbn; auto.
  pose proof (add_keys_pre_spec pre holder inc held) as A. rewrite H1 in A. cbn in A. apply A.
Qed.

Lemma pre_prune_Wf pre o s1 fast : pre_prune pre o = Some (s1, fast) -> Wf pre -> Wf s1.
Proof.
  destruct o; cbn; intros H W; inversion H; subst; auto.
  - pose proof (add_keys_pre_spec pre holder inc held) as A. rewrite H1 in A. cbn in A. apply A; auto.
  - destruct W as [W1 W2]. split; unfold notify_put_pre; cbn [tbf ongoing]; apply NoDup_map_filter; auto.
  - destruct W as [W1 W2]. split; unfold notify_early_pre; cbn [tbf ongoing]; apply NoDup_map_filter; auto.
Qed.

Lemma pre_prune_og pre o s1 fast :
  pre_prune pre o = Some (s1, fast) ->
  forall e, In e (ongoing s1) <-> (In e (ongoing pre) /\ op_completes o e = false) \/ IsFast pre o fast e.
Proof.
  destruct o; cbn [pre_prune]; intros H; inversion H; subst; clear H.
  - (* AddKeys *)
    pose proof (add_keys_pre_spec pre holder inc held) as A. rewrite H1 in A. cbn [fst snd] in A.
    intros e. cbn [op_completes]. split.
    + intros He. destruct (ap_og_from _ _ _ _ _ _ A e He) as [[H2 H3]|(x & Hx & -> & Hf & Hn)].
      * left. rewrite H3. auto.
      * right. exists holder, inc, held, x. repeat split; auto.
        intros (e' & He' & Hc & Hq). apply Hn. exists e'. cbn [op_completes] in Hc.
        apply negb_false_iff in Hc. auto.
    + intros [[H2 H3]|(h' & inc' & held' & x & Ho & Hx & -> & Hf & Hn)].
      * apply negb_false_iff in H3. eapply ap_og_keep; eauto.
      * inversion Ho; subst h' inc' held'.
        destruct (ap_fast _ _ _ _ _ _ A) as [Hnil|(y & Hy & Hfy & Hin & _)].
        -- rewrite Hnil in Hf. discriminate.
        -- rewrite Hx in Hy. inversion Hy; subst y. exact Hin.
  - (* NextKeys *)
    intros e. cbn [op_completes]. split; [auto|]. intros [[H2 _]|(h' & inc' & held' & x & Ho & _)]; [auto|discriminate].
  - (* NotifyPut *)
    intros e. cbn [op_completes notify_put_pre ongoing]. rewrite filter_In, negb_true_iff. unfold og_key.
    split; [auto|]. intros [H2|(h' & inc' & held' & x & Ho & _)]; [auto|discriminate].
  - (* NotifyEarly *)
    intros e. cbn [op_completes notify_early_pre ongoing]. rewrite filter_In, negb_true_iff.
    split; [auto|]. intros [H2|(h' & inc' & held' & x & Ho & _)]; [auto|discriminate].
Qed.

Lemma IsFast_not_expired pre o fast e s1 :
  IsFast pre o fast e -> now s1 = now pre -> ~ expired s1 e.
Proof.
  intros (h & inc & held & x & _ & _ & -> & _) Hn. unfold expired, og_deadline. cbn. rewrite Hn. lia.
Qed.

(* in-flight entries right before the scheduling loop: the survivors and the fast-path entry *)
Lemma mid_og pre o s1 fast :
  pre_prune pre o = Some (s1, fast) ->
  forall e, In e (ongoing (fst (prune s1))) <-> In e (surviving pre o) \/ IsFast pre o fast e.
Proof.
  intros H e. pose proof (pre_prune_limits _ _ _ _ H) as (_ & _ & Hn).
  assert (Hs : schedules o = true) by (apply (pre_prune_schedules pre o); eauto).
  assert (Hfd : far_drops pre o e = false) by (destruct o; try discriminate; reflexivity).
  rewrite prune_og, (pre_prune_og _ _ _ _ H). unfold surviving. rewrite filter_In.
  unfold op_keeps. rewrite Hs, Hfd. cbn [andb negb]. rewrite andb_true_r, andb_true_iff, !negb_true_iff.
  assert (Hexp : expired s1 e <-> og_expired pre e = true).
  { rewrite og_expired_iff. unfold expired. rewrite Hn. tauto. }
  split.
  - intros [[[H1 H2]|HF] Hx]; [left|right; auto]. repeat split; auto.
    destruct (og_expired pre e) eqn:E; auto. exfalso. apply Hx. apply Hexp. auto.
  - intros [(H1 & H2 & H3)|HF].
    + split; [left; auto|]. rewrite Hexp. congruence.
    + split; [right; auto|]. eapply IsFast_not_expired; eauto.
Qed.
