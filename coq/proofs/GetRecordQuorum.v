(* C05 -- quorum reads: a delivered Ok needs the quorum of distinct responders and the target check
   of the query's configuration; versions of pending queries stay below the quorum. *)
From Coq Require Import List NArith Bool Lia Permutation.
From V Require Import gen.Consts model.GetRecord proofs.GetRecord.
Import ListNotations.
Open Scope N_scope.

(* ------------------------------------------------------------------------------------------ *)
(* at most one in-flight query per key: the iteration order of pending_get_record in cmd.rs     *)
(* cannot matter                                                                               *)

Lemma NoDup_map_inj_in : forall (A B : Type) (f : A -> B) (l : list A) x y,
  NoDup (map f l) -> In x l -> In y l -> f x = f y -> x = y.
Proof.
  induction l as [|z l IH]; intros x y ND Hx Hy E; [contradiction|].
  cbn in ND. inversion ND as [|? ? Hn ND']; subst.
  destruct Hx as [Hx|Hx], Hy as [Hy|Hy]; subst; auto.
  - exfalso. apply Hn. rewrite E. apply in_map. exact Hy.
  - exfalso. apply Hn. rewrite <- E. apply in_map. exact Hx.
Qed.

Lemma one_query_per_key : forall evs x y,
  In x (pending (final evs)) -> In y (pending (final evs)) -> qkey x = qkey y -> x = y.
Proof.
  intros evs x y Hx Hy E. pose proof (reach_sinv _ _ _ (reach_run evs)) as I.
  eapply NoDup_map_inj_in; eauto. apply (si_keys _ I).
Qed.

(* ------------------------------------------------------------------------------------------ *)
(* insert_version                                                                              *)

Definition vcont (v : version) : content := rcont (fst v).

Lemma insert_version_nodup : forall vs r p,
  Forall (fun v => NoDup (snd v)) vs -> Forall (fun v => NoDup (snd v)) (fst (insert_version vs r p)).
Proof.
  induction vs as [|[r0 ps] vs IH]; intros r p H; cbn.
  - constructor; [|constructor]. cbn. constructor; [intros []|constructor].
  - inversion H as [|? ? H1 H2]; subst. destruct (content_eqb (rcont r0) (rcont r)).
    + cbn. constructor; [|exact H2]. cbn in *. destruct (mem p ps) eqn:M; [exact H1|].
      apply NoDup_snoc; [exact H1|]. apply mem_false. exact M.
    + specialize (IH r p H2). destruct (insert_version vs r p) as [rest' n]. cbn in *.
      constructor; assumption.
Qed.

Lemma insert_version_hit : forall vs r p vs' n, insert_version vs r p = (vs', n) ->
  exists r0 ps, In (r0, ps) vs' /\ rcont r0 = rcont r /\ In p ps /\ n = nlen ps.
Proof.
  induction vs as [|[r0 ps] vs IH]; intros r p vs' n H; cbn in H.
  - inversion H; subst. exists r, [p]. repeat split; cbn; auto.
  - destruct (content_eqb (rcont r0) (rcont r)) eqn:E.
    + inversion H; subst. apply content_eqb_eq in E.
      exists r0, (if mem p ps then ps else ps ++ [p]). repeat split; cbn; auto.
      destruct (mem p ps) eqn:M; [apply mem_In; exact M | apply in_or_app; right; left; reflexivity].
    + destruct (insert_version vs r p) as [rest' n'] eqn:IV. inversion H; subst.
      destruct (IH r p rest' n IV) as (r1 & ps1 & A & B & C & D).
      exists r1, ps1. repeat split; auto. right. exact A.
Qed.

(* every version after the insertion is an old one, or the one that was hit *)
Lemma insert_version_others : forall vs r p r1 ps1, In (r1, ps1) (fst (insert_version vs r p)) ->
  In (r1, ps1) vs \/
  (rcont r1 = rcont r /\ nlen ps1 = snd (insert_version vs r p) /\
   forall p', In p' ps1 -> p' = p \/ exists ps0, In (r1, ps0) vs /\ In p' ps0).
Proof.
  induction vs as [|[r0 ps] vs IH]; intros r p r1 ps1 H; cbn in *.
  - destruct H as [H|[]]. inversion H; subst. right. repeat split; auto.
    intros p' [Hp|[]]. left. auto.
  - destruct (content_eqb (rcont r0) (rcont r)) eqn:E.
    + cbn in H. destruct H as [H|H]; [|left; right; exact H].
      inversion H; subst. apply content_eqb_eq in E. right. cbn. repeat split; auto.
      intros p' Hp. destruct (mem p ps) eqn:M.
      * right. exists ps. split; [left; reflexivity | exact Hp].
      * apply in_app_or in Hp. destruct Hp as [Hp|[Hp|[]]]; [|left; auto].
        right. exists ps. split; [left; reflexivity | exact Hp].
    + specialize (IH r p r1 ps1). destruct (insert_version vs r p) as [rest' n']. cbn in *.
      destruct H as [H|H]; [left; left; exact H|].
      destruct (IH H) as [A|(A & B & C)]; [left; right; exact A|].
      right. repeat split; auto. intros p' Hp. destruct (C p' Hp) as [D|(ps0 & D1 & D2)]; [left; exact D|].
      right. exists ps0. split; [right; exact D1 | exact D2].
Qed.

Lemma insert_version_contents : forall vs r p,
  map vcont (fst (insert_version vs r p)) = map vcont vs \/
  (map vcont (fst (insert_version vs r p)) = map vcont vs ++ [rcont r] /\ ~ In (rcont r) (map vcont vs)).
Proof.
  induction vs as [|[r0 ps] vs IH]; intros r p; cbn.
  - right. split; [reflexivity | intros []].
  - destruct (content_eqb (rcont r0) (rcont r)) eqn:E.
    + left. reflexivity.
    + specialize (IH r p). destruct (insert_version vs r p) as [rest' n']. cbn in *.
      destruct IH as [A|[A B]].
      * left. unfold vcont at 1 3. cbn. f_equal. exact A.
      * right. split; [unfold vcont at 1 3; cbn; f_equal; exact A|].
        intros [H|H]; [|apply B; exact H].
        unfold vcont in H. cbn in H. rewrite H, content_eqb_refl in E. discriminate.
Qed.

Lemma insert_version_old_kept : forall vs r p r1 ps1, In (r1, ps1) vs ->
  exists ps1', In (r1, ps1') (fst (insert_version vs r p)) /\ (forall x, In x ps1 -> In x ps1').
Proof.
  induction vs as [|[r0 ps] vs IH]; intros r p r1 ps1 H; [contradiction|]. cbn.
  destruct (content_eqb (rcont r0) (rcont r)) eqn:E.
  - cbn. destruct H as [H|H].
    + inversion H; subst. exists (if mem p ps1 then ps1 else ps1 ++ [p]). split; [left; reflexivity|].
      intros x Hx. destruct (mem p ps1); [exact Hx | apply in_or_app; left; exact Hx].
    + exists ps1. split; [right; exact H | auto].
  - specialize (IH r p r1 ps1). destruct (insert_version vs r p) as [rest' n']. cbn in *.
    destruct H as [H|H].
    + exists ps1. split; [left; exact H | auto].
    + destruct (IH H) as (ps1' & A & B). exists ps1'. split; [right; exact A | exact B].
Qed.

(* ------------------------------------------------------------------------------------------ *)
(* how one step changes the pending queries                                                     *)

Definition same_query (x' x : query) : Prop :=
  qid x' = qid x /\ qkey x' = qkey x /\ qcfg x' = qcfg x.

(* Cmd: every pending query afterwards is the new one or an old one, possibly with one more caller *)
Lemma cmd_pending : forall s key c x', sinv s -> In x' (pending (handle_cmd s key c)) ->
  (x' = {| qid := next_qid s; qkey := key; qcallers := [next_cid s]; qvers := []; qcfg := c;
                        qholders := cholders c |} /\
   join_query key (next_cid s) (pending s) = None) \/
  (exists x, In x (pending s) /\ same_query x' x /\ qvers x' = qvers x /\
     (qcallers x' = qcallers x \/ (qcallers x' = qcallers x ++ [next_cid s] /\ qkey x = key))).
Proof.
  intros s key c x' I H. unfold handle_cmd in H.
  destruct (join_query key (next_cid s) (pending s)) as [p'|] eqn:J; cbn in H.
  - right. destruct (join_query_some _ _ _ _ J) as (l1 & x & l2 & A & B & C & D). subst p'.
    apply in_app_or in H. destruct H as [H|[H|H]].
    + exists x'. rewrite A. split; [apply in_or_app; left; exact H|]. unfold same_query. auto.
    + subst x'. exists x. rewrite A. split; [apply in_or_app; right; left; reflexivity|].
      unfold same_query. cbn. auto 6.
    + exists x'. rewrite A. split; [apply in_or_app; right; right; exact H|]. unfold same_query. auto.
  - apply in_app_or in H. destruct H as [H|[H|[]]].
    + right. exists x'. unfold same_query. auto 6.
    + left. split; [symmetry; exact H | reflexivity].
Qed.

(* any other event: every pending query afterwards is an old one, unchanged except that a Found
   below the quorum has inserted its reply *)
Lemma step_pending : forall s e x', sinv s -> (forall k c, e <> Cmd k c) -> In x' (pending (step_state s e)) ->
  exists x, In x (pending s) /\ same_query x' x /\ qcallers x' = qcallers x /\
    (qvers x' = qvers x \/
     exists q p r, e = Found q p r /\ qid x = q /\ find_query q (pending s) = Some x /\
       qvers x' = fst (insert_version (qvers x) r (peer_of p)) /\
       snd (insert_version (qvers x) r (peer_of p)) < quorum_value (cq (qcfg x))).
Proof.
  intros s e x' I NC H. unfold step_state in H.
  assert (KEEP : forall l1 x l2, pending s = l1 ++ x :: l2 -> In x' (l1 ++ l2) ->
                 exists x0, In x0 (pending s) /\ same_query x' x0 /\ qcallers x' = qcallers x0 /\ qvers x' = qvers x0).
  { intros l1 x l2 A Hin. exists x'. rewrite A. split; [|unfold same_query; auto].
    apply in_app_or in Hin. apply in_or_app. destruct Hin; [left | right; right]; assumption. }
  assert (SAME : In x' (pending s) ->
                 exists x0, In x0 (pending s) /\ same_query x' x0 /\ qcallers x' = qcallers x0 /\ qvers x' = qvers x0).
  { intro Hin. exists x'. unfold same_query. auto. }
  destruct e as [key c|q p r|q|q|q|q|c]; cbn [step fst] in H.
  - exfalso. eapply NC. reflexivity.
  - unfold accumulate in H. destruct (find_query q (pending s)) as [x|] eqn:F.
    2:{ destruct (SAME H) as (x0 & A & B & C & D). exists x0. auto. }
    destruct (insert_version (qvers x) r (peer_of p)) as [vers' n] eqn:IV.
    destruct (find_decomp _ _ _ I F) as (l1 & l2 & A & B & C & D).
    destruct (quorum_value (cq (qcfg x)) <=? n) eqn:Q.
    + destruct (deliver _ _ _) as [o rt]. cbn in H. rewrite C in H.
      destruct (KEEP _ _ _ A H) as (x0 & A0 & B0 & C0 & D0). exists x0. auto.
    + cbn in H. rewrite D in H by (cbn; exact B). apply in_app_or in H. destruct H as [H|[H|H]].
      * destruct (KEEP l1 x l2 A) as (x0 & A0 & B0 & C0 & D0); [apply in_or_app; left; exact H|]. exists x0. auto.
      * subst x'. exists x. rewrite A at 1. split; [apply in_or_app; right; left; reflexivity|].
        unfold same_query. cbn. repeat split; auto. right. exists q, p, r. rewrite IV. cbn.
        apply N.leb_gt in Q. auto 6.
      * destruct (KEEP l1 x l2 A) as (x0 & A0 & B0 & C0 & D0); [apply in_or_app; right; exact H|]. exists x0. auto.
  - unfold finished in H. destruct (find_query q (pending s)) as [x|] eqn:F.
    2:{ destruct (SAME H) as (x0 & A & B & C & D). exists x0. auto. }
    destruct (find_decomp _ _ _ I F) as (l1 & l2 & A & B & C & D).
    destruct (deliver _ _ _) as [o rt]. cbn in H. rewrite C in H.
    destruct (KEEP _ _ _ A H) as (x0 & A0 & B0 & C0 & D0). exists x0. auto.
  - unfold err_not_found in H. destruct (find_query q (pending s)) as [x|] eqn:F.
    2:{ destruct (SAME H) as (x0 & A & B & C & D). exists x0. auto. }
    destruct (find_decomp _ _ _ I F) as (l1 & l2 & A & B & C & D).
    destruct (deliver _ _ _) as [o rt]. cbn in H. rewrite C in H.
    destruct (KEEP _ _ _ A H) as (x0 & A0 & B0 & C0 & D0). exists x0. auto.
  - unfold err_not_found in H. destruct (find_query q (pending s)) as [x|] eqn:F.
    2:{ destruct (SAME H) as (x0 & A & B & C & D). exists x0. auto. }
    destruct (find_decomp _ _ _ I F) as (l1 & l2 & A & B & C & D).
    destruct (deliver _ _ _) as [o rt]. cbn in H. rewrite C in H.
    destruct (KEEP _ _ _ A H) as (x0 & A0 & B0 & C0 & D0). exists x0. auto.
  - unfold err_timeout in H. destruct (find_query q (pending s)) as [x|] eqn:F.
    2:{ destruct (SAME H) as (x0 & A & B & C & D). exists x0. auto. }
    destruct (find_decomp _ _ _ I F) as (l1 & l2 & A & B & C & D).
    destruct (deliver _ _ _) as [o rt]. cbn in H. rewrite C in H.
    destruct (KEEP _ _ _ A H) as (x0 & A0 & B0 & C0 & D0). exists x0. auto.
  - cbn in H. destruct (SAME H) as (x0 & A & B & C & D). exists x0. auto.
Qed.

(* ------------------------------------------------------------------------------------------ *)
(* (c) every version of every pending query has fewer responders than the quorum               *)

Definition vwf (Q : N) (v : version) : Prop := NoDup (snd v) /\ nlen (snd v) < Q /\ snd v <> [].

Definition qwf (x : query) : Prop :=
  Forall (vwf (quorum_value (cq (qcfg x)))) (qvers x) /\ NoDup (map vcont (qvers x)).

Definition vinv (s : state) : Prop := forall x, In x (pending s) -> qwf x.

Lemma insert_version_wf : forall Q vs r p,
  Forall (vwf Q) vs -> NoDup (map vcont vs) -> snd (insert_version vs r p) < Q ->
  Forall (vwf Q) (fst (insert_version vs r p)) /\ NoDup (map vcont (fst (insert_version vs r p))).
Proof.
  intros Q vs r p W ND Hn. split.
  - apply Forall_forall. intros [r1 ps1] Hin.
    assert (NDall : Forall (fun v => NoDup (snd v)) (fst (insert_version vs r p))).
    { apply insert_version_nodup. apply Forall_forall. intros v Hv.
      rewrite Forall_forall in W. apply (W v Hv). }
    rewrite Forall_forall in NDall. specialize (NDall _ Hin). cbn in NDall.
    destruct (insert_version_others _ _ _ _ _ Hin) as [Old|(A & B & C)].
    + rewrite Forall_forall in W. apply (W _ Old).
    + unfold vwf. cbn. split; [exact NDall|]. split; [rewrite B; exact Hn|].
      intro E. subst ps1.
      destruct (insert_version vs r p) as [vs' n] eqn:IV. cbn in *.
      destruct (insert_version_hit _ _ _ _ _ IV) as (r0 & ps & A1 & A2 & A3 & A4).
      rewrite A4 in B. unfold nlen in B. destruct ps; [contradiction | cbn in B; lia].
  - destruct (insert_version_contents vs r p) as [E|[E N]]; rewrite E; [exact ND|].
    apply NoDup_snoc; assumption.
Qed.

Ltac noncmd I H x A B1 B2 B3 C D :=
  match type of H with In ?x' (pending (step_state ?s ?e)) =>
    let NC := fresh "NC" in
    assert (NC : forall k c, e <> Cmd k c) by (intros; discriminate);
    destruct (step_pending s e x' I NC H) as (x & A & (B1 & B2 & B3) & C & D) end.

Lemma vinv_step : forall s e, sinv s -> vinv s -> vinv (step_state s e).
Proof.
  intros s e I V x' H.
  destruct e as [key c|q p r|q|q|q|q|c].
  1:{ unfold step_state in H. cbn in H. destruct (cmd_pending _ _ _ _ I H) as [[E _]|(x & A & (B1 & B2 & B3) & C & D)].
      - subst x'. split; cbn; constructor.
      - specialize (V x A). unfold qwf in *. rewrite C, B3. exact V. }
  all: noncmd I H x A B1 B2 B3 C D;
       specialize (V x A); unfold qwf in *; rewrite B3;
       destruct D as [D|(q0 & p0 & r0 & D1 & D2 & D3 & D4 & D5)]; try (rewrite D; exact V); try discriminate D1.
  rewrite D4. destruct V as [V1 V2]. apply insert_version_wf; assumption.
Qed.

Lemma vinv_init : vinv init.
Proof. intros x []. Qed.

Lemma vinv_final : forall evs, vinv (final evs).
Proof.
  intro evs. induction evs as [|e evs IH] using rev_ind.
  - apply vinv_init.
  - rewrite final_snoc. apply vinv_step; [|exact IH]. apply (reach_sinv _ _ _ (reach_run evs)).
Qed.

Lemma below_quorum_lemma : forall evs x r ps,
  In x (pending (final evs)) -> In (r, ps) (qvers x) ->
  NoDup ps /\ nlen ps < quorum_value (cq (qcfg x)) /\ ps <> [].
Proof.
  intros evs x r ps Hx Hv. destruct (vinv_final evs x Hx) as [W _].
  rewrite Forall_forall in W. apply (W _ Hv).
Qed.

Lemma versions_distinct_lemma : forall evs x, In x (pending (final evs)) -> NoDup (map vcont (qvers x)).
Proof. intros evs x Hx. apply (vinv_final evs x Hx). Qed.

(* the branch of handle_get_record_finished that returns Ok without the target check is dead *)
Lemma finished_outs : forall evs q c o, In (c, o) (step_outs (final evs) (Finished q)) ->
  o = ENotFound \/ o = EClosed \/ (exists r e g, o = ENotEnough r e g /\ g < e) \/
  (exists vs, o = ESplit vs /\ (2 <= length vs)%nat).
Proof.
  intros evs q c o H. unfold step_outs in H. cbn in H. unfold finished in H.
  destruct (find_query q (pending (final evs))) as [x|] eqn:F; [|contradiction].
  destruct (find_query_split _ _ _ F) as (l1 & l2 & A & _ & _).
  assert (Hx : In x (pending (final evs))) by (rewrite A; apply in_or_app; right; left; reflexivity).
  match type of H with context [deliver ?d ?cs ?res] =>
    pose proof (deliver_in d cs res c o) as DI; destruct (deliver d cs res) as [oo rt] end.
  cbn in H. destruct (DI H) as (_ & _ & [E|E]); [|right; left; exact E]. subst o.
  destruct (qvers x) as [|[r ps] [|v2 rest]] eqn:QV.
  - left. reflexivity.
  - destruct (below_quorum_lemma evs x r ps Hx) as (_ & LT & _); [rewrite QV; left; reflexivity|].
    apply N.leb_gt in LT. rewrite LT. right. right. left. exists r, (quorum_value (cq (qcfg x))), (nlen ps).
    split; [reflexivity | apply N.leb_gt; exact LT].
  - right. right. right. eexists. split; [reflexivity | cbn; lia].
Qed.

Lemma finished_never_ok_lemma : forall evs q c r, ~ In (c, OOk r) (step_outs (final evs) (Finished q)).
Proof.
  intros evs q c r H. apply finished_outs in H.
  destruct H as [H|[H|[(? & ? & ? & H & _)|(? & H & _)]]]; discriminate.
Qed.

Lemma timeout_outs : forall evs q c o, In (c, o) (step_outs (final evs) (ErrTimeout q)) ->
  o = ETimeout \/ o = EClosed.
Proof.
  intros evs q c o H. unfold step_outs in H. cbn in H. unfold err_timeout in H.
  destruct (find_query q (pending (final evs))) as [x|] eqn:F; [|contradiction].
  destruct (find_query_split _ _ _ F) as (l1 & l2 & A & _ & _).
  assert (Hx : In x (pending (final evs))) by (rewrite A; apply in_or_app; right; left; reflexivity).
  match type of H with context [deliver ?d ?cs ?res] =>
    pose proof (deliver_in d cs res c o) as DI; destruct (deliver d cs res) as [oo rt] end.
  cbn in H. destruct (DI H) as (_ & _ & [E|E]); [|right; exact E]. subst o. left.
  destruct (qvers x) as [|[r ps] [|v2 rest]] eqn:QV; try reflexivity.
  destruct (below_quorum_lemma evs x r ps Hx) as (_ & LT & _); [rewrite QV; left; reflexivity|].
  apply N.leb_gt in LT. rewrite LT. reflexivity.
Qed.

Lemma not_found_outs : forall s q c o,
  In (c, o) (step_outs s (ErrNotFound q)) \/ In (c, o) (step_outs s (ErrQuorumFailed q)) ->
  o = ENotFound \/ o = EClosed.
Proof.
  intros s q c o H. unfold step_outs in H. cbn in H. unfold err_not_found in H.
  assert (H' : In (c, o) (snd (fst (match find_query q (pending s) with
          | Some x => let (o0, rt) := deliver (dead s) (qcallers x) ENotFound in
                      (set_pending s (remove_query q (pending s)), o0, rt)
          | None => (s, [], RDropped) end)))) by (destruct H; exact H).
  clear H. destruct (find_query q (pending s)) as [x|]; [|contradiction].
  pose proof (deliver_in (dead s) (qcallers x) ENotFound c o) as DI.
  destruct (deliver (dead s) (qcallers x) ENotFound) as [oo rt]. cbn in H'.
  destruct (DI H') as (_ & _ & E). exact E.
Qed.

(* ------------------------------------------------------------------------------------------ *)
(* (b) Ok(record) is delivered only by a reply that completes the quorum                         *)

Lemma ok_inversion : forall evs e c r1, In (c, OOk r1) (step_outs (final evs) e) ->
  exists q po x vers' n,
    e = Found q po r1 /\ find_query q (pending (final evs)) = Some x /\
    insert_version (qvers x) r1 (peer_of po) = (vers', n) /\
    quorum_value (cq (qcfg x)) <= n /\ does_target_match (qcfg x) r1 = true /\ In c (qcallers x).
Proof.
  intros evs e c r1 H. destruct e as [key cf|q p r|q|q|q|q|c0].
  - contradiction.
  - unfold step_outs in H. cbn in H. unfold accumulate in H.
    destruct (find_query q (pending (final evs))) as [x|] eqn:F; [|contradiction].
    destruct (insert_version (qvers x) r (peer_of p)) as [vers' n] eqn:IV.
    destruct (quorum_value (cq (qcfg x)) <=? n) eqn:Q; [|contradiction].
    match type of H with context [deliver ?d ?cs ?res] =>
      pose proof (deliver_in d cs res c (OOk r1)) as DI; destruct (deliver d cs res) as [oo rt] end.
    cbn in H. destruct (DI H) as (Hc & _ & [E|E]); [|discriminate].
    destruct (nlen vers' =? 1).
    + unfold checked in E. destruct (does_target_match (qcfg x) r) eqn:T; [|discriminate].
      inversion E; subst r1. exists q, p, x, vers', n. apply N.leb_le in Q. auto 8.
    + destruct (collect_txs vers'); discriminate.
  - exfalso. eapply finished_never_ok_lemma; eauto.
  - apply (fun H => not_found_outs _ q c (OOk r1) (or_introl H)) in H. destruct H; discriminate.
  - apply (fun H => not_found_outs _ q c (OOk r1) (or_intror H)) in H. destruct H; discriminate.
  - apply timeout_outs in H. destruct H; discriminate.
  - contradiction.
Qed.

(* peer p returned content c for query q somewhere in the history *)
Definition replied (evs : list event) (q : N) (p : peer) (c : content) : Prop :=
  exists po r, In (Found q po r) evs /\ peer_of po = p /\ rcont r = c.

Lemma replied_snoc : forall evs e q p c, replied evs q p c -> replied (evs ++ [e]) q p c.
Proof. intros evs e q p c (po & r & A & B & C). exists po, r. split; [apply in_or_app; left; exact A | auto]. Qed.

(* every recorded responder of every pending query did reply with that version's content *)
Definition hinv (evs : list event) : Prop :=
  forall x r0 ps p, In x (pending (final evs)) -> In (r0, ps) (qvers x) -> In p ps ->
    replied evs (qid x) p (rcont r0).

Lemma hinv_all : forall evs, hinv evs.
Proof.
  intro evs. induction evs as [|e evs IH] using rev_ind.
  - intros x r0 ps p [].
  - intros x' r0 ps p Hx Hv Hp. rewrite final_snoc in Hx.
    pose proof (reach_sinv _ _ _ (reach_run evs)) as I.
    destruct e as [key c|q po r|q|q|q|q|c].
    1:{ unfold step_state in Hx. cbn in Hx.
        destruct (cmd_pending _ _ _ _ I Hx) as [[E _]|(x & A & (B1 & B2 & B3) & C & D)].
        - subst x'. contradiction.
        - rewrite C in Hv. rewrite B1. apply replied_snoc. eapply IH; eauto. }
    all: noncmd I Hx x A B1 B2 B3 C D;
         rewrite B1; destruct D as [D|(q0 & p0 & r1 & D1 & D2 & D3 & D4 & D5)];
         try (rewrite D in Hv; apply replied_snoc; eapply IH; eauto); try discriminate D1.
    inversion D1 as [[E1' E2' E3']]; clear D1; subst p0 r1; rewrite <- E1' in D2. rewrite D4 in Hv.
    destruct (insert_version_others _ _ _ _ _ Hv) as [Old|(E1 & E2 & E3)].
    + apply replied_snoc. eapply IH; eauto.
    + destruct (E3 p Hp) as [Ep|(ps0 & F1 & F2)].
      * subst p. exists po, r. split; [apply in_or_app; right; left; rewrite D2; try rewrite E1'; reflexivity|].
        split; [reflexivity | symmetry; exact E1].
      * apply replied_snoc. eapply IH; eauto.
Qed.

(* Ok(record): the record is the reply just processed; at least quorum-many distinct peers replied
   with byte-identical content for this query; the record passed the target check -- all with
   respect to the configuration the query runs under *)
Lemma ok_under_query_cfg_lemma : forall pre e c r,
  In (c, OOk r) (step_outs (final pre) e) ->
  exists q po x ps,
    e = Found q po r /\ find_query q (pending (final pre)) = Some x /\ In c (qcallers x) /\
    NoDup ps /\ quorum_value (cq (qcfg x)) <= nlen ps /\
    (forall p, In p ps -> replied (pre ++ [e]) q p (rcont r)) /\
    does_target_match (qcfg x) r = true.
Proof.
  intros pre e c r H.
  destruct (ok_inversion _ _ _ _ H) as (q & po & x & vers' & n & E & F & IV & Q & T & Hc).
  destruct (insert_version_hit _ _ _ _ _ IV) as (r0 & ps & A1 & A2 & A3 & A4).
  destruct (find_query_split _ _ _ F) as (l1 & l2 & A & Bq & _).
  assert (Hx : In x (pending (final pre))) by (rewrite A; apply in_or_app; right; left; reflexivity).
  exists q, po, x, ps. subst n. repeat split; auto.
  - assert (NDall : Forall (fun v => NoDup (snd v)) (fst (insert_version (qvers x) r (peer_of po)))).
    { apply insert_version_nodup. apply Forall_forall. intros [r1 ps1] Hv.
      apply (below_quorum_lemma pre x r1 ps1 Hx Hv). }
    rewrite IV in NDall. cbn in NDall. rewrite Forall_forall in NDall. apply (NDall _ A1).
  - intros p Hp. assert (Hin : In (r0, ps) (fst (insert_version (qvers x) r (peer_of po)))) by (rewrite IV; exact A1).
    destruct (insert_version_others _ _ _ _ _ Hin) as [Old|(E1 & E2 & E3)].
    + apply replied_snoc. rewrite <- A2, <- Bq. eapply hinv_all; eauto.
    + destruct (E3 p Hp) as [Ep|(ps0 & F1 & F2)].
      * subst p e. exists po, r. split; [apply in_or_app; right; left; reflexivity | auto].
      * apply replied_snoc. rewrite <- A2, <- Bq. eapply hinv_all; eauto.
Qed.

Lemma ok_is_a_reply_lemma : forall pre e c r,
  In (c, OOk r) (step_outs (final pre) e) -> exists q po, e = Found q po r.
Proof.
  intros pre e c r H. destruct (ok_under_query_cfg_lemma _ _ _ _ H) as (q & po & _ & _ & E & _).
  exists q, po. exact E.
Qed.

(* ------------------------------------------------------------------------------------------ *)
(* which command issued a caller, and the known class: joining a query that runs under another   *)
(* configuration                                                                               *)

Definition cmd_at (evs : list event) (c key : N) (cf : cfg) : Prop :=
  exists pre post, evs = pre ++ Cmd key cf :: post /\ next_cid (final pre) = c.

Definition KnownJoined (evs : list event) (c : N) : Prop :=
  exists pre key cf post x, evs = pre ++ Cmd key cf :: post /\ next_cid (final pre) = c /\
    In x (pending (final pre)) /\ qkey x = key /\ strip_cfg (qcfg x) <> strip_cfg cf.

Lemma cfg_eq_dec : forall a b : cfg, {a = b} + {a <> b}.
Proof. repeat decide equality. Qed.

Lemma cmd_at_snoc : forall evs e c key cf,
  cmd_at (evs ++ [e]) c key cf -> cmd_at evs c key cf \/ (e = Cmd key cf /\ next_cid (final evs) = c).
Proof.
  intros evs e c key cf (pre & post & E & N).
  destruct post as [|e' post] using rev_ind.
  - apply app_inj_tail in E. destruct E as [E1 E2]. subst. right. auto.
  - clear IHpost. rewrite app_comm_cons, app_assoc in E. apply app_inj_tail in E. destruct E as [E1 E2].
    left. exists pre, post. auto.
Qed.

Lemma cmd_at_mono : forall evs e c key cf, cmd_at evs c key cf -> cmd_at (evs ++ [e]) c key cf.
Proof.
  intros evs e c key cf (pre & post & E & N). exists pre, (post ++ [e]). subst evs.
  rewrite <- app_assoc. auto.
Qed.

Lemma known_joined_mono : forall evs e c, KnownJoined evs c -> KnownJoined (evs ++ [e]) c.
Proof.
  intros evs e c (pre & key & cf & post & x & E & A). exists pre, key, cf, (post ++ [e]), x. subst evs.
  rewrite <- app_assoc. auto.
Qed.

Lemma next_cid_step : forall s e, next_cid s <= next_cid (step_state s e).
Proof.
  intros s e. unfold step_state. destruct e as [key c|q p r|q|q|q|q|c]; cbn [step fst].
  - unfold handle_cmd. destruct (join_query _ _ _); cbn; lia.
  - unfold accumulate. destruct (find_query _ _); [|cbn; lia]. destruct (insert_version _ _ _).
    destruct (_ <=? _); [destruct (deliver _ _ _)|]; cbn; lia.
  - unfold finished. destruct (find_query _ _); [|cbn; lia]. destruct (deliver _ _ _); cbn; lia.
  - unfold err_not_found. destruct (find_query _ _); [|cbn; lia]. destruct (deliver _ _ _); cbn; lia.
  - unfold err_not_found. destruct (find_query _ _); [|cbn; lia]. destruct (deliver _ _ _); cbn; lia.
  - unfold err_timeout. destruct (find_query _ _); [|cbn; lia]. destruct (deliver _ _ _); cbn; lia.
  - cbn. lia.
Qed.

Lemma next_cid_cmd : forall s key c, next_cid (step_state s (Cmd key c)) = next_cid s + 1.
Proof. intros. unfold step_state. cbn. unfold handle_cmd. destruct (join_query _ _ _); reflexivity. Qed.

Lemma cmd_at_lt : forall evs c key cf, cmd_at evs c key cf -> c < next_cid (final evs).
Proof.
  induction evs as [|e evs IH] using rev_ind; intros c key cf H.
  - destruct H as (pre & post & E & _). destruct pre; discriminate.
  - rewrite final_snoc. apply cmd_at_snoc in H. destruct H as [H|[E N]].
    + pose proof (IH _ _ _ H). pose proof (next_cid_step (final evs) e). lia.
    + subst e. rewrite next_cid_cmd. lia.
Qed.

(* every waiting caller runs under the configuration of its own command, unless it joined a query
   created under a different one *)
Definition ginv (evs : list event) : Prop :=
  forall x c key cf, In x (pending (final evs)) -> In c (qcallers x) -> cmd_at evs c key cf ->
    key = qkey x /\ (strip_cfg cf = strip_cfg (qcfg x) \/ KnownJoined evs c).

Lemma ginv_all : forall evs, ginv evs.
Proof.
  intro evs. induction evs as [|e evs IH] using rev_ind.
  - intros x c key cf [].
  - intros x' c key cf Hx Hc Hat. rewrite final_snoc in Hx.
    pose proof (reach_sinv _ _ _ (reach_run evs)) as I.
    assert (OLD : forall x, In x (pending (final evs)) -> In c (qcallers x) -> same_query x' x ->
                  key = qkey x' /\ (strip_cfg cf = strip_cfg (qcfg x') \/ KnownJoined (evs ++ [e]) c)).
    { intros x A Hcx (B1 & B2 & B3). rewrite B2, B3.
      assert (Hlt : c < next_cid (final evs)).
      { apply (si_clt _ I). unfold callers_of. apply in_flat_map. exists x. auto. }
      apply cmd_at_snoc in Hat. destruct Hat as [Hat|[_ N]]; [|lia].
      destruct (IH x c key cf A Hcx Hat) as [K1 K2]. split; [exact K1|].
      destruct K2 as [K2|K2]; [left; exact K2 | right; apply known_joined_mono; exact K2]. }
    destruct e as [k0 cf0|q po r|q|q|q|q|c0].
    1:{ unfold step_state in Hx. cbn in Hx.
        destruct (cmd_pending _ _ _ _ I Hx) as [[E J]|(x & A & B & C & D)].
        - subst x'. cbn in Hc. destruct Hc as [Hc|[]]. subst c. cbn.
          apply cmd_at_snoc in Hat. destruct Hat as [Hat|[E N]].
          + apply cmd_at_lt in Hat. lia.
          + inversion E; subst. auto.
        - destruct D as [D|[D Dk]].
          + rewrite D in Hc. apply (OLD x A Hc B).
          + rewrite D in Hc. apply in_app_or in Hc. destruct Hc as [Hc|[Hc|[]]]; [apply (OLD x A Hc B)|].
            subst c. destruct B as (B1 & B2 & B3). rewrite B2, B3.
            apply cmd_at_snoc in Hat. destruct Hat as [Hat|[E N]]; [apply cmd_at_lt in Hat; lia|].
            injection E as Ek Ec. split; [rewrite <- Ek; symmetry; exact Dk|].
            destruct (cfg_eq_dec (strip_cfg cf) (strip_cfg (qcfg x))) as [Eq|Ne]; [left; exact Eq|]. right.
            exists evs, key, cf, [], x. rewrite Ek, Ec. repeat split; auto;
              try (rewrite <- Ek; exact Dk); try (intro Eq; apply Ne; symmetry; exact Eq). }
    all: noncmd I Hx x A B1 B2 B3 C D;
         rewrite C in Hc; apply (OLD x A Hc (conj B1 (conj B2 B3))).
Qed.

(* (b) for the caller's own configuration, outside the known class *)
Lemma ok_needs_quorum_lemma : forall pre e c r key cf,
  In (c, OOk r) (step_outs (final pre) e) -> cmd_at pre c key cf -> ~ KnownJoined pre c ->
  exists q ps, NoDup ps /\ quorum_value (cq cf) <= nlen ps /\
    (forall p, In p ps -> replied (pre ++ [e]) q p (rcont r)) /\
    does_target_match cf r = true.
Proof.
  intros pre e c r key cf H Hat NK.
  destruct (ok_under_query_cfg_lemma _ _ _ _ H) as (q & po & x & ps & E & F & Hc & ND & Q & R & T).
  destruct (find_query_split _ _ _ F) as (l1 & l2 & A & _ & _).
  assert (Hx : In x (pending (final pre))) by (rewrite A; apply in_or_app; right; left; reflexivity).
  destruct (ginv_all pre x c key cf Hx Hc Hat) as [_ [K|K]]; [|contradiction].
  assert (K1 : cq cf = cq (qcfg x)) by (apply (f_equal cq) in K; exact K).
  assert (K2 : ctarget cf = ctarget (qcfg x)) by (apply (f_equal ctarget) in K; exact K).
  assert (K3 : cisreg cf = cisreg (qcfg x)) by (apply (f_equal cisreg) in K; exact K).
  exists q, ps. rewrite K1. repeat split; auto.
  unfold does_target_match in *. rewrite K2, K3. exact T.
Qed.

(* F10: a caller that joined the query of another caller is answered under that caller's
   configuration -- Quorum::All and a target are ignored *)
Definition f10_T : record := {| rkey := 7; rcont := {| ckind := Some KChunk; cpay := POpaque 1 |}; rpub := None |}.
Definition f10_R : record := {| rkey := 7; rcont := {| ckind := Some KChunk; cpay := POpaque 2 |}; rpub := None |}.
Definition f10_first : cfg := {| cq := QOne; ctarget := None; cisreg := false; cholders := [] |}.
Definition f10_second : cfg := {| cq := QAll; ctarget := Some f10_T; cisreg := false; cholders := [] |}.
Definition f10_pre : list event := [Cmd 7 f10_first; Cmd 7 f10_second].

Lemma joined_caller_refuted_lemma :
  exists pre e c r key cf,
    In (c, OOk r) (step_outs (final pre) e) /\ cmd_at pre c key cf /\
    does_target_match cf r = false /\
    (forall q ps, NoDup ps -> (forall p, In p ps -> replied (pre ++ [e]) q p (rcont r)) -> nlen ps < quorum_value (cq cf)).
Proof.
  exists f10_pre, (Found 0 (Some 1) f10_R), 1, f10_R, 7, f10_second.
  split; [vm_compute; right; left; reflexivity|]. split.
  - exists [Cmd 7 f10_first], []. split; reflexivity.
  - split; [reflexivity|]. intros q ps ND Hp.
    assert (All1 : forall p, In p ps -> p = 1).
    { intros p Hin. destruct (Hp p Hin) as (po & r & Hin' & Epo & _).
      cbn in Hin'. destruct Hin' as [Hin'|[Hin'|[Hin'|[]]]]; try discriminate.
      inversion Hin'; subst. reflexivity. }
    destruct ps as [|a [|b ps]]; try (vm_compute; reflexivity).
    exfalso. inversion ND as [|? ? Hn _]; subst. apply Hn. left.
    rewrite (All1 a), (All1 b); cbn; auto.
Qed.

(* non-vacuity: a three-peer majority read that succeeds, with a duplicate reply in between *)
Example ok_example :
  let cf := {| cq := QMajority; ctarget := Some f10_R; cisreg := false; cholders := [] |} in
  let pre := [Cmd 7 cf; Found 0 (Some 1) f10_R; Found 0 (Some 1) f10_R; Found 0 None f10_R] in
  In (0, OOk f10_R) (step_outs (final pre) (Found 0 (Some 3) f10_R)) /\ cmd_at pre 0 7 cf /\ ~ KnownJoined pre 0.
Proof.
  cbn zeta. split; [vm_compute; left; reflexivity|]. split.
  - exists [], [Found 0 (Some 1) f10_R; Found 0 (Some 1) f10_R; Found 0 None f10_R]. split; reflexivity.
  - intros (pre & key & cf & post & x & E & N & Hx & _).
    destruct pre as [|e0 pre]; [cbn in Hx; contradiction|].
    cbn in E. injection E as _ E.
    repeat (destruct pre as [|? pre]; cbn in E; [discriminate|]; injection E as _ E).
    destruct pre; discriminate.
Qed.
