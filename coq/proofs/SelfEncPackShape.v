(* C14, part 6: the size-level acceptor the correspondence run evaluates on the real code's data-map
   levels (agree_pack) accepts every run of the model's packing loop -- so a real trace it rejects
   is a behaviour the model cannot show. *)
From Coq Require Import List NArith ZArith Bool Lia ZifyBool ZifyNat ZifyN.
From V Require Import lib.Strs gen.Consts model.ClientRead model.SelfEnc
  proofs.SelfEncPartition proofs.SelfEncLists proofs.SelfEnc.
Import ListNotations.
Open Scope N_scope.

Lemma pack_trace_accepted C MAX :
  codec_sizes C -> (forall b, lenN (c_ser C b) = ser_len (lenN b)) ->
  forall fuel lvl acc r, pack C MAX fuel lvl acc = inl r ->
  agree_pack MAX (pack_trace C MAX fuel lvl) = true.
Proof.
  intros SZ SE. unfold agree_pack.
  induction fuel as [|f IH]; intros lvl acc r; cbn [pack pack_trace pack_shape_up].
  - destruct (lenN (c_wrap C lvl) <=? MAX) eqn:F; [|discriminate]. intros _.
    pose proof (wrap_size C SZ lvl) as W. apply andb_true_iff. split; [apply N.leb_le; exact W|reflexivity].
  - destruct (lenN (c_wrap C lvl) <=? MAX) eqn:F.
    + intros _. pose proof (wrap_size C SZ lvl) as W. apply andb_true_iff. split; [apply N.leb_le; exact W|reflexivity].
    + destruct (se_encrypt C MAX (c_ser C (c_wrap C lvl))) as [[dm' cs']|] eqn:E; [|discriminate].
      intros P. specialize (IH _ _ _ P).
      assert (Ldm : lenN dm' = num_chunks MAX (ser_len (lenN (c_wrap C lvl)))).
      { rewrite <- SE. apply se_encrypt_shape in E. destruct E as (_ & -> & _).
        unfold lenN at 1. rewrite map_length, enum_from_length. apply raw_chunks_length. }
      pose proof (wrap_size C SZ lvl) as W.
      apply andb_true_iff. split; [apply N.leb_le; exact W|].
      destruct f as [|f']; cbn [pack_trace dm_of negb andb] in *;
        (apply andb_true_iff; split; [apply N.eqb_eq; exact Ldm|exact IH]).
Qed.

(* non-vacuity: a codec whose serialised chunk has exactly msgpack's bin header sizes *)
Example ex_ser_exact :
  let ser := fun b : bytes => repeat 0 (N.to_nat (ser_len (lenN b) - lenN b)) ++ b in
  forall b, lenN (ser b) = ser_len (lenN b).
Proof.
  cbn zeta. intros b. unfold lenN at 1. rewrite app_length, repeat_length. unfold ser_len, lenN.
  destruct (N.of_nat (length b) <? 256); [lia|]. destruct (N.of_nat (length b) <? 65536); lia.
Qed.
