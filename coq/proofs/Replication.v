(* Proofs about model/Replication.v (C09). *)
From Coq Require Import List NArith Bool Lia.
From V Require Import model.Replication.
Import ListNotations.
Open Scope N_scope.

(* ---------------------------------------------------------------- assoc lists *)
Lemma lookup_update_same k c l : lookup k (update k c l) = Some c.
Proof.
  induction l as [|[k' c'] r IH]; cbn; [rewrite N.eqb_refl; reflexivity|].
  destruct (N.eqb_spec k k') as [->|Hne]; cbn; [rewrite N.eqb_refl; reflexivity|].
  destruct (N.eqb_spec k k'); [contradiction|exact IH].
Qed.

Lemma lookup_update_other k k' c l : k' <> k -> lookup k' (update k c l) = lookup k' l.
Proof.
  intros Hne. induction l as [|[k2 c2] r IH]; cbn.
  - destruct (N.eqb_spec k' k); [contradiction|reflexivity].
  - destruct (N.eqb_spec k k2) as [->|Hk]; cbn.
    + destruct (N.eqb_spec k' k2); [contradiction|reflexivity].
    + destruct (N.eqb_spec k' k2); [reflexivity|exact IH].
Qed.

Lemma lookup_in k c l : lookup k l = Some c -> In (k, c) l.
Proof.
  induction l as [|[k' c'] r IH]; cbn; [discriminate|].
  destruct (N.eqb_spec k k') as [->|Hne]; [intros E; inversion E; left; reflexivity|].
  intros E; right; exact (IH E).
Qed.

Lemma in_lookup k c l : NoDup (map fst l) -> In (k, c) l -> lookup k l = Some c.
Proof.
  induction l as [|[k' c'] r IH]; cbn; [intros _ []|].
  intros Hnd [E|Hin].
  - inversion E; subst. rewrite N.eqb_refl. reflexivity.
  - inversion Hnd as [|x xs Hnotin Hnd']; subst.
    destruct (N.eqb_spec k k') as [->|Hne]; [|exact (IH Hnd' Hin)].
    exfalso. apply Hnotin. apply (in_map fst) in Hin. exact Hin.
Qed.

Lemma lookup_none_notin k l : lookup k l = None -> ~ In k (map fst l).
Proof.
  induction l as [|[k' c'] r IH]; cbn; [intros _ []|].
  destruct (N.eqb_spec k k') as [->|Hne]; [discriminate|].
  intros E [Heq|Hin]; [congruence|exact (IH E Hin)].
Qed.

Lemma mem_true_iff x l : mem x l = true <-> In x l.
Proof.
  induction l as [|y r IH]; cbn; [split; [discriminate|intros []]|].
  rewrite orb_true_iff, IH, N.eqb_eq. split; intros [A|A]; auto.
Qed.

Lemma mem_app x a b : mem x (a ++ b) = mem x a || mem x b.
Proof. induction a as [|y r IH]; cbn; [reflexivity|]. rewrite IH, orb_assoc. reflexivity. Qed.

Lemma mem_union x a b : mem x (union a b) = mem x a || mem x b.
Proof.
  revert a. induction b as [|y r IH]; intros a; cbn; [rewrite orb_false_r; reflexivity|].
  destruct (mem y a) eqn:E.
  - rewrite IH. destruct (N.eqb_spec x y) as [->|]; [rewrite E; cbn; reflexivity|reflexivity].
  - rewrite IH, mem_app. cbn. rewrite orb_false_r.
    destruct (x =? y); destruct (mem x a); destruct (mem x r); reflexivity.
Qed.

(* ---------------------------------------------------------------- what is advertised *)
Lemma advert_complete H n k c :
  lookup k (held n) = Some c -> In (k, type_of H c) (advert H n).
Proof.
  intros E. apply lookup_in in E. unfold advert.
  apply (in_map (fun kc => (fst kc, type_of H (snd kc)))) in E. exact E.
Qed.

Lemma advert_sound H n k t :
  In (k, t) (advert H n) -> exists c, In (k, c) (held n) /\ t = type_of H c.
Proof.
  unfold advert. intros Hin. apply in_map_iff in Hin as [[k' c] [E Hin]].
  cbn in E. inversion E; subst. exists c. split; [exact Hin|reflexivity].
Qed.

Lemma advert_keys H n : map fst (advert H n) = map fst (held n).
Proof. unfold advert. rewrite map_map. reflexivity. Qed.

Lemma replicate_msgs_spec H n m :
  In m (replicate_msgs H n) <->
  held n <> [] /\ exists t, In t (cands n) /\ m = Replicate (self n) t (self n) (advert H n).
Proof.
  unfold replicate_msgs. destruct (advert H n) as [|a r] eqn:E.
  - split; [intros []|]. intros [Hne _]. exfalso. apply Hne.
    unfold advert in E. destruct (held n); [reflexivity|discriminate].
  - rewrite in_map_iff. split.
    + intros [t [Em Hin]]. split; [|exists t; split; [exact Hin|symmetry; exact Em]].
      intros Hnil. unfold advert in E. rewrite Hnil in E. discriminate.
    + intros [_ [t [Hin Em]]]. exists t. split; [symmetry; exact Em|exact Hin].
Qed.

(* ---------------------------------------------------------------- received lists *)
Lemma far_holder_ignored n h keys :
  mem h (closest n) = false \/ h = self n -> on_replicate n h keys = (n, []).
Proof.
  intros Hc. unfold on_replicate, accepts_holder.
  destruct Hc as [Hc| ->]; [rewrite Hc; reflexivity|].
  rewrite N.eqb_refl, andb_false_r. reflexivity.
Qed.

Lemma wanted_sub n : forall keys seen x, In x (wanted n seen keys) ->
  In x keys /\ lookup (fst x) (held n) = None /\ kt_mem x (inflight n) = false /\ kt_mem x seen = false.
Proof.
  induction keys as [|y r IH]; intros seen x; cbn; [intros []|].
  destruct (lookup (fst y) (held n)) as [c|] eqn:El; cbn.
  - intros Hin. destruct (IH seen x Hin) as (A & B); split; [right; exact A|exact B].
  - destruct (kt_mem y (inflight n)) eqn:Ei; cbn.
    + intros Hin. destruct (IH seen x Hin) as (A & B); split; [right; exact A|exact B].
    + destruct (kt_mem y seen) eqn:Es.
      * intros Hin. destruct (IH seen x Hin) as (A & B); split; [right; exact A|exact B].
      * intros [->|Hin]; [repeat split; auto|].
        destruct (IH (y :: seen) x Hin) as (A & B & C & D). split; [right; exact A|].
        split; [exact B|]. split; [exact C|]. cbn in D. apply orb_false_iff in D. tauto.
Qed.

Lemma on_replicate_spec n h keys n' out :
  on_replicate n h keys = (n', out) ->
  held n' = held n /\ self n' = self n /\ closest n' = closest n /\ cands n' = cands n /\
  forall m, In m out -> exists x, m = Fetch (self n) h (fst x) /\ In x keys /\
                                  lookup (fst x) (held n) = None /\ kt_mem x (inflight n) = false.
Proof.
  unfold on_replicate. destruct (accepts_holder n h).
  - intros E; inversion E; subst; clear E. cbn. repeat split; try reflexivity.
    intros m Hin. apply in_map_iff in Hin as [x [Em Hx]].
    destruct (wanted_sub n keys [] x Hx) as (A & B & C & _).
    exists x. repeat split; auto.
  - intros E; inversion E; subst. repeat split; try reflexivity. intros m [].
Qed.

(* every unheld, not in-flight advertised key is asked for (keys of the list pairwise distinct) *)
Lemma wanted_complete n : forall keys seen k t,
  NoDup (map fst keys) -> In (k, t) keys -> lookup k (held n) = None ->
  kt_mem (k, t) (inflight n) = false -> (forall y, In y seen -> fst y <> k) ->
  In (k, t) (wanted n seen keys).
Proof.
  induction keys as [|y r IH]; intros seen k t Hnd Hin Hl Hi Hs; [destruct Hin|].
  cbn in Hnd. inversion Hnd as [|a l Hnotin Hnd']; subst.
  cbn. destruct Hin as [->|Hin].
  - cbn. rewrite Hl, Hi. cbn.
    assert (Es : kt_mem (k, t) seen = false).
    { unfold kt_mem. apply not_true_is_false. intros E. apply existsb_exists in E as [z [Hz Ez]].
      cbn in Ez. apply andb_prop in Ez as [Ek _]. apply N.eqb_eq in Ek. exact (Hs z Hz (eq_sym Ek)). }
    rewrite Es. left. reflexivity.
  - assert (Hky : fst y <> k).
    { intros E. apply Hnotin. rewrite E. apply (in_map fst) in Hin. exact Hin. }
    destruct (match lookup (fst y) (held n) with Some _ => true | None => false end
              || kt_mem y (inflight n) || kt_mem y seen).
    + apply IH; auto.
    + right. apply IH; auto. intros z [<-|Hz]; [exact Hky|exact (Hs z Hz)].
Qed.

Lemma wanted_nodup n : forall keys seen, NoDup (map fst keys) -> NoDup (map fst (wanted n seen keys)).
Proof.
  induction keys as [|y r IH]; intros seen Hnd; cbn; [constructor|].
  cbn in Hnd. inversion Hnd as [|a l Hnotin Hnd']; subst.
  destruct (match lookup (fst y) (held n) with Some _ => true | None => false end
            || kt_mem y (inflight n) || kt_mem y seen); [apply IH; exact Hnd'|].
  cbn. constructor; [|apply IH; exact Hnd'].
  intros Hin. apply in_map_iff in Hin as [x [Ex Hx]].
  destruct (wanted_sub n r (y :: seen) x Hx) as (A & _).
  apply Hnotin. rewrite <- Ex. apply (in_map fst) in A. exact A.
Qed.

(* ---------------------------------------------------------------- accepting a fetched record *)
Lemma accept_held n k c :
  held (accept n k c) =
  match merge_in (lookup k (held n)) c with Some c' => update k c' (held n) | None => held n end.
Proof. unfold accept. destruct (merge_in (lookup k (held n)) c); reflexivity. Qed.

Lemma accept_other n k c k' : k' <> k -> lookup k' (held (accept n k c)) = lookup k' (held n).
Proof.
  intros Hne. rewrite accept_held. destruct (merge_in (lookup k (held n)) c); [|reflexivity].
  apply lookup_update_other. exact Hne.
Qed.

Lemma accept_self n k c : self (accept n k c) = self n.
Proof. unfold accept. destruct (merge_in (lookup k (held n)) c); reflexivity. Qed.

Lemma accept_absent n k c : lookup k (held n) = None -> content_valid c = true ->
  lookup k (held (accept n k c)) = Some c.
Proof.
  intros Hl Hv. rewrite accept_held, Hl. unfold merge_in. rewrite Hv. cbn.
  apply lookup_update_same.
Qed.

Lemma accept_keeps n k c k' c' : lookup k' (held n) = Some c' -> k' <> k ->
  lookup k' (held (accept n k c)) = Some c'.
Proof. intros Hl Hne. rewrite accept_other; assumption. Qed.

(* different keys: the two acceptances commute (as maps) *)
Lemma accept_commute n k1 c1 k2 c2 : k1 <> k2 -> forall k,
  lookup k (held (accept (accept n k1 c1) k2 c2)) = lookup k (held (accept (accept n k2 c2) k1 c1)).
Proof.
  intros Hne k.
  rewrite (accept_held (accept n k1 c1) k2 c2), (accept_held (accept n k2 c2) k1 c1).
  rewrite (accept_other n k1 c1 k2) by congruence.
  rewrite (accept_other n k2 c2 k1) by congruence.
  rewrite !accept_held.
  destruct (merge_in (lookup k2 (held n)) c2) as [x2|], (merge_in (lookup k1 (held n)) c1) as [x1|];
    try reflexivity.
  destruct (N.eq_dec k k1) as [->|H1].
  - rewrite lookup_update_other by congruence. rewrite !lookup_update_same. reflexivity.
  - destruct (N.eq_dec k k2) as [->|H2].
    + rewrite lookup_update_same. rewrite lookup_update_other by congruence.
      rewrite lookup_update_same. reflexivity.
    + rewrite !lookup_update_other by congruence. reflexivity.
Qed.

(* ---------------------------------------------------------------- mutable records *)
Lemma reg_merge_union n k b o1 o2 :
  lookup k (held n) = Some (CReg b o1) ->
  exists x, lookup k (held (accept n k (CReg b o2))) = Some (CReg b x) /\
            forall e, mem e x = true <-> mem e o1 = true \/ mem e o2 = true.
Proof.
  intros Hl. rewrite accept_held, Hl. cbn. rewrite N.eqb_refl.
  destruct (subset o2 o1) eqn:Es.
  - exists o1. split; [exact Hl|]. intros e. split; [auto|]. intros [A|A]; [exact A|].
    unfold subset in Es. rewrite forallb_forall in Es. apply mem_true_iff in A.
    exact (Es e A).
  - exists (union o1 o2). split; [apply lookup_update_same|].
    intros e. rewrite mem_union, orb_true_iff. tauto.
Qed.

Lemma txs_merge_union n k t1 t2 :
  lookup k (held n) = Some (CTxs t1) ->
  exists x, lookup k (held (accept n k (CTxs t2))) = Some (CTxs x) /\
            forall e, mem e x = true <-> mem e t1 = true \/ mem e t2 = true.
Proof.
  intros Hl. rewrite accept_held, Hl. cbn.
  destruct (subset t2 t1) eqn:Es.
  - exists t1. split; [exact Hl|]. intros e. split; [auto|]. intros [A|A]; [exact A|].
    unfold subset in Es. rewrite forallb_forall in Es. apply mem_true_iff in A.
    exact (Es e A).
  - exists (union t1 t2). split; [apply lookup_update_same|].
    intros e. rewrite mem_union, orb_true_iff. tauto.
Qed.

Lemma pad_higher_wins n k o c1 d1 c2 d2 :
  lookup k (held n) = Some (CPad o c1 d1 true) -> c1 < c2 ->
  lookup k (held (accept n k (CPad o c2 d2 true))) = Some (CPad o c2 d2 true).
Proof.
  intros Hl Hlt. rewrite accept_held, Hl. cbn.
  destruct (N.ltb_spec c1 c2); [apply lookup_update_same|lia].
Qed.

Lemma pad_lower_ignored n k o c1 d1 v1 o2 c2 d2 v2 :
  lookup k (held n) = Some (CPad o c1 d1 v1) -> c2 <= c1 ->
  accept n k (CPad o2 c2 d2 v2) = n.
Proof.
  intros Hl Hle. unfold accept. rewrite Hl. unfold merge_in. cbn.
  destruct v2; cbn; [|reflexivity].
  destruct (N.ltb_spec c1 c2); [lia|reflexivity].
Qed.

Lemma pad_invalid_ignored n k o c d : accept n k (CPad o c d false) = n.
Proof. unfold accept, merge_in. cbn. reflexivity. Qed.

(* ---------------------------------------------------------------- one exchange a -> b *)
Definition fetch_fold (a : node) (acc : node) (m : msg) : node :=
  match m with
  | Fetch _ _ k => match serve a k with Some c => accept acc k c | None => acc end
  | _ => acc
  end.

Lemma sync_from_unfold H a b :
  sync_from H a b =
  fold_left (fetch_fold a) (snd (on_replicate b (self a) (advert H a))) (fst (on_replicate b (self a) (advert H a))).
Proof. unfold sync_from. destruct (on_replicate b (self a) (advert H a)); reflexivity. Qed.

Lemma fold_fetch_other a : forall (ws : list (key * rtype)) (h : peer) (p : peer) acc k,
  ~ In k (map fst ws) ->
  lookup k (held (fold_left (fetch_fold a) (map (fun x => Fetch p h (fst x)) ws) acc)) = lookup k (held acc).
Proof.
  induction ws as [|w r IH]; intros h p acc k Hn; cbn; [reflexivity|].
  cbn in Hn. rewrite IH by tauto.
  unfold serve. destruct (lookup (fst w) (held a)); [|reflexivity].
  apply accept_other. intros E. apply Hn. left. symmetry. exact E.
Qed.

Lemma fold_fetch_gets a : forall (ws : list (key * rtype)) (h : peer) (p : peer) acc k c,
  NoDup (map fst ws) -> In k (map fst ws) -> lookup k (held acc) = None ->
  lookup k (held a) = Some c -> content_valid c = true ->
  lookup k (held (fold_left (fetch_fold a) (map (fun x => Fetch p h (fst x)) ws) acc)) = Some c.
Proof.
  induction ws as [|w r IH]; intros h p acc k c Hnd Hin Hl Ha Hv; [destruct Hin|].
  cbn in Hnd. inversion Hnd as [|x xs Hnotin Hnd']; subst. cbn.
  destruct Hin as [E|Hin].
  - rewrite E. unfold serve. rewrite Ha.
    rewrite fold_fetch_other by exact (eq_ind _ (fun z => ~ In z (map fst r)) Hnotin _ E).
    apply accept_absent; assumption.
  - assert (Hne : k <> fst w) by (intros E; apply Hnotin; rewrite <- E; exact Hin).
    apply IH; auto.
    unfold serve. destruct (lookup (fst w) (held a)); [|exact Hl].
    rewrite accept_other; assumption.
Qed.

Lemma sync_gets_missing H a b k c :
  NoDup (map fst (held a)) -> accepts_holder b (self a) = true -> inflight b = [] ->
  lookup k (held a) = Some c -> content_valid c = true -> lookup k (held b) = None ->
  lookup k (held (sync_from H a b)) = Some c.
Proof.
  intros Hnd Hacc Hif Ha Hv Hb. rewrite sync_from_unfold. unfold on_replicate. rewrite Hacc. cbn [fst snd].
  apply fold_fetch_gets; auto.
  - apply wanted_nodup. rewrite advert_keys. exact Hnd.
  - apply (in_map fst (wanted b [] (advert H a)) (k, type_of H c)).
    apply wanted_complete; auto.
    + rewrite advert_keys. exact Hnd.
    + apply advert_complete. exact Ha.
    + rewrite Hif. reflexivity.
Qed.

Lemma sync_keeps_held H a b k c :
  lookup k (held b) = Some c -> lookup k (held (sync_from H a b)) = Some c.
Proof.
  intros Hb. rewrite sync_from_unfold. unfold on_replicate.
  destruct (accepts_holder b (self a)); cbn [fst snd]; [|exact Hb].
  rewrite fold_fetch_other; [exact Hb|].
  intros Hin. apply in_map_iff in Hin as [x [Ex Hx]].
  destruct (wanted_sub b (advert H a) [] x Hx) as (_ & B & _). rewrite Ex in B. congruence.
Qed.

Lemma sync_absent H a b k :
  lookup k (held a) = None -> lookup k (held b) = None -> lookup k (held (sync_from H a b)) = None.
Proof.
  intros Ha Hb. rewrite sync_from_unfold. unfold on_replicate.
  destruct (accepts_holder b (self a)); cbn [fst snd]; [|exact Hb].
  rewrite fold_fetch_other; [exact Hb|].
  intros Hin. apply in_map_iff in Hin as [x [Ex Hx]].
  destruct (wanted_sub b (advert H a) [] x Hx) as (A & _).
  apply (in_map fst) in A. rewrite advert_keys, Ex in A.
  exact (lookup_none_notin k (held a) Ha A).
Qed.

Lemma fold_fetch_self a : forall l acc, self (fold_left (fetch_fold a) l acc) = self acc.
Proof.
  induction l as [|m r IH]; intros acc; cbn; [reflexivity|]. rewrite IH.
  destruct m; cbn; try reflexivity. destruct (serve a k); [apply accept_self|reflexivity].
Qed.

Lemma sync_self H a b : self (sync_from H a b) = self b.
Proof.
  rewrite sync_from_unfold, fold_fetch_self. unfold on_replicate.
  destruct (accepts_holder b (self a)); reflexivity.
Qed.

Lemma update_keys_in k c l x : In x (map fst (update k c l)) -> x = k \/ In x (map fst l).
Proof.
  induction l as [|[k' c'] r IH]; cbn; [intros [E|[]]; auto|].
  destruct (N.eqb_spec k k') as [->|Hne]; cbn; [tauto|].
  intros [E|Hin]; [auto|]. destruct (IH Hin); auto.
Qed.

Lemma update_nodup k c l : NoDup (map fst l) -> NoDup (map fst (update k c l)).
Proof.
  induction l as [|[k' c'] r IH]; cbn; intros Hnd; [constructor; [intros []|constructor]|].
  inversion Hnd as [|x xs Hnotin Hnd']; subst.
  destruct (N.eqb_spec k k') as [->|Hne]; cbn; [constructor; assumption|].
  constructor; [|apply IH; exact Hnd'].
  intros Hin. destruct (update_keys_in _ _ _ _ Hin) as [E|E]; [congruence|contradiction].
Qed.

Lemma accept_nodup n k c : NoDup (map fst (held n)) -> NoDup (map fst (held (accept n k c))).
Proof.
  intros Hnd. rewrite accept_held. destruct (merge_in (lookup k (held n)) c); [|exact Hnd].
  apply update_nodup. exact Hnd.
Qed.

Lemma fold_fetch_nodup a : forall l acc, NoDup (map fst (held acc)) ->
  NoDup (map fst (held (fold_left (fetch_fold a) l acc))).
Proof.
  induction l as [|m r IH]; intros acc Hnd; cbn; [exact Hnd|]. apply IH.
  destruct m; cbn; try exact Hnd. destruct (serve a k); [apply accept_nodup|]; exact Hnd.
Qed.

Lemma sync_nodup H a b : NoDup (map fst (held b)) -> NoDup (map fst (held (sync_from H a b))).
Proof.
  intros Hnd. rewrite sync_from_unfold. apply fold_fetch_nodup. unfold on_replicate.
  destruct (accepts_holder b (self a)); exact Hnd.
Qed.

Lemma content_eq_dec (a b : content) : {a = b} + {a <> b}.
Proof.
  decide equality; try apply N.eq_dec; try apply Bool.bool_dec; apply (list_eq_dec N.eq_dec).
Qed.

(* ---------------------------------------------------------------- periodic replication *)
(* one round between two neighbours: a's list reaches b, then b's (new) list reaches a *)
Definition round (H : content -> N) (ab : node * node) : node * node :=
  let b' := sync_from H (fst ab) (snd ab) in
  let a' := sync_from H b' (fst ab) in (a', b').

(* F16, the known class: both hold the key, with different content *)
Definition KnownOtherVersion (a b : node) : Prop :=
  exists k ca cb, lookup k (held a) = Some ca /\ lookup k (held b) = Some cb /\ ca <> cb.

Definition all_valid (n : node) : Prop :=
  forall k c, lookup k (held n) = Some c -> content_valid c = true.

Lemma round_converges H a b :
  NoDup (map fst (held a)) -> NoDup (map fst (held b)) ->
  accepts_holder b (self a) = true -> accepts_holder a (self b) = true ->
  inflight a = [] -> inflight b = [] -> all_valid a -> all_valid b ->
  ~ KnownOtherVersion a b ->
  forall k, lookup k (held (fst (round H (a, b)))) = lookup k (held (snd (round H (a, b)))) /\
            (lookup k (held (snd (round H (a, b)))) =
               match lookup k (held a) with Some c => Some c | None => lookup k (held b) end).
Proof.
  intros Na Nb Hab Hba Ia Ib Va Vb Hk k. unfold round. cbn [fst snd].
  set (b' := sync_from H a b).
  assert (Hacc' : accepts_holder a (self b') = true) by (unfold b'; rewrite sync_self; exact Hba).
  destruct (lookup k (held a)) as [ca|] eqn:Ea.
  - assert (Eb' : lookup k (held b') = Some ca).
    { destruct (lookup k (held b)) as [cb|] eqn:Eb.
      - assert (ca = cb).
        { destruct (content_eq_dec ca cb) as [E|E]; [exact E|].
          exfalso. apply Hk. exists k, ca, cb. auto. }
        subst cb. apply sync_keeps_held. exact Eb.
      - apply sync_gets_missing; auto. apply (Va k). exact Ea. }
    split; [|exact Eb']. rewrite Eb'. apply sync_keeps_held. exact Ea.
  - destruct (lookup k (held b)) as [cb|] eqn:Eb.
    + assert (Eb' : lookup k (held b') = Some cb) by (apply sync_keeps_held; exact Eb).
      split; [|exact Eb']. rewrite Eb'.
      apply sync_gets_missing; auto.
      * unfold b'. apply sync_nodup. exact Nb.
      * apply (Vb k). exact Eb.
    + assert (Eb' : lookup k (held b') = None) by (apply sync_absent; assumption).
      split; [|exact Eb']. rewrite Eb'. apply sync_absent; assumption.
Qed.

(* the witness: one register key, two operation sets; H is irrelevant here *)
Definition f16_a : node := mkNode 0 [(1, CReg 1 [1])] [0; 1] [1] [].
Definition f16_b : node := mkNode 1 [(1, CReg 1 [2])] [1; 0] [0] [].

Lemma f16_round H : round H (f16_a, f16_b) = (f16_a, f16_b).
Proof. reflexivity. Qed.

Lemma f16_never_converges H : forall n, Nat.iter n (round H) (f16_a, f16_b) = (f16_a, f16_b).
Proof.
  induction n as [|n IH]; [reflexivity|].
  change (Nat.iter (S n) (round H) (f16_a, f16_b)) with (round H (Nat.iter n (round H) (f16_a, f16_b))).
  rewrite IH. apply f16_round.
Qed.

Lemma f16_is_known : KnownOtherVersion f16_a f16_b.
Proof. exists 1, (CReg 1 [1]), (CReg 1 [2]). repeat split; try reflexivity. discriminate. Qed.

Lemma f16_premises :
  NoDup (map fst (held f16_a)) /\ NoDup (map fst (held f16_b)) /\
  accepts_holder f16_b (self f16_a) = true /\ accepts_holder f16_a (self f16_b) = true /\
  inflight f16_a = [] /\ inflight f16_b = [] /\ all_valid f16_a /\ all_valid f16_b.
Proof.
  repeat split; try reflexivity; try (constructor; [intros []|constructor]).
  - intros k c. cbn. destruct (k =? 1); [intros E; inversion E; reflexivity|discriminate].
  - intros k c. cbn. destruct (k =? 1); [intros E; inversion E; reflexivity|discriminate].
Qed.

(* the same witness at the level of messages: both lists are sent and delivered, nothing is fetched *)
Example f16_messages H :
  let s0 := mkSys [f16_a; f16_b] [] in
  let ma := Replicate 0 1 0 (advert H f16_a) in
  let mb := Replicate 1 0 1 (advert H f16_b) in
  run H s0 [OReplicate 0; OReplicate 1; ODeliver ma; ODeliver mb] = s0.
Proof.
  intros s0 ma mb. unfold run, s0, ma, mb. cbn.
  repeat (unfold kts_eqb, kts_sub, kt_eqb, rtype_eqb; rewrite ?N.eqb_refl; cbn). reflexivity.
Qed.

(* non-vacuity of round_converges: two nodes with disjoint stores of every kind end up equal *)
Definition ex_a : node := mkNode 0 [(1, CChunk 7); (2, CReg 1 [1; 2])] [0; 1] [1] [].
Definition ex_b : node := mkNode 1 [(3, CPad 5 2 9 true); (4, CTxs [4])] [1; 0] [0] [].

Example round_converges_example :
  ~ KnownOtherVersion ex_a ex_b /\
  held (snd (round (fun _ => 0) (ex_a, ex_b))) =
    [(3, CPad 5 2 9 true); (4, CTxs [4]); (1, CChunk 7); (2, CReg 1 [1; 2])] /\
  held (fst (round (fun _ => 0) (ex_a, ex_b))) =
    [(1, CChunk 7); (2, CReg 1 [1; 2]); (3, CPad 5 2 9 true); (4, CTxs [4])].
Proof.
  split; [|split; reflexivity].
  intros (k & ca & cb & A & B & _). cbn in A, B.
  destruct (k =? 1) eqn:E1; [apply N.eqb_eq in E1; subst k; cbn in B; discriminate|].
  destruct (k =? 2) eqn:E2; [apply N.eqb_eq in E2; subst k; cbn in B; discriminate|discriminate].
Qed.
