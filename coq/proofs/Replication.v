(* Proofs about model/Replication.v (C09). *)
From Coq Require Import List NArith Bool Lia Arith Permutation Sorted.
From V Require Import gen.Consts model.Replication.
Import ListNotations.
Open Scope N_scope.

(* ---------------------------------------------------------------- assoc lists *)
Lemma lookup_update_same k c l : lookup k (update k c l) = Some c.
Proof.
  induction l as [|[k' c'] r IH]; cbn; [rewrite N.eqb_refl; reflexivity|].
  destruct (N.eqb_spec k k') as [->|Hne]; cbn; [rewrite N.eqb_refl; reflexivity|].
  destruct (N.eqb_spec k k'); [contradiction|exact IH].
Qed.

Lemma lookup_update_other k k' c l : k' <> k -> lookup k' (update k c l) = lookup k' l.
Proof.
  intros Hne. induction l as [|[k2 c2] r IH]; cbn.
  - destruct (N.eqb_spec k' k); [contradiction|reflexivity].
  - destruct (N.eqb_spec k k2) as [->|Hk]; cbn.
    + destruct (N.eqb_spec k' k2); [contradiction|reflexivity].
    + destruct (N.eqb_spec k' k2); [reflexivity|exact IH].
Qed.

Lemma lookup_in k c l : lookup k l = Some c -> In (k, c) l.
Proof.
  induction l as [|[k' c'] r IH]; cbn; [discriminate|].
  destruct (N.eqb_spec k k') as [->|Hne]; [intros E; inversion E; left; reflexivity|].
  intros E; right; exact (IH E).
Qed.

Lemma in_lookup k c l : NoDup (map fst l) -> In (k, c) l -> lookup k l = Some c.
Proof.
  induction l as [|[k' c'] r IH]; cbn; [intros _ []|].
  intros Hnd [E|Hin].
  - inversion E; subst. rewrite N.eqb_refl. reflexivity.
  - inversion Hnd as [|x xs Hnotin Hnd']; subst.
    destruct (N.eqb_spec k k') as [->|Hne]; [|exact (IH Hnd' Hin)].
    exfalso. apply Hnotin. apply (in_map fst) in Hin. exact Hin.
Qed.

Lemma lookup_none_notin k l : lookup k l = None -> ~ In k (map fst l).
Proof.
  induction l as [|[k' c'] r IH]; cbn; [intros _ []|].
  destruct (N.eqb_spec k k') as [->|Hne]; [discriminate|].
  intros E [Heq|Hin]; [congruence|exact (IH E Hin)].
Qed.

Lemma mem_true_iff x l : mem x l = true <-> In x l.
Proof.
  induction l as [|y r IH]; cbn; [split; [discriminate|intros []]|].
  rewrite orb_true_iff, IH, N.eqb_eq. split; intros [A|A]; auto.
Qed.

Lemma mem_app x a b : mem x (a ++ b) = mem x a || mem x b.
Proof. induction a as [|y r IH]; cbn; [reflexivity|]. rewrite IH, orb_assoc. reflexivity. Qed.

Lemma mem_union x a b : mem x (union a b) = mem x a || mem x b.
Proof.
  revert a. induction b as [|y r IH]; intros a; cbn; [rewrite orb_false_r; reflexivity|].
  destruct (mem y a) eqn:E.
  - rewrite IH. destruct (N.eqb_spec x y) as [->|]; [rewrite E; cbn; reflexivity|reflexivity].
  - rewrite IH, mem_app. cbn. rewrite orb_false_r.
    destruct (x =? y); destruct (mem x a); destruct (mem x r); reflexivity.
Qed.

(* ---------------------------------------------------------------- what is advertised *)
Lemma advert_complete H n k c :
  lookup k (held n) = Some c -> In (k, type_of H c) (advert H n).
Proof.
  intros E. apply lookup_in in E. unfold advert.
  apply (in_map (fun kc => (fst kc, type_of H (snd kc)))) in E. exact E.
Qed.

Lemma advert_sound H n k t :
  In (k, t) (advert H n) -> exists c, In (k, c) (held n) /\ t = type_of H c.
Proof.
  unfold advert. intros Hin. apply in_map_iff in Hin as [[k' c] [E Hin]].
  cbn in E. inversion E; subst. exists c. split; [exact Hin|reflexivity].
Qed.

Lemma advert_keys H n : map fst (advert H n) = map fst (held n).
Proof. unfold advert. rewrite map_map. reflexivity. Qed.

Lemma replicate_msgs_spec H n m :
  In m (replicate_msgs H n) <->
  held n <> [] /\ exists t, In t (cands n) /\ m = Replicate (self n) t (self n) (advert H n).
Proof.
  unfold replicate_msgs. destruct (advert H n) as [|a r] eqn:E.
  - split; [intros []|]. intros [Hne _]. exfalso. apply Hne.
    unfold advert in E. destruct (held n); [reflexivity|discriminate].
  - rewrite in_map_iff. split.
    + intros [t [Em Hin]]. split; [|exists t; split; [exact Hin|symmetry; exact Em]].
      intros Hnil. unfold advert in E. rewrite Hnil in E. discriminate.
    + intros [_ [t [Hin Em]]]. exists t. split; [symmetry; exact Em|exact Hin].
Qed.

(* ---------------------------------------------------------------- received lists *)
Lemma far_holder_ignored D n h keys :
  mem h (closest n) = false \/ h = self n -> on_replicate D n h keys = (n, []).
Proof.
  intros Hc. unfold on_replicate, accepts_holder.
  destruct Hc as [Hc| ->]; [rewrite Hc; reflexivity|].
  rewrite N.eqb_refl, andb_false_r. reflexivity.
Qed.

Lemma ranged_sub D n keys x : In x (ranged D n keys) -> In x keys.
Proof.
  unfold ranged. destruct (Nat.eqb (length (unheld n keys)) 1); [auto|].
  intros Hin. apply filter_In in Hin. tauto.
Qed.

Lemma ranged_keeps D n keys x : In x keys -> in_range D n (fst x) = true -> In x (ranged D n keys).
Proof.
  intros Hin Hr. unfold ranged. destruct (Nat.eqb (length (unheld n keys)) 1); [exact Hin|].
  apply filter_In. split; assumption.
Qed.

Lemma ranged_in_range D n keys x :
  length (unheld n keys) <> 1%nat -> In x (ranged D n keys) -> in_range D n (fst x) = true.
Proof.
  intros Hl. unfold ranged. destruct (Nat.eqb_spec (length (unheld n keys)) 1) as [E|_]; [contradiction|].
  intros Hin. apply filter_In in Hin. tauto.
Qed.

Lemma nodup_map_filter {A} (p : A * rtype -> bool) (l : list (A * rtype)) :
  NoDup (map fst l) -> NoDup (map fst (filter p l)).
Proof.
  induction l as [|x r IH]; cbn; intros Hnd; [constructor|].
  inversion Hnd as [|a b Hnotin Hnd']; subst.
  destruct (p x); cbn; [|apply IH; exact Hnd'].
  constructor; [|apply IH; exact Hnd'].
  intros Hin. apply Hnotin. apply in_map_iff in Hin as [y [Ey Hy]].
  apply filter_In in Hy. rewrite <- Ey. apply in_map. tauto.
Qed.

Lemma ranged_nodup D n keys : NoDup (map fst keys) -> NoDup (map fst (ranged D n keys)).
Proof.
  intros Hnd. unfold ranged. destruct (Nat.eqb (length (unheld n keys)) 1); [exact Hnd|].
  apply nodup_map_filter. exact Hnd.
Qed.

Lemma ranged_no_range D n keys : fetch_range n = None -> ranged D n keys = keys.
Proof.
  intros Hr. unfold ranged. destruct (Nat.eqb (length (unheld n keys)) 1); [reflexivity|].
  unfold in_range. rewrite Hr. induction keys as [|x r IH]; cbn; [reflexivity|]. rewrite IH. reflexivity.
Qed.

Lemma wanted_sub n : forall keys seen x, In x (wanted n seen keys) ->
  In x keys /\ lookup (fst x) (held n) = None /\ kt_mem x (inflight n) = false /\ kt_mem x seen = false.
Proof.
  induction keys as [|y r IH]; intros seen x; cbn; [intros []|].
  destruct (lookup (fst y) (held n)) as [c|] eqn:El; cbn.
  - intros Hin. destruct (IH seen x Hin) as (A & B); split; [right; exact A|exact B].
  - destruct (kt_mem y (inflight n)) eqn:Ei; cbn.
    + intros Hin. destruct (IH seen x Hin) as (A & B); split; [right; exact A|exact B].
    + destruct (kt_mem y seen) eqn:Es.
      * intros Hin. destruct (IH seen x Hin) as (A & B); split; [right; exact A|exact B].
      * intros [->|Hin]; [repeat split; auto|].
        destruct (IH (y :: seen) x Hin) as (A & B & C & D). split; [right; exact A|].
        split; [exact B|]. split; [exact C|]. cbn in D. apply orb_false_iff in D. tauto.
Qed.

Lemma on_replicate_spec D n h keys n' out :
  on_replicate D n h keys = (n', out) ->
  held n' = held n /\ self n' = self n /\ table n' = table n /\ cands n' = cands n /\
  store_range n' = store_range n /\ fetch_range n' = fetch_range n /\
  forall m, In m out -> exists x, m = Fetch (self n) h (fst x) /\ In x keys /\
                                  lookup (fst x) (held n) = None /\ kt_mem x (inflight n) = false.
Proof.
  unfold on_replicate. destruct (accepts_holder n h).
  - intros E; inversion E; subst; clear E. cbn. repeat split; try reflexivity.
    intros m Hin. apply in_map_iff in Hin as [x [Em Hx]].
    destruct (wanted_sub n (ranged D n keys) [] x Hx) as (A & B & C & _).
    exists x. repeat split; auto. apply (ranged_sub D n). exact A.
  - intros E; inversion E; subst. repeat split; try reflexivity. intros m [].
Qed.

(* every unheld, not in-flight advertised key is asked for (keys of the list pairwise distinct) *)
Lemma wanted_complete n : forall keys seen k t,
  NoDup (map fst keys) -> In (k, t) keys -> lookup k (held n) = None ->
  kt_mem (k, t) (inflight n) = false -> (forall y, In y seen -> fst y <> k) ->
  In (k, t) (wanted n seen keys).
Proof.
  induction keys as [|y r IH]; intros seen k t Hnd Hin Hl Hi Hs; [destruct Hin|].
  cbn in Hnd. inversion Hnd as [|a l Hnotin Hnd']; subst.
  cbn. destruct Hin as [->|Hin].
  - cbn. rewrite Hl, Hi. cbn.
    assert (Es : kt_mem (k, t) seen = false).
    { unfold kt_mem. apply not_true_is_false. intros E. apply existsb_exists in E as [z [Hz Ez]].
      cbn in Ez. apply andb_prop in Ez as [Ek _]. apply N.eqb_eq in Ek. exact (Hs z Hz (eq_sym Ek)). }
    rewrite Es. left. reflexivity.
  - assert (Hky : fst y <> k).
    { intros E. apply Hnotin. rewrite E. apply (in_map fst) in Hin. exact Hin. }
    destruct (match lookup (fst y) (held n) with Some _ => true | None => false end
              || kt_mem y (inflight n) || kt_mem y seen).
    + apply IH; auto.
    + right. apply IH; auto. intros z [<-|Hz]; [exact Hky|exact (Hs z Hz)].
Qed.

Lemma wanted_nodup n : forall keys seen, NoDup (map fst keys) -> NoDup (map fst (wanted n seen keys)).
Proof.
  induction keys as [|y r IH]; intros seen Hnd; cbn; [constructor|].
  cbn in Hnd. inversion Hnd as [|a l Hnotin Hnd']; subst.
  destruct (match lookup (fst y) (held n) with Some _ => true | None => false end
            || kt_mem y (inflight n) || kt_mem y seen); [apply IH; exact Hnd'|].
  cbn. constructor; [|apply IH; exact Hnd'].
  intros Hin. apply in_map_iff in Hin as [x [Ex Hx]].
  destruct (wanted_sub n r (y :: seen) x Hx) as (A & _).
  apply Hnotin. rewrite <- Ex. apply (in_map fst) in A. exact A.
Qed.

(* ---------------------------------------------------------------- accepting a fetched record *)
Lemma accept_held n k c :
  held (accept n k c) =
  match merge_in (lookup k (held n)) c with Some c' => update k c' (held n) | None => held n end.
Proof.
  unfold accept, sync_range.
  destruct (merge_in (lookup k (held n)) c), (puts (lookup k (held n)) c); cbn;
    try destruct (store_range n); reflexivity.
Qed.

Lemma accept_other n k c k' : k' <> k -> lookup k' (held (accept n k c)) = lookup k' (held n).
Proof.
  intros Hne. rewrite accept_held. destruct (merge_in (lookup k (held n)) c); [|reflexivity].
  apply lookup_update_other. exact Hne.
Qed.

Lemma accept_self n k c : self (accept n k c) = self n.
Proof.
  unfold accept, sync_range.
  destruct (merge_in (lookup k (held n)) c), (puts (lookup k (held n)) c); cbn;
    try destruct (store_range n); reflexivity.
Qed.

(* no PutLocalRecord: nothing at all changes *)
Lemma accept_no_put n k c : puts (lookup k (held n)) c = false -> accept n k c = n.
Proof.
  intros Hp. unfold accept. rewrite Hp. unfold puts in Hp.
  destruct (merge_in (lookup k (held n)) c); [discriminate|reflexivity].
Qed.

Lemma accept_absent n k c : lookup k (held n) = None -> content_valid c = true ->
  lookup k (held (accept n k c)) = Some c.
Proof.
  intros Hl Hv. rewrite accept_held, Hl. unfold merge_in. rewrite Hv. cbn.
  apply lookup_update_same.
Qed.

Lemma accept_keeps n k c k' c' : lookup k' (held n) = Some c' -> k' <> k ->
  lookup k' (held (accept n k c)) = Some c'.
Proof. intros Hl Hne. rewrite accept_other; assumption. Qed.

(* different keys: the two acceptances commute (as maps) *)
Lemma accept_commute n k1 c1 k2 c2 : k1 <> k2 -> forall k,
  lookup k (held (accept (accept n k1 c1) k2 c2)) = lookup k (held (accept (accept n k2 c2) k1 c1)).
Proof.
  intros Hne k.
  rewrite (accept_held (accept n k1 c1) k2 c2), (accept_held (accept n k2 c2) k1 c1).
  rewrite (accept_other n k1 c1 k2) by congruence.
  rewrite (accept_other n k2 c2 k1) by congruence.
  rewrite !accept_held.
  destruct (merge_in (lookup k2 (held n)) c2) as [x2|], (merge_in (lookup k1 (held n)) c1) as [x1|];
    try reflexivity.
  destruct (N.eq_dec k k1) as [->|H1].
  - rewrite lookup_update_other by congruence. rewrite !lookup_update_same. reflexivity.
  - destruct (N.eq_dec k k2) as [->|H2].
    + rewrite lookup_update_same. rewrite lookup_update_other by congruence.
      rewrite lookup_update_same. reflexivity.
    + rewrite !lookup_update_other by congruence. reflexivity.
Qed.

(* ---------------------------------------------------------------- mutable records *)
Lemma reg_merge_union n k b o1 o2 :
  lookup k (held n) = Some (CReg b o1) ->
  exists x, lookup k (held (accept n k (CReg b o2))) = Some (CReg b x) /\
            forall e, mem e x = true <-> mem e o1 = true \/ mem e o2 = true.
Proof.
  intros Hl. rewrite accept_held, Hl. cbn. rewrite N.eqb_refl.
  destruct (subset o2 o1) eqn:Es.
  - exists o1. split; [exact Hl|]. intros e. split; [auto|]. intros [A|A]; [exact A|].
    unfold subset in Es. rewrite forallb_forall in Es. apply mem_true_iff in A.
    exact (Es e A).
  - exists (union o1 o2). split; [apply lookup_update_same|].
    intros e. rewrite mem_union, orb_true_iff. tauto.
Qed.

Lemma txs_merge_union n k t1 t2 :
  lookup k (held n) = Some (CTxs t1) ->
  exists x, lookup k (held (accept n k (CTxs t2))) = Some (CTxs x) /\
            forall e, mem e x = true <-> mem e t1 = true \/ mem e t2 = true.
Proof.
  intros Hl. rewrite accept_held, Hl. cbn.
  destruct (subset t2 t1) eqn:Es.
  - exists t1. split; [exact Hl|]. intros e. split; [auto|]. intros [A|A]; [exact A|].
    unfold subset in Es. rewrite forallb_forall in Es. apply mem_true_iff in A.
    exact (Es e A).
  - exists (union t1 t2). split; [apply lookup_update_same|].
    intros e. rewrite mem_union, orb_true_iff. tauto.
Qed.

Lemma pad_higher_wins n k o c1 d1 c2 d2 :
  lookup k (held n) = Some (CPad o c1 d1 true) -> c1 < c2 ->
  lookup k (held (accept n k (CPad o c2 d2 true))) = Some (CPad o c2 d2 true).
Proof.
  intros Hl Hlt. rewrite accept_held, Hl. cbn.
  destruct (N.ltb_spec c1 c2); [apply lookup_update_same|lia].
Qed.

Lemma pad_lower_ignored n k o c1 d1 v1 o2 c2 d2 v2 :
  lookup k (held n) = Some (CPad o c1 d1 v1) -> c2 <= c1 ->
  accept n k (CPad o2 c2 d2 v2) = n.
Proof.
  intros Hl Hle. apply accept_no_put. rewrite Hl. unfold puts, merge_in. cbn.
  destruct v2; cbn; [|reflexivity].
  destruct (N.ltb_spec c1 c2); [lia|reflexivity].
Qed.

Lemma pad_invalid_ignored n k o c d : accept n k (CPad o c d false) = n.
Proof.
  apply accept_no_put. unfold puts, merge_in. cbn.
  destruct (lookup k (held n)) as [[]|]; reflexivity.
Qed.

(* ---------------------------------------------------------------- one exchange a -> b *)
Definition fetch_fold (a : node) (acc : node) (m : msg) : node :=
  match m with
  | Fetch _ _ k => match serve a k with Some c => accept acc k c | None => acc end
  | _ => acc
  end.

Lemma sync_from_unfold H D a b :
  sync_from H D a b =
  fold_left (fetch_fold a) (snd (on_replicate D b (self a) (advert H a))) (fst (on_replicate D b (self a) (advert H a))).
Proof. unfold sync_from. destruct (on_replicate D b (self a) (advert H a)); reflexivity. Qed.

Lemma fold_fetch_other a : forall (ws : list (key * rtype)) (h : peer) (p : peer) acc k,
  ~ In k (map fst ws) ->
  lookup k (held (fold_left (fetch_fold a) (map (fun x => Fetch p h (fst x)) ws) acc)) = lookup k (held acc).
Proof.
  induction ws as [|w r IH]; intros h p acc k Hn; cbn; [reflexivity|].
  cbn in Hn. rewrite IH by tauto.
  unfold serve. destruct (lookup (fst w) (held a)); [|reflexivity].
  apply accept_other. intros E. apply Hn. left. symmetry. exact E.
Qed.

Lemma fold_fetch_gets a : forall (ws : list (key * rtype)) (h : peer) (p : peer) acc k c,
  NoDup (map fst ws) -> In k (map fst ws) -> lookup k (held acc) = None ->
  lookup k (held a) = Some c -> content_valid c = true ->
  lookup k (held (fold_left (fetch_fold a) (map (fun x => Fetch p h (fst x)) ws) acc)) = Some c.
Proof.
  induction ws as [|w r IH]; intros h p acc k c Hnd Hin Hl Ha Hv; [destruct Hin|].
  cbn in Hnd. inversion Hnd as [|x xs Hnotin Hnd']; subst. cbn.
  destruct Hin as [E|Hin].
  - rewrite E. unfold serve. rewrite Ha.
    rewrite fold_fetch_other by exact (eq_ind _ (fun z => ~ In z (map fst r)) Hnotin _ E).
    apply accept_absent; assumption.
  - assert (Hne : k <> fst w) by (intros E; apply Hnotin; rewrite <- E; exact Hin).
    apply IH; auto.
    unfold serve. destruct (lookup (fst w) (held a)); [|exact Hl].
    rewrite accept_other; assumption.
Qed.

(* a missing valid record within the receiver's fetch range is brought over by one exchange *)
Lemma sync_gets_missing H D a b k c :
  NoDup (map fst (held a)) -> accepts_holder b (self a) = true -> inflight b = [] ->
  lookup k (held a) = Some c -> content_valid c = true -> lookup k (held b) = None ->
  in_range D b k = true ->
  lookup k (held (sync_from H D a b)) = Some c.
Proof.
  intros Hnd Hacc Hif Ha Hv Hb Hr. rewrite sync_from_unfold. unfold on_replicate. rewrite Hacc. cbn [fst snd].
  apply fold_fetch_gets; auto.
  - apply wanted_nodup. apply ranged_nodup. rewrite advert_keys. exact Hnd.
  - apply (in_map fst (wanted b [] (ranged D b (advert H a))) (k, type_of H c)).
    apply wanted_complete; auto.
    + apply ranged_nodup. rewrite advert_keys. exact Hnd.
    + apply ranged_keeps; [apply advert_complete; exact Ha|exact Hr].
    + rewrite Hif. reflexivity.
Qed.

Lemma sync_keeps_held H D a b k c :
  lookup k (held b) = Some c -> lookup k (held (sync_from H D a b)) = Some c.
Proof.
  intros Hb. rewrite sync_from_unfold. unfold on_replicate.
  destruct (accepts_holder b (self a)); cbn [fst snd]; [|exact Hb].
  rewrite fold_fetch_other; [exact Hb|].
  intros Hin. apply in_map_iff in Hin as [x [Ex Hx]].
  destruct (wanted_sub b (ranged D b (advert H a)) [] x Hx) as (_ & B & _). rewrite Ex in B. congruence.
Qed.

Lemma sync_absent H D a b k :
  lookup k (held a) = None -> lookup k (held b) = None -> lookup k (held (sync_from H D a b)) = None.
Proof.
  intros Ha Hb. rewrite sync_from_unfold. unfold on_replicate.
  destruct (accepts_holder b (self a)); cbn [fst snd]; [|exact Hb].
  rewrite fold_fetch_other; [exact Hb|].
  intros Hin. apply in_map_iff in Hin as [x [Ex Hx]].
  destruct (wanted_sub b (ranged D b (advert H a)) [] x Hx) as (A & _).
  apply ranged_sub in A.
  apply (in_map fst) in A. rewrite advert_keys, Ex in A.
  exact (lookup_none_notin k (held a) Ha A).
Qed.

(* a record beyond the receiver's fetch range is NOT brought over when the list carries two or more
   (or no) new keys: the range filter applies *)
Lemma sync_out_of_range_absent H D a b k :
  lookup k (held b) = None -> in_range D b k = false ->
  length (unheld b (advert H a)) <> 1%nat ->
  lookup k (held (sync_from H D a b)) = None.
Proof.
  intros Hb Hr Hl. rewrite sync_from_unfold. unfold on_replicate.
  destruct (accepts_holder b (self a)); cbn [fst snd]; [|exact Hb].
  rewrite fold_fetch_other; [exact Hb|].
  intros Hin. apply in_map_iff in Hin as [x [Ex Hx]].
  destruct (wanted_sub b (ranged D b (advert H a)) [] x Hx) as (A & _).
  apply (ranged_in_range D b _ x Hl) in A. rewrite Ex in A. congruence.
Qed.

Lemma fold_fetch_self a : forall l acc, self (fold_left (fetch_fold a) l acc) = self acc.
Proof.
  induction l as [|m r IH]; intros acc; cbn; [reflexivity|]. rewrite IH.
  destruct m; cbn; try reflexivity. destruct (serve a k); [apply accept_self|reflexivity].
Qed.

Lemma sync_self H D a b : self (sync_from H D a b) = self b.
Proof.
  rewrite sync_from_unfold, fold_fetch_self. unfold on_replicate.
  destruct (accepts_holder b (self a)); reflexivity.
Qed.

Lemma update_keys_in k c l x : In x (map fst (update k c l)) -> x = k \/ In x (map fst l).
Proof.
  induction l as [|[k' c'] r IH]; cbn; [intros [E|[]]; auto|].
  destruct (N.eqb_spec k k') as [->|Hne]; cbn; [tauto|].
  intros [E|Hin]; [auto|]. destruct (IH Hin); auto.
Qed.

Lemma update_nodup k c l : NoDup (map fst l) -> NoDup (map fst (update k c l)).
Proof.
  induction l as [|[k' c'] r IH]; cbn; intros Hnd; [constructor; [intros []|constructor]|].
  inversion Hnd as [|x xs Hnotin Hnd']; subst.
  destruct (N.eqb_spec k k') as [->|Hne]; cbn; [constructor; assumption|].
  constructor; [|apply IH; exact Hnd'].
  intros Hin. destruct (update_keys_in _ _ _ _ Hin) as [E|E]; [congruence|contradiction].
Qed.

Lemma accept_nodup n k c : NoDup (map fst (held n)) -> NoDup (map fst (held (accept n k c))).
Proof.
  intros Hnd. rewrite accept_held. destruct (merge_in (lookup k (held n)) c); [|exact Hnd].
  apply update_nodup. exact Hnd.
Qed.

Lemma fold_fetch_nodup a : forall l acc, NoDup (map fst (held acc)) ->
  NoDup (map fst (held (fold_left (fetch_fold a) l acc))).
Proof.
  induction l as [|m r IH]; intros acc Hnd; cbn; [exact Hnd|]. apply IH.
  destruct m; cbn; try exact Hnd. destruct (serve a k); [apply accept_nodup|]; exact Hnd.
Qed.

Lemma sync_nodup H D a b : NoDup (map fst (held b)) -> NoDup (map fst (held (sync_from H D a b))).
Proof.
  intros Hnd. rewrite sync_from_unfold. apply fold_fetch_nodup. unfold on_replicate.
  destruct (accepts_holder b (self a)); exact Hnd.
Qed.

Lemma content_eq_dec (a b : content) : {a = b} + {a <> b}.
Proof.
  decide equality; try apply N.eq_dec; try apply Bool.bool_dec; apply (list_eq_dec N.eq_dec).
Qed.

(* ---------------------------------------------------------------- periodic replication *)
(* one round between two neighbours: a's list reaches b, then b's (new) list reaches a *)
Definition round (H : content -> N) (D : peer -> key -> N) (ab : node * node) : node * node :=
  let b' := sync_from H D (fst ab) (snd ab) in
  let a' := sync_from H D b' (fst ab) in (a', b').

(* F16, the known class: both hold the key, with different content *)
Definition KnownOtherVersion (a b : node) : Prop :=
  exists k ca cb, lookup k (held a) = Some ca /\ lookup k (held b) = Some cb /\ ca <> cb.

Definition all_valid (n : node) : Prop :=
  forall k c, lookup k (held n) = Some c -> content_valid c = true.

(* "in-range neighbour": every record y holds is within x's fetch range *)
Definition covers (D : peer -> key -> N) (x y : node) : Prop :=
  forall k c, lookup k (held y) = Some c -> in_range D x k = true.

Lemma round_converges H D a b :
  NoDup (map fst (held a)) -> NoDup (map fst (held b)) ->
  accepts_holder b (self a) = true -> accepts_holder a (self b) = true ->
  inflight a = [] -> inflight b = [] -> all_valid a -> all_valid b ->
  covers D b a -> covers D a b ->
  ~ KnownOtherVersion a b ->
  forall k, lookup k (held (fst (round H D (a, b)))) = lookup k (held (snd (round H D (a, b)))) /\
            (lookup k (held (snd (round H D (a, b)))) =
               match lookup k (held a) with Some c => Some c | None => lookup k (held b) end).
Proof.
  intros Na Nb Hab Hba Ia Ib Va Vb Cba Cab Hk k. unfold round. cbn [fst snd].
  set (b' := sync_from H D a b).
  assert (Hacc' : accepts_holder a (self b') = true) by (unfold b'; rewrite sync_self; exact Hba).
  destruct (lookup k (held a)) as [ca|] eqn:Ea.
  - assert (Eb' : lookup k (held b') = Some ca).
    { destruct (lookup k (held b)) as [cb|] eqn:Eb.
      - assert (ca = cb).
        { destruct (content_eq_dec ca cb) as [E|E]; [exact E|].
          exfalso. apply Hk. exists k, ca, cb. auto. }
        subst cb. apply sync_keeps_held. exact Eb.
      - apply sync_gets_missing; auto; [apply (Va k); exact Ea|apply (Cba k ca); exact Ea]. }
    split; [|exact Eb']. rewrite Eb'. apply sync_keeps_held. exact Ea.
  - destruct (lookup k (held b)) as [cb|] eqn:Eb.
    + assert (Eb' : lookup k (held b') = Some cb) by (apply sync_keeps_held; exact Eb).
      split; [|exact Eb']. rewrite Eb'.
      apply sync_gets_missing; auto.
      * unfold b'. apply sync_nodup. exact Nb.
      * apply (Vb k). exact Eb.
      * apply (Cab k cb). exact Eb.
    + assert (Eb' : lookup k (held b') = None) by (apply sync_absent; assumption).
      split; [|exact Eb']. rewrite Eb'. apply sync_absent; assumption.
Qed.

(* the witness: one register key, two operation sets; H and D are irrelevant here (no range set) *)
Definition f16_a : node := mkNode 0 [(1, CReg 1 [1])] [(1, 1)] [] None None.
Definition f16_b : node := mkNode 1 [(1, CReg 1 [2])] [(0, 1)] [] None None.

Lemma f16_round H D : round H D (f16_a, f16_b) = (f16_a, f16_b).
Proof. reflexivity. Qed.

Lemma f16_never_converges H D : forall n, Nat.iter n (round H D) (f16_a, f16_b) = (f16_a, f16_b).
Proof.
  induction n as [|n IH]; [reflexivity|].
  change (Nat.iter (S n) (round H D) (f16_a, f16_b)) with (round H D (Nat.iter n (round H D) (f16_a, f16_b))).
  rewrite IH. apply f16_round.
Qed.

Lemma f16_is_known : KnownOtherVersion f16_a f16_b.
Proof. exists 1, (CReg 1 [1]), (CReg 1 [2]). repeat split; try reflexivity. discriminate. Qed.

Lemma f16_premises D :
  NoDup (map fst (held f16_a)) /\ NoDup (map fst (held f16_b)) /\
  accepts_holder f16_b (self f16_a) = true /\ accepts_holder f16_a (self f16_b) = true /\
  inflight f16_a = [] /\ inflight f16_b = [] /\ all_valid f16_a /\ all_valid f16_b /\
  covers D f16_b f16_a /\ covers D f16_a f16_b.
Proof.
  repeat split; try reflexivity; try (constructor; [intros []|constructor]).
  - intros k c. cbn. destruct (k =? 1); [intros E; inversion E; reflexivity|discriminate].
  - intros k c. cbn. destruct (k =? 1); [intros E; inversion E; reflexivity|discriminate].
Qed.

Lemma f16_onrep_b D t : on_replicate D f16_b 0 [(1, t)] = (f16_b, []).
Proof. unfold on_replicate. replace (accepts_holder f16_b 0) with true by reflexivity. reflexivity. Qed.
Lemma f16_onrep_a D t : on_replicate D f16_a 1 [(1, t)] = (f16_a, []).
Proof. unfold on_replicate. replace (accepts_holder f16_a 1) with true by reflexivity. reflexivity. Qed.

Lemma f16_rep_a H : replicate_msgs H f16_a = [Replicate 0 1 0 (advert H f16_a)].
Proof. reflexivity. Qed.
Lemma f16_rep_b H : replicate_msgs H f16_b = [Replicate 1 0 1 (advert H f16_b)].
Proof. reflexivity. Qed.

(* the same witness at the level of messages: both lists are sent and delivered, nothing is fetched *)
Example f16_messages H D :
  let s0 := mkSys [f16_a; f16_b] [] in
  let ma := Replicate 0 1 0 (advert H f16_a) in
  let mb := Replicate 1 0 1 (advert H f16_b) in
  run H D s0 [OReplicate 0; OReplicate 1; ODeliver ma; ODeliver mb] = s0.
Proof.
  intros s0 ma mb. unfold run, s0, ma, mb. cbn -[on_replicate replicate_msgs].
  rewrite f16_rep_a, f16_rep_b. cbn -[on_replicate].
  repeat (unfold kts_eqb, kts_sub, kt_eqb, rtype_eqb; rewrite ?N.eqb_refl; cbn -[on_replicate]).
  rewrite f16_onrep_b. cbn -[on_replicate].
  repeat (unfold kts_eqb, kts_sub, kt_eqb, rtype_eqb; rewrite ?N.eqb_refl; cbn -[on_replicate]).
  rewrite f16_onrep_a. reflexivity.
Qed.

(* non-vacuity of round_converges: two nodes with disjoint stores of every kind end up equal *)
Definition ex_a : node := mkNode 0 [(1, CChunk 7); (2, CReg 1 [1; 2])] [(1, 1)] [] None None.
Definition ex_b : node := mkNode 1 [(3, CPad 5 2 9 true); (4, CTxs [4])] [(0, 1)] [] None None.

Example round_converges_example :
  ~ KnownOtherVersion ex_a ex_b /\
  held (snd (round (fun _ => 0) (fun _ _ => 0) (ex_a, ex_b))) =
    [(3, CPad 5 2 9 true); (4, CTxs [4]); (1, CChunk 7); (2, CReg 1 [1; 2])] /\
  held (fst (round (fun _ => 0) (fun _ _ => 0) (ex_a, ex_b))) =
    [(1, CChunk 7); (2, CReg 1 [1; 2]); (3, CPad 5 2 9 true); (4, CTxs [4])].
Proof.
  split; [|split; reflexivity].
  intros (k & ca & cb & A & B & _). cbn in A, B.
  destruct (k =? 1) eqn:E1; [apply N.eqb_eq in E1; subst k; cbn in B; discriminate|].
  destruct (k =? 2) eqn:E2; [apply N.eqb_eq in E2; subst k; cbn in B; discriminate|discriminate].
Qed.

(* ---------------------------------------------------------------- the K closest *)
Lemma repl_k_value_pinned : KVAL = 20.
Proof. reflexivity. Qed.

Lemma insert_perm x l : Permutation (insert_by_dist x l) (x :: l).
Proof.
  induction l as [|y r IH]; cbn; [apply Permutation_refl|].
  destruct (snd x <=? snd y); [apply Permutation_refl|].
  apply perm_trans with (y :: x :: r); [apply perm_skip; exact IH|apply perm_swap].
Qed.

Lemma sort_perm l : Permutation (sort_by_dist l) l.
Proof.
  induction l as [|x r IH]; cbn; [constructor|].
  apply perm_trans with (x :: sort_by_dist r); [apply insert_perm|apply perm_skip; exact IH].
Qed.

Definition dle (a b : peer * N) : Prop := snd a <= snd b.
Definition dlt (a b : peer * N) : Prop := snd a < snd b.

Lemma insert_sorted x l : StronglySorted dle l -> StronglySorted dle (insert_by_dist x l).
Proof.
  induction l as [|y r IH]; cbn; intros Hs; [repeat constructor|].
  inversion Hs as [|a b Hr Hall]; subst.
  destruct (N.leb_spec (snd x) (snd y)) as [Hle|Hgt].
  - constructor; [exact Hs|]. constructor; [exact Hle|].
    apply Forall_forall. intros z Hz. rewrite Forall_forall in Hall. specialize (Hall z Hz).
    unfold dle in *. lia.
  - constructor; [apply IH; exact Hr|].
    apply Forall_forall. intros z Hz.
    apply (Permutation_in _ (insert_perm x r)) in Hz. destruct Hz as [<-|Hz].
    + unfold dle. lia.
    + rewrite Forall_forall in Hall. exact (Hall z Hz).
Qed.

Lemma sort_sorted l : StronglySorted dle (sort_by_dist l).
Proof. induction l as [|x r IH]; cbn; [constructor|apply insert_sorted; exact IH]. Qed.

Lemma sorted_strict l : StronglySorted dle l -> NoDup (map snd l) -> StronglySorted dlt l.
Proof.
  induction l as [|x r IH]; intros Hs Hnd; [constructor|].
  inversion Hs as [|a b Hr Hall]; subst. cbn in Hnd. inversion Hnd as [|a b Hnotin Hnd']; subst.
  constructor; [apply IH; assumption|].
  apply Forall_forall. intros z Hz. rewrite Forall_forall in Hall. specialize (Hall z Hz).
  unfold dle, dlt in *. assert (snd x <> snd z).
  { intros E. apply Hnotin. rewrite E. apply in_map. exact Hz. }
  lia.
Qed.

(* in a strictly sorted list the position of an element is the number of strictly nearer ones *)
Lemma rank_of_nth : forall l i x, StronglySorted dlt l -> nth_error l i = Some x ->
  length (filter (fun y : peer * N => snd y <? snd x) l) = i.
Proof.
  induction l as [|a r IH]; intros i x Hs Hn; [destruct i; discriminate|].
  inversion Hs as [|a' b Hr Hall]; subst. rewrite Forall_forall in Hall.
  destruct i as [|j]; cbn in Hn.
  - inversion Hn; subst x. cbn. rewrite N.ltb_irrefl.
    assert (E : filter (fun y : peer * N => snd y <? snd a) r = []).
    { clear -Hall. induction r as [|z r IH]; cbn; [reflexivity|].
      assert (Hz : dlt a z) by (apply Hall; left; reflexivity). unfold dlt in Hz.
      destruct (N.ltb_spec (snd z) (snd a)); [lia|]. apply IH. intros y Hy. apply Hall. right. exact Hy. }
    rewrite E. reflexivity.
  - assert (Hx : In x r) by (eapply nth_error_In; exact Hn).
    assert (Hax : dlt a x) by (apply Hall; exact Hx). unfold dlt in Hax.
    cbn. destruct (N.ltb_spec (snd a) (snd x)); [|lia]. cbn. f_equal. apply IH; assumption.
Qed.

Lemma filter_length_perm {A} (p : A -> bool) l l' :
  Permutation l l' -> length (filter p l) = length (filter p l').
Proof.
  induction 1; cbn; auto.
  - destruct (p x); cbn; congruence.
  - destruct (p x), (p y); reflexivity.
  - congruence.
Qed.

Lemma in_firstn_nth {A} : forall m (l : list A) x, In x (firstn m l) -> exists i, (i < m)%nat /\ nth_error l i = Some x.
Proof.
  induction m as [|m IH]; intros l x Hin; [destruct Hin|].
  destruct l as [|a r]; [destruct Hin|]. cbn in Hin. destruct Hin as [<-|Hin].
  - exists 0%nat. split; [lia|reflexivity].
  - destruct (IH r x Hin) as (i & Hi & Hn). exists (S i). split; [lia|exact Hn].
Qed.

Lemma nth_in_firstn {A} : forall m (l : list A) i x, (i < m)%nat -> nth_error l i = Some x -> In x (firstn m l).
Proof.
  induction m as [|m IH]; intros l i x Hi Hn; [lia|].
  destruct l as [|a r]; [destruct i; discriminate|]. destruct i as [|j]; cbn in Hn.
  - inversion Hn. left. reflexivity.
  - right. apply (IH r j); [lia|exact Hn].
Qed.

Lemma nodup_fst_unique (l : list (peer * N)) h d d' :
  NoDup (map fst l) -> In (h, d) l -> In (h, d') l -> d = d'.
Proof.
  induction l as [|x r IH]; intros Hnd H1 H2; [destruct H1|].
  cbn in Hnd. inversion Hnd as [|a b Hnotin Hnd']; subst.
  destruct H1 as [E1|H1], H2 as [E2|H2].
  - congruence.
  - exfalso. apply Hnotin. subst x. apply (in_map fst) in H2. exact H2.
  - exfalso. apply Hnotin. subst x. apply (in_map fst) in H1. exact H1.
  - apply IH; assumption.
Qed.

(* number of routing-table peers strictly nearer to the node than distance d *)
Definition nearer (n : node) (d : N) : nat := length (filter (fun y : peer * N => snd y <? d) (table n)).

(* A list is acted on iff its holder is one of the K_VALUE - 1 nearest routing-table peers: a table peer
   at distance d is accepted exactly when fewer than K_VALUE - 1 table peers are strictly nearer. *)
Lemma accepts_holder_rank n h d :
  NoDup (map fst (table n)) -> NoDup (map snd (table n)) ->
  In (h, d) (table n) -> h <> self n ->
  (accepts_holder n h = true <-> (nearer n d < N.to_nat KVAL - 1)%nat).
Proof.
  intros Hf Hs Hin Hne. unfold nearer.
  set (S := sort_by_dist (table n)). set (m := (N.to_nat KVAL - 1)%nat).
  assert (HP : Permutation S (table n)) by apply sort_perm.
  assert (HS : StronglySorted dlt S).
  { apply sorted_strict; [apply sort_sorted|].
    apply (Permutation_NoDup (l := map snd (table n))); [apply Permutation_map, Permutation_sym, HP|exact Hs]. }
  assert (Hcnt : forall x : peer * N, length (filter (fun y : peer * N => snd y <? snd x) (table n)) = length (filter (fun y : peer * N => snd y <? snd x) S)).
  { intros x. apply filter_length_perm. apply Permutation_sym. exact HP. }
  unfold accepts_holder, closest. fold S. fold m.
  assert (Hns : (h =? self n) = false) by (apply N.eqb_neq; exact Hne).
  cbn [mem]. rewrite Hns. cbn [orb negb]. rewrite andb_true_r.
  rewrite mem_true_iff. split.
  - intros Hm. apply in_map_iff in Hm as [[h' d'] [Eh He]]. cbn in Eh. subst h'.
    destruct (in_firstn_nth m S (h, d') He) as (i & Hi & Hn).
    assert (Hin' : In (h, d') (table n)).
    { apply (Permutation_in _ HP). eapply nth_error_In. exact Hn. }
    assert (d' = d) by (eapply nodup_fst_unique; eassumption). subst d'.
    specialize (Hcnt (h, d)). cbn [snd] in Hcnt. rewrite Hcnt.
    pose proof (rank_of_nth S i (h, d) HS Hn) as Hr. cbn [snd] in Hr. rewrite Hr. exact Hi.
  - intros Hlt. assert (HinS : In (h, d) S) by (apply (Permutation_in _ (Permutation_sym HP)); exact Hin).
    destruct (In_nth_error _ _ HinS) as [i Hn].
    specialize (Hcnt (h, d)). cbn [snd] in Hcnt. rewrite Hcnt in Hlt.
    pose proof (rank_of_nth S i (h, d) HS Hn) as Hr. cbn [snd] in Hr. rewrite Hr in Hlt.
    apply in_map_iff. exists (h, d). split; [reflexivity|]. apply (nth_in_firstn m S i); assumption.
Qed.

(* ... and a holder that is not in the routing table at all (or is the node itself) never is *)
Lemma accepts_holder_in_table n h : accepts_holder n h = true -> In h (map fst (table n)) /\ h <> self n.
Proof.
  unfold accepts_holder, closest. intros Ha. apply andb_prop in Ha as [Hm Hn].
  apply negb_true_iff, N.eqb_neq in Hn. split; [|exact Hn].
  cbn [mem] in Hm. apply orb_prop in Hm as [Hm|Hm]; [apply N.eqb_eq in Hm; contradiction|].
  apply mem_true_iff in Hm. apply in_map_iff in Hm as [x [Ex Hx]].
  apply in_map_iff. exists x. split; [exact Ex|].
  apply (Permutation_in _ (sort_perm (table n))).
  destruct (in_firstn_nth _ _ _ Hx) as (i & _ & Hnth). eapply nth_error_In. exact Hnth.
Qed.

(* boundary example: K_VALUE + 2 peers at distances 1 .. K_VALUE + 2; the (K_VALUE-1)-th nearest is the last
   holder acted on, the K_VALUE-th nearest is the first one ignored *)
Definition kx_table : list (peer * N) :=
  map (fun i => (100 + N.of_nat i, N.of_nat i)) (rev (seq 1 22)).
Definition kx_node : node := mkNode 0 [] kx_table [] None None.

Example k_closest_boundary_example :
  length (table kx_node) = 22%nat /\
  closest kx_node = 0 :: map (fun i => 100 + N.of_nat i) (seq 1 19) /\
  length (closest kx_node) = N.to_nat KVAL /\
  nearer kx_node 19 = 18%nat /\ accepts_holder kx_node 119 = true /\
  nearer kx_node 20 = 19%nat /\ accepts_holder kx_node 120 = false /\
  accepts_holder kx_node 121 = false /\ accepts_holder kx_node 0 = false /\
  (forall D, on_replicate D kx_node 119 [(5, TChunk); (6, TChunk)] =
             (set_inflight kx_node [(5, TChunk); (6, TChunk)], [Fetch 0 119 5; Fetch 0 119 6])) /\
  (forall D, on_replicate D kx_node 120 [(5, TChunk); (6, TChunk)] = (kx_node, [])).
Proof. repeat split; try reflexivity. Qed.

(* ---------------------------------------------------------------- the responsible range *)
Lemma sync_range_assigns n r : store_range n = Some r -> fetch_range (sync_range n) = Some r.
Proof. intros E. unfold sync_range. rewrite E. reflexivity. Qed.

(* a put re-assigns the fetcher's range from the store's, whatever the fetcher's range was before
   (in particular a LARGER range replaces a smaller one) *)
Lemma accept_syncs n k c r :
  store_range n = Some r -> puts (lookup k (held n)) c = true ->
  fetch_range (accept n k c) = Some r /\ store_range (accept n k c) = Some r.
Proof.
  intros Hs Hp. unfold accept. rewrite Hp. unfold sync_range.
  destruct (merge_in (lookup k (held n)) c); cbn; rewrite Hs; cbn; split; reflexivity || exact Hs.
Qed.

Lemma sync_range_store x : store_range (sync_range x) = store_range x.
Proof. unfold sync_range. destruct (store_range x) eqn:E; cbn; auto. Qed.

Lemma accept_store_range n k c : store_range (accept n k c) = store_range n.
Proof.
  unfold accept.
  destruct (merge_in (lookup k (held n)) c), (puts (lookup k (held n)) c);
    rewrite ?sync_range_store; reflexivity.
Qed.

(* without a put nothing is synced: setting the store's range alone leaves the fetcher's as it was *)
Lemma set_store_range_lags n r :
  fetch_range (set_store_range n r) = fetch_range n /\ store_range (set_store_range n r) = r.
Proof. split; reflexivity. Qed.

Lemma on_replicate_ranges D n h keys :
  fetch_range (fst (on_replicate D n h keys)) = fetch_range n /\
  store_range (fst (on_replicate D n h keys)) = store_range n.
Proof. unfold on_replicate. destruct (accepts_holder n h); split; reflexivity. Qed.

(* with no range set in the fetcher, handling a list is the unfiltered `wanted` -- the form the C08 bridge
   (FetcherBridgeRepl.on_replicate_matches_add_keys_lemma, stated for a fetcher state with range = None) uses *)
Lemma on_replicate_no_range D n h keys :
  fetch_range n = None ->
  on_replicate D n h keys =
  if accepts_holder n h
  then (set_inflight n (inflight n ++ wanted n [] keys), map (fun x => Fetch (self n) h (fst x)) (wanted n [] keys))
  else (n, []).
Proof. intros Hr. unfold on_replicate. rewrite (ranged_no_range D n keys Hr). reflexivity. Qed.

(* history level: any sequence of range settings followed by a stored record leaves the fetcher with the
   LAST value set *)
Lemma get_node_self p l n : get_node p l = Some n -> self n = p.
Proof.
  induction l as [|m r IH]; cbn; [discriminate|].
  destruct (N.eqb_spec (self m) p) as [E|_]; [intros X; injection X as <-; exact E|exact IH].
Qed.

Lemma get_put_same n' l m : get_node (self n') l = Some m -> get_node (self n') (put_node n' l) = Some n'.
Proof.
  induction l as [|x r IH]; cbn; [discriminate|].
  destruct (N.eqb_spec (self x) (self n')) as [E|Hne]; cbn.
  - intros _. rewrite N.eqb_refl. reflexivity.
  - destruct (N.eqb_spec (self x) (self n')); [contradiction|]. exact IH.
Qed.

Lemma run_app H D s a b : run H D s (a ++ b) = run H D (run H D s a) b.
Proof. unfold run. apply fold_left_app. Qed.

Lemma run_set_ranges H D p : forall rs s n r,
  get_node p (nodes s) = Some n ->
  exists n', get_node p (nodes (run H D s (map (OSetRange p) (rs ++ [r])))) = Some n' /\
             store_range n' = Some r /\ held n' = held n /\ self n' = p.
Proof.
  induction rs as [|r0 rs IH]; intros s n r Hg.
  - cbn. rewrite Hg. pose proof (get_node_self _ _ _ Hg) as Hs.
    exists (set_store_range n (Some r)). cbn. repeat split; auto.
    replace p with (self (set_store_range n (Some r))) by exact Hs.
    eapply get_put_same. cbn. rewrite Hs. exact Hg.
  - cbn [app map]. change (run H D s (OSetRange p r0 :: map (OSetRange p) (rs ++ [r])))
      with (run H D (step H D s (OSetRange p r0)) (map (OSetRange p) (rs ++ [r]))).
    pose proof (get_node_self _ _ _ Hg) as Hs.
    assert (Hg' : get_node p (nodes (step H D s (OSetRange p r0))) = Some (set_store_range n (Some r0))).
    { cbn. rewrite Hg. cbn. replace p with (self (set_store_range n (Some r0))) by exact Hs.
      eapply get_put_same. cbn. rewrite Hs. exact Hg. }
    destruct (IH _ _ r Hg') as (n' & A & B & C & E). exists n'. repeat split; auto.
Qed.

Lemma range_history_last_wins_lemma H D s p n rs r k c :
  get_node p (nodes s) = Some n -> puts (lookup k (held n)) c = true ->
  exists n', get_node p (nodes (run H D s (map (OSetRange p) (rs ++ [r]) ++ [OSeed p k c true]))) = Some n' /\
             fetch_range n' = Some r /\ store_range n' = Some r.
Proof.
  intros Hg Hp. rewrite run_app.
  destruct (run_set_ranges H D p rs s n r Hg) as (n1 & A & B & C & E).
  set (s1 := run H D s (map (OSetRange p) (rs ++ [r]))) in *.
  exists (accept n1 k c). cbn. rewrite A. cbn.
  split.
  - replace p with (self (accept n1 k c)) by (rewrite accept_self; exact E).
    eapply get_put_same. rewrite accept_self, E. exact A.
  - apply accept_syncs; [exact B|rewrite C; exact Hp].
Qed.

(* every advertised entry whose key is not held and is within the fetcher's range is in flight once the
   list has been handled -- it already was, or a fetch for it goes out to the advertising holder *)
Lemma kt_mem_cons x y l :
  kt_mem x (y :: l) = ((fst x =? fst y) && rtype_eqb (snd x) (snd y)) || kt_mem x l.
Proof. reflexivity. Qed.

Lemma rtype_eqb_refl t : rtype_eqb t t = true.
Proof. destruct t; cbn; auto using N.eqb_refl. Qed.

Lemma wanted_covers n : forall keys seen x,
  In x keys -> lookup (fst x) (held n) = None ->
  kt_mem x (inflight n) || kt_mem x seen || kt_mem x (wanted n seen keys) = true.
Proof.
  induction keys as [|y r IH]; intros seen x Hin Hl; [destruct Hin|].
  cbn [wanted]. destruct Hin as [->|Hin].
  - rewrite Hl. cbn [orb].
    destruct (kt_mem x (inflight n)) eqn:Ei; cbn [orb]; [reflexivity|].
    destruct (kt_mem x seen) eqn:Es; cbn [orb]; [reflexivity|].
    rewrite kt_mem_cons, N.eqb_refl, rtype_eqb_refl. reflexivity.
  - destruct (match lookup (fst y) (held n) with Some _ => true | None => false end
              || kt_mem y (inflight n) || kt_mem y seen); [apply IH; assumption|].
    specialize (IH (y :: seen) x Hin Hl). rewrite !kt_mem_cons in *.
    destruct (kt_mem x (inflight n)); cbn [orb] in *; [reflexivity|].
    destruct (kt_mem x seen); cbn [orb] in *; [reflexivity|].
    rewrite orb_false_r in IH. exact IH.
Qed.

Lemma kt_mem_app x a b : kt_mem x (a ++ b) = kt_mem x a || kt_mem x b.
Proof. unfold kt_mem. apply existsb_app. Qed.

Lemma kt_mem_in x l : kt_mem x l = true -> exists y, In y l /\ fst y = fst x.
Proof.
  unfold kt_mem. intros E. apply existsb_exists in E as [y [Hy Ey]].
  apply andb_prop in Ey as [Ek _]. apply N.eqb_eq in Ek. exists y. split; [exact Hy|symmetry; exact Ek].
Qed.

Lemma in_range_is_fetched D n h keys k t :
  accepts_holder n h = true -> In (k, t) keys -> lookup k (held n) = None -> in_range D n k = true ->
  kt_mem (k, t) (inflight (fst (on_replicate D n h keys))) = true /\
  (kt_mem (k, t) (inflight n) = true \/ In (Fetch (self n) h k) (snd (on_replicate D n h keys))).
Proof.
  intros Ha Hin Hl Hr. unfold on_replicate. rewrite Ha. cbn [fst snd inflight set_inflight].
  assert (Hin' : In (k, t) (ranged D n keys)) by (apply ranged_keeps; assumption).
  pose proof (wanted_covers n (ranged D n keys) [] (k, t) Hin' Hl) as Hc.
  cbn [kt_mem existsb] in Hc. rewrite orb_false_r in Hc.
  split; [rewrite kt_mem_app; exact Hc|].
  apply orb_prop in Hc as [Hc|Hc]; [left; exact Hc|right].
  apply kt_mem_in in Hc as [y [Hy Ey]]. cbn in Ey.
  apply in_map_iff. exists y. split; [rewrite Ey; reflexivity|exact Hy].
Qed.

(* no key beyond the fetcher's range is fetched from a list that does not have exactly one new key *)
Lemma out_of_range_not_fetched_lemma D n h keys :
  length (unheld n keys) <> 1%nat ->
  (forall k, In (Fetch (self n) h k) (snd (on_replicate D n h keys)) -> in_range D n k = true) /\
  (forall x, In x (inflight (fst (on_replicate D n h keys))) -> In x (inflight n) \/ in_range D n (fst x) = true).
Proof.
  intros Hl. unfold on_replicate. destruct (accepts_holder n h); cbn [fst snd inflight set_inflight].
  - split.
    + intros k Hin. apply in_map_iff in Hin as [x [Ex Hx]]. inversion Ex; subst k.
      destruct (wanted_sub n (ranged D n keys) [] x Hx) as (A & _).
      exact (ranged_in_range D n keys x Hl A).
    + intros x Hin. apply in_app_or in Hin as [Hin|Hin]; [left; exact Hin|right].
      destruct (wanted_sub n (ranged D n keys) [] x Hin) as (A & _).
      exact (ranged_in_range D n keys x Hl A).
  - split; [intros k []|intros x Hx; left; exact Hx].
Qed.

(* the regrow scenario: the fetcher was synced at range 5, the store's range then grew to 9 and a record was
   stored; a list with two new keys at distances 7 and 12 and one at 3: the keys at 3 and 7 are fetched, the
   one at 12 is not.  Without the second sync (lag) only the key at 3 is. *)
Definition rg_D (p : peer) (k : key) : N := match k with 1 => 3 | 2 => 7 | 3 => 12 | _ => 100 end.
Definition rg_node (sr fr : option N) : node := mkNode 1 [] [(0, 1)] [] sr fr.
Definition rg_keys : list (key * rtype) := [(1, TChunk); (2, TChunk); (3, TChunk)].

Example regrow_example :
  let n0 := rg_node (Some 9) (Some 5) in
  let n1 := accept n0 9 (CChunk 1) in
  fetch_range n1 = Some 9 /\
  snd (on_replicate rg_D n1 0 rg_keys) = [Fetch 1 0 1; Fetch 1 0 2] /\
  snd (on_replicate rg_D n0 0 rg_keys) = [Fetch 1 0 1] /\
  (* shrink again after the regrow *)
  snd (on_replicate rg_D (accept (set_store_range n1 (Some 4)) 8 (CChunk 2)) 0 rg_keys) = [Fetch 1 0 1] /\
  (* the single-new-key fast path skips the range check (C08's F15, HEAD behaviour) *)
  snd (on_replicate rg_D n1 0 [(3, TChunk)]) = [Fetch 1 0 3] /\
  snd (on_replicate rg_D n1 0 [(9, TChunk); (3, TChunk)]) = [Fetch 1 0 3] /\
  (* no range at all: everything is fetched *)
  snd (on_replicate rg_D (rg_node None None) 0 rg_keys) = [Fetch 1 0 1; Fetch 1 0 2; Fetch 1 0 3].
Proof. repeat split; reflexivity. Qed.

(* ---------------------------------------------------------------- replication targets *)
Lemma repl_close_group_size_pinned : CGS = 5.
Proof. reflexivity. Qed.

Definition within (n : node) (r : N) : nat := length (filter (fun y : peer * N => snd y <=? r) (table n)).

(* with a responsible range that holds at least CLOSE_GROUP_SIZE table peers, the targets are exactly the
   table peers at distance <= range -- the peer exactly ON the range included *)
Lemma cands_in_range n r p :
  store_range n = Some r -> (N.to_nat CGS <= within n r)%nat ->
  (In p (cands n) <-> exists d, In (p, d) (table n) /\ d <= r).
Proof.
  intros Hr Hc. unfold cands, within in *. rewrite Hr.
  rewrite (filter_length_perm _ _ _ (Permutation_sym (sort_perm (table n)))) in Hc.
  apply Nat.leb_le in Hc. rewrite Hc. rewrite in_map_iff. split.
  - intros [[p' d] [E Hin]]. cbn in E. subst p'. apply filter_In in Hin as [Hin Hd].
    exists d. split; [apply (Permutation_in _ (sort_perm (table n))); exact Hin|].
    cbn in Hd. apply N.leb_le in Hd. exact Hd.
  - intros [d [Hin Hd]]. exists (p, d). split; [reflexivity|]. apply filter_In. split.
    + apply (Permutation_in _ (Permutation_sym (sort_perm (table n)))). exact Hin.
    + cbn. apply N.leb_le. exact Hd.
Qed.

(* otherwise (no range, or fewer than CLOSE_GROUP_SIZE peers within it): the CLOSE_GROUP_SIZE nearest *)
Lemma cands_fallback n :
  (store_range n = None \/ exists r, store_range n = Some r /\ (within n r < N.to_nat CGS)%nat) ->
  cands n = map fst (firstn (N.to_nat CGS) (sort_by_dist (table n))).
Proof.
  intros [Hr|[r [Hr Hc]]]; unfold cands; rewrite Hr; [reflexivity|].
  unfold within in Hc. rewrite (filter_length_perm _ _ _ (Permutation_sym (sort_perm (table n)))) in Hc.
  apply Nat.leb_gt in Hc. rewrite Hc. reflexivity.
Qed.

(* the targets depend on the table and the store's range only *)
Lemma cands_ext n n' : table n' = table n -> store_range n' = store_range n -> cands n' = cands n.
Proof. intros Ht Hr. unfold cands. rewrite Ht, Hr. reflexivity. Qed.

(* boundary example: eight peers at distances 10, 20, .. 80; range = exactly the distance of the 6th nearest:
   six targets, the 6th among them; one below: the fall-back to the five nearest; one above: still six *)
Definition bd_node (r : option N) : node :=
  mkNode 0 [(1, CChunk 1)] (map (fun i => (100 + N.of_nat i, 10 * N.of_nat i)) (rev (seq 1 8))) [] r None.

Example cands_boundary_example :
  cands (bd_node (Some 60)) = [101; 102; 103; 104; 105; 106] /\
  cands (bd_node (Some 59)) = [101; 102; 103; 104; 105] /\
  cands (bd_node (Some 61)) = [101; 102; 103; 104; 105; 106] /\
  cands (bd_node (Some 49)) = [101; 102; 103; 104; 105] /\
  cands (bd_node (Some 9)) = [101; 102; 103; 104; 105] /\
  cands (bd_node None) = [101; 102; 103; 104; 105] /\
  (forall H, In (Replicate 0 106 0 [(1, TChunk)]) (replicate_msgs H (bd_node (Some 60)))).
Proof.
  repeat split; try reflexivity. intros H.
  replace (replicate_msgs H (bd_node (Some 60))) with (map (fun t => Replicate 0 t 0 [(1, TChunk)]) [101; 102; 103; 104; 105; 106]) by reflexivity.
  cbn. tauto.
Qed.

(* ---------------------------------------------------------------- irrelevant-record clean-up *)
(* the clean-up touches the store only: the fetcher keeps its range and its in-flight set, so every
   advertised unheld key within the fetch range is still fetched afterwards (in_range_is_fetched applies to
   the cleaned node with the same in_range) *)
Lemma cleanup_keeps_fetcher D n :
  fetch_range (cleanup D n) = fetch_range n /\ store_range (cleanup D n) = store_range n /\
  inflight (cleanup D n) = inflight n /\ table (cleanup D n) = table n /\ self (cleanup D n) = self n /\
  (forall k, in_range D (cleanup D n) k = in_range D n k) /\
  (forall h, accepts_holder (cleanup D n) h = accepts_holder n h).
Proof. unfold cleanup. destruct (store_range n) eqn:E; cbn; rewrite ?E; repeat split; reflexivity. Qed.

Lemma lookup_filter_none (p : key * content -> bool) k l : lookup k l = None -> lookup k (filter p l) = None.
Proof.
  induction l as [|[k' c] r IH]; cbn; [auto|]. destruct (N.eqb_spec k k') as [->|Hne]; [discriminate|].
  intros E. destruct (p (k', c)); cbn; [destruct (N.eqb_spec k k'); [contradiction|]|]; apply IH; exact E.
Qed.

Lemma cleanup_only_removes D n k : lookup k (held n) = None -> lookup k (held (cleanup D n)) = None.
Proof.
  unfold cleanup. destruct (store_range n); cbn; [apply lookup_filter_none|auto].
Qed.

Lemma after_cleanup_in_range_is_fetched D n h keys k t :
  accepts_holder n h = true -> In (k, t) keys -> lookup k (held n) = None -> in_range D n k = true ->
  kt_mem (k, t) (inflight (fst (on_replicate D (cleanup D n) h keys))) = true.
Proof.
  intros Ha Hin Hl Hr. destruct (cleanup_keeps_fetcher D n) as (_ & _ & _ & _ & _ & Hir & Hacc).
  apply (in_range_is_fetched D (cleanup D n) h keys k t); auto.
  - rewrite Hacc. exact Ha.
  - apply cleanup_only_removes. exact Hl.
  - rewrite Hir. exact Hr.
Qed.
