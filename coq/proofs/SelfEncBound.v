(* C14, part 5: outside the known class (a transform that expands a source chunk beyond
   MAX_CHUNK_SIZE) every produced chunk fits MAX_CHUNK_SIZE. *)
From Coq Require Import List NArith ZArith Bool Lia ZifyBool ZifyNat ZifyN.
From V Require Import lib.Strs gen.Consts model.ClientRead model.SelfEnc
  proofs.SelfEncPartition proofs.SelfEncLists proofs.SelfEnc.
Import ListNotations.
Open Scope N_scope.

Lemma raw_chunk_len MAX (d x : bytes) :
  1 <= MAX -> 3 <= lenN d -> In x (raw_chunks MAX d) -> lenN x <= MAX + 1.
Proof.
  intros HM HS I. unfold raw_chunks in I. apply in_map_iff in I. destruct I as (i & E & Ii).
  apply nseq_In in Ii. set (size := lenN d) in *. fold (n MAX size) in Ii.
  pose proof (rest_pos MAX size HM HS) as RP. pose proof (c_pos MAX size) as CP.
  pose proof (n_ge_3 MAX size HM HS) as N3.
  rewrite (start_end_closed MAX size HM HS i Ii) in E.
  pose proof (src_chunk_bound_lemma MAX size HM HS i Ii) as B.
  rewrite (chunk_size_closed MAX size HM HS i Ii) in B.
  subst x. rewrite slice_length.
  - lia.
  - lia.
  - fold size. destruct (N.ltb_spec i (n MAX size - 1)).
    + assert (c MAX size * (i + 1) <= c MAX size * (n MAX size - 1)) by (apply N.mul_le_mono_l; lia). lia.
    + replace i with (n MAX size - 1) by lia. lia.
Qed.

Lemma se_encrypt_chunk_src C MAX d dm cs :
  1 <= MAX -> se_encrypt C MAX d = inl (dm, cs) ->
  forall e, In e cs -> exists k x, snd e = c_tr C k x /\ lenN x <= MAX + 1.
Proof.
  intros HM SE e Ie. apply se_encrypt_shape in SE. destruct SE as (L3 & _ & Ecs).
  rewrite Ecs in Ie. apply in_map_iff in Ie. destruct Ie as (p & <- & Ip).
  cbn [snd]. unfold Y. eexists. exists (snd p). split; [reflexivity|].
  apply (raw_chunk_len MAX d); try assumption.
  rewrite <- (enum_from_map_snd 0 (raw_chunks MAX d)). apply in_map. exact Ip.
Qed.

Lemma produced_le_max_outside_known_lemma C MAX fuel d r :
  1 <= MAX -> encrypt C MAX fuel d = inl r ->
  (forall k x, lenN x <= MAX + 1 -> lenN (c_tr C k x) <= MAX) ->
  forall c0, In c0 (all_chunks r) -> lenN (k_value c0) <= MAX.
Proof.
  intros HM EN TR.
  pose proof (root_fits_lemma C MAX fuel d r EN) as RF.
  unfold encrypt in EN. destruct (se_encrypt C MAX d) as [[dm cs]|] eqn:SE; [|discriminate].
  destruct (pack C MAX fuel (First dm) []) as [[root extra]|] eqn:P; [|discriminate].
  inversion EN; subst r. clear EN. cbn [fst] in RF. unfold all_chunks. cbn [fst snd].
  assert (CS : forall d' dm' cs', se_encrypt C MAX d' = inl (dm', cs') ->
                 forall e, In e cs' -> lenN (k_value (mk_chunk C (snd e))) <= MAX).
  { intros d' dm' cs' SE' e Ie. destruct (se_encrypt_chunk_src C MAX d' dm' cs' HM SE' e Ie) as (k & x & -> & Lx).
    cbn. apply TR. exact Lx. }
  assert (PA : forall fu lvl acc rt out, pack C MAX fu lvl acc = inl (rt, out) ->
                 (forall c1, In c1 acc -> lenN (k_value c1) <= MAX) ->
                 forall c1, In c1 out -> lenN (k_value c1) <= MAX).
  { induction fu as [|fu IHf]; intros lvl acc rt out; cbn [pack].
    - destruct (lenN (c_wrap C lvl) <=? MAX); [|discriminate]. intros X A. inversion X; subst.
      intros c1 I. apply A. apply in_rev. exact I.
    - destruct (lenN (c_wrap C lvl) <=? MAX).
      + intros X A. inversion X; subst. intros c1 I. apply A. apply in_rev. exact I.
      + destruct (se_encrypt C MAX (c_ser C (c_wrap C lvl))) as [[dm' cs']|] eqn:SE'; [|discriminate].
        intros Pk A. apply (IHf _ _ _ _ Pk). intros c1 I. apply in_app_or in I. destruct I as [I|I]; [|auto].
        apply in_map_iff in I. destruct I as (e & <- & Ie). apply (CS _ _ _ SE' e Ie). }
  intros c0 [<-|I]; [exact RF|]. apply in_app_or in I. destruct I as [I|I].
  - apply in_map_iff in I. destruct I as (e & <- & Ie). apply (CS _ _ _ SE e Ie).
  - apply (PA _ _ _ _ _ P (fun c1 (I1 : In c1 []) => match I1 with end) c0 I).
Qed.

(* non-vacuity: a transform that keeps one byte satisfies the premise, and encrypt succeeds on it *)
Example ex_bound_premise :
  let C := {| cH := fun x => lenN x; c_tr := fun _ x => firstn 1 x; c_untr := fun _ y => Some y;
              c_wrap := fun _ => [0]; c_unwrap := fun _ => None; c_ser := fun b => b; c_deser := fun b => Some b |} in
  (forall k x, lenN x <= 4 + 1 -> lenN (c_tr C k x) <= 4) /\
  exists r, encrypt C 4 1 [1; 2; 3; 4; 5; 6; 7] = inl r.
Proof.
  cbn zeta. split.
  - intros k x _. cbn [c_tr]. unfold lenN. rewrite firstn_length. lia.
  - eexists. vm_compute. reflexivity.
Qed.
