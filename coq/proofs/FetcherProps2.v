(* C08: fullness bound, closest-first, range of multi-record adverts (with the F15 refutation),
   existence of accepted steps. *)
From Coq Require Import List NArith Bool Arith Lia Permutation Sorted ZifyBool ZifyNat ZifyN.
From V Require Import gen.Consts model.Fetcher proofs.Fetcher proofs.FetcherDet proofs.FetcherSched proofs.FetcherProps.
Import ListNotations.
Open Scope N_scope.

(* ---------------------------------------------------------------- queue entries before pruning *)
Lemma pre_prune_tbf pre o s1 fast :
  pre_prune pre o = Some (s1, fast) ->
  forall x, In x (tbf s1) ->
    In x (tbf pre) \/
    (exists h inc held y, o = AddKeys h inc held /\ In y (range_filter pre (first_pass pre h inc held)) /\
       length (first_pass pre h inc held) <> 1%nat /\ x = ((y, h), now pre + PENDING_T)).
Proof.
  destruct o; cbn [pre_prune]; intros H; inversion H; subst; clear H; intros x Hx; auto.
  - pose proof (add_keys_pre_spec pre holder inc held) as A. rewrite H1 in A. cbn [fst snd] in A.
    destruct (ap_tbf_from _ _ _ _ _ _ A x Hx) as [(H2 & _)|(y & Hy & Hl & ->)]; [left; auto|].
    right. exists holder, inc, held, y. auto.
  - left. unfold notify_put_pre in Hx. cbn [tbf] in Hx. apply filter_In in Hx. tauto.
  - left. unfold notify_early_pre in Hx. cbn [tbf] in Hx. apply filter_In in Hx. tauto.
Qed.

Lemma og_key_kth e : og_key e = kth_key (og_kth e).
Proof. destruct e as [[k t] [h d]]. reflexivity. Qed.

(* ---------------------------------------------------------------- full node *)
Definition Bounded (s : state) : Prop :=
  forall f, farthest s = Some f ->
    (forall x, In x (tbf s) -> kdist (kth_key (fst x)) <= f) /\
    (forall e, In e (ongoing s) -> kdist (og_key e) <= f).

Lemma nosched_bounded pre o :
  pre_prune pre o = None -> Bounded pre ->
  Bounded (mid_of pre o) /\
  (forall f0 f, farthest pre = Some f0 -> farthest (mid_of pre o) = Some f -> f <= f0).
Proof.
  intros E B. unfold mid_of, settle. rewrite E. cbn [fst].
  destruct o; try discriminate.
  - split; [exact B|]. cbn. intros f0 f H1 H2. rewrite H1 in H2. inversion H2. lia.
  - destruct fk as [k|]; cbn [set_farthest].
    + destruct (farthest pre) as [old|] eqn:Ef.
      * destruct (old <=? kdist k) eqn:Bq.
        -- split; [exact B|]. intros f0 f H1 H2. rewrite Ef in H2. inversion H1; inversion H2. lia.
        -- apply N.leb_gt in Bq. split.
           ++ intros f Hf. cbn [farthest tbf ongoing] in *. inversion Hf; subst f. split.
              ** intros x Hx. apply filter_In in Hx. apply N.leb_le. tauto.
              ** intros e He. apply filter_In in He. apply N.leb_le. unfold og_key. tauto.
           ++ intros f0 f H1 H2. cbn in H2. inversion H1; inversion H2. lia.
      * split.
        -- intros f Hf. cbn [farthest tbf ongoing] in *. inversion Hf; subst f. split.
           ++ intros x Hx. apply filter_In in Hx. apply N.leb_le. tauto.
           ++ intros e He. apply filter_In in He. apply N.leb_le. unfold og_key. tauto.
        -- intros f0 f H1. discriminate.
    + split; [exact B|]. intros f0 f H1 H2. rewrite H1 in H2. inversion H2. lia.
  - split; [exact B|]. cbn. intros f0 f H1 H2. rewrite H1 in H2. inversion H2. lia.
Qed.

Lemma step_bounded pre o out post :
  reachable pre -> Bounded pre -> step_ok pre o out post = true ->
  Bounded post /\ (forall f0 f, farthest pre = Some f0 -> farthest post = Some f -> f <= f0).
Proof.
  intros HR B HS. destruct (schedules o) eqn:Hs.
  - destruct (step_sched_inv _ _ _ _ HR HS Hs) as (s1 & fast & batch & E & _ & Hret & SP & W & W1 & Wm & (_ & Hfar & _)).
    set (mid := fst (prune s1)) in *.
    assert (Hfp : farthest post = farthest pre).
    { destruct (ss_limits _ _ _ SP) as (_ & Hf & _). rewrite <- Hf. subst mid.
      rewrite (proj1 (proj2 (prune_limits s1))). auto. }
    split.
    + intros f Hf. rewrite Hfp in Hf. destruct (B f Hf) as [B1 B2].
      assert (T1 : forall x, In x (tbf mid) -> kdist (kth_key (fst x)) <= f).
      { intros x Hx. subst mid. apply prune_tbf in Hx. destruct Hx as [Hx _].
        destruct (pre_prune_tbf _ _ _ _ E x Hx) as [Hp|(h & inc & held & y & _ & Hy & _ & ->)]; auto.
        cbn. apply range_filter_In in Hy. destruct Hy as [Hy _]. apply first_pass_In in Hy.
        destruct Hy as (_ & _ & _ & Hb). apply Hb; auto. }
      split.
      * intros x Hx. apply T1. apply (ss_tbf_post _ _ _ SP x Hx).
      * intros e He. destruct (og_mem (fst e) (ongoing mid)) eqn:Em.
        -- apply og_mem_In in Em. pose proof (ss_old _ _ _ SP e He Em) as Hm. subst mid.
           apply prune_og in Hm. destruct Hm as [Hm _]. apply (pre_prune_og _ _ _ _ E) in Hm.
           destruct Hm as [[Hp _]|(h & inc & held & x & _ & Hx & -> & _)]; auto.
           cbn. assert (Hin : In x (first_pass pre h inc held)) by (rewrite Hx; left; auto).
           apply first_pass_In in Hin. destruct Hin as (_ & _ & _ & Hb). apply Hb; auto.
        -- assert (Hfr : In e (fresh mid post)) by (apply fresh_In; split; auto; apply og_mem_false; auto).
           destruct (ss_new _ _ _ SP e Hfr) as [Hq _]. apply in_map_iff in Hq. destruct Hq as (x & Hq & Hx).
           rewrite og_key_kth, <- Hq. apply T1; auto.
    + intros f0 f H1 H2. rewrite Hfp, H1 in H2. inversion H2. lia.
  - assert (E : pre_prune pre o = None).
    { destruct (pre_prune pre o) eqn:E; auto. assert (schedules o = true) by (apply (pre_prune_schedules pre o); eauto). congruence. }
    apply (step_ok_nosched _ _ _ _ E) in HS. destruct HS as (_ & _ & Heq).
    apply st_equiv_spec in Heq. destruct Heq as ((_ & Hf & _) & _ & HT & HO).
    destruct (nosched_bounded _ _ E B) as [Bm Sm]. split.
    + intros f Hfp. rewrite <- Hf in Hfp. destruct (Bm f Hfp) as [B1 B2]. split.
      * intros x Hx. apply B1. apply HT; auto.
      * intros e He. apply B2. apply HO; auto.
    + intros f0 f H1 H2. rewrite <- Hf in H2. eapply Sm; eauto.
Qed.

Lemma reachable_bounded s : reachable s -> Bounded s.
Proof.
  apply reachable_ind.
  - intros f Hf. discriminate.
  - intros pre o out post HR B HS. apply (step_bounded _ _ _ _ HR B HS).
Qed.

Theorem full_node_bound_lemma : forall pre o out post f,
  reachable pre -> step_ok pre o out post = true -> farthest post = Some f ->
  (forall x, In x (tbf post) -> kdist (kth_key (fst x)) <= f) /\
  (forall e, In e (ongoing post) -> kdist (og_key e) <= f) /\
  (forall p, In p (ret out) -> kdist (snd p) <= f) /\
  (forall f0, farthest pre = Some f0 -> f <= f0).
Proof.
  intros pre o out post f HR HS Hf.
  destruct (step_bounded _ _ _ _ HR (reachable_bounded _ HR) HS) as [B S].
  destruct (B f Hf) as [B1 B2]. split; [auto|]. split; [auto|]. split.
  - intros p Hp. destruct (started_spec _ _ _ _ HR HS) as (st & H1 & _ & H3 & _).
    apply (Permutation_in _ H1) in Hp. apply in_map_iff in Hp. destruct Hp as (e & <- & He).
    destruct (H3 e He) as [Hin _]. specialize (B2 e Hin). destruct e as [[k t] [h d]]. exact B2.
  - intros f0 H0. eapply S; eauto.
Qed.

Theorem full_node_state_lemma : forall s f, reachable s -> farthest s = Some f ->
  (forall x, In x (tbf s) -> kdist (kth_key (fst x)) <= f) /\
  (forall e, In e (ongoing s) -> kdist (og_key e) <= f).
Proof. intros s f HR Hf. apply (reachable_bounded s HR f Hf). Qed.

(* ---------------------------------------------------------------- closest first *)
Theorem closest_first_lemma : forall pre o out post,
  reachable pre -> step_ok pre o out post = true ->
  let mid := mid_of pre o in
  let batch := skipn (length (fast_of pre o)) (ret out) in
  (forall l1 a l2 b l3, map (fun p => kdist (snd p)) batch = l1 ++ a :: l2 ++ b :: l3 -> a <= b) /\
  (forall x, In x (tbf mid) -> ~ inflight post (kth_kt (fst x)) ->
     forall p, In p batch -> kdist (snd p) <= kdist (kth_key (fst x))) /\
  (schedules o = true -> (length (ongoing post) < MAXn)%nat ->
     forall x, In x (tbf post) -> inflight post (kth_kt (fst x))).
Proof.
  intros pre o out post HR HS mid batch. destruct (schedules o) eqn:Hs.
  - destruct (step_sched_inv _ _ _ _ HR HS Hs) as (s1 & fast & b0 & E & _ & Hret & SP & _).
    subst mid batch. unfold mid_of, fast_of. rewrite (settle_sched _ _ _ _ E). cbn [fst snd].
    rewrite Hret, skipn_app, Nat.sub_diag, skipn_all. cbn [skipn app].
    split; [|split].
    + apply sorted_N_spec. apply (ss_sorted _ _ _ SP).
    + intros x Hx Hn p Hp. unfold inflight in Hn.
      destruct (Nat.lt_ge_cases (length (ongoing post)) MAXn) as [Hlt|Hge].
      * exfalso. apply Hn. apply (ss_max1 _ _ _ SP Hlt x Hx).
      * destruct (Nat.lt_ge_cases (length (ongoing (fst (prune s1)))) MAXn) as [Hlt2|Hge2].
        -- apply (ss_max2 _ _ _ SP Hge Hlt2 x Hx Hn p Hp).
        -- pose proof (ss_full _ _ _ SP Hge2) as Hf. pose proof (ss_ret _ _ _ SP) as HP. rewrite Hf in HP.
           cbn in HP. apply Permutation_sym, Permutation_nil in HP. subst b0. contradiction.
    + intros _ Hlt x Hx. destruct (ss_tbf_post _ _ _ SP x Hx) as [Hm _].
      apply (ss_max1 _ _ _ SP Hlt x Hm).
  - assert (E : pre_prune pre o = None).
    { destruct (pre_prune pre o) eqn:E; auto. assert (schedules o = true) by (apply (pre_prune_schedules pre o); eauto). congruence. }
    apply (step_ok_nosched _ _ _ _ E) in HS. destruct HS as (_ & Hret & _).
    subst batch. rewrite Hret. rewrite skipn_nil. cbn [map]. split; [|split].
    + intros l1 a l2 b l3 H. destruct l1; discriminate.
    + intros x _ _ p [].
    + discriminate.
Qed.

(* ---------------------------------------------------------------- multi-record adverts and the range *)
Theorem multi_key_in_range_lemma : forall pre h inc held out post r,
  reachable pre -> step_ok pre (AddKeys h inc held) out post = true ->
  range pre = Some r -> (2 <= length inc)%nat -> ~ KnownFastPathMulti pre h inc held ->
  (forall x, In x (tbf post) -> ~ queued pre (fst x) -> kdist (kth_key (fst x)) <= r) /\
  (forall e, In e (ongoing post) -> ~ In e (ongoing pre) -> ~ queued pre (og_kth e) -> kdist (og_key e) <= r).
Proof.
  intros pre h inc held out post r HR HS Hr Hlen Hnk.
  assert (Hn1 : length (first_pass pre h inc held) <> 1%nat).
  { intros H1. apply Hnk. split; auto. }
  destruct (step_sched_inv _ _ _ _ HR HS eq_refl) as (s1 & fast & batch & E & _ & Hret & SP & W & W1 & Wm & _).
  set (mid := fst (prune s1)) in *.
  assert (T1 : forall x, In x (tbf mid) -> ~ queued pre (fst x) -> kdist (kth_key (fst x)) <= r).
  { intros x Hx Hq. subst mid. apply prune_tbf in Hx. destruct Hx as [Hx _].
    destruct (pre_prune_tbf _ _ _ _ E x Hx) as [Hp|(h' & inc' & held' & y & Ho & Hy & _ & ->)].
    - exfalso. apply Hq. apply in_map; auto.
    - inversion Ho; subst h' inc' held'. cbn. apply range_filter_In in Hy. destruct Hy as [_ Hy]. auto. }
  split.
  - intros x Hx Hq. apply T1; auto. apply (ss_tbf_post _ _ _ SP x Hx).
  - intros e He Hne Hq. destruct (og_mem (fst e) (ongoing mid)) eqn:Em.
    + apply og_mem_In in Em. pose proof (ss_old _ _ _ SP e He Em) as Hm. subst mid.
      apply prune_og in Hm. destruct Hm as [Hm _]. apply (pre_prune_og _ _ _ _ E) in Hm.
      destruct Hm as [[Hp _]|(h' & inc' & held' & x & Ho & Hx & _)]; [contradiction|].
      inversion Ho; subst h' inc' held'. rewrite Hx in Hn1. cbn in Hn1. lia.
    + assert (Hfr : In e (fresh mid post)) by (apply fresh_In; split; auto; apply og_mem_false; auto).
      destruct (ss_new _ _ _ SP e Hfr) as [Hk _]. apply in_map_iff in Hk. destruct Hk as (x & Hk & Hx).
      rewrite og_key_kth, <- Hk. apply T1; auto. rewrite Hk. auto.
Qed.

(* F15: the faithful model violates the unrestricted statement.  One key held, the other one out
   of range: the fast path fetches it.  (Replayed on the real code: corpus/C08.) *)
Definition f15_k1 : key := K 1 10.
Definition f15_k2 : key := K 2 100.
Definition f15_pre : state := ST [] [] (Some 50) None 0.
Definition f15_post : state := ST [] [OE f15_k2 0 7 FETCH_T] (Some 50) None 0.
Theorem multi_key_in_range_refuted_lemma :
  exists pre h inc held out post r e,
    reachable pre /\ step_ok pre (AddKeys h inc held) out post = true /\
    range pre = Some r /\ (2 <= length inc)%nat /\
    In e (ongoing post) /\ ~ In e (ongoing pre) /\ ~ queued pre (og_kth e) /\ r < kdist (og_key e) /\
    KnownFastPathMulti pre h inc held.
Proof.
  exists f15_pre, 7, [(f15_k1, Chunk); (f15_k2, Chunk)], [(f15_k1, Chunk)],
         (mkOut [(7, f15_k2)] []), f15_post, 50, (OE f15_k2 0 7 FETCH_T).
  split.
  { exists [(SetRange 50, mkOut [] [], f15_pre)]. split; vm_compute; reflexivity. }
  split; [vm_compute; reflexivity|]. split; [reflexivity|]. split; [cbn; lia|].
  split; [left; reflexivity|]. split; [intros []|]. split; [intros []|].
  split; [vm_compute; reflexivity|]. split; [cbn; lia | vm_compute; reflexivity].
Qed.

(* ---------------------------------------------------------------- accepted steps exist *)
Theorem code_refines_acceptor_lemma : forall iter s o,
  (forall l, Permutation (iter l) l) -> wf s = true ->
  step_ok s o (snd (step_code iter s o)) (fst (step_code iter s o)) = true.
Proof. intros iter s o Hp Hw. apply step_code_ok; auto. apply wf_Wf; auto. Qed.

Theorem accepted_step_exists_lemma : forall s o, reachable s ->
  exists out post, step_ok s o out post = true /\ (post, out) = step_det s o.
Proof.
  intros s o HR. exists (snd (step_det s o)), (fst (step_det s o)). split.
  - apply step_code_ok; [intros l; apply Permutation_refl | apply reachable_Wf; auto].
  - destruct (step_det s o); reflexivity.
Qed.

Theorem reachable_wf_lemma : forall s, reachable s -> wf s = true.
Proof. intros s HR. apply wf_Wf. apply reachable_Wf; auto. Qed.
