(* Proofs about the record header / record value codec (C12). *)
From Coq Require Import List NArith ZArith Bool Lia Arith ZifyBool ZifyNat ZifyN.
From V Require Import lib.Strs lib.Serde lib.Msgpack gen.Consts model.Quote model.Header proofs.Msgpack proofs.MsgpackExt.
Import ListNotations.
Open Scope N_scope.
Ltac Zify.zify_post_hook ::= Z.div_mod_to_equations.

(* ---------------------------------------------------------------- the tag table *)
Lemma kind_tag_table_lemma :
  ser_table = Consts.kind_tags_ser /\ Consts.kind_tags_de = Consts.kind_tags_ser /\
  map kind_name all_kinds = Consts.kind_names /\ Consts.record_header_size = 2.
Proof. repeat split; reflexivity. Qed.

Lemma tag_roundtrip k : kind_of_tag (tag k) = Some k.
Proof. destruct k; reflexivity. Qed.

Lemma kind_of_tag_inv n k : kind_of_tag n = Some k -> tag k = n /\ n < 8.
Proof.
  intros H. destruct (N.ltb_spec n 8) as [L|L].
  - assert (E : n = 0 \/ n = 1 \/ n = 2 \/ n = 3 \/ n = 4 \/ n = 5 \/ n = 6 \/ n = 7) by lia.
    destruct E as [->|[->|[->|[->|[->|[->|[->| ->]]]]]]]; cbn in H; injection H as <-; split;
      try reflexivity; lia.
  - exfalso. destruct n as [|p]; [lia|].
    do 3 (try (destruct p as [p|p|]; cbn in H; try discriminate H)); lia.
Qed.

Lemma tag_bijection_lemma :
  (forall k, kind_of_tag (tag k) = Some k) /\ (forall n k, kind_of_tag n = Some k -> tag k = n).
Proof. split; [apply tag_roundtrip|]. intros n k H. now apply kind_of_tag_inv in H. Qed.

Lemma unknown_tag_rejected_lemma n : 8 <= n -> kind_of_tag n = None.
Proof.
  intros H. destruct (kind_of_tag n) as [k|] eqn:E; [|reflexivity].
  apply kind_of_tag_inv in E. lia.
Qed.

Lemma tag_lt k : tag k < 8.
Proof. destruct k; cbn; lia. Qed.

Lemma tag_inj k k' : tag k = tag k' -> k = k'.
Proof. intros H. pose proof (tag_roundtrip k) as A. rewrite H, tag_roundtrip in A. congruence. Qed.

(* ---------------------------------------------------------------- headers *)
Lemma header_bytes k : header k = [145; tag k].
Proof. destruct k; reflexivity. Qed.

Lemma header_fixed_prefix_lemma k : header k = [145; tag k] /\ len (header k) = SIZE.
Proof. rewrite header_bytes. split; reflexivity. Qed.

Lemma header_roundtrip_lemma k : header_try_deserialize (header k) = Some k.
Proof. destruct k; reflexivity. Qed.

(* ---------------------------------------------------------------- from_record *)
Lemma tag_of_int_fix b r : b < 128 -> tag_of_int (b :: r) = kind_of_tag b.
Proof.
  intros H. unfold tag_of_int. rewrite dec_int_fixpos by exact H. rewrite N2Z.id.
  replace (0 <=? Z.of_N b)%Z with true by (symmetry; apply Z.leb_le; lia).
  replace (in_u W32 b) with true; [reflexivity|].
  symmetry. unfold in_u. apply N.ltb_lt. cbn. lia.
Qed.

Lemma from_record_short_lemma bs : (length bs < 3)%nat -> from_record bs = None.
Proof. destruct bs as [|a [|b [|c r]]]; cbn [length from_record]; intros H; try reflexivity. lia. Qed.

Lemma from_record_encode k v : from_record (encode_record k v) = Some k.
Proof.
  unfold encode_record. rewrite header_bytes. cbn [app].
  pose proof (mp_encode_nonempty v) as Hne. destruct (mp_encode v) as [|b t]; [congruence|].
  cbn [from_record]. unfold decode_header3. change (145 =? 145) with true. cbv iota.
  rewrite tag_of_int_fix by (pose proof (tag_lt k); lia). apply tag_roundtrip.
Qed.

(* the accepted three-byte windows, exactly *)
Definition header_window (b0 b1 b2 : N) (k : kind) : Prop :=
  (b0 = 145 /\ b1 < 128 /\ kind_of_tag b1 = Some k) \/
  (b0 = 145 /\ (b1 = 204 \/ b1 = 208) /\ b2 < 128 /\ kind_of_tag b2 = Some k) \/
  (b0 = 196 /\ b1 = 1 /\ kind_of_tag b2 = Some k) \/
  (b0 = 129 /\ b1 = 0 /\ b2 < 128 /\ kind_of_tag b2 = Some k).

Lemma tag_of_int_1 b : b < 256 -> forall k, tag_of_int [b] = Some k <-> (b < 128 /\ kind_of_tag b = Some k).
Proof.
  intros Hb k. destruct (N.ltb_spec b 128) as [H|H].
  - rewrite tag_of_int_fix by exact H. tauto.
  - split; [|lia]. unfold tag_of_int, dec_int.
    replace (b <? 128) with false by (symmetry; apply N.ltb_ge; lia).
    destruct (224 <=? b) eqn:E1.
    + replace (b <? 256) with true by (symmetry; apply N.ltb_lt; lia).
      apply N.leb_le in E1.
      replace (0 <=? Z.of_N b - 256)%Z with false by (symmetry; apply Z.leb_gt; lia). discriminate.
    + repeat match goal with |- context [if ?c then _ else _] => destruct c end; cbn; discriminate.
Qed.

Lemma tag_of_int_2 b1 b2 : b1 < 256 -> b2 < 256 -> forall k,
  tag_of_int [b1; b2] = Some k <->
  ((b1 < 128 /\ kind_of_tag b1 = Some k) \/ ((b1 = 204 \/ b1 = 208) /\ b2 < 128 /\ kind_of_tag b2 = Some k)).
Proof.
  intros H1 H2 k. destruct (N.ltb_spec b1 128) as [H|H].
  - rewrite tag_of_int_fix by exact H. split; [auto|]. intros [[_ A]|[[A|A] _]]; [exact A|lia|lia].
  - unfold tag_of_int, dec_int.
    replace (b1 <? 128) with false by (symmetry; apply N.ltb_ge; lia).
    destruct (224 <=? b1) eqn:E1.
    { replace (b1 <? 256) with true by (symmetry; apply N.ltb_lt; lia).
      apply N.leb_le in E1.
      replace (0 <=? Z.of_N b1 - 256)%Z with false by (symmetry; apply Z.leb_gt; lia).
      split; [discriminate|]. intros [[A _]|[[A|A] _]]; lia. }
    apply N.leb_gt in E1.
    destruct (N.eqb_spec b1 204) as [->|N204].
    { rewrite read_be_1. rewrite N2Z.id.
      replace (0 <=? Z.of_N b2)%Z with true by (symmetry; apply Z.leb_le; lia).
      replace (in_u W32 b2) with true by (symmetry; unfold in_u; apply N.ltb_lt; cbn; lia).
      cbn [andb]. split.
      - intros A. right. split; [auto|]. destruct (kind_of_tag_inv _ _ A). split; [lia|assumption].
      - intros [[A _]|[_ [_ A]]]; [lia|exact A]. }
    destruct (N.eqb_spec b1 205) as [->|N205]; [cbn; split; [discriminate|intros [[A _]|[[A|A] _]]; lia]|].
    destruct (N.eqb_spec b1 206) as [->|N206]; [cbn; split; [discriminate|intros [[A _]|[[A|A] _]]; lia]|].
    destruct (N.eqb_spec b1 207) as [->|N207]; [cbn; split; [discriminate|intros [[A _]|[[A|A] _]]; lia]|].
    destruct (N.eqb_spec b1 208) as [->|N208].
    { unfold read_be_signed. rewrite read_be_1. change (2 ^ (8 * N.of_nat 1)) with 256. change (256 / 2) with 128.
      destruct (N.ltb_spec b2 128) as [L|L].
      - rewrite N2Z.id.
        replace (0 <=? Z.of_N b2)%Z with true by (symmetry; apply Z.leb_le; lia).
        replace (in_u W32 b2) with true by (symmetry; unfold in_u; apply N.ltb_lt; cbn; lia).
        cbn [andb]. split; [intros A; right; auto|intros [[A _]|[_ [_ A]]]; [lia|exact A]].
      - replace (0 <=? Z.of_N b2 - Z.of_N 256)%Z with false by (symmetry; apply Z.leb_gt; lia).
        cbn [andb]. split; [discriminate|]. intros [[A _]|[_ [A _]]]; lia. }
    destruct (N.eqb_spec b1 209) as [->|N209]; [cbn; split; [discriminate|intros [[A _]|[[A|A] _]]; lia]|].
    destruct (N.eqb_spec b1 210) as [->|N210]; [cbn; split; [discriminate|intros [[A _]|[[A|A] _]]; lia]|].
    destruct (N.eqb_spec b1 211) as [->|N211]; [cbn; split; [discriminate|intros [[A _]|[[A|A] _]]; lia]|].
    split; [discriminate|]. intros [[A _]|[[A|A] _]]; lia.
Qed.

Lemma from_record_accepts_iff_lemma b0 b1 b2 rest k :
  b0 < 256 -> b1 < 256 -> b2 < 256 ->
  (from_record (b0 :: b1 :: b2 :: rest) = Some k <-> header_window b0 b1 b2 k).
Proof.
  intros H0 H1 H2. cbn [from_record]. unfold decode_header3, header_window.
  destruct (N.eqb_spec b0 145) as [->|N145].
  { rewrite tag_of_int_2 by assumption. split.
    - intros [A|A]; [left; tauto|right; left; tauto].
    - intros [A|[A|[A|A]]]; try lia; tauto. }
  destruct (N.eqb_spec b0 196) as [->|N196].
  { destruct (N.eqb_spec b1 1) as [->|N1].
    - split; [intros A; right; right; left; auto|]. intros [A|[A|[A|A]]]; try lia; tauto.
    - split; [discriminate|]. intros [A|[A|[A|A]]]; lia. }
  destruct (N.eqb_spec b0 129) as [->|N129].
  { destruct (N.eqb_spec b1 0) as [->|N0].
    - rewrite tag_of_int_1 by assumption. split; [intros A; right; right; right; tauto|].
      intros [A|[A|[A|A]]]; try lia; tauto.
    - split; [discriminate|]. intros [A|[A|[A|A]]]; lia. }
  split; [discriminate|]. intros [A|[A|[A|A]]]; lia.
Qed.

Lemma kind_eqb_eq a b : kind_eqb a b = true <-> a = b.
Proof. destruct a, b; cbn; split; intros H; try reflexivity; discriminate. Qed.

Lemma is_chunk_iff_header_chunk_lemma bs :
  (is_record_of_type_chunk bs = Some true <-> from_record bs = Some KChunk) /\
  (is_record_of_type_chunk bs = None <-> from_record bs = None) /\
  (forall b, is_record_of_type_chunk bs = Some b -> exists k, from_record bs = Some k /\ (b = true <-> k = KChunk)).
Proof.
  unfold is_record_of_type_chunk. destruct (from_record bs) as [k|].
  - split; [|split].
    + split; intros H; injection H as H; [apply kind_eqb_eq in H; now subst|subst; reflexivity].
    + split; discriminate.
    + intros b H. injection H as <-. exists k. split; [reflexivity|apply kind_eqb_eq].
  - split; [|split].
    + split; discriminate.
    + tauto.
    + intros b H. discriminate.
Qed.

(* ---------------------------------------------------------------- records *)
Lemma skipn_header k t : skipn (N.to_nat SIZE) (header k ++ t) = t.
Proof. rewrite header_bytes. reflexivity. Qed.

Lemma len_encode_gt k v : (len (encode_record k v) <=? SIZE) = false.
Proof.
  unfold encode_record, len. rewrite header_bytes, app_length. cbn [length].
  pose proof (mp_encode_nonempty v) as Hne. destruct (mp_encode v); [congruence|].
  apply N.leb_gt. change SIZE with 2. cbn [length]. lia.
Qed.

Lemma record_roundtrip_lemma k v :
  has_shape (shape_of_kind k) v = true -> wf v = true ->
  decode_record (encode_record k v) = Some (k, v).
Proof.
  intros Hs Hw. unfold decode_record. rewrite from_record_encode.
  unfold decode_value. rewrite len_encode_gt. unfold encode_record. rewrite skipn_header.
  rewrite mp_from_slice_encode by assumption. reflexivity.
Qed.

Lemma record_kinds_distinguished_lemma k k' v v' :
  encode_record k v = encode_record k' v' -> k = k'.
Proof.
  intros E. pose proof (from_record_encode k v) as A. rewrite E, from_record_encode in A. congruence.
Qed.

Lemma decode_truncated_header_lemma k v n :
  (n < 3)%nat -> decode_record (firstn n (encode_record k v)) = None.
Proof.
  intros H. unfold decode_record. rewrite from_record_short_lemma; [reflexivity|].
  rewrite firstn_length. lia.
Qed.

Lemma from_record_canonical k b t : from_record (145 :: tag k :: b :: t) = Some k.
Proof.
  cbn [from_record]. unfold decode_header3. change (145 =? 145) with true. cbv iota.
  rewrite tag_of_int_fix by (pose proof (tag_lt k); lia). apply tag_roundtrip.
Qed.

Lemma shapes_enum_ok k : enum_ok (shape_of_kind k) = true.
Proof. destruct k; vm_compute; reflexivity. Qed.

(* a strict prefix of a record never decodes: truncated input is an error *)
Lemma decode_truncated_lemma k v n :
  has_shape (shape_of_kind k) v = true -> wf v = true ->
  (n < length (encode_record k v))%nat -> decode_record (firstn n (encode_record k v)) = None.
Proof.
  intros Hs Hw Hn. destruct (Nat.ltb_spec n 3) as [L|L]; [now apply decode_truncated_header_lemma|].
  unfold encode_record in *. rewrite header_bytes in *. cbn [app] in *.
  pose proof (mp_encode_nonempty v) as Hne.
  destruct n as [|[|[|m]]]; try lia. cbn [firstn]. cbn [length] in Hn.
  destruct (mp_encode v) as [|b t] eqn:Ev; [congruence|]. cbn [firstn].
  unfold decode_record. rewrite from_record_canonical.
  unfold decode_value.
  replace (len (145 :: tag k :: b :: firstn m t) <=? SIZE) with false
    by (symmetry; apply N.leb_gt; unfold len; cbn [length]; change SIZE with 2; lia).
  change (skipn (N.to_nat SIZE) (145 :: tag k :: b :: firstn m t)) with (firstn (S m) (b :: t)).
  unfold mp_from_slice. rewrite <- Ev.
  rewrite mp_truncated_rejected; [reflexivity|apply shapes_enum_ok|assumption|assumption|].
  rewrite Ev. cbn [length] in *. lia.
Qed.

(* ---------------------------------------------------------------- chunks *)
Lemma decode_bytes_lenient_bin b r :
  bytes_ok b = true -> decode_bytes_lenient ((enc_len BIN (len b) ++ b) ++ r) = Some (b, r).
Proof.
  intros H. unfold decode_bytes_lenient.
  rewrite <- app_assoc, dec_enc_len_BIN by (now apply bytes_ok_len). apply take_n_app.
Qed.

Lemma chunk_roundtrip_lemma (H : list N -> list N) c :
  c_address c = H (c_value c) -> bytes_ok (c_value c) = true ->
  decode_chunk H (encode_chunk c) = Some c.
Proof.
  intros Ha Hb. unfold decode_chunk, encode_chunk. rewrite len_encode_gt.
  unfold encode_record. rewrite skipn_header. cbn [mp_encode].
  rewrite <- (app_nil_r (enc_len BIN (len (c_value c)) ++ c_value c)), decode_bytes_lenient_bin by exact Hb.
  unfold chunk_new. rewrite <- Ha. destruct c; reflexivity.
Qed.

Lemma chunk_address_recomputed_lemma (H : list N -> list N) bs c :
  decode_chunk H bs = Some c -> c_address c = H (c_value c).
Proof.
  unfold decode_chunk. destruct (len bs <=? SIZE); [discriminate|].
  destruct (decode_bytes_lenient _) as [[b r]|]; [|discriminate].
  intros E. injection E as <-. reflexivity.
Qed.

Lemma chunk_encoding_no_address c c' : c_value c = c_value c' -> encode_chunk c = encode_chunk c'.
Proof. unfold encode_chunk. now intros ->. Qed.

(* the canonical decoder and the lenient chunk decoder agree on canonical input *)
Lemma decode_chunk_canonical (H : list N -> list N) b :
  bytes_ok b = true ->
  decode_chunk H (encode_record KChunk (VBytes b)) = Some (chunk_new H b) /\
  decode_record (encode_record KChunk (VBytes b)) = Some (KChunk, VBytes b).
Proof.
  intros Hb. split.
  - apply (chunk_roundtrip_lemma H (chunk_new H b)); [reflexivity|exact Hb].
  - apply record_roundtrip_lemma; [reflexivity|exact Hb].
Qed.

(* ---------------------------------------------------------------- non-vacuity *)
From Coq Require Import String.

Definition ex_chunk_bytes : list N := hx "9101c403000102"%string.
Example ex_chunk_decodes :
  decode_record ex_chunk_bytes = Some (KChunk, VBytes [0; 1; 2]) /\
  decode_chunk (fun b => rev b) ex_chunk_bytes = Some {| c_address := [2; 1; 0]; c_value := [0; 1; 2] |}.
Proof. vm_compute. split; reflexivity. Qed.

Example ex_lenient_header : from_record (hx "91cc01c403000102"%string) = Some KChunk /\
                            from_record (hx "c40101"%string) = Some KChunk /\
                            from_record (hx "810001"%string) = Some KChunk /\
                            from_record (hx "9108c0"%string) = None /\
                            from_record (hx "91cd0001"%string) = None.
Proof. vm_compute. repeat split; reflexivity. Qed.

Example ex_chunk_as_str_and_array :
  decode_chunk (fun _ => []) (hx "9101a3616263"%string) = Some {| c_address := []; c_value := [97; 98; 99] |} /\
  decode_chunk (fun _ => []) (hx "910193ccff0102"%string) = Some {| c_address := []; c_value := [255; 1; 2] |}.
Proof. vm_compute. split; reflexivity. Qed.

(* a scratchpad-shaped value (no signature) and a register-shaped value round trip *)
Definition ex_pk : sval := VTuple (vu8s (repeat 7 48)).
Definition ex_scratchpad : sval := VTuple [VTuple [ex_pk]; VU W64 42; VBytes [1; 2; 3]; VU W64 7; VNone].
Definition ex_register : sval :=
  VTuple [VTuple [VTuple [VTuple (vu8s (repeat 3 32)); ex_pk]; VVariant name_Writers (VSeq [ex_pk])];
          VTuple (vu8s (repeat 9 96)); VSeq []].
Example ex_records_roundtrip :
  has_shape (shape_of_kind KScratchpad) ex_scratchpad = true /\ wf ex_scratchpad = true /\
  decode_record (encode_record KScratchpad ex_scratchpad) = Some (KScratchpad, ex_scratchpad) /\
  has_shape (shape_of_kind KRegister) ex_register = true /\ wf ex_register = true /\
  decode_record (encode_record KRegister ex_register) = Some (KRegister, ex_register).
Proof. vm_compute. repeat split; reflexivity. Qed.
