(* C08 -> C09 bridge, second half: under a translation of model/Replication.v's node into a
   fetcher state, what `add_keys` fetches on an idle fetcher is `Replication.wanted n [] keys`.
   (Replication.v is C09's file; it is only Required here, never imported.) *)
From Coq Require Import List NArith Bool Arith Lia Permutation ZifyBool ZifyNat ZifyN.
From V Require Import gen.Consts model.Fetcher proofs.Fetcher proofs.FetcherDet proofs.FetcherSched
  proofs.FetcherProps proofs.FetcherBridge.
From V Require model.Replication.
Import ListNotations.
Open Scope N_scope.
Module R := V.model.Replication.

Section Translation.
Variable dist : N -> N.               (* any distance function: the bridge does not depend on it *)
Variable H : R.content -> N.          (* Replication.v's content-hash parameter *)

Definition tk (k : R.key) : key := (k, dist k).
Definition tt (t : R.rtype) : rtype :=
  match t with R.TChunk => Chunk | R.TPad => Scratchpad | R.TNonChunk h => NonChunk h end.
Definition tkt (x : R.key * R.rtype) : kt := (tk (fst x), tt (snd x)).
(* node.held -> locally_stored_keys, by type_of *)
Definition theld (n : R.node) : held_map :=
  map (fun kc => (tk (fst kc), tt (R.type_of H (snd kc)))) (R.held n).
(* node.inflight corresponds to on_going_fetches with arbitrary holders and deadlines *)
Definition inflight_rel (n : R.node) (s : state) : Prop :=
  map fst (ongoing s) = map tkt (R.inflight n).

Lemma tk_eqb a b : key_eqb (tk a) (tk b) = (a =? b).
Proof.
  unfold key_eqb, tk. cbn [fst snd]. destruct (a =? b) eqn:E; cbn; auto.
  apply N.eqb_eq in E. subst. apply N.eqb_refl.
Qed.
Lemma tt_eqb a b : rtype_eqb (tt a) (tt b) = R.rtype_eqb a b.
Proof. destruct a, b; reflexivity. Qed.
Lemma r_rtype_eqb_eq a b : R.rtype_eqb a b = true <-> a = b.
Proof.
  destruct a, b; cbn; try (split; [discriminate | discriminate]); try tauto.
  rewrite N.eqb_eq. split; [intros ->; auto | intros E; inversion E; auto].
Qed.
Lemma r_rtype_eqb_sym a b : R.rtype_eqb a b = R.rtype_eqb b a.
Proof. destruct a, b; cbn; auto. apply N.eqb_sym. Qed.

Lemma tkt_inj x y : tkt x = tkt y -> x = y.
Proof.
  destruct x as [k t], y as [k' t']. unfold tkt, tk. cbn. intros E. inversion E; subst.
  f_equal. destruct t, t'; cbn in *; try discriminate; auto. inversion H3; auto.
Qed.
Lemma NoDup_map_tkt l : NoDup l -> NoDup (map tkt l).
Proof.
  induction l as [|x r IH]; cbn; intros Hd; [constructor|]. inversion Hd; subst. constructor; auto.
  intros Hin. apply in_map_iff in Hin. destruct Hin as (y & Hq & Hy). apply tkt_inj in Hq. subst. contradiction.
Qed.

Lemma is_held_theld n k :
  is_held (theld n) (tk k) = match R.lookup k (R.held n) with Some _ => true | None => false end.
Proof.
  unfold is_held, theld. induction (R.held n) as [|[k' c] r IH]; cbn [map held_get R.lookup fst snd]; auto.
  rewrite tk_eqb, (N.eqb_sym k' k). destruct (k =? k'); auto.
Qed.

Lemma kt_mem_In x l : R.kt_mem x l = true <-> In x l.
Proof.
  unfold R.kt_mem. rewrite existsb_exists. split.
  - intros (y & Hy & Hq). apply andb_true_iff in Hq. destruct Hq as [Hk Ht].
    apply N.eqb_eq in Hk. apply r_rtype_eqb_eq in Ht. destruct x, y; cbn in *; subst; auto.
  - intros Hin. exists x. split; auto. rewrite N.eqb_refl. cbn. apply r_rtype_eqb_eq; auto.
Qed.

Lemma og_mem_map x (l : list og_entry) : og_mem x l = existsb (fun y => kt_eqb y x) (map fst l).
Proof. unfold og_mem. induction l as [|e r IH]; cbn; auto. rewrite IH. reflexivity. Qed.

Lemma og_mem_inflight n s x : inflight_rel n s -> og_mem (tkt x) (ongoing s) = R.kt_mem x (R.inflight n).
Proof.
  intros Hrel. rewrite og_mem_map, Hrel. unfold R.kt_mem.
  induction (R.inflight n) as [|y r IH]; cbn [map existsb]; auto.
  rewrite IH. f_equal. unfold kt_eqb, tkt. cbn [fst snd]. rewrite tk_eqb, tt_eqb, N.eqb_sym, r_rtype_eqb_sym.
  reflexivity.
Qed.

(* with a duplicate-free list, `wanted` is a plain filter *)
Lemma wanted_filter n : forall keys seen,
  NoDup keys -> (forall x, In x keys -> ~ In x seen) ->
  R.wanted n seen keys =
  filter (fun x => negb (match R.lookup (fst x) (R.held n) with Some _ => true | None => false end
                         || R.kt_mem x (R.inflight n))) keys.
Proof.
  induction keys as [|x r IH]; intros seen Hd Hs; cbn [R.wanted filter]; auto.
  inversion Hd as [|? ? Hx Hr]; subst.
  assert (Hseen : R.kt_mem x seen = false).
  { destruct (R.kt_mem x seen) eqn:E; auto. apply kt_mem_In in E. exfalso. apply (Hs x); [left; auto | auto]. }
  rewrite Hseen, orb_false_r.
  destruct (match R.lookup (fst x) (R.held n) with Some _ => true | None => false end || R.kt_mem x (R.inflight n)); cbn [negb].
  - apply IH; auto. intros y Hy. apply Hs. right; auto.
  - f_equal. apply IH; auto. intros y Hy [<-|Hin]; [contradiction|]. apply (Hs y); [right; auto | auto].
Qed.

Lemma filter_filter {A} (p q : A -> bool) l : filter q (filter p l) = filter (fun x => p x && q x) l.
Proof. induction l as [|x r IH]; cbn; auto. destruct (p x); cbn; [destruct (q x); rewrite IH; auto | auto]. Qed.

(* what add_keys fetches = what Replication.v says is wanted *)
Theorem fetch_set_is_wanted : forall n s keys,
  inflight_rel n s -> NoDup keys ->
  fetch_set s (theld n) (map tkt keys) = map tkt (R.wanted n [] keys).
Proof.
  intros n s keys Hrel Hd. unfold fetch_set, unheld_inc.
  rewrite filter_filter, filter_map_comm. f_equal.
  rewrite (wanted_filter n keys [] Hd) by (intros x _ []).
  apply filter_ext. intros x. unfold tkt at 1. cbn [fst].
  rewrite is_held_theld, (og_mem_inflight n s x Hrel), negb_orb. reflexivity.
Qed.

(* the composed statement: an accepted Replicate message on an idle fetcher, inside the cap, makes the
   real add_keys (any hash-map iteration order) return exactly one fetch per wanted entry, from the
   advertising holder *)
Theorem on_replicate_matches_add_keys_lemma : forall iter n s h keys,
  (forall l, Permutation (iter l) l) ->
  tbf s = [] -> range s = None -> farthest s = None ->
  inflight_rel n s -> NoDup keys ->
  (forall e, In e (ongoing s) -> ~ expired s e) ->
  (length (R.inflight n) + length (R.wanted n [] keys) <= MAXn)%nat ->
  let step := step_code iter s (AddKeys h (map tkt keys) (theld n)) in
  Permutation (ret (snd step)) (map (fun x => (h, tk (fst x))) (R.wanted n [] keys)) /\
  Permutation (map fst (ongoing (fst step)))
              (map fst (kept s (theld n)) ++ map tkt (R.wanted n [] keys)) /\
  events (snd step) = [] /\
  tbf (fst step) = lingering s h (theld n) (map tkt keys) /\
  range (fst step) = None /\ farthest (fst step) = None /\ now (fst step) = now s.
Proof.
  intros iter n s h keys Hperm Ht Hr Hf Hrel Hd Hexp Hcap step. subst step.
  pose proof (fetch_set_is_wanted n s keys Hrel Hd) as HW.
  assert (Hlen : length (ongoing s) = length (R.inflight n)).
  { transitivity (length (map fst (ongoing s))); [symmetry; apply map_length|]. rewrite Hrel. apply map_length. }
  pose proof (kept_length s (theld n)) as HK.
  assert (Hcap' : (length (kept s (theld n)) + length (fetch_set s (theld n) (map tkt keys)) <= MAXn)%nat).
  { rewrite HW, map_length. lia. }
  destruct (add_keys_idle_lemma iter s h (map tkt keys) (theld n) Hperm Ht Hr Hf (NoDup_map_tkt keys Hd) Hexp Hcap')
    as (B1 & B2 & B3 & B4 & B5).
  rewrite HW in B1, B3. rewrite map_map in B1.
  split; [exact B1|]. split.
  - rewrite (Permutation_map fst B3), map_app, !map_map. cbn [fst]. apply Permutation_refl.
  - auto.
Qed.
End Translation.
