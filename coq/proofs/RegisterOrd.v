(* The comparisons of model/Register.v are lawful total orders (so the sorted-list containers are
   canonical), and the boolean equalities decide Leibniz equality. *)
From Coq Require Import List NArith Bool Lia.
From V Require Import lib.Strs gen.Consts model.MerkleReg model.Register proofs.MerkleRegSorted.
Import ListNotations.
Open Scope N_scope.

Lemma pair_laws {A B} (ca : A -> A -> comparison) (cb : B -> B -> comparison) :
  CmpLaws ca -> CmpLaws cb -> CmpLaws (cmp_pair ca cb).
Proof.
  intros La Lb. split.
  - intros [a b] [a' b']. unfold cmp_pair. cbn. destruct (ca a a') eqn:E.
    + apply (cl_eq _ La) in E. subst. rewrite (cl_eq _ Lb). split; [congruence | intros H; inversion H; reflexivity].
    + split; [discriminate|]. intros H. inversion H; subst. rewrite (cmp_refl ca La) in E. discriminate.
    + split; [discriminate|]. intros H. inversion H; subst. rewrite (cmp_refl ca La) in E. discriminate.
  - intros [a b] [a' b']. unfold cmp_pair. cbn. rewrite (cl_anti _ La a a').
    destruct (ca a a'); cbn; [apply (cl_anti _ Lb) | reflexivity | reflexivity].
  - intros [a b] [a' b'] [a'' b'']. unfold cmp_pair. cbn.
    destruct (ca a a') eqn:E1; try discriminate.
    + apply (cl_eq _ La) in E1. subst. destruct (ca a' a'') eqn:E2; try discriminate; auto.
      apply (cl_trans _ Lb).
    + intros _. destruct (ca a' a'') eqn:E2; try discriminate.
      * apply (cl_eq _ La) in E2. subst. rewrite E1. reflexivity.
      * rewrite (cl_trans _ La _ _ _ E1 E2). reflexivity.
Qed.

Lemma list_laws {A} (c : A -> A -> comparison) : CmpLaws c -> CmpLaws (cmp_list c).
Proof.
  intros L. split.
  - induction x as [|a x IH]; intros [|b y]; cbn; try (split; [discriminate | discriminate]); [tauto|].
    destruct (c a b) eqn:E.
    + apply (cl_eq _ L) in E. subst. rewrite IH. split; [congruence | intros H; inversion H; reflexivity].
    + split; [discriminate|]. intros H. inversion H; subst. rewrite (cmp_refl c L) in E. discriminate.
    + split; [discriminate|]. intros H. inversion H; subst. rewrite (cmp_refl c L) in E. discriminate.
  - induction x as [|a x IH]; intros [|b y]; cbn; try reflexivity.
    rewrite (cl_anti _ L a b). destruct (c a b); cbn; [apply IH | reflexivity | reflexivity].
  - induction x as [|a x IH]; intros [|b y] [|d z]; cbn; try discriminate; try reflexivity.
    destruct (c a b) eqn:E1; try discriminate.
    + apply (cl_eq _ L) in E1. subst. destruct (c b d) eqn:E2; try discriminate; auto. apply IH.
    + intros _. destruct (c b d) eqn:E2; try discriminate.
      * apply (cl_eq _ L) in E2. subst. rewrite E1. reflexivity.
      * rewrite (cl_trans _ L _ _ _ E1 E2). reflexivity.
Qed.

Lemma on_laws {A B} (f : A -> B) (c : B -> B -> comparison) :
  (forall x y, f x = f y -> x = y) -> CmpLaws c -> CmpLaws (cmp_on f c).
Proof.
  intros Hinj L. unfold cmp_on. split.
  - intros x y. rewrite (cl_eq _ L). split; [apply Hinj | congruence].
  - intros x y. apply (cl_anti _ L).
  - intros x y z. apply (cl_trans _ L).
Qed.

Notation NL := N_cmp_laws.
Lemma TA_laws : CmpLaws cmpTA. Proof. apply pair_laws; exact NL. Qed.
Lemma TP_laws : CmpLaws cmpTP. Proof. apply pair_laws; [exact NL | apply list_laws, NL]. Qed.
Lemma TR_laws : CmpLaws cmpTR. Proof. apply pair_laws; [exact TA_laws | exact TP_laws]. Qed.
Lemma TN_laws : CmpLaws cmpTN. Proof. apply pair_laws; apply list_laws, NL. Qed.
Lemma TM_laws : CmpLaws cmpTM.
Proof. apply pair_laws; [exact NL | apply pair_laws; [exact TR_laws | exact NL]]. Qed.
Lemma TS_laws : CmpLaws cmpTS.
Proof. apply pair_laws; [exact NL | apply pair_laws; [exact NL | exact TM_laws]]. Qed.
Lemma TO_laws : CmpLaws cmpTO.
Proof.
  apply pair_laws; [exact TA_laws|]. apply pair_laws; [exact TN_laws|].
  apply pair_laws; [exact NL | exact TS_laws].
Qed.

Lemma enc_addr_inj x y : enc_addr x = enc_addr y -> x = y.
Proof. destruct x, y. unfold enc_addr. cbn. congruence. Qed.
Lemma enc_perms_inj x y : enc_perms x = enc_perms y -> x = y.
Proof. destruct x, y; cbn; congruence. Qed.
Lemma enc_reg_inj x y : enc_reg x = enc_reg y -> x = y.
Proof.
  destruct x as [a p], y as [a' p']. unfold enc_reg. cbn. intros E. inversion E as [[E1 E2 E3]].
  assert (a = a') by (apply enc_addr_inj; unfold enc_addr; congruence).
  assert (p = p') by (apply enc_perms_inj; exact E3). congruence.
Qed.
Lemma enc_node_inj x y : enc_node x = enc_node y -> x = y.
Proof. destruct x, y. unfold enc_node. cbn. congruence. Qed.
Lemma enc_msg_inj x y : enc_msg x = enc_msg y -> x = y.
Proof.
  destruct x, y; cbn; intros E; inversion E; try reflexivity.
  f_equal. apply enc_reg_inj. unfold enc_reg, enc_addr. congruence.
Qed.
Lemma enc_sig_inj x y : enc_sig x = enc_sig y -> x = y.
Proof.
  destruct x as [pk m|j], y as [pk' m'|j']; cbn; intros E.
  - assert (pk = pk') as E1 by congruence. assert (enc_msg m = enc_msg m') as E2 by congruence.
    apply enc_msg_inj in E2. congruence.
  - discriminate.
  - discriminate.
  - congruence.
Qed.
Lemma enc_op_inj x y : enc_op x = enc_op y -> x = y.
Proof.
  destruct x as [a n s g], y as [a' n' s' g']. unfold enc_op. cbn. intros E.
  assert (enc_addr a = enc_addr a') as Ea by congruence.
  assert (enc_node n = enc_node n') as En by congruence.
  assert (s = s') as Es by congruence.
  assert (enc_sig g = enc_sig g') as Eg by congruence.
  apply enc_addr_inj in Ea. apply enc_node_inj in En. apply enc_sig_inj in Eg. congruence.
Qed.

Lemma addr_laws : CmpLaws cmp_addr. Proof. apply on_laws; [exact enc_addr_inj | exact TA_laws]. Qed.
Lemma perms_laws : CmpLaws cmp_perms. Proof. apply on_laws; [exact enc_perms_inj | exact TP_laws]. Qed.
Lemma sig_laws : CmpLaws cmp_sig. Proof. apply on_laws; [exact enc_sig_inj | exact TS_laws]. Qed.
Lemma op_laws : CmpLaws cmp_op. Proof. apply on_laws; [exact enc_op_inj | exact TO_laws]. Qed.

Lemma addr_eqb_iff a b : addr_eqb a b = true <-> a = b.
Proof. apply (is_eq_iff cmp_addr addr_laws). Qed.
Lemma perms_eqb_iff a b : perms_eqb a b = true <-> a = b.
Proof. apply (is_eq_iff cmp_perms perms_laws). Qed.
Lemma sig_eqb_iff a b : sig_eqb a b = true <-> a = b.
Proof. apply (is_eq_iff cmp_sig sig_laws). Qed.
Lemma op_eqb_iff a b : op_eqb a b = true <-> a = b.
Proof. apply (is_eq_iff cmp_op op_laws). Qed.

Lemma addr_eqb_refl a : addr_eqb a a = true. Proof. apply addr_eqb_iff. reflexivity. Qed.
Lemma perms_eqb_refl a : perms_eqb a a = true. Proof. apply perms_eqb_iff. reflexivity. Qed.
