(* C08, "a timed-out holder being reported": the report survives back-pressure on the NetworkEvent
   channel.  The channel is a bounded queue plus the senders waiting for capacity (the spawned
   `send().await` of `send_event`); whatever its capacity and occupancy, draining delivers everything
   that was in it and everything emitted since, each exactly once, in order. *)
From Coq Require Import List NArith Bool Arith Lia Permutation ZifyBool ZifyNat ZifyN.
From V Require Import gen.Consts model.Fetcher proofs.Fetcher proofs.FetcherDet proofs.FetcherSched proofs.FetcherProps.
Import ListNotations.
Open Scope N_scope.

Lemma ch_send_contents c e : ch_contents (ch_send c e) = ch_contents c ++ [e].
Proof.
  unfold ch_send, ch_contents. destruct (ch_wait c) as [|w ws] eqn:W.
  - destruct (length (ch_q c) <? ch_cap c)%nat; cbn [ch_q ch_wait]; rewrite ?app_nil_r; reflexivity.
  - cbn [ch_q ch_wait]. rewrite app_assoc. reflexivity.
Qed.
Lemma ch_send_wf c e : ch_wf c -> ch_wf (ch_send c e).
Proof.
  intros [Hc Hw]. unfold ch_send, ch_wf. destruct (ch_wait c) as [|w ws] eqn:W.
  - destruct (length (ch_q c) <? ch_cap c)%nat eqn:B; cbn [ch_cap ch_q ch_wait]; split; auto.
    + intros H; congruence.
    + intros _. apply Nat.ltb_ge in B. exact B.
  - cbn [ch_cap ch_q ch_wait]. split; auto. intros _. apply Hw. discriminate.
Qed.
Lemma ch_send_cap c e : ch_cap (ch_send c e) = ch_cap c.
Proof. unfold ch_send. destruct (ch_wait c); [destruct (_ <? _)%nat|]; reflexivity. Qed.

Lemma ch_send_all evs : forall c, ch_wf c ->
  ch_wf (fold_left ch_send evs c) /\ ch_contents (fold_left ch_send evs c) = ch_contents c ++ evs.
Proof.
  induction evs as [|e r IH]; intros c W; cbn [fold_left].
  - rewrite app_nil_r. auto.
  - destruct (IH (ch_send c e) (ch_send_wf c e W)) as [W' C']. split; auto.
    rewrite C', ch_send_contents, <- app_assoc. reflexivity.
Qed.

Lemma ch_recv_head c x rest :
  ch_wf c -> ch_contents c = x :: rest ->
  exists c', ch_recv c = (Some x, c') /\ ch_wf c' /\ ch_contents c' = rest.
Proof.
  intros [Hc Hw] HC. unfold ch_contents in HC. unfold ch_recv.
  destruct (ch_q c) as [|y q] eqn:Q.
  - (* an empty queue has no waiting senders *)
    destruct (ch_wait c) as [|w ws] eqn:W; [discriminate|].
    exfalso. assert (ch_cap c <= 0)%nat by (apply Hw; discriminate). lia.
  - cbn in HC. inversion HC; subst y. destruct (ch_wait c) as [|w ws] eqn:W.
    + eexists. split; [reflexivity|]. split.
      * split; cbn; auto. intros H; congruence.
      * unfold ch_contents. cbn. rewrite app_nil_r in *. reflexivity.
    + eexists. split; [reflexivity|]. split.
      * split; cbn [ch_cap ch_q ch_wait]; auto. intros _.
        assert (ch_cap c <= length (x :: q))%nat by (apply Hw; discriminate).
        rewrite app_length. cbn in *. lia.
      * unfold ch_contents. cbn [ch_q ch_wait]. rewrite <- app_assoc. reflexivity.
Qed.

Lemma ch_drain_all : forall l c, ch_wf c -> ch_contents c = l -> ch_drain (length l) c = l.
Proof.
  induction l as [|x rest IH]; intros c W HC; cbn [length ch_drain]; auto.
  destruct (ch_recv_head c x rest W HC) as (c' & R & W' & C'). rewrite R. f_equal. apply IH; auto.
Qed.

(* nothing is lost, nothing is duplicated, order is kept -- for every capacity and occupancy *)
Theorem chan_delivers_all_lemma : forall c evs, ch_wf c ->
  ch_drain (length (ch_contents c) + length evs) (fold_left ch_send evs c) = ch_contents c ++ evs.
Proof.
  intros c evs W. destruct (ch_send_all evs c W) as [W' C'].
  rewrite <- app_length. apply ch_drain_all; auto.
Qed.

(* a non-blocking try_send instead (seeded change C08-9) loses the report when the queue is full *)
Theorem try_send_loses_report_lemma :
  exists c e, ch_wf c /\
    ch_drain (length (ch_contents c) + 1) (ch_try_send c e) = ch_contents c /\ ~ In e (ch_contents c).
Proof.
  exists (mkChan 1 [[99]] []), [7]. split; [split; cbn; [lia | congruence]|].
  split; [reflexivity|]. cbn. intros [H|[]]. discriminate.
Qed.

(* ---------------------------------------------------------------- the fetcher's reports *)
Lemma emitted_app tr1 tr2 : emitted (tr1 ++ tr2) = emitted tr1 ++ emitted tr2.
Proof. unfold emitted. rewrite map_app, concat_app. reflexivity. Qed.

(* every timed-out holder is reported exactly in the step that prunes it, and the report reaches the
   consumer once it drains the channel, whatever the channel looked like in between *)
Theorem timed_out_report_delivered_lemma : forall tr1 o out post tr2 c e,
  valid (tr1 ++ (o, out, post) :: tr2) -> ch_wf c -> schedules o = true ->
  In e (ongoing (last_state init tr1)) -> op_completes o e = false -> expired (last_state init tr1) e ->
  let tr := tr1 ++ (o, out, post) :: tr2 in
  let delivered := ch_drain (length (ch_contents c) + length (emitted tr)) (fold_left ch_send (emitted tr) c) in
  delivered = ch_contents c ++ emitted tr /\
  exists ev, events out = [ev] /\ In (og_holder e) ev /\ In ev delivered.
Proof.
  intros tr1 o out post tr2 c e Hv W Hs He Hc Hx tr delivered.
  assert (HD : delivered = ch_contents c ++ emitted tr) by (apply chan_delivers_all_lemma; auto).
  split; auto.
  unfold valid in Hv. rewrite run_ok_app in Hv. apply andb_true_iff in Hv. destruct Hv as [Hv1 Hv2].
  cbn [run_ok] in Hv2. apply andb_true_iff in Hv2. destruct Hv2 as [Hst _].
  assert (HR : reachable (last_state init tr1)) by (exists tr1; split; auto).
  destruct (timed_out_lemma _ _ _ _ HR Hst Hs) as (T1 & _ & _).
  destruct (T1 e He Hc Hx) as ((ev & Hev & Hin) & _).
  exists ev. split; auto. split; auto. rewrite HD. apply in_app_iff. right.
  subst tr. rewrite emitted_app. apply in_app_iff. right. unfold emitted. cbn [map concat fst snd]. apply in_app_iff. left.
  rewrite Hev. left. reflexivity.
Qed.

(* ---------------------------------------------------------------- deferred histories *)
Lemma run_deferred_sound : forall tr s,
  fst (run_deferred s tr) = true ->
  run_ok s (reemit s tr) = true /\ emitted (reemit s tr) = snd (run_deferred s tr).
Proof.
  induction tr as [|[[o out] post] r IH]; intros s H; cbn [run_deferred reemit run_ok] in *.
  - split; reflexivity.
  - destruct (run_deferred post r) as [ok em] eqn:E. cbn [fst snd] in *.
    apply andb_true_iff in H. destruct H as [H1 H2]. subst ok.
    destruct (IH post) as [I1 I2]; [rewrite E; reflexivity|]. rewrite E in I2. cbn [snd] in I2.
    split.
    + rewrite H1, I1. reflexivity.
    + unfold emitted in *. cbn [map concat fst snd events]. rewrite I2. reflexivity.
Qed.

Theorem agree_deferred_sound_lemma : forall tr delivered,
  agree_deferred tr delivered = true ->
  valid (reemit init tr) /\ events_eqb (emitted (reemit init tr)) delivered = true.
Proof.
  intros tr delivered H. unfold agree_deferred in H. destruct (run_deferred init tr) as [ok em] eqn:E.
  apply andb_true_iff in H. destruct H as [H1 H2]. subst ok.
  destruct (run_deferred_sound tr init) as [I1 I2]; [rewrite E; reflexivity|].
  rewrite E in I2. cbn [snd] in I2. split; [exact I1 | rewrite I2; exact H2].
Qed.

(* ---------------------------------------------------------------- non-vacuity *)
(* a one-slot channel that is full: two reports queue up behind the filler and arrive in order *)
Example ex_chan_backpressure :
  let c := mkChan 1 [[99]] [] in
  ch_wf c /\ ch_wait (fold_left ch_send [[7]; [8; 9]] c) = [[7]; [8; 9]] /\
  ch_drain 3 (fold_left ch_send [[7]; [8; 9]] c) = [[99]; [7]; [8; 9]] /\
  ch_drain 3 (fold_left ch_try_send [[7]; [8; 9]] c) = [[99]].
Proof. cbv zeta. split; [split; cbn; [lia | congruence]|]. repeat split; reflexivity. Qed.
