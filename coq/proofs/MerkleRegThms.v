(* Consequences of proofs/MerkleReg.v stated on deliveries of node lists. *)
From Coq Require Import List NArith Bool Lia Arith.
From V Require Import model.MerkleReg proofs.MerkleRegSorted proofs.MerkleReg.
Import ListNotations.
Open Scope N_scope.

(* the hash function has no collision among the nodes of l *)
Definition inj_on (H : node -> N) (l : list node) : Prop :=
  forall a b, In a l -> In b l -> H a = H b -> a = b.

(* the least set of hashes closed under "a delivered node whose children are all in the set":
   the delivered nodes whose whole ancestry was delivered *)
Inductive present (H : node -> N) (l : list node) : N -> Prop :=
| p_intro n : In n l -> (forall c, In c (children n) -> present H l c) -> present H l (H n).

Section Thms.
  Variable H : node -> N.

  Lemma deliver_inv l : Inv H (mr_deliver H l).
  Proof. apply (deliver_spec H l mr_empty (Inv_empty H)). Qed.

  Lemma deliver_entries l : inj_on H l ->
    forall e, entry_of (mr_deliver H l) e <-> exists n, In n l /\ e = (H n, n).
  Proof.
    intros Hinj e.
    destruct (deliver_spec H l mr_empty (Inv_empty H)) as (I & He & Hk & _). fold (mr_deliver H l) in *.
    split.
    - intros Hent. apply He in Hent as [[[]|[]]|Hex]. exact Hex.
    - intros (n & Hn & ->).
      assert (has_key (mr_deliver H l) (H n) = true) as Hkey by (apply Hk; right; eauto).
      unfold has_key in Hkey. apply orb_true_iff in Hkey. rewrite !ehas_iff in Hkey.
      assert (forall m, entry_of (mr_deliver H l) (H n, m) -> m = n) as Hm.
      { intros m Hent. apply He in Hent as [[[]|[]]|(m' & Hm' & E)]. inversion E as [[E1 E2]]. subst m'.
        apply Hinj; auto. }
      destruct Hkey as [(m & Hi)|(m & Hi)].
      + pose proof (Hm m (or_introl Hi)) as ->. left. exact Hi.
      + pose proof (Hm m (or_intror Hi)) as ->. right. exact Hi.
  Qed.

  Theorem order_independent l1 l2 : inj_on H l1 -> (forall n, In n l1 <-> In n l2) ->
    mr_deliver H l1 = mr_deliver H l2.
  Proof.
    intros Hinj Hsame.
    assert (Hinj2 : inj_on H l2) by (intros a b Ha Hb; apply Hinj; apply Hsame; assumption).
    apply (state_determined H); try apply deliver_inv.
    intros e. rewrite (deliver_entries l1 Hinj), (deliver_entries l2 Hinj2).
    split; intros (n & Hn & E); exists n; (split; [apply Hsame, Hn | exact E]).
  Qed.

  Theorem dag_is_lfp l : inj_on H l ->
    forall k, ehas k (dag (mr_deliver H l)) = true <-> present H l k.
  Proof.
    intros Hinj k. pose proof (deliver_inv l) as I. pose proof (deliver_entries l Hinj) as He.
    split.
    - intros Hk. apply ehas_iff in Hk as (n & Hi).
      pose proof (i_ground _ _ I _ _ Hi) as Hg. clear n Hi.
      induction Hg as [k n Hi _ IH].
      assert (k = H n) as -> by (apply (i_dag_key _ _ I _ _ Hi)).
      constructor.
      + destruct (proj1 (He _) (or_introl Hi)) as (m & Hm & E). inversion E as [[E1 E2]]. subst. exact Hm.
      + exact IH.
    - induction 1 as [n Hn _ IH].
      destruct (proj2 (He (H n, n)) (ex_intro _ n (conj Hn eq_refl))) as [Hd|Ho].
      + apply ehas_iff. eauto.
      + exfalso. pose proof (i_noready _ _ I _ _ Ho) as Hnr.
        assert (all_seen (dag (mr_deliver H l)) (children n) = true) as Hs by (apply all_seen_iff; exact IH).
        congruence.
  Qed.

  Theorem orphans_are_the_rest l : inj_on H l ->
    forall n, In (H n, n) (orphans (mr_deliver H l)) <-> In n l /\ ~ present H l (H n).
  Proof.
    intros Hinj n. pose proof (deliver_inv l) as I. pose proof (deliver_entries l Hinj) as He.
    split.
    - intros Ho. destruct (proj1 (He _) (or_intror Ho)) as (m & Hm & E). inversion E as [[E1 E2]]. subst m.
      split; [exact Hm|]. intros Hp. apply (dag_is_lfp l Hinj) in Hp.
      apply (i_disj _ _ I) in Hp. rewrite ehas_false in Hp. eapply Hp, Ho.
    - intros [Hn Hnp]. destruct (proj2 (He (H n, n)) (ex_intro _ n (conj Hn eq_refl))) as [Hd|Ho]; [|exact Ho].
      exfalso. apply Hnp. apply (dag_is_lfp l Hinj). apply ehas_iff. eauto.
  Qed.

  (* roots = dag hashes that are no dag node's child *)
  Theorem roots_are_heads l : inj_on H l ->
    forall k, In k (roots (mr_deliver H l)) <->
      (present H l k /\ forall n, In n l -> present H l (H n) -> ~ In k (children n)).
  Proof.
    intros Hinj k. pose proof (deliver_inv l) as I. pose proof (deliver_entries l Hinj) as He.
    rewrite (i_roots _ _ I), (dag_is_lfp l Hinj). split; intros [Hp Hc]; (split; [exact Hp|]).
    - intros n Hn Hpn. apply (dag_is_lfp l Hinj) in Hpn. apply ehas_iff in Hpn as (m & Hi).
      destruct (proj1 (He _) (or_introl Hi)) as (m' & Hm' & E). inversion E as [[E1 E2]]. subst m'.
      assert (m = n) as -> by (apply Hinj; auto). eapply Hc, Hi.
    - intros k' n' Hi. destruct (proj1 (He _) (or_introl Hi)) as (m' & Hm' & E). inversion E as [[E1 E2]]. subst.
      apply Hc; [exact Hm'|]. apply (dag_is_lfp l Hinj). apply ehas_iff. eauto.
  Qed.

  (* read() lists exactly the roots, each with its node *)
  Theorem read_is_roots l : map fst (mr_read (mr_deliver H l)) = roots (mr_deliver H l).
  Proof.
    pose proof (deliver_inv l) as I. unfold mr_read.
    assert (forall r, In r (roots (mr_deliver H l)) -> exists e, eget r (dag (mr_deliver H l)) = Some e /\ fst e = r) as Hr.
    { intros r Hr. apply (i_roots _ _ I) in Hr as [Hd _]. apply ehas_iff in Hd as (n & Hi).
      exists (r, n). split; [|reflexivity].
      apply (kget_in (@fst N node) N.compare N_cmp_laws _ (r, n)); [apply I | exact Hi]. }
    induction (roots (mr_deliver H l)) as [|r rs IH]; cbn; [reflexivity|].
    destruct (Hr r (or_introl eq_refl)) as (e & -> & <-). cbn. f_equal. apply IH.
    intros r' Hr'. apply Hr. right. exact Hr'.
  Qed.

  (* CvRDT::merge of two delivered replicas is the delivery of both node lists *)
  Theorem merge_is_union la lb : inj_on H (la ++ lb) ->
    mr_merge H (mr_deliver H la) (mr_deliver H lb) = mr_deliver H (la ++ lb).
  Proof.
    intros Hinj.
    assert (Hinjb : inj_on H lb) by (intros a b Ha Hb; apply Hinj; apply in_or_app; auto).
    set (nb := map snd (dag (mr_deliver H lb)) ++ map snd (orphans (mr_deliver H lb))).
    assert (Hnb : forall n, In n nb <-> In n lb).
    { intros n. unfold nb. rewrite in_app_iff, !in_map_iff. pose proof (deliver_entries lb Hinjb) as He. split.
      - intros [([k m] & E & Hi)|([k m] & E & Hi)]; cbn in E; subst m.
        + destruct (proj1 (He _) (or_introl Hi)) as (m & Hm & E). inversion E; subst. exact Hm.
        + destruct (proj1 (He _) (or_intror Hi)) as (m & Hm & E). inversion E; subst. exact Hm.
      - intros Hn. destruct (proj2 (He (H n, n)) (ex_intro _ n (conj Hn eq_refl))) as [Hd|Ho].
        + left. exists (H n, n). auto.
        + right. exists (H n, n). auto. }
    assert (mr_merge H (mr_deliver H la) (mr_deliver H lb) = mr_deliver H (la ++ nb)) as ->.
    { unfold mr_merge, mr_deliver, nb. rewrite !fold_left_app. reflexivity. }
    apply order_independent.
    - intros a b Ha Hb. apply Hinj; apply in_app_iff; [apply in_app_iff in Ha | apply in_app_iff in Hb];
        rewrite Hnb in *; assumption.
    - intros n. rewrite !in_app_iff, Hnb. tauto.
  Qed.
End Thms.

(* with colliding hashes the first node delivered wins: the premise is needed *)
Lemma order_needs_inj : exists (H : node -> N) l1 l2,
  (forall n, In n l1 <-> In n l2) /\ mr_deliver H l1 <> mr_deliver H l2.
Proof.
  exists (fun _ => 0), [mknode [] [1]; mknode [] [2]], [mknode [] [2]; mknode [] [1]].
  split; [intros n; cbn; tauto | vm_compute; discriminate].
Qed.

(* non-vacuity: a delivery in which an orphan chain is released recursively *)
Example deliver_example :
  let H := fun n => match value n with [x] => x | _ => 0 end in
  let a := mknode [] [1] in let b := mknode [1] [2] in let c := mknode [2] [3] in
  let d := mknode [1; 9] [4] in
  inj_on H [c; b; d; a] /\
  orphans (mr_deliver H [c; b; d]) = [(2, b); (3, c); (4, d)] /\
  mr_deliver H [c; b; d; a] = mkmreg [3] [(1, a); (2, b); (3, c)] [(4, d)] /\
  mr_deliver H [a; d; b; c; c] = mr_deliver H [c; b; d; a].
Proof.
  cbn zeta. split; [|vm_compute; auto].
  intros x y Hx Hy. cbn in Hx, Hy.
  destruct Hx as [<-|[<-|[<-|[<-|[]]]]], Hy as [<-|[<-|[<-|[<-|[]]]]]; cbn; intros E; try reflexivity; discriminate.
Qed.

(* non-vacuity for repeated entry values: five distinct nodes, three of them carrying the value [7]
   (written from scratch, on top of p, and re-written after [8]); the value plays no role -- both
   current entries read [7], in every order *)
Example same_value_example :
  let a  := mknode [] [7] in let p := mknode [] [5] in let a' := mknode [2] [7] in
  let b  := mknode [1] [8] in let a'' := mknode [4] [7] in
  let H := fun n => match children n, value n with
                    | [], [7] => 1 | [], _ => 2 | [2], _ => 3 | [1], _ => 4 | _, _ => 5 end in
  inj_on H [a; p; a'; b; a''] /\
  mr_deliver H [a; p; a'; b; a''] = mr_deliver H [a''; b; a'; p; a] /\
  mr_deliver H [a''; a'; a; b; p; a'] = mr_deliver H [a; p; a'; b; a''] /\
  map (fun e => (fst e, value (snd e))) (mr_read (mr_deliver H [a''; b; a'; p; a])) = [(3, [7]); (5, [7])].
Proof.
  cbn zeta. split; [|vm_compute; auto].
  intros x y Hx Hy. cbn in Hx, Hy.
  destruct Hx as [<-|[<-|[<-|[<-|[<-|[]]]]]], Hy as [<-|[<-|[<-|[<-|[<-|[]]]]]]; cbn; intros E;
    try reflexivity; discriminate.
Qed.
