(* The names the message codec puts on the wire equal the tables regenerated from the source, and
   the message shapes round-trip through the CBOR model. *)
From Coq Require Import List NArith Bool String.
From V Require Import lib.Strs lib.Serde lib.Msgpack lib.Cbor gen.Consts model.Messages proofs.Msgpack proofs.Cbor.
Import ListNotations.
Open Scope N_scope.

Lemma message_name_tables_lemma :
  same_names (variant_table c_request) Consts.msg_variants_request = true /\
  same_names (variant_table c_response) Consts.msg_variants_response = true /\
  same_names (variant_table c_cmd) Consts.msg_variants_cmd = true /\
  same_names (variant_table c_query) Consts.msg_variants_query = true /\
  same_names (variant_table c_cmd_response) Consts.msg_variants_cmd_response = true /\
  same_names (variant_table c_query_response) Consts.msg_variants_query_response = true /\
  same_names (variant_table c_network_address) Consts.msg_variants_network_address = true /\
  same_names (variant_table c_record_type) Consts.msg_variants_record_type = true /\
  same_names (variant_table c_error) Consts.msg_variants_error = true /\
  field_table c_cmd = Consts.msg_fields_cmd /\
  field_table c_query = Consts.msg_fields_query /\
  field_table c_query_response = Consts.msg_fields_query_response /\
  field_table c_error = error_fields_from Consts.msg_fields_register_address Consts.msg_fields_error /\
  field_table c_register_address = Consts.msg_fields_register_address /\
  field_table c_scratchpad_address = Consts.msg_fields_scratchpad_address /\
  field_table c_quote = Consts.msg_fields_payment_quote /\
  field_table c_metrics = Consts.msg_fields_quoting_metrics.
Proof. vm_compute. repeat split; reflexivity. Qed.

Lemma message_roundtrip_lemma s v r :
  In s [c_request; c_response] -> conforms s v = true -> cwf v = true ->
  cbor_decode_as s (cbor_encode v ++ r) = Some (v, r).
Proof. intros _. apply cbor_roundtrip. Qed.

(* non-vacuity: a request and a response with nested addresses, an error payload and options *)
Definition ex_addr : sval := VVariant (nm "RegisterAddress")
  (VMap [VStr (nm "meta"); VTuple (map (VU W8) (repeat 17 32)); VStr (nm "owner"); VTuple (map (VU W8) (repeat 200 48))]).
Definition ex_request : sval :=
  VVariant (nm "Query") (VVariant (nm "GetClosestPeers")
    (VMap [VStr (nm "key"); ex_addr; VStr (nm "num_of_peers"); VSome (VU W64 300);
           VStr (nm "range"); VNone; VStr (nm "sign_result"); VBool true])).
Definition ex_response : sval :=
  VVariant (nm "Query") (VVariant (nm "GetReplicatedRecord")
    (VVariant (nm "Err") (VVariant (nm "ReplicatedRecordNotFound")
       (VMap [VStr (nm "holder"); VVariant (nm "PeerId") (VBytes [0; 36; 8]);
              VStr (nm "key"); VVariant (nm "RecordKey") (VBytes [])])))).
Definition ex_response_ok : sval :=
  VVariant (nm "Cmd") (VVariant (nm "Replicate") (VVariant (nm "Ok") VUnit)).

Example ex_messages_roundtrip :
  conforms c_request ex_request = true /\ cwf ex_request = true /\
  cbor_decode_as c_request (cbor_encode ex_request ++ [7]) = Some (ex_request, [7]) /\
  conforms c_response ex_response = true /\ cwf ex_response = true /\
  cbor_decode_as c_response (cbor_encode ex_response) = Some (ex_response, []) /\
  tohex (cbor_encode ex_response_ok) = "a163436d64a1695265706c6963617465a1624f6b80"%string /\
  cbor_decode_as c_response (cbor_encode ex_response_ok) = Some (ex_response_ok, []).
Proof. vm_compute. repeat split; reflexivity. Qed.

(* the documented loss of the format: Some(None) is written as null *)
Example cbor_some_none_not_roundtrip :
  cbor_decode_as (COption (COption CBool)) (cbor_encode (VSome VNone)) = Some (VNone, []).
Proof. reflexivity. Qed.
