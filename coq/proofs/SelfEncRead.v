(* Whole-data reads over an adversarial network (C15, second half): whatever the holders answer,
   a successful data_get_public for an address is determined by that address. *)
From Coq Require Import List NArith Bool String Lia.
From V Require Import lib.Strs gen.Consts model.ClientRead proofs.ClientRead model.SelfEnc.
Import ListNotations.
Open Scope N_scope.

Lemma collect_map_agree {A E X} (f1 f2 : X -> A + E) (l : list X) e1 e2 :
  (forall j a b, In j l -> f1 j = inl a -> f2 j = inl b -> a = b) ->
  collect (map f1 l) = inl e1 -> collect (map f2 l) = inl e2 -> e1 = e2.
Proof.
  revert e1 e2. induction l as [|j t IH]; cbn [map collect]; intros e1 e2 Hf E1 E2.
  - congruence.
  - destruct (f1 j) as [a|x] eqn:F1; [|discriminate]. destruct (f2 j) as [b|y] eqn:F2; [|discriminate].
    destruct (collect (map f1 t)) as [r1|] eqn:C1; [|discriminate].
    destruct (collect (map f2 t)) as [r2|] eqn:C2; [|discriminate].
    inversion E1; inversion E2; subst. f_equal.
    + apply (Hf j); auto. left; reflexivity.
    + apply IH; auto. intros j' a' b' I. apply Hf. right; exact I.
Qed.

Section Unforgeable.
  Variable C : codec.
  Hypothesis Hinj : forall x y, cH C x = cH C y -> x = y.

  Lemma fetch_dm_unforgeable n1 n2 dm order x1 x2 :
    fetch_from_data_map C n1 dm order = inl x1 -> fetch_from_data_map C n2 dm order = inl x2 -> x1 = x2.
  Proof.
    unfold fetch_from_data_map.
    destruct (collect (map _ order)) as [e1|] eqn:C1; [|discriminate].
    destruct (collect (map (fun j => match chunk_get (cH C) (n2 _) _ with inl c => _ | inr e => _ end) order))
      as [e2|] eqn:C2; [|discriminate].
    assert (E : e1 = e2).
    { eapply collect_map_agree; [|exact C1|exact C2]. cbn beta. intros j a b _.
      destruct (chunk_get (cH C) (n1 _) _) as [c1|] eqn:G1; [|discriminate].
      destruct (chunk_get (cH C) (n2 _) _) as [c2|] eqn:G2; [|discriminate].
      apply chunk_get_authentic_lemma in G1. apply chunk_get_authentic_lemma in G2.
      intros A B. inversion A; inversion B; subst. f_equal. apply Hinj. congruence. }
    subst e2. congruence.
  Qed.

  Lemma fetch_levels_unforgeable n1 n2 sched fuel lvl x1 x2 :
    fetch_levels C n1 sched fuel lvl = inl x1 -> fetch_levels C n2 sched fuel lvl = inl x2 -> x1 = x2.
  Proof.
    revert lvl. induction fuel as [|f IH]; intros lvl; cbn [fetch_levels]; [discriminate|].
    destruct (fetch_from_data_map C n1 _ _) as [d1|] eqn:F1; [|discriminate].
    destruct (fetch_from_data_map C n2 _ _) as [d2|] eqn:F2; [|discriminate].
    assert (d1 = d2) by (eapply fetch_dm_unforgeable; eauto). subst d2.
    destruct lvl as [dm|dm]; [congruence|].
    destruct (c_deser C d1) as [v|]; [|discriminate].
    destruct (c_unwrap C v) as [l'|]; [|discriminate]. apply IH.
  Qed.

  Lemma data_get_public_unforgeable_lemma n1 n2 sched fuel addr d1 d2 :
    data_get_public C n1 sched fuel addr = inl d1 -> data_get_public C n2 sched fuel addr = inl d2 -> d1 = d2.
  Proof.
    unfold data_get_public.
    destruct (chunk_get (cH C) (n1 addr) addr) as [r1|] eqn:G1; [|discriminate].
    destruct (chunk_get (cH C) (n2 addr) addr) as [r2|] eqn:G2; [|discriminate].
    apply chunk_get_authentic_lemma in G1. apply chunk_get_authentic_lemma in G2.
    assert (r1 = r2) by (apply Hinj; congruence). subst r2.
    unfold fetch_from_data_map_chunk. destruct (c_unwrap C r1) as [l|]; [|discriminate].
    apply fetch_levels_unforgeable.
  Qed.
End Unforgeable.

(* non-vacuity: an injective hash exists in the model (lists of numbers as one number), and the toy
   instance reads back its three tokens from an honest network but not from a tampering one *)
Example ex_shadow_honest : agree_shadow_read true 3 [FAuth; FAuth; FAuth; FAuth] None = true.
Proof. vm_compute. reflexivity. Qed.
Example ex_shadow_substituted :
  agree_shadow_read true 3 [FAuth; FOtherHash; FAuth; FAuth] (Some "net:DoesNotMatch"%string) = true.
Proof. vm_compute. reflexivity. Qed.
Example ex_public_read_ok :
  data_get_public (toy_codec 3) (toy_net 3 []) (fun dm => seq 0 (List.length dm)) 2 100 = inl [1; 2; 3].
Proof. vm_compute. reflexivity. Qed.
