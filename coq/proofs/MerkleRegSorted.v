(* Ordered containers of model/MerkleReg.v (lists strictly sorted by a key): the laws every
   BTreeMap/BTreeSet argument below rests on.  Generic in the key function and the comparison,
   which must be a lawful total order (CmpLaws). *)
From Coq Require Import List NArith Bool Lia Arith.
From V Require Import model.MerkleReg.
Import ListNotations.

Record CmpLaws {K} (cmp : K -> K -> comparison) : Prop := {
  cl_eq : forall x y, cmp x y = Eq <-> x = y;
  cl_anti : forall x y, cmp y x = CompOpp (cmp x y);
  cl_trans : forall x y z, cmp x y = Lt -> cmp y z = Lt -> cmp x z = Lt }.

Lemma N_cmp_laws : CmpLaws N.compare.
Proof.
  split.
  - intros x y. apply N.compare_eq_iff.
  - intros x y. apply N.compare_antisym.
  - intros x y z H1 H2. rewrite N.compare_lt_iff in *. lia.
Qed.

Section KeyedLaws.
  Context {A K : Type} (key : A -> K) (cmp : K -> K -> comparison) (L : CmpLaws cmp).

  Lemma cmp_refl k : cmp k k = Eq.
  Proof. apply (cl_eq _ L). reflexivity. Qed.

  Lemma cmp_gt_lt x y : cmp x y = Gt -> cmp y x = Lt.
  Proof. intros H. rewrite (cl_anti _ L), H. reflexivity. Qed.

  Lemma cmp_lt_neq x y : cmp x y = Lt -> x <> y.
  Proof. intros H E. subst. rewrite cmp_refl in H. discriminate. Qed.

  Inductive ksorted : list A -> Prop :=
  | ks_nil : ksorted []
  | ks_cons x l : (forall y, In y l -> cmp (key x) (key y) = Lt) -> ksorted l -> ksorted (x :: l).

  Lemma is_eq_iff k k' : is_eq (cmp k k') = true <-> k = k'.
  Proof.
    destruct (cmp k k') eqn:E; cbn; split; intros H0; try discriminate; try reflexivity.
    - apply (cl_eq _ L). exact E.
    - apply (cl_eq _ L) in H0. congruence.
    - apply (cl_eq _ L) in H0. congruence.
  Qed.

  Lemma khas_iff k l : khas key cmp k l = true <-> exists y, In y l /\ key y = k.
  Proof.
    unfold khas. rewrite existsb_exists. split.
    - intros (y & Hy & E). apply is_eq_iff in E. exists y. split; [exact Hy | congruence].
    - intros (y & Hy & E). exists y. split; [exact Hy |]. apply is_eq_iff. congruence.
  Qed.

  Lemma khas_false k l : khas key cmp k l = false <-> forall y, In y l -> key y <> k.
  Proof.
    split.
    - intros Hf y Hy E. assert (khas key cmp k l = true) by (apply khas_iff; eauto). congruence.
    - intros Hn. destruct (khas key cmp k l) eqn:E; [|reflexivity].
      apply khas_iff in E as (y & Hy & Ey). exfalso. eapply Hn; eauto.
  Qed.

  Lemma kins_In x l : ksorted l ->
    forall y, In y (kins key cmp x l) <-> y = x \/ (In y l /\ key y <> key x).
  Proof.
    induction 1 as [|z l Hz Hs IH]; intros y; cbn.
    - split; [intros [->|[]]; auto | intros [->|[[] _]]; auto].
    - destruct (cmp (key x) (key z)) eqn:E.
      + apply (cl_eq _ L) in E. cbn. split.
        * intros [->|Hy]; [auto|]. right. split; [auto|].
          rewrite E. apply not_eq_sym, cmp_lt_neq. apply Hz. exact Hy.
        * intros [->|[[->|Hy] Hn]]; auto. congruence.
      + cbn. split.
        * intros [->|[->|Hy]]; auto.
          -- right. split; [auto|]. apply not_eq_sym, cmp_lt_neq. exact E.
          -- right. split; [auto|]. apply not_eq_sym, cmp_lt_neq.
             eapply (cl_trans _ L); [exact E | apply Hz; exact Hy].
        * intros [->|[[->|Hy] _]]; auto.
      + cbn. rewrite IH. split.
        * intros [->|[->|[Hy Hn]]]; auto.
          right. split; [auto|]. apply cmp_lt_neq, cmp_gt_lt. exact E.
        * intros [->|[[->|Hy] Hn]]; auto.
  Qed.

  Lemma kins_sorted x l : ksorted l -> ksorted (kins key cmp x l).
  Proof.
    induction 1 as [|z l Hz Hs IH]; cbn.
    - constructor; [intros y []| constructor].
    - destruct (cmp (key x) (key z)) eqn:E.
      + apply (cl_eq _ L) in E. constructor; [|exact Hs]. intros y Hy. rewrite E. apply Hz, Hy.
      + constructor; [|constructor; assumption].
        intros y [->|Hy]; [exact E|]. eapply (cl_trans _ L); [exact E| apply Hz, Hy].
      + constructor; [|exact IH]. intros y Hy.
        apply kins_In in Hy; [|exact Hs]. destruct Hy as [->|[Hy _]].
        * apply cmp_gt_lt, E.
        * apply Hz, Hy.
  Qed.

  Lemma ksorted_key_unique l : ksorted l ->
    forall a b, In a l -> In b l -> key a = key b -> a = b.
  Proof.
    induction 1 as [|z l Hz Hs IH]; intros a b Ha Hb E; [destruct Ha|].
    destruct Ha as [->|Ha], Hb as [->|Hb]; auto.
    - exfalso. apply Hz in Hb. rewrite E, cmp_refl in Hb. discriminate.
    - exfalso. apply Hz in Ha. rewrite E, cmp_refl in Ha. discriminate.
  Qed.

  Lemma ksorted_ext l1 : ksorted l1 -> forall l2, ksorted l2 ->
    (forall x, In x l1 <-> In x l2) -> l1 = l2.
  Proof.
    induction 1 as [|a l1 Ha Hs1 IH]; intros l2 Hs2 Hext.
    - destruct l2 as [|b l2]; [reflexivity|]. exfalso. apply (Hext b). left. reflexivity.
    - destruct Hs2 as [|b l2 Hb Hs2].
      + exfalso. apply (Hext a). left. reflexivity.
      + assert (a = b) as ->.
        { destruct (proj1 (Hext a) (or_introl eq_refl)) as [E|Ha2]; [auto|].
          destruct (proj2 (Hext b) (or_introl eq_refl)) as [E|Hb1]; [auto|].
          apply Hb in Ha2. apply Ha in Hb1.
          rewrite (cl_anti _ L), Hb1 in Ha2. discriminate. }
        f_equal. apply IH; [exact Hs2|]. intros x. split; intros Hx.
        * destruct (proj1 (Hext x) (or_intror Hx)) as [E|Hx2]; [|exact Hx2].
          subst x. apply Ha in Hx. rewrite cmp_refl in Hx. discriminate.
        * destruct (proj2 (Hext x) (or_intror Hx)) as [E|Hx1]; [|exact Hx1].
          subst x. apply Hb in Hx. rewrite cmp_refl in Hx. discriminate.
  Qed.

  Lemma ksorted_filter p l : ksorted l -> ksorted (filter p l).
  Proof.
    induction 1 as [|z l Hz Hs IH]; cbn; [constructor|].
    destruct (p z); [|exact IH]. constructor; [|exact IH].
    intros y Hy. apply filter_In in Hy as [Hy _]. apply Hz, Hy.
  Qed.

  Lemma ksorted_NoDup l : ksorted l -> NoDup l.
  Proof.
    induction 1 as [|z l Hz Hs IH]; constructor; [|exact IH].
    intros Hin. apply Hz in Hin. rewrite cmp_refl in Hin. discriminate.
  Qed.

  Lemma kget_some k l e : kget key cmp k l = Some e -> In e l /\ key e = k.
  Proof.
    unfold kget. intros Hf. apply find_some in Hf as [Hi He]. apply is_eq_iff in He. auto.
  Qed.

  Lemma kget_in l e : ksorted l -> In e l -> kget key cmp (key e) l = Some e.
  Proof.
    intros Hs Hi. unfold kget.
    destruct (find (fun y => is_eq (cmp (key e) (key y))) l) as [e'|] eqn:F.
    - apply find_some in F as [Hi' He']. apply is_eq_iff in He'.
      f_equal. eapply ksorted_key_unique; eauto.
    - exfalso. eapply find_none in F; [|exact Hi]. rewrite cmp_refl in F. discriminate.
  Qed.

  (* ---- union (Extend::extend) *)
  Lemma kunion_sorted b : forall a, ksorted a -> ksorted (kunion key cmp a b).
  Proof.
    unfold kunion. induction b as [|x b IH]; intros a Ha; cbn; [exact Ha|].
    apply IH, kins_sorted, Ha.
  Qed.
End KeyedLaws.

(* sets: the key is the element itself *)
Section SetLaws.
  Context {A : Type} (cmp : A -> A -> comparison) (L : CmpLaws cmp).
  Let key := fun x : A => x.

  Lemma sins_In x l : ksorted key cmp l -> forall y, In y (kins key cmp x l) <-> y = x \/ In y l.
  Proof.
    intros Hs y. rewrite (kins_In key cmp L) by exact Hs. unfold key. split.
    - intros [E|[Hy _]]; auto.
    - intros [E|Hy]; [auto|]. destruct (cmp y x) eqn:E.
      + apply (cl_eq _ L) in E. auto.
      + right. split; [exact Hy|]. intros ->. rewrite (cmp_refl cmp L) in E. discriminate.
      + right. split; [exact Hy|]. intros ->. rewrite (cmp_refl cmp L) in E. discriminate.
  Qed.

  Lemma sunion_In b : forall a, ksorted key cmp a ->
    forall y, In y (kunion key cmp a b) <-> In y a \/ In y b.
  Proof.
    unfold kunion. induction b as [|x b IH]; intros a Ha y; cbn.
    - tauto.
    - rewrite IH by (apply (kins_sorted key cmp L), Ha). rewrite sins_In by exact Ha.
      split; [intros [[->|H0]|H0]; auto | intros [H0|[->|H0]]; auto].
  Qed.

  Lemma sof_list_sorted l : ksorted key cmp (kof_list key cmp l).
  Proof. apply (kunion_sorted key cmp L). constructor. Qed.

  Lemma sof_list_In l y : In y (kof_list key cmp l) <-> In y l.
  Proof. unfold kof_list. rewrite sunion_In by constructor. cbn. tauto. Qed.

  Lemma sins_present x l : ksorted key cmp l -> In x l -> kins key cmp x l = l.
  Proof.
    intros Hs Hi. apply (ksorted_ext key cmp L); [apply (kins_sorted key cmp L), Hs | exact Hs |].
    intros y. rewrite sins_In by exact Hs. split; [intros [->|]; auto | auto].
  Qed.

  Lemma sins_length_new x l : ksorted key cmp l -> ~ In x l ->
    length (kins key cmp x l) = S (length l).
  Proof.
    induction 1 as [|z l Hz Hs IH]; intros Hn; cbn; [reflexivity|].
    destruct (cmp (key x) (key z)) eqn:E.
    - apply (cl_eq _ L) in E. exfalso. apply Hn. left. symmetry. exact E.
    - reflexivity.
    - cbn. rewrite IH; [reflexivity|]. intros Hi. apply Hn. right. exact Hi.
  Qed.
End SetLaws.
