(* C14, part 3: self-encrypted data round-trips through the data map (any number of levels, any
   completion order of the chunk fetches); chunks are content-addressed; encryption is
   deterministic; too-small inputs are rejected; the packing loop terminates. *)
From Coq Require Import List NArith ZArith Bool Lia ZifyBool ZifyNat ZifyN Sorted Permutation.
From V Require Import lib.Strs gen.Consts model.ClientRead proofs.ClientRead model.SelfEnc
  proofs.SelfEncPartition proofs.SelfEncLists.
Import ListNotations.
Open Scope N_scope.

(* what is assumed of the third-party transform and codecs: they invert *)
Record codec_ok (C : codec) : Prop := {
  untr_tr : forall k x, c_untr C k (c_tr C k x) = Some x;
  unwrap_wrap : forall l, c_unwrap C (c_wrap C l) = Some l;
  deser_ser : forall b, c_deser C (c_ser C b) = Some b
}.

(* ... and, for termination of the packing loop only, how big their outputs can be *)
Record codec_sizes (C : codec) : Prop := {
  wrap_size : forall l, lenN (c_wrap C l) <= WRAP_BASE + WRAP_ENTRY * lenN (dm_of l);
  ser_size : forall b, lenN b <= lenN (c_ser C b) /\ lenN (c_ser C b) <= lenN b + SER_OVERHEAD
}.

(* a store whose chunks are addressed by their content hash, without two contents under one address *)
Definition good_store (C : codec) (st : list chunk) : Prop :=
  (forall c, In c st -> k_addr c = cH C (k_value c)) /\
  (forall c1 c2, In c1 st -> In c2 st -> k_addr c1 = k_addr c2 -> k_value c1 = k_value c2).

(* completion orders: each data map's fetches complete in some order, each exactly once *)
Definition valid_sched (sched : datamap -> list nat) : Prop :=
  forall dm, Permutation (sched dm) (seq 0 (length dm)).

Lemma store_lookup C st y :
  good_store C st -> In (mk_chunk C y) st -> store_net C st (cH C y) = ROk (chunk_record (cH C y) y).
Proof.
  intros [GA GC] I. unfold store_net.
  destruct (find (fun c => k_addr c =? cH C y) st) as [c'|] eqn:F.
  - apply find_some in F. destruct F as [I' E]. apply N.eqb_eq in E.
    rewrite (GC c' (mk_chunk C y) I' I) by (cbn; exact E). reflexivity.
  - pose proof (find_none _ _ F _ I) as X. cbn in X. rewrite N.eqb_refl in X. discriminate.
Qed.

(* ---------------------------------------------------------------- source chunks *)

Definition bound (MAX size i : N) : N := if i <? n MAX size then c MAX size * i else size.

Lemma concat_raw MAX (d : bytes) : 1 <= MAX -> 3 <= lenN d -> concat (raw_chunks MAX d) = d.
Proof.
  intros HM HS. set (size := lenN d). unfold raw_chunks. fold size.
  pose proof (n_ge_3 MAX size HM HS) as N3. pose proof (rest_pos MAX size HM HS) as RP.
  pose proof (c_pos MAX size) as CP. fold (n MAX size) in *.
  assert (B : forall i, i < n MAX size ->
            start_end MAX size i = (bound MAX size i, bound MAX size (i + 1))).
  { intros i I. rewrite (start_end_closed MAX size HM HS i I). unfold bound.
    destruct (N.ltb_spec i (n MAX size)); [|lia].
    destruct (N.ltb_spec i (n MAX size - 1)).
    - destruct (N.ltb_spec (i + 1) (n MAX size)); [|lia]. f_equal. lia.
    - destruct (N.ltb_spec (i + 1) (n MAX size)); [lia|]. f_equal.
      replace i with (n MAX size - 1) by lia. lia. }
  rewrite (map_ext_in _ (fun i => slice d (bound MAX size i) (bound MAX size (i + 1)))).
  2:{ intros i I. apply nseq_In in I. rewrite (B i I). reflexivity. }
  unfold nseq. fold (nseq_nat (N.to_nat (n MAX size))). rewrite concat_ranges.
  - rewrite N2Nat.id. unfold bound. destruct (N.ltb_spec (n MAX size) (n MAX size)); [lia|].
    unfold size, lenN. rewrite Nat2N.id. apply firstn_all.
  - unfold bound. destruct (N.ltb_spec 0 (n MAX size)); lia.
  - intros i I. unfold bound.
    destruct (N.ltb_spec (N.of_nat i) (n MAX size)); [|lia].
    destruct (N.ltb_spec (N.of_nat i + 1) (n MAX size)); [lia|].
    replace (N.of_nat i) with (n MAX size - 1) by lia. lia.
Qed.

Lemma raw_chunks_length MAX d : lenN (raw_chunks MAX d) = num_chunks MAX (lenN d).
Proof. unfold raw_chunks, lenN at 1. rewrite map_length. apply nseq_length. Qed.

(* ---------------------------------------------------------------- the shape of se_encrypt's output *)

Section Shape.
  Variable C : codec.
  Variable MAX : N.
  Variable d : bytes.
  Let raws := raw_chunks MAX d.
  Let hashes := map (cH C) raws.
  Definition Y (p : N * bytes) : bytes := c_tr C (keys_of (fst p) (map (cH C) (raw_chunks MAX d))) (snd p).
  Definition infoF (p : N * bytes) : info :=
    {| i_index := fst p; i_dst := cH C (Y p); i_src := nthN (map (cH C) (raw_chunks MAX d)) (fst p) 0;
       i_size := lenN (snd p) |}.

  Lemma se_encrypt_shape dm cs :
    se_encrypt C MAX d = inl (dm, cs) ->
    3 <= lenN d /\ dm = map infoF (enum_from 0 raws) /\ cs = map (fun p => (fst p, Y p)) (enum_from 0 raws).
  Proof.
    unfold se_encrypt. rewrite MIN_ENCRYPTABLE_3. destruct (N.ltb_spec (lenN d) 3); [discriminate|].
    intros X. inversion X; subst. split; [assumption|]. rewrite !map_map. split; apply map_ext; intros [i x]; reflexivity.
  Qed.

  Lemma se_encrypt_ok : 3 <= lenN d -> exists dm cs, se_encrypt C MAX d = inl (dm, cs).
  Proof.
    intros L. unfold se_encrypt. rewrite MIN_ENCRYPTABLE_3. destruct (N.ltb_spec (lenN d) 3); [lia|]. eauto.
  Qed.
End Shape.

Lemma enum_nth_all {A} (hs pre : list N) (l : list A) :
  length hs = length l ->
  map (fun p => nthN (pre ++ hs) (fst p) 0) (enum_from (lenN pre) l) = hs.
Proof.
  revert hs pre. induction l as [|x t IH]; intros hs pre E; destruct hs as [|h hs']; try discriminate; [reflexivity|].
  cbn [enum_from map fst]. f_equal.
  - unfold nthN, lenN. rewrite Nat2N.id, app_nth2, Nat.sub_diag by lia. reflexivity.
  - replace (pre ++ h :: hs') with ((pre ++ [h]) ++ hs') by (rewrite <- app_assoc; reflexivity).
    replace (lenN pre + 1) with (lenN (pre ++ [h])) by (unfold lenN; rewrite app_length; cbn; lia).
    apply IH. cbn in E. lia.
Qed.

Lemma map_pair_enum (f : N * bytes -> bytes) k l :
  map (fun p => (fst p, f p)) (enum_from k l) = enum_from k (map f (enum_from k l)).
Proof. revert k. induction l as [|x t IH]; intros k; cbn; [reflexivity|]. f_equal. apply IH. Qed.

Lemma nth_seq_map {A} (l : list A) (dflt : A) : map (fun j => nth j l dflt) (seq 0 (length l)) = l.
Proof.
  induction l as [|x t IH]; [reflexivity|]. cbn [length seq map nth]. f_equal.
  rewrite <- seq_shift, map_map. exact IH.
Qed.

Lemma nth_map_lt {A B} (f : A -> B) (l : list A) (j : nat) (d' : B) (d : A) :
  (j < length l)%nat -> nth j (map f l) d' = f (nth j l d).
Proof.
  intros L. rewrite (nth_indep (map f l) d' (f d)) by (rewrite map_length; exact L). apply map_nth.
Qed.

Lemma flat_map_singletons {A B} (f : B -> list A) (g : A -> B) (l : list A) :
  (forall p, In p l -> f (g p) = [p]) -> flat_map f (map g l) = l.
Proof.
  induction l as [|p t IH]; intros Hf; cbn [map flat_map]; [reflexivity|].
  rewrite (Hf p) by (left; reflexivity). cbn [app]. f_equal. apply IH. intros; apply Hf; right; assumption.
Qed.

(* ---------------------------------------------------------------- one level reads back *)

Lemma fetch_honest C MAX d dm cs st order :
  codec_ok C -> 1 <= MAX -> se_encrypt C MAX d = inl (dm, cs) ->
  good_store C st -> (forall e, In e cs -> In (mk_chunk C (snd e)) st) ->
  Permutation order (seq 0 (length dm)) ->
  fetch_from_data_map C (store_net C st) dm order = inl d.
Proof.
  intros OK HM SE GS IN P. apply se_encrypt_shape in SE. destruct SE as (L3 & Edm & Ecs).
  set (raws := raw_chunks MAX d) in *. set (E := enum_from 0 raws) in *.
  set (hashes := map (cH C) raws).
  assert (LenE : length E = length raws) by apply enum_from_length.
  assert (Ldm : length dm = length E) by (rewrite Edm; apply map_length).
  assert (Lcs : length cs = length E) by (rewrite Ecs; apply map_length).
  unfold fetch_from_data_map.
  (* every fetch returns the encrypted chunk of its position *)
  rewrite (collect_all_inl _ (fun j => nth j cs (0, []))).
  2:{ intros j J. apply (Permutation_in _ P) in J. apply in_seq in J.
      assert (Jl : (j < length E)%nat) by lia.
      rewrite Edm, (nth_map_lt (infoF C MAX d) E j dflt_info (0, [])) by exact Jl.
      set (p := nth j E (0, [])).
      assert (Ip : In p E) by (apply nth_In; exact Jl).
      cbn [infoF i_dst i_index].
      rewrite (store_lookup C st (Y C MAX d p) GS).
      2:{ apply (IN (fst p, Y C MAX d p)). rewrite Ecs. apply (in_map (fun q => (fst q, Y C MAX d q))). exact Ip. }
      rewrite chunk_get_honest.
      f_equal. symmetry. rewrite Ecs.
      apply (nth_map_lt (fun q => (fst q, Y C MAX d q)) E j (0, []) (0, []) Jl). }
  (* sorting them gives the chunks in index order *)
  unfold decrypt_full_set.
  assert (Ecs' : cs = enum_from 0 (map (Y C MAX d) E)) by (rewrite Ecs; apply map_pair_enum).
  assert (SortE : sort_idx (map (fun j => nth j cs (0, [])) order) = cs).
  { apply sort_idx_canonical.
    - apply Permutation_trans with (map (fun j => nth j cs (0, [])) (seq 0 (length cs))).
      + apply Permutation_map. rewrite Lcs, <- Ldm. exact P.
      + rewrite nth_seq_map. reflexivity.
    - rewrite Ecs'. apply enum_from_sorted.
    - rewrite Ecs'. apply enum_from_nodup. }
  rewrite SortE.
  (* the data map carries the source hashes, so every chunk decrypts to its source chunk *)
  assert (Hs : map i_src dm = hashes).
  { rewrite Edm, map_map. cbn [infoF i_src]. apply (enum_nth_all hashes [] raws).
    unfold hashes. rewrite map_length. reflexivity. }
  rewrite Hs.
  assert (FM : flat_map (fun c0 => match c_untr C (keys_of (fst c0) hashes) (snd c0) with
                                    | Some b => [(fst c0, b)] | None => [] end) cs = E).
  { rewrite Ecs. apply flat_map_singletons. intros p _. cbn [fst snd]. unfold Y.
    fold raws. fold hashes. rewrite (untr_tr C OK). destruct p; reflexivity. }
  rewrite FM. unfold lenN. rewrite Lcs. destruct (N.ltb_spec (N.of_nat (length E)) (N.of_nat (length E))); [lia|].
  rewrite (sort_idx_id E) by apply enum_from_sorted.
  unfold E. rewrite enum_from_map_snd. f_equal. apply concat_raw; assumption.
Qed.

(* ---------------------------------------------------------------- levels *)

Lemma fetch_levels_mono C nw sched f lvl d :
  fetch_levels C nw sched f lvl = inl d -> fetch_levels C nw sched (S f) lvl = inl d.
Proof.
  revert lvl. induction f as [|f IH]; intros lvl; [discriminate|].
  remember (S f) as f1. cbn [fetch_levels]. subst f1. cbn [fetch_levels].
  destruct (fetch_from_data_map C nw (dm_of lvl) (sched (dm_of lvl))) as [x|]; [|discriminate].
  destruct lvl; [tauto|]. destruct (c_deser C x) as [v|]; [|discriminate].
  destruct (c_unwrap C v) as [l'|]; [|discriminate]. apply IH.
Qed.

Lemma fetch_levels_mono_le C nw sched f f' lvl d :
  (f <= f')%nat -> fetch_levels C nw sched f lvl = inl d -> fetch_levels C nw sched f' lvl = inl d.
Proof. induction 1; [tauto|]. intros X. apply fetch_levels_mono. auto. Qed.

(* number of packing iterations, and what the packed root decodes to *)
Lemma pack_spec C MAX (OK : codec_ok C) (HM : 1 <= MAX) fuel :
  forall lvl acc root out,
  pack C MAX fuel lvl acc = inl (root, out) ->
  incl acc out /\ k_addr root = cH C (k_value root) /\ lenN (k_value root) <= MAX /\
  (forall c, In c out -> In c acc \/ k_addr c = cH C (k_value c)) /\
  exists rootlvl k, c_unwrap C (k_value root) = Some rootlvl /\ (k <= fuel)%nat /\
    forall st sched, good_store C st -> incl out st -> valid_sched sched ->
    forall f0 x, fetch_levels C (store_net C st) sched f0 lvl = inl x ->
                 fetch_levels C (store_net C st) sched (k + f0) rootlvl = inl x.
Proof.
  induction fuel as [|f IH]; intros lvl acc root out; cbn [pack].
  - destruct (N.leb_spec (lenN (c_wrap C lvl)) MAX) as [Fit|]; [|discriminate].
    intros X. inversion X; subst. split; [intros c I; apply in_rev in I; exact I|].
    split; [reflexivity|]. split; [exact Fit|]. split; [intros c I; left; apply in_rev; exact I|].
    exists lvl, 0%nat. split; [apply (unwrap_wrap C OK)|]. split; [lia|]. intros; assumption.
  - destruct (N.leb_spec (lenN (c_wrap C lvl)) MAX) as [Fit|Big].
    + intros X. inversion X; subst. split; [intros c I; apply in_rev in I; exact I|].
      split; [reflexivity|]. split; [exact Fit|]. split; [intros c I; left; apply in_rev; exact I|].
      exists lvl, 0%nat. split; [apply (unwrap_wrap C OK)|]. split; [lia|]. intros; assumption.
    + destruct (se_encrypt C MAX (c_ser C (c_wrap C lvl))) as [[dm' cs']|e] eqn:SE; [|discriminate].
      intros P. destruct (IH _ _ _ _ P) as (Inc & RA & RL & CA & rootlvl & k & U & Kf & F).
      split; [intros c I; apply Inc; apply in_or_app; right; exact I|].
      split; [exact RA|]. split; [exact RL|].
      split.
      { intros c I. destruct (CA c I) as [I'|A]; [|right; exact A].
        apply in_app_or in I'. destruct I' as [I'|I']; [|left; exact I'].
        apply in_map_iff in I'. destruct I' as (e & <- & _). right. reflexivity. }
      exists rootlvl, (S k). split; [exact U|]. split; [lia|].
      intros st sched GS IS VS f0 x Fx.
      replace (S k + f0)%nat with (k + S f0)%nat by lia. apply (F st sched GS IS VS).
      cbn [fetch_levels dm_of].
      rewrite (fetch_honest C MAX (c_ser C (c_wrap C lvl)) dm' cs' st (sched dm') OK HM SE GS).
      * rewrite (deser_ser C OK), (unwrap_wrap C OK). exact Fx.
      * intros e Ie. apply IS, Inc. apply in_or_app. left.
        apply (in_map (fun c0 => mk_chunk C (snd c0))). exact Ie.
      * apply VS.
Qed.

(* ---------------------------------------------------------------- the theorems *)

Definition all_chunks (r : chunk * list chunk) : list chunk := fst r :: snd r.

Lemma content_addressed_lemma C MAX fuel d r :
  encrypt C MAX fuel d = inl r -> forall c, In c (all_chunks r) -> k_addr c = cH C (k_value c).
Proof.
  unfold encrypt. destruct (se_encrypt C MAX d) as [[dm cs]|]; [|discriminate].
  destruct (pack C MAX fuel (First dm) []) as [[root extra]|] eqn:P; [|discriminate].
  intros X. inversion X; subst. clear X. unfold all_chunks. cbn [fst snd].
  assert (forall fu lvl acc rt out, pack C MAX fu lvl acc = inl (rt, out) ->
            (forall c, In c acc -> k_addr c = cH C (k_value c)) ->
            k_addr rt = cH C (k_value rt) /\ forall c, In c out -> k_addr c = cH C (k_value c)) as PA.
  { induction fu as [|fu IHf]; intros lvl acc rt out; cbn [pack].
    - destruct (lenN (c_wrap C lvl) <=? MAX); [|discriminate]. intros X A. inversion X; subst.
      split; [reflexivity|]. intros c I. apply A. apply in_rev. exact I.
    - destruct (lenN (c_wrap C lvl) <=? MAX).
      + intros X A. inversion X; subst. split; [reflexivity|]. intros c I. apply A. apply in_rev. exact I.
      + destruct (se_encrypt C MAX (c_ser C (c_wrap C lvl))) as [[dm' cs']|]; [|discriminate].
        intros Pk A. apply (IHf _ _ _ _ Pk). intros c I. apply in_app_or in I. destruct I as [I|I]; [|auto].
        apply in_map_iff in I. destruct I as (e & <- & _). reflexivity. }
  destruct (PA _ _ _ _ _ P (fun c (I : In c []) => match I with end)) as [RA OA].
  intros c [<-|I]; [exact RA|]. apply in_app_or in I. destruct I as [I|I]; [|auto].
  apply in_map_iff in I. destruct I as (e & <- & _). reflexivity.
Qed.

Lemma root_fits_lemma C MAX fuel d r :
  encrypt C MAX fuel d = inl r -> lenN (k_value (fst r)) <= MAX.
Proof.
  unfold encrypt. destruct (se_encrypt C MAX d) as [[dm cs]|]; [|discriminate].
  destruct (pack C MAX fuel (First dm) []) as [[root extra]|] eqn:P; [|discriminate].
  intros X. inversion X; subst. cbn [fst]. clear X. revert P. generalize (First dm). generalize (@nil chunk).
  induction fuel as [|f IH]; intros acc lvl; cbn [pack].
  - destruct (N.leb_spec (lenN (c_wrap C lvl)) MAX); [|discriminate]. intros X. inversion X; subst. assumption.
  - destruct (N.leb_spec (lenN (c_wrap C lvl)) MAX).
    + intros X. inversion X; subst. assumption.
    + destruct (se_encrypt C MAX (c_ser C (c_wrap C lvl))) as [[dm' cs']|]; [|discriminate]. apply IH.
Qed.

(* roundtrip: private read from the data map chunk and public read from its address, through any
   number of levels, any completion schedules, and any fuel that covers the levels *)
Lemma roundtrip_lemma C MAX fuel d root chunks :
  codec_ok C -> 1 <= MAX ->
  encrypt C MAX fuel d = inl (root, chunks) ->
  (forall c1 c2, In c1 (root :: chunks) -> In c2 (root :: chunks) ->
     k_addr c1 = k_addr c2 -> k_value c1 = k_value c2) ->
  exists levels, (1 <= levels <= S fuel)%nat /\
  forall sched fuel', valid_sched sched -> (levels <= fuel')%nat ->
    data_get C (store_net C (root :: chunks)) sched fuel' root = inl d /\
    data_get_public C (store_net C (root :: chunks)) sched fuel' (k_addr root) = inl d.
Proof.
  intros OK HM EN NC.
  pose proof (content_addressed_lemma C MAX fuel d (root, chunks) EN) as CA. unfold all_chunks in CA. cbn [fst snd] in CA.
  assert (GS : good_store C (root :: chunks)) by (split; assumption).
  unfold encrypt in EN. destruct (se_encrypt C MAX d) as [[dm cs]|] eqn:SE; [|discriminate].
  destruct (pack C MAX fuel (First dm) []) as [[root' extra]|] eqn:P; [|discriminate].
  inversion EN; subst root' chunks. clear EN.
  destruct (pack_spec C MAX OK HM fuel _ _ _ _ P) as (_ & RA & _ & _ & rootlvl & k & U & Kf & F).
  exists (S k). split; [lia|]. intros sched fuel' VS Lf.
  assert (DG : data_get C (store_net C (root :: map (fun c0 => mk_chunk C (snd c0)) cs ++ extra)) sched fuel' root = inl d).
  { unfold data_get, fetch_from_data_map_chunk. rewrite U.
    apply (fetch_levels_mono_le _ _ _ (k + 1)%nat); [lia|].
    apply (F _ sched GS); [intros c I; right; apply in_or_app; right; exact I|exact VS|].
    cbn [fetch_levels dm_of].
    rewrite (fetch_honest C MAX d dm cs _ (sched dm) OK HM SE GS); [reflexivity| |apply VS].
    intros e Ie. right. apply in_or_app. left. apply (in_map (fun c0 => mk_chunk C (snd c0))). exact Ie. }
  split; [exact DG|].
  unfold data_get_public. rewrite RA. rewrite (store_lookup C _ (k_value root) GS).
  - rewrite chunk_get_honest. exact DG.
  - left. destruct root as [a v]. cbn in *. unfold mk_chunk. cbn. congruence.
Qed.

Lemma too_small_lemma C MAX fuel d : lenN d < 3 -> encrypt C MAX fuel d = inr ETooSmall.
Proof.
  intros L. unfold encrypt, se_encrypt. rewrite MIN_ENCRYPTABLE_3.
  destruct (N.ltb_spec (lenN d) 3); [reflexivity|lia].
Qed.

(* the result does not depend on how much fuel the model's loop was given *)
Lemma pack_fuel_irrelevant C MAX f1 f2 lvl acc r1 r2 :
  pack C MAX f1 lvl acc = inl r1 -> pack C MAX f2 lvl acc = inl r2 -> r1 = r2.
Proof.
  revert f2 lvl acc. induction f1 as [|f1 IH]; intros f2 lvl acc; destruct f2 as [|f2]; cbn [pack];
    destruct (lenN (c_wrap C lvl) <=? MAX); try congruence; try discriminate.
  destruct (se_encrypt C MAX (c_ser C (c_wrap C lvl))) as [[dm' cs']|]; [|discriminate]. apply IH.
Qed.

Lemma deterministic_lemma C MAX f1 f2 d r1 r2 :
  encrypt C MAX f1 d = inl r1 -> encrypt C MAX f2 d = inl r2 -> r1 = r2.
Proof.
  unfold encrypt. destruct (se_encrypt C MAX d) as [[dm cs]|]; [|discriminate].
  destruct (pack C MAX f1 (First dm) []) as [[rt1 e1]|] eqn:P1; [|discriminate].
  destruct (pack C MAX f2 (First dm) []) as [[rt2 e2]|] eqn:P2; [|discriminate].
  pose proof (pack_fuel_irrelevant _ _ _ _ _ _ _ _ P1 P2) as E. inversion E; subst. congruence.
Qed.
