(* C14, part 2: list facts used by the round-trip proof -- slices concatenate back, the stable sort
   by index is a permutation, is the identity on sorted input, and sorted lists with distinct
   indices are unique up to permutation. *)
From Coq Require Import List NArith ZArith Bool Lia ZifyBool ZifyNat ZifyN Sorted Permutation.
From V Require Import lib.Strs gen.Consts model.ClientRead model.SelfEnc proofs.SelfEncPartition.
Import ListNotations.
Open Scope N_scope.

(* ---------------------------------------------------------------- slices *)

Lemma firstn_add {A} (n m : nat) (l : list A) :
  firstn (n + m) l = firstn n l ++ firstn m (skipn n l).
Proof.
  revert l. induction n as [|n IH]; intros l; [reflexivity|].
  destruct l as [|x t]; cbn [Nat.add firstn skipn app].
  - rewrite firstn_nil. reflexivity.
  - f_equal. apply IH.
Qed.

Lemma firstn_slice (d : bytes) a b : a <= b ->
  firstn (N.to_nat a) d ++ slice d a b = firstn (N.to_nat b) d.
Proof.
  intros L. unfold slice. rewrite <- firstn_add. f_equal. lia.
Qed.

Lemma slice_length (d : bytes) a b : a <= b -> b <= lenN d -> lenN (slice d a b) = b - a.
Proof.
  intros L1 L2. unfold slice, lenN in *. rewrite firstn_length, skipn_length. lia.
Qed.

Definition nseq_nat (k : nat) : list N := map N.of_nat (seq 0 k).

Lemma nseq_nat_S k : nseq_nat (S k) = nseq_nat k ++ [N.of_nat k].
Proof. unfold nseq_nat. rewrite seq_S, map_app. reflexivity. Qed.

Lemma nseq_In n i : In i (nseq n) <-> i < n.
Proof.
  unfold nseq. rewrite in_map_iff. split.
  - intros (k & E & I). apply in_seq in I. lia.
  - intros L. exists (N.to_nat i). split; [lia|]. apply in_seq. lia.
Qed.

Lemma nseq_length n : lenN (nseq n) = n.
Proof. unfold nseq, lenN. rewrite map_length, seq_length. lia. Qed.

(* consecutive ranges st 0 = 0, [st i, st (i+1)) concatenate to a prefix *)
Lemma concat_ranges (d : bytes) (st : N -> N) k :
  st 0 = 0 -> (forall i, (i < k)%nat -> st (N.of_nat i) <= st (N.of_nat i + 1)) ->
  concat (map (fun i => slice d (st i) (st (i + 1))) (nseq_nat k)) = firstn (N.to_nat (st (N.of_nat k))) d.
Proof.
  intros Z M. induction k as [|k IH].
  - cbn. rewrite Z. reflexivity.
  - rewrite nseq_nat_S, map_app, concat_app. cbn [map concat]. rewrite app_nil_r.
    rewrite IH by (intros i I; apply M; lia).
    rewrite firstn_slice by (apply M; lia).
    replace (N.of_nat (S k)) with (N.of_nat k + 1) by lia. reflexivity.
Qed.

(* ---------------------------------------------------------------- enumerate *)

Lemma enum_from_map_snd {A} (k : N) (l : list A) : map snd (enum_from k l) = l.
Proof. revert k. induction l as [|x t IH]; intros k; cbn; [reflexivity|]. f_equal. apply IH. Qed.

Lemma enum_from_length {A} (k : N) (l : list A) : length (enum_from k l) = length l.
Proof. revert k. induction l as [|x t IH]; intros k; cbn; [reflexivity|]. f_equal. apply IH. Qed.

Lemma enum_from_map_fst {A} (k : N) (l : list A) :
  map fst (enum_from k l) = map (fun i => k + N.of_nat i) (seq 0 (length l)).
Proof.
  revert k. induction l as [|x t IH]; intros k; cbn [enum_from map length seq fst]; [reflexivity|].
  f_equal; [lia|]. rewrite IH, <- seq_shift, map_map. apply map_ext. intros i. lia.
Qed.

Lemma enum_from_nth {A} (k : N) (l : list A) (j : nat) (d : N * A) :
  (j < length l)%nat -> nth j (enum_from k l) d = (k + N.of_nat j, nth j l (snd d)).
Proof.
  revert k j. induction l as [|x t IH]; intros k j L; cbn in L; [lia|].
  destruct j as [|j]; cbn [enum_from nth].
  - f_equal. lia.
  - rewrite IH by lia. f_equal. lia.
Qed.

Lemma enum_from_map {A B} (f : A -> B) (k : N) (l : list A) :
  enum_from k (map f l) = map (fun p => (fst p, f (snd p))) (enum_from k l).
Proof. revert k. induction l as [|x t IH]; intros k; cbn; [reflexivity|]. f_equal. apply IH. Qed.

(* ---------------------------------------------------------------- the stable sort by index *)

Definition ile (a b : echunk) : Prop := fst a <= fst b.

Lemma insert_idx_perm p l : Permutation (insert_idx p l) (p :: l).
Proof.
  induction l as [|q t IH]; cbn [insert_idx]; [reflexivity|].
  destruct (fst p <=? fst q); [reflexivity|].
  rewrite IH. apply perm_swap.
Qed.

Lemma sort_idx_perm l : Permutation (sort_idx l) l.
Proof.
  unfold sort_idx. induction l as [|q t IH]; cbn [fold_right]; [reflexivity|].
  rewrite insert_idx_perm. constructor. exact IH.
Qed.

Lemma insert_idx_sorted p l : StronglySorted ile l -> StronglySorted ile (insert_idx p l).
Proof.
  induction 1 as [|q t S IH F]; cbn [insert_idx].
  - repeat constructor.
  - destruct (fst p <=? fst q) eqn:E.
    + apply N.leb_le in E. constructor; [constructor; assumption|].
      constructor; [exact E|]. eapply Forall_impl; [|exact F]. unfold ile. intros; lia.
    + apply N.leb_gt in E. constructor; [exact IH|].
      apply Forall_forall. intros x I.
      apply (Permutation_in _ (insert_idx_perm p t)) in I. destruct I as [<-|I].
      * unfold ile. lia.
      * rewrite Forall_forall in F. auto.
Qed.

Lemma sort_idx_sorted l : StronglySorted ile (sort_idx l).
Proof.
  unfold sort_idx. induction l as [|q t IH]; cbn [fold_right]; [constructor|].
  apply insert_idx_sorted. exact IH.
Qed.

Lemma sort_idx_id l : StronglySorted ile l -> sort_idx l = l.
Proof.
  induction 1 as [|q t S IH F]; [reflexivity|].
  unfold sort_idx in *. cbn [fold_right]. rewrite IH.
  destruct t as [|q' t']; [reflexivity|]. cbn [insert_idx].
  inversion F as [|? ? L _]; subst. unfold ile in L. apply N.leb_le in L. rewrite L. reflexivity.
Qed.

(* two sorted lists with pairwise distinct indices that are permutations of each other are equal *)
Lemma sorted_perm_unique (l1 l2 : list echunk) :
  StronglySorted ile l1 -> StronglySorted ile l2 -> NoDup (map fst l1) -> Permutation l1 l2 -> l1 = l2.
Proof.
  revert l2. induction l1 as [|a t1 IH]; intros l2 S1 S2 ND P.
  - apply Permutation_nil in P. congruence.
  - destruct l2 as [|b t2]; [apply Permutation_sym, Permutation_nil in P; discriminate|].
    inversion S1 as [|? ? S1' F1]; subst. inversion S2 as [|? ? S2' F2]; subst.
    inversion ND as [|? ? NI ND']; subst.
    assert (E : a = b).
    { assert (Ia : In a (b :: t2)) by (apply (Permutation_in _ P); left; reflexivity).
      assert (Ib : In b (a :: t1)) by (apply (Permutation_in _ (Permutation_sym P)); left; reflexivity).
      destruct Ia as [->|Ia]; [reflexivity|]. destruct Ib as [->|Ib]; [reflexivity|].
      rewrite Forall_forall in F1, F2. pose proof (F1 b Ib) as L1. pose proof (F2 a Ia) as L2.
      unfold ile in *. exfalso. apply NI. replace (fst a) with (fst b) by lia.
      apply in_map. exact Ib. }
    subst b. f_equal. apply IH; auto. eapply Permutation_cons_inv. exact P.
Qed.

Lemma sort_idx_canonical (l c : list echunk) :
  Permutation l c -> StronglySorted ile c -> NoDup (map fst c) -> sort_idx l = c.
Proof.
  intros P S ND. symmetry. apply sorted_perm_unique; auto.
  - apply sort_idx_sorted.
  - rewrite sort_idx_perm. symmetry. exact P.
Qed.

Lemma sort_idx_perm_eq (l1 l2 : list echunk) :
  Permutation l1 l2 -> NoDup (map fst l1) -> sort_idx l1 = sort_idx l2.
Proof.
  intros P ND. apply sorted_perm_unique.
  - apply sort_idx_sorted.
  - apply sort_idx_sorted.
  - eapply Permutation_NoDup; [|exact ND]. apply Permutation_map. symmetry. apply sort_idx_perm.
  - rewrite !sort_idx_perm. exact P.
Qed.

(* an enumeration is sorted with distinct indices *)
Lemma enum_from_sorted (k : N) (l : list bytes) : StronglySorted ile (enum_from k l).
Proof.
  revert k. induction l as [|x t IH]; intros k; cbn [enum_from]; constructor; [apply IH|].
  apply Forall_forall. intros p I. unfold ile. cbn [fst].
  assert (In (fst p) (map fst (enum_from (k + 1) t))) as I' by (apply in_map; exact I).
  rewrite enum_from_map_fst in I'. apply in_map_iff in I'. destruct I' as (j & E & _). lia.
Qed.

Lemma enum_from_nodup {A} (k : N) (l : list A) : NoDup (map fst (enum_from k l)).
Proof.
  rewrite enum_from_map_fst. apply FinFun.Injective_map_NoDup; [|apply seq_NoDup].
  intros a b E. lia.
Qed.

(* ---------------------------------------------------------------- collect *)

Lemma collect_all_inl {A E X} (g : X -> A + E) (h : X -> A) (l : list X) :
  (forall j, In j l -> g j = inl (h j)) -> collect (map g l) = inl (map h l).
Proof.
  induction l as [|j t IH]; intros Hg; cbn [map collect]; [reflexivity|].
  rewrite (Hg j) by (left; reflexivity). rewrite IH by (intros; apply Hg; right; assumption). reflexivity.
Qed.

Lemma collect_inl_spec {A E} (l : list (A + E)) r : collect l = inl r -> l = map inl r.
Proof.
  revert r. induction l as [|x t IH]; intros r; cbn [collect].
  - intros X. inversion X. reflexivity.
  - destruct x as [a|e]; [|discriminate]. destruct (collect t) as [r'|]; [|discriminate].
    intros X. inversion X; subst. cbn [map]. f_equal. apply IH. reflexivity.
Qed.

Lemma collect_inr_iff {A E} (l : list (A + E)) :
  (exists e, collect l = inr e) <-> exists e, In (inr e) l.
Proof.
  induction l as [|x t IH]; cbn [collect In].
  - split; intros (e & X); [discriminate|destruct X].
  - destruct x as [a|e].
    + destruct (collect t) as [r|e'] eqn:Ct.
      * split; [intros (e & X); discriminate|].
        intros (e & [X|X]); [discriminate|]. destruct IH as [_ IH]. destruct (IH (ex_intro _ e X)) as (e' & Y). discriminate.
      * split; [|eauto]. intros _. destruct IH as [IH _]. destruct (IH (ex_intro _ e' eq_refl)) as (e'' & Y). eauto.
    + split; eauto.
Qed.
