(* C07 -- mutable records never regress and hold only owner-signed content.
   Lemmas behind props/C07.v: exact characterisation of one delivery per record kind, the serial
   history theorems, and the refutation of the concurrent clause (F12). *)
From Coq Require Import List NArith ZArith Bool Lia.
From V Require Import lib.Strs gen.Consts model.PutValidation proofs.PutValidation proofs.PutOutcome proofs.PutC04.
Import ListNotations.
Open Scope N_scope.

(* ------------------------------------------------------------------ which deliveries the node may act on *)

(* eligible = replicated copy, unpaid update of a held key, or paid upload whose payment check passed
   (for transactions and registers an upload to a held key is taken as an update even if its
   payment fails) *)
Definition pad_eligible (e : env) (st : store) (d : delivery) (k : name) : bool :=
  let u := d_up d in
  match d_path d, u_hdr u, u_proof u with
  | PRepl, Some KPad, None => true
  | PClient, Some KPad, None => listed st k
  | PClient, Some KPadPaid, Some pr => payment_ok e k pr (u_chain u)
  | _, _, _ => false
  end.

Definition pad_accepted (e : env) (st : store) (d : delivery) (p : pad) : bool :=
  pad_eligible e st d (u_key (d_up d)) && pad_accepts st p (u_key (d_up d)).

Lemma pad_delivery_exact e st d p :
  u_body (d_up d) = BPad p ->
  store_of (run st (deliver e d)) =
  if pad_accepted e st d p then put st (u_key (d_up d)) (SPad p) else st.
Proof.
  destruct d as [pth u]. cbn [d_up]. intros Hb. unfold pad_accepted, pad_eligible, deliver. cbn [d_path d_up].
  destruct pth.
  - unfold client_put, de_paid, de_plain. rewrite Hb.
    destruct (u_hdr u) as [[]|]; cbn [andb]; try reflexivity;
      destruct (u_proof u) as [pr|]; cbn [as_chunk as_pad as_tx as_reg liftE andb]; try reflexivity.
    + (* Scratchpad, unpaid *)
      unfold bindE. rewrite run_bind, run_validate_key.
      destruct (name_eqb (u_key u) (owner_key (p_owner p))) eqn:Ek.
      * apply name_eqb_eq in Ek. rewrite <- Ek.
        destruct (listed st (u_key u)); cbn [negb andb]; [|reflexivity].
        destruct (run_store_pad st p (u_key u) false) as [[Hacc Hrun]|[Hacc [x Hrun]]]; rewrite Hrun, Hacc; reflexivity.
      * cbn [store_of fst snd]. unfold pad_accepts. rewrite name_eqb_sym, Ek. cbn [andb].
        rewrite andb_false_r. reflexivity.
    + (* ScratchpadWithPayment *)
      unfold bindE. rewrite run_bind, run_validate_key.
      destruct (name_eqb (u_key u) (owner_key (p_owner p))) eqn:Ek.
      * apply name_eqb_eq in Ek. rewrite <- Ek.
        rewrite run_bind. pay_step e (u_key u) pr (u_chain u) st.
        destruct r as [[]|x].
        -- rewrite H0. cbn [andb]. rewrite run_bind.
           destruct (run_store_pad st p (u_key u) true) as [[Hacc Hrun]|[Hacc [x Hrun]]]; rewrite Hrun, Hacc.
           ++ reflexivity.
           ++ destruct x; reflexivity.
        -- destruct H0 as [-> _]. reflexivity.
      * cbn [store_of fst snd]. unfold pad_accepts. rewrite name_eqb_sym, Ek. cbn [andb].
        rewrite andb_false_r. reflexivity.
  - unfold repl_put, de_plain. rewrite Hb.
    destruct (u_hdr u) as [[]|]; cbn [andb]; try reflexivity;
      destruct (u_proof u) as [pr|]; cbn [as_chunk as_pad as_txs as_reg liftE andb]; try reflexivity.
    destruct (run_store_pad st p (u_key u) false) as [[Hacc Hrun]|[Hacc [x Hrun]]]; rewrite Hrun, Hacc; reflexivity.
Qed.

(* ------------------------------------------------------------------ store facts *)

Definition all_listed (st : store) : Prop := forall k s, lookup st k = Some s -> s_listed s = true.

Lemma get_ack st k : get (ack st) k = get st k.
Proof. unfold get. rewrite lookup_ack. destruct (lookup st k); reflexivity. Qed.

Lemma get_put st k v k' : get (put st k v) k' = if name_eqb k' k then Some v else get st k'.
Proof. unfold get. rewrite lookup_put. destruct (name_eqb k' k); reflexivity. Qed.

Lemma all_listed_ack st : all_listed (ack st).
Proof.
  intros k s. rewrite lookup_ack. destruct (lookup st k); [intros [= <-]; reflexivity | discriminate].
Qed.

Lemma unlisted_absent st k : all_listed st -> listed st k = false -> get st k = None.
Proof.
  unfold listed, get. intros Hl. destruct (lookup st k) as [s|] eqn:E; [|reflexivity].
  rewrite (Hl _ _ E). discriminate.
Qed.

Lemma present_listed st k v : all_listed st -> get st k = Some v -> listed st k = true.
Proof.
  unfold listed, get. intros Hl. destruct (lookup st k) as [s|] eqn:E; [|discriminate].
  intros _. apply (Hl _ _ E).
Qed.

(* ------------------------------------------------------------------ scratchpads *)

Definition pad_at (st : store) (k : name) : option pad :=
  match get st k with Some (SPad p) => Some p | _ => None end.

(* the scratchpad a delivery offers for key [k]: validly signed by the owner whose name is [k],
   presented under [k], through an eligible delivery *)
Definition pad_offer (e : env) (st : store) (d : delivery) (k : name) : option pad :=
  match u_body (d_up d) with
  | BPad p =>
      if name_eqb (u_key (d_up d)) k && name_eqb (owner_key (p_owner p)) k && pad_valid p &&
         pad_eligible e st d k
      then Some p else None
  | _ => None
  end.

(* strictly higher counter wins, otherwise the stored one stays *)
Definition pad_best (old new : option pad) : option pad :=
  match old, new with
  | Some o, Some n => if p_ctr o <? p_ctr n then Some n else Some o
  | None, Some n => Some n
  | o, None => o
  end.

Lemma other_body_keeps_pad e st d k :
  all_listed st ->
  (forall p, u_body (d_up d) <> BPad p) ->
  pad_at (store_of (run st (deliver e d))) k = pad_at st k.
Proof.
  intros Hl Hb. pose proof (deliver_outcome e st d) as Ho. unfold outcome in Ho.
  destruct (run st (deliver e d)) as [[r st'] es]. cbn [store_of fst snd].
  destruct Ho as [[_ ->]|(k0 & v0 & _ & -> & _ & _ & Hc & _)]; [reflexivity|].
  unfold pad_at. rewrite get_put. destruct (name_eqb k k0) eqn:Ek; [|reflexivity].
  apply name_eqb_eq in Ek. subst k0.
  destruct (u_body (d_up d)) as [|c|p|t|l|rg] eqn:Eb; destruct v0 as [c'|p'|l'|r'|n]; cbn in Hc; try contradiction.
  - destruct Hc as (_ & _ & Hnl). rewrite (unlisted_absent _ _ Hl Hnl). reflexivity.
  - exfalso. apply (Hb p). reflexivity.
  - unfold txs_write in Hc. destruct (txs_validated [t] k) as [|t0 vs] eqn:Ev; [discriminate|].
    assert (Ht0 : owner_key (t_owner t0) = k) by (apply (txs_validated_for_key [t] k); rewrite Ev; left; reflexivity).
    rewrite Ht0 in Hc. destruct (get st k) as [[]|]; try discriminate; reflexivity.
  - unfold txs_write in Hc. destruct (txs_validated l k) as [|t0 vs] eqn:Ev; [discriminate|].
    assert (Ht0 : owner_key (t_owner t0) = k) by (apply (txs_validated_for_key l k); rewrite Ev; left; reflexivity).
    rewrite Ht0 in Hc. destruct (get st k) as [[]|]; try discriminate; reflexivity.
  - destruct Hc as [Hw ->]. unfold reg_write in Hw.
    destruct (negb (reg_verify rg)); [discriminate|].
    destruct (listed st (reg_k rg)) eqn:Els; cbn [negb] in Hw.
    + destruct (get st (reg_k rg)) as [[]|]; try discriminate; reflexivity.
    + rewrite (unlisted_absent _ _ Hl Els). reflexivity.
Qed.

Lemma scratchpad_step_lemma : forall e st d k,
  all_listed st ->
  (get st k = None \/ exists p, get st k = Some (SPad p)) ->
  pad_at (serial_step e st d) k = pad_best (pad_at st k) (pad_offer e st d k).
Proof.
  intros e st d k Hl Hslot. unfold serial_step, pad_at at 1. rewrite get_ack. fold (pad_at (store_of (run st (deliver e d))) k).
  destruct (u_body (d_up d)) as [|c|p|t|l|rg] eqn:Eb;
    try (rewrite other_body_keeps_pad by (try assumption; intros p0; rewrite Eb; discriminate);
         unfold pad_offer; rewrite Eb; destruct (pad_at st k); reflexivity).
  rewrite (pad_delivery_exact e st d p Eb). unfold pad_offer. rewrite Eb. unfold pad_accepted, pad_accepts.
  destruct (name_eqb (u_key (d_up d)) k) eqn:Ek.
  - apply name_eqb_eq in Ek. rewrite Ek. cbn [andb].
    destruct (name_eqb (owner_key (p_owner p)) k) eqn:Eo; cbn [andb];
      [|rewrite andb_false_r; destruct (pad_at st k); reflexivity].
    destruct (pad_valid p); cbn [andb]; [|rewrite !andb_false_r; destruct (pad_at st k); reflexivity].
    destruct (pad_eligible e st d k); cbn [andb]; [|destruct (pad_at st k); reflexivity].
    rewrite andb_true_r. unfold pad_at.
    destruct Hslot as [Hn|[o Ho]].
    + rewrite Hn. cbn [pad_newer]. rewrite get_put, name_eqb_refl. reflexivity.
    + rewrite Ho. cbn [pad_newer pad_best]. destruct (p_ctr o <? p_ctr p).
      * rewrite get_put, name_eqb_refl. reflexivity.
      * rewrite Ho. reflexivity.
  - cbn [andb].
    assert (Hsame : pad_at (if pad_eligible e st d (u_key (d_up d)) &&
                               (name_eqb (owner_key (p_owner p)) (u_key (d_up d)) &&
                                pad_newer (get st (u_key (d_up d))) p && pad_valid p)
                            then put st (u_key (d_up d)) (SPad p) else st) k = pad_at st k).
    { destruct (_ && _); [|reflexivity]. unfold pad_at. rewrite get_put.
      rewrite name_eqb_sym in Ek. rewrite Ek. reflexivity. }
    rewrite Hsame. destruct (pad_at st k); reflexivity.
Qed.

(* ------------------------------------------------------------------ scratchpads over histories *)

Definition pads_valid (st : store) : Prop :=
  forall k p, pad_at st k = Some p -> pad_valid p = true /\ k = owner_key (p_owner p).

Lemma pads_valid_step e st d : pads_valid st -> pads_valid (serial_step e st d).
Proof.
  intros Hv k p. unfold serial_step, pad_at. rewrite get_ack.
  pose proof (deliver_outcome e st d) as Ho. unfold outcome in Ho.
  destruct (run st (deliver e d)) as [[r st'] es]. cbn [store_of fst snd].
  destruct Ho as [[_ ->]|(k0 & v0 & _ & -> & _ & _ & Hc & _)]; [apply Hv|].
  rewrite get_put. destruct (name_eqb k k0) eqn:Ek; [|apply Hv].
  apply name_eqb_eq in Ek. subst k0. destruct v0 as [c'|p'|l'|r'|n]; try discriminate.
  intros [= <-]. destruct (u_body (d_up d)); cbn in Hc; try contradiction.
  destruct Hc as [-> Hacc]. unfold pad_accepts in Hacc.
  apply andb_true_iff in Hacc as [Hacc Hval]. apply andb_true_iff in Hacc as [Hk _].
  apply name_eqb_eq in Hk. split; [assumption | symmetry; assumption].
Qed.

Lemma pads_valid_run e ds : forall st, pads_valid st -> pads_valid (serial_run e st ds).
Proof.
  unfold serial_run. induction ds as [|d ds IH]; intros st H; cbn [fold_left]; [assumption|].
  apply IH. apply pads_valid_step. assumption.
Qed.

Lemma pads_valid_empty : pads_valid [].
Proof. intros k p H. discriminate. Qed.

(* a stored scratchpad always carries a valid owner signature, and sits under its owner's name *)
Lemma scratchpad_always_valid_lemma : forall e ds k p,
  pad_at (serial_run e [] ds) k = Some p -> pad_valid p = true /\ k = owner_key (p_owner p).
Proof. intros e ds. apply pads_valid_run. apply pads_valid_empty. Qed.

(* what the successive deliveries offer for key k, each judged against the store it meets *)
Fixpoint pad_offers (e : env) (st : store) (ds : list delivery) (k : name) : list (option pad) :=
  match ds with
  | [] => []
  | d :: r => pad_offer e st d k :: pad_offers e (serial_step e st d) r k
  end.

Lemma pad_best_some o n : exists p, pad_best (Some o) n = Some p /\ p_ctr o <= p_ctr p.
Proof.
  destruct n as [n|]; cbn.
  - destruct (p_ctr o <? p_ctr n) eqn:E.
    + apply N.ltb_lt in E. exists n. split; [reflexivity | lia].
    + exists o. split; [reflexivity | lia].
  - eexists. split; [reflexivity | lia].
Qed.

Lemma serial_step_listed e st d : all_listed (serial_step e st d).
Proof. unfold serial_step. apply all_listed_ack. Qed.

Lemma pad_at_get st k p : pad_at st k = Some p -> get st k = Some (SPad p).
Proof. unfold pad_at. destruct (get st k) as [[]|]; try discriminate. intros [= ->]. reflexivity. Qed.

(* the stored scratchpad is the fold of "strictly higher counter wins" over what was offered *)
Lemma scratchpad_history_lemma : forall e ds st k p,
  all_listed st -> pad_at st k = Some p ->
  pad_at (serial_run e st ds) k = fold_left pad_best (pad_offers e st ds k) (Some p).
Proof.
  intros e ds. induction ds as [|d ds IH]; intros st k p Hl Hp; cbn [serial_run fold_left pad_offers]; [assumption|].
  fold (serial_run e (serial_step e st d) ds).
  assert (Hstep := scratchpad_step_lemma e st d k Hl (or_intror (ex_intro _ p (pad_at_get _ _ _ Hp)))).
  rewrite Hp in Hstep. destruct (pad_best_some p (pad_offer e st d k)) as (p1 & Hb & _).
  rewrite Hb in Hstep. rewrite (IH _ _ p1 (serial_step_listed e st d) Hstep). rewrite Hb. reflexivity.
Qed.

Lemma fold_pad_best_ge l : forall o, exists p, fold_left pad_best l (Some o) = Some p /\ p_ctr o <= p_ctr p /\
  (forall n, In (Some n) l -> p_ctr n <= p_ctr p) /\ (p = o \/ In (Some p) l).
Proof.
  induction l as [|x l IH]; intros o; cbn [fold_left].
  - exists o. repeat split; [lia | intros n [] | left; reflexivity].
  - destruct (pad_best_some o x) as (p1 & Hb & Hle). rewrite Hb.
    destruct (IH p1) as (p & Hf & Hle1 & Hall & Hin). exists p. repeat split; [assumption | lia | |].
    + intros n [->|Hn]; [|apply Hall; assumption].
      cbn in Hb. destruct (p_ctr o <? p_ctr n) eqn:E; injection Hb as <-; [lia|]. apply N.ltb_ge in E. lia.
    + destruct Hin as [->|Hin]; [|right; right; assumption].
      destruct x as [n|]; cbn in Hb; [|injection Hb as <-; left; reflexivity].
      destruct (p_ctr o <? p_ctr n); injection Hb as <-; [right; left; reflexivity | left; reflexivity].
Qed.

(* counter never decreases; the stored version is the highest validly signed version offered *)
Lemma scratchpad_monotone_lemma : forall e ds st k p,
  all_listed st -> pad_at st k = Some p ->
  exists p', pad_at (serial_run e st ds) k = Some p' /\ p_ctr p <= p_ctr p' /\
    (forall n, In (Some n) (pad_offers e st ds k) -> p_ctr n <= p_ctr p') /\
    (p' = p \/ In (Some p') (pad_offers e st ds k)).
Proof.
  intros e ds st k p Hl Hp. rewrite (scratchpad_history_lemma e ds st k p Hl Hp). apply fold_pad_best_ge.
Qed.

(* an update is applied only if its counter is strictly higher than the stored one *)
Lemma scratchpad_strict_lemma : forall e st d k p p',
  all_listed st -> pad_at st k = Some p -> pad_at (serial_step e st d) k = Some p' ->
  p' = p \/ (p_ctr p < p_ctr p' /\ pad_offer e st d k = Some p').
Proof.
  intros e st d k p p' Hl Hp Hp'.
  rewrite (scratchpad_step_lemma e st d k Hl (or_intror (ex_intro _ p (pad_at_get _ _ _ Hp)))) in Hp'.
  rewrite Hp in Hp'. destruct (pad_offer e st d k) as [n|]; cbn in Hp'.
  - destruct (p_ctr p <? p_ctr n) eqn:E; injection Hp' as <-; [right | left; reflexivity].
    apply N.ltb_lt in E. split; [assumption | reflexivity].
  - injection Hp' as <-. left. reflexivity.
Qed.

(* ------------------------------------------------------------------ transactions *)

Definition txs_at (st : store) (k : name) : list tx :=
  match get st k with Some (STxs l) => l | _ => [] end.

Definition tx_eligible (e : env) (st : store) (d : delivery) (k : name) : bool :=
  let u := d_up d in
  match d_path d, u_hdr u, u_proof u with
  | PRepl, Some KTx, None => true
  | PClient, Some KTxPaid, Some pr => payment_ok e k pr (u_chain u) || listed st k
  | _, _, _ => false
  end.

(* the transactions a delivery carries, in the shape its entry point expects *)
Definition tx_carried (d : delivery) : option (list tx) :=
  match d_path d, u_body (d_up d) with
  | PClient, BTx t => Some [t]
  | PRepl, BTxs l => Some l
  | _, _ => None
  end.

(* what a delivery offers for key k: its validly signed transactions of the owner named k *)
Definition tx_offer (e : env) (st : store) (d : delivery) (k : name) : list tx :=
  match tx_carried d with
  | Some l => if name_eqb (u_key (d_up d)) k && tx_eligible e st d k then txs_validated l k else []
  | None => []
  end.

Lemma tx_delivery_exact e st d l :
  tx_carried d = Some l ->
  store_of (run st (deliver e d)) =
  if tx_eligible e st d (u_key (d_up d)) then
    match txs_write st l (u_key (d_up d)) with
    | Some v => put st (u_key (d_up d)) v
    | None => st
    end
  else st.
Proof.
  destruct d as [pth u]. unfold tx_carried, tx_eligible, deliver. cbn [d_path d_up].
  destruct pth; destruct (u_body u) as [|c|p|t|l0|rg] eqn:Eb; try discriminate; intros [= <-].
  - unfold client_put, de_paid, de_plain. rewrite Eb.
    destruct (u_hdr u) as [[]|]; try reflexivity;
      destruct (u_proof u) as [pr|]; cbn [as_chunk as_pad as_tx as_reg liftE]; try reflexivity.
    destruct (name_eqb (u_key u) (owner_key (t_owner t))) eqn:Ek; cbn [negb].
    + apply name_eqb_eq in Ek. rewrite <- Ek.
      unfold bindE. rewrite run_bind, run_validate_key, name_eqb_refl.
      rewrite run_bind. pay_step e (u_key u) pr (u_chain u) st.
      pose proof (run_store_txs st [t] (u_key u)) as Htx.
      destruct r as [[]|x].
      * rewrite H0. cbn [orb liftE]. rewrite run_bind.
        destruct (txs_write st [t] (u_key u)) as [v|]; [rewrite Htx; reflexivity|].
        destruct Htx as [r' ->]. destruct r' as [[]|]; reflexivity.
      * destruct H0 as [-> _]. cbn [orb]. destruct (listed st (u_key u)); cbn [liftE]; [|reflexivity].
        rewrite run_bind.
        destruct (txs_write st [t] (u_key u)) as [v|]; [rewrite Htx; reflexivity|].
        destruct Htx as [r' ->]. destruct r' as [[]|]; reflexivity.
    + cbn [store_of fst snd].
      assert (Hw : txs_write st [t] (u_key u) = None).
      { unfold txs_write, txs_validated, txs_for_key. cbn [filter]. rewrite name_eqb_sym, Ek. reflexivity. }
      rewrite Hw. destruct (_ || _); reflexivity.
  - unfold repl_put, de_plain. rewrite Eb.
    destruct (u_hdr u) as [[]|]; try reflexivity;
      destruct (u_proof u) as [pr|]; cbn [as_chunk as_pad as_txs as_reg liftE]; try reflexivity.
    pose proof (run_store_txs st l0 (u_key u)) as Htx.
    destruct (txs_write st l0 (u_key u)) as [v|]; [rewrite Htx; reflexivity|].
    destruct Htx as [r' ->]. reflexivity.
Qed.

(* transactions in the wrong shape for the entry point do not decode: nothing is written *)
Lemma tx_wrong_shape_no_write e st d :
  tx_carried d = None ->
  (exists t, u_body (d_up d) = BTx t) \/ (exists l, u_body (d_up d) = BTxs l) ->
  store_of (run st (deliver e d)) = st.
Proof.
  destruct d as [pth u]. unfold tx_carried, deliver. cbn [d_path d_up].
  intros Hc [[t Hb]|[l Hb]]; rewrite Hb in Hc; destruct pth; try discriminate.
  - unfold repl_put, de_plain. rewrite Hb.
    destruct (u_hdr u) as [[]|]; try reflexivity; destruct (u_proof u); reflexivity.
  - unfold client_put, de_paid, de_plain. rewrite Hb.
    destruct (u_hdr u) as [[]|]; try reflexivity; destruct (u_proof u); reflexivity.
Qed.

Lemma list_eqb_eq {A} (eqb : A -> A -> bool) (Heq : forall a b, eqb a b = true <-> a = b) :
  forall l l', list_eqb eqb l l' = true <-> l = l'.
Proof.
  induction l as [|x l IH]; intros [|y l']; cbn [list_eqb]; try (split; [discriminate | intros H; discriminate H]).
  - split; reflexivity.
  - rewrite andb_true_iff, Heq, IH. split; [intros [-> ->]; reflexivity | intros [= -> ->]; split; reflexivity].
Qed.

Lemma tok_eqb_eq a b : tok_eqb a b = true <-> a = b.
Proof.
  destruct a, b; cbn; try (split; [discriminate | intros H; discriminate H]);
    rewrite N.eqb_eq; (split; [intros ->; reflexivity | intros [= ->]; reflexivity]).
Qed.

Lemma pair_eqb_eq a b : pair_eqb a b = true <-> a = b.
Proof.
  destruct a as [x y], b as [x' y']. unfold pair_eqb. cbn [fst snd].
  rewrite andb_true_iff, !N.eqb_eq. split; [intros [-> ->]; reflexivity | intros [= -> ->]; split; reflexivity].
Qed.

Lemma tx_sig_eqb_eq a b : tx_sig_eqb a b = true <-> a = b.
Proof.
  destruct a as [|s m], b as [|s' m']; cbn; try (split; [discriminate | intros H; discriminate H]).
  - split; reflexivity.
  - rewrite andb_true_iff, N.eqb_eq, (list_eqb_eq tok_eqb tok_eqb_eq).
    split; [intros [-> ->]; reflexivity | intros [= -> ->]; split; reflexivity].
Qed.

Lemma tx_eqb_eq a b : tx_eqb a b = true <-> a = b.
Proof.
  destruct a as [o ps c outs s], b as [o' ps' c' outs' s']. unfold tx_eqb.
  cbn [t_owner t_parents t_content t_outputs t_sig].
  rewrite !andb_true_iff, !N.eqb_eq, (list_eqb_eq N.eqb N.eqb_eq), (list_eqb_eq pair_eqb pair_eqb_eq), tx_sig_eqb_eq.
  split; [intros [[[[-> ->] ->] ->] ->]; reflexivity | intros [= -> -> -> -> ->]; repeat split].
Qed.

Lemma mem_in {A} (eqb : A -> A -> bool) (Heq : forall a b, eqb a b = true <-> a = b) x l :
  mem eqb x l = true <-> In x l.
Proof.
  unfold mem. rewrite existsb_exists. split.
  - intros (y & Hy & E). apply Heq in E. subst. assumption.
  - intros H. exists x. split; [assumption | apply Heq; reflexivity].
Qed.

Lemma in_set_add_l {A} (eqb : A -> A -> bool) x y l : In y l -> In y (set_add eqb x l).
Proof. unfold set_add. destruct (mem eqb x l); [auto | intros H; apply in_or_app; left; assumption]. Qed.

Lemma in_set_add_x {A} (eqb : A -> A -> bool) (Heq : forall a b, eqb a b = true <-> a = b) x l :
  In x (set_add eqb x l).
Proof.
  unfold set_add. destruct (mem eqb x l) eqn:E; [apply (mem_in eqb Heq); assumption|].
  apply in_or_app. right. left. reflexivity.
Qed.

Lemma in_set_union_iff {A} (eqb : A -> A -> bool) (Heq : forall a b, eqb a b = true <-> a = b) b :
  forall a y, In y (set_union eqb a b) <-> In y a \/ In y b.
Proof.
  intros a y. split; [apply in_set_union|].
  revert a. unfold set_union. induction b as [|x b IH]; intros a [H|H]; cbn [fold_left]; try contradiction.
  - assumption.
  - apply IH. left. apply in_set_add_l. assumption.
  - destruct H as [->|H]; apply IH; [left; apply in_set_add_x; assumption | right; assumption].
Qed.

(* one delivery: the stored set becomes exactly the union of what was stored and what it offers *)
Lemma tx_step_union_lemma : forall e st d k t,
  all_listed st ->
  (get st k = None \/ exists l, get st k = Some (STxs l)) ->
  (In t (txs_at (serial_step e st d) k) <-> In t (txs_at st k) \/ In t (tx_offer e st d k)).
Proof.
  intros e st d k t Hl Hslot. unfold serial_step, txs_at at 1. rewrite get_ack.
  fold (txs_at (store_of (run st (deliver e d))) k). unfold tx_offer.
  destruct (tx_carried d) as [l|] eqn:Ec.
  - rewrite (tx_delivery_exact e st d l Ec).
    destruct (name_eqb (u_key (d_up d)) k) eqn:Ek; cbn [andb].
    + apply name_eqb_eq in Ek. rewrite Ek.
      destruct (tx_eligible e st d k); [|cbn [In]; tauto].
      unfold txs_write. destruct (txs_validated l k) as [|t0 vs] eqn:Ev; [cbn; tauto|].
      assert (Ht0 : owner_key (t_owner t0) = k) by (apply (txs_validated_for_key l k); rewrite Ev; left; reflexivity).
      rewrite Ht0. unfold txs_at.
      destruct Hslot as [Hn|[loc Hloc]].
      * rewrite Hn. rewrite get_put, name_eqb_refl.
        rewrite (in_set_union_iff tx_eqb tx_eqb_eq). cbn. tauto.
      * rewrite Hloc. rewrite get_put, name_eqb_refl.
        rewrite (in_set_union_iff tx_eqb tx_eqb_eq). tauto.
    + assert (Hsame : forall s', (s' = st \/ exists v, s' = put st (u_key (d_up d)) v) -> txs_at s' k = txs_at st k).
      { intros s' [->|[v ->]]; [reflexivity|]. unfold txs_at. rewrite get_put.
        rewrite name_eqb_sym in Ek. rewrite Ek. reflexivity. }
      rewrite Hsame; [cbn; tauto|].
      destruct (tx_eligible e st d (u_key (d_up d))); [|left; reflexivity].
      destruct (txs_write st l (u_key (d_up d))); [right; eauto | left; reflexivity].
  - (* not a transaction delivery: whatever it writes is not a transaction set at k, and it cannot
       replace one *)
    destruct (u_body (d_up d)) as [|c|p|t1|l1|rg] eqn:Eb;
      try (rewrite (tx_wrong_shape_no_write e st d Ec) by (rewrite Eb; eauto); cbn; tauto).
    all: pose proof (deliver_outcome e st d) as Ho; unfold outcome in Ho;
      destruct (run st (deliver e d)) as [[r st'] es]; cbn [store_of fst snd];
      destruct Ho as [[_ ->]|(k0 & v0 & _ & -> & _ & _ & Hc & _)]; [cbn; tauto|];
      unfold txs_at; rewrite get_put; destruct (name_eqb k k0) eqn:Ek; [|cbn; tauto];
      apply name_eqb_eq in Ek; subst k0; rewrite Eb in Hc;
      destruct v0 as [c'|p'|l'|r'|n]; cbn in Hc; try contradiction.
    + destruct Hc as (_ & _ & Hnl). rewrite (unlisted_absent _ _ Hl Hnl). cbn. tauto.
    + destruct Hc as [-> Hacc]. unfold pad_accepts in Hacc.
      apply andb_true_iff in Hacc as [Hacc _]. apply andb_true_iff in Hacc as [_ Hnew].
      destruct (get st k) as [[]|]; cbn in Hnew; try discriminate; cbn; tauto.
    + destruct Hc as [Hw ->]. unfold reg_write in Hw.
      destruct (negb (reg_verify rg)); [discriminate|].
      destruct (listed st (reg_k rg)) eqn:Els; cbn [negb] in Hw.
      * destruct (get st (reg_k rg)) as [[]|]; try discriminate; cbn; tauto.
      * rewrite (unlisted_absent _ _ Hl Els). cbn. tauto.
Qed.

(* ------------------------------------------------------------------ transactions over histories *)

Definition txs_valid (st : store) : Prop :=
  forall k l t, get st k = Some (STxs l) -> In t l -> tx_valid t = true /\ owner_key (t_owner t) = k.

Lemma tx_offer_valid e st d k t : In t (tx_offer e st d k) -> tx_valid t = true /\ owner_key (t_owner t) = k.
Proof.
  unfold tx_offer. destruct (tx_carried d) as [l|]; [|intros []].
  destruct (_ && _); [|intros []]. intros H. apply txs_validated_for_key in H. tauto.
Qed.

Lemma tx_slot_step e st d k l :
  all_listed st -> get st k = Some (STxs l) -> exists l', get (serial_step e st d) k = Some (STxs l').
Proof.
  intros Hl Hg. unfold serial_step. rewrite get_ack.
  pose proof (deliver_outcome e st d) as Ho. unfold outcome in Ho.
  destruct (run st (deliver e d)) as [[r st'] es]. cbn [store_of fst snd].
  destruct Ho as [[_ ->]|(k0 & v0 & _ & -> & _ & _ & Hc & _)]; [eauto|].
  rewrite get_put. destruct (name_eqb k k0) eqn:Ek; [|eauto].
  apply name_eqb_eq in Ek. subst k0.
  destruct (u_body (d_up d)) as [|c|p|t1|l1|rg]; destruct v0 as [c'|p'|l'|r'|n]; cbn in Hc; try contradiction; eauto.
  - destruct Hc as (_ & _ & Hnl). rewrite (present_listed _ _ _ Hl Hg) in Hnl. discriminate.
  - destruct Hc as [-> Hacc]. unfold pad_accepts in Hacc. rewrite Hg in Hacc. cbn in Hacc.
    rewrite andb_false_r in Hacc. discriminate.
  - destruct Hc as [Hw ->]. unfold reg_write in Hw. destruct (negb (reg_verify rg)); [discriminate|].
    rewrite (present_listed _ _ _ Hl Hg) in Hw. cbn [negb] in Hw. rewrite Hg in Hw. discriminate.
Qed.

Lemma txs_valid_step e st d : all_listed st -> txs_valid st -> txs_valid (serial_step e st d).
Proof.
  intros Hl Hv k l t Hg Hin.
  assert (Hin' : In t (txs_at (serial_step e st d) k)) by (unfold txs_at; rewrite Hg; assumption).
  destruct (get st k) as [[c|p|l0|r|n]|] eqn:Eg.
  all: try (exfalso; revert Hg; unfold serial_step; rewrite get_ack;
            pose proof (deliver_outcome e st d) as Ho; unfold outcome in Ho;
            destruct (run st (deliver e d)) as [[r0 st'] es]; cbn [store_of fst snd];
            destruct Ho as [[_ ->]|(k0 & v0 & _ & -> & _ & _ & Hc & _)]; [rewrite Eg; discriminate|];
            rewrite get_put; destruct (name_eqb k k0) eqn:Ek; [|rewrite Eg; discriminate];
            apply name_eqb_eq in Ek; subst k0; intros [= ->];
            destruct (u_body (d_up d)); cbn in Hc; try contradiction;
            unfold txs_write in Hc; destruct (txs_validated _ k) as [|tz vs] eqn:Ev; try discriminate;
            assert (Ht0 : owner_key (t_owner tz) = k)
              by (eapply txs_validated_for_key; rewrite Ev; left; reflexivity);
            rewrite Ht0, Eg in Hc; discriminate).
  - apply (tx_step_union_lemma e st d k t Hl (or_intror (ex_intro _ l0 Eg))) in Hin'.
    destruct Hin' as [H|H]; [|eapply tx_offer_valid; eassumption].
    unfold txs_at in H. rewrite Eg in H. eapply Hv; eassumption.
  - apply (tx_step_union_lemma e st d k t Hl (or_introl Eg)) in Hin'.
    destruct Hin' as [H|H]; [|eapply tx_offer_valid; eassumption].
    unfold txs_at in H. rewrite Eg in H. contradiction.
Qed.

Lemma txs_valid_run e ds : forall st, all_listed st -> txs_valid st -> txs_valid (serial_run e st ds).
Proof.
  unfold serial_run. induction ds as [|d ds IH]; intros st Hl H; cbn [fold_left]; [assumption|].
  apply IH; [apply serial_step_listed | apply txs_valid_step; assumption].
Qed.

(* a stored transaction set holds only validly signed transactions of the owner the key names *)
Lemma txs_always_valid_lemma : forall e ds k l t,
  get (serial_run e [] ds) k = Some (STxs l) -> In t l -> tx_valid t = true /\ owner_key (t_owner t) = k.
Proof.
  intros e ds. apply txs_valid_run.
  - intros k s H. discriminate.
  - intros k l t H. discriminate.
Qed.

Fixpoint tx_offers (e : env) (st : store) (ds : list delivery) (k : name) : list tx :=
  match ds with
  | [] => []
  | d :: r => tx_offer e st d k ++ tx_offers e (serial_step e st d) r k
  end.

(* after any history the stored set is exactly what was stored before plus everything offered *)
Lemma tx_is_union_lemma : forall e ds st k l t,
  all_listed st -> get st k = Some (STxs l) ->
  (In t (txs_at (serial_run e st ds) k) <-> In t l \/ In t (tx_offers e st ds k)).
Proof.
  intros e ds. induction ds as [|d ds IH]; intros st k l t Hl Hg; cbn [serial_run fold_left tx_offers].
  - unfold txs_at. rewrite Hg. cbn. tauto.
  - fold (serial_run e (serial_step e st d) ds).
    destruct (tx_slot_step e st d k l Hl Hg) as [l' Hg'].
    rewrite (IH _ k l' t (serial_step_listed e st d) Hg').
    assert (Hs := tx_step_union_lemma e st d k t Hl (or_intror (ex_intro _ l Hg))).
    unfold txs_at in Hs at 1 2. rewrite Hg', Hg in Hs. rewrite Hs, in_app_iff. tauto.
Qed.

(* replicated copies: the offer does not depend on the store, so neither order nor duplication matters *)
Definition repl_only (ds : list delivery) : Prop := forall d, In d ds -> d_path d = PRepl.

Lemma tx_offer_repl e st st' d k : d_path d = PRepl -> tx_offer e st d k = tx_offer e st' d k.
Proof. intros H. unfold tx_offer, tx_eligible. rewrite H. reflexivity. Qed.

Lemma tx_offers_repl_in e ds : forall st k t, repl_only ds ->
  (In t (tx_offers e st ds k) <-> exists d, In d ds /\ In t (tx_offer e [] d k)).
Proof.
  induction ds as [|d ds IH]; intros st k t Hr; cbn [tx_offers].
  - split; [intros [] | intros (d & [] & _)].
  - rewrite in_app_iff, IH by (intros d' H; apply Hr; right; assumption).
    rewrite (tx_offer_repl e st [] d k) by (apply Hr; left; reflexivity).
    split.
    + intros [H|(d' & H1 & H2)]; [exists d; split; [left; reflexivity | assumption] | exists d'; split; [right|]; assumption].
    + intros (d' & [<-|H1] & H2); [left; assumption | right; eauto].
Qed.

Lemma tx_order_independent_lemma : forall e ds1 ds2 st k l t,
  all_listed st -> get st k = Some (STxs l) -> repl_only ds1 -> repl_only ds2 ->
  (forall d, In d ds1 <-> In d ds2) ->
  (In t (txs_at (serial_run e st ds1) k) <-> In t (txs_at (serial_run e st ds2) k)).
Proof.
  intros e ds1 ds2 st k l t Hl Hg H1 H2 Hsame.
  rewrite (tx_is_union_lemma e ds1 st k l t Hl Hg), (tx_is_union_lemma e ds2 st k l t Hl Hg).
  rewrite (tx_offers_repl_in e ds1 st k t H1), (tx_offers_repl_in e ds2 st k t H2).
  split; (intros [H|(d & Hd & Ht)]; [left; assumption | right; exists d; split; [apply Hsame; assumption | assumption]]).
Qed.

(* ------------------------------------------------------------------ registers *)

Definition reg_at (st : store) (k : name) : option reg :=
  match get st k with Some (SReg r) => Some r | _ => None end.
Definition reg_ops_at (st : store) (k : name) : list regop :=
  match reg_at st k with Some r => g_ops r | None => [] end.

Definition reg_eligible (e : env) (st : store) (d : delivery) (k : name) : bool :=
  let u := d_up d in
  match d_path d, u_hdr u, u_proof u with
  | PRepl, Some KReg, None => true
  | PClient, Some KReg, None => listed st k
  | PClient, Some KRegPaid, Some pr => payment_ok e k pr (u_chain u) || listed st k
  | _, _, _ => false
  end.

(* the operations a delivery offers for register key k: those of a register that names k, passes
   SignedRegister::verify as a whole (owner signature, every op permitted, signed, for this
   register, within the size limits) and has the same base as the stored one, if any *)
Definition reg_offer (e : env) (st : store) (d : delivery) (k : name) : list regop :=
  match u_body (d_up d) with
  | BReg r =>
      if name_eqb (u_key (d_up d)) k && name_eqb (reg_k r) k && reg_eligible e st d k && reg_verify r &&
         match get st k with
         | None => true
         | Some (SReg lr) => mergeable (g_base lr) (g_base r)
         | Some _ => false
         end
      then g_ops r else []
  | _ => []
  end.

Lemma reg_delivery_exact e st d r :
  u_body (d_up d) = BReg r ->
  store_of (run st (deliver e d)) =
  if name_eqb (u_key (d_up d)) (reg_k r) && reg_eligible e st d (reg_k r) then
    match reg_write st r with Some v => put st (reg_k r) v | None => st end
  else st.
Proof.
  destruct d as [pth u]. cbn [d_up]. intros Hb. unfold reg_eligible, deliver. cbn [d_path d_up].
  destruct pth.
  - unfold client_put, de_paid, de_plain. rewrite Hb.
    destruct (u_hdr u) as [[]|]; cbn [andb]; try (rewrite andb_false_r; reflexivity);
      destruct (u_proof u) as [pr|]; cbn [as_chunk as_pad as_tx as_reg liftE andb]; try (rewrite andb_false_r; reflexivity).
    + (* Register, unpaid *)
      rewrite flag_register_key. cbn [andb]. fold (reg_k r).
      destruct (name_eqb (u_key u) (reg_k r)); cbn [negb andb]; [|reflexivity].
      unfold bindE. rewrite run_bind, run_validate_key, name_eqb_refl.
      destruct (listed st (reg_k r)); cbn [negb]; [|reflexivity].
      rewrite run_bind. pose proof (run_store_register st r true) as Hr.
      destruct (reg_write st r) as [v|]; [rewrite Hr; reflexivity|].
      destruct Hr as [x ->]. destruct x as [[]|]; reflexivity.
    + (* RegisterWithPayment *)
      fold (reg_k r). destruct (name_eqb (u_key u) (reg_k r)); cbn [negb andb]; [|reflexivity].
      unfold bindE. rewrite run_bind, run_validate_key, name_eqb_refl.
      rewrite run_bind. pay_step e (reg_k r) pr (u_chain u) st.
      pose proof (run_store_register st r true) as Hr.
      destruct r0 as [[]|x].
      * rewrite H0. cbn [orb liftE]. rewrite run_bind.
        destruct (reg_write st r) as [v|]; [rewrite Hr; reflexivity|].
        destruct Hr as [x ->]. destruct x as [[]|]; reflexivity.
      * destruct H0 as [-> _]. cbn [orb]. destruct (listed st (reg_k r)); cbn [liftE]; [|reflexivity].
        rewrite run_bind.
        destruct (reg_write st r) as [v|]; [rewrite Hr; reflexivity|].
        destruct Hr as [x' ->]. destruct x' as [[]|]; reflexivity.
  - unfold repl_put, de_plain. rewrite Hb.
    destruct (u_hdr u) as [[]|]; cbn [andb]; try (rewrite andb_false_r; reflexivity);
      destruct (u_proof u) as [pr|]; cbn [as_chunk as_pad as_txs as_reg liftE andb]; try (rewrite andb_false_r; reflexivity).
    fold (reg_k r). destruct (name_eqb (u_key u) (reg_k r)); cbn [negb andb]; [|reflexivity].
    pose proof (run_store_register st r false) as Hr.
    destruct (reg_write st r) as [v|]; [rewrite Hr; reflexivity|].
    destruct Hr as [x ->]. reflexivity.
Qed.

Lemma regop_eqb_eq a b : regop_eqb a b = true <-> a = b.
Proof.
  destruct a as [i w s ad z], b as [i' w' s' ad' z']. unfold regop_eqb.
  cbn [op_id op_writer op_sigok op_addr op_size].
  rewrite !andb_true_iff, !N.eqb_eq. split.
  - intros [[[[-> ->] Hs] Ha] ->]. apply Bool.eqb_prop in Hs. subst s'. f_equal.
    destruct ad as [[x y]|], ad' as [[x' y']|]; cbn in Ha; try discriminate; [|reflexivity].
    apply andb_true_iff in Ha as [H1 H2]. apply N.eqb_eq in H1, H2. subst. reflexivity.
  - intros [= -> -> -> -> ->]. repeat split; [apply Bool.eqb_reflx|].
    destruct ad' as [[x y]|]; cbn; [rewrite !N.eqb_refl|]; reflexivity.
Qed.

Lemma subset_in {A} (eqb : A -> A -> bool) (Heq : forall a b, eqb a b = true <-> a = b) a b :
  subset eqb a b = true <-> (forall x, In x a -> In x b).
Proof.
  unfold subset. rewrite forallb_forall. split; intros H x Hx; [apply (mem_in eqb Heq) | apply (mem_in eqb Heq)]; auto.
Qed.

(* one delivery: the stored operations become exactly the union of the stored ones and the offer *)
Lemma register_step_union_lemma : forall e st d k o,
  all_listed st ->
  (get st k = None \/ exists r, get st k = Some (SReg r)) ->
  (In o (reg_ops_at (serial_step e st d) k) <-> In o (reg_ops_at st k) \/ In o (reg_offer e st d k)).
Proof.
  intros e st d k o Hl Hslot. unfold serial_step, reg_ops_at at 1, reg_at at 1. rewrite get_ack.
  unfold reg_offer.
  destruct (u_body (d_up d)) as [|c|p|t1|l1|rg] eqn:Eb.
  6:{ rewrite (reg_delivery_exact e st d rg Eb).
      destruct (name_eqb (u_key (d_up d)) k) eqn:Ek; cbn [andb].
      2:{ (* presented under another key: whatever happens, key k is untouched *)
          assert (Hsame : forall s', (s' = st \/ exists v, s' = put st (reg_k rg) v /\ name_eqb (u_key (d_up d)) (reg_k rg) = true) ->
                          get s' k = get st k).
          { intros s' [->|(v & -> & Hkk)]; [reflexivity|]. rewrite get_put.
            apply name_eqb_eq in Hkk. rewrite <- Hkk. rewrite name_eqb_sym in Ek. rewrite Ek. reflexivity. }
          rewrite Hsame.
          - unfold reg_ops_at, reg_at. cbn [In]. tauto.
          - destruct (name_eqb (u_key (d_up d)) (reg_k rg)) eqn:Ekk; cbn [andb]; [|left; reflexivity].
            destruct (reg_eligible e st d (reg_k rg)); [|left; reflexivity].
            destruct (reg_write st rg); [right; eauto | left; reflexivity]. }
      apply name_eqb_eq in Ek. rewrite Ek.
      destruct (name_eqb (reg_k rg) k) eqn:Ekk; cbn [andb].
      2:{ rewrite name_eqb_sym, Ekk. cbn [andb]. unfold reg_ops_at, reg_at. cbn [In]. tauto. }
      apply name_eqb_eq in Ekk. rewrite Ekk. rewrite name_eqb_refl. cbn [andb].
      destruct (reg_eligible e st d k); cbn [andb]; [|unfold reg_ops_at, reg_at; cbn [In]; tauto].
      unfold reg_write. rewrite Ekk.
      destruct (reg_verify rg); cbn [negb andb]; [|unfold reg_ops_at, reg_at; cbn [In]; tauto].
      unfold reg_ops_at, reg_at.
      destruct Hslot as [Hn|[lr Hlr]].
      - rewrite Hn. assert (listed st k = false) as ->.
        { unfold listed. unfold get in Hn. destruct (lookup st k); [discriminate | reflexivity]. }
        cbn [negb]. rewrite get_put, name_eqb_refl. cbn [In]. tauto.
      - rewrite Hlr. rewrite (present_listed _ _ _ Hl Hlr). cbn [negb].
        destruct (mergeable (g_base lr) (g_base rg)); cbn [negb]; [|rewrite Hlr; cbn [In]; tauto].
        destruct (subset regop_eqb (g_ops rg) (g_ops lr)) eqn:Es.
        + rewrite Hlr. rewrite (subset_in regop_eqb regop_eqb_eq) in Es. split; [tauto | intros [H|H]; auto].
        + rewrite get_put, name_eqb_refl. cbn [g_ops]. rewrite (in_set_union_iff regop_eqb regop_eqb_eq). tauto. }
  all: pose proof (deliver_outcome e st d) as Ho; unfold outcome in Ho;
    destruct (run st (deliver e d)) as [[r st'] es]; cbn [store_of fst snd];
    destruct Ho as [[_ ->]|(k0 & v0 & _ & -> & _ & _ & Hc & _)]; [unfold reg_ops_at, reg_at; cbn [In]; tauto|];
    rewrite get_put; destruct (name_eqb k k0) eqn:Ek; [|unfold reg_ops_at, reg_at; cbn [In]; tauto];
    apply name_eqb_eq in Ek; subst k0; rewrite Eb in Hc;
    destruct v0 as [c'|p'|l'|r'|n]; cbn in Hc; try contradiction; unfold reg_ops_at, reg_at.
  - destruct Hc as (_ & _ & Hnl). rewrite (unlisted_absent _ _ Hl Hnl). cbn [In]. tauto.
  - destruct Hc as [-> Hacc]. unfold pad_accepts in Hacc.
    apply andb_true_iff in Hacc as [Hacc _]. apply andb_true_iff in Hacc as [_ Hnew].
    destruct (get st k) as [[]|]; cbn in Hnew; try discriminate; cbn [In]; tauto.
  - unfold txs_write in Hc. destruct (txs_validated [t1] k) as [|t0 vs] eqn:Ev; [discriminate|].
    assert (Ht0 : owner_key (t_owner t0) = k) by (apply (txs_validated_for_key [t1] k); rewrite Ev; left; reflexivity).
    rewrite Ht0 in Hc. destruct (get st k) as [[]|]; try discriminate; cbn [In]; tauto.
  - unfold txs_write in Hc. destruct (txs_validated l1 k) as [|t0 vs] eqn:Ev; [discriminate|].
    assert (Ht0 : owner_key (t_owner t0) = k) by (apply (txs_validated_for_key l1 k); rewrite Ev; left; reflexivity).
    rewrite Ht0 in Hc. destruct (get st k) as [[]|]; try discriminate; cbn [In]; tauto.
Qed.

(* ------------------------------------------------------------------ registers over histories *)

Lemma reg_slot_step e st d k r :
  all_listed st -> get st k = Some (SReg r) ->
  exists r', get (serial_step e st d) k = Some (SReg r') /\ g_base r' = g_base r.
Proof.
  intros Hl Hg. unfold serial_step. rewrite get_ack.
  pose proof (deliver_outcome e st d) as Ho. unfold outcome in Ho.
  destruct (run st (deliver e d)) as [[r0 st'] es]. cbn [store_of fst snd].
  destruct Ho as [[_ ->]|(k0 & v0 & _ & -> & _ & _ & Hc & _)]; [eauto|].
  rewrite get_put. destruct (name_eqb k k0) eqn:Ek; [|eauto].
  apply name_eqb_eq in Ek. subst k0.
  destruct (u_body (d_up d)) as [|c|p|t1|l1|rg]; destruct v0 as [c'|p'|l'|r'|n]; cbn in Hc; try contradiction.
  - destruct Hc as (_ & _ & Hnl). rewrite (present_listed _ _ _ Hl Hg) in Hnl. discriminate.
  - destruct Hc as [-> Hacc]. unfold pad_accepts in Hacc. rewrite Hg in Hacc. cbn in Hacc.
    rewrite andb_false_r in Hacc. discriminate.
  - unfold txs_write in Hc. destruct (txs_validated [t1] k) as [|t0 vs] eqn:Ev; [discriminate|].
    assert (Ht0 : owner_key (t_owner t0) = k) by (apply (txs_validated_for_key [t1] k); rewrite Ev; left; reflexivity).
    rewrite Ht0, Hg in Hc. discriminate.
  - unfold txs_write in Hc. destruct (txs_validated l1 k) as [|t0 vs] eqn:Ev; [discriminate|].
    assert (Ht0 : owner_key (t_owner t0) = k) by (apply (txs_validated_for_key l1 k); rewrite Ev; left; reflexivity).
    rewrite Ht0, Hg in Hc. discriminate.
  - destruct Hc as [Hw ->]. unfold reg_write in Hw. destruct (negb (reg_verify rg)); [discriminate|].
    rewrite (present_listed _ _ _ Hl Hg) in Hw. cbn [negb] in Hw. rewrite Hg in Hw.
    destruct (negb (mergeable (g_base r) (g_base rg))); [discriminate|].
    destruct (subset regop_eqb (g_ops rg) (g_ops r)); [discriminate|]. injection Hw as <-.
    eexists. split; reflexivity.
Qed.

Fixpoint reg_offers (e : env) (st : store) (ds : list delivery) (k : name) : list regop :=
  match ds with
  | [] => []
  | d :: r => reg_offer e st d k ++ reg_offers e (serial_step e st d) r k
  end.

(* after any history: the base register is the one first stored, and the operations are exactly the
   stored ones plus everything offered *)
Lemma register_is_union_lemma : forall e ds st k r o,
  all_listed st -> get st k = Some (SReg r) ->
  (exists r', get (serial_run e st ds) k = Some (SReg r') /\ g_base r' = g_base r) /\
  (In o (reg_ops_at (serial_run e st ds) k) <-> In o (g_ops r) \/ In o (reg_offers e st ds k)).
Proof.
  intros e ds. induction ds as [|d ds IH]; intros st k r o Hl Hg; cbn [serial_run fold_left reg_offers].
  - split; [eauto|]. unfold reg_ops_at, reg_at. rewrite Hg. cbn [In]. tauto.
  - fold (serial_run e (serial_step e st d) ds).
    destruct (reg_slot_step e st d k r Hl Hg) as (r1 & Hg1 & Hb1).
    destruct (IH _ k r1 o (serial_step_listed e st d) Hg1) as [(r' & Hg' & Hb') Hiff].
    split; [exists r'; split; [assumption | congruence]|].
    rewrite Hiff.
    assert (Hs := register_step_union_lemma e st d k o Hl (or_intror (ex_intro _ r Hg))).
    unfold reg_ops_at in Hs. unfold reg_at in Hs. rewrite Hg1, Hg in Hs. rewrite Hs, in_app_iff. tauto.
Qed.

Lemma reg_offer_repl e st st' d k :
  d_path d = PRepl -> get st k = get st' k -> reg_offer e st d k = reg_offer e st' d k.
Proof. intros H Hg. unfold reg_offer, reg_eligible. rewrite H, Hg. reflexivity. Qed.

(* ------------------------------------------------------------------ overlapping deliveries (F12) *)

Definition f12_pad (c : N) : pad := {| p_owner := 1; p_ctr := c; p_data := c; p_enc := 0; p_sig := PSBy 1 c c |}.
Definition f12_env : env := {| e_closest := [0] |}.
Definition f12_store : store := [(owner_key 1, {| s_val := SPad (f12_pad 5); s_listed := true |})].
Definition f12_delivery (c : N) : delivery :=
  {| d_path := PRepl;
     d_up := {| u_key := owner_key 1; u_hdr := kind_of_tag 5; u_proof := None; u_body := BPad (f12_pad c);
                u_chain := ChainErr |} |}.
Definition f12_deliveries : list delivery := [f12_delivery 7; f12_delivery 6].
(* both deliveries read the stored copy (counter 5) before either write is processed *)
Definition f12_schedule : list token := [TAdv 0; TAdv 1; TAdv 0; TAdv 1; TAdv 0; TAdv 1].

(* the property's concurrent clause is refuted on the faithful model: two validly signed, eligible
   updates (7 and 6) to a held scratchpad (5), processed with overlapping read-check-write, leave 6
   stored after 7 had been stored -- the counter regresses and the highest version is lost; the same
   two deliveries processed one after the other leave 7 *)
Lemma concurrent_lost_update_refuted_lemma :
  exists e st ds toks k,
    all_listed st /\ pad_at st k = Some (f12_pad 5) /\
    pad_offer e st (f12_delivery 7) k = Some (f12_pad 7) /\
    pad_offer e st (f12_delivery 6) k = Some (f12_pad 6) /\
    pad_at (fst (fold_left sched_step (firstn 5 toks) (st, map (dinit e) ds))) k = Some (f12_pad 7) /\
    pad_at (fst (sched_run e st ds toks)) k = Some (f12_pad 6) /\
    pad_at (serial_run e st ds) k = Some (f12_pad 7) /\
    pad_at (serial_run e st (rev ds)) k = Some (f12_pad 7).
Proof.
  exists f12_env, f12_store, f12_deliveries, f12_schedule, (owner_key 1).
  split; [|vm_compute; repeat split].
  intros k s. cbn [f12_store lookup]. destruct (name_eqb k (owner_key 1)); [intros [= <-]; reflexivity | discriminate].
Qed.

(* the same shape loses a transaction: two replicated sets read the stored set before either writes *)
Definition f12_tx (c : N) : tx :=
  {| t_owner := 1; t_parents := []; t_content := c; t_outputs := []; t_sig := TSBy 1 (tx_msg 1 [] c []) |}.
Definition f12_tx_delivery (c : N) : delivery :=
  {| d_path := PRepl;
     d_up := {| u_key := owner_key 1; u_hdr := kind_of_tag 2; u_proof := None; u_body := BTxs [f12_tx c];
                u_chain := ChainErr |} |}.
Definition f12_tx_store : store := [(owner_key 1, {| s_val := STxs [f12_tx 1]; s_listed := true |})].

Lemma concurrent_lost_transaction_refuted_lemma :
  txs_at (fst (sched_run f12_env f12_tx_store [f12_tx_delivery 2; f12_tx_delivery 3] f12_schedule)) (owner_key 1)
    = [f12_tx 3; f12_tx 1] /\
  txs_at (serial_run f12_env f12_tx_store [f12_tx_delivery 2; f12_tx_delivery 3]) (owner_key 1)
    = [f12_tx 3; f12_tx 2; f12_tx 1].
Proof. vm_compute. split; reflexivity. Qed.

(* ------------------------------------------------------------------ non-vacuity *)

Example ex_tx_union_hypotheses :
  all_listed f12_tx_store /\ get f12_tx_store (owner_key 1) = Some (STxs [f12_tx 1]) /\
  repl_only [f12_tx_delivery 2; f12_tx_delivery 3] /\
  tx_offer f12_env f12_tx_store (f12_tx_delivery 2) (owner_key 1) = [f12_tx 2].
Proof.
  repeat split.
  - intros k s. cbn [f12_tx_store lookup]. destruct (name_eqb k (owner_key 1)); [intros [= <-]; reflexivity | discriminate].
  - intros d [<-|[<-|[]]]; reflexivity.
Qed.

Definition ex7_reg (ops : list regop) : reg :=
  {| g_base := {| r_owner := 1; r_meta := 1; r_perm := PermWriters [2]; r_osig := OSBy 1 |}; g_ops := ops |}.
Definition ex7_op (i w : N) (ok : bool) : regop :=
  {| op_id := i; op_writer := w; op_sigok := ok; op_addr := None; op_size := 16 |}.
Definition ex7_reg_store : store := [(reg_key 1 1, {| s_val := SReg (ex7_reg [ex7_op 1 1 true]); s_listed := true |})].
Definition ex7_reg_delivery (ops : list regop) : delivery :=
  {| d_path := PRepl;
     d_up := {| u_key := reg_key 1 1; u_hdr := kind_of_tag 3; u_proof := None; u_body := BReg (ex7_reg ops);
                u_chain := ChainErr |} |}.

(* a permitted, signed operation is merged; a batch containing a forged or unauthorised one is refused whole *)
Example ex_register_union :
  reg_ops_at (serial_run f12_env ex7_reg_store [ex7_reg_delivery [ex7_op 2 2 true]]) (reg_key 1 1)
    = [ex7_op 1 1 true; ex7_op 2 2 true] /\
  reg_ops_at (serial_run f12_env ex7_reg_store [ex7_reg_delivery [ex7_op 2 2 true; ex7_op 3 2 false]]) (reg_key 1 1)
    = [ex7_op 1 1 true] /\
  reg_ops_at (serial_run f12_env ex7_reg_store [ex7_reg_delivery [ex7_op 4 3 true]]) (reg_key 1 1)
    = [ex7_op 1 1 true].
Proof. vm_compute. repeat split. Qed.

(* ------------------------------------------------------------------ the put -> ack window (serial, F12 family) *)

(* Two replicated copies of one register delivered one after the other -- the second starts after the
   first has fully returned and its PutLocalRecord has been processed -- but before the first disk write is
   acknowledged: the key is readable (write cache) yet not indexed, validate_and_store_register takes the
   second copy for a first store and writes it as it is; the first copy's operation is lost.  With the
   acknowledgement relayed in between (the premise [all_listed] of the serial theorems) both are kept. *)
Definition win_reg (ops : list regop) : reg :=
  {| g_base := {| r_owner := 1; r_meta := 1; r_perm := PermWriters []; r_osig := OSBy 1 |}; g_ops := ops |}.
Definition win_op (i : N) : regop :=
  {| op_id := i; op_writer := 1; op_sigok := true; op_addr := None; op_size := 16 |}.
Definition win_delivery (i : N) : delivery :=
  {| d_path := PRepl;
     d_up := {| u_key := reg_key 1 1; u_hdr := kind_of_tag 3; u_proof := None; u_body := BReg (win_reg [win_op i]);
                u_chain := ChainErr |} |}.
Definition win_block (i : nat) : list token := repeat (TAdv i) 8.

Lemma register_overwritten_before_ack_refuted_lemma :
  reg_ops_at (fst (sched_run f12_env [] [win_delivery 2; win_delivery 3] (win_block 0 ++ win_block 1))) (reg_key 1 1)
    = [win_op 3] /\
  reg_ops_at (fst (sched_run f12_env [] [win_delivery 2; win_delivery 3] (win_block 0 ++ [TAck] ++ win_block 1))) (reg_key 1 1)
    = [win_op 2; win_op 3] /\
  reg_ops_at (serial_run f12_env [] [win_delivery 2; win_delivery 3]) (reg_key 1 1) = [win_op 2; win_op 3] /\
  (* the delivery was already over when the next one started *)
  (let '(st, ds) := fold_left sched_step (win_block 0) ([], map (dinit f12_env) [win_delivery 2; win_delivery 3]) in
   match ds with d0 :: _ => ds_phase d0 = DDone /\ ds_outbox d0 = [] /\ get st (reg_key 1 1) = Some (SReg (win_reg [win_op 2]))
                            /\ listed st (reg_key 1 1) = false
            | [] => False end).
Proof. vm_compute. repeat split. Qed.


(* ------------------------------------------------------------------ what the owner's signature covers *)

Lemma flags_tx_signs :
  Consts.pv_tx_signs_owner = true /\ Consts.pv_tx_signs_parents = true /\ Consts.pv_tx_signs_content = true /\
  Consts.pv_tx_signs_output_keys = true /\ Consts.pv_tx_signs_output_contents = true.
Proof. repeat split. Qed.

Lemma map_tpk_sep ps : forall ps' n r r',
  map TPk ps ++ TLit n :: r = map TPk ps' ++ TLit n :: r' -> ps = ps' /\ r = r'.
Proof.
  induction ps as [|p ps IH]; intros [|p' ps'] n r r' H; cbn [map app] in H.
  - injection H as ->. split; reflexivity.
  - discriminate H.
  - discriminate H.
  - injection H as -> H. destruct (IH _ _ _ _ H) as [-> ->]. split; reflexivity.
Qed.

Lemma outputs_tokens_inj outs : forall outs',
  flat_map (fun kc : owner * N => [TPk (fst kc)] ++ [TCont (snd kc)]) outs =
  flat_map (fun kc : owner * N => [TPk (fst kc)] ++ [TCont (snd kc)]) outs' -> outs = outs'.
Proof.
  induction outs as [|[k c] outs IH]; intros [|[k' c'] outs'] H; cbn [flat_map app fst snd] in H;
    try discriminate H; [reflexivity|].
  injection H as -> -> H. rewrite (IH _ H). reflexivity.
Qed.

(* the signed message determines every field: owner, each parent, content, each output's key and
   each output's content (holds because the source's bytes_to_sign covers all five, see flags_tx_signs) *)
Lemma tx_signed_bytes_injective_lemma : forall o ps c outs o' ps' c' outs',
  tx_msg o ps c outs = tx_msg o' ps' c' outs' -> o = o' /\ ps = ps' /\ c = c' /\ outs = outs'.
Proof.
  intros o ps c outs o' ps' c' outs'. unfold tx_msg.
  destruct flags_tx_signs as (-> & -> & -> & -> & ->). cbn [app]. intros H.
  injection H as -> H. apply map_tpk_sep in H as [-> H]. injection H as -> H.
  apply outputs_tokens_inj in H. subst. repeat split.
Qed.

(* hence a transaction that verifies carries exactly the fields its owner signed: two transactions
   with the same signature that both verify are the same transaction -- altering any field (owner,
   a parent, the content, an output's key or an output's content) after signing makes verify fail *)
Lemma tampered_tx_invalid_lemma : forall t t',
  tx_valid t = true -> tx_valid t' = true -> t_sig t' = t_sig t -> t' = t.
Proof.
  intros [o ps c outs s] [o' ps' c' outs' s'] Hv Hv' Hs. cbn [t_sig] in Hs. subst s'.
  unfold tx_valid in Hv, Hv'. cbn [t_owner t_parents t_content t_outputs t_sig] in Hv, Hv'.
  destruct s as [|sg m]; [discriminate|].
  apply andb_true_iff in Hv as [_ Hm]. apply andb_true_iff in Hv' as [_ Hm'].
  apply (list_eqb_eq tok_eqb tok_eqb_eq) in Hm, Hm'. rewrite Hm in Hm'.
  apply tx_signed_bytes_injective_lemma in Hm' as (-> & -> & -> & ->). reflexivity.
Qed.

Definition ex_tx2 : tx :=
  {| t_owner := 1; t_parents := [2; 3]; t_content := 7; t_outputs := [(4, 8); (5, 9)];
     t_sig := TSBy 1 (tx_msg 1 [2; 3] 7 [(4, 8); (5, 9)]) |}.
(* non-vacuity: a genuine transaction with parents and outputs verifies; rewriting the content of one
   output (or any other field) after signing does not *)
Example ex_tampered_output_content :
  tx_valid ex_tx2 = true /\
  tx_valid {| t_owner := 1; t_parents := [2; 3]; t_content := 7; t_outputs := [(4, 8); (5, 10)]; t_sig := t_sig ex_tx2 |} = false /\
  tx_valid {| t_owner := 1; t_parents := [2; 3]; t_content := 7; t_outputs := [(6, 8); (5, 9)]; t_sig := t_sig ex_tx2 |} = false /\
  tx_valid {| t_owner := 1; t_parents := [2]; t_content := 7; t_outputs := [(4, 8); (5, 9)]; t_sig := t_sig ex_tx2 |} = false /\
  tx_valid {| t_owner := 1; t_parents := [2; 3]; t_content := 6; t_outputs := [(4, 8); (5, 9)]; t_sig := t_sig ex_tx2 |} = false /\
  tx_valid {| t_owner := 2; t_parents := [2; 3]; t_content := 7; t_outputs := [(4, 8); (5, 9)]; t_sig := t_sig ex_tx2 |} = false.
Proof. vm_compute. repeat split. Qed.
