(* Proofs about model/RecordStore.v, part 2 (C01, second sentence): in a settled state the last
   accepted write of a key is readable and listed, a removed key is not readable and -- outside the
   known class "removed while a write of it was unacknowledged" -- not listed.  For every schedule of
   the background tasks (first-in first-out per file) and every delivery order of notifications. *)
From Coq Require Import List Arith PeanoNat NArith String Ascii Bool Lia ZifyBool ZifyNat ZifyN.
From V Require Import lib.Strs gen.Consts model.RecordStore proofs.RecordStore.
Import ListNotations.
Open Scope N_scope.

Local Arguments same_file : simpl never.
Local Arguments fname : simpl never.
Local Arguments write_ok : simpl never.
Local Arguments file_bytes : simpl never.
Local Arguments read_bytes : simpl never.
Local Arguments keyb : simpl never.
Local Arguments cache_push : simpl never.
Local Arguments calc_farthest : simpl never.

(* ------------------------------------------------------------------ per-key view of the pipeline *)
Definition ftasks (s : state) (k : key) : list task := filter (same_file (fname k)) (tasks s).

Definition task_effect (E : env) (cur : option bytes) (t : task) : option bytes :=
  match t with
  | TWrite k v _ => if write_ok k then Some (file_bytes E k v) else cur
  | TDelete _ => None
  | _ => cur
  end.

(* content of k's file once every pending task on it has run *)
Definition final_file (E : env) (s : state) (k : key) : option bytes :=
  fold_left (task_effect E) (ftasks s k) (flookup (fname k) (files s)).

Definition wr_of (k : key) (t : task) : bool :=
  match t with
  | TWrite k' _ _ => keyb k k'
  | TSend n => notif_stored_for k n
  | _ => false
  end.
Definition notif_failed_for (k : key) (n : notif) : bool :=
  match n with NFailed k' => keyb k k' | NStored _ _ => false end.
Definition fail_of (k : key) (t : task) : bool :=
  match t with
  | TWrite k' _ _ => keyb k k'
  | TSend n => notif_failed_for k n
  | _ => false
  end.
Definition pending_fail (s : state) (k : key) : bool :=
  existsb (fail_of k) (tasks s) || existsb (notif_failed_for k) (chan s).

Lemma unacked_eq s k : unacked s k = existsb (wr_of k) (tasks s) || existsb (notif_stored_for k) (chan s).
Proof. reflexivity. Qed.

Lemma same_file_fname k t : same_file (fname k) t = true <->
  (exists v ty, t = TWrite k v ty) \/ t = TDelete k.
Proof.
  unfold same_file. destruct t as [k' v ty|k'|n|c since]; cbn [task_file].
  - rewrite String.eqb_eq. split.
    + intros H. apply fname_inj in H. subst. left; eauto.
    + intros [(v' & ty' & H)|H]; inversion H; auto.
  - rewrite String.eqb_eq. split.
    + intros H. apply fname_inj in H. subst. now right.
    + intros [(v' & ty' & H)|H]; inversion H; auto.
  - split; [discriminate|]. intros [(v' & ty' & H)|H]; discriminate.
  - rewrite String.eqb_eq. split.
    + intros H. exfalso. eapply fname_not_metrics; eauto.
    + intros [(v' & ty' & H)|H]; discriminate.
Qed.

Lemma same_file_other k k' v ty : k <> k' -> same_file (fname k) (TWrite k' v ty) = false.
Proof.
  intros N. destruct (same_file (fname k) (TWrite k' v ty)) eqn:E; auto.
  apply same_file_fname in E as [(v' & ty' & H)|H]; inversion H; congruence.
Qed.
Lemma same_file_other_del k k' : k <> k' -> same_file (fname k) (TDelete k') = false.
Proof.
  intros N. destruct (same_file (fname k) (TDelete k')) eqn:E; auto.
  apply same_file_fname in E as [(v' & ty' & H)|H]; inversion H; congruence.
Qed.

Lemma keyb_refl k : keyb k k = true.
Proof. apply keyb_eq; reflexivity. Qed.
Lemma keyb_neq a b : a <> b -> keyb a b = false.
Proof. intros N. destruct (keyb a b) eqn:E; auto. apply keyb_eq in E; contradiction. Qed.

Lemma flookup_finsert_other k k' c (fs : list (string * bytes)) : k <> k' ->
  flookup (fname k) (finsert (fname k') c fs) = flookup (fname k) fs.
Proof.
  intros N. apply (alookup_ainsert_other String.eqb String.eqb_eq). intros H. apply fname_inj in H. auto.
Qed.
Lemma flookup_fremove_other k k' (fs : list (string * bytes)) : k <> k' ->
  flookup (fname k) (fremove (fname k') fs) = flookup (fname k) fs.
Proof.
  intros N. apply (alookup_aremove_other String.eqb String.eqb_eq). intros H. apply fname_inj in H. auto.
Qed.

(* ------------------------------------------------------------------ list facts about the scheduler *)
Lemma filter_remove_nth_other {A} (p : A -> bool) i : forall ts t,
  nth_error ts i = Some t -> p t = false -> filter p (remove_nth i ts) = filter p ts.
Proof.
  induction i as [|i IH]; intros [|a ts] t; cbn; try discriminate.
  - intros H; inversion H; subst. intros ->. reflexivity.
  - intros H Hp. rewrite (IH _ _ H Hp). reflexivity.
Qed.

Lemma filter_remove_nth_first {A} (p : A -> bool) i : forall ts t,
  nth_error ts i = Some t -> p t = true -> existsb p (firstn i ts) = false ->
  filter p ts = t :: filter p (remove_nth i ts).
Proof.
  induction i as [|i IH]; intros [|a ts] t; cbn; try discriminate.
  - intros H; inversion H; subst. intros -> _. reflexivity.
  - intros H Hp Hex. apply orb_false_iff in Hex as [Ha Hex]. rewrite Ha. now apply IH.
Qed.

Lemma existsb_remove_nth_other {A} (p : A -> bool) i : forall ts t,
  nth_error ts i = Some t -> p t = false -> existsb p (remove_nth i ts) = existsb p ts.
Proof.
  induction i as [|i IH]; intros [|a ts] t; cbn; try discriminate.
  - intros H; inversion H; subst. intros ->. reflexivity.
  - intros H Hp. now rewrite (IH _ _ H Hp).
Qed.

Lemma existsb_nth {A} (p : A -> bool) i ts t : nth_error ts i = Some t -> p t = true -> existsb p ts = true.
Proof. intros H Hp. apply existsb_exists. exists t; split; auto. eapply nth_error_In; eauto. Qed.

Lemma existsb_remove_nth_le {A} (p : A -> bool) i ts : existsb p (remove_nth i ts) = true -> existsb p ts = true.
Proof.
  rewrite !existsb_exists. intros [x [Hin Hp]]. exists x; split; auto. eapply in_remove_nth; eauto.
Qed.

(* ------------------------------------------------------------------ the per-key invariant *)
Definition J (E : env) (s : state) (k : key) (cur : option lastop) (risk : bool) : Prop :=
  match cur with
  | Some (LPut v) =>
      (forall v', In (k, v') (cache s) -> v' = v) /\
      (if write_ok k
       then final_file E s k = Some (file_bytes E k v) /\ (contains s k = true \/ unacked s k = true)
       else pending_fail s k = true)
  | Some LRemoved =>
      (forall v', ~ In (k, v') (cache s)) /\ final_file E s k = None /\
      (risk = false -> contains s k = false /\ unacked s k = false)
  | _ => True
  end.

(* what a transition must respect about key k for J to carry over unchanged *)
Record Frame (E : env) (k : key) (s s' : state) : Prop := mkFrame {
  fr_cache : forall v', In (k, v') (cache s') -> In (k, v') (cache s);
  fr_file : final_file E s' k = final_file E s k;
  fr_listed : write_ok k = true -> contains s k = true \/ unacked s k = true ->
              contains s' k = true \/ unacked s' k = true;
  fr_quiet : contains s k = false /\ unacked s k = false -> contains s' k = false /\ unacked s' k = false;
  fr_fail : write_ok k = false -> pending_fail s k = true -> pending_fail s' k = true }.

Lemma J_frame E k s s' cur risk : Frame E k s s' -> J E s k cur risk -> J E s' k cur risk.
Proof.
  intros [a b c d e]. unfold J. destruct cur as [[v| |]|]; auto.
  - intros [C R]. split; [intros v' Hin; auto|].
    destruct (write_ok k) eqn:Wo; [|auto]. destruct R as [F L]. split; [congruence|auto].
  - intros (C & F & R). split; [intros v' Hin; eapply C; eauto|]. split; [congruence|auto].
Qed.

Lemma frame_refl E k s : Frame E k s s.
Proof. constructor; auto. Qed.

Lemma frame_trans E k s1 s2 s3 : Frame E k s1 s2 -> Frame E k s2 s3 -> Frame E k s1 s3.
Proof.
  intros [a b c d e] [a' b' c' d' e']. constructor; auto. congruence.
Qed.

Lemma frame_set_cache E k s c : (forall v', In (k, v') c -> In (k, v') (cache s)) -> Frame E k s (set_cache s c).
Proof. intros H. constructor; auto. Qed.

Lemma contains_kremove_other s k k' : k <> k' ->
  klookup k (kremove k' (idx s)) = klookup k (idx s).
Proof. intros N. apply (alookup_aremove_other keyb keyb_eq); auto. Qed.

Lemma ftasks_app s k l : filter (same_file (fname k)) (tasks s ++ l) = ftasks s k ++ filter (same_file (fname k)) l.
Proof. apply filter_app. Qed.

Ltac sproj := cbn [idx bydist farthest cache range payments started starts files metrics tasks chan].
Ltac unf := rewrite ?unacked_eq; unfold contains, pending_fail, final_file, ftasks.

Lemma frame_remove_other E k s k' : k <> k' -> Frame E k s (remove E s k').
Proof.
  intros N. constructor; unf; unfold remove; sproj.
  - intros v' Hin. apply (in_aremove keyb keyb_eq) in Hin. tauto.
  - rewrite filter_app. cbn [filter]. rewrite same_file_other_del by auto. now rewrite app_nil_r.
  - rewrite contains_kremove_other by auto. rewrite existsb_app; cbn [existsb wr_of]. rewrite !orb_false_r. auto.
  - rewrite contains_kremove_other by auto. rewrite existsb_app; cbn [existsb wr_of]. rewrite !orb_false_r. auto.
  - rewrite existsb_app; cbn [existsb fail_of]. rewrite !orb_false_r. auto.
Qed.

(* removing k itself establishes the "removed" clause whatever held before *)
Lemma J_remove_same E s k risk :
  J E (remove E s k) k (Some LRemoved) (risk || unacked s k).
Proof.
  unfold J. split; [|split]; unf; unfold remove; sproj.
  - intros v' Hin. apply (in_aremove keyb keyb_eq) in Hin. cbn [fst] in Hin. tauto.
  - rewrite filter_app, fold_left_app. cbn [filter].
    replace (same_file (fname k) (TDelete k)) with true; [reflexivity|].
    symmetry. apply same_file_fname. now right.
  - intros R. apply orb_false_iff in R as [_ U]. split.
    + unfold klookup, kremove. now rewrite (alookup_aremove_same keyb keyb_eq).
    + revert U. unfold unacked. rewrite existsb_app; cbn [existsb wr_of]. now rewrite !orb_false_r.
Qed.

Lemma frame_mark_other E k s k' t : k <> k' -> Frame E k s (mark_as_stored E s k' t).
Proof.
  intros N. constructor; unf; unfold mark_as_stored; sproj; auto;
    unfold klookup, kinsert; rewrite (alookup_ainsert_other keyb keyb_eq) by auto; auto.
Qed.

Lemma contains_mark_same E s k t : contains (mark_as_stored E s k t) k = true.
Proof.
  unfold contains, mark_as_stored; sproj. unfold klookup, kinsert.
  now rewrite (alookup_ainsert_same keyb keyb_eq).
Qed.

(* ------------------------------------------------------------------ background tasks *)
Lemma frame_append_other E k s t :
  same_file (fname k) t = false -> wr_of k t = false ->
  Frame E k s (set_tasks s (tasks s ++ [t])).
Proof.
  intros F W. constructor; unf; unfold set_tasks; sproj; auto.
  - rewrite filter_app. cbn [filter]. rewrite F. now rewrite app_nil_r.
  - rewrite existsb_app; cbn [existsb]. rewrite W, !orb_false_r. auto.
  - rewrite existsb_app; cbn [existsb]. rewrite W, !orb_false_r. auto.
  - rewrite existsb_app. intros _ H. apply orb_true_iff in H as [H|H]; [|now rewrite H, orb_true_r].
    now rewrite H.
Qed.

Lemma existsb_split {A} (p : A -> bool) i : forall ts t,
  nth_error ts i = Some t -> existsb p ts = p t || existsb p (remove_nth i ts).
Proof.
  induction i as [|i IH]; intros [|a ts] t; cbn; try discriminate.
  - intros H; inversion H; subst. reflexivity.
  - intros H. rewrite (IH _ _ H). destruct (p a), (p t); reflexivity.
Qed.

Lemma same_file_self_write k v ty : same_file (fname k) (TWrite k v ty) = true.
Proof. apply same_file_fname. left; eauto. Qed.
Lemma same_file_self_del k : same_file (fname k) (TDelete k) = true.
Proof. apply same_file_fname. now right. Qed.
Lemma same_file_send k n : same_file (fname k) (TSend n) = false.
Proof. reflexivity. Qed.
Lemma same_file_flush k c t : same_file (fname k) (TFlush c t) = false.
Proof.
  destruct (same_file (fname k) (TFlush c t)) eqn:E; auto.
  apply same_file_fname in E as [(v' & ty' & H)|H]; discriminate.
Qed.

Ltac bools := repeat match goal with
  | |- context [?a || false] => rewrite (orb_false_r a)
  | |- context [false || ?a] => rewrite (orb_false_l a)
  | H : context [?a || false] |- _ => rewrite (orb_false_r a) in H
  | H : context [false || ?a] |- _ => rewrite (orb_false_l a) in H
  end.

(* executing task t, the other pending tasks being `rest` *)
Ltac fr_start := constructor; unf; unfold set_tasks, set_files, set_chan; sproj.

Lemma frame_exec E k s rest t :
  ftasks s k = (if same_file (fname k) t then t :: filter (same_file (fname k)) rest
                else filter (same_file (fname k)) rest) ->
  existsb (wr_of k) (tasks s) = wr_of k t || existsb (wr_of k) rest ->
  existsb (fail_of k) (tasks s) = fail_of k t || existsb (fail_of k) rest ->
  Frame E k s (exec_task E (set_tasks s rest) t).
Proof.
  intros Hf Hw Hp. unfold ftasks in Hf. destruct t as [k' v ty|k'|n|c since].
  - destruct (keyb k k') eqn:Ek.
    + apply keyb_eq in Ek; subst k'. rewrite same_file_self_write in Hf.
      cbn [wr_of fail_of] in Hw, Hp. rewrite keyb_refl in Hw, Hp. cbn [orb] in Hw, Hp.
      unfold exec_task. destruct (write_ok k) eqn:Wo.
      * fr_start.
        -- auto.
        -- rewrite filter_app. cbn [filter]. rewrite same_file_send, app_nil_r.
           rewrite Hf. cbn [fold_left task_effect]. rewrite Wo.
           unfold flookup, finsert. now rewrite (alookup_ainsert_same String.eqb String.eqb_eq).
        -- intros _ _. right. rewrite existsb_app. cbn [existsb wr_of notif_stored_for].
           rewrite keyb_refl. now rewrite !orb_true_r.
        -- intros [_ U]. rewrite Hw in U. discriminate.
        -- intros W; congruence.
      * fr_start.
        -- auto.
        -- rewrite filter_app. cbn [filter]. rewrite same_file_send, app_nil_r.
           rewrite Hf. cbn [fold_left task_effect]. now rewrite Wo.
        -- intros W; congruence.
        -- intros [_ U]. rewrite Hw in U. discriminate.
        -- intros _ _. rewrite existsb_app. cbn [existsb fail_of notif_failed_for].
           rewrite keyb_refl. now rewrite !orb_true_r.
    + assert (N : k <> k') by (intros ->; rewrite keyb_refl in Ek; discriminate).
      rewrite same_file_other in Hf by auto. cbn [wr_of fail_of] in Hw, Hp. rewrite Ek in Hw, Hp.
      cbn [orb] in Hw, Hp. unfold exec_task. destruct (write_ok k').
      * fr_start.
        -- auto.
        -- rewrite filter_app. cbn [filter]. rewrite same_file_send, app_nil_r.
           rewrite Hf. now rewrite flookup_finsert_other.
        -- rewrite Hw, existsb_app. cbn [existsb wr_of notif_stored_for]. rewrite Ek. bools. auto.
        -- rewrite Hw, existsb_app. cbn [existsb wr_of notif_stored_for]. rewrite Ek. bools. auto.
        -- rewrite Hp, existsb_app. cbn [existsb fail_of notif_failed_for]. bools. auto.
      * fr_start.
        -- auto.
        -- rewrite filter_app. cbn [filter]. rewrite same_file_send, app_nil_r. now rewrite Hf.
        -- rewrite Hw, existsb_app. cbn [existsb wr_of notif_stored_for]. bools. auto.
        -- rewrite Hw, existsb_app. cbn [existsb wr_of notif_stored_for]. bools. auto.
        -- rewrite Hp, existsb_app. cbn [existsb fail_of notif_failed_for]. rewrite Ek. bools. auto.
  - cbn [wr_of fail_of] in Hw, Hp. cbn [orb] in Hw, Hp. unfold exec_task.
    destruct (keyb k k') eqn:Ek.
    + apply keyb_eq in Ek; subst k'. rewrite same_file_self_del in Hf.
      fr_start.
      * auto.
      * rewrite Hf. cbn [fold_left task_effect].
        unfold flookup, fremove. now rewrite (alookup_aremove_same String.eqb String.eqb_eq).
      * rewrite Hw. auto.
      * rewrite Hw. auto.
      * rewrite Hp. auto.
    + assert (N : k <> k') by (intros ->; rewrite keyb_refl in Ek; discriminate).
      rewrite same_file_other_del in Hf by auto.
      fr_start.
      * auto.
      * rewrite Hf. now rewrite flookup_fremove_other.
      * rewrite Hw. auto.
      * rewrite Hw. auto.
      * rewrite Hp. auto.
  - rewrite same_file_send in Hf. cbn [wr_of fail_of] in Hw, Hp. unfold exec_task.
    fr_start.
    + auto.
    + now rewrite Hf.
    + rewrite Hw, existsb_app. cbn [existsb]. bools.
      destruct (notif_stored_for k n), (existsb (wr_of k) rest), (existsb (notif_stored_for k) (chan s)); cbn; auto.
    + rewrite Hw, existsb_app. cbn [existsb]. bools.
      destruct (notif_stored_for k n), (existsb (wr_of k) rest), (existsb (notif_stored_for k) (chan s)); cbn; auto.
    + rewrite Hp, existsb_app. cbn [existsb]. bools.
      destruct (notif_failed_for k n), (existsb (fail_of k) rest), (existsb (notif_failed_for k) (chan s)); cbn; auto.
  - rewrite same_file_flush in Hf. cbn [wr_of fail_of] in Hw, Hp. cbn [orb] in Hw, Hp. unfold exec_task.
    fr_start.
    + auto.
    + now rewrite Hf.
    + rewrite Hw. auto.
    + rewrite Hw. auto.
    + rewrite Hp. auto.
Qed.

(* running the enabled task number i *)
Lemma enabled_first ts i t f : enabled ts i = true -> nth_error ts i = Some t -> task_file t = Some f ->
  existsb (same_file f) (firstn i ts) = false.
Proof.
  unfold enabled. intros En Nt Tf. rewrite Nt, Tf in En. now apply negb_true_iff in En.
Qed.

Lemma frame_run_task E k s i : Frame E k s (run_task E s i).
Proof.
  unfold run_task. destruct (enabled (tasks s) i) eqn:En; [|apply frame_refl].
  destruct (nth_error (tasks s) i) as [t|] eqn:Nt; [|apply frame_refl].
  apply frame_exec.
  - destruct (same_file (fname k) t) eqn:Sf.
    + apply filter_remove_nth_first; auto.
      destruct (task_file t) as [f|] eqn:Tf; [|unfold same_file in Sf; rewrite Tf in Sf; discriminate].
      assert (f = fname k). { unfold same_file in Sf. rewrite Tf in Sf. apply String.eqb_eq in Sf. auto. }
      subst f. eapply enabled_first; eauto.
    + symmetry. eapply filter_remove_nth_other; eauto.
  - now apply existsb_split.
  - now apply existsb_split.
Qed.

(* ------------------------------------------------------------------ ghost bookkeeping of one step *)
Definition cur_step (E : env) (s : state) (o : op) (k : key) (cur : option lastop) : option lastop :=
  match put_event E s o k with
  | Some e => Some e
  | None => if existsb (keyb k) (removed_by E s o) then Some LRemoved else cur
  end.
Definition risk_step (E : env) (s : state) (o : op) (k : key) (risk : bool) : bool :=
  risk || (existsb (keyb k) (removed_by E s o) && unacked s k).

Lemma J_risk_eq E s k cur r r' : r = r' -> J E s k cur r -> J E s k cur r'.
Proof. intros ->; auto. Qed.

Lemma unacked_remove E s k k' : unacked (remove E s k') k = unacked s k.
Proof. unf. unfold remove; sproj. rewrite existsb_app. cbn [existsb wr_of]. now bools. Qed.

Lemma unacked_set_cache s c k : unacked (set_cache s c) k = unacked s k.
Proof. reflexivity. Qed.

Lemma frame_chan_remove E k s j n : nth_error (chan s) j = Some n ->
  notif_stored_for k n = false -> notif_failed_for k n = false ->
  Frame E k s (set_chan s (remove_nth j (chan s))).
Proof.
  intros Nt A B. fr_start; auto.
  - rewrite (existsb_remove_nth_other _ _ _ _ Nt A). auto.
  - rewrite (existsb_remove_nth_other _ _ _ _ Nt A). auto.
  - rewrite (existsb_remove_nth_other _ _ _ _ Nt B). auto.
Qed.

Lemma J_fold_remove E k : forall ks s cur risk, J E s k cur risk ->
  J E (fold_left (remove E) ks s) k (if existsb (keyb k) ks then Some LRemoved else cur)
    (risk || (existsb (keyb k) ks && unacked s k)).
Proof.
  induction ks as [|k0 ks IH]; intros s cur risk Hj; cbn [fold_left existsb].
  - cbn [andb]. now rewrite orb_false_r.
  - destruct (keyb k k0) eqn:Ek.
    + apply keyb_eq in Ek; subst k0. cbn [orb andb].
      pose proof (J_remove_same E s k risk) as H1.
      specialize (IH _ _ _ H1). rewrite unacked_remove in IH.
      destruct (existsb (keyb k) ks); (eapply J_risk_eq; [|exact IH]);
        destruct risk, (unacked s k); reflexivity.
    + assert (N : k <> k0) by (intros ->; rewrite keyb_refl in Ek; discriminate).
      cbn [orb]. pose proof (J_frame _ _ _ _ _ _ (frame_remove_other E k s k0 N) Hj) as H1.
      specialize (IH _ _ _ H1). now rewrite unacked_remove in IH.
Qed.

(* ------------------------------------------------------------------ put_verified *)
Definition pushed (E : env) (s : state) (k : key) (v : value) : state :=
  set_cache s (cache_push E (kremove k (cache s)) k v).

Definition put_slow (E : env) (s : state) (k : key) (v : value) (t : rtype) : put_path * state :=
  match prune E (pushed E s k v) k with
  | None => (PRefused, set_cache (pushed E s k v) (kremove k (cache (pushed E s k v))))
  | Some s2 => (PStored, set_tasks s2 (tasks s2 ++ [TWrite k v t]))
  end.

Lemma put_verified_cases E s k v t :
  (klookup k (cache s) = Some v /\ put_verified E s k v t = (PEarly, pushed E s k v))
  \/ put_verified E s k v t = put_slow E s k v t.
Proof.
  unfold put_verified, put_slow, pushed. destruct (klookup k (cache s)) as [v0|] eqn:Ec; [|now right].
  destruct (value_eqb v0 v) eqn:Ev; [|now right]. apply value_eqb_eq in Ev; subst. now left.
Qed.

Lemma put_path_indep E s k v t t' : fst (put_verified E s k v t) = fst (put_verified E s k v t').
Proof.
  unfold put_verified.
  destruct (match klookup k (cache s) with Some v0 => value_eqb v0 v | None => false end); [reflexivity|].
  destruct (prune E _ k); reflexivity.
Qed.

Lemma evicted_eq E s k v t : evicted_by_put E s k v =
  match fst (put_verified E s k v t) with
  | PStored => if len (idx s) <? e_max_records E then []
               else match farthest s with Some (f, _) => [f] | None => [] end
  | _ => []
  end.
Proof.
  unfold evicted_by_put. rewrite (put_path_indep E s k v t RChunk).
  destruct (put_verified E s k v RChunk) as [[| |] s']; reflexivity.
Qed.

Lemma pushed_idx E s k v : idx (pushed E s k v) = idx s.
Proof. reflexivity. Qed.
Lemma pushed_farthest E s k v : farthest (pushed E s k v) = farthest s.
Proof. reflexivity. Qed.

Lemma pushed_cache E s k' v k x : In (k, x) (cache (pushed E s k' v)) ->
  (k <> k' /\ In (k, x) (cache s)) \/ (k = k' /\ x = v).
Proof.
  unfold pushed, set_cache; sproj. intros Hin. apply in_cache_push in Hin as [Hin|Hin].
  - apply (in_aremove keyb keyb_eq) in Hin. cbn [fst] in Hin. left; tauto.
  - inversion Hin; auto.
Qed.

Lemma frame_pushed_other E s k' v k : k <> k' -> Frame E k s (pushed E s k' v).
Proof.
  intros N. apply frame_set_cache. intros x Hin.
  change (In (k, x) (cache (pushed E s k' v))) in Hin. apply pushed_cache in Hin. tauto.
Qed.

(* the new write of k is the last task on its file, and it is unacknowledged *)
Lemma J_after_write E s k v t risk :
  (forall x, In (k, x) (cache s) -> x = v) ->
  J E (set_tasks s (tasks s ++ [TWrite k v t])) k (Some (LPut v)) risk.
Proof.
  intros C. unfold J. split; [exact C|]. destruct (write_ok k) eqn:Wo.
  - split.
    + unf. unfold set_tasks; sproj. rewrite filter_app, fold_left_app. cbn [filter].
      rewrite same_file_self_write. cbn [fold_left task_effect]. now rewrite Wo.
    + right. unf. unfold set_tasks; sproj. rewrite existsb_app. cbn [existsb wr_of].
      rewrite keyb_refl. now rewrite !orb_true_r.
  - unf. unfold set_tasks; sproj. rewrite existsb_app. cbn [existsb fail_of].
    rewrite keyb_refl. now rewrite !orb_true_r.
Qed.

Lemma J_put E s k' v t k cur risk :
  J E s k cur risk ->
  J E (snd (put_verified E s k' v t)) k
    (match (if keyb k k' then match fst (put_verified E s k' v RChunk) with
                              | PStored => Some (LPut v) | PRefused => Some LRefused | PEarly => None end
            else None) with
     | Some e => Some e
     | None => if existsb (keyb k) (evicted_by_put E s k' v) then Some LRemoved else cur
     end)
    (risk || (existsb (keyb k) (evicted_by_put E s k' v) && unacked s k)).
Proof.
  intros Hj. rewrite (evicted_eq E s k' v t), (put_path_indep E s k' v RChunk t).
  destruct (put_verified_cases E s k' v t) as [[Ec ->]| ->].
  - (* early return: nothing but the cache order changes *)
    cbn [fst snd existsb andb]. rewrite orb_false_r.
    assert (F : Frame E k s (pushed E s k' v)).
    { apply frame_set_cache. intros x Hin. change (In (k, x) (cache (pushed E s k' v))) in Hin.
      apply pushed_cache in Hin as [[_ ?]|[-> ->]]; auto. apply (alookup_in keyb keyb_eq); auto. }
    destruct (keyb k k'); eapply J_frame; eauto.
  - unfold put_slow, prune. rewrite !pushed_idx, !pushed_farthest.
    destruct (len (idx s) <? e_max_records E) eqn:Lt.
    + (* room left: no eviction *)
      cbn [fst snd existsb andb]. rewrite orb_false_r. destruct (keyb k k') eqn:Ek.
      * apply keyb_eq in Ek; subst k'. apply J_after_write.
        intros x Hin. apply pushed_cache in Hin as [[N _]|[_ ->]]; congruence.
      * assert (N : k <> k') by (intros ->; rewrite keyb_refl in Ek; discriminate).
        eapply J_frame; [|exact Hj]. apply (frame_trans E k s (pushed E s k' v)); [apply frame_pushed_other; exact N|].
        apply frame_append_other; [apply same_file_other; auto|cbn; auto].
    + destruct (farthest s) as [[f fd]|] eqn:Ef.
      * destruct (fd <? e_dist E k') eqn:Far.
        -- (* refused *)
           cbn [fst snd existsb andb]. rewrite orb_false_r. destruct (keyb k k') eqn:Ek; [exact I|].
           assert (N : k <> k') by (intros ->; rewrite keyb_refl in Ek; discriminate).
           eapply J_frame; [|exact Hj].
           apply (frame_trans E k s (pushed E s k' v)); [apply frame_pushed_other; exact N|].
           apply frame_set_cache. intros x Hin. apply (in_aremove keyb keyb_eq) in Hin. tauto.
        -- (* accepted, the farthest record f is evicted *)
           cbn [fst snd existsb]. rewrite orb_false_r. destruct (keyb k k') eqn:Ek.
           ++ apply keyb_eq in Ek; subst k'. apply J_after_write.
              intros x Hin. unfold remove in Hin; sproj.
              apply (in_aremove keyb keyb_eq) in Hin as [Hin _].
              apply pushed_cache in Hin as [[N _]|[_ ->]]; congruence.
           ++ assert (N : k <> k') by (intros ->; rewrite keyb_refl in Ek; discriminate).
              destruct (keyb k f) eqn:Ekf.
              ** apply keyb_eq in Ekf; subst f. cbn [andb].
                 eapply J_frame; [apply frame_append_other; [apply same_file_other; auto|cbn; auto]|].
                 pose proof (J_remove_same E (pushed E s k' v) k risk) as H1. exact H1.
              ** assert (Nf : k <> f) by (intros ->; rewrite keyb_refl in Ekf; discriminate).
                 cbn [andb]. rewrite orb_false_r.
                 eapply J_frame; [|exact Hj]. apply (frame_trans E k s (pushed E s k' v)); [apply frame_pushed_other; exact N|].
                 eapply frame_trans; [apply (frame_remove_other E k (pushed E s k' v) f Nf)|].
                 apply frame_append_other; [apply same_file_other; auto|cbn; auto].
      * (* at capacity with no farthest record (capacity 0) *)
        cbn [fst snd existsb andb]. rewrite orb_false_r. destruct (keyb k k') eqn:Ek.
        -- apply keyb_eq in Ek; subst k'. apply J_after_write.
           intros x Hin. apply pushed_cache in Hin as [[N _]|[_ ->]]; congruence.
        -- assert (N : k <> k') by (intros ->; rewrite keyb_refl in Ek; discriminate).
           eapply J_frame; [|exact Hj]. apply (frame_trans E k s (pushed E s k' v)); [apply frame_pushed_other; exact N|].
           apply frame_append_other; [apply same_file_other; auto|cbn; auto].
Qed.

(* ------------------------------------------------------------------ one step, then whole histories *)
Lemma J_deliver E s j k cur risk : J E s k cur risk ->
  J E (deliver E s j) k (cur_step E s (ODeliver j) k cur) (risk_step E s (ODeliver j) k risk).
Proof.
  intros Hj. unfold cur_step, risk_step, deliver. cbn [put_event removed_by].
  destruct (nth_error (chan s) j) as [n|] eqn:Nt.
  2:{ cbn [existsb andb]. now rewrite orb_false_r. }
  destruct n as [k' t|k'].
  - cbn [existsb andb]. rewrite orb_false_r. destruct (keyb k k') eqn:Ek.
    + apply keyb_eq in Ek; subst k'.
      assert (U : unacked s k = true).
      { unf. rewrite (existsb_nth (notif_stored_for k) j _ _ Nt); [now rewrite orb_true_r|].
        cbn. apply keyb_refl. }
      unfold J in *. destruct cur as [[v| |]|]; auto.
      * destruct Hj as [C R]. split; [exact C|]. destruct (write_ok k).
        -- destruct R as [F _]. split; [exact F|]. left. apply contains_mark_same.
        -- revert R. unf. unfold mark_as_stored, set_chan; sproj.
           rewrite (existsb_remove_nth_other (notif_failed_for k) j _ _ Nt); auto.
      * destruct Hj as (C & F & R). split; [exact C|]. split; [exact F|].
        intros Hr. destruct (R Hr) as [_ U']. congruence.
    + assert (N : k <> k') by (intros ->; rewrite keyb_refl in Ek; discriminate).
      eapply J_frame; [|exact Hj].
      eapply frame_trans; [apply (frame_chan_remove E k s j _ Nt); cbn; auto|].
      apply frame_mark_other; auto.
  - cbn [existsb]. rewrite orb_false_r. destruct (keyb k k') eqn:Ek.
    + apply keyb_eq in Ek; subst k'. cbn [andb].
      pose proof (J_remove_same E (set_chan s (remove_nth j (chan s))) k risk) as H1.
      eapply J_risk_eq; [|exact H1]. f_equal. unf. unfold set_chan; sproj.
      now rewrite (existsb_remove_nth_other (notif_stored_for k) j _ _ Nt).
    + assert (N : k <> k') by (intros ->; rewrite keyb_refl in Ek; discriminate).
      cbn [andb]. rewrite orb_false_r. eapply J_frame; [|exact Hj].
      eapply frame_trans; [apply (frame_chan_remove E k s j _ Nt); cbn; auto|].
      apply frame_remove_other; auto.
Qed.

Lemma frame_pay E k s : Frame E k s (pay s).
Proof.
  fr_start; auto; unfold pay; sproj.
  - rewrite filter_app. cbn [filter]. rewrite same_file_flush. now rewrite app_nil_r.
  - rewrite existsb_app. cbn [existsb wr_of]. bools. auto.
  - rewrite existsb_app. cbn [existsb wr_of]. bools. auto.
  - rewrite existsb_app. cbn [existsb fail_of]. bools. auto.
Qed.

Lemma J_step E s o k cur risk : is_crash o = false -> J E s k cur risk ->
  J E (fst (step E s o)) k (cur_step E s o k cur) (risk_step E s o k risk).
Proof.
  intros Nc Hj. destruct o as [k' v t|k' v|k'|k'|i|j|d| | |k'|tears]; try discriminate;
    unfold cur_step, risk_step; cbn [step put_event removed_by].
  - pose proof (J_put E s k' v t k cur risk Hj) as P.
    destruct (put_verified E s k' v t) as [p s'] eqn:Ep. exact P.
  - destruct (local_type E v) as [t|].
    + pose proof (J_put E s k' v t k cur risk Hj) as P.
      destruct (put_verified E s k' v t) as [p s'] eqn:Ep. destruct (path_ok p); exact P.
    + cbn [existsb andb fst]. now rewrite orb_false_r.
  - cbn [existsb fst]. rewrite orb_false_r. destruct (keyb k k') eqn:Ek.
    + apply keyb_eq in Ek; subst k'. cbn [andb]. apply J_remove_same.
    + assert (N : k <> k') by (intros ->; rewrite keyb_refl in Ek; discriminate).
      cbn [andb]. rewrite orb_false_r. eapply J_frame; [|exact Hj]. apply frame_remove_other; auto.
  - cbn [existsb andb fst]. now rewrite orb_false_r.
  - cbn [existsb andb fst]. rewrite orb_false_r. eapply J_frame; [|exact Hj]. apply frame_run_task.
  - apply J_deliver; auto.
  - cbn [existsb andb fst]. rewrite orb_false_r. exact Hj.
  - cbn [fst]. unfold cleanup. destruct (len (idx s) <? cleanup_threshold).
    + cbn [existsb andb]. now rewrite orb_false_r.
    + destruct (range s) as [r|].
      * apply J_fold_remove; auto.
      * cbn [existsb andb]. now rewrite orb_false_r.
  - cbn [existsb andb fst]. rewrite orb_false_r. eapply J_frame; [|exact Hj]. apply frame_pay.
  - cbn [existsb andb fst]. now rewrite orb_false_r.
Qed.

Lemma last_from_cons E s o r k cur :
  last_from E s (o :: r) k cur = last_from E (fst (step E s o)) r k (cur_step E s o k cur).
Proof.
  cbn [last_from]. unfold cur_step. destruct (put_event E s o k); reflexivity.
Qed.

Lemma J_run E k : forall ops s cur risk, existsb is_crash ops = false -> J E s k cur risk ->
  J E (run E ops s) k (last_from E s ops k cur) (risk || relist_risk E s ops k).
Proof.
  induction ops as [|o r IH]; intros s cur risk Nc Hj.
  - cbn. now rewrite orb_false_r.
  - cbn [existsb] in Nc. apply orb_false_iff in Nc as [Nc1 Nc2].
    rewrite last_from_cons. cbn [run fold_left relist_risk].
    pose proof (J_step E s o k cur risk Nc1 Hj) as H1.
    specialize (IH _ _ _ Nc2 H1). unfold risk_step in IH. unfold run in IH.
    eapply J_risk_eq; [|exact IH]. now rewrite orb_assoc.
Qed.

(* C01, second sentence *)
Lemma settled_reads_latest_lemma E : dec_enc E -> forall ops k,
  existsb is_crash ops = false ->
  settled (run E ops (init E)) = true ->
  match last_from E (init E) ops k None with
  | Some (LPut v) => get E (run E ops (init E)) k = Some v /\ contains (run E ops (init E)) k = true
  | Some LRemoved => get E (run E ops (init E)) k = None
                     /\ (relist_risk E (init E) ops k = false -> contains (run E ops (init E)) k = false)
  | _ => True
  end.
Proof.
  intros DE ops k Nc St.
  pose proof (J_run E k ops (init E) None false Nc I) as Hj. cbn [orb] in Hj.
  set (s := run E ops (init E)) in *.
  unfold settled in St. destruct (tasks s) eqn:Ts; [|discriminate]. destruct (chan s) eqn:Cs; [|discriminate].
  assert (FF : final_file E s k = flookup (fname k) (files s)).
  { unfold final_file, ftasks. rewrite Ts. reflexivity. }
  assert (UU : unacked s k = false). { unf. rewrite Ts, Cs. reflexivity. }
  assert (PF : pending_fail s k = false). { unfold pending_fail. rewrite Ts, Cs. reflexivity. }
  destruct (last_from E (init E) ops k None) as [[v| |]|]; auto; unfold J in Hj.
  - destruct Hj as [C R]. destruct (write_ok k); [|congruence].
    destruct R as [F [L|L]]; [|congruence]. split; [|exact L].
    unfold get. destruct (klookup k (cache s)) as [v0|] eqn:Ec.
    + apply (alookup_in keyb keyb_eq) in Ec. now rewrite (C _ Ec).
    + unfold contains in L. destruct (klookup k (idx s)); [|discriminate].
      rewrite <- FF, F. now apply read_file_bytes.
  - destruct Hj as (C & F & R). split.
    + unfold get. destruct (klookup k (cache s)) as [v0|] eqn:Ec.
      * apply (alookup_in keyb keyb_eq) in Ec. exfalso. eapply C; eauto.
      * destruct (klookup k (idx s)); [|reflexivity]. now rewrite <- FF, F.
    + intros Hr. apply R; auto.
Qed.

(* ------------------------------------------------------------------ F13: the refuted full statement *)
Definition demo_env : env :=
  mkEnv (fun k => slen k) (fun v => len v) toy_enc toy_dec true [18; 32; 1; 2] 4 3.

Definition relist_witness : list op :=
  [OPut "k"%string [145; 1; 7] RChunk; ORemove "k"%string; ORun 0; ORun 0; ORun 0; ORun 0; ODeliver 0].

(* put k; remove k; every task runs; the late notification arrives: k is listed but unreadable *)
Lemma late_notification_relists_refuted_lemma :
  exists E ops k, cipher_ok E /\ existsb is_crash ops = false /\
    settled (run E ops (init E)) = true /\
    last_from E (init E) ops k None = Some LRemoved /\
    contains (run E ops (init E)) k = true /\ get E (run E ops (init E)) k = None /\
    relist_risk E (init E) ops k = true.
Proof.
  exists demo_env, relist_witness, "k"%string. split.
  - split; intros n v; [apply toy_dec_enc|apply toy_dec_prefix].
  - vm_compute. repeat split; reflexivity.
Qed.

(* non-vacuity: a settled history with an overwrite, an explicit removal and an eviction in which
   both clauses of the theorem speak *)
Definition settled_example : list op :=
  [OPut "a"%string [145; 1; 1] RChunk; ORun 0; ORun 0; ORun 0; ODeliver 0;
   OPut "a"%string [145; 1; 2] RChunk; OPut "bb"%string [145; 5; 9] RScratchpad; ORun 0; ORun 0; ORun 0; ORun 0;
   ODeliver 1; ODeliver 0; ORemove "bb"%string; ORun 0].

Example settled_example_ok :
  existsb is_crash settled_example = false /\
  settled (run demo_env settled_example (init demo_env)) = true /\
  last_from demo_env (init demo_env) settled_example "a"%string None = Some (LPut [145; 1; 2]) /\
  last_from demo_env (init demo_env) settled_example "bb"%string None = Some LRemoved /\
  relist_risk demo_env (init demo_env) settled_example "bb"%string = false /\
  get demo_env (run demo_env settled_example (init demo_env)) "a"%string = Some [145; 1; 2] /\
  contains (run demo_env settled_example (init demo_env)) "bb"%string = false.
Proof. vm_compute. repeat split; reflexivity. Qed.

(* ------------------------------------------------------------------ after the repair of put_verified:
   what the store serves is held, or a write of it (or the notification of its outcome) is pending *)
Definition Live (s : state) : Prop :=
  forall k v, In (k, v) (cache s) -> contains s k = true \/ in_flight s k = true.

Lemma in_flight_eq s k : in_flight s k = existsb (task_for k) (tasks s) || existsb (notif_for k) (chan s).
Proof. reflexivity. Qed.

Lemma contains_remove_other E s k k' : k <> k' -> contains (remove E s k') k = contains s k.
Proof. intros N. unfold contains, remove; sproj. now rewrite contains_kremove_other. Qed.

Lemma in_flight_remove E s k k' : in_flight (remove E s k') k = in_flight s k.
Proof. rewrite !in_flight_eq. unfold remove; sproj. rewrite existsb_app. cbn [existsb task_for]. now bools. Qed.

Lemma live_remove E s k' : Live s -> Live (remove E s k').
Proof.
  intros L k v Hin. assert (Hin' := Hin). unfold remove in Hin; sproj.
  apply (in_aremove keyb keyb_eq) in Hin as [Hin N]. cbn [fst] in N.
  rewrite contains_remove_other by auto. rewrite in_flight_remove. eauto.
Qed.

Lemma live_fold_remove E ks : forall s, Live s -> Live (fold_left (remove E) ks s).
Proof. induction ks as [|k ks IH]; cbn; auto. intros s L. apply IH. now apply live_remove. Qed.

Lemma live_sub s c : Live s -> (forall x, In x c -> In x (cache s)) -> Live (set_cache s c).
Proof. intros L Hc k v Hin. apply (L k v). now apply Hc. Qed.

Lemma live_put E s k' v t : Live s -> Live (snd (put_verified E s k' v t)).
Proof.
  intros L. destruct (put_verified_cases E s k' v t) as [[Ec ->]| ->].
  - cbn [snd]. intros k x Hin. apply pushed_cache in Hin as [[_ Hin]|[-> ->]]; [exact (L _ _ Hin)|].
    apply (L k' v). now apply (alookup_in keyb keyb_eq).
  - unfold put_slow, prune. rewrite !pushed_idx, !pushed_farthest.
    assert (New : forall s2 : state, (forall k x, In (k, x) (cache s2) -> (k <> k' /\ (contains s2 k = true \/ in_flight s2 k = true)) \/ k = k') ->
                  Live (set_tasks s2 (tasks s2 ++ [TWrite k' v t]))).
    { intros s2 H2 k x Hin. change (cache (set_tasks s2 (tasks s2 ++ [TWrite k' v t]))) with (cache s2) in Hin.
      change (contains (set_tasks s2 (tasks s2 ++ [TWrite k' v t])) k) with (contains s2 k).
      rewrite in_flight_eq. unfold set_tasks; sproj. rewrite existsb_app. cbn [existsb task_for].
      destruct (H2 _ _ Hin) as [[_ [C|F]]| ->].
      - now left.
      - right. rewrite in_flight_eq in F. apply orb_true_iff in F as [F|F]; rewrite F; [reflexivity|now rewrite orb_true_r].
      - right. rewrite keyb_refl. now rewrite !orb_true_r. }
    assert (Old : forall k x, In (k, x) (cache (pushed E s k' v)) ->
                  (k <> k' /\ (contains (pushed E s k' v) k = true \/ in_flight (pushed E s k' v) k = true)) \/ k = k').
    { intros k x Hin. apply pushed_cache in Hin as [[N Hin]|[-> _]]; [left; split; auto; exact (L _ _ Hin)|now right]. }
    destruct (len (idx s) <? e_max_records E); cbn [snd].
    + apply New. exact Old.
    + destruct (farthest s) as [[f fd]|]; cbn [snd].
      * destruct (fd <? e_dist E k'); cbn [snd].
        -- (* refused: the entry is taken out again *)
           intros k x Hin. unfold set_cache in Hin; sproj. apply (in_aremove keyb keyb_eq) in Hin as [Hin N].
           cbn [fst] in N. apply pushed_cache in Hin as [[_ Hin]|[-> _]]; [exact (L _ _ Hin)|congruence].
        -- apply New. intros k x Hin. unfold remove in Hin; sproj.
           apply (in_aremove keyb keyb_eq) in Hin as [Hin N]. cbn [fst] in N.
           destruct (Old _ _ Hin) as [[N' H]| ->]; [|now right]. left. split; auto.
           rewrite contains_remove_other by auto. now rewrite in_flight_remove.
      * apply New. exact Old.
Qed.

Lemma existsb_mono_remove_nth {A} (p : A -> bool) i ts t :
  nth_error ts i = Some t -> existsb p ts = true -> p t = true \/ existsb p (remove_nth i ts) = true.
Proof. intros Nt H. rewrite (existsb_split p i _ _ Nt) in H. apply orb_true_iff in H. tauto. Qed.

Lemma in_flight_run_task E s i k : in_flight s k = true -> in_flight (run_task E s i) k = true.
Proof.
  intros F. unfold run_task. destruct (enabled (tasks s) i); auto.
  destruct (nth_error (tasks s) i) as [t|] eqn:Nt; auto.
  rewrite in_flight_eq in *. apply orb_true_iff in F.
  assert (T : existsb (task_for k) (tasks s) = true -> task_for k t = true \/ existsb (task_for k) (remove_nth i (tasks s)) = true)
    by apply (existsb_mono_remove_nth _ _ _ _ Nt).
  destruct t as [k' v ty|k'|n|c since]; cbn [exec_task].
  - destruct (write_ok k'); unfold set_tasks, set_files; sproj; rewrite existsb_app; cbn [existsb task_for notif_for];
      destruct F as [F|F]; try (rewrite F; now rewrite !orb_true_r);
      destruct (T F) as [Ht|Hr]; cbn [task_for] in *; try rewrite Ht; try rewrite Hr; cbn; auto; now rewrite ?orb_true_r.
  - unfold set_tasks, set_files; sproj. destruct F as [F|F]; [|rewrite F; now rewrite orb_true_r].
    destruct (T F) as [Ht|Hr]; [discriminate|now rewrite Hr].
  - unfold set_tasks, set_chan; sproj. rewrite existsb_app. cbn [existsb].
    destruct F as [F|F]; [|rewrite F; now rewrite !orb_true_r].
    destruct (T F) as [Ht|Hr]; [cbn [task_for] in Ht; rewrite Ht; now rewrite !orb_true_r|now rewrite Hr].
  - unfold set_tasks; sproj. destruct F as [F|F]; [|rewrite F; now rewrite orb_true_r].
    destruct (T F) as [Ht|Hr]; [discriminate|now rewrite Hr].
Qed.

Lemma live_run_task E s i : Live s -> Live (run_task E s i).
Proof.
  intros L k v Hin.
  assert (Hc : cache (run_task E s i) = cache s /\ contains (run_task E s i) k = contains s k).
  { unfold run_task. destruct (enabled (tasks s) i); auto. destruct (nth_error (tasks s) i) as [t|]; auto.
    destruct t as [k' v' ty|k'|n|c since]; cbn [exec_task]; auto. destruct (write_ok k'); auto. }
  destruct Hc as [Hc1 Hc2]. rewrite Hc1 in Hin. rewrite Hc2. destruct (L _ _ Hin) as [C|F]; auto.
  right. now apply in_flight_run_task.
Qed.

Lemma live_deliver E s j : Live s -> Live (deliver E s j).
Proof.
  intros L. unfold deliver. destruct (nth_error (chan s) j) as [n|] eqn:Nt; auto.
  assert (L1 : forall k v, In (k, v) (cache s) -> notif_for k n = false ->
               contains (set_chan s (remove_nth j (chan s))) k = true \/ in_flight (set_chan s (remove_nth j (chan s))) k = true).
  { intros k v Hin Nf. destruct (L _ _ Hin) as [C|F]; [now left|right].
    rewrite in_flight_eq in *. unfold set_chan; sproj.
    now rewrite (existsb_remove_nth_other (notif_for k) j _ _ Nt Nf). }
  destruct n as [k' t|k'].
  - intros k v Hin. change (cache (mark_as_stored E (set_chan s (remove_nth j (chan s))) k' t)) with (cache s) in Hin.
    destruct (keyb k k') eqn:Ek.
    + apply keyb_eq in Ek; subst. left. apply contains_mark_same.
    + assert (N : k <> k') by (intros ->; rewrite keyb_refl in Ek; discriminate).
      destruct (L1 _ _ Hin Ek) as [C|F].
      * left. revert C. unfold contains, mark_as_stored; sproj. unfold klookup, kinsert.
        now rewrite (alookup_ainsert_other keyb keyb_eq).
      * now right.
  - intros k v Hin. unfold remove in Hin; sproj. apply (in_aremove keyb keyb_eq) in Hin as [Hin N]. cbn [fst] in N.
    rewrite contains_remove_other by auto. rewrite in_flight_remove.
    apply (L1 _ _ Hin). cbn. apply keyb_neq; auto.
Qed.

Lemma live_step E s o : Live s -> Live (fst (step E s o)).
Proof.
  intros L. destruct o as [k v t|k v|k|k|i|j|d| | |k|tears]; cbn [step fst].
  - pose proof (live_put E s k v t L) as P. destruct (put_verified E s k v t); exact P.
  - destruct (local_type E v) as [t|]; [|exact L].
    pose proof (live_put E s k v t L) as P. destruct (put_verified E s k v t) as [p s']. destruct (path_ok p); exact P.
  - now apply live_remove.
  - exact L.
  - now apply live_run_task.
  - now apply live_deliver.
  - exact L.
  - unfold cleanup. destruct (len (idx s) <? cleanup_threshold); [exact L|]. destruct (range s); [|exact L].
    now apply live_fold_remove.
  - intros k v Hin. change (cache (pay s)) with (cache s) in Hin. change (contains (pay s) k) with (contains s k).
    destruct (L _ _ Hin) as [C|F]; auto. right. rewrite in_flight_eq in *. unfold pay; sproj.
    rewrite existsb_app. apply orb_true_iff in F as [F|F]; rewrite F; [reflexivity|now rewrite orb_true_r].
  - exact L.
  - intros k v []. 
Qed.

Lemma live_run E : forall ops s, Live s -> Live (run E ops s).
Proof. induction ops as [|o r IH]; intros s L; cbn [run fold_left]; auto. apply IH. now apply live_step. Qed.

(* whatever the history (crashes included): a served record is held, or a write of it is in flight *)
Lemma served_is_held_or_in_flight_lemma E ops k v :
  get E (run E ops (init E)) k = Some v ->
  contains (run E ops (init E)) k = true \/ in_flight (run E ops (init E)) k = true.
Proof.
  intros G. assert (L : Live (run E ops (init E))) by (apply live_run; intros k' v' []).
  unfold get in G. destruct (klookup k (cache (run E ops (init E)))) as [v0|] eqn:Ec.
  - apply (alookup_in keyb keyb_eq) in Ec. eauto.
  - left. unfold contains. destruct (klookup k (idx (run E ops (init E)))); [reflexivity|discriminate].
Qed.

(* a refused record is not served *)
Lemma refused_not_served_lemma E s k v t : contains s k = false ->
  fst (put_verified E s k v t) = PRefused ->
  klookup k (cache (snd (put_verified E s k v t))) = None /\ get E (snd (put_verified E s k v t)) k = None.
Proof.
  intros Nc. destruct (put_verified_cases E s k v t) as [[Ec ->]| ->]; [discriminate|].
  unfold put_slow, prune. rewrite !pushed_idx, !pushed_farthest.
  destruct (len (idx s) <? e_max_records E); [discriminate|].
  destruct (farthest s) as [[f fd]|]; [|discriminate].
  destruct (fd <? e_dist E k); [|discriminate]. intros _. cbn [snd].
  assert (C : klookup k (kremove k (cache (pushed E s k v))) = None)
    by apply (alookup_aremove_same keyb keyb_eq).
  split; [exact C|]. unfold get, set_cache; sproj. rewrite C.
  unfold contains in Nc. change (idx (pushed E s k v)) with (idx s). destruct (klookup k (idx s)); [discriminate|reflexivity].
Qed.

(* ------------------------------------------------------------------ no size gate on the verified path.
   The unverified RecordStore::put refuses values of max_value_bytes or more; put_verified does not look
   at the size at all, and neither does the disk path of get: whether a validated record is accepted
   depends on the key (capacity, distance) only, never on the value -- apart from the same-value
   shortcut -- and an accepted one of ANY length is readable (settled_reads_latest has no size premise). *)
Lemma put_verified_has_no_size_gate_lemma E s k v v' t t' :
  klookup k (cache s) <> Some v -> klookup k (cache s) <> Some v' ->
  fst (put_verified E s k v t) = fst (put_verified E s k v' t').
Proof.
  intros Nv Nv'.
  destruct (put_verified_cases E s k v t) as [[Ec _]| ->]; [congruence|].
  destruct (put_verified_cases E s k v' t') as [[Ec _]| ->]; [congruence|].
  unfold put_slow, prune. rewrite !pushed_idx, !pushed_farthest.
  destruct (len (idx s) <? e_max_records E); [reflexivity|].
  destruct (farthest s) as [[f fd]|]; [|reflexivity].
  destruct (fd <? e_dist E k); reflexivity.
Qed.

Lemma disk_read_has_no_size_gate_lemma E s k v : dec_enc E ->
  klookup k (cache s) = None -> contains s k = true ->
  flookup (fname k) (files s) = Some (file_bytes E k v) -> get E s k = Some v.
Proof.
  intros DE Hc Hi Hf. unfold get. rewrite Hc. unfold contains in Hi.
  destruct (klookup k (idx s)); [|discriminate]. rewrite Hf. now apply read_file_bytes.
Qed.
