(* Proofs about model/Closeness.v (C11). *)
From Coq Require Import List NArith String Ascii Bool Lia Permutation Sorted Arith ZifyBool ZifyNat ZifyN.
From V Require Import lib.Strs lib.Dec lib.XorMetric lib.Sha256 gen.Consts model.Closeness.
Import ListNotations.
Open Scope N_scope.

(* the source constant the statements mention *)
Lemma close_group_size_pinned : CLOSE_GROUP_SIZE = 5.
Proof. reflexivity. Qed.

(* ================================================================== convert_distance_to_u256 *)

Lemma strip_prefix_app p s : strip_prefix p (p ++ s) = Some s.
Proof.
  induction p as [|a p IH]; cbn [strip_prefix append]; [reflexivity|].
  rewrite Ascii.eqb_refl. exact IH.
Qed.

Lemma dec_head n : exists c r, dec n = String c r /\ is_digit c = true /\ all_digits r = true.
Proof.
  pose proof (dec_nonempty n) as Hne. pose proof (dec_digits n) as Hd.
  destruct (dec n) as [|c r]; [congruence|].
  cbn [all_digits] in Hd. apply andb_prop in Hd as [Hc Hr]. eauto.
Qed.

Lemma digit_not_D c : is_digit c = true -> Ascii.eqb "D" c = false.
Proof.
  intros Hc. destruct (Ascii.eqb_spec "D"%char c) as [<-|]; [|reflexivity].
  vm_compute in Hc. discriminate.
Qed.

Lemma digit_not_paren c : is_digit c = true -> Ascii.eqb c ")" = false.
Proof.
  intros Hc. destruct (Ascii.eqb_spec c ")"%char) as [->|]; [|reflexivity].
  vm_compute in Hc. discriminate.
Qed.

Lemma trim_start_debug d :
  trim_start_matches "Distance(" (debug_distance d) = (dec d ++ ")")%string.
Proof.
  unfold trim_start_matches, debug_distance.
  destruct (dec_head d) as (c & r & E & Hc & Hr). rewrite E.
  cbn [append String.length trim_start_fuel].
  change (strip_prefix "Distance(" (String "D" (String "i" (String "s" (String "t" (String "a"
          (String "n" (String "c" (String "e" (String "(" (String c (r ++ ")"))))))))))))
    with (Some (String c (r ++ ")"))%string).
  cbn iota.
  destruct (String.length r + 1)%nat eqn:El.
  - cbn [trim_start_fuel]. cbn [strip_prefix]. rewrite (digit_not_D c Hc). reflexivity.
  - cbn [trim_start_fuel strip_prefix]. rewrite (digit_not_D c Hc). reflexivity.
Qed.

Lemma trim_end_digits s : all_digits s = true -> trim_end_char ")" s = s.
Proof.
  induction s as [|a r IH]; intros Hd; [reflexivity|].
  cbn [all_digits] in Hd. apply andb_prop in Hd as [Ha Hr].
  cbn [trim_end_char]. rewrite (IH Hr).
  destruct r; [rewrite (digit_not_paren a Ha); reflexivity|reflexivity].
Qed.

Lemma trim_end_digits_paren s : all_digits s = true ->
  trim_end_char ")" (s ++ ")") = s.
Proof.
  induction s as [|a r IH]; intros Hd; [reflexivity|].
  cbn [all_digits] in Hd. apply andb_prop in Hd as [Ha Hr].
  cbn [append trim_end_char]. rewrite (IH Hr).
  destruct r; [rewrite (digit_not_paren a Ha); reflexivity|reflexivity].
Qed.

Lemma classify_digit c : is_digit c = true -> classify c = DVal (digit_val c).
Proof.
  unfold is_digit, classify, digit_val. intros Hc. rewrite Hc. reflexivity.
Qed.

Lemma parse_radix_digits s : forall acc, all_digits s = true -> val_acc acc s < U256 ->
  parse_radix 10 acc s = Some (val_acc acc s).
Proof.
  induction s as [|c r IH]; intros acc Hd Hv; [reflexivity|].
  cbn [all_digits] in Hd. apply andb_prop in Hd as [Hc Hr].
  cbn [parse_radix val_acc] in *. rewrite (classify_digit c Hc).
  pose proof (is_digit_range c Hc) as Hlt.
  destruct (N.leb_spec 10 (digit_val c)) as [Hbad|_]; [lia|].
  pose proof (val_acc_shift (acc * 10 + digit_val c) r) as Hs.
  assert (Hpow : 1 <= 10 ^ slen r).
  { assert (10 ^ slen r <> 0) by (apply N.pow_nonzero; discriminate). lia. }
  assert (Hge : acc * 10 + digit_val c <= val_acc (acc * 10 + digit_val c) r) by nia.
  destruct (N.leb_spec U256 (acc * 10 + digit_val c)) as [Hov|_]; [lia|].
  apply IH; assumption.
Qed.

Lemma digit_not_prefix_letter c : is_digit c = true ->
  (Ascii.eqb c "x" || Ascii.eqb c "X" = false) /\ (Ascii.eqb c "o" || Ascii.eqb c "O" = false) /\
  (Ascii.eqb c "b" || Ascii.eqb c "B" = false).
Proof.
  intros Hc.
  repeat split; apply orb_false_intro;
    match goal with |- Ascii.eqb c ?k = false =>
      destruct (Ascii.eqb_spec c k) as [->|]; [vm_compute in Hc; discriminate|reflexivity] end.
Qed.

Lemma u256_from_str_digits s : all_digits s = true -> u256_from_str s = parse_radix 10 0 s.
Proof.
  intros Hd. unfold u256_from_str.
  destruct s as [|c0 [|c1 r]]; try reflexivity.
  destruct (Ascii.eqb c0 "0"); [|reflexivity].
  cbn [all_digits] in Hd. apply andb_prop in Hd as [_ Hd]. apply andb_prop in Hd as [H1 _].
  destruct (digit_not_prefix_letter c1 H1) as (E1 & E2 & E3). rewrite E1, E2, E3. reflexivity.
Qed.

(* the string round trip is the identity on every 256-bit value: the zero fallback is dead code *)
Lemma convert_is_identity_lemma d : d < 2 ^ 256 -> convert_distance_to_u256 d = d.
Proof.
  intros Hd. unfold convert_distance_to_u256.
  rewrite trim_start_debug, (trim_end_digits_paren _ (dec_digits d)).
  rewrite (u256_from_str_digits _ (dec_digits d)).
  rewrite parse_radix_digits.
  - fold (val (dec d)). apply val_dec.
  - apply dec_digits.
  - fold (val (dec d)). rewrite val_dec. exact Hd.
Qed.

(* outside 256 bits (never produced by a KBucketDistance) the fallback would fire *)
Example convert_overflow_falls_back : convert_distance_to_u256 (2 ^ 256) = 0.
Proof. vm_compute. reflexivity. Qed.

Example convert_examples :
  convert_distance_to_u256 0 = 0 /\ convert_distance_to_u256 1 = 1 /\
  convert_distance_to_u256 (2 ^ 256 - 1) = 2 ^ 256 - 1 /\
  debug_distance 1234 = "Distance(1234)"%string.
Proof. vm_compute. repeat split; reflexivity. Qed.

(* ================================================================== the metric *)

Section Metric.
  Variable H : bytes -> N.
  Hypothesis H_bound : forall x, H x < 2 ^ 256.

  Lemma dist_sym_lemma a b : distance H a b = distance H b a.
  Proof. apply N.lxor_comm. Qed.

  Lemma dist_zero_iff_lemma a b : distance H a b = 0 <-> H (as_bytes a) = H (as_bytes b).
  Proof. apply N.lxor_eq_0_iff. Qed.

  (* a zero distance between different address bytes is a collision of the digest *)
  Lemma dist_zero_equal_or_collision a b : distance H a b = 0 ->
    as_bytes a = as_bytes b \/ (as_bytes a <> as_bytes b /\ H (as_bytes a) = H (as_bytes b)).
  Proof.
    intros E. apply dist_zero_iff_lemma in E.
    destruct (list_eq_dec N.eq_dec (as_bytes a) (as_bytes b)) as [Eq|Ne]; [left; exact Eq|right; split; [exact Ne|exact E]].
  Qed.

  Lemma dist_zero_of_equal_bytes a b : as_bytes a = as_bytes b -> distance H a b = 0.
  Proof. intros E. unfold distance, kbucket_key. rewrite E. apply N.lxor_nilpotent. Qed.

  Lemma dist_bound_lemma a b : distance H a b < 2 ^ 256.
  Proof. apply lxor_lt_pow2; apply H_bound. Qed.

  Lemma dist_triangle_lemma a b c : distance H a c <= distance H a b + distance H b c.
  Proof. apply (xdist_triangle addr (kbucket_key H)). Qed.

  Lemma record_key_form_bytes a : as_bytes (from_record_key (to_record_key a)) = as_bytes a.
  Proof. destruct a; reflexivity. Qed.

  Lemma dist_form_independent_lemma a b :
    distance H (from_record_key (to_record_key a)) (from_record_key (to_record_key b)) = distance H a b /\
    distance H a (from_record_key (to_record_key b)) = distance H a b /\
    distance H (from_record_key (to_record_key a)) b = distance H a b.
  Proof.
    unfold distance, kbucket_key. rewrite !record_key_form_bytes. repeat split; reflexivity.
  Qed.

  Lemma distance_u256_exact a b : distance_u256 H a b = distance H a b.
  Proof. apply convert_is_identity_lemma, dist_bound_lemma. Qed.

  Lemma key_peer_distance_lt kd p : kd < 2 ^ 256 -> key_peer_distance H kd p < 2 ^ 256.
  Proof. intros Hk. apply lxor_lt_pow2; [exact Hk|apply H_bound]. Qed.

  (* ================================================================ sort_peers_by_* *)

  Lemma sort_ok_inv peers kd n l : sort_peers_by_key H peers kd n = SortOk l ->
    CLOSE_GROUP_SIZE <= N.of_nat (List.length peers) /\
    l = firstn (N.to_nat n) (sort_by (key_peer_distance H kd) peers).
  Proof.
    unfold sort_peers_by_key.
    destruct (N.ltb_spec (N.of_nat (List.length peers)) CLOSE_GROUP_SIZE) as [Hlt|Hge]; [discriminate|].
    intros E. injection E as <-. split; [exact Hge|rewrite sort_on_eq; reflexivity].
  Qed.

  Lemma sort_sorted_lemma peers kd n l : sort_peers_by_key H peers kd n = SortOk l ->
    sorted_by (key_peer_distance H kd) l.
  Proof.
    intros E. apply sort_ok_inv in E as [_ ->]. apply sorted_firstn, sort_by_sorted.
  Qed.

  (* the result together with what was cut off is a rearrangement of the input, and nothing cut
     off is closer than anything returned *)
  Lemma sort_perm_lemma peers kd n l : sort_peers_by_key H peers kd n = SortOk l ->
    exists rest, Permutation (l ++ rest) peers /\
      (forall x y, In x l -> In y rest -> key_peer_distance H kd x <= key_peer_distance H kd y) /\
      (N.of_nat (List.length peers) <= n -> rest = []).
  Proof.
    intros E. apply sort_ok_inv in E as [_ ->].
    exists (skipn (N.to_nat n) (sort_by (key_peer_distance H kd) peers)).
    split; [rewrite firstn_skipn; apply sort_by_perm|].
    split; [apply sorted_firstn_le_skipn, sort_by_sorted|].
    intros Hn. apply skipn_all2. rewrite sort_by_length. lia.
  Qed.

  (* the result is the first n entries of THE stable ascending arrangement of the peers: any
     list that is ascending by distance and keeps peers of equal distance in input order (what
     Rust's stable sort_by produces) has the result as its n-prefix *)
  Lemma sort_prefix_lemma peers kd n l : sort_peers_by_key H peers kd n = SortOk l ->
    forall full, sorted_by (key_peer_distance H kd) full ->
      (forall d, keyed (key_peer_distance H kd) d full = keyed (key_peer_distance H kd) d peers) ->
      l = firstn (N.to_nat n) full.
  Proof.
    intros E full Hs Hk. apply sort_ok_inv in E as [_ ->].
    rewrite (sort_by_unique _ peers full Hs Hk). reflexivity.
  Qed.

  Lemma sort_length_lemma peers kd n l : sort_peers_by_key H peers kd n = SortOk l ->
    N.of_nat (List.length l) = N.min n (N.of_nat (List.length peers)).
  Proof.
    intros E. apply sort_ok_inv in E as [_ ->].
    rewrite firstn_length, sort_by_length. lia.
  Qed.

  Lemma sort_error_iff_lemma peers kd n f r :
    sort_peers_by_key H peers kd n = NotEnoughPeers f r <->
    N.of_nat (List.length peers) < CLOSE_GROUP_SIZE /\ f = N.of_nat (List.length peers) /\ r = CLOSE_GROUP_SIZE.
  Proof.
    unfold sort_peers_by_key.
    destruct (N.ltb_spec (N.of_nat (List.length peers)) CLOSE_GROUP_SIZE) as [Hlt|Hge].
    - split; [intros E; injection E as <- <-; auto|intros (_ & -> & ->); reflexivity].
    - split; [discriminate|intros (Hlt & _); lia].
  Qed.

  (* when enough peers are known the call returns exactly the n nearest, ascending *)
  Lemma sort_returns_n_nearest peers kd n : CLOSE_GROUP_SIZE <= N.of_nat (List.length peers) ->
    n <= N.of_nat (List.length peers) ->
    exists l rest, sort_peers_by_key H peers kd n = SortOk l /\ N.of_nat (List.length l) = n /\
      sorted_by (key_peer_distance H kd) l /\ Permutation (l ++ rest) peers /\
      forall x y, In x l -> In y rest -> key_peer_distance H kd x <= key_peer_distance H kd y.
  Proof.
    intros Hc Hn.
    destruct (sort_peers_by_key H peers kd n) as [l|f r] eqn:E.
    - destruct (sort_perm_lemma _ _ _ _ E) as (rest & P & C & _).
      exists l, rest. split; [reflexivity|]. split; [rewrite (sort_length_lemma _ _ _ _ E); lia|].
      split; [apply (sort_sorted_lemma _ _ _ _ E)|]. split; assumption.
    - apply sort_error_iff_lemma in E. lia.
  Qed.

  (* "returns the requested number ... or reports that too few are known" *)
  Definition returns_requested_or_error (r : sort_res) (n : N) : Prop :=
    match r with
    | SortOk l => N.of_nat (List.length l) = n
    | NotEnoughPeers _ _ => True
    end.

  (* the known class (F17): enough peers for the close group, fewer than requested *)
  Definition KnownShortList (peers : list bytes) (n : N) : Prop :=
    CLOSE_GROUP_SIZE <= N.of_nat (List.length peers) /\ N.of_nat (List.length peers) < n.

  Lemma requested_or_error_outside_known peers kd n : ~ KnownShortList peers n ->
    returns_requested_or_error (sort_peers_by_key H peers kd n) n.
  Proof.
    intros Hk. unfold returns_requested_or_error.
    destruct (sort_peers_by_key H peers kd n) as [l|f r] eqn:E; [|exact I].
    pose proof (sort_length_lemma _ _ _ _ E) as Hl. apply sort_ok_inv in E as [Hge _].
    unfold KnownShortList in Hk. lia.
  Qed.

  Lemma requested_or_error_fails_inside_known peers kd n : KnownShortList peers n ->
    ~ returns_requested_or_error (sort_peers_by_key H peers kd n) n.
  Proof.
    intros [Hge Hlt]. unfold returns_requested_or_error.
    destruct (sort_peers_by_key H peers kd n) as [l|f r] eqn:E.
    - pose proof (sort_length_lemma _ _ _ _ E) as Hl. lia.
    - apply sort_error_iff_lemma in E. lia.
  Qed.

  (* ================================================================ range filters *)

  Lemma in_range_eq peers a r :
    get_peers_in_range H peers a r = filter (fun p => distance H a (from_peer p) <=? r) peers.
  Proof.
    unfold get_peers_in_range. apply filter_ext. intros p. rewrite distance_u256_exact. reflexivity.
  Qed.

  Lemma range_filter_exact_lemma peers a r p :
    In p (get_peers_in_range H peers a r) <-> In p peers /\ distance H a (from_peer p) <= r.
  Proof. rewrite in_range_eq, filter_In, N.leb_le. reflexivity. Qed.

  (* ================================================================ calculate_get_closest_peers *)

  Definition lift {M : Type} (pm : bytes * M) : addr * M := (from_peer (fst pm), snd pm).

  Lemma closest_range_eq {M} (pas : list (bytes * M)) target num v :
    calculate_get_closest_peers H pas target num (Some v) =
    map lift (filter (fun pm => distance H target (from_peer (fst pm)) <=? be_val v) pas).
  Proof.
    unfold calculate_get_closest_peers. destruct num; (f_equal; apply filter_ext; intros pm;
      rewrite distance_u256_exact; reflexivity).
  Qed.

  Lemma closest_peers_spec_lemma {M} (pas : list (bytes * M)) target num range :
    match range, num with
    | Some v, _ =>
        (* a range wins over a count: exactly the peers within it, in input order *)
        calculate_get_closest_peers H pas target num range =
          map lift (filter (fun pm => distance H target (from_peer (fst pm)) <=? be_val v) pas)
    | None, Some n =>
        let out := calculate_get_closest_peers H pas target num range in
        sorted_by (fun am => distance H target (fst am)) out /\
        N.of_nat (List.length out) = N.min n (N.of_nat (List.length pas)) /\
        (exists rest, Permutation (out ++ rest) (map lift pas) /\
           forall x y, In x out -> In y rest -> distance H target (fst x) <= distance H target (fst y)) /\
        (forall full, sorted_by (fun am => distance H target (fst am)) full ->
           (forall d, keyed (fun am => distance H target (fst am)) d full =
                      keyed (fun am => distance H target (fst am)) d (map lift pas)) ->
           out = firstn (N.to_nat n) full)
    | None, None => calculate_get_closest_peers H pas target num range = []
    end.
  Proof.
    destruct range as [v|]; [apply closest_range_eq|]. destruct num as [n|]; [|reflexivity].
    cbn zeta. unfold calculate_get_closest_peers. fold (@lift M). rewrite sort_on_eq.
    set (k := fun am : addr * M => distance H target (fst am)).
    split; [apply sorted_firstn, sort_by_sorted|].
    split; [rewrite firstn_length, sort_by_length, map_length; lia|].
    split.
    - exists (skipn (N.to_nat n) (sort_by k (map lift pas))).
      split; [rewrite firstn_skipn; apply sort_by_perm|].
      apply sorted_firstn_le_skipn, sort_by_sorted.
    - intros full Hs Hk. rewrite (sort_by_unique _ _ full Hs Hk). reflexivity.
  Qed.

  (* closest-peer selection by count has no error channel: with fewer peers than requested a
     short list is returned (same known class, F17) *)
  Lemma closest_count_length {M} (pas : list (bytes * M)) target n :
    N.of_nat (List.length (calculate_get_closest_peers H pas target (Some n) None)) =
    N.min n (N.of_nat (List.length pas)).
  Proof.
    unfold calculate_get_closest_peers. rewrite sort_on_eq, firstn_length, sort_by_length, map_length. lia.
  Qed.

  (* ================================================================ get_replicate_candidates *)

  Lemma filter_le_sorted_prefix {A} (key : A -> N) r l : sorted_by key l ->
    filter (fun x => key x <=? r) l = firstn (List.length (filter (fun x => key x <=? r) l)) l.
  Proof.
    intros Hs. induction Hs as [|x t Ht IH Hx]; [reflexivity|].
    cbn [filter]. destruct (N.leb_spec (key x) r) as [Hle|Hgt].
    - cbn [List.length firstn]. f_equal. exact IH.
    - assert (E : filter (fun y => key y <=? r) t = []).
      { clear IH Ht. induction Hx as [|y t' Hy _ IHt]; [reflexivity|].
        cbn [filter]. unfold key_le in Hy. destruct (N.leb_spec (key y) r); [lia|]. exact IHt. }
      rewrite E. reflexivity.
  Qed.

  Lemma candidates_eq closest target range :
    get_replicate_candidates H closest target range =
    match range with
    | Some r =>
        let in_range := filter (fun p => distance H target (from_peer p) <=? r) closest in
        if CLOSE_GROUP_SIZE <=? N.of_nat (List.length in_range) then in_range
        else firstn (N.to_nat CLOSE_GROUP_SIZE) closest
    | None => firstn (N.to_nat CLOSE_GROUP_SIZE) closest
    end.
  Proof. unfold get_replicate_candidates. destruct range; [rewrite in_range_eq|]; reflexivity. Qed.

  (* with the kademlia list ascending by distance to the target, the candidates are a prefix of
     it: every peer within the range if there are at least CLOSE_GROUP_SIZE of them, otherwise the
     CLOSE_GROUP_SIZE closest *)
  Lemma candidates_spec_lemma closest target range :
    sorted_by (fun p => distance H target (from_peer p)) closest ->
    let m := match range with
             | Some r => N.of_nat (List.length (filter (fun p => distance H target (from_peer p) <=? r) closest))
             | None => 0
             end in
    get_replicate_candidates H closest target range =
      firstn (N.to_nat (if CLOSE_GROUP_SIZE <=? m then m else CLOSE_GROUP_SIZE)) closest.
  Proof.
    intros Hs. cbn zeta. rewrite candidates_eq. destruct range as [r|].
    - cbn zeta.
      destruct (CLOSE_GROUP_SIZE <=? _); [|reflexivity].
      rewrite Nat2N.id. apply (filter_le_sorted_prefix (fun p => distance H target (from_peer p))). exact Hs.
    - reflexivity.
  Qed.

  Lemma kad_closest_sorted table target :
    sorted_by (fun p => distance H target (from_peer p)) (kad_closest_local_peers H table target) /\
    Permutation (kad_closest_local_peers H table target) table.
  Proof. unfold kad_closest_local_peers. rewrite sort_on_eq. split; [apply sort_by_sorted|apply sort_by_perm]. Qed.

  (* ================================================================ fetcher and record store *)

  Lemma fetcher_in_range_exact self_peer r keys a :
    In a (fetcher_in_range H self_peer (Some r) keys) <->
    In a keys /\ distance H (from_peer self_peer) a <= r.
  Proof.
    unfold fetcher_in_range. rewrite filter_In, distance_u256_exact, N.leb_le. reflexivity.
  Qed.

  Lemma fetcher_order_spec self_peer keys :
    sorted_by (fun k => distance H (from_peer self_peer) (from_record_key k)) (fetcher_order H self_peer keys) /\
    Permutation (fetcher_order H self_peer keys) keys.
  Proof. unfold fetcher_order. rewrite sort_on_eq. split; [apply sort_by_sorted|apply sort_by_perm]. Qed.

  (* ordering a typed address by its record key is ordering it by its own distance *)
  Lemma fetcher_key_distance self_peer a :
    distance H (from_peer self_peer) (from_record_key (to_record_key a)) =
    distance H (from_peer self_peer) a.
  Proof. apply dist_form_independent_lemma. Qed.

  Lemma insert_distinct_in d x l : In x (insert_distinct d l) <-> x = d \/ In x l.
  Proof.
    induction l as [|y r IH]; cbn [insert_distinct].
    - cbn. intuition.
    - destruct (N.eqb_spec y d) as [->|Ne]; cbn [In]; [intuition|]. rewrite IH. intuition.
  Qed.

  Lemma insert_distinct_nodup d l : NoDup l -> NoDup (insert_distinct d l).
  Proof.
    induction 1 as [|y r Hy Hr IH]; cbn [insert_distinct].
    - constructor; [intros []|constructor].
    - destruct (N.eqb_spec y d) as [->|Ne]; [constructor; assumption|].
      constructor; [|exact IH]. rewrite insert_distinct_in. intros [->|Hin]; [congruence|auto].
  Qed.

  Lemma records_by_distance_spec self_peer keys :
    NoDup (records_by_distance H self_peer keys) /\
    forall d, In d (records_by_distance H self_peer keys) <->
              exists k, In k keys /\ distance H (from_peer self_peer) (from_record_key k) = d.
  Proof.
    unfold records_by_distance.
    set (f := fun m k => insert_distinct (distance_u256 H (from_peer self_peer) (from_record_key k)) m).
    assert (G : forall ks m, NoDup m ->
      NoDup (fold_left f ks m) /\
      forall d, In d (fold_left f ks m) <->
        In d m \/ exists k, In k ks /\ distance H (from_peer self_peer) (from_record_key k) = d).
    { induction ks as [|k ks IH]; intros m Hm; cbn [fold_left].
      - split; [exact Hm|]. intros d. split; [auto|]. intros [Hd|(k & [] & _)]. exact Hd.
      - destruct (IH (f m k)) as [N1 N2]; [apply insert_distinct_nodup; exact Hm|].
        split; [exact N1|]. intros d. rewrite N2. unfold f at 1.
        rewrite insert_distinct_in, distance_u256_exact. cbn [In]. split.
        + intros [[->|Hd]|(k' & Hk' & E)]; eauto 6.
        + intros [Hd|(k' & [<-|Hk'] & E)]; eauto 6. }
    destruct (G keys [] (NoDup_nil _)) as [N1 N2]. split; [exact N1|].
    intros d. rewrite N2. cbn [In]. tauto.
  Qed.
End Metric.

(* ================================================================== instantiation with SHA-256 *)

Definition sha_peer (i : N) : bytes := [18; 32] ++ repeat i 32.   (* a sha2-256 multihash PeerId *)

(* F17 witness: 6 peers known, 7 requested => Ok with 6 entries, no report *)
Definition f17_peers : list bytes := map sha_peer [1; 2; 3; 4; 5; 6].
Definition f17_target : addr := AChunk (repeat 7 32).

Lemma requested_or_error_refuted_lemma :
  exists peers a n, ~ returns_requested_or_error (sort_peers_by_address sha256 peers a n) n.
Proof.
  exists f17_peers, f17_target, 7. vm_compute. discriminate.
Qed.

Example f17_witness_in_class : KnownShortList f17_peers 7.
Proof. unfold KnownShortList. vm_compute. split; [discriminate|reflexivity]. Qed.

(* the other boundary of the class, as modelled: 4 peers, 2 requested => NotEnoughPeers *)
Example few_peers_error :
  sort_peers_by_address sha256 (map sha_peer [1; 2; 3; 4]) f17_target 2 = NotEnoughPeers 4 5.
Proof. vm_compute. reflexivity. Qed.

(* non-vacuity: a successful sort of 6 peers, all of them requested *)
Example sort_ok_example :
  exists l, sort_peers_by_address sha256 f17_peers f17_target 6 = SortOk l /\ List.length l = 6%nat.
Proof. eexists. split; [vm_compute; reflexivity|reflexivity]. Qed.

Example closest_short_example :
  List.length (calculate_get_closest_peers sha256 (map (fun p => (p, 0)) f17_peers) f17_target (Some 7) None) = 6%nat.
Proof. vm_compute. reflexivity. Qed.

(* equal addresses in different forms are at distance zero; different bytes are not *)
Example zero_distance_example :
  distance sha256 (AChunk (repeat 7 32)) (AKey (repeat 7 32)) = 0 /\
  distance sha256 (AChunk (repeat 7 32)) (AChunk (repeat 8 32)) <> 0.
Proof. vm_compute. split; [reflexivity|discriminate]. Qed.

Example in_range_example :
  let d := distance sha256 f17_target (from_peer (sha_peer 3)) in
  In (sha_peer 3) (get_peers_in_range sha256 f17_peers f17_target d) /\
  ~ In (sha_peer 3) (get_peers_in_range sha256 f17_peers f17_target (d - 1)).
Proof.
  cbn zeta. rewrite !(range_filter_exact_lemma sha256 sha256_lt). split.
  - split; [vm_compute; tauto|lia].
  - intros [_ Hle]. revert Hle. vm_compute. intros Hle. apply Hle. reflexivity.
Qed.

Example candidates_example :
  get_replicate_candidates sha256 (kad_closest_local_peers sha256 f17_peers f17_target) f17_target (Some 0)
  = firstn 5 (kad_closest_local_peers sha256 f17_peers f17_target).
Proof. vm_compute. reflexivity. Qed.

(* the premise "H x < 2^256" is satisfiable: SHA-256 is such a digest, so every general theorem
   applies to the function the implementation is compared with *)
Example sha256_instance a b :
  distance sha256 a b < 2 ^ 256 /\ distance_u256 sha256 a b = distance sha256 a b.
Proof. split; [apply dist_bound_lemma, sha256_lt|apply distance_u256_exact, sha256_lt]. Qed.

Example outside_known_example : ~ KnownShortList f17_peers 6 /\
  returns_requested_or_error (sort_peers_by_address sha256 f17_peers f17_target 6) 6.
Proof.
  split; [unfold KnownShortList; vm_compute; intros [_ Hc]; discriminate|].
  vm_compute. reflexivity.
Qed.
