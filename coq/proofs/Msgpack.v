(* Round trip of the MessagePack model: mp_decode_as s (mp_encode v ++ rest) = Some (v, rest). *)
From Coq Require Import List NArith ZArith Bool Lia Arith ZifyBool ZifyNat ZifyN.
From V Require Import lib.Strs lib.Serde lib.Msgpack.
Import ListNotations.
Open Scope N_scope.
Ltac Zify.zify_post_hook ::= Z.div_mod_to_equations.

(* ---------------------------------------------------------------- byte lists *)
Lemma list_eqb_refl l : bytes_eqb l l = true.
Proof.
  unfold bytes_eqb. induction l as [|x l IH]; cbn [list_eqb]; [reflexivity|].
  rewrite N.eqb_refl, IH. reflexivity.
Qed.

Lemma list_eqb_eq a b : bytes_eqb a b = true -> a = b.
Proof.
  unfold bytes_eqb. revert b. induction a as [|x a IH]; intros [|y b] H; cbn [list_eqb] in H;
    try discriminate; [reflexivity|].
  apply andb_prop in H as [H1 H2]. apply N.eqb_eq in H1. subst. f_equal. auto.
Qed.

Lemma list_eqb_neq a b : a <> b -> bytes_eqb a b = false.
Proof.
  intros H. destruct (bytes_eqb a b) eqn:E; [|reflexivity]. apply list_eqb_eq in E. contradiction.
Qed.

Lemma take_app h r : take (length h) (h ++ r) = Some (h, r).
Proof.
  unfold take. rewrite app_length.
  replace (Nat.ltb (length h + length r) (length h)) with false
    by (symmetry; apply Nat.ltb_ge; lia).
  rewrite firstn_app, Nat.sub_diag, firstn_all, skipn_app, Nat.sub_diag, skipn_all.
  cbn. rewrite app_nil_r. reflexivity.
Qed.

Lemma take_n_app h r : take_n (len h) (h ++ r) = Some (h, r).
Proof.
  unfold take_n, len. rewrite app_length.
  replace (N.of_nat (length h + length r) <? N.of_nat (length h)) with false
    by (symmetry; apply N.ltb_ge; lia).
  rewrite Nat2N.id. apply take_app.
Qed.

(* ---------------------------------------------------------------- fixed-width integers *)
Lemma le_bytes_length k n : length (le_bytes k n) = k.
Proof. revert n. induction k as [|k IH]; intros n; cbn [le_bytes length]; [reflexivity|]. now rewrite IH. Qed.

Lemma be_bytes_length k n : length (be_bytes k n) = k.
Proof. unfold be_bytes. now rewrite rev_length, le_bytes_length. Qed.

Lemma le_bytes_wf k n : wf_bytes (le_bytes k n) = true.
Proof.
  revert n. induction k as [|k IH]; intros n; cbn [le_bytes wf_bytes forallb]; [reflexivity|].
  fold (wf_bytes (le_bytes k (n / 256))). rewrite IH, andb_true_r. unfold is_byte. apply N.ltb_lt.
  apply N.mod_lt. lia.
Qed.

Lemma le_val_le_bytes k n : n < 256 ^ N.of_nat k -> le_val (le_bytes k n) = n.
Proof.
  revert n. induction k as [|k IH]; intros n H.
  - cbn in H. cbn. lia.
  - cbn [le_bytes le_val]. rewrite IH.
    + pose proof (N.div_mod' n 256). lia.
    + rewrite Nat2N.inj_succ, N.pow_succ_r' in H. apply N.div_lt_upper_bound; lia.
Qed.

Lemma read_be_be k n r : n < 256 ^ N.of_nat k -> read_be k (be_bytes k n ++ r) = Some (n, r).
Proof.
  intros H. unfold read_be.
  rewrite <- (be_bytes_length k n) at 1. rewrite take_app.
  unfold be_bytes. rewrite rev_involutive, le_val_le_bytes by exact H. reflexivity.
Qed.

Lemma read_be_1 x r : read_be 1 (x :: r) = Some (x, r).
Proof. unfold read_be, take. cbn. f_equal. f_equal. lia. Qed.

(* ---------------------------------------------------------------- integers *)
Lemma dec_int_cc r : dec_int (204 :: r) = match read_be 1 r with Some (u, r') => Some (Z.of_N u, r') | None => None end.
Proof. reflexivity. Qed.
Lemma dec_int_cd r : dec_int (205 :: r) = match read_be 2 r with Some (u, r') => Some (Z.of_N u, r') | None => None end.
Proof. reflexivity. Qed.
Lemma dec_int_ce r : dec_int (206 :: r) = match read_be 4 r with Some (u, r') => Some (Z.of_N u, r') | None => None end.
Proof. reflexivity. Qed.
Lemma dec_int_cf r : dec_int (207 :: r) = match read_be 8 r with Some (u, r') => Some (Z.of_N u, r') | None => None end.
Proof. reflexivity. Qed.
Lemma dec_int_d0 r : dec_int (208 :: r) = read_be_signed 1 r. Proof. reflexivity. Qed.
Lemma dec_int_d1 r : dec_int (209 :: r) = read_be_signed 2 r. Proof. reflexivity. Qed.
Lemma dec_int_d2 r : dec_int (210 :: r) = read_be_signed 4 r. Proof. reflexivity. Qed.
Lemma dec_int_d3 r : dec_int (211 :: r) = read_be_signed 8 r. Proof. reflexivity. Qed.

Lemma dec_int_fixpos b r : b < 128 -> dec_int (b :: r) = Some (Z.of_N b, r).
Proof. intros H. unfold dec_int. apply N.ltb_lt in H. now rewrite H. Qed.

Lemma dec_int_fixneg b r : 224 <= b -> b < 256 -> dec_int (b :: r) = Some ((Z.of_N b - 256)%Z, r).
Proof.
  intros H1 H2. unfold dec_int.
  replace (b <? 128) with false by (symmetry; apply N.ltb_ge; lia).
  replace (224 <=? b) with true by (symmetry; apply N.leb_le; lia).
  replace (b <? 256) with true by (symmetry; apply N.ltb_lt; lia). reflexivity.
Qed.

Lemma dec_enc_uint n r : n < 2 ^ 64 -> dec_int (enc_uint n ++ r) = Some (Z.of_N n, r).
Proof.
  intros H. unfold enc_uint.
  destruct (N.ltb_spec n 128) as [H1|H1]; [cbn [app]; now apply dec_int_fixpos|].
  destruct (N.ltb_spec n 256) as [H2|H2]; [cbn [app]; now rewrite dec_int_cc, read_be_1|].
  destruct (N.ltb_spec n 65536) as [H3|H3].
  { cbn [app]. rewrite dec_int_cd, read_be_be; [reflexivity|]. exact H3. }
  destruct (N.ltb_spec n 4294967296) as [H4|H4].
  { cbn [app]. rewrite dec_int_ce, read_be_be; [reflexivity|]. exact H4. }
  cbn [app]. rewrite dec_int_cf, read_be_be; [reflexivity|]. exact H.
Qed.

Lemma read_be_signed_neg k (z : Z) r :
  (- Z.of_N (2 ^ (8 * N.of_nat k) / 2) <= z < 0)%Z ->
  read_be_signed k (be_bytes k (Z.to_N (Z.of_N (2 ^ (8 * N.of_nat k)) + z)) ++ r) = Some (z, r).
Proof.
  intros H. unfold read_be_signed.
  set (m := 2 ^ (8 * N.of_nat k)) in *.
  assert (Hm : m = 256 ^ N.of_nat k).
  { unfold m. rewrite N.pow_mul_r. reflexivity. }
  assert (Hpos : 0 < m) by (rewrite Hm; apply N.neq_0_lt_0, N.pow_nonzero; lia).
  rewrite read_be_be by (rewrite <- Hm; lia).
  replace (Z.to_N (Z.of_N m + z) <? m / 2) with false by (symmetry; apply N.ltb_ge; lia).
  f_equal. f_equal. lia.
Qed.

Lemma dec_enc_sint z r : (- 2 ^ 63 <= z < 2 ^ 63)%Z -> dec_int (enc_sint z ++ r) = Some (z, r).
Proof.
  intros H. unfold enc_sint.
  destruct (Z.leb_spec 0 z) as [H0|H0].
  { rewrite dec_enc_uint by lia. f_equal. f_equal. lia. }
  destruct (Z.leb_spec (-32) z) as [H1|H1].
  { cbn [app]. rewrite dec_int_fixneg by lia. f_equal. f_equal. lia. }
  destruct (Z.leb_spec (-128) z) as [H2|H2].
  { cbn [app]. rewrite dec_int_d0. unfold read_be_signed. rewrite read_be_1.
    change (2 ^ (8 * N.of_nat 1)) with 256. change (256 / 2) with 128.
    replace (Z.to_N (256 + z) <? 128) with false by (symmetry; apply N.ltb_ge; lia).
    f_equal. f_equal. lia. }
  destruct (Z.leb_spec (-32768) z) as [H3|H3].
  { cbn [app]. rewrite dec_int_d1.
    change 65536%Z with (Z.of_N (2 ^ (8 * N.of_nat 2))).
    apply read_be_signed_neg. cbn. lia. }
  destruct (Z.leb_spec (-2147483648) z) as [H4|H4].
  { cbn [app]. rewrite dec_int_d2.
    change 4294967296%Z with (Z.of_N (2 ^ (8 * N.of_nat 4))).
    apply read_be_signed_neg. cbn. lia. }
  cbn [app]. rewrite dec_int_d3.
  change 18446744073709551616%Z with (Z.of_N (2 ^ (8 * N.of_nat 8))).
  apply read_be_signed_neg. cbn. lia.
Qed.

(* ---------------------------------------------------------------- length prefixes *)
Lemma dl_str8 r : dec_len STR (217 :: r) = read_be 1 r. Proof. reflexivity. Qed.
Lemma dl_str16 r : dec_len STR (218 :: r) = read_be 2 r. Proof. reflexivity. Qed.
Lemma dl_str32 r : dec_len STR (219 :: r) = read_be 4 r. Proof. reflexivity. Qed.
Lemma dl_bin8 r : dec_len BIN (196 :: r) = read_be 1 r. Proof. reflexivity. Qed.
Lemma dl_bin16 r : dec_len BIN (197 :: r) = read_be 2 r. Proof. reflexivity. Qed.
Lemma dl_bin32 r : dec_len BIN (198 :: r) = read_be 4 r. Proof. reflexivity. Qed.
Lemma dl_arr16 r : dec_len ARR (220 :: r) = read_be 2 r. Proof. reflexivity. Qed.
Lemma dl_arr32 r : dec_len ARR (221 :: r) = read_be 4 r. Proof. reflexivity. Qed.
Lemma dl_map16 r : dec_len MAP (222 :: r) = read_be 2 r. Proof. reflexivity. Qed.
Lemma dl_map32 r : dec_len MAP (223 :: r) = read_be 4 r. Proof. reflexivity. Qed.

Lemma dl_fix F n r : n < fix_cap F ->
  dec_len F ((fix_base F + n) :: r) = Some (n, r).
Proof.
  intros H. unfold dec_len.
  replace ((fix_base F <=? fix_base F + n) && (fix_base F + n <? fix_base F + fix_cap F)) with true
    by (symmetry; apply andb_true_intro; split; [apply N.leb_le|apply N.ltb_lt]; lia).
  f_equal. f_equal. lia.
Qed.

Lemma dec_enc_len_STR n r : n < 2 ^ 32 -> dec_len STR (enc_len STR n ++ r) = Some (n, r).
Proof.
  intros H. unfold enc_len. cbn [fix_cap m8 m16 m32 STR].
  destruct (N.ltb_spec n 32) as [H0|H0]; [cbn [app]; now apply (dl_fix STR)|].
  destruct (N.ltb_spec n 256) as [H1|H1]; [cbn [app]; now rewrite dl_str8, read_be_1|].
  destruct (N.ltb_spec n 65536) as [H2|H2]; cbn [app].
  - rewrite dl_str16. now apply read_be_be.
  - rewrite dl_str32. now apply read_be_be.
Qed.

Lemma dec_enc_len_BIN n r : n < 2 ^ 32 -> dec_len BIN (enc_len BIN n ++ r) = Some (n, r).
Proof.
  intros H. unfold enc_len. cbn [fix_cap m8 m16 m32 BIN].
  destruct (N.ltb_spec n 0) as [H0|H0]; [lia|].
  destruct (N.ltb_spec n 256) as [H1|H1]; [cbn [app]; now rewrite dl_bin8, read_be_1|].
  destruct (N.ltb_spec n 65536) as [H2|H2]; cbn [app].
  - rewrite dl_bin16. now apply read_be_be.
  - rewrite dl_bin32. now apply read_be_be.
Qed.

Lemma dec_enc_len_ARR n r : n < 2 ^ 32 -> dec_len ARR (enc_len ARR n ++ r) = Some (n, r).
Proof.
  intros H. unfold enc_len. cbn [fix_cap m8 m16 m32 ARR].
  destruct (N.ltb_spec n 16) as [H0|H0]; [cbn [app]; now apply (dl_fix ARR)|].
  destruct (N.ltb_spec n 65536) as [H2|H2]; cbn [app].
  - rewrite dl_arr16. now apply read_be_be.
  - rewrite dl_arr32. now apply read_be_be.
Qed.

Lemma dec_enc_len_MAP n r : n < 2 ^ 32 -> dec_len MAP (enc_len MAP n ++ r) = Some (n, r).
Proof.
  intros H. unfold enc_len. cbn [fix_cap m8 m16 m32 MAP].
  destruct (N.ltb_spec n 16) as [H0|H0]; [cbn [app]; now apply (dl_fix MAP)|].
  destruct (N.ltb_spec n 65536) as [H2|H2]; cbn [app].
  - rewrite dl_map16. now apply read_be_be.
  - rewrite dl_map32. now apply read_be_be.
Qed.

Lemma enc_len_nonempty F n : enc_len F n <> [].
Proof.
  unfold enc_len. destruct (n <? fix_cap F); [discriminate|].
  destruct (m8 F); repeat match goal with |- context [if ?c then _ else _] => destruct c end; discriminate.
Qed.

Lemma enc_uint_nonempty n : enc_uint n <> [].
Proof. unfold enc_uint. repeat match goal with |- context [if ?c then _ else _] => destruct c end; discriminate. Qed.

Lemma enc_sint_nonempty z : enc_sint z <> [].
Proof.
  unfold enc_sint. destruct (Z.leb 0 z); [apply enc_uint_nonempty|].
  repeat match goal with |- context [if ?c then _ else _] => destruct c end; discriminate.
Qed.

Lemma app_nonempty {A} (a b : list A) : a <> [] -> a ++ b <> [].
Proof. destruct a; [congruence|discriminate]. Qed.

Lemma mp_encode_nonempty v : mp_encode v <> [].
Proof.
  induction v; cbn [mp_encode]; try discriminate; try assumption;
    try (apply app_nonempty, enc_len_nonempty).
  - apply enc_uint_nonempty.
  - apply enc_sint_nonempty.
Qed.

Lemma flat_map_len_ge (l : list sval) : (length l <= length (flat_map mp_encode l))%nat.
Proof.
  induction l as [|x l IH]; cbn [flat_map length]; [lia|].
  rewrite app_length. pose proof (mp_encode_nonempty x) as Hx.
  destruct (mp_encode x); [congruence|]. cbn [length]. lia.
Qed.

(* ---------------------------------------------------------------- combinators *)
Lemma dec_many_ok (f : decoder) (l : list sval) r :
  Forall (fun x => forall r, f (mp_encode x ++ r) = Some (x, r)) l ->
  dec_many f (length l) (flat_map mp_encode l ++ r) = Some (l, r).
Proof.
  intros H. induction H as [|x l Hx Hl IH]; [reflexivity|].
  cbn [length flat_map dec_many]. rewrite <- app_assoc, Hx, IH. reflexivity.
Qed.

Lemma list_pair_ind {A} (P : list A -> Prop) :
  P [] -> (forall a, P [a]) -> (forall a b l, P l -> P (a :: b :: l)) -> forall l, P l.
Proof.
  intros H0 H1 H2. fix IH 1. intros [|a [|b l]]; [exact H0|exact (H1 a)|exact (H2 a b l (IH l))].
Qed.

Fixpoint alt_ok (f g : decoder) (l : list sval) : Prop :=
  match l with
  | [] => True
  | a :: b :: l' =>
      (forall r, f (mp_encode a ++ r) = Some (a, r)) /\
      (forall r, g (mp_encode b ++ r) = Some (b, r)) /\ alt_ok f g l'
  | _ => False
  end.

Lemma dec_many2_ok (f g : decoder) (l : list sval) r :
  alt_ok f g l ->
  dec_many2 f g (N.to_nat (len l / 2)) (flat_map mp_encode l ++ r) = Some (l, r).
Proof.
  revert r. induction l as [|a|a b l IH] using list_pair_ind; intros r H.
  - reflexivity.
  - destruct H.
  - destruct H as (Ha & Hb & Hl).
    assert (E : N.to_nat (len (a :: b :: l) / 2) = S (N.to_nat (len l / 2))).
    { unfold len. cbn [length]. lia. }
    rewrite E. cbn [flat_map dec_many2]. rewrite <- !app_assoc, Ha, Hb, IH by exact Hl. reflexivity.
Qed.

Lemma dec_each_ok (fs : list decoder) (l : list sval) r :
  Forall2 (fun (f : decoder) x => forall r, f (mp_encode x ++ r) = Some (x, r)) fs l ->
  dec_each fs (flat_map mp_encode l ++ r) = Some (l, r).
Proof.
  intros H. revert r. induction H as [|f x fs l Hx Hl IH]; intros r; [reflexivity|].
  cbn [flat_map dec_each]. rewrite <- app_assoc, Hx, IH. reflexivity.
Qed.

Lemma iw_eqb_eq a b : iw_eqb a b = true -> a = b.
Proof. destruct a, b; cbn; congruence. Qed.

Lemma in_u_bound w n : in_u w n = true -> n < 2 ^ 64.
Proof.
  unfold in_u. intros H. apply N.ltb_lt in H.
  eapply N.lt_le_trans; [exact H|]. apply N.pow_le_mono_r; [lia|]. destruct w; cbn; lia.
Qed.

Lemma in_i_bound w z : in_i w z = true -> (- 2 ^ 63 <= z < 2 ^ 63)%Z.
Proof.
  unfold in_i. intros H. apply andb_prop in H as [H1 H2].
  apply Z.leb_le in H1. apply Z.ltb_lt in H2.
  destruct w; cbn in H1, H2; lia.
Qed.

Lemma bytes_ok_len l : bytes_ok l = true -> len l < 2 ^ 32.
Proof. unfold bytes_ok. intros H. apply andb_prop in H as [_ H]. now apply N.ltb_lt in H. Qed.

(* ---------------------------------------------------------------- the round trip *)
Definition rt (s : shape) : Prop :=
  forall v r, has_shape s v = true -> wf v = true -> mp_decode_as s (mp_encode v ++ r) = Some (v, r).

Lemma expect_name_ok n r : bytes_ok n = true -> expect_name n ((enc_len STR (len n) ++ n) ++ r) = Some r.
Proof.
  intros H. unfold expect_name. rewrite <- !app_assoc, dec_enc_len_STR by (now apply bytes_ok_len).
  rewrite take_n_app, list_eqb_refl. reflexivity.
Qed.

Lemma expect_name_other n m r :
  bytes_ok m = true -> bytes_eqb n m = false -> expect_name n ((enc_len STR (len m) ++ m) ++ r) = None.
Proof.
  intros H Hne. unfold expect_name. rewrite <- !app_assoc, dec_enc_len_STR by (now apply bytes_ok_len).
  rewrite take_n_app.
  destruct (bytes_eqb m n) eqn:E; [|reflexivity].
  apply list_eqb_eq in E. subst. rewrite list_eqb_refl in Hne. discriminate.
Qed.

Lemma dl_map1 X : dec_len MAP (129 :: X) = Some (1, X). Proof. reflexivity. Qed.
Lemma dl_str_of_map1 X : dec_len STR (129 :: X) = None. Proof. reflexivity. Qed.

Lemma dec_len_MAP_of_STR n r : dec_len MAP (enc_len STR n ++ r) = None.
Proof.
  unfold enc_len. cbn [fix_cap m8 m16 m32 fix_base STR].
  destruct (N.ltb_spec n 32) as [H0|H0].
  - cbn [app]. unfold dec_len. cbn [fix_cap m8 m16 m32 fix_base MAP].
    replace (128 <=? 160 + n) with true by (symmetry; apply N.leb_le; lia).
    replace (160 + n <? 128 + 16) with false by (symmetry; apply N.ltb_ge; lia).
    replace (160 + n =? 222) with false by (symmetry; apply N.eqb_neq; lia).
    replace (160 + n =? 223) with false by (symmetry; apply N.eqb_neq; lia).
    reflexivity.
  - destruct (n <? 256); [reflexivity|]. destruct (n <? 65536); reflexivity.
Qed.

Lemma all2b_length fs l : all2b fs l = true -> length l = length fs.
Proof.
  revert l. induction fs as [|f fs IH]; intros [|x l] H; cbn [all2b] in H; try discriminate; [reflexivity|].
  apply andb_prop in H as [_ H]. cbn [length]. f_equal. auto.
Qed.

Lemma tuple_F2 ss l :
  Forall rt ss -> all2b (map has_shape ss) l = true -> forallb wf l = true ->
  Forall2 (fun (f : decoder) x => forall r, f (mp_encode x ++ r) = Some (x, r)) (map mp_decode_as ss) l.
Proof.
  intros H. revert l. induction H as [|s ss Hs Hss IH]; intros [|x l] Ha Hw; cbn [map all2b] in *;
    try discriminate; [constructor|].
  apply andb_prop in Ha as [Ha1 Ha2]. cbn [forallb] in Hw. apply andb_prop in Hw as [Hw1 Hw2].
  constructor; [intros r; now apply Hs|now apply IH].
Qed.

Lemma map_alt_ok sk sv l :
  rt sk -> rt sv -> alt_all (has_shape sk) (has_shape sv) l = true -> forallb wf l = true ->
  alt_ok (mp_decode_as sk) (mp_decode_as sv) l.
Proof.
  intros Hk Hv. induction l as [|a|a b l IH] using list_pair_ind; intros Ha Hw; cbn [alt_all alt_ok] in *.
  - exact I.
  - discriminate.
  - apply andb_prop in Ha as [Ha Ha3]. apply andb_prop in Ha as [Ha1 Ha2].
    cbn [forallb] in Hw. apply andb_prop in Hw as [Hw1 Hw]. apply andb_prop in Hw as [Hw2 Hw3].
    repeat split; [intros r; now apply Hk|intros r; now apply Hv|now apply IH].
Qed.

Lemma first_match_variant v vs :
  first_match (map (fun s1 => (variant_head s1 v, has_shape s1 v)) vs) = true ->
  (exists m, v = VUnitVariant m) \/ (exists m v', v = VVariant m v').
Proof.
  induction vs as [|s1 vs IH]; cbn [map first_match]; [discriminate|].
  destruct (variant_head s1 v) as [[|]|] eqn:Hh; [|exact IH|discriminate].
  intros _. destruct s1; cbn [variant_head] in Hh; try discriminate.
  - destruct v; try discriminate. left. eauto.
  - destruct v; try discriminate. right. eauto.
Qed.

Lemma some_inj {A} (a b : A) : Some a = Some b -> a = b.
Proof. congruence. Qed.

Lemma variant_mismatch s1 v r :
  variant_head s1 v = Some false -> wf v = true ->
  ((exists m, v = VUnitVariant m) \/ (exists m v', v = VVariant m v')) ->
  mp_decode_as s1 (mp_encode v ++ r) = None.
Proof.
  intros Hh Hw [[m ->]|[m [v' ->]]]; destruct s1; cbn [variant_head] in Hh; try discriminate;
    apply some_inj in Hh; cbn [wf] in Hw; cbn [mp_encode mp_decode_as].
  - rewrite expect_name_other; auto.
  - rewrite <- app_assoc, dec_len_MAP_of_STR. reflexivity.
  - cbn [app]. unfold expect_name. rewrite dl_str_of_map1. reflexivity.
  - apply andb_prop in Hw as [Hw1 Hw2].
    cbn [app]. rewrite dl_map1. change (negb (1 =? 1)) with false. cbv iota.
    rewrite <- app_assoc, expect_name_other; auto.
Qed.

Theorem mp_roundtrip_all : forall s, rt s.
Proof.
  induction s using shape_ind_nested; intros v r Hs Hw.
  - (* SBool *) destruct v; cbn [has_shape] in Hs; try discriminate Hs. destruct b; reflexivity.
  - (* SU *) destruct v; cbn [has_shape] in Hs; try discriminate Hs.
    apply iw_eqb_eq in Hs. subst. cbn [wf] in Hw. cbn [mp_encode mp_decode_as].
    rewrite dec_enc_uint by (eapply in_u_bound; eauto). rewrite N2Z.id, Hw.
    replace (0 <=? Z.of_N n)%Z with true by (symmetry; apply Z.leb_le; lia). reflexivity.
  - (* SI *) destruct v; cbn [has_shape] in Hs; try discriminate Hs.
    apply iw_eqb_eq in Hs. subst. cbn [wf] in Hw. cbn [mp_encode mp_decode_as].
    rewrite dec_enc_sint by (eapply in_i_bound; eauto). rewrite Hw. reflexivity.
  - (* SF32 *) destruct v; cbn [has_shape] in Hs; try discriminate Hs.
    cbn [wf] in Hw. apply N.ltb_lt in Hw. cbn [mp_encode app mp_decode_as].
    change (202 =? 202) with true. cbv iota. rewrite read_be_be by exact Hw. reflexivity.
  - (* SF64 *) destruct v; cbn [has_shape] in Hs; try discriminate Hs.
    cbn [wf] in Hw. apply N.ltb_lt in Hw. cbn [mp_encode app mp_decode_as].
    change (203 =? 203) with true. cbv iota. rewrite read_be_be by exact Hw. reflexivity.
  - (* SStr *) destruct v; cbn [has_shape] in Hs; try discriminate Hs.
    cbn [wf] in Hw. apply andb_prop in Hw as [Hw1 Hw2]. cbn [mp_encode mp_decode_as].
    rewrite <- app_assoc, dec_enc_len_STR by (now apply bytes_ok_len).
    rewrite take_n_app, Hw2. reflexivity.
  - (* SBytes *) destruct v; cbn [has_shape] in Hs; try discriminate Hs.
    cbn [wf] in Hw. cbn [mp_encode mp_decode_as].
    rewrite <- app_assoc, dec_enc_len_BIN by (now apply bytes_ok_len).
    rewrite take_n_app. reflexivity.
  - (* SOption *) destruct v; cbn [has_shape] in Hs; try discriminate Hs; [reflexivity|].
    cbn [wf] in Hw. apply andb_prop in Hw as [Hw Hn]. apply negb_true_iff in Hn.
    unfold starts_nil in Hn. pose proof (IHs v r Hs Hw) as IH'. cbn [mp_encode].
    revert IH'. destruct (mp_encode v) as [|b t]; [discriminate|]. intros IH'.
    cbn [app mp_decode_as] in *. rewrite Hn, IH'. reflexivity.
  - (* SUnit *) destruct v; cbn [has_shape] in Hs; try discriminate Hs. reflexivity.
  - (* SSeq *) destruct v; cbn [has_shape] in Hs; try discriminate Hs.
    cbn [wf] in Hw. apply andb_prop in Hw as [Hw1 Hw2]. apply N.ltb_lt in Hw1.
    cbn [mp_encode]. rewrite <- app_assoc. cbn [mp_decode_as].
    rewrite dec_enc_len_ARR by exact Hw1.
    replace (len (flat_map mp_encode l ++ r) <? len l) with false
      by (symmetry; apply N.ltb_ge; unfold len; rewrite app_length; pose proof (flat_map_len_ge l); lia).
    unfold len at 1. rewrite Nat2N.id, dec_many_ok; [reflexivity|].
    apply Forall_forall. intros x Hx r'. rewrite forallb_forall in Hs, Hw2. apply IHs; auto.
  - (* STuple *) destruct v; cbn [has_shape] in Hs; try discriminate Hs.
    rename l0 into xs.
    cbn [wf] in Hw. apply andb_prop in Hw as [Hw1 Hw2]. apply N.ltb_lt in Hw1.
    cbn [mp_encode]. rewrite <- app_assoc. cbn [mp_decode_as].
    rewrite dec_enc_len_ARR by exact Hw1.
    pose proof (all2b_length _ _ Hs) as Hlen. rewrite map_length in Hlen.
    replace (len xs =? len l) with true by (symmetry; apply N.eqb_eq; unfold len; congruence).
    cbn [negb]. rewrite dec_each_ok; [reflexivity|]. now apply tuple_F2.
  - (* SUnitVariant *) destruct v; cbn [has_shape] in Hs; try discriminate Hs.
    apply list_eqb_eq in Hs. subst. cbn [wf] in Hw. cbn [mp_encode mp_decode_as].
    rewrite expect_name_ok by exact Hw. reflexivity.
  - (* SVariant *) destruct v; cbn [has_shape] in Hs; try discriminate Hs.
    apply andb_prop in Hs as [Hs1 Hs2]. apply list_eqb_eq in Hs1. subst.
    cbn [wf] in Hw. apply andb_prop in Hw as [Hw1 Hw2].
    cbn [mp_encode app mp_decode_as]. rewrite dl_map1. change (negb (1 =? 1)) with false. cbv iota.
    rewrite <- app_assoc, expect_name_ok by exact Hw1. rewrite IHs by assumption. reflexivity.
  - (* SEnum *) cbn [has_shape] in Hs. cbn [mp_decode_as].
    pose proof (first_match_variant _ _ Hs) as Hv.
    induction H as [|s1 vs Hs1 Hvs IH]; cbn [map first_match dec_alt] in *; [discriminate|].
    destruct (variant_head s1 v) as [[|]|] eqn:Hh.
    + rewrite Hs1 by assumption. reflexivity.
    + rewrite variant_mismatch by assumption. now apply IH.
    + discriminate.
  - (* SMap *) destruct v; cbn [has_shape] in Hs; try discriminate Hs.
    cbn [wf] in Hw. apply andb_prop in Hw as [Hw1 Hw2]. apply N.ltb_lt in Hw1.
    cbn [mp_encode]. rewrite <- app_assoc. cbn [mp_decode_as].
    rewrite dec_enc_len_MAP by exact Hw1.
    replace (len (flat_map mp_encode l ++ r) <? 2 * (len l / 2)) with false
      by (symmetry; apply N.ltb_ge; unfold len; rewrite app_length; pose proof (flat_map_len_ge l); lia).
    rewrite dec_many2_ok; [reflexivity|]. now apply map_alt_ok.
Qed.

Theorem mp_roundtrip s v r :
  has_shape s v = true -> wf v = true -> mp_decode_as s (mp_encode v ++ r) = Some (v, r).
Proof. apply mp_roundtrip_all. Qed.

Corollary mp_from_slice_encode s v :
  has_shape s v = true -> wf v = true -> mp_from_slice s (mp_encode v) = Some v.
Proof.
  intros Hs Hw. unfold mp_from_slice. rewrite <- (app_nil_r (mp_encode v)), mp_roundtrip by assumption.
  reflexivity.
Qed.

(* encodings of one shape are prefix-free, hence injective even when followed by other data *)
Corollary mp_encode_prefix_free s v1 v2 r1 r2 :
  has_shape s v1 = true -> wf v1 = true -> has_shape s v2 = true -> wf v2 = true ->
  mp_encode v1 ++ r1 = mp_encode v2 ++ r2 -> v1 = v2 /\ r1 = r2.
Proof.
  intros S1 W1 S2 W2 E.
  pose proof (mp_roundtrip s v1 r1 S1 W1) as A. rewrite E, mp_roundtrip in A by assumption.
  injection A as -> ->. auto.
Qed.

Corollary mp_encode_injective s v1 v2 :
  has_shape s v1 = true -> wf v1 = true -> has_shape s v2 = true -> wf v2 = true ->
  mp_encode v1 = mp_encode v2 -> v1 = v2.
Proof.
  intros S1 W1 S2 W2 E.
  destruct (mp_encode_prefix_free s v1 v2 [] [] S1 W1 S2 W2); [now rewrite E|assumption].
Qed.

(* non-vacuity: a tree using every constructor *)
From Coq Require Import String.
Definition ex_shape : shape :=
  STuple [SBool; SU W64; SU W16; SI W32; SI W64; SF32; SF64; SStr; SBytes; SOption (SU W8); SOption (SU W8);
          SUnit; SSeq (SU W8);
          SEnum [SUnitVariant (hx "41"%string); SVariant (hx "4162"%string) (STuple [SBool; SU W8])];
          SEnum [SUnitVariant (hx "41"%string); SVariant (hx "4162"%string) (STuple [SBool; SU W8])];
          SMap SStr (SI W8)].
Definition ex_val : sval :=
  VTuple [VBool true; VU W64 18446744073709551615; VU W16 300; VI W32 (-40000)%Z; VI W64 (-9223372036854775808)%Z;
          VF32 1065353216; VF64 4607182418800017408; VStr (hx "c3a9"%string); VBytes (hx "00ff80"%string); VNone; VSome (VU W8 200);
          VUnit; VSeq [VU W8 1; VU W8 128];
          VUnitVariant (hx "41"%string); VVariant (hx "4162"%string) (VTuple [VBool false; VU W8 7]);
          VMap [VStr (hx "6b"%string); VI W8 (-33)%Z]].
Example ex_roundtrip :
  has_shape ex_shape ex_val = true /\ wf ex_val = true /\
  mp_decode_as ex_shape (mp_encode ex_val ++ [1; 2]) = Some (ex_val, [1; 2]).
Proof. vm_compute. repeat split. Qed.

(* what is excluded: `Some(None)` reads back as `None` (documented rmp-serde loss) *)
Example some_none_not_roundtrip :
  mp_decode_as (SOption (SOption SBool)) (mp_encode (VSome VNone)) = Some (VNone, []).
Proof. reflexivity. Qed.
